/-
  C06 — every well-nested stream is the flattening of a forest (so that the pruning theorem of
  `SanTree.lean` speaks about all well-nested inputs).
-/
import Genshi.Lemmas.Core
set_option linter.unusedSimpArgs false
namespace Genshi

/-- from inside an open element `t`: up to the point where `t` is closed the stream is a forest -/
theorem balance_split : ∀ (n : Nat) (s : Stream), s.length ≤ n → ∀ (t : QName) (st st' : List QName),
    balance (t :: st) s = some st' → st'.length ≤ st.length →
    ∃ ns rest, okList ns = true ∧ s = flattenList ns ++ .end_ t :: rest ∧ balance st rest = some st' := by
  intro n
  induction n with
  | zero =>
    intro s hl t st st' hb hlen
    have : s = [] := List.length_eq_zero_iff.mp (Nat.le_zero.mp hl)
    subst this
    simp [balance] at hb; subst hb
    simp at hlen; omega
  | succ n ih =>
    intro s hl t st st' hb hlen
    cases s with
    | nil =>
      simp [balance] at hb; subst hb
      simp at hlen; omega
    | cons e r =>
      have hlr : r.length ≤ n := by simp at hl; omega
      cases e with
      | start u a =>
        simp only [balance] at hb
        obtain ⟨ns1, rest1, hok1, hr, hb1⟩ := ih r hlr u (t :: st) st' hb (by simp; omega)
        have hl1 : rest1.length ≤ n := by
          have := congrArg List.length hr
          simp at this; omega
        obtain ⟨ns2, rest2, hok2, hr2, hb2⟩ := ih rest1 hl1 t st st' hb1 hlen
        refine ⟨.elem u a ns1 :: ns2, rest2, ?_, ?_, hb2⟩
        · simp [okList, Node.ok, hok1, hok2]
        · simp [flattenList, Node.flatten, hr, hr2]
      | end_ u =>
        simp only [balance] at hb
        by_cases hu : u = t
        · subst hu
          simp only [↓reduceIte] at hb
          exact ⟨[], r, rfl, by simp [flattenList], hb⟩
        · simp [hu] at hb
      | text x f =>
        rw [balance_skip _ (by simp [Event.isStartEnd])] at hb
        obtain ⟨ns, rest, hok, hr, hb'⟩ := ih r hlr t st st' hb hlen
        exact ⟨.leaf (.text x f) :: ns, rest, by simp [okList, Node.ok, Event.isStartEnd, hok],
          by simp [flattenList, Node.flatten, hr], hb'⟩
      | comment x =>
        rw [balance_skip _ (by simp [Event.isStartEnd])] at hb
        obtain ⟨ns, rest, hok, hr, hb'⟩ := ih r hlr t st st' hb hlen
        exact ⟨.leaf (.comment x) :: ns, rest, by simp [okList, Node.ok, Event.isStartEnd, hok],
          by simp [flattenList, Node.flatten, hr], hb'⟩
      | pi x y =>
        rw [balance_skip _ (by simp [Event.isStartEnd])] at hb
        obtain ⟨ns, rest, hok, hr, hb'⟩ := ih r hlr t st st' hb hlen
        exact ⟨.leaf (.pi x y) :: ns, rest, by simp [okList, Node.ok, Event.isStartEnd, hok],
          by simp [flattenList, Node.flatten, hr], hb'⟩
      | doctype x y z =>
        rw [balance_skip _ (by simp [Event.isStartEnd])] at hb
        obtain ⟨ns, rest, hok, hr, hb'⟩ := ih r hlr t st st' hb hlen
        exact ⟨.leaf (.doctype x y z) :: ns, rest, by simp [okList, Node.ok, Event.isStartEnd, hok],
          by simp [flattenList, Node.flatten, hr], hb'⟩
      | xmlDecl x y z =>
        rw [balance_skip _ (by simp [Event.isStartEnd])] at hb
        obtain ⟨ns, rest, hok, hr, hb'⟩ := ih r hlr t st st' hb hlen
        exact ⟨.leaf (.xmlDecl x y z) :: ns, rest, by simp [okList, Node.ok, Event.isStartEnd, hok],
          by simp [flattenList, Node.flatten, hr], hb'⟩
      | startNs x y =>
        rw [balance_skip _ (by simp [Event.isStartEnd])] at hb
        obtain ⟨ns, rest, hok, hr, hb'⟩ := ih r hlr t st st' hb hlen
        exact ⟨.leaf (.startNs x y) :: ns, rest, by simp [okList, Node.ok, Event.isStartEnd, hok],
          by simp [flattenList, Node.flatten, hr], hb'⟩
      | endNs x =>
        rw [balance_skip _ (by simp [Event.isStartEnd])] at hb
        obtain ⟨ns, rest, hok, hr, hb'⟩ := ih r hlr t st st' hb hlen
        exact ⟨.leaf (.endNs x) :: ns, rest, by simp [okList, Node.ok, Event.isStartEnd, hok],
          by simp [flattenList, Node.flatten, hr], hb'⟩
      | startCdata =>
        rw [balance_skip _ (by simp [Event.isStartEnd])] at hb
        obtain ⟨ns, rest, hok, hr, hb'⟩ := ih r hlr t st st' hb hlen
        exact ⟨.leaf .startCdata :: ns, rest, by simp [okList, Node.ok, Event.isStartEnd, hok],
          by simp [flattenList, Node.flatten, hr], hb'⟩
      | endCdata =>
        rw [balance_skip _ (by simp [Event.isStartEnd])] at hb
        obtain ⟨ns, rest, hok, hr, hb'⟩ := ih r hlr t st st' hb hlen
        exact ⟨.leaf .endCdata :: ns, rest, by simp [okList, Node.ok, Event.isStartEnd, hok],
          by simp [flattenList, Node.flatten, hr], hb'⟩

/-- a well-nested stream is the flattening of a forest whose leaves are not START/END events -/
theorem wellNested_is_flatten : ∀ (n : Nat) (s : Stream), s.length ≤ n → WellNested s →
    ∃ ns, okList ns = true ∧ s = flattenList ns := by
  intro n
  induction n with
  | zero =>
    intro s hl _
    have : s = [] := List.length_eq_zero_iff.mp (Nat.le_zero.mp hl)
    subst this
    exact ⟨[], rfl, rfl⟩
  | succ n ih =>
    intro s hl hw
    cases s with
    | nil => exact ⟨[], rfl, rfl⟩
    | cons e r =>
      have hlr : r.length ≤ n := by simp at hl; omega
      unfold WellNested at hw
      cases e with
      | start u a =>
        simp only [balance] at hw
        obtain ⟨ns1, rest, hok1, hr, hb⟩ := balance_split r.length r (Nat.le_refl _) u [] [] hw (by simp)
        have hl1 : rest.length ≤ n := by
          have := congrArg List.length hr
          simp at this; omega
        obtain ⟨ns2, hok2, hr2⟩ := ih rest hl1 hb
        exact ⟨.elem u a ns1 :: ns2, by simp [okList, Node.ok, hok1, hok2],
          by simp [flattenList, Node.flatten, hr, hr2]⟩
      | end_ u => simp [balance] at hw
      | text x f =>
        rw [balance_skip _ (by simp [Event.isStartEnd])] at hw
        obtain ⟨ns, hok, hr⟩ := ih r hlr hw
        exact ⟨.leaf (.text x f) :: ns, by simp [okList, Node.ok, Event.isStartEnd, hok],
          by simp [flattenList, Node.flatten, hr]⟩
      | comment x =>
        rw [balance_skip _ (by simp [Event.isStartEnd])] at hw
        obtain ⟨ns, hok, hr⟩ := ih r hlr hw
        exact ⟨.leaf (.comment x) :: ns, by simp [okList, Node.ok, Event.isStartEnd, hok],
          by simp [flattenList, Node.flatten, hr]⟩
      | pi x y =>
        rw [balance_skip _ (by simp [Event.isStartEnd])] at hw
        obtain ⟨ns, hok, hr⟩ := ih r hlr hw
        exact ⟨.leaf (.pi x y) :: ns, by simp [okList, Node.ok, Event.isStartEnd, hok],
          by simp [flattenList, Node.flatten, hr]⟩
      | doctype x y z =>
        rw [balance_skip _ (by simp [Event.isStartEnd])] at hw
        obtain ⟨ns, hok, hr⟩ := ih r hlr hw
        exact ⟨.leaf (.doctype x y z) :: ns, by simp [okList, Node.ok, Event.isStartEnd, hok],
          by simp [flattenList, Node.flatten, hr]⟩
      | xmlDecl x y z =>
        rw [balance_skip _ (by simp [Event.isStartEnd])] at hw
        obtain ⟨ns, hok, hr⟩ := ih r hlr hw
        exact ⟨.leaf (.xmlDecl x y z) :: ns, by simp [okList, Node.ok, Event.isStartEnd, hok],
          by simp [flattenList, Node.flatten, hr]⟩
      | startNs x y =>
        rw [balance_skip _ (by simp [Event.isStartEnd])] at hw
        obtain ⟨ns, hok, hr⟩ := ih r hlr hw
        exact ⟨.leaf (.startNs x y) :: ns, by simp [okList, Node.ok, Event.isStartEnd, hok],
          by simp [flattenList, Node.flatten, hr]⟩
      | endNs x =>
        rw [balance_skip _ (by simp [Event.isStartEnd])] at hw
        obtain ⟨ns, hok, hr⟩ := ih r hlr hw
        exact ⟨.leaf (.endNs x) :: ns, by simp [okList, Node.ok, Event.isStartEnd, hok],
          by simp [flattenList, Node.flatten, hr]⟩
      | startCdata =>
        rw [balance_skip _ (by simp [Event.isStartEnd])] at hw
        obtain ⟨ns, hok, hr⟩ := ih r hlr hw
        exact ⟨.leaf .startCdata :: ns, by simp [okList, Node.ok, Event.isStartEnd, hok],
          by simp [flattenList, Node.flatten, hr]⟩
      | endCdata =>
        rw [balance_skip _ (by simp [Event.isStartEnd])] at hw
        obtain ⟨ns, hok, hr⟩ := ih r hlr hw
        exact ⟨.leaf .endCdata :: ns, by simp [okList, Node.ok, Event.isStartEnd, hok],
          by simp [flattenList, Node.flatten, hr]⟩

theorem wellNested_flatten_forest {s : Stream} (h : WellNested s) :
    ∃ ns, okList ns = true ∧ s = flattenList ns :=
  wellNested_is_flatten s.length s (Nat.le_refl _) h

end Genshi

/-
  C03 — the rewritten expression, evaluated by Python, computes what the documented template
  semantics prescribes for the original expression (`xform_correct`).
-/
import Genshi.Model.PyEval
import Genshi.Model.PyParse
namespace Genshi.Py

def reserved : List Str := [cs!"__data__", cs!"_lookup_name", cs!"_lookup_attr", cs!"_lookup_item"]

def isStarredE : PyExpr → Bool
  | .starred _ => true
  | _ => false

mutual
/-- a target that only binds names (no attribute / item assignment) -/
def simpleTarget : PyExpr → Bool
  | .name _ => true
  | .tuple elts => simpleTargetL elts
  | .list elts => simpleTargetL elts
  | .starred e => simpleTarget e
  | _ => false
def simpleTargetL : List PyExpr → Bool
  | [] => true
  | e :: es => simpleTarget e && simpleTargetL es
end

def freeOfReserved (names : List Str) : Bool := names.all fun n => !reserved.contains n

def isCompE : PyExpr → Bool
  | .comp _ _ _ _ => true
  | _ => false

def isCmpE : PyExpr → Bool
  | .cmpRhs _ _ => true
  | _ => false

def isDictItemE : PyExpr → Bool
  | .dictItem _ _ => true
  | _ => false

def optIsParam : Option PyExpr → Bool
  | none => true
  | some p => isParam p

mutual
/-- the side conditions of `xform_correct`: no parameter or loop variable is named like one of
    the helper names of the rewriting, loop targets only bind names, helper nodes are where
    they belong -/
def okScopes : PyExpr → Bool
  | .name _ => true
  | .const _ => true
  | .boolOp _ vs => okScopesL vs
  | .binOp l _ r => okScopes l && okScopes r
  | .unaryOp _ e => okScopes e
  | .lambda po ar va ko ka body =>
      freeOfReserved (targetNamesL po ++ targetNamesL ar ++ targetNamesL ko ++ targetNamesO va ++ targetNamesO ka)
        && po.all isParam && ar.all isParam && ko.all isParam && optIsParam va && optIsParam ka
        && okScopesL po && okScopesL ar && okScopesL ko && okScopes body
  | .ifExp t b o => okScopes t && okScopes b && okScopes o
  | .dict items => items.all isDictItemE && okScopesL items
  | .listComp elt gens => freeOfReserved (compNames gens) && gens.all isCompE && okScopes elt && okScopesL gens
  | .genExp elt gens => freeOfReserved (compNames gens) && gens.all isCompE && okScopes elt && okScopesL gens
  | .yield_ v => okScopesO v
  | .compare l rest => rest.all isCmpE && okScopes l && okScopesL rest
  | .call f args kws => kws.all isKw && okScopes f && okScopesL args && okScopesL kws
  | .attribute v _ => !isStarredE v && okScopes v
  | .subscript v s => !isStarredE v && !isStarredE s && okScopes v && okScopes s
  | .slice l u st => okScopesO l && okScopesO u && okScopesO st
  | .starred e => okScopes e
  | .list elts => okScopesL elts
  | .tuple elts => okScopesL elts
  | .unsupported _ => true
  | .keyword _ v => okScopes v
  | .comp t it ifs _ => simpleTarget t && okScopes it && okScopesL ifs
  | .param _ _ d => okScopesO d
  | .dictItem k v => okScopesO k && okScopes v
  | .cmpRhs _ e => okScopes e
def okScopesL : List PyExpr → Bool
  | [] => true
  | e :: es => okScopes e && okScopesL es
def okScopesO : Option PyExpr → Bool
  | none => true
  | some e => okScopes e
end

/-! ### the scope invariant -/

section
variable {V E : Type}

/-- the transformer's `locals` stack describes the evaluation environment: a name is in it iff
    it is declared in a local scope (or is one of `CONSTANTS`) -/
def Inv (L : List (List Str)) (env : Env V) : Prop :=
  ∀ id, inLocals L id = true ↔ ((env.find id).isSome = true ∨ id ∈ constantNames)

def Res (env : Env V) : Prop := ∀ r ∈ reserved, env.find r = none

theorem inLocals_append (L : List (List Str)) (names : List Str) (id : Str) :
    inLocals (L ++ [names]) id = (inLocals L id || names.contains id) := by
  simp [inLocals, List.any_append]

theorem find_append (a b : Env V) (id : Str) :
    (a ++ b).find id = match a.find id with | some v => some v | none => b.find id := by
  induction a with
  | nil => rfl
  | cons p r ih =>
    obtain ⟨n, v⟩ := p
    simp only [List.cons_append, Env.find]
    split
    · rfl
    · exact ih

theorem find_declared (names : List Str) (f : Str → Option V) (id : Str) :
    (Env.find (names.map fun n => (n, f n)) id).isSome = names.contains id := by
  induction names with
  | nil => rfl
  | cons n r ih =>
    simp only [List.map_cons, Env.find, List.contains_cons]
    by_cases h : n = id
    · simp [h]
    · have : (id == n) = false := by simpa using fun e => h e.symm
      simp [h, ih, this]

theorem find_scope_isSome (names : List Str) (f : Str → Option V) (env : Env V) (id : Str) :
    (Env.find ((names.map fun n => (n, f n)) ++ env) id).isSome = (names.contains id || (env.find id).isSome) := by
  rw [find_append]
  have := find_declared names f id
  cases h : Env.find (names.map fun n => (n, f n)) id with
  | some v => simp [h] at this; simp [this]
  | none => simp [h] at this; simp [this]

theorem inv_scope {L : List (List Str)} {env : Env V} (h : Inv L env) (names : List Str) (f : Str → Option V) :
    Inv (L ++ [names]) ((names.map fun n => (n, f n)) ++ env) := by
  intro id
  rw [inLocals_append, find_scope_isSome, Bool.or_eq_true, h id]
  simp only [Bool.or_eq_true]
  constructor
  · rintro ((a | b) | c)
    · exact Or.inl (Or.inr a)
    · exact Or.inr b
    · exact Or.inl (Or.inl c)
  · rintro ((a | b) | c)
    · exact Or.inr a
    · exact Or.inl (Or.inl b)
    · exact Or.inl (Or.inr c)

theorem res_scope {env : Env V} (h : Res env) (names : List Str) (f : Str → Option V)
    (hn : freeOfReserved names = true) : Res ((names.map fun n => (n, f n)) ++ env) := by
  intro r hr
  have h1 : names.contains r = false := by
    simp only [freeOfReserved, List.all_eq_true, Bool.not_eq_true'] at hn
    cases hc : names.contains r with
    | false => rfl
    | true =>
      have hm : r ∈ names := by simpa using hc
      have := hn r hm
      simp [List.contains_iff_mem, hr] at this
  have h2 := find_scope_isSome names f env r
  rw [h1, h r hr] at h2
  cases hf : Env.find ((names.map fun n => (n, f n)) ++ env) r with
  | none => rfl
  | some v => simp [hf] at h2

theorem find_set_isSome (env : Env V) (id : Str) (v : V) (id' : Str) :
    ((env.set id v).find id').isSome = (env.find id').isSome := by
  induction env with
  | nil => rfl
  | cons p r ih =>
    obtain ⟨n, old⟩ := p
    simp only [Env.set]
    split
    · simp only [Env.find]; split <;> rfl
    · simp only [Env.find]; split
      · rfl
      · exact ih

theorem find_assign_isSome (env : Env V) (b : List (Str × V)) (id' : Str) :
    ((env.assign b).find id').isSome = (env.find id').isSome := by
  unfold Env.assign
  induction b generalizing env with
  | nil => rfl
  | cons p r ih => simp only [List.foldl_cons]; rw [ih, find_set_isSome]

theorem inv_assign {L : List (List Str)} {env : Env V} (h : Inv L env) (b : List (Str × V)) : Inv L (env.assign b) := by
  intro id; rw [find_assign_isSome]; exact h id

theorem res_assign {env : Env V} (h : Res env) (b : List (Str × V)) : Res (env.assign b) := by
  intro r hr
  have := find_assign_isSome env b r
  rw [h r hr] at this
  cases hf : (env.assign b).find r with
  | none => rfl
  | some v => simp [hf] at this

/-! ### targets are not changed by the rewriting -/

mutual
theorem xfTarget_simple : ∀ (L : List (List Str)) (t : PyExpr), simpleTarget t = true → xfTarget L t = t
  | _, .name _, _ => by simp [xfTarget]
  | L, .tuple elts, h => by
      simp only [simpleTarget] at h
      simp [xfTarget, xfTargetL_simple L elts h]
  | L, .list elts, h => by
      simp only [simpleTarget] at h
      simp [xfTarget, xfTargetL_simple L elts h]
  | L, .starred e, h => by
      simp only [simpleTarget] at h
      simp [xfTarget, xfTarget_simple L e h]
  | _, .const _, h | _, .boolOp _ _, h | _, .binOp _ _ _, h | _, .unaryOp _ _, h | _, .lambda _ _ _ _ _ _, h
  | _, .ifExp _ _ _, h | _, .dict _, h | _, .listComp _ _, h | _, .genExp _ _, h | _, .yield_ _, h
  | _, .compare _ _, h | _, .call _ _ _, h | _, .attribute _ _, h | _, .subscript _ _, h | _, .slice _ _ _, h
  | _, .unsupported _, h | _, .keyword _ _, h | _, .comp _ _ _ _, h | _, .param _ _ _, h | _, .dictItem _ _, h
  | _, .cmpRhs _ _, h => by simp [simpleTarget] at h
theorem xfTargetL_simple : ∀ (L : List (List Str)) (ts : List PyExpr), simpleTargetL ts = true → xfTargetL L ts = ts
  | _, [], _ => by simp [xfTargetL]
  | L, t :: ts, h => by
      simp only [simpleTargetL, Bool.and_eq_true] at h
      simp [xfTargetL, xfTarget_simple L t h.1, xfTargetL_simple L ts h.2]
end

theorem xf_not_comp (L : List (List Str)) (c : PyExpr) (h : ∀ t it ifs a, c ≠ .comp t it ifs a) (r : List PyExpr) :
    compNames (xf L c :: r) = compNames r := by
  cases c <;> first
    | exact absurd rfl (h _ _ _ _)
    | (simp only [xf]; first | rfl | (split <;> rfl))

theorem compNames_xfGens (L0 L1 : List (List Str)) (gens : List PyExpr) (h : okScopesL gens = true) :
    compNames (xfGens L0 L1 gens) = compNames gens := by
  induction gens generalizing L0 with
  | nil => simp [xfGens]
  | cons c r ih =>
    simp only [okScopesL, Bool.and_eq_true] at h
    cases c with
    | comp t it ifs a =>
      simp only [okScopes, Bool.and_eq_true] at h
      simp [xfGens, compNames, xfTarget_simple _ t h.1.1.1, ih L1 h.2]
    | _ =>
      simp only [xfGens]
      rw [xf_not_comp _ _ (by intros; simp)]
      simp [compNames, ih L1 h.2]

end

/-! ### the link between the helper names of the rewriting and the lookup rules -/

section
variable {V E : Type} (σ : Sem V E) (w : World V E) (g : Str → Except E V)

/-- in the globals `g` of the rewritten code, `__data__`, `_lookup_name`, `_lookup_attr` and
    `_lookup_item` are what `LookupBase.globals` puts there: calling them is applying the lookup
    rules; a string constant denotes its string; and the two constant names of `CONSTANTS` that
    are not keywords are not shadowed by the context data (known finding C03-constant-names) -/
structure Linked : Prop where
  data : ∃ D LN, g cs!"__data__" = .ok D ∧ g cs!"_lookup_name" = .ok LN ∧
      ∀ id, σ.call LN [(false, D), (false, σ.strV id)] [] = lookupName w id
  attr : ∃ LA, g cs!"_lookup_attr" = .ok LA ∧
      ∀ obj a, σ.call LA [(false, obj), (false, σ.strV a)] [] = lookupAttr σ w obj a
  item : ∃ LI, g cs!"_lookup_item" = .ok LI ∧
      ∀ obj k, ∃ T, σ.mkTuple [(false, k)] = .ok T ∧ σ.call LI [(false, obj), (false, T)] [] = lookupItem σ w obj k
  str : ∀ id, σ.const ⟨.str, '\'' :: (id ++ ['\''])⟩ = σ.strV id
  consts : ∀ id ∈ constantNames, g id = lookupName w id

variable {σ w g}

theorem res_find {env : Env V} (hR : Res env) (r : Str) (hr : r ∈ reserved) : env.find r = none := hR r hr

theorem evalArgs_cons_plain (look : Look V E) (e : PyExpr) (rest : List PyExpr) (env : Env V)
    (h : isStarredE e = false) :
    evalArgs σ look (e :: rest) env = (do
      let x ← eval σ look e env
      let xs ← evalArgs σ look rest env
      .ok ((false, x) :: xs)) := by
  rw [evalArgs]
  intro y hy; subst hy; simp [isStarredE] at h

theorem eval_free (look : Look V E) (id : Str) (env : Env V) (h : env.find id = none) :
    eval σ look (.name id) env = look.free id := by
  simp [eval, h]

theorem eval_lookupName (hL : Linked σ w g) {env : Env V} (hR : Res env) (id : Str) :
    eval σ (pyLook σ g) (lookupNameCall id) env = lookupName w id := by
  obtain ⟨D, LN, hD, hLN, hcall⟩ := hL.data
  have h1 : eval σ (pyLook σ g) (.name cs!"_lookup_name") env = g cs!"_lookup_name" :=
    eval_free (pyLook σ g) _ env (hR _ (by decide))
  have h2 : eval σ (pyLook σ g) (.name cs!"__data__") env = g cs!"__data__" :=
    eval_free (pyLook σ g) _ env (hR _ (by decide))
  unfold lookupNameCall
  rw [eval, h1, hLN]
  rw [evalArgs_cons_plain _ _ _ _ rfl, h2, hD, evalArgs_cons_plain _ _ _ _ rfl]
  simp only [strConst, eval, evalArgs, evalKws, hL.str, bind, Except.bind, pure, Except.pure]
  exact hcall id

theorem eval_lookupAttr (hL : Linked σ w g) {env : Env V} (hR : Res env) (v : PyExpr) (a : Str)
    (hv : isStarredE v = false) :
    eval σ (pyLook σ g) (lookupAttrCall v a) env
      = (eval σ (pyLook σ g) v env).bind fun x => lookupAttr σ w x a := by
  obtain ⟨LA, hLA, hcall⟩ := hL.attr
  have h1 : eval σ (pyLook σ g) (.name cs!"_lookup_attr") env = g cs!"_lookup_attr" :=
    eval_free (pyLook σ g) _ env (hR _ (by decide))
  unfold lookupAttrCall
  rw [eval, h1, hLA]
  rw [evalArgs_cons_plain _ _ _ _ hv, evalArgs_cons_plain _ _ _ _ rfl]
  simp only [strConst, eval, evalArgs, evalKws, hL.str, bind, Except.bind, pure, Except.pure]
  cases eval σ (pyLook σ g) v env with
  | error e => rfl
  | ok x => simp [hcall x a]

theorem eval_lookupItem (hL : Linked σ w g) {env : Env V} (hR : Res env) (v k : PyExpr)
    (hv : isStarredE v = false) (hk : isStarredE k = false) :
    eval σ (pyLook σ g) (lookupItemCall v k) env
      = (eval σ (pyLook σ g) v env).bind fun x =>
          (eval σ (pyLook σ g) k env).bind fun y => lookupItem σ w x y := by
  obtain ⟨LI, hLI, hcall⟩ := hL.item
  have h1 : eval σ (pyLook σ g) (.name cs!"_lookup_item") env = g cs!"_lookup_item" :=
    eval_free (pyLook σ g) _ env (hR _ (by decide))
  unfold lookupItemCall
  rw [eval, h1, hLI]
  rw [evalArgs_cons_plain _ _ _ _ hv, evalArgs_cons_plain _ _ _ _ rfl]
  rw [eval, evalArgs_cons_plain _ _ _ _ hk]
  simp only [evalArgs, evalKws, bind, Except.bind, pure, Except.pure]
  cases eval σ (pyLook σ g) v env with
  | error e => rfl
  | ok x =>
    cases eval σ (pyLook σ g) k env with
    | error e => rfl
    | ok y =>
      obtain ⟨T, hT, hc⟩ := hcall x y
      simp [hT, hc]

/-! ### shapes are preserved by the rewriting -/

theorem xf_starred (L : List (List Str)) (e : PyExpr) : isStarredE (xf L e) = isStarredE e := by
  cases e <;> simp only [xf] <;> first | rfl | (split <;> rfl)

theorem targetNamesL_xfL (L : List (List Str)) (ps : List PyExpr) (h : ps.all isParam = true) :
    targetNamesL (xfL L ps) = targetNamesL ps := by
  induction ps with
  | nil => simp [xfL]
  | cons p r ih =>
    simp only [List.all_cons, Bool.and_eq_true] at h
    cases p <;> first | (simp [isParam] at h; done) | simp [xfL, xf, targetNamesL, targetNames, ih h.2]

theorem targetNamesO_xfO (L : List (List Str)) (o : Option PyExpr) (h : optIsParam o = true) :
    targetNamesO (xfO L o) = targetNamesO o ∧ optName (xfO L o) = optName o := by
  cases o with
  | none => simp [xfO]
  | some p =>
    cases p <;> first | (simp [optIsParam, isParam] at h; done) | simp [xfO, xf, targetNamesO, targetNames, optName, paramName]

theorem isSliceKey_xf (L : List (List Str)) (s : PyExpr) : isSliceKey s = true → isSliceKey (xf L s) = true := by
  intro h
  cases s with
  | slice l u st => simp [xf, isSliceKey]
  | tuple elts =>
    simp only [isSliceKey, List.any_eq_true] at h
    obtain ⟨x, hx, hs⟩ := h
    simp only [xf, isSliceKey, List.any_eq_true]
    induction elts with
    | nil => simp at hx
    | cons y ys ih =>
      simp only [xfL]
      rcases List.mem_cons.mp hx with rfl | hx
      · refine ⟨xf L x, by simp, ?_⟩
        cases x <;> simp_all [isSlice, xf]
      · obtain ⟨z, hz, hzs⟩ := ih hx
        exact ⟨z, by simp [hz], hzs⟩
  | _ => simp [isSliceKey] at h

/-! ### the main induction -/

set_option maxHeartbeats 4000000 in
mutual
theorem xf_eval (hL : Linked σ w g) : ∀ (e : PyExpr) (L : List (List Str)) (env : Env V), Inv L env → Res env → okScopes e = true →
    eval σ (pyLook σ g) (xf L e) env = eval σ (gsLook σ w) e env
  | .name id, L, env, hI, hR, _ => by
      simp only [xf]
      by_cases hin : inLocals L id = true
      · simp only [hin, if_true]
        rw [eval, eval]
        cases hf : env.find id with
        | some v => cases v <;> rfl
        | none =>
          have hc : id ∈ constantNames := by
            rcases (hI id).mp hin with h | h
            · simp [hf] at h
            · exact h
          simp only [pyLook, gsLook]
          exact hL.consts id hc
      · simp only [hin, Bool.false_eq_true, if_false]
        have hf : env.find id = none := by
          cases hf : env.find id with
          | none => rfl
          | some v => exact absurd ((hI id).mpr (Or.inl (by simp [hf]))) hin
        rw [eval_lookupName hL hR, eval_free _ _ _ hf]
        rfl
  | .const c, _, _, _, _, _ => by simp only [xf]; rw [eval, eval]
  | .boolOp op vs, L, env, hI, hR, hok => by
      simp only [okScopes] at hok
      simp only [xf]
      cases vs with
      | nil => simp only [xfL]; rw [eval, eval]
      | cons v rest =>
        simp only [okScopesL, Bool.and_eq_true] at hok
        simp only [xfL]
        rw [eval, eval, xf_eval hL v L env hI hR hok.1]
        congr 1; funext x
        exact xf_evalBool hL _ x rest L env hI hR hok.2
  | .binOp l op r, L, env, hI, hR, hok => by
      simp only [okScopes, Bool.and_eq_true] at hok
      simp only [xf]
      rw [eval, eval, xf_eval hL l L env hI hR hok.1, xf_eval hL r L env hI hR hok.2]
  | .unaryOp op e, L, env, hI, hR, hok => by
      simp only [okScopes] at hok
      simp only [xf]
      rw [eval, eval, xf_eval hL e L env hI hR hok]
  | .lambda po ar va ko ka body, L, env, hI, hR, hok => by
      simp only [okScopes, Bool.and_eq_true] at hok
      obtain ⟨⟨⟨⟨⟨⟨⟨⟨⟨hfree, hpo⟩, har⟩, hko⟩, hva⟩, hka⟩, okpo⟩, okar⟩, okko⟩, okbody⟩ := hok
      simp only [xf]
      rw [eval, eval, xf_evalParams hL po L env hI hR hpo okpo, xf_evalParams hL ar L env hI hR har okar,
        xf_evalParams hL ko L env hI hR hko okko]
      rw [targetNamesL_xfL L po hpo, targetNamesL_xfL L ar har, targetNamesL_xfL L ko hko,
        (targetNamesO_xfO L va hva).1, (targetNamesO_xfO L va hva).2, (targetNamesO_xfO L ka hka).1,
        (targetNamesO_xfO L ka hka).2]
      have hbody : ∀ b : List (Str × V),
          eval σ (pyLook σ g)
              (xf (L ++ [targetNamesL po ++ targetNamesL ar ++ targetNamesL ko ++ targetNamesO va ++ targetNamesO ka]) body)
              (paramScope (targetNamesL po ++ targetNamesL ar ++ targetNamesL ko ++ targetNamesO va ++ targetNamesO ka) b ++ env)
            = eval σ (gsLook σ w) body
              (paramScope (targetNamesL po ++ targetNamesL ar ++ targetNamesL ko ++ targetNamesO va ++ targetNamesO ka) b ++ env) := by
        intro b
        exact xf_eval hL body _ _ (inv_scope hI _ _) (res_scope hR _ _ hfree) okbody
      simp only [hbody]
  | .ifExp t b o, L, env, hI, hR, hok => by
      simp only [okScopes, Bool.and_eq_true] at hok
      simp only [xf]
      rw [eval, eval, xf_eval hL t L env hI hR hok.1.1, xf_eval hL b L env hI hR hok.1.2, xf_eval hL o L env hI hR hok.2]
  | .dict items, L, env, hI, hR, hok => by
      simp only [okScopes, Bool.and_eq_true] at hok
      simp only [xf]
      rw [eval, eval, xf_evalDict hL items L env hI hR hok.1 hok.2]
  | .listComp elt gens, L, env, hI, hR, hok => by
      simp only [okScopes, Bool.and_eq_true] at hok
      simp only [xf]
      rw [eval, eval, xf_evalComp hL elt gens L env hI hR hok.1.1.1 hok.1.1.2 hok.1.2 hok.2]
  | .genExp elt gens, L, env, hI, hR, hok => by
      simp only [okScopes, Bool.and_eq_true] at hok
      obtain ⟨⟨⟨hfree, hall⟩, okelt⟩, okgens⟩ := hok
      simp only [xf]
      cases gens with
      | nil =>
        simp only [xfGens]; rw [eval, eval]
        all_goals (intro _ _ _ _ _ h; cases h)
      | cons c rest =>
        simp only [List.all_cons, Bool.and_eq_true] at hall
        cases c <;> first
          | (simp [isCompE] at hall; done)
          | skip
        rename_i t it ifs a
        simp only [okScopesL, okScopes, Bool.and_eq_true] at okgens
        obtain ⟨⟨⟨hst, okit⟩, okifs⟩, okrest⟩ := okgens
        simp only [xfGens]
        rw [eval, eval, xf_eval hL it L env hI hR okit]
        have hnames : compNames (.comp (xfTarget (L ++ [compNames (.comp t it ifs a :: rest)]) t) (xf L it)
              (xfL (L ++ [compNames (.comp t it ifs a :: rest)]) ifs) a
              :: xfGens (L ++ [compNames (.comp t it ifs a :: rest)]) (L ++ [compNames (.comp t it ifs a :: rest)]) rest)
            = compNames (.comp t it ifs a :: rest) := by
          simp [compNames, xfTarget_simple _ t hst, compNames_xfGens _ _ rest okrest]
        rw [hnames, xfTarget_simple _ t hst]
        congr 1; funext itV
        congr 1; funext itr
        congr 2
        congr 1; funext items
        exact xf_runFrom hL t ifs rest items _ elt _ (inv_scope hI _ _) (res_scope hR _ _ hfree) hst okifs okrest
          (by simpa [List.all_cons] using hall.2) okelt
  | .yield_ v, L, env, hI, hR, hok => by
      simp only [okScopes] at hok
      simp only [xf]
      rw [eval, eval, xf_evalOpt hL v L env hI hR hok]
  | .compare l rest, L, env, hI, hR, hok => by
      simp only [okScopes, Bool.and_eq_true] at hok
      simp only [xf]
      rw [eval, eval, xf_eval hL l L env hI hR hok.1.2]
      congr 1; funext a
      exact xf_evalCmp hL a rest L env hI hR hok.1.1 hok.2
  | .call f args kws, L, env, hI, hR, hok => by
      simp only [okScopes, Bool.and_eq_true] at hok
      simp only [xf]
      rw [eval, eval, xf_eval hL f L env hI hR hok.1.1.2, xf_evalArgs hL args L env hI hR hok.1.2,
        xf_evalKws hL kws L env hI hR hok.1.1.1 hok.2]
  | .attribute v a, L, env, hI, hR, hok => by
      simp only [okScopes, Bool.and_eq_true, Bool.not_eq_true'] at hok
      simp only [xf]
      rw [eval_lookupAttr hL hR _ _ (by rw [xf_starred]; exact hok.1), xf_eval hL v L env hI hR hok.2, eval]
      rfl
  | .subscript v s, L, env, hI, hR, hok => by
      simp only [okScopes, Bool.and_eq_true, Bool.not_eq_true'] at hok
      obtain ⟨⟨⟨hsv, hss⟩, okv⟩, oks⟩ := hok
      simp only [xf]
      by_cases hk : isSliceKey s = true
      · simp only [hk, if_true]
        rw [eval, eval, xf_eval hL v L env hI hR okv, xf_eval hL s L env hI hR oks]
        try simp [hk, isSliceKey_xf L s hk, pyLook]
      · simp only [hk, Bool.false_eq_true, if_false]
        rw [eval_lookupItem hL hR _ _ (by rw [xf_starred]; exact hsv) (by rw [xf_starred]; exact hss),
          xf_eval hL v L env hI hR okv, xf_eval hL s L env hI hR oks, eval]
        simp only [hk, Bool.false_eq_true, if_false, gsLook, bind, Except.bind]
  | .slice l u st, L, env, hI, hR, hok => by
      simp only [okScopes, Bool.and_eq_true] at hok
      simp only [xf]
      rw [eval, eval, xf_evalOpt hL l L env hI hR hok.1.1, xf_evalOpt hL u L env hI hR hok.1.2, xf_evalOpt hL st L env hI hR hok.2]
  | .starred e, L, env, hI, hR, hok => by
      simp only [okScopes] at hok
      simp only [xf]
      rw [eval, eval, xf_eval hL e L env hI hR hok]
  | .list elts, L, env, hI, hR, hok => by
      simp only [okScopes] at hok
      simp only [xf]
      rw [eval, eval, xf_evalArgs hL elts L env hI hR hok]
  | .tuple elts, L, env, hI, hR, hok => by
      simp only [okScopes] at hok
      simp only [xf]
      rw [eval, eval, xf_evalArgs hL elts L env hI hR hok]
  | .unsupported _, _, _, _, _, _ => by simp only [xf]; rw [eval, eval]
  | .keyword n v, L, env, hI, hR, hok => by
      simp only [okScopes] at hok
      simp only [xf]
      rw [eval, eval, xf_eval hL v L env hI hR hok]
  | .comp t it ifs a, L, env, hI, hR, hok => by
      simp only [okScopes, Bool.and_eq_true] at hok
      simp only [xf]
      rw [eval, eval, xf_eval hL it L env hI hR hok.1.2]
  | .param n ann d, L, env, hI, hR, hok => by
      simp only [okScopes] at hok
      simp only [xf]
      rw [eval, eval, xf_evalOpt hL d L env hI hR hok]
  | .dictItem k v, L, env, hI, hR, hok => by
      simp only [okScopes, Bool.and_eq_true] at hok
      simp only [xf]
      rw [eval, eval, xf_eval hL v L env hI hR hok.2]
  | .cmpRhs op e, L, env, hI, hR, hok => by
      simp only [okScopes] at hok
      simp only [xf]
      rw [eval, eval, xf_eval hL e L env hI hR hok]
termination_by e => sizeOf e
theorem xf_evalBool (hL : Linked σ w g) (isAnd : Bool) (x : V) : ∀ (vs : List PyExpr) (L : List (List Str)) (env : Env V), Inv L env → Res env →
    okScopesL vs = true →
    evalBool σ (pyLook σ g) isAnd x (xfL L vs) env = evalBool σ (gsLook σ w) isAnd x vs env
  | [], _, _, _, _, _ => by simp only [xfL]; rw [evalBool, evalBool]
  | v :: rest, L, env, hI, hR, hok => by
      simp only [okScopesL, Bool.and_eq_true] at hok
      simp only [xfL]
      rw [evalBool, evalBool, xf_eval hL v L env hI hR hok.1]
      congr 1; funext t
      split
      · congr 1; funext y
        exact xf_evalBool hL isAnd y rest L env hI hR hok.2
      · rfl
termination_by vs => sizeOf vs
theorem xf_evalCmp (hL : Linked σ w g) (a : V) : ∀ (rest : List PyExpr) (L : List (List Str)) (env : Env V), Inv L env → Res env →
    rest.all isCmpE = true → okScopesL rest = true →
    evalCmp σ (pyLook σ g) a (xfL L rest) env = evalCmp σ (gsLook σ w) a rest env
  | [], _, _, _, _, _, _ => by simp only [xfL]; rw [evalCmp, evalCmp]
  | c :: rest, L, env, hI, hR, hall, hok => by
      simp only [List.all_cons, Bool.and_eq_true] at hall
      simp only [okScopesL, Bool.and_eq_true] at hok
      cases c <;> first
        | (simp [isCmpE] at hall; done)
        | skip
      rename_i op e
      simp only [okScopes] at hok
      simp only [xfL, xf]
      rw [evalCmp, evalCmp, xf_eval hL e L env hI hR hok.1]
      congr 1; funext b
      congr 1; funext r
      have hemp : (xfL L rest).isEmpty = rest.isEmpty := by cases rest <;> simp [xfL]
      rw [hemp]
      split
      · rfl
      · congr 1; funext t
        split
        · exact xf_evalCmp hL b rest L env hI hR hall.2 hok.2
        · rfl
termination_by rest => sizeOf rest
theorem xf_evalOpt (hL : Linked σ w g) : ∀ (o : Option PyExpr) (L : List (List Str)) (env : Env V), Inv L env → Res env → okScopesO o = true →
    evalOpt σ (pyLook σ g) (xfO L o) env = evalOpt σ (gsLook σ w) o env
  | none, _, _, _, _, _ => by simp only [xfO]; rw [evalOpt, evalOpt]
  | some e, L, env, hI, hR, hok => by
      simp only [okScopesO] at hok
      simp only [xfO]
      rw [evalOpt, evalOpt, xf_eval hL e L env hI hR hok]
termination_by o => sizeOf o
theorem xf_evalArgs (hL : Linked σ w g) : ∀ (es : List PyExpr) (L : List (List Str)) (env : Env V), Inv L env → Res env → okScopesL es = true →
    evalArgs σ (pyLook σ g) (xfL L es) env = evalArgs σ (gsLook σ w) es env
  | [], _, _, _, _, _ => by simp only [xfL]; rw [evalArgs, evalArgs]
  | e :: rest, L, env, hI, hR, hok => by
      simp only [okScopesL, Bool.and_eq_true] at hok
      simp only [xfL]
      by_cases hs : isStarredE e = true
      · cases e <;> first
          | (simp [isStarredE] at hs; done)
          | skip
        rename_i y
        simp only [okScopes] at hok
        simp only [xf]
        rw [evalArgs, evalArgs, xf_eval hL y L env hI hR hok.1, xf_evalArgs hL rest L env hI hR hok.2]
      · have hs' : isStarredE e = false := by simpa using hs
        rw [evalArgs_cons_plain _ _ _ _ (by rw [xf_starred]; exact hs'), evalArgs_cons_plain _ _ _ _ hs',
          xf_eval hL e L env hI hR hok.1, xf_evalArgs hL rest L env hI hR hok.2]
termination_by es => sizeOf es
theorem xf_evalKws (hL : Linked σ w g) : ∀ (es : List PyExpr) (L : List (List Str)) (env : Env V), Inv L env → Res env →
    es.all isKw = true → okScopesL es = true →
    evalKws σ (pyLook σ g) (xfL L es) env = evalKws σ (gsLook σ w) es env
  | [], _, _, _, _, _, _ => by simp only [xfL]; rw [evalKws, evalKws]
  | e :: rest, L, env, hI, hR, hall, hok => by
      simp only [List.all_cons, Bool.and_eq_true] at hall
      simp only [okScopesL, Bool.and_eq_true] at hok
      cases e <;> first
        | (simp [isKw] at hall; done)
        | skip
      rename_i n v
      simp only [okScopes] at hok
      simp only [xfL, xf]
      rw [evalKws, evalKws, xf_eval hL v L env hI hR hok.1, xf_evalKws hL rest L env hI hR hall.2 hok.2]
termination_by es => sizeOf es
theorem xf_evalDict (hL : Linked σ w g) : ∀ (es : List PyExpr) (L : List (List Str)) (env : Env V), Inv L env → Res env →
    es.all isDictItemE = true → okScopesL es = true →
    evalDict σ (pyLook σ g) (xfL L es) env = evalDict σ (gsLook σ w) es env
  | [], _, _, _, _, _, _ => by simp only [xfL]; rw [evalDict, evalDict]
  | e :: rest, L, env, hI, hR, hall, hok => by
      simp only [List.all_cons, Bool.and_eq_true] at hall
      simp only [okScopesL, Bool.and_eq_true] at hok
      cases e <;> first
        | (simp [isDictItemE] at hall; done)
        | skip
      rename_i k v
      simp only [okScopes, Bool.and_eq_true] at hok
      simp only [xfL, xf]
      rw [evalDict, evalDict, xf_evalOpt hL k L env hI hR hok.1.1, xf_eval hL v L env hI hR hok.1.2,
        xf_evalDict hL rest L env hI hR hall.2 hok.2]
termination_by es => sizeOf es
theorem xf_evalParams (hL : Linked σ w g) : ∀ (es : List PyExpr) (L : List (List Str)) (env : Env V), Inv L env → Res env →
    es.all isParam = true → okScopesL es = true →
    evalParams σ (pyLook σ g) (xfL L es) env = evalParams σ (gsLook σ w) es env
  | [], _, _, _, _, _, _ => by simp only [xfL]; rw [evalParams, evalParams]
  | e :: rest, L, env, hI, hR, hall, hok => by
      simp only [List.all_cons, Bool.and_eq_true] at hall
      simp only [okScopesL, Bool.and_eq_true] at hok
      cases e <;> first
        | (simp [isParam] at hall; done)
        | skip
      rename_i n ann d
      simp only [okScopes] at hok
      simp only [xfL, xf]
      rw [evalParams, evalParams, xf_evalOpt hL d L env hI hR hok.1, xf_evalParams hL rest L env hI hR hall.2 hok.2]
termination_by es => sizeOf es
theorem xf_evalConds (hL : Linked σ w g) : ∀ (es : List PyExpr) (L : List (List Str)) (env : Env V), Inv L env → Res env → okScopesL es = true →
    evalConds σ (pyLook σ g) (xfL L es) env = evalConds σ (gsLook σ w) es env
  | [], _, _, _, _, _ => by simp only [xfL]; rw [evalConds, evalConds]
  | c :: rest, L, env, hI, hR, hok => by
      simp only [okScopesL, Bool.and_eq_true] at hok
      simp only [xfL]
      rw [evalConds, evalConds, xf_eval hL c L env hI hR hok.1]
      congr 1; funext x
      congr 1; funext t
      split
      · exact xf_evalConds hL rest L env hI hR hok.2
      · rfl
termination_by es => sizeOf es
theorem xf_evalComp (hL : Linked σ w g) (elt : PyExpr) : ∀ (gens : List PyExpr) (L : List (List Str)) (env : Env V), Inv L env → Res env →
    freeOfReserved (compNames gens) = true → gens.all isCompE = true → okScopes elt = true → okScopesL gens = true →
    evalComp σ (pyLook σ g) (xf (L ++ [compNames gens]) elt) (xfGens L (L ++ [compNames gens]) gens) env
      = evalComp σ (gsLook σ w) elt gens env
  | [], _, _, _, _, _, _, _, _ => by
      simp only [xfGens]; rw [evalComp, evalComp]
      all_goals (intro _ _ _ _ _ h; cases h)
  | c :: rest, L, env, hI, hR, hfree, hall, okelt, okgens => by
      simp only [List.all_cons, Bool.and_eq_true] at hall
      cases c <;> first
        | (simp [isCompE] at hall; done)
        | skip
      rename_i t it ifs a
      simp only [okScopesL, okScopes, Bool.and_eq_true] at okgens
      obtain ⟨⟨⟨hst, okit⟩, okifs⟩, okrest⟩ := okgens
      simp only [xfGens]
      rw [evalComp, evalComp, xf_eval hL it L env hI hR okit]
      rw [xfTarget_simple _ t hst, compNames_xfGens _ _ rest okrest]
      congr 1; funext itV
      congr 1; funext items
      have hn : compNames (.comp t it ifs a :: rest) = targetNames t ++ compNames rest := by simp [compNames]
      rw [hn] at hfree ⊢
      exact xf_runFrom hL t ifs rest items _ elt _ (inv_scope hI _ _) (res_scope hR _ _ hfree) hst okifs okrest
        hall.2 okelt
termination_by gens => sizeOf elt + sizeOf gens
theorem xf_runFrom (hL : Linked σ w g) (t : PyExpr) (ifs rest : List PyExpr) (items : List V) (env : Env V) (elt : PyExpr)
    (L1 : List (List Str)) (hI : Inv L1 env) (hR : Res env) (hst : simpleTarget t = true) (okifs : okScopesL ifs = true)
    (okrest : okScopesL rest = true) (hall : rest.all isCompE = true) (okelt : okScopes elt = true) :
    runFrom σ (pyLook σ g) t (xfL L1 ifs) (xfGens L1 L1 rest) items env (xf L1 elt)
      = runFrom σ (gsLook σ w) t ifs rest items env elt := by
  rw [runFrom, runFrom]
  congr 2
  funext item
  congr 1; funext b
  dsimp only
  rw [xf_evalConds hL ifs L1 _ (inv_assign hI b) (res_assign hR b) okifs]
  congr 1; funext c
  split
  · exact xf_runGens hL rest _ elt L1 (inv_assign hI b) (res_assign hR b) okrest hall okelt
  · rfl
termination_by sizeOf t + sizeOf ifs + sizeOf rest + sizeOf elt + 1
theorem xf_runGens (hL : Linked σ w g) : ∀ (rest : List PyExpr) (env : Env V) (elt : PyExpr) (L1 : List (List Str)), Inv L1 env → Res env →
    okScopesL rest = true → rest.all isCompE = true → okScopes elt = true →
    runGens σ (pyLook σ g) (xfGens L1 L1 rest) env (xf L1 elt) = runGens σ (gsLook σ w) rest env elt
  | [], env, elt, L1, hI, hR, _, _, okelt => by
      simp only [xfGens]
      rw [runGens, runGens, xf_eval hL elt L1 env hI hR okelt]
  | c :: rest, env, elt, L1, hI, hR, okgens, hall, okelt => by
      simp only [List.all_cons, Bool.and_eq_true] at hall
      cases c <;> first
        | (simp [isCompE] at hall; done)
        | skip
      rename_i t it ifs a
      simp only [okScopesL, okScopes, Bool.and_eq_true] at okgens
      obtain ⟨⟨⟨hst, okit⟩, okifs⟩, okrest⟩ := okgens
      simp only [xfGens]
      rw [runGens, runGens, xf_eval hL it L1 env hI hR okit, xfTarget_simple _ t hst]
      congr 1; funext itV
      congr 1; funext items
      exact xf_runFrom hL t ifs rest items env elt L1 hI hR hst okifs okrest hall.2 okelt
termination_by rest _ elt => sizeOf rest + sizeOf elt
end

end
end Genshi.Py

/-
  Helper lemmas for the include-graph model of C14 (`Genshi/Model/ExecGraph.lean`):
  the invariant "the loader's flag is off and no cached template holds a code item" is
  preserved by `load`, `preload`, `gen` and the history, and the sentinel does not move.
-/
import Genshi.Model.ExecGraph
namespace Genshi.Exec

/-! ### folds -/

theorem foldl_inv {α β : Type} (P : β → Prop) (f : β → α → β) (l : List α) (b : β) (hb : P b)
    (hstep : ∀ acc it, it ∈ l → P acc → P (f acc it)) : P (l.foldl f b) := by
  induction l generalizing b with
  | nil => exact hb
  | cons x xs ih =>
      simp only [List.foldl_cons]
      apply ih
      · exact hstep b x (List.mem_cons_self) hb
      · intro acc it hit hacc
        exact hstep acc it (List.mem_cons_of_mem _ hit) hacc

theorem foldl_rel {α β γ : Type} (R : β → γ → Prop) (f : β → α → β) (g : γ → α → γ) (l : List α)
    (b : β) (c : γ) (h0 : R b c) (hstep : ∀ x y it, it ∈ l → R x y → R (f x it) (g y it)) :
    R (l.foldl f b) (l.foldl g c) := by
  induction l generalizing b c with
  | nil => exact h0
  | cons x xs ih =>
      simp only [List.foldl_cons]
      apply ih
      · exact hstep b c x (List.mem_cons_self) h0
      · intro x' y' it hit hr
        exact hstep x' y' it (List.mem_cons_of_mem _ hit) hr

/-! ### the invariant -/

/-- the loader's flag is off and every template object in its cache is free of code items -/
def StClean (st : St) : Prop :=
  st.flag = false ∧ ∀ k t, st.cache.lookup k = some t → noCode t.items = true

theorem noCode_mem {items : List Item} (h : noCode items = true) {it : Item} (hit : it ∈ items) :
    it.isCode = false := by
  unfold noCode at h
  have := List.all_eq_true.mp h it hit
  simpa using this

/-- with the flag off, what the parser lets through has no code item -/
theorem parse_off_clean (c : Cls) (name : Nat) (f : File) (t : Tmpl)
    (h : parseFile c false name f = .ok t) : noCode t.items = true := by
  unfold parseFile at h
  by_cases h1 : f.syn ≠ c
  · rw [if_pos h1] at h
    by_cases h2 : c = .markup
    · rw [if_pos h2] at h; cases h
    · rw [if_neg h2] at h; cases h
  · rw [if_neg h1] at h
    by_cases h2 : noCode f.items = true
    · rw [if_pos h2] at h
      cases h
      exact h2
    · rw [if_neg h2] at h
      cases c <;> simp at h

/-- parsing keeps the items of the file, and succeeds only with the class the file is written for -/
theorem parse_items (c : Cls) (flag : Bool) (name : Nat) (f : File) (t : Tmpl)
    (h : parseFile c flag name f = .ok t) : t.items = f.items ∧ t.name = name ∧ t.cls = f.syn := by
  unfold parseFile at h
  by_cases h1 : f.syn ≠ c
  · rw [if_pos h1] at h
    by_cases h2 : c = .markup
    · rw [if_pos h2] at h; cases h
    · rw [if_neg h2] at h; cases h
  · rw [if_neg h1] at h
    by_cases h2 : noCode f.items = true
    · rw [if_pos h2] at h; cases h; exact ⟨rfl, rfl, (Decidable.not_not.mp h1).symm⟩
    · rw [if_neg h2] at h
      have hs : c = f.syn := (Decidable.not_not.mp h1).symm
      cases c <;> cases flag <;> simp at h <;> (cases h; exact ⟨rfl, rfl, hs⟩)

theorem lookup_cons_some {α β : Type} [BEq α] [LawfulBEq α] (k k' : α) (v v' : β) (l : List (α × β))
    (h : ((k', v') :: l).lookup k = some v) : (k = k' ∧ v = v') ∨ l.lookup k = some v := by
  simp only [List.lookup] at h
  by_cases hk : k == k'
  · simp [hk] at h
    exact Or.inl ⟨by simpa using hk, h.symm⟩
  · simp [hk] at h
    exact Or.inr h

/-- `load` keeps the invariant, returns a code-free template and touches neither the sentinel
    nor the flags -/
theorem load_clean (fs : FS) (st st' : St) (name : Nat) (c : Cls) (abs : Bool) (t : Tmpl)
    (hc : StClean st) (h : load fs st name c abs = .ok (st', t)) :
    StClean st' ∧ noCode t.items = true ∧ st'.sentinel = st.sentinel ∧ st'.out = st.out
      ∧ st'.autoReload = st.autoReload := by
  unfold load at h
  cases hl : st.cache.lookup (name, abs) with
  | some t0 =>
      rw [hl] at h
      cases h
      exact ⟨hc, hc.2 _ _ hl, rfl, rfl, rfl⟩
  | none =>
      rw [hl] at h
      cases hf : fs.lookup name with
      | none => rw [hf] at h; cases h
      | some f =>
          rw [hf] at h
          simp only at h
          cases hp : parseFile c st.flag name f with
          | error e => rw [hp] at h; cases h
          | ok t1 =>
              rw [hp] at h
              cases h
              have hflag : st.flag = false := hc.1
              rw [hflag] at hp
              have ht := parse_off_clean c name f t hp
              refine ⟨⟨hc.1, ?_⟩, ht, rfl, rfl, rfl⟩
              intro k t2 hk
              rcases lookup_cons_some k (name, abs) t2 t st.cache hk with ⟨_, rfl⟩ | h2
              · exact ht
              · exact hc.2 _ _ h2

/-- what a clean run leaves behind: still clean, sentinel untouched -/
def Keeps (s0 : List Nat) (ar : Bool) (r : Res) : Prop :=
  StClean r.1 ∧ r.1.sentinel = s0 ∧ r.1.autoReload = ar

theorem preload_clean (fuel : Nat) (fs : FS) :
    ∀ (stack : List Nat) (t : Tmpl) (st : St), StClean st →
      Keeps st.sentinel st.autoReload (preload fuel fs stack t st) := by
  induction fuel with
  | zero => intro stack t st hc; exact ⟨hc, rfl, rfl⟩
  | succ fuel ih =>
      intro stack t st hc
      unfold preload
      apply foldl_inv (Keeps st.sentinel st.autoReload)
      · exact ⟨hc, rfl, rfl⟩
      · intro acc it _ hacc
        obtain ⟨sa, ea⟩ := acc
        cases ea with
        | some e => exact hacc
        | none =>
            obtain ⟨hca, hsa, hara⟩ := hacc
            simp only at hca hsa hara
            cases it with
            | text i => exact ⟨hca, hsa, hara⟩
            | expr i => exact ⟨hca, hsa, hara⟩
            | code i m => exact ⟨hca, hsa, hara⟩
            | incl n p dyn =>
                cases dyn with
                | true => exact ⟨hca, hsa, hara⟩
                | false =>
                    simp only
                    cases hl : load fs sa n (childCls t.cls p) t.absHrefs with
                    | error e => exact ⟨hca, hsa, hara⟩
                    | ok pr =>
                        obtain ⟨st', t'⟩ := pr
                        obtain ⟨hc', _, hs', _, har'⟩ := load_clean fs sa st' n _ _ t' hca hl
                        simp only
                        by_cases hk : stack.contains t'.name = true
                        · rw [if_pos hk]; exact ⟨hc', hs'.trans hsa, har'.trans hara⟩
                        · rw [if_neg hk]
                          have := ih (t'.name :: stack) t' st' hc'
                          exact ⟨this.1, this.2.1.trans (hs'.trans hsa), this.2.2.trans (har'.trans hara)⟩

/-- **no code runs**: generating a code-free template object through a loader whose flag is off
    and whose cache is code-free leaves the sentinel as it was — for every file system (cyclic
    include graphs included), fuel, reload mode, host class and inlining stack -/
theorem gen_clean (fuel : Nat) (pf : Nat) (fs : FS) :
    ∀ (prep : Bool) (host : Cls) (stack : List Nat) (t : Tmpl) (st : St), StClean st →
      noCode t.items = true → Keeps st.sentinel st.autoReload (gen fuel pf fs prep host stack t st) := by
  induction fuel with
  | zero => intro prep host stack t st hc _; exact ⟨hc, rfl, rfl⟩
  | succ fuel ih =>
      intro prep host stack t st hc ht
      unfold gen
      apply foldl_inv (Keeps st.sentinel st.autoReload)
      · by_cases hp : (prep && !st.autoReload) = true
        · rw [if_pos hp]; exact preload_clean pf fs stack t st hc
        · rw [if_neg hp]; exact ⟨hc, rfl, rfl⟩
      · intro acc it hit hacc
        obtain ⟨sa, ea⟩ := acc
        cases ea with
        | some e => exact hacc
        | none =>
            obtain ⟨hca, hsa, hara⟩ := hacc
            simp only at hca hsa hara
            cases it with
            | text i => exact ⟨⟨hca.1, hca.2⟩, hsa, hara⟩
            | expr i => exact ⟨⟨hca.1, hca.2⟩, hsa, hara⟩
            | code i m =>
                have := noCode_mem ht hit
                simp [Item.isCode] at this
            | incl n p dyn =>
                simp only
                by_cases hin : (!sa.autoReload && !dyn && !stack.contains n) = true
                · rw [if_pos hin]
                  cases hl : load fs sa n (childCls t.cls p) t.absHrefs with
                  | error e => exact ⟨hca, hsa, hara⟩
                  | ok pr =>
                      obtain ⟨st', t'⟩ := pr
                      obtain ⟨hc', ht', hs', _, har'⟩ := load_clean fs sa st' n _ _ t' hca hl
                      have := ih false host (n :: stack) t' st' hc' ht'
                      exact ⟨this.1, this.2.1.trans (hs'.trans hsa), this.2.2.trans (har'.trans hara)⟩
                · rw [if_neg hin]
                  cases hl : load fs sa n (inclCls t.cls p host) t.absHrefs with
                  | error e => exact ⟨hca, hsa, hara⟩
                  | ok pr =>
                      obtain ⟨st', t'⟩ := pr
                      obtain ⟨hc', ht', hs', _, har'⟩ := load_clean fs sa st' n _ _ t' hca hl
                      have := ih true t'.cls [t'.name] t' st' hc' ht'
                      exact ⟨this.1, this.2.1.trans (hs'.trans hsa), this.2.2.trans (har'.trans hara)⟩

theorem histStep_clean (fuel pf : Nat) (fs : FS) (st : St) (name : Nat) (hc : StClean st) :
    StClean (histStep fuel pf fs st name).1 ∧ (histStep fuel pf fs st name).1.sentinel = st.sentinel := by
  unfold histStep
  cases hf : fs.lookup name with
  | none => exact ⟨hc, rfl⟩
  | some f =>
      simp only
      cases hl : load fs st name f.syn with
      | error e => exact ⟨hc, rfl⟩
      | ok pr =>
          obtain ⟨st', t⟩ := pr
          obtain ⟨hc', ht, hs', _, _⟩ := load_clean fs st st' name _ _ t hc hl
          have hc'' : StClean { st' with out := [] } := ⟨hc'.1, hc'.2⟩
          have := gen_clean fuel pf fs true t.cls [name] t { st' with out := [] } hc'' ht
          exact ⟨⟨this.1.1, this.1.2⟩, this.2.1.trans hs'⟩

theorem runHistory_clean (fuel pf : Nat) (fs : FS) (hist : List Nat) :
    ∀ st, StClean st → StClean (runHistory fuel pf fs st hist).1 ∧
      (runHistory fuel pf fs st hist).1.sentinel = st.sentinel := by
  induction hist with
  | nil => intro st hc; exact ⟨hc, rfl⟩
  | cons n ns ih =>
      intro st hc
      simp only [runHistory]
      have h1 := histStep_clean fuel pf fs st n hc
      have h2 := ih _ h1.1
      exact ⟨h2.1, h2.2.trans h1.2⟩

/-! ### the flag is read by the parser only, and only at a code block -/

def St.setFlag (b : Bool) (st : St) : St := { st with flag := b }

def Res.setFlag (b : Bool) (r : Res) : Res := (r.1.setFlag b, r.2)

/-- every file of the file system is free of code blocks -/
def FsNoCode (fs : FS) : Prop := ∀ n f, fs.lookup n = some f → noCode f.items = true

theorem parse_noCode_flag (c : Cls) (name : Nat) (f : File) (h : noCode f.items = true) (b b' : Bool) :
    parseFile c b name f = parseFile c b' name f := by
  unfold parseFile
  by_cases h1 : f.syn ≠ c
  · simp [h1]
  · simp [h1, h]

theorem load_flag (fs : FS) (hfs : FsNoCode fs) (st : St) (name : Nat) (c : Cls) (abs b : Bool) :
    load fs (st.setFlag b) name c abs =
      match load fs st name c abs with
      | .error e => .error e
      | .ok (st', t) => .ok (st'.setFlag b, t) := by
  unfold load
  simp only [St.setFlag]
  cases hl : st.cache.lookup (name, abs) with
  | some t0 => rfl
  | none =>
      cases hf : fs.lookup name with
      | none => rfl
      | some f =>
          simp only
          rw [parse_noCode_flag c name f (hfs name f hf) b st.flag]
          cases parseFile c st.flag name f with
          | error e => rfl
          | ok t => rfl

theorem preload_flag (fuel : Nat) (fs : FS) (hfs : FsNoCode fs) (b : Bool) :
    ∀ (stack : List Nat) (t : Tmpl) (st : St),
      preload fuel fs stack t (st.setFlag b) = (preload fuel fs stack t st).setFlag b := by
  induction fuel with
  | zero => intro stack t st; rfl
  | succ fuel ih =>
      intro stack t st
      unfold preload
      apply foldl_rel (fun (x y : Res) => x = y.setFlag b)
      · rfl
      · intro x y it _ hxy
        subst hxy
        obtain ⟨sy, ey⟩ := y
        cases ey with
        | some e => rfl
        | none =>
            cases it with
            | text i => rfl
            | expr i => rfl
            | code i m => rfl
            | incl n p dyn =>
                cases dyn with
                | true => rfl
                | false =>
                    simp only [Res.setFlag]
                    rw [load_flag fs hfs sy n _ _ b]
                    cases load fs sy n (childCls t.cls p) t.absHrefs with
                    | error e => rfl
                    | ok pr =>
                        obtain ⟨st', t'⟩ := pr
                        simp only
                        by_cases hk : stack.contains t'.name = true
                        · rw [if_pos hk, if_pos hk]
                        · rw [if_neg hk, if_neg hk]; exact ih _ _ _

/-- **the flag only affects code blocks**: over a file system without code blocks, generating
    with the loader's flag set to `b` is generating with the flag as it was — same error, same
    sentinel, same output, same cache contents — for every graph, fuel, mode and history -/
theorem gen_flag (fuel pf : Nat) (fs : FS) (hfs : FsNoCode fs) (b : Bool) :
    ∀ (prep : Bool) (host : Cls) (stack : List Nat) (t : Tmpl) (st : St),
      gen fuel pf fs prep host stack t (st.setFlag b) = (gen fuel pf fs prep host stack t st).setFlag b := by
  induction fuel with
  | zero => intro prep host stack t st; rfl
  | succ fuel ih =>
      intro prep host stack t st
      unfold gen
      apply foldl_rel (fun (x y : Res) => x = y.setFlag b)
      · show (if (prep && !(st.setFlag b).autoReload) = true then preload pf fs stack t (st.setFlag b)
              else (st.setFlag b, none)) = _
        have har : (st.setFlag b).autoReload = st.autoReload := rfl
        rw [har]
        by_cases hp : (prep && !st.autoReload) = true
        · rw [if_pos hp, if_pos hp]; exact preload_flag pf fs hfs b stack t st
        · rw [if_neg hp, if_neg hp]; rfl
      · intro x y it _ hxy
        subst hxy
        obtain ⟨sy, ey⟩ := y
        cases ey with
        | some e => rfl
        | none =>
            cases it with
            | text i => rfl
            | expr i => rfl
            | code i m => rfl
            | incl n p dyn =>
                simp only [Res.setFlag]
                have har : (sy.setFlag b).autoReload = sy.autoReload := rfl
                rw [har]
                by_cases hin : (!sy.autoReload && !dyn && !stack.contains n) = true
                · rw [if_pos hin, if_pos hin, load_flag fs hfs sy n _ _ b]
                  cases load fs sy n (childCls t.cls p) t.absHrefs with
                  | error e => rfl
                  | ok pr => obtain ⟨st', t'⟩ := pr; exact ih _ _ _ _ _
                · rw [if_neg hin, if_neg hin, load_flag fs hfs sy n _ _ b]
                  cases load fs sy n (inclCls t.cls p host) t.absHrefs with
                  | error e => rfl
                  | ok pr => obtain ⟨st', t'⟩ := pr; exact ih _ _ _ _ _

/-! ### … lifted to the history and to the whole experiment -/

theorem histStep_flag (fuel pf : Nat) (fs : FS) (hfs : FsNoCode fs) (b : Bool) (st : St) (name : Nat) :
    histStep fuel pf fs (st.setFlag b) name = Res.setFlag b (histStep fuel pf fs st name) := by
  unfold histStep
  cases hf : fs.lookup name with
  | none => rfl
  | some f =>
      simp only
      rw [load_flag fs hfs st name f.syn false b]
      cases load fs st name f.syn with
      | error e => rfl
      | ok pr =>
          obtain ⟨st', t⟩ := pr
          simp only
          have := gen_flag fuel pf fs hfs b true t.cls [name] t { st' with out := [] }
          have h2 : ({ st'.setFlag b with out := [] } : St) = ({ st' with out := [] } : St).setFlag b := rfl
          rw [h2, this]
          rfl

theorem runHistory_flag (fuel pf : Nat) (fs : FS) (hfs : FsNoCode fs) (b : Bool) (hist : List Nat) :
    ∀ st, runHistory fuel pf fs (st.setFlag b) hist =
      ((runHistory fuel pf fs st hist).1.setFlag b, (runHistory fuel pf fs st hist).2) := by
  induction hist with
  | nil => intro st; rfl
  | cons n ns ih =>
      intro st
      simp only [runHistory]
      rw [histStep_flag fuel pf fs hfs b st n]
      simp only [Res.setFlag]
      rw [ih]

/-! ### a run that completes has loaded — hence parsed — everything reachable -/

/-- `a` includes `b` -/
def Inc (fs : FS) (a b : Nat) : Prop :=
  ∃ f p dyn, fs.lookup a = some f ∧ Item.incl b p dyn ∈ f.items

/-- reachability through includes (reflexive, transitive) -/
inductive Reaches (fs : FS) : Nat → Nat → Prop
  | refl (a : Nat) : Reaches fs a a
  | step (a b c : Nat) : Inc fs a b → Reaches fs b c → Reaches fs a c

/-- a template object is the parse of the file of its name -/
def TF (fs : FS) (t : Tmpl) : Prop := ∃ f, fs.lookup t.name = some f ∧ t.items = f.items ∧ t.cls = f.syn

/-- every cached template object sits under its own name and is the parse of that file -/
def Faithful (fs : FS) (st : St) : Prop :=
  ∀ k t, st.cache.lookup k = some t → t.name = k.1 ∧ TF fs t

/-- the cache only grows -/
def Mono (a b : St) : Prop := ∀ k t, a.cache.lookup k = some t → b.cache.lookup k = some t

def Loaded (st : St) (n : Nat) : Prop := ∃ abs t, st.cache.lookup (n, abs) = some t

theorem Mono.refl (a : St) : Mono a a := fun _ _ h => h
theorem Mono.trans {a b c : St} (h1 : Mono a b) (h2 : Mono b c) : Mono a c :=
  fun k t h => h2 k t (h1 k t h)
theorem Loaded.mono {a b : St} {n : Nat} (h : Loaded a n) (hm : Mono a b) : Loaded b n := by
  obtain ⟨abs, t, ht⟩ := h; exact ⟨abs, t, hm _ _ ht⟩

theorem load_faithful (fs : FS) (st st' : St) (name : Nat) (c : Cls) (abs : Bool) (t : Tmpl)
    (hf : Faithful fs st) (h : load fs st name c abs = .ok (st', t)) :
    Faithful fs st' ∧ Mono st st' ∧ t.name = name ∧ TF fs t ∧ Loaded st' name := by
  unfold load at h
  cases hl : st.cache.lookup (name, abs) with
  | some t0 =>
      rw [hl] at h
      cases h
      have := hf _ _ hl
      exact ⟨hf, Mono.refl _, this.1, this.2, ⟨abs, t, hl⟩⟩
  | none =>
      rw [hl] at h
      cases hfile : fs.lookup name with
      | none => rw [hfile] at h; cases h
      | some f =>
          rw [hfile] at h
          simp only at h
          cases hp : parseFile c st.flag name f with
          | error e => rw [hp] at h; cases h
          | ok t1 =>
              rw [hp] at h
              cases h
              obtain ⟨hi, hn, hcls⟩ := parse_items c st.flag name f t hp
              have htf : TF fs t := ⟨f, by rw [hn]; exact hfile, hi, hcls⟩
              refine ⟨?_, ?_, hn, htf, ⟨abs, t, by simp [List.lookup]⟩⟩
              · intro k t2 hk
                rcases lookup_cons_some k (name, abs) t2 t st.cache hk with ⟨rfl, rfl⟩ | h2
                · exact ⟨hn, htf⟩
                · exact hf _ _ h2
              · intro k t2 hk
                have hne : (k == (name, abs)) = false := by
                  cases hkk : (k == (name, abs)) with
                  | false => rfl
                  | true =>
                      have : k = (name, abs) := by simpa using hkk
                      rw [this, hl] at hk; cases hk
                simp [List.lookup, hne, hk]

/-- faithful-and-growing, whatever the result -/
def Grows (fs : FS) (st : St) (r : Res) : Prop := Faithful fs r.1 ∧ Mono st r.1

theorem preload_grows (fuel : Nat) (fs : FS) :
    ∀ (stack : List Nat) (t : Tmpl) (st : St), Faithful fs st → Grows fs st (preload fuel fs stack t st) := by
  induction fuel with
  | zero => intro stack t st hf; exact ⟨hf, Mono.refl _⟩
  | succ fuel ih =>
      intro stack t st hf
      unfold preload
      apply foldl_inv (Grows fs st)
      · exact ⟨hf, Mono.refl _⟩
      · intro acc it _ hacc
        obtain ⟨sa, ea⟩ := acc
        cases ea with
        | some e => exact hacc
        | none =>
            obtain ⟨hfa, hma⟩ := hacc
            simp only at hfa hma
            cases it with
            | text i => exact ⟨hfa, hma⟩
            | expr i => exact ⟨hfa, hma⟩
            | code i m => exact ⟨hfa, hma⟩
            | incl n p dyn =>
                cases dyn with
                | true => exact ⟨hfa, hma⟩
                | false =>
                    simp only
                    cases hl : load fs sa n (childCls t.cls p) t.absHrefs with
                    | error e => exact ⟨hfa, hma⟩
                    | ok pr =>
                        obtain ⟨st', t'⟩ := pr
                        obtain ⟨hf', hm', _, _, _⟩ := load_faithful fs sa st' n _ _ t' hfa hl
                        simp only
                        by_cases hk : stack.contains t'.name = true
                        · rw [if_pos hk]; exact ⟨hf', hma.trans hm'⟩
                        · rw [if_neg hk]
                          have := ih (t'.name :: stack) t' st' hf'
                          exact ⟨this.1, (hma.trans hm').trans this.2⟩

theorem gen_grows (fuel pf : Nat) (fs : FS) :
    ∀ (prep : Bool) (host : Cls) (stack : List Nat) (t : Tmpl) (st : St), Faithful fs st →
      Grows fs st (gen fuel pf fs prep host stack t st) := by
  induction fuel with
  | zero => intro prep host stack t st hf; exact ⟨hf, Mono.refl _⟩
  | succ fuel ih =>
      intro prep host stack t st hf
      unfold gen
      apply foldl_inv (Grows fs st)
      · by_cases hp : (prep && !st.autoReload) = true
        · rw [if_pos hp]; exact preload_grows pf fs stack t st hf
        · rw [if_neg hp]; exact ⟨hf, Mono.refl _⟩
      · intro acc it _ hacc
        obtain ⟨sa, ea⟩ := acc
        cases ea with
        | some e => exact hacc
        | none =>
            obtain ⟨hfa, hma⟩ := hacc
            simp only at hfa hma
            cases it with
            | text i => exact ⟨hfa, hma⟩
            | expr i => exact ⟨hfa, hma⟩
            | code i m => exact ⟨hfa, hma⟩
            | incl n p dyn =>
                simp only
                by_cases hin : (!sa.autoReload && !dyn && !stack.contains n) = true
                · rw [if_pos hin]
                  cases hl : load fs sa n (childCls t.cls p) t.absHrefs with
                  | error e => exact ⟨hfa, hma⟩
                  | ok pr =>
                      obtain ⟨st', t'⟩ := pr
                      obtain ⟨hf', hm', _, _, _⟩ := load_faithful fs sa st' n _ _ t' hfa hl
                      have := ih false host (n :: stack) t' st' hf'
                      exact ⟨this.1, (hma.trans hm').trans this.2⟩
                · rw [if_neg hin]
                  cases hl : load fs sa n (inclCls t.cls p host) t.absHrefs with
                  | error e => exact ⟨hfa, hma⟩
                  | ok pr =>
                      obtain ⟨st', t'⟩ := pr
                      obtain ⟨hf', hm', _, _, _⟩ := load_faithful fs sa st' n _ _ t' hfa hl
                      have := ih true t'.cls [t'.name] t' st' hf'
                      exact ⟨this.1, (hma.trans hm').trans this.2⟩

/-- the error of a fold step is sticky -/
theorem foldl_sticky {α : Type} (f : Res → α → Res) (hs : ∀ s e it, f (s, some e) it = (s, some e))
    (l : List α) (s : St) (e : Err) : l.foldl f (s, some e) = (s, some e) := by
  induction l with
  | nil => rfl
  | cons x xs ih => simp only [List.foldl_cons, hs, ih]

/-- the render step of `gen` (the function folded over the items) -/
def genStep (fuel pf : Nat) (fs : FS) (host : Cls) (stack : List Nat) (t : Tmpl) (acc : Res) (it : Item) : Res :=
  match acc with
  | (st, some e) => (st, some e)
  | (st, none) =>
      match it with
      | .text i => ({ st with out := st.out ++ [i] }, none)
      | .expr i => ({ st with out := st.out ++ [i] }, none)
      | .code i m => ({ st with sentinel := st.sentinel ++ List.replicate m i }, none)
      | .incl n p dyn =>
          if !st.autoReload && !dyn && !stack.contains n then
            match load fs st n (childCls t.cls p) t.absHrefs with
            | .error e => (st, some e)
            | .ok (st', t') => gen fuel pf fs false host (n :: stack) t' st'
          else
            match load fs st n (inclCls t.cls p host) t.absHrefs with
            | .error e => (st, some e)
            | .ok (st', t') => gen fuel pf fs true t'.cls [t'.name] t' st'

theorem gen_succ (fuel pf : Nat) (fs : FS) (prep : Bool) (host : Cls) (stack : List Nat) (t : Tmpl) (st : St) :
    gen (fuel + 1) pf fs prep host stack t st =
      t.items.foldl (genStep fuel pf fs host stack t)
        (if prep && !st.autoReload then preload pf fs stack t st else (st, none)) := by
  rfl

/-- **a generate() that completes without error has loaded every template reachable from its
    includes**, and each of them completed too (induction over the fuel, i.e. the include depth
    actually unfolded; a cyclic graph never completes) -/
theorem gen_closure (fuel pf : Nat) (fs : FS) :
    ∀ (prep : Bool) (host : Cls) (stack : List Nat) (t : Tmpl) (st st' : St), Faithful fs st → TF fs t →
      gen fuel pf fs prep host stack t st = (st', none) →
      ∀ n p dyn, Item.incl n p dyn ∈ t.items → ∀ b, Reaches fs n b → Loaded st' b := by
  induction fuel with
  | zero =>
      intro prep host stack t st st' _ _ h
      simp [gen] at h
  | succ fuel ih =>
      intro prep host stack t st st' hf htf h
      rw [gen_succ] at h
      -- the state the items start from
      have hstart : Grows fs st (if prep && !st.autoReload then preload pf fs stack t st else (st, none)) := by
        by_cases hp : (prep && !st.autoReload) = true
        · rw [if_pos hp]; exact preload_grows pf fs stack t st hf
        · rw [if_neg hp]; exact ⟨hf, Mono.refl _⟩
      generalize (if prep && !st.autoReload then preload pf fs stack t st else (st, none)) = start at h hstart
      -- inner induction over the items still to be rendered
      have inner : ∀ (l : List Item) (acc : Res), Faithful fs acc.1 →
          l.foldl (genStep fuel pf fs host stack t) acc = (st', none) →
          Mono acc.1 st' ∧ ∀ n p dyn, Item.incl n p dyn ∈ l → ∀ b, Reaches fs n b → Loaded st' b := by
        intro l
        induction l with
        | nil =>
            intro acc _ hacc
            simp only [List.foldl_nil] at hacc
            rw [hacc]
            exact ⟨Mono.refl _, by intro n p dyn hmem; cases hmem⟩
        | cons it rest ihl =>
            intro acc hfa hacc
            simp only [List.foldl_cons] at hacc
            obtain ⟨sa, ea⟩ := acc
            cases ea with
            | some e =>
                have hst : ∀ s e it, genStep fuel pf fs host stack t (s, some e) it = (s, some e) := by
                  intro s e it; rfl
                rw [show genStep fuel pf fs host stack t (sa, some e) it = (sa, some e) from rfl,
                    foldl_sticky _ hst] at hacc
                cases hacc
            | none =>
                simp only at hfa
                -- the step on `it`
                have hstep : Grows fs sa (genStep fuel pf fs host stack t (sa, none) it) := by
                  cases it with
                  | text i => exact ⟨hfa, Mono.refl _⟩
                  | expr i => exact ⟨hfa, Mono.refl _⟩
                  | code i m => exact ⟨hfa, Mono.refl _⟩
                  | incl n p dyn =>
                      simp only [genStep]
                      by_cases hin : (!sa.autoReload && !dyn && !stack.contains n) = true
                      · rw [if_pos hin]
                        cases hl : load fs sa n (childCls t.cls p) t.absHrefs with
                        | error e => exact ⟨hfa, Mono.refl _⟩
                        | ok pr =>
                            obtain ⟨s1, t1⟩ := pr
                            obtain ⟨hf1, hm1, _, _, _⟩ := load_faithful fs sa s1 n _ _ t1 hfa hl
                            have := gen_grows fuel pf fs false host (n :: stack) t1 s1 hf1
                            exact ⟨this.1, hm1.trans this.2⟩
                      · rw [if_neg hin]
                        cases hl : load fs sa n (inclCls t.cls p host) t.absHrefs with
                        | error e => exact ⟨hfa, Mono.refl _⟩
                        | ok pr =>
                            obtain ⟨s1, t1⟩ := pr
                            obtain ⟨hf1, hm1, _, _, _⟩ := load_faithful fs sa s1 n _ _ t1 hfa hl
                            have := gen_grows fuel pf fs true t1.cls [t1.name] t1 s1 hf1
                            exact ⟨this.1, hm1.trans this.2⟩
                obtain ⟨hrest_mono, hrest⟩ := ihl _ hstep.1 hacc
                refine ⟨hstep.2.trans hrest_mono, ?_⟩
                intro n p dyn hmem b hb
                cases hmem with
                | tail _ hmem' => exact hrest n p dyn hmem' b hb
                | head =>
                    -- `it` is this include: it was loaded, and generated to completion
                    -- the accumulator after the step has no error (else the fold would keep it)
                    rcases hres : genStep fuel pf fs host stack t (sa, none) (.incl n p dyn) with ⟨s2, e2⟩
                    cases e2 with
                    | some e =>
                        have hst : ∀ s e it, genStep fuel pf fs host stack t (s, some e) it = (s, some e) := by
                          intro s e it; rfl
                        rw [hres, foldl_sticky _ hst] at hacc
                        cases hacc
                    | none =>
                        rw [hres] at hstep hrest_mono
                        simp only [genStep] at hres
                        -- in both branches: load ok (s1, t1), then gen ... t1 s1 = (s2, none)
                        have key : ∃ (s1 : St) (t1 : Tmpl) (c : Cls) (pr' : Bool) (h' : Cls) (k' : List Nat),
                            load fs sa n c t.absHrefs = .ok (s1, t1) ∧
                            gen fuel pf fs pr' h' k' t1 s1 = (s2, none) := by
                          by_cases hin : (!sa.autoReload && !dyn && !stack.contains n) = true
                          · rw [if_pos hin] at hres
                            cases hl : load fs sa n (childCls t.cls p) t.absHrefs with
                            | error e => rw [hl] at hres; cases hres
                            | ok pr =>
                                obtain ⟨s1, t1⟩ := pr
                                rw [hl] at hres
                                exact ⟨s1, t1, _, _, _, _, hl, hres⟩
                          · rw [if_neg hin] at hres
                            cases hl : load fs sa n (inclCls t.cls p host) t.absHrefs with
                            | error e => rw [hl] at hres; cases hres
                            | ok pr =>
                                obtain ⟨s1, t1⟩ := pr
                                rw [hl] at hres
                                exact ⟨s1, t1, _, _, _, _, hl, hres⟩
                        obtain ⟨s1, t1, c, pr', h', k', hl, hg⟩ := key
                        obtain ⟨hf1, _, hname, htf1, hloaded⟩ := load_faithful fs sa s1 n _ _ t1 hfa hl
                        have hg_grows := gen_grows fuel pf fs pr' h' k' t1 s1 hf1
                        rw [hg] at hg_grows
                        -- b is n itself or reached through an include of n
                        cases hb with
                        | refl => exact (hloaded.mono hg_grows.2).mono hrest_mono
                        | step _ m _ hinc hmb =>
                            obtain ⟨f, p', dyn', hfl, hmem'⟩ := hinc
                            have htf1' := htf1
                            obtain ⟨f1, hf1l, hitems, _⟩ := htf1
                            rw [hname] at hf1l
                            rw [hfl] at hf1l
                            cases hf1l
                            rw [← hitems] at hmem'
                            exact (ih pr' h' k' t1 s1 s2 hf1 htf1' hg m p' dyn' hmem' b hmb).mono hrest_mono
      exact (inner t.items start hstart.1 h).2

theorem histStep_faithful (fuel pf : Nat) (fs : FS) (st : St) (name : Nat) (hf : Faithful fs st) :
    Faithful fs (histStep fuel pf fs st name).1 := by
  unfold histStep
  cases hfile : fs.lookup name with
  | none => exact hf
  | some f =>
      simp only
      cases hl : load fs st name f.syn with
      | error e => exact hf
      | ok pr =>
          obtain ⟨st', t⟩ := pr
          obtain ⟨hf', _, _, _, _⟩ := load_faithful fs st st' name _ _ t hf hl
          have hf'' : Faithful fs { st' with out := [] } := hf'
          have := gen_grows fuel pf fs true t.cls [name] t { st' with out := [] } hf''
          exact this.1

theorem runHistory_faithful (fuel pf : Nat) (fs : FS) (hist : List Nat) :
    ∀ st, Faithful fs st → Faithful fs (runHistory fuel pf fs st hist).1 := by
  induction hist with
  | nil => intro st hf; exact hf
  | cons n ns ih =>
      intro st hf
      simp only [runHistory]
      exact ih _ (histStep_faithful fuel pf fs st n hf)

end Genshi.Exec

namespace Genshi.Exec

/-! ### a loader whose flag is off: only the generating template's own blocks can run -/

/-- ids of the code blocks among the items -/
def codeIds : List Item → List Nat
  | [] => []
  | .code i _ :: rest => i :: codeIds rest
  | _ :: rest => codeIds rest

theorem mem_codeIds {items : List Item} {i m : Nat} (h : Item.code i m ∈ items) : i ∈ codeIds items := by
  induction items with
  | nil => cases h
  | cons x xs ih =>
      cases h with
      | head => simp [codeIds]
      | tail _ h' => cases x <;> simp [codeIds, ih h']

/-- generating *any* template object (its own flag may be on: it may hold EXEC events) through a
    loader whose flag is off and whose cache is code-free: whatever is added to the sentinel comes
    from that template's own code blocks — nothing it includes, at any depth, runs -/
theorem gen_own_only (fuel pf : Nat) (fs : FS) (prep : Bool) (host : Cls) (stack : List Nat) (t : Tmpl)
    (st : St) (hc : StClean st) :
    StClean (gen fuel pf fs prep host stack t st).1 ∧
      ∀ i ∈ (gen fuel pf fs prep host stack t st).1.sentinel, i ∈ st.sentinel ∨ i ∈ codeIds t.items := by
  cases fuel with
  | zero => exact ⟨hc, fun i hi => Or.inl hi⟩
  | succ fuel =>
      unfold gen
      apply foldl_inv (fun (r : Res) => StClean r.1 ∧ ∀ i ∈ r.1.sentinel, i ∈ st.sentinel ∨ i ∈ codeIds t.items)
      · by_cases hp : (prep && !st.autoReload) = true
        · rw [if_pos hp]
          have := preload_clean pf fs stack t st hc
          exact ⟨this.1, by intro i hi; rw [this.2.1] at hi; exact Or.inl hi⟩
        · rw [if_neg hp]; exact ⟨hc, fun i hi => Or.inl hi⟩
      · intro acc it hit hacc
        obtain ⟨sa, ea⟩ := acc
        cases ea with
        | some e => exact hacc
        | none =>
            obtain ⟨hca, hsa⟩ := hacc
            simp only at hca hsa
            cases it with
            | text i => exact ⟨⟨hca.1, hca.2⟩, hsa⟩
            | expr i => exact ⟨⟨hca.1, hca.2⟩, hsa⟩
            | code i m =>
                refine ⟨⟨hca.1, hca.2⟩, ?_⟩
                intro j hj
                simp only [List.mem_append, List.mem_replicate] at hj
                rcases hj with hj | ⟨_, rfl⟩
                · exact hsa j hj
                · exact Or.inr (mem_codeIds hit)
            | incl n p dyn =>
                simp only
                by_cases hin : (!sa.autoReload && !dyn && !stack.contains n) = true
                · rw [if_pos hin]
                  cases hl : load fs sa n (childCls t.cls p) t.absHrefs with
                  | error e => exact ⟨hca, hsa⟩
                  | ok pr =>
                      obtain ⟨st', t'⟩ := pr
                      obtain ⟨hc', ht', hs', _, _⟩ := load_clean fs sa st' n _ _ t' hca hl
                      have := gen_clean fuel pf fs false host (n :: stack) t' st' hc' ht'
                      exact ⟨this.1, by intro i hi; rw [this.2.1, hs'] at hi; exact hsa i hi⟩
                · rw [if_neg hin]
                  cases hl : load fs sa n (inclCls t.cls p host) t.absHrefs with
                  | error e => exact ⟨hca, hsa⟩
                  | ok pr =>
                      obtain ⟨st', t'⟩ := pr
                      obtain ⟨hc', ht', hs', _, _⟩ := load_clean fs sa st' n _ _ t' hca hl
                      have := gen_clean fuel pf fs true t'.cls [t'.name] t' st' hc' ht'
                      exact ⟨this.1, by intro i hi; rw [this.2.1, hs'] at hi; exact hsa i hi⟩

end Genshi.Exec

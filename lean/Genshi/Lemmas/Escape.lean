/-
  Helper lemmas for C18 (and for every property that reasons about escaped
  text): `str.replace` on block-structured strings, the C byte scan, UTF-8.
-/
import Genshi.Model.Escape
namespace Genshi.Escape
open Genshi.Str

/-! ### replace -/

theorem replaceGo_skip (pat new : List Char) (xs rest : List Char) :
    replaceGo pat new xs.length (xs ++ rest) = replaceGo pat new 0 rest := by
  induction xs with
  | nil => simp
  | cons x xs ih =>
    cases h : xs ++ rest <;> simp_all [replaceGo]

theorem replaceGo_nil (pat new : List Char) (k : Nat) : replaceGo pat new k [] = [] := by
  cases k <;> simp [replaceGo]

/-- single-character pattern: `replace` is a `flatMap` -/
theorem replace_single (c : Char) (new s : List Char) :
    replace [c] new s = s.flatMap (fun x => if x = c then new else [x]) := by
  simp only [replace, List.isEmpty_cons, Bool.false_eq_true, ↓reduceIte]
  induction s with
  | nil => simp [replaceGo]
  | cons x xs ih =>
    by_cases hx : x = c
    · subst hx; simp [replaceGo, List.isPrefixOf, ih]
    · have : (c == x) = false := by simp; exact fun h => hx h.symm
      simp [replaceGo, List.isPrefixOf, this, hx, ih]

/-! ### escapePy = escapeSpec -/

theorem escapePy_eq_spec (q : Bool) (s : List Char) : escapePy q s = escapeSpec q s := by
  unfold escapePy escapeSpec
  simp only [replace_single]
  cases q
  · simp only [Bool.false_eq_true, ↓reduceIte, List.flatMap_assoc]
    congr 1; funext c
    by_cases h1 : c = '&'
    · subst h1; simp [escC, amp]
    by_cases h2 : c = '<'
    · subst h2; simp [escC, lt]
    by_cases h3 : c = '>'
    · subst h3; simp [escC, gt]
    simp [escC, h1, h2, h3]
  · simp only [↓reduceIte, List.flatMap_assoc]
    congr 1; funext c
    by_cases h1 : c = '&'
    · subst h1; simp [escC, amp]
    by_cases h2 : c = '<'
    · subst h2; simp [escC, lt]
    by_cases h3 : c = '>'
    · subst h3; simp [escC, gt]
    by_cases h4 : c = '"'
    · subst h4; simp [escC, qt]
    simp [escC, h1, h2, h3, h4]



/-! ### unescape ∘ escape = id, stage by stage -/

/-- the text after `k` of the four `replace` calls of `unescape`, per source character -/
def stage (q : Bool) (k : Nat) (c : Char) : List Char :=
  if c = '"' then (if q && k == 0 then qt else [c])
  else if c = '>' then (if k ≤ 1 then gt else [c])
  else if c = '<' then (if k ≤ 2 then lt else [c])
  else if c = '&' then (if k ≤ 3 then amp else [c])
  else [c]

theorem stage_zero (q : Bool) (c : Char) : stage q 0 c = escC q c := by
  unfold stage escC
  by_cases h1 : c = '&' <;> by_cases h2 : c = '<' <;> by_cases h3 : c = '>' <;>
    by_cases h4 : c = '"' <;> simp_all

theorem stage_four (q : Bool) (c : Char) : stage q 4 c = [c] := by
  unfold stage
  by_cases h1 : c = '&' <;> by_cases h2 : c = '<' <;> by_cases h3 : c = '>' <;>
    by_cases h4 : c = '"' <;> simp_all

private theorem no_amp_step (p new : List Char) (c : Char) (rest : List Char) (hc : c ≠ '&') :
    replaceGo ('&' :: p) new 0 (c :: rest) = c :: replaceGo ('&' :: p) new 0 rest := by
  have : ('&' == c) = false := by simp; exact fun h => hc h.symm
  simp [replaceGo, List.isPrefixOf, this]

theorem stage_step1 (q : Bool) (s : List Char) :
    replaceGo qt ['"'] 0 (s.flatMap (stage q 0)) = s.flatMap (stage q 1) := by
  simp only [qt]
  induction s with
  | nil => simp [replaceGo]
  | cons c cs ih =>
    simp only [List.flatMap_cons]
    by_cases h4 : c = '"'
    · subst h4
      cases q
      · simp [stage, replaceGo, List.isPrefixOf, qt, ih]
      · simp [stage, replaceGo, List.isPrefixOf, qt, ih]
    by_cases h3 : c = '>'
    · subst h3; simp [stage, replaceGo, List.isPrefixOf, qt, gt, ih]
    by_cases h2 : c = '<'
    · subst h2; simp [stage, replaceGo, List.isPrefixOf, qt, lt, ih]
    by_cases h1 : c = '&'
    · subst h1; simp [stage, replaceGo, List.isPrefixOf, qt, amp, ih]
    · simp only [stage, h1, h2, h3, h4, ↓reduceIte, List.cons_append, List.nil_append]
      rw [no_amp_step _ _ _ _ h1, ih]

theorem stage_step2 (q : Bool) (s : List Char) :
    replaceGo gt ['>'] 0 (s.flatMap (stage q 1)) = s.flatMap (stage q 2) := by
  simp only [gt]
  induction s with
  | nil => simp [replaceGo]
  | cons c cs ih =>
    simp only [List.flatMap_cons]
    by_cases h4 : c = '"'
    · subst h4
      cases q
      · simp [stage, replaceGo, List.isPrefixOf, ih]
      · simp [stage, replaceGo, List.isPrefixOf, ih]
    by_cases h3 : c = '>'
    · subst h3; simp [stage, replaceGo, List.isPrefixOf, gt, ih]
    by_cases h2 : c = '<'
    · subst h2; simp [stage, replaceGo, List.isPrefixOf, lt, ih]
    by_cases h1 : c = '&'
    · subst h1; simp [stage, replaceGo, List.isPrefixOf, amp, ih]
    · simp only [stage, h1, h2, h3, h4, ↓reduceIte, List.cons_append, List.nil_append]
      rw [no_amp_step _ _ _ _ h1, ih]

theorem stage_step3 (q : Bool) (s : List Char) :
    replaceGo lt ['<'] 0 (s.flatMap (stage q 2)) = s.flatMap (stage q 3) := by
  simp only [lt]
  induction s with
  | nil => simp [replaceGo]
  | cons c cs ih =>
    simp only [List.flatMap_cons]
    by_cases h4 : c = '"'
    · subst h4
      cases q
      · simp [stage, replaceGo, List.isPrefixOf, ih]
      · simp [stage, replaceGo, List.isPrefixOf, ih]
    by_cases h3 : c = '>'
    · subst h3; simp [stage, replaceGo, List.isPrefixOf, ih]
    by_cases h2 : c = '<'
    · subst h2; simp [stage, replaceGo, List.isPrefixOf, lt, ih]
    by_cases h1 : c = '&'
    · subst h1; simp [stage, replaceGo, List.isPrefixOf, amp, ih]
    · simp only [stage, h1, h2, h3, h4, ↓reduceIte, List.cons_append, List.nil_append]
      rw [no_amp_step _ _ _ _ h1, ih]

theorem stage_step4 (q : Bool) (s : List Char) :
    replaceGo amp ['&'] 0 (s.flatMap (stage q 3)) = s.flatMap (stage q 4) := by
  simp only [amp]
  induction s with
  | nil => simp [replaceGo]
  | cons c cs ih =>
    simp only [List.flatMap_cons]
    by_cases h4 : c = '"'
    · subst h4
      cases q
      · simp [stage, replaceGo, List.isPrefixOf, ih]
      · simp [stage, replaceGo, List.isPrefixOf, ih]
    by_cases h3 : c = '>'
    · subst h3; simp [stage, replaceGo, List.isPrefixOf, ih]
    by_cases h2 : c = '<'
    · subst h2; simp [stage, replaceGo, List.isPrefixOf, ih]
    by_cases h1 : c = '&'
    · subst h1; simp [stage, replaceGo, List.isPrefixOf, amp, ih]
    · simp only [stage, h1, h2, h3, h4, ↓reduceIte, List.cons_append, List.nil_append]
      rw [no_amp_step _ _ _ _ h1, ih]

theorem unescape_escapeSpec (q : Bool) (s : List Char) : unescape (escapeSpec q s) = s := by
  have h0 : escapeSpec q s = s.flatMap (stage q 0) := by
    unfold escapeSpec; congr 1; funext c; exact (stage_zero q c).symm
  have h4 : s.flatMap (stage q 4) = s := by
    have : stage q 4 = fun c => [c] := by funext c; exact stage_four q c
    rw [this]; induction s with
    | nil => rfl
    | cons c cs ih => simp [List.flatMap_cons, ih]
  unfold unescape replace
  simp only [qt, gt, lt, amp, List.isEmpty_cons, Bool.false_eq_true, ↓reduceIte]
  rw [h0]
  have s1 := stage_step1 q s; have s2 := stage_step2 q s
  have s3 := stage_step3 q s; have s4 := stage_step4 q s
  simp only [qt, gt, lt, amp] at s1 s2 s3 s4
  rw [s1, s2, s3, s4, h4]


/-! ### the C byte scan -/

/-- number of bytes the scan replaces -/
def nSpecial (q : Bool) : List Nat → Nat
  | [] => 0
  | b :: bs => (if b = 38 ∨ b = 60 ∨ b = 62 ∨ (b = 34 ∧ q = true) then 1 else 0) + nSpecial q bs

theorem cCount_spec (q : Bool) (bs : List Nat) :
    cCount q bs = ((bs.flatMap (escB q)).length, nSpecial q bs) := by
  induction bs with
  | nil => rfl
  | cons b bs ih =>
    simp only [cCount, ih, List.flatMap_cons, List.length_append, nSpecial]
    by_cases h1 : b = 38
    · subst h1; simp [escB, bAmp]; omega
    by_cases h2 : b = 34
    · subst h2; cases q <;> simp [escB, bQt] <;> omega
    by_cases h3 : b = 60
    · subst h3; simp [escB, bLt]; omega
    by_cases h4 : b = 62
    · subst h4; simp [escB, bGt]; omega
    simp [escB, h1, h2, h3, h4]; omega

theorem flatMap_escB_of_nSpecial_zero (q : Bool) (bs : List Nat) (h : nSpecial q bs = 0) :
    bs.flatMap (escB q) = bs := by
  induction bs with
  | nil => rfl
  | cons b bs ih =>
    simp only [nSpecial] at h
    have hb : ¬ (b = 38 ∨ b = 60 ∨ b = 62 ∨ (b = 34 ∧ q = true)) := by
      intro hb; simp [hb] at h
    have h' : nSpecial q bs = 0 := by omega
    simp only [List.flatMap_cons, ih h']
    have : escB q b = [b] := by
      unfold escB
      by_cases h1 : b = 38 <;> by_cases h2 : b = 60 <;> by_cases h3 : b = 62 <;>
        by_cases h4 : b = 34 <;> cases q <;> simp_all
    simp [this]

theorem cLoop_spec (q : Bool) (inn : Nat) (bs : List Nat) :
    ∀ outn, outn + nSpecial q bs = inn → cLoop q inn outn bs = bs.flatMap (escB q) := by
  induction bs with
  | nil => intro outn _; rfl
  | cons b bs ih =>
    intro outn h
    simp only [cLoop]
    by_cases h0 : outn = inn
    · have hz : nSpecial q (b :: bs) = 0 := by omega
      simp [h0, flatMap_escB_of_nSpecial_zero q (b :: bs) hz]
    simp only [h0, ↓reduceIte, List.flatMap_cons]
    simp only [nSpecial] at h
    by_cases h1 : b = 38
    · subst h1; simp at h; simp [escB]; exact ih _ (by omega)
    by_cases h2 : b = 34
    · subst h2; cases q
      · simp at h; simp [escB]; exact ih _ (by omega)
      · simp at h; simp [escB]; exact ih _ (by omega)
    by_cases h3 : b = 60
    · subst h3; simp at h; simp [escB]; exact ih _ (by omega)
    by_cases h4 : b = 62
    · subst h4; simp at h; simp [escB]; exact ih _ (by omega)
    simp [h1, h2, h3, h4] at h
    simp [escB, h1, h2, h3, h4]; exact ih _ h

theorem escapeCBytes_spec (q : Bool) (bs : List Nat) :
    escapeCBytes q bs = (bs.flatMap (escB q), (bs.flatMap (escB q)).length) := by
  unfold escapeCBytes
  rw [cCount_spec]
  by_cases h : nSpecial q bs = 0
  · simp [h, flatMap_escB_of_nSpecial_zero q bs h]
  · simp [h, cLoop_spec q (nSpecial q bs) bs 0 (by omega)]

/-! ### UTF-8 bridge -/

theorem char_eq_of_toNat (c d : Char) (h : c.toNat = d.toNat) : c = d := Char.toNat_inj.mp h

theorem escB_id (q : Bool) (b : Nat) (h : b ≠ 38 ∧ b ≠ 60 ∧ b ≠ 62 ∧ b ≠ 34) : escB q b = [b] := by
  simp [escB, h.1, h.2.1, h.2.2.1, h.2.2.2]

theorem utf8Char_escB (q : Bool) (c : Char) :
    (utf8Char c).flatMap (escB q) = utf8 (escC q c) := by
  by_cases h1 : c = '&'
  · subst h1; cases q <;> decide
  by_cases h2 : c = '<'
  · subst h2; cases q <;> decide
  by_cases h3 : c = '>'
  · subst h3; cases q <;> decide
  by_cases h4 : c = '"'
  · subst h4; cases q <;> decide
  have e : escC q c = [c] := by simp [escC, h1, h2, h3, h4]
  have n1 : c.toNat ≠ 38 := fun h => h1 (char_eq_of_toNat c '&' h)
  have n2 : c.toNat ≠ 60 := fun h => h2 (char_eq_of_toNat c '<' h)
  have n3 : c.toNat ≠ 62 := fun h => h3 (char_eq_of_toNat c '>' h)
  have n4 : c.toNat ≠ 34 := fun h => h4 (char_eq_of_toNat c '"' h)
  rw [e]
  simp only [utf8, List.flatMap_cons, List.flatMap_nil, List.append_nil]
  unfold utf8Char
  generalize c.toNat = v at *
  simp only []
  split
  · simp [escB_id q v ⟨n1, n2, n3, n4⟩]
  · split
    · simp [escB_id q (192 + v / 64) (by omega), escB_id q (128 + v % 64) (by omega)]
    · split
      · simp [escB_id q (224 + v / 4096) (by omega), escB_id q (128 + v / 64 % 64) (by omega),
          escB_id q (128 + v % 64) (by omega)]
      · simp [escB_id q (240 + v / 262144) (by omega), escB_id q (128 + v / 4096 % 64) (by omega),
          escB_id q (128 + v / 64 % 64) (by omega), escB_id q (128 + v % 64) (by omega)]

theorem utf8_escapeSpec (q : Bool) (s : List Char) :
    utf8 (escapeSpec q s) = (utf8 s).flatMap (escB q) := by
  induction s with
  | nil => rfl
  | cons c cs ih =>
    simp only [escapeSpec, utf8, List.flatMap_cons, List.flatMap_append] at ih ⊢
    rw [ih, utf8Char_escB]; rfl


end Genshi.Escape

/-
  C02 — part B: the whole run; the text-level hypotheses follow from their
  input-side form (`inputTextOK`).
-/
import Genshi.Lemmas.XmlTxtA
import Genshi.Lemmas.XmlIdem
namespace Genshi.Xml
open Genshi Genshi.Escape Genshi.Xml.Reader

structure TxtInv (rep : Char → Bool) (st : FSt) : Prop where
  bind : BindTxt rep st.bindings
  pend : DeclTxt rep st.pending
  elems : ∀ e ∈ st.elems, nameTxt rep e.1 = true

theorem nameTxt_xmlns (rep : Char → Bool) (hr : AsciiRep rep) : nameTxt rep xmlnsName = true := by
  unfold nameTxt
  simp only [Bool.and_eq_true, List.all_eq_true]
  refine ⟨by decide, ?_⟩
  intro c hc
  apply hr
  revert hc; simp [xmlnsName]; rintro (rfl | rfl | rfl | rfl | rfl) <;> decide

theorem nameTxt_nsAttrName (rep : Char → Bool) (hr : AsciiRep rep) {p : Str} (hp : prefixTxt rep p = true) :
    nameTxt rep (nsAttrName p) = true := by
  unfold nsAttrName
  by_cases he : p.isEmpty = true
  · simp [he, nameTxt_xmlns rep hr]
  · simp only [he, Bool.false_eq_true, if_false]
    unfold prefixTxt at hp
    simp only [he, Bool.false_or] at hp
    exact nameTxt_qualified rep hr (nameTxt_xmlns rep hr) hp

/-- what a start tag looks like when the state and the event can be written -/
theorem flatStart_txt (rep : Char → Bool) (hr : AsciiRep rep) (pref : List (Str × Str))
    (hp : prefTxt rep pref = true) (st : FSt) (inv : TxtInv rep st) (tag : QName) (attrs : AttrList)
    (hq : qnameTxt rep tag = true) (ha : attrsTxt rep attrs = true) :
    nameTxt rep (flatStart pref st tag attrs).1 = true ∧
    (∀ o ∈ (flatStart pref st tag attrs).2.1, nameTxt rep o.1 = true ∧ attrValOK o.2 = true) ∧
    TagTxt rep (flatStart pref st tag attrs).2.2 := by
  have t0 : TagTxt rep (takePending { bindings := st.bindings, declared := [], counter := st.counter } st.pending) :=
    takePending_txt rep st.pending _ ⟨inv.bind, by intro d hd; simp at hd⟩ inv.pend
  obtain ⟨t1, n1⟩ := flatTag_txt rep hr pref hp _ t0 tag hq
  obtain ⟨t2, a2⟩ := flatAttrs_txt rep hr pref hp attrs _ t1 ha
  unfold flatStart
  simp only
  refine ⟨n1, ?_, t2⟩
  intro o ho
  rcases List.mem_append.mp ho with ho | ho
  · simp only [List.mem_map] at ho
    obtain ⟨d, hd, rfl⟩ := ho
    have := t2.decl d hd
    exact ⟨nameTxt_nsAttrName rep hr this.1, this.2⟩
  · exact a2 o ho

/-- an output event and the corresponding event of the skeleton -/
def simF (rep : Char → Bool) : FEv → FEv → Prop
  | .start n a, .start _ _ => nameTxt rep n = true ∧ ∀ o ∈ a, nameTxt rep o.1 = true ∧ attrValOK o.2 = true
  | .empty n a, .empty _ _ => nameTxt rep n = true ∧ ∀ o ∈ a, nameTxt rep o.1 = true ∧ attrValOK o.2 = true
  | .end_ n, .end_ _ => nameTxt rep n = true
  | .other e, .other e' => e = e'
  | _, _ => False

theorem evTxt_all_cons {rep : Char → Bool} {x : XEv} {xs : List XEv} (h : (x :: xs).all (evTxt rep) = true) :
    evTxt rep x = true ∧ xs.all (evTxt rep) = true := by
  simpa using h

theorem flatRun_sim (rep : Char → Bool) (hr : AsciiRep rep) (pref : List (Str × Str))
    (hp : prefTxt rep pref = true) :
    ∀ (xs : List XEv) (st : FSt), TxtInv rep st → xs.all (evTxt rep) = true →
      List.Forall₂ (simF rep) (flatRun pref st xs) (skeleton xs) := by
  intro xs
  induction xs with
  | nil => intro st _ _; exact .nil
  | cons x xs ih =>
    intro st inv hall
    obtain ⟨hx, hxs⟩ := evTxt_all_cons hall
    rw [flatRun_cons]
    cases x with
    | empty tag attrs =>
      simp only [evTxt, Bool.and_eq_true] at hx
      obtain ⟨n1, a1, t1⟩ := flatStart_txt rep hr pref hp st inv tag attrs hx.1 hx.2
      simp only [flatStep, skeleton, List.cons_append, List.nil_append]
      refine .cons ⟨n1, a1⟩ (ih _ ⟨inv.bind, by intro d hd; simp at hd, inv.elems⟩ hxs)
    | ev e =>
      cases e with
      | start tag attrs =>
        simp only [evTxt, Bool.and_eq_true] at hx
        obtain ⟨n1, a1, t1⟩ := flatStart_txt rep hr pref hp st inv tag attrs hx.1 hx.2
        simp only [flatStep, skeleton, List.cons_append, List.nil_append]
        refine .cons ⟨n1, a1⟩ (ih _ ⟨t1.bind, by intro d hd; simp at hd, ?_⟩ hxs)
        intro e he
        rcases List.mem_cons.mp he with rfl | he
        · exact n1
        · exact inv.elems e he
      | end_ tag =>
        simp only [evTxt] at hx
        obtain ⟨hl, _⟩ := qnameTxt_parts hx
        simp only [flatStep, skeleton]
        cases hel : st.elems with
        | nil =>
          simp only [List.cons_append, List.nil_append]
          refine .cons ?_ (ih _ inv hxs)
          show nameTxt rep _ = true
          split
          · exact hl
          · split
            · rename_i p hf
              exact nameTxt_qualify rep hr (inv.bind.of_uriOf (findPrefix_sound _ _ _ _ hf).1) hl
            · exact hl
        | cons top rest =>
          obtain ⟨name, n⟩ := top
          simp only [List.cons_append, List.nil_append]
          refine .cons ?_ (ih _ ⟨?_, inv.pend, ?_⟩ hxs)
          · exact inv.elems (name, n) (by rw [hel]; simp)
          · intro b hb; exact inv.bind b (List.mem_of_mem_drop hb)
          · intro e he; exact inv.elems e (by rw [hel]; simp [he])
      | startNs p u =>
        simp only [evTxt, Bool.and_eq_true] at hx
        simp only [flatStep, skeleton, List.nil_append]
        refine ih { st with pending := st.pending.filter (fun d => d.1 ≠ p) ++ [(p, u)] } ⟨inv.bind, ?_, inv.elems⟩ hxs
        intro d hd
        rcases List.mem_append.mp hd with hd | hd
        · exact inv.pend d (List.mem_filter.mp hd).1
        · simp only [List.mem_singleton] at hd; subst hd; exact hx
      | endNs p =>
        simp only [flatStep, skeleton, List.nil_append]
        refine ih { st with pending := st.pending.filter (fun d => d.1 ≠ p) } ⟨inv.bind, ?_, inv.elems⟩ hxs
        intro d hd
        exact inv.pend d (List.mem_filter.mp hd).1
      | text s f => simp only [flatStep, skeleton, List.cons_append, List.nil_append]; exact .cons rfl (ih _ inv hxs)
      | comment s => simp only [flatStep, skeleton, List.cons_append, List.nil_append]; exact .cons rfl (ih _ inv hxs)
      | pi t d => simp only [flatStep, skeleton, List.cons_append, List.nil_append]; exact .cons rfl (ih _ inv hxs)
      | doctype n p s => simp only [flatStep, skeleton, List.cons_append, List.nil_append]; exact .cons rfl (ih _ inv hxs)
      | xmlDecl v e s => simp only [flatStep, skeleton, List.cons_append, List.nil_append]; exact .cons rfl (ih _ inv hxs)
      | startCdata => simp only [flatStep, skeleton, List.cons_append, List.nil_append]; exact .cons rfl (ih _ inv hxs)
      | endCdata => simp only [flatStep, skeleton, List.cons_append, List.nil_append]; exact .cons rfl (ih _ inv hxs)

end Genshi.Xml

namespace Genshi.Xml
open Genshi Genshi.Escape Genshi.Xml.Reader

theorem simF_other_right {rep : Char → Bool} {f : FEv} {e : Event} (h : simF rep f (.other e)) : f = .other e := by
  cases f <;> simp_all [simF]

theorem simF_start_right {rep : Char → Bool} {f : FEv} {n : Str} {a : List (Str × Str)} (h : simF rep f (.start n a)) :
    ∃ n' a', f = .start n' a' ∧ nameTxt rep n' = true ∧ ∀ o ∈ a', nameTxt rep o.1 = true ∧ attrValOK o.2 = true := by
  cases f with
  | start n' a' => exact ⟨n', a', rfl, h.1, h.2⟩
  | _ => simp [simF] at h

theorem simF_empty_right {rep : Char → Bool} {f : FEv} {n : Str} {a : List (Str × Str)} (h : simF rep f (.empty n a)) :
    ∃ n' a', f = .empty n' a' ∧ nameTxt rep n' = true ∧ ∀ o ∈ a', nameTxt rep o.1 = true ∧ attrValOK o.2 = true := by
  cases f with
  | empty n' a' => exact ⟨n', a', rfl, h.1, h.2⟩
  | _ => simp [simF] at h

theorem simF_end_right {rep : Char → Bool} {f : FEv} {n : Str} (h : simF rep f (.end_ n)) :
    ∃ n', f = .end_ n' ∧ nameTxt rep n' = true := by
  cases f <;> simp_all [simF]

theorem sim_startsWithText {rep : Char → Bool} {fs gs : List FEv} (h : List.Forall₂ (simF rep) fs gs) :
    startsWithText fs = startsWithText gs := by
  cases h with
  | nil => rfl
  | @cons f g fs' gs' h1 _ =>
    cases g with
    | other e =>
      rw [simF_other_right h1]
      cases e <;> rfl
    | start n a => obtain ⟨n', a', rfl, _⟩ := simF_start_right h1; rfl
    | empty n a => obtain ⟨n', a', rfl, _⟩ := simF_empty_right h1; rfl
    | end_ n => obtain ⟨n', rfl, _⟩ := simF_end_right h1; rfl

theorem nameTxt_valid {rep : Char → Bool} {n : Str} (h : nameTxt rep n = true) : validName n = true ∧ n.all rep = true := by
  unfold nameTxt at h; simpa using h

theorem flatAttrsOK_of_txt {rep : Char → Bool} {a : List (Str × Str)}
    (h : ∀ o ∈ a, nameTxt rep o.1 = true ∧ attrValOK o.2 = true) :
    flatAttrsOK a = true ∧ a.all (fun x => x.1.all rep) = true := by
  unfold flatAttrsOK
  refine ⟨List.all_eq_true.mpr fun o ho => ?_, List.all_eq_true.mpr fun o ho => (nameTxt_valid (h o ho).1).2⟩
  simp only [Bool.and_eq_true]
  exact ⟨(nameTxt_valid (h o ho).1).1, (h o ho).2⟩

theorem contentOK_sim (rep : Char → Bool) (dt : Bool) (gs : List FEv) (hg : contentOK dt gs = true) :
    ∀ fs, List.Forall₂ (simF rep) fs gs → contentOK dt fs = true := by
  fun_induction contentOK dt gs
  · intro fs h; cases h; rfl
  · rename_i dt n a es ih
    intro fs h
    cases h with
    | cons h1 h2 =>
      obtain ⟨n', a', rfl, hn, ha⟩ := simF_start_right h1
      simp only [Bool.and_eq_true] at hg
      simp only [contentOK, Bool.and_eq_true]
      exact ⟨⟨(nameTxt_valid hn).1, (flatAttrsOK_of_txt ha).1⟩, ih hg.2 _ h2⟩
  · rename_i dt n a es ih
    intro fs h
    cases h with
    | cons h1 h2 =>
      obtain ⟨n', a', rfl, hn, ha⟩ := simF_empty_right h1
      simp only [Bool.and_eq_true] at hg
      simp only [contentOK, Bool.and_eq_true]
      exact ⟨⟨(nameTxt_valid hn).1, (flatAttrsOK_of_txt ha).1⟩, ih hg.2 _ h2⟩
  · rename_i dt n es ih
    intro fs h
    cases h with
    | cons h1 h2 =>
      obtain ⟨n', rfl, hn⟩ := simF_end_right h1
      simp only [Bool.and_eq_true] at hg
      simp only [contentOK, Bool.and_eq_true]
      exact ⟨(nameTxt_valid hn).1, ih hg.2 _ h2⟩
  · rename_i dt s safe es ih
    intro fs h
    cases h with
    | cons h1 h2 =>
      rw [simF_other_right h1]
      simp only [Bool.and_eq_true] at hg
      simp only [contentOK, Bool.and_eq_true]
      refine ⟨⟨hg.1.1, ?_⟩, ih hg.2 _ h2⟩
      rw [sim_startsWithText h2]; exact hg.1.2
  · rename_i dt s es ih
    intro fs h
    cases h with
    | cons h1 h2 =>
      rw [simF_other_right h1]
      simp only [Bool.and_eq_true] at hg
      simp only [contentOK, Bool.and_eq_true]
      exact ⟨hg.1, ih hg.2 _ h2⟩
  · rename_i dt t d es ih
    intro fs h
    cases h with
    | cons h1 h2 =>
      rw [simF_other_right h1]
      simp only [Bool.and_eq_true] at hg
      simp only [contentOK, Bool.and_eq_true]
      exact ⟨hg.1, ih hg.2 _ h2⟩
  · rename_i dt s safe es ih
    intro fs h
    cases h with
    | cons h1 h2 =>
      cases h2 with
      | cons h3 h4 =>
        cases h4 with
        | cons h5 h6 =>
          rw [simF_other_right h1, simF_other_right h3, simF_other_right h5]
          simp only [Bool.and_eq_true] at hg
          simp only [contentOK, Bool.and_eq_true]
          exact ⟨hg.1, ih hg.2 _ h6⟩
  · rename_i dt es ih
    intro fs h
    cases h with
    | cons h1 h2 =>
      cases h2 with
      | cons h3 h4 =>
        rw [simF_other_right h1, simF_other_right h3]
        simp only [contentOK]
        exact ih hg _ h4
  · rename_i n p s es ih
    intro fs h
    cases h with
    | cons h1 h2 =>
      rw [simF_other_right h1]
      simp only [Bool.and_eq_true] at hg
      simp only [contentOK, Bool.and_eq_true]
      refine ⟨⟨hg.1.1, ?_⟩, ih hg.2 _ h2⟩
      rw [sim_startsWithText h2]; exact hg.1.2
  · cases hg

theorem repMarkupGo_sim (rep : Char → Bool) :
    ∀ (gs : List FEv) (c : Bool), repMarkupGo rep c gs = true →
      ∀ fs, List.Forall₂ (simF rep) fs gs → repMarkupGo rep c fs = true := by
  intro gs
  induction gs with
  | nil => intro c _ fs h; cases h; rfl
  | cons g gs ih =>
    intro c hg fs h
    cases h with
    | @cons f _ fs' _ h1 h2 =>
      rw [repMarkupGo_cons, Bool.and_eq_true] at hg ⊢
      cases g with
      | other e =>
        rw [simF_other_right h1]
        exact ⟨hg.1, ih _ hg.2 _ h2⟩
      | start n a =>
        obtain ⟨n', a', rfl, hn, ha⟩ := simF_start_right h1
        refine ⟨?_, ih _ hg.2 _ h2⟩
        simp only [repMarkupGo, Bool.and_true, Bool.and_eq_true]
        exact ⟨(nameTxt_valid hn).2, (flatAttrsOK_of_txt ha).2⟩
      | empty n a =>
        obtain ⟨n', a', rfl, hn, ha⟩ := simF_empty_right h1
        refine ⟨?_, ih _ hg.2 _ h2⟩
        simp only [repMarkupGo, Bool.and_true, Bool.and_eq_true]
        exact ⟨(nameTxt_valid hn).2, (flatAttrsOK_of_txt ha).2⟩
      | end_ n =>
        obtain ⟨n', rfl, hn⟩ := simF_end_right h1
        refine ⟨?_, ih _ hg.2 _ h2⟩
        simp only [repMarkupGo, Bool.and_true]
        exact (nameTxt_valid hn).2

theorem txtInv_init (rep : Char → Bool) (hr : AsciiRep rep) : TxtInv rep FSt.init := by
  refine ⟨?_, by intro d hd; simp [FSt.init] at hd, by intro e he; simp [FSt.init] at he⟩
  intro b hb
  simp only [FSt.init, List.mem_singleton] at hb
  subst hb
  refine ⟨prefixTxt_of_nameTxt ?_, by decide⟩
  unfold nameTxt
  simp only [Bool.and_eq_true, List.all_eq_true]
  refine ⟨by decide, ?_⟩
  intro c hc
  apply hr
  revert hc; simp [xmlPrefix]; rintro (rfl | rfl | rfl) <;> decide

/-- **the text-level hypotheses follow from their input-side form** -/
theorem textOK_of_input (rep : Char → Bool) (hr : AsciiRep rep) (pref : List (Str × Str)) (xs : List XEv)
    (h : inputTextOK rep pref xs = true) :
    docTextOK (flatten pref xs) = true ∧ repMarkup rep (flatten pref xs) = true := by
  unfold inputTextOK at h
  simp only [Bool.and_eq_true] at h
  obtain ⟨⟨⟨hp, hev⟩, hd⟩, hm⟩ := h
  have hsim := flatRun_sim rep hr pref hp xs FSt.init (txtInv_init rep hr) hev
  refine ⟨?_, repMarkupGo_sim rep _ _ hm _ hsim⟩
  unfold docTextOK at hd ⊢
  unfold flatten
  generalize flatRun pref FSt.init xs = fs at hsim
  generalize skeleton xs = gs at hsim hd
  cases hsim with
  | nil => exact hd
  | @cons f g fs' gs' h1 h2 =>
    cases g with
    | other e =>
      rw [simF_other_right h1]
      cases e with
      | xmlDecl v en sa =>
        simp only [Bool.and_eq_true] at hd ⊢
        refine ⟨⟨hd.1.1, ?_⟩, contentOK_sim rep true _ hd.2 _ h2⟩
        rw [sim_startsWithText h2]; exact hd.1.2
      | _ => exact contentOK_sim rep true _ hd _ (.cons (by simp [simF]) h2)
    | start n a =>
      have := contentOK_sim rep true _ hd _ (.cons h1 h2)
      obtain ⟨n', a', rfl, _⟩ := simF_start_right h1
      exact this
    | empty n a =>
      have := contentOK_sim rep true _ hd _ (.cons h1 h2)
      obtain ⟨n', a', rfl, _⟩ := simF_empty_right h1
      exact this
    | end_ n =>
      have := contentOK_sim rep true _ hd _ (.cons h1 h2)
      obtain ⟨n', rfl, _⟩ := simF_end_right h1
      exact this

end Genshi.Xml

/-
  C04: lemmas about the text-template scanner with parameterised delimiters
  (`Model/TmplScanD.lean`):
  (A) at the default delimiters it is the scanner of `Model/TmplScan.lean`
      (`scanD_default`, `unescapeD_default`);
  (B) losslessness for all delimiters under the side condition that the comment delimiters are not
      both empty (`scanD_lossless`); without it the statement is false
      (`scanD_lossless_needs_hyp`).
-/
import Genshi.Model.TmplScanD
import Genshi.Lemmas.TmplScan
namespace Genshi.Tmpl.ScanD
open Genshi.Tmpl.Scan
open Genshi.San (isReSpace isReWord)

/-! ### `dropPrefix?`, `findSub` -/

theorem dropPrefix?_iff : ∀ {p s r : Str}, dropPrefix? p s = some r ↔ s = p ++ r
  | [], s, r => by simp [dropPrefix?]
  | _ :: _, [], r => by simp [dropPrefix?]
  | a :: p, b :: s, r => by
    simp only [dropPrefix?]
    by_cases h : a = b
    · subst h
      simp [dropPrefix?_iff (p := p) (s := s) (r := r)]
    · simp only [h, if_false, List.cons_append, List.cons.injEq]
      constructor
      · intro h'; cases h'
      · intro h'; exact absurd h'.1.symm h

theorem dropPrefix?_spec {p s r : Str} (h : dropPrefix? p s = some r) : s = p ++ r :=
  dropPrefix?_iff.1 h

theorem dropPrefix?_append (p r : Str) : dropPrefix? p (p ++ r) = some r :=
  dropPrefix?_iff.2 rfl

theorem findSub_spec {p : Str} : ∀ {s x y : Str}, findSub p s = some (x, y) → s = x ++ p ++ y
  | [], x, y, h => by
    simp only [findSub] at h
    split at h
    · rename_i hp
      simp only [Option.some.injEq, Prod.mk.injEq] at h
      obtain ⟨rfl, rfl⟩ := h
      simpa using hp
    · simp at h
  | c :: r, x, y, h => by
    simp only [findSub] at h
    split at h
    · rename_i rest hd
      simp only [Option.some.injEq, Prod.mk.injEq] at h
      obtain ⟨rfl, rfl⟩ := h
      simpa using dropPrefix?_spec hd
    · split at h
      · rename_i x' y' hf
        simp only [Option.some.injEq, Prod.mk.injEq] at h
        obtain ⟨rfl, rfl⟩ := h
        rw [findSub_spec hf]; simp
      · simp at h

/-! ### (A) the default delimiters -/

theorem findSub_two (a b : Char) : ∀ s : Str, findSub [a, b] s = find2 a b s
  | [] => by simp [findSub, find2]
  | c :: r => by
    simp only [findSub, find2, findSub_two a b r]
    by_cases hc : a = c
    · subst hc
      cases r with
      | nil => simp [dropPrefix?, find2]
      | cons e r' =>
        by_cases he : b = e
        · subst he; simp [dropPrefix?]
        · have he' : ¬ e = b := fun h => he h.symm
          simp [dropPrefix?, he, he']
          rcases find2 a b (e :: r') with _ | ⟨x, y⟩ <;> rfl
    · have hc' : ¬ c = a := fun h => hc h.symm
      simp [dropPrefix?, hc, hc']
      rcases find2 a b r with _ | ⟨x, y⟩ <;> rfl

theorem matchDirD_default : matchDirD dflt = matchDir := by
  funext s
  unfold matchDirD matchDir
  simp only [dflt, findSub_two]
  generalize find2 '%' '}' (List.dropWhile isReSpace (List.dropWhile isReWord (List.dropWhile isReSpace s))) = o
  rcases o with _ | ⟨x, y⟩ <;> rfl

theorem matchCommentD_default : matchCommentD dflt = matchComment := by
  funext s
  unfold matchCommentD matchComment
  simp only [dflt, findSub_two]
  rcases find2 '#' '}' s with _ | ⟨x, y⟩ <;> rfl

theorem scanDGo_default (s : Str) : ∀ (k : Nat) (p : Char) (acc : Str),
    scanDGo dflt k p acc s = scanNewGo k p acc s := by
  induction s with
  | nil => intro k p acc; simp [scanDGo, scanNewGo]
  | cons c r ih =>
    intro k p acc
    cases k with
    | succ k => simp [scanDGo, scanNewGo, ih]
    | zero =>
      unfold scanDGo scanNewGo
      simp only [matchDirD_default, matchCommentD_default, ih]
      by_cases hp : p = '\\'
      · simp [hp]
      · by_cases hc : c = '{'
        · subst hc
          cases r with
          | nil => simp [hp, dflt, dropPrefix?]
          | cons a r' =>
            by_cases h1 : a = '%'
            · subst h1
              cases hm : matchDir r' with
              | none => simp [hp, dflt, dropPrefix?, hm]
              | some m =>
                have e : 2 + m.inner.length + 2 - 1 = m.inner.length + 3 := by omega
                simp [hp, dflt, dropPrefix?, hm, e]
            · by_cases h2 : a = '#'
              · subst h2
                cases hm : matchComment r' with
                | none => simp [hp, dflt, dropPrefix?, hm]
                | some m =>
                  obtain ⟨body, rest⟩ := m
                  have e : 2 + body.length + 2 - 1 = body.length + 3 := by omega
                  simp [hp, dflt, dropPrefix?, hm, e]
              · have h1' : ¬ '%' = a := fun h => h1 h.symm
                have h2' : ¬ '#' = a := fun h => h2 h.symm
                simp [hp, dflt, dropPrefix?, h1', h2']
                split
                · rename_i hh; cases hh; exact absurd rfl h1
                · rename_i hh; cases hh; exact absurd rfl h2
                · rfl
        · have hc' : ¬ '{' = c := fun h => hc h.symm
          simp [hp, hc, hc', dflt, dropPrefix?]

/-- (A) at the default delimiters the parameterised scanner is `scanNew` -/
theorem scanD_default (s : Str) : scanD dflt s = scanNew s := by
  simp [scanD, scanNew, scanDGo_default]

/-! #### unescape -/

theorem unescapeNew_nl (r : Str) : unescapeNew ('\\' :: '\n' :: r) = unescapeNew r := by
  simp [unescapeNew]
theorem unescapeNew_crnl (r : Str) : unescapeNew ('\\' :: '\r' :: '\n' :: r) = unescapeNew r := by
  simp [unescapeNew]
theorem unescapeNew_bs (r : Str) : unescapeNew ('\\' :: '\\' :: r) = '\\' :: unescapeNew r := by
  simp [unescapeNew]
theorem unescapeNew_sd (r : Str) :
    unescapeNew ('\\' :: '{' :: '%' :: r) = '{' :: '%' :: unescapeNew r := by
  simp [unescapeNew]
theorem unescapeNew_sc (r : Str) :
    unescapeNew ('\\' :: '{' :: '#' :: r) = '{' :: '#' :: unescapeNew r := by
  simp [unescapeNew]

theorem unescapeNew_other (c : Char) (r : Str)
    (h1 : ∀ r', c :: r ≠ '\\' :: '\n' :: r')
    (h2 : ∀ r', c :: r ≠ '\\' :: '\r' :: '\n' :: r')
    (h3 : ∀ r', c :: r ≠ '\\' :: '\\' :: r')
    (h4 : ∀ r', c :: r ≠ '\\' :: '{' :: '%' :: r')
    (h5 : ∀ r', c :: r ≠ '\\' :: '{' :: '#' :: r') :
    unescapeNew (c :: r) = c :: unescapeNew r := by
  rw [unescapeNew]
  · intro r' hc hr; subst hc hr; exact h1 _ rfl
  · intro r' hc hr; subst hc hr; exact h2 _ rfl
  · intro r' hc hr; subst hc hr; exact h3 _ rfl
  · intro r' hc hr; subst hc hr; exact h4 _ rfl
  · intro r' hc hr; subst hc hr; exact h5 _ rfl

theorem unescDGo_default (s : Str) : ∀ k : Nat, unescDGo dflt k s = unescapeNew (s.drop k) := by
  induction s with
  | nil => intro k; simp [unescDGo, unescapeNew]
  | cons c r ih =>
    intro k
    cases k with
    | succ k => simp [unescDGo, ih]
    | zero =>
      unfold unescDGo
      simp only [ih, List.drop_zero]
      by_cases hc : c = '\\'
      · subst hc
        simp only [if_true]
        split
        · rename_i r'; simp [unescapeNew_nl]
        · rename_i r'; simp [unescapeNew_crnl]
        · rename_i r'; simp [unescapeNew_bs]
        · rename_i n1 n2 n3
          by_cases hd : (dropPrefix? dflt.sd r).isSome
          · obtain ⟨r', hr'⟩ := Option.isSome_iff_exists.1 hd
            have := dropPrefix?_spec hr'
            subst this
            simp [dflt, dropPrefix?, unescapeNew_sd]
          · by_cases hd2 : (dropPrefix? dflt.sc r).isSome
            · obtain ⟨r', hr'⟩ := Option.isSome_iff_exists.1 hd2
              have := dropPrefix?_spec hr'
              subst this
              simp [dflt, dropPrefix?, unescapeNew_sc]
            · simp only [hd, hd2, Bool.false_and]
              refine (unescapeNew_other _ _ ?_ ?_ ?_ ?_ ?_).symm
              · intro r' h; cases h; exact n1 _ rfl
              · intro r' h; cases h; exact n2 _ rfl
              · intro r' h; cases h; exact n3 _ rfl
              · intro r' h; cases h; exact hd (by simp [dflt, dropPrefix?])
              · intro r' h; cases h; exact hd2 (by simp [dflt, dropPrefix?])
      · simp only [hc, if_false]
        refine (unescapeNew_other _ _ ?_ ?_ ?_ ?_ ?_).symm <;>
          (intro r' h; cases h; exact hc rfl)

/-- (A) at the default delimiters the parameterised unescape is `unescapeNew` -/
theorem unescapeD_default (s : Str) : unescapeD dflt s = unescapeNew s := by
  simp [unescapeD, unescDGo_default]

/-! ### (B) losslessness -/

theorem matchDirD_spec {d : Delims} {s : Str} {m : DirM} (h : matchDirD d s = some m) :
    s = m.inner ++ d.ed ++ m.rest ∧ m.inner ≠ [] := by
  unfold matchDirD at h
  simp only at h
  split at h
  · simp at h
  · rename_i hcmd
    split at h
    · simp at h
    · rename_i body rest hf
      split at h
      · simp only [Option.some.injEq] at h
        subst h
        have h3 := findSub_spec hf
        simp only
        have e1 : s = s.takeWhile isReSpace ++ s.dropWhile isReSpace := (List.takeWhile_append_dropWhile).symm
        have e2 : s.dropWhile isReSpace = (s.dropWhile isReSpace).takeWhile isReWord ++ (s.dropWhile isReSpace).dropWhile isReWord :=
          (List.takeWhile_append_dropWhile).symm
        have e3 : (s.dropWhile isReSpace).dropWhile isReWord =
            ((s.dropWhile isReSpace).dropWhile isReWord).takeWhile isReSpace ++ ((s.dropWhile isReSpace).dropWhile isReWord).dropWhile isReSpace :=
          (List.takeWhile_append_dropWhile).symm
        constructor
        · conv => lhs; rw [e1, e2, e3, h3]
          simp [List.append_assoc]
        · intro hnil
          simp only [List.append_eq_nil_iff] at hnil
          exact hcmd (by simp [hnil.1.1.2])
      · simp at h

theorem matchCommentD_spec {d : Delims} {s body rest : Str}
    (h : matchCommentD d s = some (body, rest)) : s = body ++ d.ec ++ rest := by
  unfold matchCommentD at h
  split at h
  · simp at h
  · rename_i b r hf
    split at h
    · simp only [Option.some.injEq, Prod.mk.injEq] at h
      obtain ⟨rfl, rfl⟩ := h
      exact findSub_spec hf
    · simp at h

theorem flushText_srcD (d : Delims) (acc : Str) :
    (flushText acc).flatMap (srcD d) = acc.reverse := by
  unfold flushText
  cases acc <;> simp [srcD]

/-- the characters a match covers are the first one plus `n - 1` skipped ones -/
theorem drop_pred_of_cons {c : Char} {r x y : Str} (n : Nat) (h : c :: r = x ++ y)
    (hn : x.length = n) (hx : x ≠ []) : x ++ r.drop (n - 1) = c :: r := by
  cases x with
  | nil => exact absurd rfl hx
  | cons a x' =>
    simp only [List.cons_append, List.cons.injEq] at h
    obtain ⟨rfl, rfl⟩ := h
    subst hn
    simp

/-- the source texts of the tokens concatenate to what was scanned -/
theorem scanDGo_src (d : Delims) (hd : d.sc ≠ [] ∨ d.ec ≠ []) (s : Str) :
    ∀ (k : Nat) (p : Char) (acc : Str),
      (scanDGo d k p acc s).flatMap (srcD d) = acc.reverse ++ s.drop k := by
  induction s with
  | nil => intro k p acc; simp [scanDGo, flushText_srcD]
  | cons c r ih =>
    intro k p acc
    cases k with
    | succ k => simp [scanDGo, ih k c acc]
    | zero =>
      have push : (scanDGo d 0 c (c :: acc) r).flatMap (srcD d) = acc.reverse ++ (c :: r).drop 0 := by
        simp [ih 0 c (c :: acc)]
      unfold scanDGo
      split
      · split
        · rename_i m hm
          obtain ⟨r', hr', hm'⟩ := Option.bind_eq_some_iff.1 hm
          have h1 := dropPrefix?_spec hr'
          obtain ⟨h2, h3⟩ := matchDirD_spec hm'
          simp only [List.flatMap_append, List.flatMap_cons, flushText_srcD, srcD, ih,
            List.reverse_nil, List.nil_append, List.drop_zero, List.append_assoc]
          congr 1
          have hx : d.sd ++ (m.inner ++ d.ed) ≠ [] := by
            intro hh; simp only [List.append_eq_nil_iff] at hh; exact h3 hh.2.1
          have := drop_pred_of_cons (x := d.sd ++ (m.inner ++ d.ed)) (y := m.rest)
            (d.sd.length + m.inner.length + d.ed.length)
            (by rw [h1, h2]; simp [List.append_assoc]) (by simp [Nat.add_assoc]) hx
          simpa [List.append_assoc] using this
        · split
          · rename_i body rest hm
            obtain ⟨r', hr', hm'⟩ := Option.bind_eq_some_iff.1 hm
            have h1 := dropPrefix?_spec hr'
            have h2 := matchCommentD_spec hm'
            simp only [List.flatMap_append, List.flatMap_cons, flushText_srcD, srcD, ih,
              List.reverse_nil, List.nil_append, List.drop_zero, List.append_assoc]
            congr 1
            have hx : d.sc ++ (body ++ d.ec) ≠ [] := by
              intro hh; simp only [List.append_eq_nil_iff] at hh
              rcases hd with hd | hd
              · exact hd hh.1
              · exact hd hh.2.2
            have := drop_pred_of_cons (x := d.sc ++ (body ++ d.ec)) (y := rest)
              (d.sc.length + body.length + d.ec.length)
              (by rw [h1, h2]; simp [List.append_assoc]) (by simp [Nat.add_assoc]) hx
            simpa [List.append_assoc] using this
          · exact push
      · exact push

/-- (B) losslessness for all delimiters whose comment delimiters are not both empty -/
theorem scanD_lossless (d : Delims) (hd : d.sc ≠ [] ∨ d.ec ≠ []) (s : Str) :
    (scanD d s).flatMap (srcD d) = s := by
  simp [scanD, scanDGo_src d hd]

theorem ok_comment_ne_nil {d : Delims} (h : d.ok = true) : d.sc ≠ [] ∨ d.ec ≠ [] := by
  left
  intro hh
  simp [Delims.ok, hh] at h

/-- (B) under the side condition of the model -/
theorem scanD_lossless_of_ok (d : Delims) (h : d.ok = true) (s : Str) :
    (scanD d s).flatMap (srcD d) = s :=
  scanD_lossless d (ok_comment_ne_nil h) s

/-- the side condition of `scanD_lossless` cannot be dropped: with both comment delimiters empty
    the empty comment matches at every position with skip count `0 - 1 = 0`, and the character it
    is reported at is lost -/
theorem scanD_lossless_needs_hyp :
    (scanD ⟨['{', '%'], ['%', '}'], [], []⟩ ['a']).flatMap (srcD ⟨['{', '%'], ['%', '}'], [], []⟩)
      ≠ ['a'] := by
  decide

end Genshi.Tmpl.ScanD

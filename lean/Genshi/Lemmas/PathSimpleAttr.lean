/-
  SimplePathStrategy on a child chain followed by an attribute step (`a/b/@x`): it runs
  like the chain without the attribute step; where that reports `True`, the result is the
  value of the attribute test.
-/
import Genshi.Lemmas.PathAttr
namespace Genshi.Path
open Genshi Genshi.Path.Ref

section
variable (ns : NsMap)

theorem pStep_chain_attr (tests : List NodeTest) (pi : List Nat) (a : NodeTest) (e : Event) (p : Nat) (t : NodeTest)
    (rest : PState) (ht : tests[p]? = some t) (he : e.isEnd = false) (hm : e.isNsOrCdata = false) :
    pStep (some [⟨tests, pi, some a, false⟩]) false ns (⟨some (0, p), false⟩ :: rest) e =
      (if !t.matches e ns then
         ((if e.isStart then ⟨none, false⟩ :: ⟨some (0, p), false⟩ :: rest else ⟨some (0, p), false⟩ :: rest), .none)
       else if p + 1 == tests.length then
         ((if e.isStart then ⟨none, false⟩ :: ⟨some (0, p), false⟩ :: rest else ⟨some (0, p), false⟩ :: rest),
          attrResult a e ns)
       else
         ((if e.isStart then ⟨some (0, p + 1), false⟩ :: ⟨some (0, p), false⟩ :: rest
           else ⟨some (0, p), false⟩ :: rest), .none)) := by
  have hlt : p < tests.length := by
    rcases Nat.lt_or_ge p tests.length with h | h
    · exact h
    · rw [List.getElem?_eq_none_iff.mpr h] at ht; cases ht
  have hne : (p == tests.length) = false := by simp; omega
  simp only [pStep, he, hm, Bool.false_eq_true, if_false, List.length_cons, List.length_nil,
    List.getElem?_cons_zero, fragTest, ht, hne]
  by_cases h1 : t.matches e ns = true <;> by_cases h2 : (p + 1 == tests.length) = true <;>
    by_cases h3 : e.isStart = true <;> simp_all

theorem pStep_root_attr (tests : List NodeTest) (hne : tests ≠ []) (pi : List Nat) (a : NodeTest) (e : Event)
    (he : e.isEnd = false) (hm : e.isNsOrCdata = false) :
    pStep (some [⟨tests, pi, some a, false⟩]) false ns [] e = ([⟨some (0, 0), false⟩], .none) := by
  have h1 : tests.isEmpty = false := by cases tests <;> simp_all
  simp [pStep, he, hm, skipEmpty, h1]

/-- the result of SimplePathStrategy with a final attribute test, from the result without -/
def gateS (t : NodeTest) (e : Event) (v : Val) : Val :=
  match v with
  | .bool true => attrResult t e ns
  | _ => .none

/-- the stack entries that occur on a context-bound chain -/
def ChainShape (n : Nat) (st : PState) : Prop :=
  ∀ en ∈ st, en = ⟨none, false⟩ ∨ ∃ p, p < n ∧ en = ⟨some (0, p), false⟩

theorem pStep_attr (tests : List NodeTest) (hne : tests ≠ []) (pi : List Nat) (a : NodeTest) (st : PState)
    (hst : ChainShape tests.length st) (e : Event) :
    pStep (some [⟨tests, pi, some a, false⟩]) false ns st e =
      ((pStep (some [⟨tests, pi, none, false⟩]) false ns st e).1,
       gateS ns a e (pStep (some [⟨tests, pi, none, false⟩]) false ns st e).2) ∧
    ChainShape tests.length (pStep (some [⟨tests, pi, none, false⟩]) false ns st e).1 := by
  by_cases he : e.isEnd = true
  · simp only [pStep, he, if_true, gateS]
    exact ⟨trivial, fun en hen => hst en (List.mem_of_mem_drop hen)⟩
  · by_cases hm : e.isNsOrCdata = true
    · simp only [pStep, he, hm, if_true, Bool.false_eq_true, if_false, gateS]
      exact ⟨trivial, hst⟩
    · have he' : e.isEnd = false := by simpa using he
      have hm' : e.isNsOrCdata = false := by simpa using hm
      have hpos : 0 < tests.length := by cases tests <;> simp_all
      cases st with
      | nil =>
        rw [pStep_root_attr ns tests hne pi a e he' hm', pStep_root ns tests hne pi e he' hm']
        refine ⟨by simp [gateS], ?_⟩
        intro en hen
        simp at hen; subst hen
        exact Or.inr ⟨0, hpos, rfl⟩
      | cons top rest =>
        have hrest : ChainShape tests.length rest := fun en hen => hst en (List.mem_cons_of_mem _ hen)
        rcases hst top List.mem_cons_self with h | ⟨p, hp, h⟩
        · subst h
          rw [pStep_dead ns _ e rest he' hm', pStep_dead ns _ e rest he' hm']
          refine ⟨by simp [gateS], ?_⟩
          split
          · intro en hen
            rcases List.mem_cons.mp hen with h1 | h1
            · exact Or.inl h1
            · exact hst en h1
          · exact hst
        · subst h
          obtain ⟨t, ht⟩ : ∃ t, tests[p]? = some t := ⟨tests[p], List.getElem?_eq_getElem hp⟩
          rw [pStep_chain_attr ns tests pi a e p t rest ht he' hm', pStep_chain ns tests pi e p t rest ht he' hm']
          by_cases h1 : t.matches e ns = true <;> by_cases h2 : (p + 1 == tests.length) = true <;>
            by_cases h3 : e.isStart = true <;>
            simp only [h1, h2, h3, Bool.not_true, Bool.not_false, Bool.false_eq_true, if_true, if_false, gateS,
              true_and] <;>
            (intro en hen
             first
             | exact hst en hen
             | (rcases List.mem_cons.mp hen with h4 | h4
                · first
                  | exact Or.inl h4
                  | (refine Or.inr ⟨p + 1, ?_, h4⟩
                     have : p + 1 ≠ tests.length := by simpa using h2
                     omega)
                · exact hst en h4))

theorem fragLoop_chain_attr (tests acc : List NodeTest) (a : Step) (ha : a.axis = .attribute) :
    fragLoop (childChain tests ++ [a]) [] acc false
      = some [⟨acc ++ tests, calculatePi (acc ++ tests), some a.test, false⟩] := by
  induction tests generalizing acc with
  | nil => simp [childChain, fragLoop, ha]
  | cons t ts ih =>
    simp only [childChain, List.map_cons, List.cons_append, fragLoop]
    have := ih (acc ++ [t])
    simp only [childChain] at this
    rw [this]
    simp

theorem fragments_chain_attr (tests : List NodeTest) (a : Step) (ha : a.axis = .attribute) :
    fragments (childChain tests ++ [a]) = some [⟨tests, calculatePi tests, some a.test, false⟩] := by
  have := fragLoop_chain_attr tests [] a ha
  simpa [fragments] using this

/-- SimplePathStrategy on `t1/…/tn/@a` reports the value of the attribute test where it
    reports `True` on `t1/…/tn` -/
theorem simple_attr_run (tests : List NodeTest) (hne : tests ≠ []) (pi : List Nat) (a : NodeTest) (es : List Event) :
    (runOne (pStep (some [⟨tests, pi, some a, false⟩]) false ns) [] es).1
      = List.zipWith (gateS ns a) es (runOne (pStep (some [⟨tests, pi, none, false⟩]) false ns) [] es).1 :=
  runOne_rel _ _ (fun s t => s = t ∧ ChainShape tests.length t) (gateS ns a)
    (fun s t e hr => by
      obtain ⟨rfl, hsh⟩ := hr
      obtain ⟨h1, h2⟩ := pStep_attr ns tests hne pi a s hsh e
      rw [h1]
      exact ⟨⟨rfl, h2⟩, rfl⟩)
    es [] [] ⟨rfl, fun en hen => by simp at hen⟩

theorem gateS_eq_gate' (a : NodeTest) (e : Event) (v : Val) : gateS ns a e v = gate (a.apply e ns) v := by
  unfold gateS gate attrResult
  cases v with
  | bool b => cases b <;> rfl
  | _ => rfl

theorem gateS_eq_gate (a : NodeTest) (_hflag : a.attrFlag = true) (e : Event) (v : Val)
    (_hv : v = Val.none ∨ v = Val.bool true) : gateS ns a e v = gate (a.apply e ns) v :=
  gateS_eq_gate' ns a e v

theorem gateS_fun (a : NodeTest) : gateS ns a = fun e v => gate (a.apply e ns) v := by
  funext e v; exact gateS_eq_gate' ns a e v

/-- on results that are `None` / `True` the two gates agree for attribute tests -/
theorem zipWith_gateS (a : NodeTest) (_hflag : a.attrFlag = true) (es : List Event) (locs : List (Option LNode))
    (mk : List Nat → Bool) :
    List.zipWith (gateS ns a) es (markVals mk locs)
      = List.zipWith (fun e v => gate (a.apply e ns) v) es (markVals mk locs) := by
  rw [gateS_fun]

end
end Genshi.Path

/-
  Helper lemmas for C08: the HTML reader run on what the html serializer writes,
  event by event (simulation: abstract reader state `RS` ↔ serializer context).
-/
import Genshi.Lemmas.Reader
import Genshi.Lemmas.Output
import Genshi.Model.Output
namespace Genshi.Reader
open Genshi Genshi.Escape Genshi.Output

/-! ### raw text and comments -/

/-- raw text that `</` does not end early: no `<` directly followed by `/`, and no `<` at the end -/
def rawOk : Str → Bool
  | [] => true
  | c :: cs =>
      if c == '<' then
        (match cs with
         | [] => false
         | d :: _ => d != '/' && rawOk cs)
      else rawOk cs

theorem feed_raw_aux (s : Str) :
    (∀ st : RSt, st.mode = .raw → rawOk s = true → feed false st s = { st with buf := st.buf ++ s }) ∧
    (∀ st : RSt, st.mode = .rawLt → rawOk ('<' :: s) = true →
        feed false st s = { st with mode := .raw, buf := st.buf ++ '<' :: s }) := by
  induction s with
  | nil =>
    refine ⟨fun st _ _ => by simp [feed], fun st _ h => ?_⟩
    simp [rawOk] at h
  | cons c cs ih =>
    refine ⟨fun st hm h => ?_, fun st hm h => ?_⟩
    · by_cases hc : c = '<'
      · subst hc
        have s1 : step false st '<' = { st with mode := .rawLt } := by simp [step, hm]
        rw [feed_cons, s1, ih.2 _ rfl h]
        simp [hm]
      · have hc' : (c == '<') = false := by simpa using hc
        have s1 : step false st c = { st with buf := st.buf ++ [c] } := by simp [step, hm, hc']
        have h' : rawOk cs = true := by simpa [rawOk, hc'] using h
        rw [feed_cons, s1, ih.1 _ (by simp [hm]) h']
        simp
    · have h2 : (c != '/') = true ∧ rawOk (c :: cs) = true := by
        simpa [rawOk] using h
      have hs : (c == '/') = false := by simpa using h2.1
      by_cases hc : c = '<'
      · subst hc
        have s1 : step false st '<' = { st with buf := st.buf ++ ['<'] } := by simp [step, hm]
        rw [feed_cons, s1, ih.2 _ (by simp [hm]) h2.2]
        simp
      · have hc' : (c == '<') = false := by simpa using hc
        have s1 : step false st c = { st with mode := .raw, buf := st.buf ++ ['<', c] } := by
          simp [step, hm, hc', hs]
        have h' : rawOk cs = true := by simpa [rawOk, hc'] using h2.2
        rw [feed_cons, s1, ih.1 _ rfl h']
        simp

theorem feed_raw (s : Str) (st : RSt) (hm : st.mode = .raw) (h : rawOk s = true) :
    feed false st s = { st with buf := st.buf ++ s } := (feed_raw_aux s).1 st hm h

/-- comment text the reader (and html.parser, expat) reads back: no `--` inside, no `-` at the end -/
def commentOk : Str → Bool
  | [] => true
  | c :: cs =>
      if c == '-' then
        (match cs with
         | [] => false
         | d :: _ => d != '-' && commentOk cs)
      else commentOk cs

theorem feed_comment_aux (xml : Bool) (s : Str) :
    (∀ st : RSt, st.mode = .comment 0 → commentOk s = true →
        feed xml st s = { st with buf := st.buf ++ s }) ∧
    (∀ st : RSt, st.mode = .comment 1 → commentOk ('-' :: s) = true →
        feed xml st s = { st with mode := .comment 0, buf := st.buf ++ s }) := by
  induction s with
  | nil =>
    refine ⟨fun st _ _ => by simp [feed], fun st _ h => ?_⟩
    simp [commentOk] at h
  | cons c cs ih =>
    refine ⟨fun st hm h => ?_, fun st hm h => ?_⟩
    · by_cases hc : c = '-'
      · subst hc
        have s1 : step xml st '-' = { st with mode := .comment 1, buf := st.buf ++ ['-'] } := by
          simp [step, hm]
        rw [feed_cons, s1, ih.2 _ rfl h]
        simp [hm]
      · have hc' : (c == '-') = false := by simpa using hc
        have hg : ((c == '>') && ((0 : Nat) == 2)) = false := by simp
        have s1 : step xml st c = { st with buf := st.buf ++ [c] } := by
          simp [step, hm, hc']
        have h' : commentOk cs = true := by simpa [commentOk, hc'] using h
        rw [feed_cons, s1, ih.1 _ (by simp [hm]) h']
        simp
    · have h2 : (c != '-') = true ∧ commentOk (c :: cs) = true := by
        simpa [commentOk] using h
      have hc' : (c == '-') = false := by simpa using h2.1
      have s1 : step xml st c = { st with mode := .comment 0, buf := st.buf ++ [c] } := by
        simp [step, hm, hc']
      have h' : commentOk cs = true := by simpa [commentOk, hc'] using h2.2
      rw [feed_cons, s1, ih.1 _ rfl h']
      simp

/-- `<!--s-->` read from character data -/
theorem feed_comment (xml : Bool) (buf : Str) (toks : List Tok) (s : Str) (h : commentOk s = true) :
    feed xml (mk .data buf toks) (['<', '!', '-', '-'] ++ s ++ ['-', '-', '>']) =
      mk .data [] (.comment s :: flushToks buf toks) := by
  have s0 : feed xml (mk .data buf toks) ['<', '!', '-', '-'] =
      ⟨.comment 0, [], [], [], [], [], [], flushToks buf toks⟩ := by
    simp [feed, step, mk, kwComment, kwDoctype, kwCdata, List.isPrefixOf, flush_eq]
  rw [show ['<', '!', '-', '-'] ++ s ++ ['-', '-', '>'] = ['<', '!', '-', '-'] ++ (s ++ ['-', '-', '>']) by simp,
    feed_append, s0, feed_append, (feed_comment_aux xml s).1 _ rfl h]
  simp [feed, step, mk]

/-! ### the attributes of an html start tag -/

/-- what the html serializer's attribute loop means (specification): boolean attribute with a
    non-empty value ↦ present without value, with an empty one ↦ absent; `xml:lang` ↦ `lang` when
    there is no `lang`; other prefixed names and `xmlns` ↦ absent; everything else verbatim -/
def htmlAttrTok (all : FAttrs) (p : Str × Str) : List (Str × Option Str) :=
  if inTable (booleanAttrs .html) p.1 then (if p.2.isEmpty then [] else [(p.1, none)])
  else if p.1.any (· == ':') then
    (if p.1 == xmlLang && !hasAttr all lang then [(lang, some p.2)] else [])
  else if p.1 != xmlns then [(p.1, some p.2)]
  else []

def htmlAttrToks (a : FAttrs) : List (Str × Option Str) := a.flatMap (htmlAttrTok a)

theorem nameOk_lang : NameOk lang := by decide

theorem tagSt_htmlAttr {st : RSt} {nm : Str} {at_ : List (Str × Option Str)} {tk : List Tok}
    (h : TagSt st nm at_ tk) (all : FAttrs) (p : Str × Str) (hn : NameOk p.1) :
    TagSt (feed false st (htmlAttr all p)) nm ((htmlAttrTok all p).reverse ++ at_) tk := by
  unfold htmlAttr htmlAttrTok
  by_cases hb : inTable (booleanAttrs .html) p.1 = true
  · by_cases he : p.2.isEmpty = true
    · simpa [hb, he, feed_nil] using h
    · simp only [hb, he, ↓reduceIte, Bool.false_eq_true]
      exact tagSt_min false h p.1 hn
  · simp only [hb, Bool.false_eq_true, ↓reduceIte]
    by_cases hc : (p.1.any (· == ':')) = true
    · simp only [hc, ↓reduceIte]
      by_cases hl : (p.1 == xmlLang && !hasAttr all lang) = true
      · simp only [hl, ↓reduceIte, attrOut, escapePy_eq_spec]
        exact tagSt_quoted false h lang p.2 nameOk_lang (by intro hx; cases hx)
      · simpa [hl, feed_nil] using h
    · simp only [hc, Bool.false_eq_true, ↓reduceIte]
      by_cases hx : (p.1 != xmlns) = true
      · simp only [hx, ↓reduceIte, attrOut, escapePy_eq_spec]
        exact tagSt_quoted false h p.1 p.2 hn (by intro hx; cases hx)
      · simpa [hx, feed_nil] using h

theorem tagSt_htmlAttrs (all : FAttrs) (l : FAttrs) :
    ∀ {st : RSt} {nm : Str} {at_ : List (Str × Option Str)} {tk : List Tok},
      TagSt st nm at_ tk → (∀ p ∈ l, NameOk p.1) →
      TagSt (feed false st (l.flatMap (htmlAttr all))) nm ((l.flatMap (htmlAttrTok all)).reverse ++ at_) tk := by
  induction l with
  | nil => intro st nm at_ tk h _; simpa [feed_nil] using h
  | cons p ps ih =>
    intro st nm at_ tk h hn
    simp only [List.flatMap_cons, feed_append, List.reverse_append, List.append_assoc]
    exact ih (tagSt_htmlAttr h all p (hn p (by simp))) (fun q hq => hn q (by simp [hq]))

/-- `<t attrs>` written by the html serializer, read from character data -/
theorem feed_htmlStart (buf : Str) (toks : List Tok) (t : Str) (a : FAttrs)
    (ht : NameOk t) (ha : ∀ p ∈ a, NameOk p.1) :
    feed false (mk .data buf toks) ('<' :: t ++ htmlAttrs a ++ ['>']) =
      mk (if rawTextElems.contains t then .raw else .data) []
        (.start t (htmlAttrToks a) false :: flushToks buf toks) := by
  have h0 := tagSt_open false buf toks t ht
  have h1 := tagSt_htmlAttrs a a h0 ha
  rw [show '<' :: t ++ htmlAttrs a ++ ['>'] = ('<' :: t) ++ (htmlAttrs a ++ ['>']) by simp,
    feed_append, feed_append, htmlAttrs]
  rw [feed_cons, tagSt_gt false h1]
  simp [feed, htmlAttrToks]

/-! ### simulation: one serialized event -/

/-- what the reader knows between two events: raw-text mode or not, pending character data, tokens (reversed) -/
structure RS where
  raw : Bool := false
  buf : Str := []
  toks : List Tok := []
  deriving Repr, DecidableEq

def RS.toRSt (r : RS) : RSt := Genshi.Reader.mk (if r.raw then Mode.raw else Mode.data) r.buf r.toks

/-- specification: the effect of one (filtered) event of an html serialisation on what is read back -/
def htmlEv (r : RS) : FEv → RS
  | .start t a => ⟨rawTextElems.contains t, [], .start t (htmlAttrToks a) false :: flushToks r.buf r.toks⟩
  | .empty t a =>
      if inTable (emptyElems .html) t then
        ⟨false, [], .start t (htmlAttrToks a) false :: flushToks r.buf r.toks⟩
      else ⟨false, [], .end_ t :: .start t (htmlAttrToks a) false :: flushToks r.buf r.toks⟩
  | .end_ t => ⟨false, [], .end_ t :: flushToks r.buf r.toks⟩
  | .text s _ => { r with buf := r.buf ++ s }
  | .comment s => ⟨false, [], .comment s :: flushToks r.buf r.toks⟩
  | _ => r

/-- the hypotheses of the html round trip, per event, given whether we are inside script/style -/
def HtmlOk (raw : Bool) : FEv → Prop
  | .start t a => raw = false ∧ NameOk t ∧ ∀ p ∈ a, NameOk p.1
  | .empty t a => raw = false ∧ NameOk t ∧ ∀ p ∈ a, NameOk p.1
  | .end_ t => NameOk t
  | .text s safe => safe = false ∧ (raw = true → rawOk s = true)
  | .comment s => raw = false ∧ commentOk s = true
  | .pi _ _ => False
  | .doctype _ _ _ => False
  | _ => True

theorem noescape_iff_raw {t : Str} (ht : NameOk t) :
    inTable (noescapeElems .html) t = rawTextElems.contains t := by
  have hs : (t.any (· == '/')) = false := by
    have := ht.2
    simp only [List.any_eq_false, List.all_eq_true] at this ⊢
    intro c hc; have := (nameChar_facts (this c hc)).2.2.1; simpa using this
  by_cases h1 : t = ['s', 'c', 'r', 'i', 'p', 't']
  · subst h1; decide
  by_cases h2 : t = ['s', 't', 'y', 'l', 'e']
  · subst h2; decide
  have hr : rawTextElems.contains t = false := by
    simp [rawTextElems, h1, h2]
  rw [hr]
  simp only [inTable, noescapeElems, Gen.Output.htmlNoescapeElems, QName.text, List.any_cons, List.any_nil,
    List.isEmpty_nil, List.isEmpty_cons, ↓reduceIte, Bool.false_eq_true, Bool.or_false, Bool.or_eq_false_iff,
    beq_eq_false_iff_ne, ne_eq]
  refine ⟨fun h => h1 h.symm, fun h => h2 h.symm, fun h => ?_, fun h => ?_⟩ <;>
    (rw [← h] at hs; simp at hs)

theorem void_not_raw {t : Str} (h : inTable (emptyElems .html) t = true) : rawTextElems.contains t = false := by
  by_cases h1 : t = ['s', 'c', 'r', 'i', 'p', 't']
  · subst h1; revert h; decide
  by_cases h2 : t = ['s', 't', 'y', 'l', 'e']
  · subst h2; revert h; decide
  simp [rawTextElems, h1, h2]

theorem flatten_singleton (s : Str) : ([s] : List Str).flatten = s := by simp

theorem startOut_html_start (t : Str) (a : FAttrs) :
    startOut .html false t a = '<' :: t ++ htmlAttrs a ++ ['>'] := by simp [startOut]

theorem startOut_html_empty (t : Str) (a : FAttrs) :
    startOut .html true t a =
      ('<' :: t ++ htmlAttrs a ++ ['>']) ++ (if inTable (emptyElems .html) t then [] else endTag t) := by
  by_cases h : inTable (emptyElems .html) t = true <;> simp [startOut, h]

theorem mode_cases (b : Bool) :
    (if b then Mode.raw else Mode.data) = .data ∨ (if b then Mode.raw else Mode.data) = .raw := by
  cases b <;> simp

theorem toRSt_eq (b : Bool) (buf : Str) (toks : List Tok) :
    RS.toRSt ⟨b, buf, toks⟩ = mk (if b then Mode.raw else Mode.data) buf toks := rfl

/-- One event: reading what the html serializer writes for it (in a context that agrees with the
    reader about raw text) has exactly the specified effect, and the agreement is kept. -/
theorem html_event (o : Opts) (r : RS) (c : Ctx) (ev : FEv) (hraw : c.raw = r.raw) (hok : HtmlOk r.raw ev) :
    feed false r.toRSt (emit .html o c ev).flatten = (htmlEv r ev).toRSt ∧
    (ctxAfter .html o c ev).raw = (htmlEv r ev).raw := by
  obtain ⟨rraw, rbuf, rtoks⟩ := r
  simp only at hraw hok
  cases ev with
  | start t a =>
    obtain ⟨hr, ht, ha⟩ := hok
    subst hr
    refine ⟨?_, ?_⟩
    · simp only [emit, flatten_singleton, startOut_html_start, htmlEv, toRSt_eq, Bool.false_eq_true, ↓reduceIte]
      exact feed_htmlStart rbuf rtoks t a ht ha
    · simp only [ctxAfter, htmlEv, noescape_iff_raw ht]
      cases hc : rawTextElems.contains t <;> simp [hraw]
  | empty t a =>
    obtain ⟨hr, ht, ha⟩ := hok
    subst hr
    refine ⟨?_, ?_⟩
    · simp only [emit, flatten_singleton, startOut_html_empty, htmlEv, toRSt_eq, Bool.false_eq_true, ↓reduceIte]
      have hs := feed_htmlStart rbuf rtoks t a ht ha
      rw [feed_append, hs]
      by_cases hv : inTable (emptyElems .html) t = true
      · simp only [hv, ↓reduceIte, feed_nil, void_not_raw hv, toRSt_eq, Bool.false_eq_true]
      · simp only [hv, Bool.false_eq_true, ↓reduceIte, toRSt_eq, endTag]
        rw [feed_endTag false _ (mode_cases _) [] _ t ht.2]
        simp [flushToks]
    · simp only [ctxAfter, htmlEv, hraw]
      by_cases hv : inTable (emptyElems .html) t = true <;> simp [hv]
  | end_ t =>
    refine ⟨?_, by simp [ctxAfter, htmlEv]⟩
    simp only [emit, flatten_singleton, endTag, htmlEv, toRSt_eq]
    rw [feed_endTag false _ (mode_cases _) rbuf rtoks t hok.2]
    simp
  | text s f =>
    obtain ⟨hf, hrw⟩ := hok
    subst hf
    refine ⟨?_, by simp [ctxAfter, htmlEv, hraw]⟩
    cases rraw with
    | true =>
      simp only [emit, hraw, ↓reduceIte, flatten_singleton, toRSt_eq, htmlEv]
      rw [feed_raw s _ rfl (hrw rfl)]; simp [mk]
    | false =>
      simp only [emit, hraw, Bool.false_eq_true, ↓reduceIte, flatten_singleton, toRSt_eq, htmlEv]
      rw [feed_data_escaped false s _ rfl rfl]; simp [mk]
  | comment s =>
    obtain ⟨hr, hs⟩ := hok
    subst hr
    refine ⟨?_, by simp [ctxAfter, htmlEv, hraw]⟩
    simp only [emit, flatten_singleton, commentOut, htmlEv, toRSt_eq, Bool.false_eq_true, ↓reduceIte]
    exact feed_comment false rbuf rtoks s hs
  | pi t d => exact absurd hok (by simp [HtmlOk])
  | doctype n p q => exact absurd hok (by simp [HtmlOk])
  | xmlDecl v e q => exact ⟨by simp [emit, feed, htmlEv], by simp [ctxAfter, htmlEv, hraw]⟩
  | startNs p u => exact ⟨by simp [emit, feed, htmlEv], by simp [ctxAfter, htmlEv, hraw]⟩
  | endNs p => exact ⟨by simp [emit, feed, htmlEv], by simp [ctxAfter, htmlEv, hraw]⟩
  | startCdata => exact ⟨by simp [emit, feed, htmlEv], by simp [ctxAfter, htmlEv, hraw]⟩
  | endCdata => exact ⟨by simp [emit, feed, htmlEv], by simp [ctxAfter, htmlEv, hraw]⟩

/-! ### simulation: the whole stream -/

/-- is the reader inside a raw-text element after this event -/
def rawAfter (raw : Bool) : FEv → Bool
  | .start t _ => rawTextElems.contains t
  | .empty _ _ => false
  | .end_ _ => false
  | .comment _ => false
  | _ => raw

theorem htmlEv_raw (r : RS) (ev : FEv) : (htmlEv r ev).raw = rawAfter r.raw ev := by
  cases ev <;> simp [htmlEv, rawAfter]
  split <;> rfl

/-- the per-event hypotheses along the stream -/
def HtmlOkAll : Bool → List FEv → Prop
  | _, [] => True
  | raw, ev :: rest => HtmlOk raw ev ∧ HtmlOkAll (rawAfter raw ev) rest

theorem html_stream (o : Opts) (evs : List FEv) :
    ∀ (r : RS) (c : Ctx), c.raw = r.raw → HtmlOkAll r.raw evs →
      feed false r.toRSt (serSpec .html o c evs).flatten = (evs.foldl htmlEv r).toRSt := by
  induction evs with
  | nil => intro r c _ _; simp [serSpec, feed]
  | cons ev rest ih =>
    intro r c hraw hok
    have he := html_event o r c ev hraw hok.1
    simp only [serSpec, List.flatten_append, feed_append, List.foldl_cons]
    rw [he.1]
    exact ih _ _ he.2 (by rw [htmlEv_raw]; exact hok.2)

/-- the tokens `html.parser` must deliver for a filtered stream: fold of the per-event
    specification, pending character data flushed at the end -/
def htmlExpected (evs : List FEv) : List Tok :=
  let r := evs.foldl htmlEv {}
  (flushToks r.buf r.toks).reverse

theorem html_tokens (o : Opts) (evs : List FEv) (hok : HtmlOkAll false evs)
    (hend : (evs.foldl htmlEv {}).raw = false) :
    tokens false (serSpec .html o {} evs).flatten = some (htmlExpected evs) := by
  have h := html_stream o evs {} {} rfl hok
  have h0 : ({} : RS).toRSt = ({} : RSt) := rfl
  rw [h0] at h
  unfold tokens htmlExpected
  simp only [h]
  generalize evs.foldl htmlEv {} = r at hend ⊢
  obtain ⟨rraw, rbuf, rtoks⟩ := r
  simp only at hend
  subst hend
  simp [toRSt_eq, mk, flush_eq]

end Genshi.Reader

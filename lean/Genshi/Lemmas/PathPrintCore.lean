/-
  C05 `parse ∘ print = id`, part 1: the operator levels of genshi's predicate parser
  (`_or_expr` … `_relational_expr`, `_sub_expr`) seen as one family `parseAt k` / `loopAt k`,
  what may follow an operand (`Follow`), and how a binary node is spelled (`BinAt`).
-/
import Genshi.Model.PathPrint
import Genshi.Lemmas.PathParseChain
namespace Genshi.Path
namespace Print
open Genshi

/-- the parser function for an operand of level `k` -/
def parseAt : Nat → List Str → Nat → Nat → Except PErr (Expr × Nat)
  | 0, ts, f, p => orExpr ts f p
  | 1, ts, f, p => andExpr ts f p
  | 2, ts, f, p => eqExpr ts f p
  | 3, ts, f, p => relExpr ts f p
  | _, ts, f, p => subExpr ts f p

/-- the `while` loop of level `k` -/
def loopAt : Nat → List Str → Nat → Nat → Expr → Except PErr (Expr × Nat)
  | 0, ts, f, p, e => orLoop ts f p e
  | 1, ts, f, p, e => andLoop ts f p e
  | 2, ts, f, p, e => eqLoop ts f p e
  | _, ts, f, p, e => relLoop ts f p e

/-- a token that can follow an operand of level `k`: a closing token, or an operator that binds
    weaker than level `k` -/
inductive Follow : Nat → Str → Prop
  | rbr (k) : Follow k [']']
  | rpar (k) : Follow k [')']
  | comma (k) : Follow k [',']
  | or_ (k) : 0 < k → Follow k ['o', 'r']
  | and_ (k) : 1 < k → Follow k ['a', 'n', 'd']
  | eq (k) : 2 < k → Follow k ['=']
  | ne (k) : 2 < k → Follow k ['!', '=']
  | gt (k) : 3 < k → Follow k ['>']
  | ge (k) : 3 < k → Follow k ['>', '=']
  | lt (k) : 3 < k → Follow k ['<']
  | le (k) : 3 < k → Follow k ['<', '=']

theorem Follow.mono {k k' : Nat} {t : Str} (h : Follow k t) (hk : k ≤ k') : Follow k' t := by
  cases h with
  | rbr => exact .rbr _
  | rpar => exact .rpar _
  | comma => exact .comma _
  | or_ h => exact .or_ _ (by omega)
  | and_ h => exact .and_ _ (by omega)
  | eq h => exact .eq _ (by omega)
  | ne h => exact .ne _ (by omega)
  | gt h => exact .gt _ (by omega)
  | ge h => exact .ge _ (by omega)
  | lt h => exact .lt _ (by omega)
  | le h => exact .le _ (by omega)

/-- what the parser needs to know about a following token at a name position -/
theorem Follow.plain {k : Nat} {t : Str} (h : Follow k t) :
    t ≠ [':'] ∧ t ≠ ['('] ∧ t ≠ ['(', ')'] ∧ (t.head? == some '(') = false ∧ t ≠ ['['] ∧ t ≠ [':', ':'] := by
  cases h <;> decide

/-- how a binary node of level `j` is written and built -/
inductive BinAt : Nat → Str → (Expr → Expr → Expr) → Prop
  | or_ : BinAt 0 ['o', 'r'] Expr.or_
  | and_ : BinAt 1 ['a', 'n', 'd'] Expr.and_
  | eq : BinAt 2 ['='] (Expr.cmp .eq)
  | ne : BinAt 2 ['!', '='] (Expr.cmp .ne)
  | gt : BinAt 3 ['>'] (Expr.cmp .gt)
  | ge : BinAt 3 ['>', '='] (Expr.cmp .ge)
  | lt : BinAt 3 ['<'] (Expr.cmp .lt)
  | le : BinAt 3 ['<', '='] (Expr.cmp .le)

theorem BinAt.lt4 {j : Nat} {t : Str} {mk : Expr → Expr → Expr} (h : BinAt j t mk) : j < 4 := by
  cases h <;> omega

theorem BinAt.follow {j : Nat} {t : Str} {mk : Expr → Expr → Expr} (h : BinAt j t mk) : Follow (j + 1) t := by
  cases h
  · exact .or_ _ (by omega)
  · exact .and_ _ (by omega)
  · exact .eq _ (by omega)
  · exact .ne _ (by omega)
  · exact .gt _ (by omega)
  · exact .ge _ (by omega)
  · exact .lt _ (by omega)
  · exact .le _ (by omega)

/-- the operator tokens resolve to their classes in the regenerated `_operator_map` -/
theorem opOfToken_tokens :
    opOfToken ['='] = some .eq ∧ opOfToken ['!', '='] = some .ne ∧ opOfToken ['>'] = some .gt ∧
    opOfToken ['>', '='] = some .ge ∧ opOfToken ['<'] = some .lt ∧ opOfToken ['<', '='] = some .le := by
  decide

/-- G1: a level is its next level followed by its loop -/
theorem parseAt_succ (j : Nat) (hj : j < 4) (ts : List Str) (f pos : Nat) :
    parseAt j ts (f + 1) pos = (parseAt (j + 1) ts f pos).bind (fun r => loopAt j ts f r.2 r.1) := by
  have h4 : j = 0 ∨ j = 1 ∨ j = 2 ∨ j = 3 := by omega
  rcases h4 with rfl | rfl | rfl | rfl
  · simp only [parseAt, loopAt, orExpr]
    cases andExpr ts f pos <;> rfl
  · simp only [parseAt, loopAt, andExpr]
    cases eqExpr ts f pos <;> rfl
  · simp only [parseAt, loopAt, eqExpr]
    cases relExpr ts f pos <;> rfl
  · simp only [parseAt, loopAt, relExpr]
    cases subExpr ts f pos <;> rfl

/-- G2: the loop of level `j` ends at a token that may follow an operand of level `k ≤ j` -/
theorem loopAt_stop (j k : Nat) (hj : j < 4) (hk : k ≤ j) (ts : List Str) (f q : Nat) (acc : Expr)
    (t0 : Str) (rest : List Str) (h : ts.drop q = t0 :: rest) (hf : Follow k t0) :
    loopAt j ts (f + 1) q acc = .ok (acc, q) := by
  have h4 : j = 0 ∨ j = 1 ∨ j = 2 ∨ j = 3 := by omega
  rcases h4 with rfl | rfl | rfl | rfl
  · have : (t0 == ['o', 'r']) = false := by
      cases hf <;> first | rfl | omega
    simp [loopAt, orLoop, cur_drop h, this, bind, Except.bind, pure, Except.pure]
  · have : (t0 == ['a', 'n', 'd']) = false := by
      cases hf <;> first | rfl | omega
    simp [loopAt, andLoop, cur_drop h, this, bind, Except.bind, pure, Except.pure]
  · have : (t0 == ['=']) = false ∧ (t0 == ['!', '=']) = false := by
      cases hf <;> first | exact ⟨rfl, rfl⟩ | omega
    simp [loopAt, eqLoop, cur_drop h, this.1, this.2, bind, Except.bind, pure, Except.pure]
  · have : (t0 == ['>']) = false ∧ (t0 == ['>', '=']) = false ∧ (t0 == ['<']) = false ∧ (t0 == ['<', '=']) = false := by
      cases hf <;> first | exact ⟨rfl, rfl, rfl, rfl⟩ | omega
    simp [loopAt, relLoop, cur_drop h, this.1, this.2.1, this.2.2.1, this.2.2.2, bind, Except.bind, pure, Except.pure]

/-- G3: the loop of level `j` at one of its operators -/
theorem loopAt_op {j : Nat} {tok : Str} {mk : Expr → Expr → Expr} (hb : BinAt j tok mk)
    (ts : List Str) (f q : Nat) (acc : Expr) (y : Str) (r : List Str) (h : ts.drop q = tok :: y :: r) :
    loopAt j ts (f + 1) q acc =
      (parseAt (j + 1) ts f (q + 1)).bind (fun x => loopAt j ts f x.2 (mk acc x.1)) := by
  obtain ⟨o1, o2, o3, o4, o5, o6⟩ := opOfToken_tokens
  cases hb
  · simp only [loopAt, orLoop, parseAt, cur_drop h, next_drop h, bind, Except.bind, pure, Except.pure]
    cases andExpr ts f (q + 1) <;> simp
  · simp only [loopAt, andLoop, parseAt, cur_drop h, next_drop h, bind, Except.bind, pure, Except.pure]
    cases eqExpr ts f (q + 1) <;> simp
  · simp only [loopAt, eqLoop, parseAt, cur_drop h, next_drop h, o1, bind, Except.bind, pure, Except.pure]
    cases relExpr ts f (q + 1) <;> simp
  · simp only [loopAt, eqLoop, parseAt, cur_drop h, next_drop h, o2, bind, Except.bind, pure, Except.pure]
    cases relExpr ts f (q + 1) <;> simp
  · simp only [loopAt, relLoop, parseAt, cur_drop h, next_drop h, o3, bind, Except.bind, pure, Except.pure]
    cases subExpr ts f (q + 1) <;> simp
  · simp only [loopAt, relLoop, parseAt, cur_drop h, next_drop h, o4, bind, Except.bind, pure, Except.pure]
    cases subExpr ts f (q + 1) <;> simp
  · simp only [loopAt, relLoop, parseAt, cur_drop h, next_drop h, o5, bind, Except.bind, pure, Except.pure]
    cases subExpr ts f (q + 1) <;> simp
  · simp only [loopAt, relLoop, parseAt, cur_drop h, next_drop h, o6, bind, Except.bind, pure, Except.pure]
    cases subExpr ts f (q + 1) <;> simp

theorem level_le (e : Expr) : level e ≤ 4 := by
  cases e <;> simp [level]
  rename_i op _ _
  cases op <;> simp [level]

/-- a node of level `j < 4` is a binary node, spelled operand, operator, operand -/
theorem bin_of_level (e : Expr) (j : Nat) (hl : level e = j) (hj : j < 4) :
    ∃ tok mk a b, BinAt j tok mk ∧ e = mk a b ∧ toks e = toksAt j a ++ tok :: toksAt (j + 1) b := by
  cases e with
  | or_ a b =>
    simp [level] at hl; subst hl
    exact ⟨_, _, a, b, .or_, rfl, by simp [toks, toksAt, paren, orTok]⟩
  | and_ a b =>
    simp [level] at hl; subst hl
    exact ⟨_, _, a, b, .and_, rfl, by simp [toks, toksAt, andTok]⟩
  | cmp op a b =>
    cases op <;> simp [level] at hl <;> subst hl
    · exact ⟨_, _, a, b, .eq, rfl, by rw [toks]; rfl⟩
    · exact ⟨_, _, a, b, .ne, rfl, by rw [toks]; rfl⟩
    · exact ⟨_, _, a, b, .gt, rfl, by rw [toks]; rfl⟩
    · exact ⟨_, _, a, b, .ge, rfl, by rw [toks]; rfl⟩
    · exact ⟨_, _, a, b, .lt, rfl, by rw [toks]; rfl⟩
    · exact ⟨_, _, a, b, .le, rfl, by rw [toks]; rfl⟩
  | _ => simp [level] at hl; omega

end Print
end Genshi.Path

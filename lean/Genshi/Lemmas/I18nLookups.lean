/-
  C19 — look-ups ⊆ extraction for the text / attribute traversal: a simultaneous induction over
  `Translator.__call__` (look-ups) and `Translator.extract`, with the skip counter shared.
-/
import Genshi.Model.I18nExtract
import Genshi.Model.I18nTranslate
import Genshi.Lemmas.I18n
namespace Genshi.I18n
open Genshi

mutual
  /-- no SUB event, at any depth, carries a message directive (msg / choose) -/
  def noMsgEv : TEvent → Bool
    | .sub ds b => !hasExtractable ds && noMsgList b
    | _ => true
  def noMsgList : List TEvent → Bool
    | [] => true
    | e :: es => noMsgEv e && noMsgList es
end

/-- the message ids of an extracted message (a context, where present, is listed as well) -/
def msgIds (m : Message) : List Str :=
  match m.val with
  | .one (some s) => [s]
  | .one none => []
  | .many ss => ss.filterMap id

def idsOf (ms : List Message) : List Str := ms.flatMap msgIds

theorem idsOf_append (a b : List Message) : idsOf (a ++ b) = idsOf a ++ idsOf b := by
  simp [idsOf]

/-! ### the loops over the directives of a SUB event -/

/-- `ex` never raises -/
def Total (ex : List Str → List Str → Except Err (List Message)) : Prop := ∀ cs xs, ∃ m, ex cs xs = .ok m

/-- `out` contains the result of some call of `ex` -/
def Covers (ex : List Str → List Str → Except Err (List Message)) (out : List Message) : Prop :=
  ∃ cs xs m, ex cs xs = .ok m ∧ ∀ x ∈ m, x ∈ out

theorem subLoop2_noext (cfg : Cfg) (st : Bool) (cs xs : List Str) (body : List TEvent)
    (ex : List Str → List Str → Except Err (List Message)) (hex : Total ex) :
    ∀ (ds : List Dir), hasExtractable ds = false →
      ∃ out, subLoop2 cfg st cs xs body ex ds = .ok out ∧ (ds ≠ [] → Covers ex out)
  | [], _ => ⟨[], rfl, fun h => absurd rfl h⟩
  | d :: ds, h => by
      simp only [hasExtractable, List.any_cons, Bool.or_eq_false_iff] at h
      obtain ⟨out', hout', _⟩ := subLoop2_noext cfg st cs xs body ex hex ds (by simpa [hasExtractable] using h.2)
      obtain ⟨m, hm⟩ := hex cs xs
      refine ⟨m ++ out', ?_, fun _ => ⟨cs, xs, m, hm, fun x hx => by simp [hx]⟩⟩
      cases d <;> simp_all [subLoop2, Dir.isExtractable, bind, Except.bind, pure, Except.pure]

/-- properties of the first loop: it never raises when `ex` does not, only erases directives,
    keeps what was already put out, and (`Q`) leaves a directive when it started with two -/
theorem subLoop1_total (ex : List Str → List Str → Except Err (List Message)) (hex : Total ex) :
    ∀ (fuel idx : Nat) (r : SubLoop),
      ∃ r', subLoop1 ex fuel idx r = .ok r' ∧ (∀ d ∈ r'.dirs, d ∈ r.dirs) ∧ (∀ x ∈ r.out, x ∈ r'.out) ∧
        (((idx = 0 ∧ 2 ≤ r.dirs.length) ∨ (1 ≤ idx ∧ 1 ≤ r.dirs.length)) → r'.dirs ≠ [])
  | 0, idx, r => ⟨r, rfl, fun _ h => h, fun _ h => h, fun h => by
      rcases h with h | h <;> (intro hn; simp [hn] at h)⟩
  | fuel + 1, idx, r => by
      simp only [subLoop1]
      cases hget : r.dirs[idx]? with
      | none =>
        refine ⟨r, rfl, fun _ h => h, fun _ h => h, fun h => ?_⟩
        rcases h with h | h <;> (intro hn; simp [hn] at h)
      | some d =>
        have hidx : idx < r.dirs.length := by
          rcases Nat.lt_or_ge idx r.dirs.length with h | h
          · exact h
          · rw [List.getElem?_eq_none h] at hget; cases hget
        have hlen_erase : (r.dirs.eraseIdx idx).length = r.dirs.length - 1 := by
          rw [List.length_eraseIdx]; simp [hidx]
        have hsub_erase : ∀ x ∈ r.dirs.eraseIdx idx, x ∈ r.dirs := fun x hx => List.mem_of_mem_eraseIdx hx
        -- the invariant `Q` after this step, for both the erased and the kept list
        have hQ : ∀ (len' : Nat), (len' = r.dirs.length ∨ len' = r.dirs.length - 1) →
            ((idx = 0 ∧ 2 ≤ r.dirs.length) ∨ (1 ≤ idx ∧ 1 ≤ r.dirs.length)) →
            ((idx + 1 = 0 ∧ 2 ≤ len') ∨ (1 ≤ idx + 1 ∧ 1 ≤ len')) := by
          intro len' hl hq; right; omega
        cases d with
        | comment c =>
          simp only
          by_cases h1 : r.dirs.length = 1
          · obtain ⟨m, hm⟩ := hex (r.cs ++ [c]) r.xs
            simp only [h1, ↓reduceIte, hm, bind, Except.bind, pure, Except.pure]
            obtain ⟨r', hr', hd', ho', hq'⟩ := subLoop1_total ex hex fuel (idx + 1)
              { r with inComment := true, cs := r.cs ++ [c], out := r.out ++ m, dirs := r.dirs.eraseIdx idx }
            refine ⟨r', hr', fun x hx => hsub_erase x (hd' x hx), fun x hx => ho' x (by simp [hx]), fun hq => ?_⟩
            rcases hq with hq | hq <;> omega
          · simp only [h1, ↓reduceIte, bind, Except.bind, pure, Except.pure]
            obtain ⟨r', hr', hd', ho', hq'⟩ := subLoop1_total ex hex fuel (idx + 1)
              { r with inComment := true, cs := r.cs ++ [c], out := r.out, dirs := r.dirs.eraseIdx idx }
            refine ⟨r', hr', fun x hx => hsub_erase x (hd' x hx), fun x hx => ho' x hx, fun hq => ?_⟩
            exact hq' (hQ _ (Or.inr hlen_erase) hq)
        | ctxt c =>
          simp only
          by_cases h1 : r.dirs.length = 1
          · obtain ⟨m, hm⟩ := hex r.cs (r.xs ++ [c])
            simp only [h1, ↓reduceIte, hm, bind, Except.bind, pure, Except.pure]
            obtain ⟨r', hr', hd', ho', hq'⟩ := subLoop1_total ex hex fuel (idx + 1)
              { r with inContext := true, xs := r.xs ++ [c], out := r.out ++ m, dirs := r.dirs.eraseIdx idx }
            refine ⟨r', hr', fun x hx => hsub_erase x (hd' x hx), fun x hx => ho' x (by simp [hx]), fun hq => ?_⟩
            rcases hq with hq | hq <;> omega
          · simp only [h1, ↓reduceIte, bind, Except.bind, pure, Except.pure]
            obtain ⟨r', hr', hd', ho', hq'⟩ := subLoop1_total ex hex fuel (idx + 1)
              { r with inContext := true, xs := r.xs ++ [c], out := r.out, dirs := r.dirs.eraseIdx idx }
            refine ⟨r', hr', fun x hx => hsub_erase x (hd' x hx), fun x hx => ho' x hx, fun hq => ?_⟩
            exact hq' (hQ _ (Or.inr hlen_erase) hq)
        | domain _ | msg _ | choose _ | singular | plural =>
          simp only [Dir.isI18n, ↓reduceIte]
          obtain ⟨r', hr', hd', ho', hq'⟩ := subLoop1_total ex hex fuel (idx + 1) r
          exact ⟨r', hr', hd', ho', fun hq => hq' (hQ _ (Or.inl rfl) hq)⟩
        | strip | other _ =>
          simp only [Dir.isI18n, Bool.false_eq_true, ↓reduceIte]
          obtain ⟨r', hr', hd', ho', hq'⟩ := subLoop1_total ex hex fuel (idx + 1)
            { r with dirs := r.dirs.eraseIdx idx }
          exact ⟨r', hr', fun x hx => hsub_erase x (hd' x hx), ho', fun hq => hq' (hQ _ (Or.inr hlen_erase) hq)⟩


theorem covers_mono {ex : List Str → List Str → Except Err (List Message)} {a b : List Message}
    (h : Covers ex a) (hab : ∀ x ∈ a, x ∈ b) : Covers ex b := by
  obtain ⟨cs, xs, m, hm, hsub⟩ := h
  exact ⟨cs, xs, m, hm, fun x hx => hab x (hsub x hx)⟩

/-- the SUB branch of `Translator.extract` for a SUB event without message directive: it
    never raises when the recursive call does not, and its result contains the result of
    one recursive call on the sub-stream (whatever the directives are and however the loop
    that edits the directive list under its own iterator skips some of them) -/
theorem exSub_cover (cfg : Cfg) (st : Bool) (cs xs : List Str) (dirs : List Dir) (body : List TEvent)
    (hne : hasExtractable dirs = false)
    (hex : Total (fun cs' xs' => exList cfg (cfg.extractText && st) cs' xs' 0 body)) :
    ∃ out, exSub cfg st cs xs (.sub dirs body) = .ok out ∧
      Covers (fun cs' xs' => exList cfg (cfg.extractText && st) cs' xs' 0 body) out := by
  simp only [exSub]
  obtain ⟨r', hr', hd', _, hq'⟩ := subLoop1_total (fun cs' xs' => exList cfg (cfg.extractText && st) cs' xs' 0 body)
    hex dirs.length 0 ⟨dirs, false, false, cs, xs, []⟩
  have hne' : hasExtractable r'.dirs = false := by
    simp only [hasExtractable, List.any_eq_false] at hne ⊢
    exact fun d hd => hne d (hd' d hd)
  obtain ⟨out2, hout2, hcov2⟩ := subLoop2_noext cfg st r'.cs r'.xs body
    (fun cs' xs' => exList cfg (cfg.extractText && st) cs' xs' 0 body) hex r'.dirs hne'
  simp only [hr', bind, Except.bind]
  by_cases hemp : r'.dirs = []
  · -- every directive was removed: the list had at most one element
    have hlen : dirs.length < 2 := by
      rcases Nat.lt_or_ge dirs.length 2 with h | h
      · exact h
      · exact absurd hemp (hq' (Or.inl ⟨rfl, h⟩))
    match dirs, hlen, hr', hne with
    | [], _, hr0, _ =>
      simp only [List.length_nil, subLoop1, pure, Except.pure, Except.ok.injEq] at hr0
      subst hr0
      obtain ⟨m, hm⟩ := hex [] []
      simp only [List.isEmpty_nil, Bool.not_false, Bool.and_self, ↓reduceIte, hm, List.nil_append, subLoop2,
        pure, Except.pure]
      exact ⟨m ++ [], rfl, [], [], m, hm, fun x hx => by simp [hx]⟩
    | [d], _, hr0, hne0 =>
      cases d with
      | comment c =>
        obtain ⟨m, hm⟩ := hex (cs ++ [c]) xs
        simp [subLoop1, hm, bind, Except.bind, pure, Except.pure] at hr0
        subst hr0
        simp only [List.eraseIdx_zero, List.tail_cons, List.isEmpty_nil, Bool.not_true, Bool.and_false,
          Bool.false_and, Bool.false_eq_true, ↓reduceIte, subLoop2, pure, Except.pure, List.nil_append]
        exact ⟨m ++ [], rfl, cs ++ [c], xs, m, hm, fun x hx => by simp [hx]⟩
      | ctxt c =>
        obtain ⟨m, hm⟩ := hex cs (xs ++ [c])
        simp [subLoop1, hm, bind, Except.bind, pure, Except.pure] at hr0
        subst hr0
        simp only [List.eraseIdx_zero, List.tail_cons, List.isEmpty_nil, Bool.not_true, Bool.and_false,
          Bool.false_eq_true, ↓reduceIte, subLoop2, pure, Except.pure, List.nil_append]
        exact ⟨m ++ [], rfl, cs, xs ++ [c], m, hm, fun x hx => by simp [hx]⟩
      | strip =>
        simp [subLoop1, Dir.isI18n, pure, Except.pure] at hr0
        subst hr0
        obtain ⟨m, hm⟩ := hex [] []
        simp only [List.isEmpty_nil, Bool.not_false, Bool.and_self, ↓reduceIte, hm, List.nil_append, subLoop2,
          pure, Except.pure]
        exact ⟨m ++ [], rfl, [], [], m, hm, fun x hx => by simp [hx]⟩
      | other n =>
        simp [subLoop1, Dir.isI18n, pure, Except.pure] at hr0
        subst hr0
        obtain ⟨m, hm⟩ := hex [] []
        simp only [List.isEmpty_nil, Bool.not_false, Bool.and_self, ↓reduceIte, hm, List.nil_append, subLoop2,
          pure, Except.pure]
        exact ⟨m ++ [], rfl, [], [], m, hm, fun x hx => by simp [hx]⟩
      | domain _ => simp [subLoop1, Dir.isI18n, pure, Except.pure] at hr0; subst hr0; simp at hemp
      | singular => simp [subLoop1, Dir.isI18n, pure, Except.pure] at hr0; subst hr0; simp at hemp
      | plural => simp [subLoop1, Dir.isI18n, pure, Except.pure] at hr0; subst hr0; simp at hemp
      | msg _ => simp [hasExtractable, Dir.isExtractable] at hne0
      | choose _ => simp [hasExtractable, Dir.isExtractable] at hne0
  · -- a directive is left: it extracts the sub-stream
    have hcov := hcov2 hemp
    have hne_empty : r'.dirs.isEmpty = false := by cases hd : r'.dirs <;> simp_all
    simp only [hne_empty, Bool.false_and, Bool.false_eq_true, ↓reduceIte, pure, Except.pure, hout2]
    exact ⟨r'.out ++ out2, rfl, covers_mono hcov (fun x hx => by simp [hx])⟩


/-! ### look-ups against extracted messages -/

/-- every look-up is an extracted message id, or has no letter -/
def Incl (ms : List Message) (ls : List Lookup) : Prop :=
  ∀ l ∈ ls, l.msgid ∈ idsOf ms ∨ hasLetter l.msgid = false

theorem Incl.nil (ms : List Message) : Incl ms [] := fun _ h => by simp at h

theorem Incl.append {a b : List Message} {la lb : List Lookup} (ha : Incl a la) (hb : Incl b lb) :
    Incl (a ++ b) (la ++ lb) := by
  intro l hl
  rw [idsOf_append]
  simp only [List.mem_append] at hl ⊢
  rcases hl with hl | hl
  · rcases ha l hl with h | h
    · exact Or.inl (Or.inl h)
    · exact Or.inr h
  · rcases hb l hl with h | h
    · exact Or.inl (Or.inr h)
    · exact Or.inr h

theorem Incl.right {a b : List Message} {ls : List Lookup} (hb : Incl b ls) : Incl (a ++ b) ls := by
  have := Incl.append (Incl.nil a) hb; simpa using this

theorem Incl.cons {m : Message} {b : List Message} {ls : List Lookup} (hb : Incl b ls) : Incl (m :: b) ls :=
  Incl.right (a := [m]) hb

theorem Incl.mono {a b : List Message} {ls : List Lookup} (ha : Incl a ls) (hab : ∀ x ∈ a, x ∈ b) : Incl b ls := by
  intro l hl
  rcases ha l hl with h | h
  · left
    simp only [idsOf, List.mem_flatMap] at h ⊢
    obtain ⟨m, hm, hid⟩ := h
    exact ⟨m, hab m hm, hid⟩
  · exact Or.inr h

theorem contextify_none_ok (s : Str) (cs xs : List Str) :
    ∃ m, contextify none (.one (some s)) cs xs = some m ∧ s ∈ msgIds m := by
  cases xs with
  | nil => exact ⟨_, rfl, by simp [msgIds]⟩
  | cons c rest =>
    have : contextedGet none = some pgettextName := by decide
    exact ⟨⟨some pgettextName, .many [some c, some s], cs⟩, by simp [contextify, this], by simp [msgIds]⟩

theorem incl_attrs (cfg : Cfg) (ctx : Ctx) (ta st : Bool) (hta : ta = true → st = true) :
    ∀ (a : TAttrs), Incl (extractAttrs cfg st a) (lkAttrs cfg ctx ta a)
  | [] => by simp [lkAttrs, Incl.nil]
  | (n, .str v) :: rest => by
      have ih := incl_attrs cfg ctx ta st hta rest
      simp only [lkAttrs, List.flatMap_cons, lkAttr, extractAttrs] at ih ⊢
      refine Incl.append ?_ ih
      by_cases hc : (ta && cfg.includeAttrs.contains n.text && !(strip v).isEmpty) = true
      · have hta' : ta = true := by simp only [Bool.and_eq_true] at hc; exact hc.1.1
        have hst := hta hta'
        have hc' : (st && cfg.includeAttrs.contains n.text && !(strip v).isEmpty) = true := by
          simp only [Bool.and_eq_true] at hc ⊢; exact ⟨⟨hst, hc.1.2⟩, hc.2⟩
        simp only [hc, hc', ↓reduceIte]
        intro l hl
        simp only [List.mem_singleton] at hl
        subst hl
        left; simp [idsOf, msgIds]
      · simp only [hc, Bool.false_eq_true, ↓reduceIte]
        exact Incl.nil _
  | (n, .parts ps) :: rest => by
      have ih := incl_attrs cfg ctx ta st hta rest
      simp only [lkAttrs, List.flatMap_cons, lkAttr, extractAttrs, List.nil_append] at ih ⊢
      exact Incl.right ih

theorem hasExtractable_perm {a b : List Dir} (h : a.Perm b) : hasExtractable a = hasExtractable b := by
  simp only [hasExtractable]
  cases ha : a.any Dir.isExtractable <;> cases hb : b.any Dir.isExtractable <;> try rfl
  · simp only [List.any_eq_false, List.any_eq_true] at ha hb
    obtain ⟨d, hd, hde⟩ := hb
    exact absurd hde (by simpa using ha d (h.symm.subset hd))
  · simp only [List.any_eq_false, List.any_eq_true] at ha hb
    obtain ⟨d, hd, hde⟩ := ha
    exact absurd hde (by simpa using hb d (h.subset hd))


/-- the joint statement for one run of the two loops -/
def Joint (cfg : Cfg) (st : Bool) (ms : List Message) (lk : Ctx → Bool → Bool → List Lookup) : Prop :=
  st = cfg.extractText → ∀ (ctx : Ctx) (tt ta : Bool), (tt = true → cfg.extractText = true) →
    (ta = true → cfg.extractText = true) → Incl ms (lk ctx tt ta)

mutual
  theorem ex_lk_sub (cfg : Cfg) : ∀ (e : TEvent), noMsgEv e = true → ∀ (st : Bool) (cs xs : List Str),
      ∃ ms, exSub cfg st cs xs e = .ok ms ∧
        ((cfg.extractText && st) = cfg.extractText → ∀ (ctx : Ctx) (ta : Bool), (ta = true → cfg.extractText = true) →
          Incl ms (lkSub cfg ctx ta e))
    | .sub dirs body, h, st, cs, xs => by
        simp only [noMsgEv, Bool.and_eq_true, Bool.not_eq_true'] at h
        have ih := ex_lk_list cfg body h.2
        have hex : Total (fun cs' xs' => exList cfg (cfg.extractText && st) cs' xs' 0 body) := fun cs' xs' => by
          obtain ⟨m, hm, _⟩ := ih 0 (cfg.extractText && st) cs' xs'; exact ⟨m, hm⟩
        obtain ⟨out, hout, cs', xs', m, hm, hsub⟩ := exSub_cover cfg st cs xs dirs body h.1 hex
        refine ⟨out, hout, fun hst ctx ta hta => ?_⟩
        obtain ⟨m', hm', hincl⟩ := ih 0 (cfg.extractText && st) cs' xs'
        have hm2 : exList cfg (cfg.extractText && st) cs' xs' 0 body = .ok m := hm
        have hmm : m' = m := by rw [hm'] at hm2; exact Except.ok.inj hm2
        subst hmm
        simp only [lkSub]
        have hperm : hasExtractable (reorder dirs).dirs = false := by
          rw [hasExtractable_perm (reorder_perm dirs)]; exact h.1
        refine Incl.mono (hincl hst _ _ _ ?_ ?_) hsub
        · intro ht; simp only [Bool.and_eq_true] at ht; exact ht.1
        · intro ht; simp only [Bool.and_eq_true] at ht; exact ht.1
    | .start _ _, _, _, _, _ => ⟨[], rfl, fun _ _ _ _ => by simp [lkSub, Incl.nil]⟩
    | .end_ _, _, _, _, _ => ⟨[], rfl, fun _ _ _ _ => by simp [lkSub, Incl.nil]⟩
    | .text _, _, _, _, _ => ⟨[], rfl, fun _ _ _ _ => by simp [lkSub, Incl.nil]⟩
    | .expr _ _, _, _, _, _ => ⟨[], rfl, fun _ _ _ _ => by simp [lkSub, Incl.nil]⟩
    | .exec _, _, _, _, _ => ⟨[], rfl, fun _ _ _ _ => by simp [lkSub, Incl.nil]⟩
    | .other _, _, _, _, _ => ⟨[], rfl, fun _ _ _ _ => by simp [lkSub, Incl.nil]⟩
  theorem ex_lk_list (cfg : Cfg) : ∀ (s : List TEvent), noMsgList s = true → ∀ (skip : Nat) (st : Bool) (cs xs : List Str),
      ∃ ms, exList cfg st cs xs skip s = .ok ms ∧
        Joint cfg st ms (fun ctx tt ta => lkList cfg ctx tt ta skip s)
    | [], _, skip, st, cs, xs => ⟨[], by simp [exList, pure, Except.pure], fun _ _ _ _ _ _ => by
        cases skip <;> simp [lkList, Incl.nil]⟩
    | e :: es, h, skip, st, cs, xs => by
        simp only [noMsgList, Bool.and_eq_true] at h
        have ihs := ex_lk_list cfg es h.2
        cases skip with
        | succ k =>
          -- inside an excluded sub-tree: no look-up, extraction goes on (code and SUB events included)
          cases e with
          | start tag attrs =>
            obtain ⟨ms, hms, hj⟩ := ihs (k + 2) st cs xs
            refine ⟨extractAttrs cfg false attrs ++ ms, by simp [exList, hms, bind, Except.bind, pure, Except.pure],
              fun hst ctx tt ta htt hta => ?_⟩
            have := hj hst ctx tt ta htt hta
            simp only [lkList, skipStep]
            exact Incl.right (by simpa using this)
          | end_ tag =>
            obtain ⟨ms, hms, hj⟩ := ihs k st cs xs
            refine ⟨ms, by simp [exList, hms], fun hst ctx tt ta htt hta => ?_⟩
            simpa [lkList, skipStep] using hj hst ctx tt ta htt hta
          | text t =>
            obtain ⟨ms, hms, hj⟩ := ihs (k + 1) st cs xs
            refine ⟨ms, by simp [exList, hms, bind, Except.bind, pure, Except.pure], fun hst ctx tt ta htt hta => ?_⟩
            simpa [lkList, skipStep] using hj hst ctx tt ta htt hta
          | expr i cm =>
            obtain ⟨ms, hms, hj⟩ := ihs (k + 1) st cs xs
            refine ⟨codeMessages cm ++ ms, by simp [exList, hms, bind, Except.bind, pure, Except.pure],
              fun hst ctx tt ta htt hta => ?_⟩
            have := hj hst ctx tt ta htt hta
            simp only [lkList, skipStep]
            exact Incl.right this
          | exec cm =>
            obtain ⟨ms, hms, hj⟩ := ihs (k + 1) st cs xs
            refine ⟨codeMessages cm ++ ms, by simp [exList, hms, bind, Except.bind, pure, Except.pure],
              fun hst ctx tt ta htt hta => ?_⟩
            have := hj hst ctx tt ta htt hta
            simp only [lkList, skipStep]
            exact Incl.right this
          | sub dirs body =>
            obtain ⟨ms, hms, hj⟩ := ihs (k + 1) st cs xs
            obtain ⟨ms0, hms0, _⟩ := ex_lk_sub cfg (.sub dirs body) h.1 false cs xs
            refine ⟨ms0 ++ ms, by simp only [exList]; simp [hms, hms0, bind, Except.bind, pure, Except.pure],
              fun hst ctx tt ta htt hta => ?_⟩
            have := hj hst ctx tt ta htt hta
            simp only [lkList, skipStep]
            exact Incl.right this
          | other l =>
            obtain ⟨ms, hms, hj⟩ := ihs (k + 1) st cs xs
            refine ⟨ms, by simp [exList, hms], fun hst ctx tt ta htt hta => ?_⟩
            simpa [lkList, skipStep] using hj hst ctx tt ta htt hta
        | zero =>
          cases e with
          | start tag attrs =>
            by_cases hx : excluded cfg tag attrs = true
            · obtain ⟨ms, hms, hj⟩ := ihs 1 st cs xs
              refine ⟨extractAttrs cfg false attrs ++ ms, by simp [exList, hx, hms, bind, Except.bind, pure, Except.pure],
                fun hst ctx tt ta htt hta => ?_⟩
              have := hj hst ctx tt ta htt hta
              simp only [lkList, hx, ↓reduceIte]
              exact Incl.right (by simpa using this)
            · obtain ⟨ms, hms, hj⟩ := ihs 0 st cs xs
              refine ⟨extractAttrs cfg st attrs ++ ms, by simp [exList, hx, hms, bind, Except.bind, pure, Except.pure],
                fun hst ctx tt ta htt hta => ?_⟩
              simp only [lkList, hx, Bool.false_eq_true, ↓reduceIte]
              exact Incl.append (incl_attrs cfg ctx ta st (fun h' => by rw [hst]; exact hta h') attrs)
                (hj hst ctx tt ta htt hta)
          | end_ tag =>
            obtain ⟨ms, hms, hj⟩ := ihs 0 st cs xs
            refine ⟨ms, by simp [exList, hms], fun hst ctx tt ta htt hta => ?_⟩
            simpa [lkList] using hj hst ctx tt ta htt hta
          | text t =>
            obtain ⟨ms, hms, hj⟩ := ihs 0 st cs xs
            by_cases hc : (st && !(strip t).isEmpty && hasLetter (strip t)) = true
            · obtain ⟨m, hm, hid⟩ := contextify_none_ok (strip t) (lastSlice cs) (lastSlice xs)
              refine ⟨m :: ms, ?_, fun hst ctx tt ta htt hta => ?_⟩
              · simp only [Bool.and_eq_true] at hc
                have hst1 := hc.1.1
                subst hst1
                simp [exList, hms, bind, Except.bind, pure, Except.pure, hc.1.2, hc.2, hm]
              · simp only [lkList]
                have hrest := hj hst ctx tt ta htt hta
                refine Incl.append (a := [m]) ?_ hrest
                intro l hl
                split at hl
                · simp only [List.mem_singleton] at hl; subst hl
                  left; simp [idsOf, hid]
                · simp at hl
            · refine ⟨ms, ?_, fun hst ctx tt ta htt hta => ?_⟩
              · have hc' : (decide (0 = 0) && st && !(strip t).isEmpty && hasLetter (strip t)) = false := by
                  simpa using hc
                simp only [exList]
                simp [hms, bind, Except.bind, pure, Except.pure]
                intro h1 h2 h3
                simp [h1, h2, h3] at hc
              · simp only [lkList]
                have hrest := hj hst ctx tt ta htt hta
                have := Incl.append (a := []) (la := if (tt && !(strip t).isEmpty) = true then
                    [⟨(boundKey ctx).1, (boundKey ctx).2, strip t⟩] else []) ?_ hrest
                · simpa using this
                · intro l hl
                  split at hl
                  · rename_i hlk
                    simp only [List.mem_singleton] at hl; subst hl
                    right
                    simp only [Bool.and_eq_true, Bool.not_eq_true'] at hlk
                    have hste : st = true := by rw [hst]; exact htt hlk.1
                    cases hl' : hasLetter (strip t) with
                    | false => rfl
                    | true => simp [hste, hlk.2, hl'] at hc
                  · simp at hl
          | expr i cm =>
            obtain ⟨ms, hms, hj⟩ := ihs 0 st cs xs
            refine ⟨codeMessages cm ++ ms, by simp [exList, hms, bind, Except.bind, pure, Except.pure],
              fun hst ctx tt ta htt hta => ?_⟩
            simp only [lkList]
            exact Incl.right (hj hst ctx tt ta htt hta)
          | exec cm =>
            obtain ⟨ms, hms, hj⟩ := ihs 0 st cs xs
            refine ⟨codeMessages cm ++ ms, by simp [exList, hms, bind, Except.bind, pure, Except.pure],
              fun hst ctx tt ta htt hta => ?_⟩
            simp only [lkList]
            exact Incl.right (hj hst ctx tt ta htt hta)
          | sub dirs body =>
            obtain ⟨ms, hms, hj⟩ := ihs 0 st cs xs
            obtain ⟨ms0, hms0, hj0⟩ := ex_lk_sub cfg (.sub dirs body) h.1 st cs xs
            refine ⟨ms0 ++ ms, by simp only [exList]; simp [hms, hms0, bind, Except.bind, pure, Except.pure],
              fun hst ctx tt ta htt hta => ?_⟩
            simp only [lkList]
            refine Incl.append (hj0 ?_ ctx ta hta) (hj hst ctx tt ta htt hta)
            simp [hst]
          | other l =>
            obtain ⟨ms, hms, hj⟩ := ihs 0 st cs xs
            refine ⟨ms, by simp [exList, hms], fun hst ctx tt ta htt hta => ?_⟩
            simpa [lkList] using hj hst ctx tt ta htt hta
end

/-- **lookups ⊆ extraction, text / attribute traversal** -/
theorem lookups_subset_extract_noMsg (cfg : Cfg) (ctx : Ctx) (s : TStream) (h : noMsgList s = true) :
    ∃ ms, extract cfg s = .ok ms ∧
      ∀ l ∈ lookups cfg ctx true true s, hasLetter l.msgid = true → l.msgid ∈ idsOf ms := by
  obtain ⟨ms, hms, hj⟩ := ex_lk_list cfg s h 0 cfg.extractText [] []
  refine ⟨ms, hms, fun l hl hlet => ?_⟩
  have := hj rfl ctx (cfg.extractText && true) (cfg.extractText && true) (by simp) (by simp) l (by simpa [lookups] using hl)
  rcases this with h1 | h1
  · exact h1
  · rw [hlet] at h1; cases h1

end Genshi.I18n

/-
  C02 — the tokenizer reads back the prolog: XML declaration and DOCTYPE.
-/
import Genshi.Lemmas.XmlTokB
import Genshi.Model.XmlSpec
namespace Genshi.Xml
open Genshi Genshi.Escape Genshi.Xml.Reader

theorem stripPrefix_append (pre rest : Str) : stripPrefix pre (pre ++ rest) = some rest := by
  unfold stripPrefix
  rw [if_pos (isPrefixOf_self_append pre rest)]
  simp

/-! ### DOCTYPE -/

theorem takeName_stop (n : Str) (hn : validName n = true) (r : Str)
    (hr : r = [] ∨ ∃ x r', r = x :: r' ∧ isNameStop x = true) : takeName (n ++ r) = (n, r) := by
  rcases hr with rfl | ⟨x, r', rfl, hx⟩
  · simpa using takeName_end n hn
  · exact takeName_until n x r' hn hx

theorem dropSpaces_name (n r : Str) (hn : validName n = true) : dropSpaces (n ++ r) = n ++ r := by
  obtain ⟨c, cs, rfl, hc⟩ := validName_head hn
  simp only [List.cons_append]
  exact dropSpaces_of_head (not_space_of_not_stop hc)

theorem dropSpaces_sp (c : Char) (r : Str) (h : isSpace c = false) : dropSpaces (' ' :: c :: r) = c :: r := by
  simp [dropSpaces, List.dropWhile, isSpace_sp, h]

theorem takeDoctype_plain (n rest : Str) (hn : validName n = true) (hq : doctypeNameOk n = true) :
    takeDoctype (' ' :: (n ++ '>' :: rest)) = some (FEv.other (.doctype n none none), rest) := by
  simp only [takeDoctype, isSpace_sp, Bool.not_true, Bool.false_eq_true, if_false]
  rw [dropSpaces_name n _ hn, takeName_until n '>' rest hn (by decide)]
  simp only [hn, hq, Bool.not_true, Bool.or_self, Bool.false_eq_true, if_false]
  rw [dropSpaces_of_head (c := '>') (by decide)]
  rfl

theorem takeDoctype_system (n sys rest : Str) (q : Char) (hqc : q = '"' ∨ q = '\'') (hsq : q ∉ sys)
    (hn : validName n = true) (hq : doctypeNameOk n = true) :
    takeDoctype (' ' :: (n ++ [' ', 'S', 'Y', 'S', 'T', 'E', 'M', ' ', q] ++ sys ++ q :: '>' :: rest)) =
      some (FEv.other (.doctype n none (some sys)), rest) := by
  have e : n ++ [' ', 'S', 'Y', 'S', 'T', 'E', 'M', ' ', q] ++ sys ++ q :: '>' :: rest =
      n ++ ' ' :: (['S', 'Y', 'S', 'T', 'E', 'M'] ++ ' ' :: q :: (sys ++ q :: '>' :: rest)) := by simp
  rw [e]
  simp only [takeDoctype, isSpace_sp, Bool.not_true, Bool.false_eq_true, if_false]
  rw [dropSpaces_name n _ hn, takeName_until n ' ' _ hn (by decide)]
  simp only [hn, hq, Bool.not_true, Bool.or_self, Bool.false_eq_true, if_false]
  have hd : dropSpaces (' ' :: (['S', 'Y', 'S', 'T', 'E', 'M'] ++ ' ' :: q :: (sys ++ q :: '>' :: rest))) =
      ['S', 'Y', 'S', 'T', 'E', 'M'] ++ ' ' :: q :: (sys ++ q :: '>' :: rest) := by
    exact dropSpaces_sp 'S' _ (by decide)
  rw [hd]
  split
  · rename_i heq; simp at heq
  · rw [stripPrefix_append]
    simp only [isSpace_sp, Bool.not_true, Bool.false_eq_true, if_false]
    have hd2 : dropSpaces (' ' :: q :: (sys ++ q :: '>' :: rest)) = q :: (sys ++ q :: '>' :: rest) := by
      apply dropSpaces_sp
      rcases hqc with rfl | rfl <;> decide
    rw [hd2]
    have htq : takeQuoted (q :: (sys ++ q :: '>' :: rest)) = some (sys, '>' :: rest) := by
      rcases hqc with rfl | rfl
      · exact takeQuoted_dq sys _ hsq
      · exact takeQuoted_sq sys _ hsq
    rw [htq]
    simp only
    rw [dropSpaces_of_head (c := '>') (by decide)]
    rfl

theorem takeDoctype_public (n pub sys rest : Str) (q : Char) (hqc : q = '"' ∨ q = '\'') (hsq : q ∉ sys)
    (hn : validName n = true) (hq : doctypeNameOk n = true)
    (hp : pub.all isPubidChar = true) (hpn : normPubid pub = pub) :
    takeDoctype (' ' :: (n ++ [' ', 'P', 'U', 'B', 'L', 'I', 'C', ' ', '"'] ++ pub ++ ['"', ' ', q] ++ sys ++
        q :: '>' :: rest)) =
      some (FEv.other (.doctype n (some pub) (some sys)), rest) := by
  have hpq : '"' ∉ pub := by
    intro hm
    have := List.all_eq_true.mp hp '"' hm
    revert this; decide
  have e : n ++ [' ', 'P', 'U', 'B', 'L', 'I', 'C', ' ', '"'] ++ pub ++ ['"', ' ', q] ++ sys ++ q :: '>' :: rest =
      n ++ ' ' :: (['P', 'U', 'B', 'L', 'I', 'C'] ++ ' ' :: '"' :: (pub ++ '"' :: (' ' :: q :: (sys ++ q :: '>' :: rest)))) := by
    simp
  rw [e]
  simp only [takeDoctype, isSpace_sp, Bool.not_true, Bool.false_eq_true, if_false]
  rw [dropSpaces_name n _ hn, takeName_until n ' ' _ hn (by decide)]
  simp only [hn, hq, Bool.not_true, Bool.or_self, Bool.false_eq_true, if_false]
  have hd : dropSpaces (' ' :: (['P', 'U', 'B', 'L', 'I', 'C'] ++ ' ' :: '"' :: (pub ++ '"' :: (' ' :: q :: (sys ++ q :: '>' :: rest))))) =
      ['P', 'U', 'B', 'L', 'I', 'C'] ++ ' ' :: '"' :: (pub ++ '"' :: (' ' :: q :: (sys ++ q :: '>' :: rest))) := by
    exact dropSpaces_sp 'P' _ (by decide)
  rw [hd]
  split
  · rename_i heq; simp at heq
  · have hns : stripPrefix ['S', 'Y', 'S', 'T', 'E', 'M']
        (['P', 'U', 'B', 'L', 'I', 'C'] ++ ' ' :: '"' :: (pub ++ '"' :: (' ' :: q :: (sys ++ q :: '>' :: rest)))) = none := by
      simp [stripPrefix, List.isPrefixOf]
    rw [hns]
    simp only
    rw [stripPrefix_append]
    simp only [isSpace_sp, Bool.not_true, Bool.false_eq_true, if_false]
    have hd1 : dropSpaces (' ' :: '"' :: (pub ++ '"' :: (' ' :: q :: (sys ++ q :: '>' :: rest)))) =
        '"' :: (pub ++ '"' :: (' ' :: q :: (sys ++ q :: '>' :: rest))) := by
      exact dropSpaces_sp '"' _ (by decide)
    rw [hd1, takeQuoted_dq pub _ hpq]
    simp only [isSpace_sp, Bool.not_true, Bool.false_eq_true, if_false]
    have hd2 : dropSpaces (' ' :: q :: (sys ++ q :: '>' :: rest)) = q :: (sys ++ q :: '>' :: rest) := by
      apply dropSpaces_sp
      rcases hqc with rfl | rfl <;> decide
    rw [hd2]
    have htq : takeQuoted (q :: (sys ++ q :: '>' :: rest)) = some (sys, '>' :: rest) := by
      rcases hqc with rfl | rfl
      · exact takeQuoted_dq sys _ hsq
      · exact takeQuoted_sq sys _ hsq
    rw [htq]
    simp only
    rw [dropSpaces_of_head (c := '>') (by decide)]
    simp [hp, hpn]

end Genshi.Xml

namespace Genshi.Xml
open Genshi Genshi.Escape Genshi.Xml.Reader

/-! ### the XML declaration -/

theorem takePseudo_hit (name v after : Str) (hn : ∃ c cs, name = c :: cs ∧ isSpace c = false) (hv : '"' ∉ v) :
    takePseudo name (' ' :: (name ++ '=' :: '"' :: (v ++ '"' :: after))) = some (v, after) := by
  obtain ⟨c, cs, rfl, hc⟩ := hn
  simp only [takePseudo, isSpace_sp, Bool.not_true, Bool.false_eq_true, if_false]
  have h1 : dropSpaces (c :: cs ++ '=' :: '"' :: (v ++ '"' :: after)) = (c :: cs) ++ '=' :: '"' :: (v ++ '"' :: after) := by
    simp only [List.cons_append]; exact dropSpaces_of_head hc
  rw [h1, stripPrefix_append]
  simp only [Option.map_some]
  rw [dropSpaces_of_head (c := '=') (by decide)]
  simp only
  rw [dropSpaces_of_head (c := '"') (by decide), takeQuoted_dq v after hv]

theorem takePseudo_miss_nospace (name : Str) (c : Char) (r : Str) (hc : isSpace c = false) :
    takePseudo name (c :: r) = none := by
  simp [takePseudo, hc]

theorem takePseudo_miss (name : Str) (r : Str) (h : stripPrefix name (dropSpaces r) = none) :
    takePseudo name (' ' :: r) = none := by
  simp [takePseudo, isSpace_sp, h]

/-- the part of the declaration after `<?xml`, as `emitDecl` writes it -/
def declTail (v : Str) (enc : Option Str) (sa : Int) : Str :=
  [' ', 'v', 'e', 'r', 's', 'i', 'o', 'n', '=', '"'] ++ v ++ ['"']
  ++ (match enc with
      | some e => if e.isEmpty then [] else [' ', 'e', 'n', 'c', 'o', 'd', 'i', 'n', 'g', '=', '"'] ++ e ++ ['"']
      | none => [])
  ++ (if sa = -1 then []
      else [' ', 's', 't', 'a', 'n', 'd', 'a', 'l', 'o', 'n', 'e', '=', '"']
           ++ (if sa = 0 then ['n', 'o'] else ['y', 'e', 's']) ++ ['"'])
  ++ ['?', '>', '\n']

theorem emitDecl_eq (v : Str) (enc : Option Str) (sa : Int) :
    emitDecl v enc sa = ['<', '?', 'x', 'm', 'l'] ++ declTail v enc sa := by
  cases enc <;> simp [emitDecl, declTail]

theorem quote_not_mem_version {v : Str} (h : validVersion v = true) : '"' ∉ v := by
  intro hm
  unfold validVersion at h
  simp only [Bool.and_eq_true, List.all_eq_true] at h
  have := h.2 '"' hm
  revert this; decide

theorem quote_not_mem_encname {e : Str} (h : validEncName e = true) : '"' ∉ e ∧ e ≠ [] := by
  unfold validEncName at h
  cases e with
  | nil => simp at h
  | cons c cs =>
    simp only [Bool.and_eq_true, List.all_eq_true] at h
    refine ⟨?_, by simp⟩
    intro hm
    rcases List.mem_cons.mp hm with rfl | hm
    · have := h.1; revert this; decide
    · have := h.2 '"' hm; revert this; decide

/-- the standalone part of the declaration -/
def saPart (sa : Int) : Str :=
  if sa = -1 then []
  else [' ', 's', 't', 'a', 'n', 'd', 'a', 'l', 'o', 'n', 'e', '=', '"']
       ++ (if sa = 0 then ['n', 'o'] else ['y', 'e', 's']) ++ ['"']

def encPart (enc : Option Str) : Str :=
  match enc with
  | some e => if e.isEmpty then [] else [' ', 'e', 'n', 'c', 'o', 'd', 'i', 'n', 'g', '=', '"'] ++ e ++ ['"']
  | none => []

theorem declTail_eq (v : Str) (enc : Option Str) (sa : Int) :
    declTail v enc sa = [' ', 'v', 'e', 'r', 's', 'i', 'o', 'n', '=', '"'] ++ v ++ ['"'] ++ encPart enc ++ saPart sa
      ++ ['?', '>', '\n'] := rfl

theorem sa_none (r : Str) :
    takePseudo ['s', 't', 'a', 'n', 'd', 'a', 'l', 'o', 'n', 'e'] (saPart (-1) ++ '?' :: '>' :: r) = none := by
  simp only [saPart, if_true, List.nil_append]
  exact takePseudo_miss_nospace _ '?' _ (by decide)

theorem sa_no (r : Str) :
    takePseudo ['s', 't', 'a', 'n', 'd', 'a', 'l', 'o', 'n', 'e'] (saPart 0 ++ '?' :: '>' :: r) =
      some (['n', 'o'], '?' :: '>' :: r) := by
  have := takePseudo_hit ['s', 't', 'a', 'n', 'd', 'a', 'l', 'o', 'n', 'e'] ['n', 'o'] ('?' :: '>' :: r)
    ⟨'s', _, rfl, by decide⟩ (by decide)
  have e : saPart 0 ++ '?' :: '>' :: r = ' ' :: (['s', 't', 'a', 'n', 'd', 'a', 'l', 'o', 'n', 'e'] ++ '=' :: '"' ::
      (['n', 'o'] ++ '"' :: '?' :: '>' :: r)) := by simp [saPart]
  rw [e, this]

theorem sa_yes (r : Str) :
    takePseudo ['s', 't', 'a', 'n', 'd', 'a', 'l', 'o', 'n', 'e'] (saPart 1 ++ '?' :: '>' :: r) =
      some (['y', 'e', 's'], '?' :: '>' :: r) := by
  have := takePseudo_hit ['s', 't', 'a', 'n', 'd', 'a', 'l', 'o', 'n', 'e'] ['y', 'e', 's'] ('?' :: '>' :: r)
    ⟨'s', _, rfl, by decide⟩ (by decide)
  have e : saPart 1 ++ '?' :: '>' :: r = ' ' :: (['s', 't', 'a', 'n', 'd', 'a', 'l', 'o', 'n', 'e'] ++ '=' :: '"' ::
      (['y', 'e', 's'] ++ '"' :: '?' :: '>' :: r)) := by simp [saPart]
  rw [e, this]

theorem enc_miss (sa : Int) (hs : (sa = -1 ∨ sa = 0) ∨ sa = 1) (r : Str) :
    takePseudo ['e', 'n', 'c', 'o', 'd', 'i', 'n', 'g'] (saPart sa ++ '?' :: '>' :: r) = none := by
  rcases hs with (rfl | rfl) | rfl
  · simp only [saPart, if_true, List.nil_append]
    exact takePseudo_miss_nospace _ '?' _ (by decide)
  · have e : saPart 0 ++ '?' :: '>' :: r = ' ' :: ('s' :: (['t', 'a', 'n', 'd', 'a', 'l', 'o', 'n', 'e', '=', '"', 'n', 'o', '"'] ++ '?' :: '>' :: r)) := by
      simp [saPart]
    rw [e]
    apply takePseudo_miss
    rw [dropSpaces_of_head (c := 's') (by decide)]
    simp [stripPrefix, List.isPrefixOf]
  · have e : saPart 1 ++ '?' :: '>' :: r = ' ' :: ('s' :: (['t', 'a', 'n', 'd', 'a', 'l', 'o', 'n', 'e', '=', '"', 'y', 'e', 's', '"'] ++ '?' :: '>' :: r)) := by
      simp [saPart]
    rw [e]
    apply takePseudo_miss
    rw [dropSpaces_of_head (c := 's') (by decide)]
    simp [stripPrefix, List.isPrefixOf]

theorem takeDecl_emit (v : Str) (enc : Option Str) (sa : Int) (h : declOK v enc sa = true) (rest : Str) :
    takeDecl (declTail v enc sa ++ rest) = some (FEv.other (.xmlDecl v enc sa), '\n' :: rest) := by
  unfold declOK at h
  simp only [Bool.and_eq_true, Bool.or_eq_true, decide_eq_true_eq] at h
  obtain ⟨⟨hv, he⟩, hsa⟩ := h
  have hvq := quote_not_mem_version hv
  have e0 : declTail v enc sa ++ rest =
      ' ' :: (['v', 'e', 'r', 's', 'i', 'o', 'n'] ++ '=' :: '"' :: (v ++ '"' ::
        (encPart enc ++ (saPart sa ++ '?' :: '>' :: '\n' :: rest)))) := by
    rw [declTail_eq]; simp
  rw [e0]
  unfold takeDecl
  rw [takePseudo_hit ['v', 'e', 'r', 's', 'i', 'o', 'n'] v _ ⟨'v', _, rfl, by decide⟩ hvq]
  simp only [hv, Bool.not_true, Bool.false_eq_true, if_false]
  cases enc with
  | none =>
    simp only [encPart, List.nil_append, enc_miss sa hsa, Option.map_none, Option.getD_none, Bool.not_true,
      Bool.false_eq_true, if_false]
    rcases hsa with (rfl | rfl) | rfl
    · simp only [sa_none]
      have e : saPart (-1) = [] := by simp [saPart]
      simp only [e, List.nil_append]
      rw [dropSpaces_of_head (c := '?') (by decide)]
      rfl
    · simp only [sa_no]; rw [dropSpaces_of_head (c := '?') (by decide)]; rfl
    · simp only [sa_yes]; rw [dropSpaces_of_head (c := '?') (by decide)]; rfl
  | some e =>
    simp only at he
    obtain ⟨heq, hne⟩ := quote_not_mem_encname he
    have hee : e.isEmpty = false := by simpa using hne
    have e1 : encPart (some e) ++ (saPart sa ++ '?' :: '>' :: '\n' :: rest) =
        ' ' :: (['e', 'n', 'c', 'o', 'd', 'i', 'n', 'g'] ++ '=' :: '"' :: (e ++ '"' :: (saPart sa ++ '?' :: '>' :: '\n' :: rest))) := by
      simp [encPart, hee]
    have hit := takePseudo_hit ['e', 'n', 'c', 'o', 'd', 'i', 'n', 'g'] e
      (saPart sa ++ '?' :: '>' :: '\n' :: rest) ⟨'e', _, rfl, by decide⟩ heq
    simp only [e1, hit, Option.map_some, Option.getD_some, he, Bool.not_true, Bool.false_eq_true, if_false]
    rcases hsa with (rfl | rfl) | rfl
    · simp only [sa_none]
      have e : saPart (-1) = [] := by simp [saPart]
      simp only [e, List.nil_append]
      rw [dropSpaces_of_head (c := '?') (by decide)]
      rfl
    · simp only [sa_no]; rw [dropSpaces_of_head (c := '?') (by decide)]; rfl
    · simp only [sa_yes]; rw [dropSpaces_of_head (c := '?') (by decide)]; rfl

end Genshi.Xml

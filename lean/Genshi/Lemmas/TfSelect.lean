/-
  `SelectTransformation` on a well-nested stream: whatever the path test
  answers, the marking it produces is `Good` (ENTER … EXIT brackets exactly one
  balanced subtree) and the generator does not run off the end of the stream.
-/
import Genshi.Lemmas.TfGood
namespace Genshi.Tf

theorem unmark_map_mark (f : MItem → Option Mark) (s : MStream) :
    unmark (s.map fun p => (f p, p.2)) = unmark s := by
  induction s with
  | nil => rfl
  | cons p s ih =>
    obtain ⟨m, x⟩ := p
    cases x <;> simp [unmark, ih]

theorem balance_tail {st : List QName} {p : MItem} {s : MStream} {r : List QName}
    (h : balance st (unmark (p :: s)) = some r) : ∃ st', balance st' (unmark s) = some r := by
  obtain ⟨m, x⟩ := p
  cases x with
  | attr t a => exact ⟨st, by simpa [unmark] using h⟩
  | brk => exact ⟨st, by simpa [unmark] using h⟩
  | ev e =>
    simp only [unmark] at h
    cases e with
    | start t a => exact ⟨t :: st, by simpa [balance] using h⟩
    | end_ t =>
      cases st with
      | nil => simp [balance] at h
      | cons t' st =>
        by_cases ht : t = t'
        · exact ⟨st, by simpa [balance, ht] using h⟩
        · simp [balance, ht] at h
    | _ => exact ⟨st, by rw [balance_skip _ (by rfl)] at h; exact h⟩

/-- inside a matched element: the generator runs exactly to the END that closes it -/
theorem select_sub (rs : List Res) : ∀ (s : MStream) (inner : List QName) (t0 : QName) (outer : List QName),
    balance (inner ++ t0 :: outer) (unmark s) = some [] →
    ∃ mid m rest, s = mid ++ (m, .ev (.end_ t0)) :: rest ∧
      selectGo (inner.length + 1) rs s =
        mid.map (fun p => (some Mark.inside, p.2)) ++ (some .exit, .ev (.end_ t0)) :: selectGo 0 rs rest ∧
      selectFin (inner.length + 1) rs s = selectFin 0 rs rest ∧
      selOk (inner.length + 1) rs s = selOk 0 rs rest ∧
      balance inner (unmark mid) = some [] ∧ balance outer (unmark rest) = some [] := by
  intro s
  induction s with
  | nil =>
    intro inner t0 outer h
    simp [unmark, balance] at h
  | cons p s ih =>
    intro inner t0 outer h
    obtain ⟨m, x⟩ := p
    -- events that do not touch the stack
    have hskip : ∀ (hs : x.isStart = false) (he : x.isEnd = false),
        balance (inner ++ t0 :: outer) (unmark s) = some [] →
        (∀ st (l : MStream), balance st (unmark ((m, x) :: l)) = balance st (unmark l)) →
        ∃ mid m' rest, (m, x) :: s = mid ++ (m', .ev (.end_ t0)) :: rest ∧
          selectGo (inner.length + 1) rs ((m, x) :: s) =
            mid.map (fun p => (some Mark.inside, p.2)) ++ (some .exit, .ev (.end_ t0)) :: selectGo 0 rs rest ∧
          selectFin (inner.length + 1) rs ((m, x) :: s) = selectFin 0 rs rest ∧
          selOk (inner.length + 1) rs ((m, x) :: s) = selOk 0 rs rest ∧
          balance inner (unmark mid) = some [] ∧ balance outer (unmark rest) = some [] := by
      intro hs he h' hb
      obtain ⟨mid, m', rest, e1, e2, e3, e4, e5, e6⟩ := ih inner t0 outer h'
      refine ⟨(m, x) :: mid, m', rest, by simp [e1], ?_, ?_, ?_, ?_, e6⟩
      · simp [selectGo, subDepth, hs, he, e2]
      · simp [selectFin, subDepth, hs, he, e3]
      · simp [selOk, subDepth, hs, he, e4]
      · rw [hb inner mid]; exact e5
    cases x with
    | attr t a => exact hskip rfl rfl (by simpa [unmark] using h) (fun st l => by simp [unmark])
    | brk => exact hskip rfl rfl (by simpa [unmark] using h) (fun st l => by simp [unmark])
    | ev e =>
      cases e with
      | start t a =>
        have h' : balance ((t :: inner) ++ t0 :: outer) (unmark s) = some [] := by
          simpa [unmark, balance] using h
        obtain ⟨mid, m', rest, e1, e2, e3, e4, e5, e6⟩ := ih (t :: inner) t0 outer h'
        refine ⟨(m, .ev (.start t a)) :: mid, m', rest, by simp [e1], ?_, ?_, ?_, ?_, e6⟩
        · simp only [List.length_cons] at e2
          simp [selectGo, subDepth, MEv.isStart, e2]
        · simp only [List.length_cons] at e3
          simp [selectFin, subDepth, MEv.isStart, e3]
        · simp only [List.length_cons] at e4
          simp [selOk, subDepth, MEv.isStart, e4]
        · simpa [unmark, balance] using e5
      | end_ t =>
        cases inner with
        | nil =>
          simp only [unmark, List.nil_append, balance] at h
          by_cases ht : t = t0
          · subst ht
            simp only [↓reduceIte] at h
            refine ⟨[], m, s, by simp, ?_, ?_, ?_, by simp [unmark, balance], h⟩
            · simp [selectGo, subDepth, MEv.isStart, MEv.isEnd]
            · simp [selectFin, subDepth, MEv.isStart, MEv.isEnd]
            · simp [selOk, subDepth, MEv.isStart, MEv.isEnd]
          · simp [ht] at h
        | cons t' inner' =>
          simp only [unmark, List.cons_append, balance] at h
          by_cases ht : t = t'
          · subst ht
            simp only [↓reduceIte] at h
            obtain ⟨mid, m', rest, e1, e2, e3, e4, e5, e6⟩ := ih inner' t0 outer h
            refine ⟨(m, .ev (.end_ t)) :: mid, m', rest, by simp [e1], ?_, ?_, ?_, ?_, e6⟩
            · simp [selectGo, subDepth, MEv.isStart, MEv.isEnd, e2]
            · simp [selectFin, subDepth, MEv.isStart, MEv.isEnd, e3]
            · simp [selOk, subDepth, MEv.isStart, MEv.isEnd, e4]
            · simpa [unmark, balance] using e5
          · simp [ht] at h
      | text t f => exact hskip rfl rfl (by rw [unmark, balance_skip _ (by rfl)] at h; exact h) (fun st l => by rw [unmark, balance_skip _ (by rfl)])
      | comment t => exact hskip rfl rfl (by rw [unmark, balance_skip _ (by rfl)] at h; exact h) (fun st l => by rw [unmark, balance_skip _ (by rfl)])
      | pi t d => exact hskip rfl rfl (by rw [unmark, balance_skip _ (by rfl)] at h; exact h) (fun st l => by rw [unmark, balance_skip _ (by rfl)])
      | doctype n p s' => exact hskip rfl rfl (by rw [unmark, balance_skip _ (by rfl)] at h; exact h) (fun st l => by rw [unmark, balance_skip _ (by rfl)])
      | xmlDecl v e s' => exact hskip rfl rfl (by rw [unmark, balance_skip _ (by rfl)] at h; exact h) (fun st l => by rw [unmark, balance_skip _ (by rfl)])
      | startNs p u => exact hskip rfl rfl (by rw [unmark, balance_skip _ (by rfl)] at h; exact h) (fun st l => by rw [unmark, balance_skip _ (by rfl)])
      | endNs p => exact hskip rfl rfl (by rw [unmark, balance_skip _ (by rfl)] at h; exact h) (fun st l => by rw [unmark, balance_skip _ (by rfl)])
      | startCdata => exact hskip rfl rfl (by rw [unmark, balance_skip _ (by rfl)] at h; exact h) (fun st l => by rw [unmark, balance_skip _ (by rfl)])
      | endCdata => exact hskip rfl rfl (by rw [unmark, balance_skip _ (by rfl)] at h; exact h) (fun st l => by rw [unmark, balance_skip _ (by rfl)])


theorem bal_single_nonSE {x : MEv} (hs : x.isStart = false) (he : x.isEnd = false) (m : Option Mark) :
    Bal (unmark [(m, x)]) := by
  cases x with
  | attr t a => rfl
  | brk => rfl
  | ev e =>
    cases e <;> first
      | (simp [MEv.isStart] at hs; done)
      | (simp [MEv.isEnd] at he; done)
      | rfl

theorem Good.single {m : Mark} {x : MEv} {s : MStream} (hne : m ≠ .enter) (hnx : m ≠ .exit)
    (hs : x.isStart = false) (he : x.isEnd = false) (h : Good s) : Good ((some m, x) :: s) := by
  have := Good.block m [(some m, x)] hne hnx (by intro p hp; simp at hp; simp [hp])
    (bal_single_nonSE hs he (some m)) h
  simpa using this

theorem Flat.ofInside (mid : MStream) (h : Bal (unmark mid)) :
    Flat (mid.map fun p => (some Mark.inside, p.2)) := by
  have := Flat.block .inside (mid.map fun p => (some Mark.inside, p.2)) (by decide) (by decide)
    (by intro p hp; simp at hp; obtain ⟨_, _, _, rfl⟩ := hp; rfl)
    (by rw [unmark_map_mark (fun _ => some Mark.inside)]; exact h) Flat.nil
  simpa using this

/-- `select_marks_wf`: on a well-nested stream (here: any suffix that closes the open stack)
    the marking produced from any admissible per-event match results is `Good`, and the
    generator ends in its outer loop -/
theorem select_good_aux : ∀ (n : Nat) (s : MStream) (rs : List Res) (outer : List QName),
    s.length ≤ n → balance outer (unmark s) = some [] → selOk 0 rs s = true →
    Good (selectGo 0 rs s) ∧ selectFin 0 rs s = 0 := by
  intro n
  induction n with
  | zero =>
    intro s rs outer hl _ _
    have : s = [] := List.length_eq_zero_iff.mp (Nat.le_zero.mp hl)
    subst this
    exact ⟨by simpa [selectGo] using Good.nil, by simp [selectFin]⟩
  | succ n ih =>
    intro s rs outer hl hb hok
    cases s with
    | nil => exact ⟨by simpa [selectGo] using Good.nil, by simp [selectFin]⟩
    | cons p s =>
      obtain ⟨m, x⟩ := p
      have hl' : s.length ≤ n := by simpa using hl
      obtain ⟨st', hb'⟩ := balance_tail hb
      cases m with
      | none =>
        simp only [selOk] at hok
        obtain ⟨g, f⟩ := ih s rs st' hl' hb' hok
        exact ⟨by simpa [selectGo] using Good.plain x g, by simpa [selectFin] using f⟩
      | some m =>
        simp only [selOk] at hok
        cases hr : rs.headD .none with
        | none =>
          simp only [hr] at hok
          obtain ⟨g, f⟩ := ih s rs.tail st' hl' hb' hok
          refine ⟨?_, ?_⟩
          · simp only [selectGo, hr]; exact Good.plain x g
          · simp only [selectFin, hr]; exact f
        | attrs a =>
          simp only [hr] at hok
          obtain ⟨g, f⟩ := ih s rs.tail st' hl' hb' hok
          refine ⟨?_, ?_⟩
          · simp only [selectGo, hr]
            exact Good.single (by decide) (by decide) rfl rfl (Good.plain x g)
          · simp only [selectFin, hr]; exact f
        | self =>
          simp only [hr, Bool.and_eq_true, Bool.not_eq_true'] at hok
          obtain ⟨g, f⟩ := ih s rs.tail st' hl' hb' hok.2
          refine ⟨?_, ?_⟩
          · simp only [selectGo, hr]
            exact Good.single (by decide) (by decide) hok.1.1 hok.1.2 g
          · simp only [selectFin, hr]; exact f
        | event e => simp only [hr] at hok; exact absurd hok (by decide)
        | text t => simp only [hr] at hok; exact absurd hok (by decide)
        | hit =>
          simp only [hr, Bool.and_eq_true, Bool.not_eq_true'] at hok
          by_cases hx : x.isStart = true
          · simp only [hx, ↓reduceIte] at hok
            -- x is a START event: the bracket lemma applies with an empty inner stack
            cases x with
            | attr t a => simp [MEv.isStart] at hx
            | brk => simp [MEv.isStart] at hx
            | ev e =>
              cases e with
              | start t a =>
                have hb2 : balance ([] ++ t :: outer) (unmark s) = some [] := by
                  simpa [unmark, balance] using hb
                obtain ⟨mid, m', rest, e1, e2, e3, e4, e5, e6⟩ := select_sub rs.tail s [] t outer hb2
                have hlr : rest.length ≤ n := by
                  have : s.length = mid.length + (rest.length + 1) := by rw [e1]; simp
                  omega
                simp only [List.length_nil, Nat.zero_add] at e2 e3 e4
                rw [e4] at hok
                obtain ⟨g, f⟩ := ih rest rs.tail outer hlr e6 hok.2
                refine ⟨?_, ?_⟩
                · simp only [selectGo, hr, MEv.isStart, ↓reduceIte, e2]
                  exact Good.elem t a _ (Flat.ofInside mid e5)
                    (by rw [unmark_map_mark (fun _ => some Mark.inside)]; exact e5) g
                · simp only [selectFin, hr, MEv.isStart, ↓reduceIte, e3]; exact f
              | _ => simp [MEv.isStart] at hx
          · have hx' : x.isStart = false := by simpa using hx
            simp only [hx', Bool.false_eq_true, ↓reduceIte] at hok
            obtain ⟨g, f⟩ := ih s rs.tail st' hl' hb' hok.2
            refine ⟨?_, ?_⟩
            · simp only [selectGo, hr, hx', Bool.false_eq_true, ↓reduceIte]
              exact Good.single (by decide) (by decide) hx' hok.1 g
            · simp only [selectFin, hr, hx', Bool.false_eq_true, ↓reduceIte]; exact f

theorem select_good (rs : List Res) (s : MStream) (hwn : WellNested (unmark s))
    (hok : selOk 0 rs s = true) : Good (selectGo 0 rs s) ∧ selectFin 0 rs s = 0 :=
  select_good_aux s.length s rs [] (Nat.le_refl _) hwn hok

end Genshi.Tf

/-
  C04: the inversion theorem of the text-template reader (new syntax).  A template printed from
  its flat token form (`ttoksNew`, = the printer `nodesNew` of the AST) is read back by the scanner,
  `_escape_re`, `interpolate`/`lex`, the tokenizer and the reader of the mini language to exactly
  the tokens it was printed from.

  Route: the run of text / `${…}` tokens between two directives is one text segment of the scanner
  (`grp`); the printed template is `printNew` of the grouped list (`print_grp`), which is well formed
  (`wf_grp`), so the scanner round trip `scan_print` applies; reading the grouped list gives the
  tokens back (`cook_grp`: `interpolate_seg` for the segments, `tokenize_print` + the parser
  inversions for the sources).
-/
import Genshi.Lemmas.TmplSeg
import Genshi.Lemmas.TmplReadLex
import Genshi.Lemmas.TmplReadToks
import Genshi.Lemmas.TmplPrintChars
import Genshi.Lemmas.TmplText
import Genshi.Lemmas.TmplSim
namespace Genshi.Tmpl.Print
open Genshi.Tmpl.Raw Genshi.Tmpl.Scan
open Genshi.Py.Lex (unmodelled)

/-! ### sources are read back -/

theorem readXExpr_print (st : Bool) (x : XExpr) (h : xexprOk st x = true) :
    readXExpr st (xexprSrc x) = some x := by
  unfold readXExpr xexprSrc
  rw [tokenize_print _ (xexprToks_ok st x h)]
  exact readXToks_print st x h

theorem readDir_print (st : Bool) (d : Dir) (h : dirOk st d = true) :
    readDir st d.name (dirSrc d) = some d := by
  unfold readDir dirSrc
  rw [tokenize_print _ (dirToks_ok st d h)]
  exact readDirToks_print st d h

/-! ### reading cooked tokens -/

/-- `newToks` only looks at what a raw token means -/
def cookToks (st : Bool) : List CTok → Except PErr (List TTok)
  | [] => .ok []
  | .text s :: r => do
      let evs ← interpolate s
      let a ← evToks st evs
      let b ← cookToks st r
      pure (a ++ b)
  | .comment _ :: r => cookToks st r
  | .dir cmd val :: r => do
      let a ← Raw.dirToks st Gen.Directives.newTextDirectives cmd val
      let b ← cookToks st r
      pure (a ++ b)

theorem newToks_cook (st : Bool) : ∀ rs : List RTok, newToks st rs = cookToks st (rs.map cook)
  | [] => rfl
  | .text raw :: r => by simp only [newToks, List.map, cook, cookToks, newToks_cook st r]
  | .comment b :: r => by simp only [newToks, List.map, cook, cookToks, newToks_cook st r]
  | .dir i c v :: r => by simp only [newToks, List.map, cook, cookToks, newToks_cook st r]

/-! ### pieces -/

def isPiece : TTok → Bool
  | .text _ => true
  | .xexpr _ => true
  | _ => false

def pieceOf : TTok → Bool × Str
  | .text s => (false, s)
  | .xexpr x => (true, xexprSrc x)
  | _ => (false, [])

theorem ttoksNew_append : ∀ (a b : List TTok), ttoksNew (a ++ b) = ttoksNew a ++ ttoksNew b
  | [], _ => rfl
  | t :: a, b => by simp [ttoksNew, ttoksNew_append a b]

theorem ttoksNew_pieces : ∀ (pt : List TTok), pt.all isPiece = true → ttoksNew pt = segSrc (pt.map pieceOf)
  | [], _ => rfl
  | .text s :: r, h => by
      simp only [List.all_cons, Bool.and_eq_true] at h
      simp [ttoksNew, ttokNew, pieceOf, segSrc, ttoksNew_pieces r h.2]
  | .xexpr x :: r, h => by
      simp only [List.all_cons, Bool.and_eq_true] at h
      simp [ttoksNew, ttokNew, pieceOf, segSrc, ttoksNew_pieces r h.2]
  | .dir _ :: _, h => by simp [isPiece] at h
  | .end_ :: _, h => by simp [isPiece] at h

/-! ### plain text: no escape needed -/

/-- one step of `plainNew` -/
theorem plain_step (c : Char) (r : Str) (h1 : c ≠ '\\')
    (h2 : c = '{' → r.head? ≠ some '%' ∧ r.head? ≠ some '#') : plainNew (c :: r) = plainNew r := by
  conv => lhs; unfold plainNew
  split
  · rename_i heq; simp at heq
  · rename_i heq; simp at heq; exact absurd heq.1 h1
  · rename_i heq; simp at heq; have := h2 heq.1; simp [heq.2] at this
  · rename_i heq; simp at heq; have := h2 heq.1; simp [heq.2] at this
  · rename_i heq; simp at heq; rw [← heq.2]

/-- a string that is plain whatever follows it -/
def PlainS (s : Str) : Prop := ∀ rest, plainNew (s ++ rest) = plainNew rest

theorem PlainS.nil : PlainS [] := fun _ => rfl

theorem PlainS.append {a b : Str} (ha : PlainS a) (hb : PlainS b) : PlainS (a ++ b) := by
  intro rest
  rw [List.append_assoc, ha, hb]

theorem plainS_text : ∀ (s : Str), s.all textCh = true → PlainS s
  | [], _ => PlainS.nil
  | c :: r, h => by
      simp only [List.all_cons, Bool.and_eq_true] at h
      intro rest
      have hc := h.1
      simp only [textCh, Bool.and_eq_true, bne_iff_ne, ne_eq] at hc
      rw [List.cons_append, plain_step c _ hc.1.1 (fun e => absurd e hc.2)]
      exact plainS_text r h.2 rest

/-- characters of a printed source, in front of something that does not start like a delimiter -/
theorem plain_src : ∀ (s rest : Str), (∀ c ∈ s, c ≠ '\\' ∧ c ≠ '%' ∧ c ≠ '#') →
    rest.head? ≠ some '%' → rest.head? ≠ some '#' → plainNew (s ++ rest) = plainNew rest
  | [], _, _, _, _ => rfl
  | c :: r, rest, h, h1, h2 => by
      have hc := h c (List.mem_cons_self ..)
      have hr : ∀ x ∈ r, x ≠ '\\' ∧ x ≠ '%' ∧ x ≠ '#' := fun x hx => h x (List.mem_cons_of_mem _ hx)
      rw [List.cons_append, plain_step c _ hc.1 ?_]
      · exact plain_src r rest hr h1 h2
      · intro _
        cases r with
        | nil => exact ⟨h1, h2⟩
        | cons d r' =>
          have hd := h d (by simp)
          simp only [List.cons_append, List.head?_cons, ne_eq, Option.some.injEq]
          exact ⟨hd.2.1, hd.2.2⟩

theorem plainS_expr (st : Bool) (x : XExpr) (h : xexprOk st x = true) : PlainS (ttokNew (.xexpr x)) := by
  intro rest
  have hch := xexprSrc_chars st x h
  have hne := xexprSrc_ne_nil st x h
  simp only [ttokNew, List.cons_append, List.append_assoc]
  rw [plain_step '$' _ (by decide) (by intro e; exact absurd e (by decide))]
  rw [plain_step '{' _ (by decide) ?_]
  · rw [plain_src (xexprSrc x) _ hch (by simp) (by simp)]
    simp only [List.cons_append, List.nil_append]
    exact plain_step '}' _ (by decide) (by intro e; exact absurd e (by decide))
  · intro _
    cases hx : xexprSrc x with
    | nil => exact absurd hx hne
    | cons d r' =>
      have hd := hch d (by rw [hx]; simp)
      simp only [List.cons_append, List.head?_cons, ne_eq, Option.some.injEq]
      exact ⟨hd.2.1, hd.2.2⟩

theorem plainS_pieces (st : Bool) : ∀ (pt : List TTok), pt.all isPiece = true → pt.all (ttokOk st) = true →
    PlainS (ttoksNew pt)
  | [], _, _ => PlainS.nil
  | .text s :: r, hp, ho => by
      simp only [List.all_cons, Bool.and_eq_true] at hp ho
      have hs := ho.1
      simp only [ttokOk, textOk, Bool.and_eq_true] at hs
      exact PlainS.append (plainS_text s hs.2) (plainS_pieces st r hp.2 ho.2)
  | .xexpr x :: r, hp, ho => by
      simp only [List.all_cons, Bool.and_eq_true] at hp ho
      exact PlainS.append (plainS_expr st x ho.1) (plainS_pieces st r hp.2 ho.2)
  | .dir _ :: _, h, _ => by simp [isPiece] at h
  | .end_ :: _, h, _ => by simp [isPiece] at h

theorem escape_pieces (st : Bool) (pt : List TTok) (hp : pt.all isPiece = true) (ho : pt.all (ttokOk st) = true) :
    escapeNew (ttoksNew pt) = ttoksNew pt := by
  apply escape_plain
  have := plainS_pieces st pt hp ho []
  simpa [plainNew] using this

/-- no backslash in a run of pieces -/
theorem pieces_noBs (st : Bool) : ∀ (pt : List TTok), pt.all isPiece = true → pt.all (ttokOk st) = true →
    ∀ c ∈ ttoksNew pt, c ≠ '\\'
  | [], _, _ => by simp [ttoksNew]
  | .text s :: r, hp, ho => by
      simp only [List.all_cons, Bool.and_eq_true] at hp ho
      have hs := ho.1
      simp only [ttokOk, textOk, Bool.and_eq_true, List.all_eq_true] at hs
      intro c hc
      simp only [ttoksNew, ttokNew, List.mem_append] at hc
      rcases hc with hc | hc
      · have := hs.2 c hc
        simp only [textCh, Bool.and_eq_true, bne_iff_ne, ne_eq] at this
        exact this.1.1
      · exact pieces_noBs st r hp.2 ho.2 c hc
  | .xexpr x :: r, hp, ho => by
      simp only [List.all_cons, Bool.and_eq_true] at hp ho
      intro c hc
      simp only [ttoksNew, ttokNew, List.mem_append, List.mem_cons, List.mem_singleton, List.not_mem_nil, or_false] at hc
      rcases hc with (rfl | rfl | hc | rfl) | hc
      · decide
      · decide
      · exact (xexprSrc_chars st x ho.1 c hc).1
      · decide
      · exact pieces_noBs st r hp.2 ho.2 c hc
  | .dir _ :: _, h, _ => by simp [isPiece] at h
  | .end_ :: _, h, _ => by simp [isPiece] at h

theorem pieces_ne_nil (st : Bool) : ∀ (pt : List TTok), pt ≠ [] → pt.all isPiece = true → pt.all (ttokOk st) = true →
    ttoksNew pt ≠ []
  | [], h, _, _ => absurd rfl h
  | .text s :: r, _, _, ho => by
      simp only [List.all_cons, Bool.and_eq_true] at ho
      have hs := ho.1
      simp only [ttokOk, textOk, Bool.and_eq_true, Bool.not_eq_true', List.isEmpty_eq_false_iff] at hs
      simp [ttoksNew, ttokNew, hs.1]
  | .xexpr x :: r, _, _, _ => by simp [ttoksNew, ttokNew]
  | .dir _ :: _, _, h, _ => by simp [isPiece] at h
  | .end_ :: _, _, h, _ => by simp [isPiece] at h

/-! ### grouping the tokens into the segments of the scanner -/

def flushT (pt : List TTok) : List CTok := if pt.isEmpty then [] else [.text (ttoksNew pt)]

/-- `pt`: the pending run of text / `${…}` tokens -/
def grp : List TTok → List TTok → List CTok
  | pt, [] => flushT pt
  | pt, .text s :: r => grp (pt ++ [TTok.text s]) r
  | pt, .xexpr x :: r => grp (pt ++ [TTok.xexpr x]) r
  | pt, .dir d :: r => flushT pt ++ .dir d.name (dirSrc d) :: grp [] r
  | pt, .end_ :: r => flushT pt ++ .dir kwEnd [] :: grp [] r

theorem printNew_append : ∀ (a b : List CTok), printNew (a ++ b) = printNew a ++ printNew b
  | [], _ => rfl
  | t :: a, b => by simp [printNew, printNew_append a b]

theorem print_flushT (st : Bool) (pt : List TTok) (hp : pt.all isPiece = true) (ho : pt.all (ttokOk st) = true) :
    printNew (flushT pt) = ttoksNew pt := by
  cases pt with
  | nil => rfl
  | cons t r =>
    simp only [flushT, List.isEmpty_cons, Bool.false_eq_true, if_false, printNew, printNewTok, List.append_nil]
    exact escape_pieces st (t :: r) hp ho

theorem all_snoc {α} (p : α → Bool) (l : List α) (a : α) : (l ++ [a]).all p = (l.all p && p a) := by
  simp [List.all_append]

/-- the printed template is the grouped token list printed with the documented escapes -/
theorem print_grp (st : Bool) : ∀ (ts pt : List TTok), pt.all isPiece = true → (pt ++ ts).all (ttokOk st) = true →
    printNew (grp pt ts) = ttoksNew pt ++ ttoksNew ts
  | [], pt, hp, ho => by
      simp only [List.append_nil] at ho
      simp [grp, print_flushT st pt hp ho, ttoksNew]
  | .text s :: r, pt, hp, ho => by
      have ho' : ((pt ++ [TTok.text s]) ++ r).all (ttokOk st) = true := by simpa using ho
      rw [grp, print_grp st r (pt ++ [TTok.text s]) (by simp [all_snoc, hp, isPiece]) ho']
      simp [ttoksNew_append, ttoksNew]
  | .xexpr x :: r, pt, hp, ho => by
      have ho' : ((pt ++ [TTok.xexpr x]) ++ r).all (ttokOk st) = true := by simpa using ho
      rw [grp, print_grp st r (pt ++ [TTok.xexpr x]) (by simp [all_snoc, hp, isPiece]) ho']
      simp [ttoksNew_append, ttoksNew]
  | .dir d :: r, pt, hp, ho => by
      simp only [List.all_append, List.all_cons, Bool.and_eq_true] at ho
      rw [grp, printNew_append, print_flushT st pt hp ho.1, printNew,
        print_grp st r [] rfl (by simpa using ho.2.2)]
      simp [ttoksNew, ttokNew]
  | .end_ :: r, pt, hp, ho => by
      simp only [List.all_append, List.all_cons, Bool.and_eq_true] at ho
      rw [grp, printNew_append, print_flushT st pt hp ho.1, printNew,
        print_grp st r [] rfl (by simpa using ho.2.2)]
      simp [ttoksNew, ttokNew]

/-! ### the grouped list is well formed -/

theorem find2_free (a b : Char) : ∀ (s : Str), (∀ c ∈ s, c ≠ a) → find2 a b s = none
  | [], _ => rfl
  | c :: r, h => by
      have hc := h c (List.mem_cons_self ..)
      have ih := find2_free a b r (fun x hx => h x (List.mem_cons_of_mem _ hx))
      simp [find2, hc, ih]

theorem name_word (d : Dir) : ∀ c ∈ d.name, Genshi.San.isReWord c = true := by
  cases d <;> simp only [Dir.name, List.mem_cons, List.not_mem_nil, or_false] <;> intro c hc <;>
    rcases hc with rfl | hc <;> first | (decide +kernel) | skip
  all_goals (repeat (rcases hc with rfl | hc <;> first | (decide +kernel) | skip))
  all_goals first | (subst hc; decide +kernel) | skip

theorem okDir_dir (st : Bool) (d : Dir) (h : dirOk st d = true) : OkDir d.name (dirSrc d) where
  cmd_ne := by cases d <;> simp [Dir.name]
  cmd_word := name_word d
  val_free := find2_free '%' '}' _ (fun c hc => (dirSrc_chars st d h c hc).2.1)
  val_head := dirSrc_head st d h
  val_last := dirSrc_last st d h

theorem okDir_end : OkDir kwEnd [] where
  cmd_ne := by simp [kwEnd]
  cmd_word := by
    intro c hc
    simp only [kwEnd, List.mem_cons, List.not_mem_nil, or_false] at hc
    rcases hc with rfl | rfl | rfl <;> decide +kernel
  val_free := rfl
  val_head := by intro c hc; simp at hc
  val_last := by intro c hc; simp at hc

theorem lastCh_noBs : ∀ (s : Str) (p : Char), (∀ c ∈ s, c ≠ '\\') → p ≠ '\\' → lastCh p s ≠ '\\'
  | [], _, _, hp => hp
  | c :: r, _, h, _ => lastCh_noBs r c (fun x hx => h x (List.mem_cons_of_mem _ hx)) (h c (List.mem_cons_self ..))

/-- a flushed run in front of a directive token -/
theorem wf_flush_dir (st : Bool) (pt : List TTok) (hp : pt.all isPiece = true) (ho : pt.all (ttokOk st) = true)
    (cmd val : Str) (X : List CTok) (hd : OkDir cmd val) (hX : WF X) : WF (flushT pt ++ .dir cmd val :: X) := by
  have hdX : WF (CTok.dir cmd val :: X) := ⟨hd, hX, fun s e => by cases e⟩
  cases pt with
  | nil => exact hdX
  | cons t r =>
    simp only [flushT, List.isEmpty_cons, Bool.false_eq_true, if_false, List.singleton_append]
    refine ⟨pieces_ne_nil st _ (by simp) hp ho, hdX, ?_⟩
    intro s e u hu
    cases e
    simp only [List.head?_cons, Option.some.injEq] at hu
    subst hu
    exact ⟨rfl, lastCh_noBs _ _ (pieces_noBs st _ hp ho) (by decide)⟩

theorem wf_grp (st : Bool) : ∀ (ts pt : List TTok), pt.all isPiece = true → (pt ++ ts).all (ttokOk st) = true →
    WF (grp pt ts)
  | [], pt, hp, ho => by
      simp only [List.append_nil] at ho
      cases pt with
      | nil => exact trivial
      | cons t r =>
        simp only [grp, flushT, List.isEmpty_cons, Bool.false_eq_true, if_false]
        exact ⟨pieces_ne_nil st _ (by simp) hp ho, trivial, fun s _ u hu => by simp at hu⟩
  | .text s :: r, pt, hp, ho => by
      rw [grp]
      exact wf_grp st r (pt ++ [TTok.text s]) (by simp [all_snoc, hp, isPiece]) (by simpa using ho)
  | .xexpr x :: r, pt, hp, ho => by
      rw [grp]
      exact wf_grp st r (pt ++ [TTok.xexpr x]) (by simp [all_snoc, hp, isPiece]) (by simpa using ho)
  | .dir d :: r, pt, hp, ho => by
      simp only [List.all_append, List.all_cons, Bool.and_eq_true] at ho
      rw [grp]
      exact wf_flush_dir st pt hp ho.1 _ _ _ (okDir_dir st d ho.2.1) (wf_grp st r [] rfl (by simpa using ho.2.2))
  | .end_ :: r, pt, hp, ho => by
      simp only [List.all_append, List.all_cons, Bool.and_eq_true] at ho
      rw [grp]
      exact wf_flush_dir st pt hp ho.1 _ _ _ okDir_end (wf_grp st r [] rfl (by simpa using ho.2.2))

/-! ### reading the grouped list gives the tokens back -/

theorem noAdj_append_left : ∀ (a b : List TTok), noAdjText (a ++ b) = true → noAdjText a = true
  | [], _, _ => rfl
  | [t], b, h => by simp [noAdjText]
  | t :: u :: a, b, h => by
      rw [List.cons_append, List.cons_append, noAdjText] at h
      rw [noAdjText]
      simp only [Bool.and_eq_true] at h ⊢
      exact ⟨h.1, noAdj_append_left (u :: a) b h.2⟩

theorem noAdj_append_right : ∀ (a b : List TTok), noAdjText (a ++ b) = true → noAdjText b = true
  | [], _, h => h
  | t :: a, b, h => by
      simp only [List.cons_append, noAdjText, Bool.and_eq_true] at h
      exact noAdj_append_right a b h.2

theorem segOK_pieces (st : Bool) : ∀ (pt : List TTok), pt.all isPiece = true → pt.all (ttokOk st) = true →
    noAdjText pt = true → SegOK (pt.map pieceOf)
  | [], _, _, _ => trivial
  | .text s :: r, hp, ho, hn => by
      simp only [List.all_cons, Bool.and_eq_true] at hp ho
      have hs := ho.1
      simp only [ttokOk, textOk, Bool.and_eq_true, Bool.not_eq_true', List.isEmpty_eq_false_iff, List.all_eq_true] at hs
      simp only [noAdjText, Bool.and_eq_true, Bool.not_eq_true', isTextTok, Bool.true_and] at hn
      refine ⟨hs.1, ?_, ?_, segOK_pieces st r hp.2 ho.2 hn.2⟩
      · intro c hc
        have := hs.2 c hc
        simp only [textCh, Bool.and_eq_true, bne_iff_ne, ne_eq] at this
        exact this.1.2
      · intro p hpp
        cases r with
        | nil => simp at hpp
        | cons u r' =>
          simp only [List.map_cons, List.head?_cons, Option.some.injEq] at hpp
          subst hpp
          have hu := hp.2
          simp only [List.all_cons, Bool.and_eq_true] at hu
          cases u with
          | text _ => simp [isTextTok] at hn
          | xexpr _ => rfl
          | dir _ => simp [isPiece] at hu
          | end_ => simp [isPiece] at hu
  | .xexpr x :: r, hp, ho, hn => by
      simp only [List.all_cons, Bool.and_eq_true] at hp ho
      simp only [noAdjText, Bool.and_eq_true] at hn
      exact ⟨xexprSrc_scannable st x ho.1, xexprSrc_ne_nil st x ho.1, xexprSrc_strip st x ho.1,
        segOK_pieces st r hp.2 ho.2 hn.2⟩
  | .dir _ :: _, h, _, _ => by simp [isPiece] at h
  | .end_ :: _, h, _, _ => by simp [isPiece] at h

theorem evToks_pieces (st : Bool) : ∀ (pt : List TTok), pt.all isPiece = true → pt.all (ttokOk st) = true →
    evToks st ((pt.map pieceOf).map pieceEv) = .ok pt
  | [], _, _ => rfl
  | .text s :: r, hp, ho => by
      simp only [List.all_cons, Bool.and_eq_true] at hp ho
      simp only [List.map_cons, pieceOf, pieceEv, evToks, evToks_pieces st r hp.2 ho.2]
      rfl
  | .xexpr x :: r, hp, ho => by
      simp only [List.all_cons, Bool.and_eq_true] at hp ho
      simp only [List.map_cons, pieceOf, pieceEv, evToks, readXExpr_print st x ho.1, evToks_pieces st r hp.2 ho.2]
      rfl
  | .dir _ :: _, h, _ => by simp [isPiece] at h
  | .end_ :: _, h, _ => by simp [isPiece] at h

/-- a flushed run reads as its tokens -/
theorem cook_flush (st : Bool) (pt : List TTok) (hp : pt.all isPiece = true) (ho : pt.all (ttokOk st) = true)
    (hn : noAdjText pt = true) (hm : unmodelled (ttoksNew pt) = false) (X : List CTok) (res : List TTok)
    (hX : cookToks st X = .ok res) : cookToks st (flushT pt ++ X) = .ok (pt ++ res) := by
  cases pt with
  | nil => simpa [flushT] using hX
  | cons t r =>
    simp only [flushT, List.isEmpty_cons, Bool.false_eq_true, if_false, List.singleton_append, cookToks]
    rw [ttoksNew_pieces _ hp] at hm ⊢
    rw [interpolate_seg _ (segOK_pieces st _ hp ho hn) hm]
    simp only [bind, Except.bind]
    rw [evToks_pieces st _ hp ho, hX]
    rfl

theorem dirToks_dir (st : Bool) (d : Dir) (h : dirOk st d = true) :
    Raw.dirToks st Gen.Directives.newTextDirectives d.name (dirSrc d) = .ok [.dir d] := by
  have hr := readDir_print st d h
  cases d <;> first
    | (simp [dirOk] at h; done)
    | (simp only [Raw.dirToks, Dir.name] at hr ⊢; rw [hr]; rfl)

theorem dirToks_end (st : Bool) : Raw.dirToks st Gen.Directives.newTextDirectives kwEnd [] = .ok [.end_] := rfl

theorem cook_grp (st : Bool) : ∀ (ts pt : List TTok), pt.all isPiece = true → (pt ++ ts).all (ttokOk st) = true →
    noAdjText (pt ++ ts) = true → unmodelled (ttoksNew (pt ++ ts)) = false →
    cookToks st (grp pt ts) = .ok (pt ++ ts)
  | [], pt, hp, ho, hn, hm => by
      simp only [List.append_nil] at ho hn hm ⊢
      have := cook_flush st pt hp ho hn hm [] [] rfl
      simpa [grp] using this
  | .text s :: r, pt, hp, ho, hn, hm => by
      rw [grp]
      have e : pt ++ TTok.text s :: r = (pt ++ [TTok.text s]) ++ r := by simp
      rw [e] at ho hn hm ⊢
      exact cook_grp st r (pt ++ [TTok.text s]) (by simp [all_snoc, hp, isPiece]) ho hn hm
  | .xexpr x :: r, pt, hp, ho, hn, hm => by
      rw [grp]
      have e : pt ++ TTok.xexpr x :: r = (pt ++ [TTok.xexpr x]) ++ r := by simp
      rw [e] at ho hn hm ⊢
      exact cook_grp st r (pt ++ [TTok.xexpr x]) (by simp [all_snoc, hp, isPiece]) ho hn hm
  | .dir d :: r, pt, hp, ho, hn, hm => by
      simp only [List.all_append, List.all_cons, Bool.and_eq_true] at ho
      rw [ttoksNew_append] at hm
      have hm1 := Scan.unmodelled_append_left _ _ hm
      have hm2 := Scan.unmodelled_append_right _ _ hm
      simp only [ttoksNew] at hm2
      have hm3 := Scan.unmodelled_append_right _ _ hm2
      have hn1 := noAdj_append_left _ _ hn
      have hn2 := noAdj_append_right _ _ hn
      simp only [noAdjText, Bool.and_eq_true] at hn2
      have ih := cook_grp st r [] rfl (by simpa using ho.2.2) (by simpa using hn2.2) (by simpa using hm3)
      rw [grp]
      apply cook_flush st pt hp ho.1 hn1 hm1
      simp only [cookToks, dirToks_dir st d ho.2.1, ih, bind, Except.bind, pure, Except.pure]
      rfl
  | .end_ :: r, pt, hp, ho, hn, hm => by
      simp only [List.all_append, List.all_cons, Bool.and_eq_true] at ho
      rw [ttoksNew_append] at hm
      have hm1 := Scan.unmodelled_append_left _ _ hm
      have hm2 := Scan.unmodelled_append_right _ _ hm
      simp only [ttoksNew] at hm2
      have hm3 := Scan.unmodelled_append_right _ _ hm2
      have hn1 := noAdj_append_left _ _ hn
      have hn2 := noAdj_append_right _ _ hn
      simp only [noAdjText, Bool.and_eq_true] at hn2
      have ih := cook_grp st r [] rfl (by simpa using ho.2.2) (by simpa using hn2.2) (by simpa using hm3)
      rw [grp]
      apply cook_flush st pt hp ho.1 hn1 hm1
      simp only [cookToks, dirToks_end st, ih, bind, Except.bind, pure, Except.pure]
      rfl

/-! ### the inversion theorem on the flat token form -/

theorem rawToks_print_flat (st : Bool) (ts : List TTok) (h : ttoksOk st ts = true)
    (hm : unmodelled (ttoksNew ts) = false) : rawToks false st (ttoksNew ts) = .ok ts := by
  simp only [ttoksOk, Bool.and_eq_true] at h
  have hp := print_grp st ts [] rfl (by simpa using h.1)
  simp only [ttoksNew, List.nil_append] at hp
  have hw := wf_grp st ts [] rfl (by simpa using h.1)
  simp only [rawToks, Bool.false_eq_true, if_false]
  rw [newToks_cook, ← hp, scan_print hw]
  have := cook_grp st ts [] rfl (by simpa using h.1) (by simpa using h.2) (by simpa using hm)
  simpa using this

/-! ### from the AST to the flat form -/

mutual
  theorem nodeNew_flat : ∀ (n : TNode), nodeNew n = ttoksNew (toToks n)
    | .text s => by simp [nodeNew, toToks, ttoksNew, ttokNew]
    | .expr x => by simp [nodeNew, toToks, ttoksNew, ttokNew]
    | .elem _ _ _ _ => by simp [nodeNew, toToks, ttoksNew]
    | .delem d kids => by
        simp only [nodeNew, toToks, ttoksNew, ttokNew, ttoksNew_append, nodesNew_flat kids]
        simp
  theorem nodesNew_flat : ∀ (ns : List TNode), nodesNew ns = ttoksNew (toTokss ns)
    | [] => rfl
    | n :: ns => by simp only [nodesNew, toTokss, ttoksNew_append, nodeNew_flat n, nodesNew_flat ns]
end

def headText : List TTok → Bool
  | t :: _ => isTextTok t
  | [] => false

def lastText : List TTok → Bool
  | [] => false
  | [t] => isTextTok t
  | _ :: r => lastText r

theorem noAdj_append : ∀ (a b : List TTok), noAdjText a = true → noAdjText b = true →
    (lastText a && headText b) = false → noAdjText (a ++ b) = true
  | [], _, _, hb, _ => hb
  | [t], b, _, hb, hj => by
      cases b with
      | nil => simp [noAdjText]
      | cons u b' =>
        simp only [lastText, headText] at hj
        simp only [List.singleton_append, noAdjText, hj, Bool.not_false, Bool.true_and]
        exact hb
  | t :: u :: a, b, ha, hb, hj => by
      rw [noAdjText] at ha
      rw [List.cons_append, List.cons_append, noAdjText]
      simp only [Bool.and_eq_true] at ha ⊢
      exact ⟨ha.1, noAdj_append (u :: a) b ha.2 hb (by simpa [lastText] using hj)⟩

theorem lastText_snoc (a : List TTok) (t : TTok) : lastText (a ++ [t]) = isTextTok t := by
  induction a with
  | nil => rfl
  | cons x a ih =>
    cases a with
    | nil => simp [lastText]
    | cons y a' => simpa [lastText] using ih

theorem headText_toTokss : ∀ (ns : List TNode), nodesOk st ns = true →
    headText (toTokss ns) = (match ns with | m :: _ => isTextNode m | [] => false)
  | [], _ => rfl
  | .text s :: r, _ => by simp [toTokss, toToks, headText, isTextTok, isTextNode]
  | .expr x :: r, _ => by simp [toTokss, toToks, headText, isTextTok, isTextNode]
  | .delem d k :: r, _ => by simp [toTokss, toToks, headText, isTextTok, isTextNode]
  | .elem _ _ _ _ :: r, h => by simp [nodesOk, nodeOk] at h

mutual
  theorem nodeOk_flat (st : Bool) : ∀ (n : TNode), nodeOk st n = true →
      (toToks n).all (ttokOk st) = true ∧ noAdjText (toToks n) = true ∧ lastText (toToks n) = isTextNode n
    | .text s, h => by simpa [toToks, ttokOk, noAdjText, lastText, isTextTok, isTextNode, nodeOk] using h
    | .expr x, h => by simpa [toToks, ttokOk, noAdjText, lastText, isTextTok, isTextNode, nodeOk] using h
    | .elem _ _ _ _, h => by simp [nodeOk] at h
    | .delem d kids, h => by
        simp only [nodeOk, Bool.and_eq_true] at h
        obtain ⟨hk1, hk2⟩ := nodesOk_flat st kids h.2
        refine ⟨?_, ?_, ?_⟩
        · simp [toToks, ttokOk, h.1, hk1, List.all_append]
        · simp only [toToks]
          have : noAdjText (toTokss kids ++ [TTok.end_]) = true :=
            noAdj_append _ _ hk2 rfl (by simp [headText, isTextTok])
          simp only [noAdjText, isTextTok, Bool.false_and, Bool.not_false, Bool.true_and]
          exact this
        · simp only [toToks, isTextNode]
          rw [show TTok.dir d :: (toTokss kids ++ [TTok.end_]) = (TTok.dir d :: toTokss kids) ++ [TTok.end_] by simp,
            lastText_snoc]
          rfl
  theorem nodesOk_flat (st : Bool) : ∀ (ns : List TNode), nodesOk st ns = true →
      (toTokss ns).all (ttokOk st) = true ∧ noAdjText (toTokss ns) = true
    | [], _ => ⟨rfl, rfl⟩
    | n :: ns, h => by
        simp only [nodesOk, Bool.and_eq_true, Bool.not_eq_true'] at h
        obtain ⟨h1, h2, h3⟩ := nodeOk_flat st n h.1.1
        obtain ⟨k1, k2⟩ := nodesOk_flat st ns h.1.2
        refine ⟨by simp [toTokss, List.all_append, h1, k1], ?_⟩
        simp only [toTokss]
        apply noAdj_append _ _ h2 k2
        rw [h3, headText_toTokss ns h.1.2]
        exact h.2
end

/-- **Inversion of the reader (new text syntax).** -/
theorem rawToks_print (st : Bool) (ns : List TNode) (h : nodesOk st ns = true)
    (hm : unmodelled (nodesNew ns) = false) : rawToks false st (nodesNew ns) = .ok (toTokss ns) := by
  rw [nodesNew_flat] at hm ⊢
  obtain ⟨h1, h2⟩ := nodesOk_flat st ns h
  exact rawToks_print_flat st _ (by simp [ttoksOk, h1, h2]) hm

/-! ### a printable template is a text template, well formed in the sense of `impl_eq_doc` -/

theorem dirOk_textual (st : Bool) (d : Dir) (h : dirOk st d = true) : d.textual = true ∧ d.elemOnly = false := by
  cases d <;> first | (simp [dirOk] at h; done) | exact ⟨rfl, rfl⟩

mutual
  theorem nodeOk_text (st : Bool) : ∀ (n : TNode), nodeOk st n = true → textNode n = true ∧ wfNode n = true
    | .text _, _ => ⟨rfl, rfl⟩
    | .expr _, _ => ⟨rfl, rfl⟩
    | .elem _ _ _ _, h => by simp [nodeOk] at h
    | .delem d kids, h => by
        simp only [nodeOk, Bool.and_eq_true] at h
        obtain ⟨k1, k2⟩ := nodesOk_text st kids h.2
        obtain ⟨d1, d2⟩ := dirOk_textual st d h.1
        simp [textNode, wfNode, d1, d2, k1, k2]
  theorem nodesOk_text (st : Bool) : ∀ (ns : List TNode), nodesOk st ns = true →
      textNodes ns = true ∧ wfNodes ns = true
    | [], _ => ⟨rfl, rfl⟩
    | n :: ns, h => by
        simp only [nodesOk, Bool.and_eq_true] at h
        obtain ⟨a1, a2⟩ := nodeOk_text st n h.1.1
        obtain ⟨b1, b2⟩ := nodesOk_text st ns h.1.2
        simp [textNodes, wfNodes, a1, a2, b1, b2]
end

/-- the prepared stream of the printed source is the compiled AST -/
theorem compileRaw_print (st : Bool) (ns : List TNode) (h : nodesOk st ns = true)
    (hm : unmodelled (nodesNew ns) = false) : compileRaw false st (nodesNew ns) = .ok (compileNodes ns) := by
  unfold compileRaw
  rw [rawToks_print st ns h hm]
  simp only [bind, Except.bind, pure, Except.pure]
  have := compileText_eq_compile ns (nodesOk_text st ns h).1
  unfold compileText at this
  rw [this]

/-- rendering the printed source is rendering the AST with the implementation model -/
theorem renderRaw_print (st : Bool) (ns : List TNode) (h : nodesOk st ns = true)
    (hm : unmodelled (nodesNew ns) = false) (fuel : Nat) (data : Env) :
    renderRaw fuel false st (nodesNew ns) data = .ok (implRender fuel ns data) := by
  unfold renderRaw
  rw [compileRaw_print st ns h hm]
  rfl

end Genshi.Tmpl.Print

/-
  Lemmas about the form-filler model (`Genshi/Model/TfFill.lean`).
-/
import Genshi.Model.TfFill
import Genshi.Lemmas.Core
namespace Genshi.Fill

/-! ### attribute lists -/

theorem aget_aset (a : AttrList) (k v : Str) : aget (aset a k v) k = some v := by
  unfold aset
  by_cases h : a.any (fun (q, _) => q = (⟨[], k⟩ : QName)) = true
  · simp only [h, ↓reduceIte]
    induction a with
    | nil => simp at h
    | cons p a ih =>
      obtain ⟨q, w⟩ := p
      by_cases hq : q = (⟨[], k⟩ : QName)
      · subst hq; simp [aget]
      · have h' : a.any (fun (q, _) => q = (⟨[], k⟩ : QName)) = true := by
          simpa [hq] using h
        have hne : ¬ (q.ns.isEmpty = true ∧ q.loc = k) := by
          intro hc
          apply hq
          cases q with
          | mk ns loc =>
            simp at hc
            obtain ⟨h1, h2⟩ := hc
            simp [h1, h2]
        have := ih h'
        simp only [aget, List.map_cons, hq, ↓reduceIte] at this ⊢
        rw [List.find?_cons_of_neg (by simpa using hne)]
        exact this
  · simp only [h, Bool.false_eq_true, ↓reduceIte]
    have hnone : a.find? (fun (n, _) => n.ns.isEmpty && n.loc = k) = none := by
      rw [List.find?_eq_none]
      intro p hp hc
      apply h
      rw [List.any_eq_true]
      refine ⟨p, hp, ?_⟩
      obtain ⟨q, w⟩ := p
      cases q with
      | mk ns loc =>
        simp at hc
        obtain ⟨h1, h2⟩ := hc
        simp [h1, h2]
    simp [aget, List.find?_append, hnone]


/-- the three attributes the filler may touch (no namespace) -/
def special (n : QName) : Bool :=
  n.ns.isEmpty && (n.loc = sValue || n.loc = sChecked || n.loc = sSelected)

/-- an attribute list without `value` / `checked` / `selected` -/
def normAttrs (a : AttrList) : AttrList := a.filter fun (n, _) => !special n

theorem normAttrs_map_set (a : AttrList) (k v : Str) (hk : special ⟨[], k⟩ = true) :
    normAttrs (a.map fun (q, w) => if q = (⟨[], k⟩ : QName) then (q, v) else (q, w)) = normAttrs a := by
  unfold normAttrs
  induction a with
  | nil => rfl
  | cons p a ih =>
    obtain ⟨q, w⟩ := p
    by_cases hq : q = (⟨[], k⟩ : QName)
    · subst hq
      simp only [List.map_cons, ↓reduceIte, List.filter_cons, hk, Bool.not_true, Bool.false_eq_true]
      exact ih
    · simp only [List.map_cons, hq, ↓reduceIte, List.filter_cons]
      split
      · rw [ih]
      · exact ih

theorem normAttrs_aset (a : AttrList) (k v : Str) (hk : special ⟨[], k⟩ = true) :
    normAttrs (aset a k v) = normAttrs a := by
  unfold aset
  simp only
  split
  · exact normAttrs_map_set a k v hk
  · simp [normAttrs, hk]

theorem normAttrs_adel (a : AttrList) (k : Str) (hk : special ⟨[], k⟩ = true) :
    normAttrs (adel a k) = normAttrs a := by
  unfold adel normAttrs
  induction a with
  | nil => rfl
  | cons p a ih =>
    obtain ⟨q, w⟩ := p
    by_cases hq : q = (⟨[], k⟩ : QName)
    · subst hq; simp only [List.filter_cons, decide_true, Bool.not_true, Bool.false_eq_true, ↓reduceIte, hk]
      exact ih
    · simp only [List.filter_cons, hq, decide_false, Bool.not_false, ↓reduceIte]
      split
      · rw [ih]
      · exact ih

theorem special_value : special ⟨[], sValue⟩ = true := by decide
theorem special_checked : special ⟨[], sChecked⟩ = true := by decide
theorem special_selected : special ⟨[], sSelected⟩ = true := by decide

theorem normAttrs_inputAttrs (c : Cfg) (a : AttrList) : normAttrs (inputAttrs c a) = normAttrs a := by
  unfold inputAttrs
  simp only
  split
  · split
    · split
      · rfl
      · split
        · split
          · exact normAttrs_aset _ _ _ special_checked
          · split
            · exact normAttrs_adel _ _ special_checked
            · rfl
        · rfl
    · rfl
  · split
    · split
      · split
        · rfl
        · split
          · split
            · exact normAttrs_aset _ _ _ special_value
            · rfl
          · rfl
      · rfl
    · rfl


/-! ### empty data -/

theorem lookup_empty {c : Cfg} (h : c.data = []) (k : Str) : c.lookup k = none := by
  simp [Cfg.lookup, h]

theorem inputAttrs_empty {c : Cfg} (h : c.data = []) (a : AttrList) : inputAttrs c a = a := by
  unfold inputAttrs
  simp only [lookup_empty h]
  split
  · split
    · split <;> rfl
    · rfl
  · split
    · split
      · split <;> rfl
      · rfl
    · rfl

theorem step_empty {c : Cfg} (h : c.data = []) (st : St) (hs : st.inSelect = false)
    (ht : st.inTextarea = false) (e : Event) :
    ∃ st', step c st e = some (st', [e]) ∧ st'.inSelect = false ∧ st'.inTextarea = false := by
  cases e with
  | start tag a =>
    have hb : (aget a sName).bind c.lookup = none := by
      cases aget a sName with
      | none => rfl
      | some v => simpa using lookup_empty h v
    simp only [step, inputAttrs_empty h, hb, hs, Bool.false_and, Bool.false_eq_true, ↓reduceIte]
    split
    · exact ⟨_, rfl, by simpa using hs, by simpa using ht⟩
    · split
      · split
        · exact ⟨_, rfl, hs, ht⟩
        · split
          · exact ⟨_, rfl, hs, ht⟩
          · split
            · exact ⟨_, rfl, hs, ht⟩
            · exact ⟨_, rfl, hs, ht⟩
      · exact ⟨_, rfl, hs, ht⟩
  | text t f =>
    simp only [step, hs, ht, Bool.false_and, Bool.false_eq_true, ↓reduceIte]
    split <;> exact ⟨_, rfl, hs, ht⟩
  | end_ tag =>
    simp only [step, hs, ht, Bool.false_and, Bool.false_eq_true, ↓reduceIte]
    split
    · split
      · exact ⟨_, rfl, by simpa using hs, by simpa using ht⟩
      · split
        · exact ⟨_, rfl, rfl, by simpa using ht⟩
        · exact ⟨_, rfl, hs, ht⟩
    · exact ⟨_, rfl, hs, ht⟩
  | _ => exact ⟨_, rfl, hs, ht⟩

theorem fillGo_empty {c : Cfg} (h : c.data = []) (s : Stream) :
    ∀ st : St, st.inSelect = false → st.inTextarea = false → fillGo c st s = some s := by
  induction s with
  | nil => intro st _ _; rfl
  | cons e s ih =>
    intro st hs ht
    obtain ⟨st', h1, h2, h3⟩ := step_empty h st hs ht e
    simp [fillGo, h1, ih st' h2 h3]


/-! ### nothing but value / checked / selected attributes and text changes -/

def isText : Event → Bool
  | .text _ _ => true
  | _ => false

def isOptStart : Event → Bool
  | .start t _ => t.loc = sOption
  | _ => false

def isOptEnd : Event → Bool
  | .end_ t => t.loc = sOption
  | _ => false

def isTextareaStart : Event → Bool
  | .start t _ => t.loc = sTextarea
  | _ => false

/-- hypothesis of the theorems (known finding C20-option-children): every START of an
    `option` element is followed by TEXT events only and then by the END of an `option` -/
def optText : Bool → Stream → Bool
  | false, [] => true
  | true, [] => false
  | false, e :: s => optText (isOptStart e) s
  | true, e :: s => if isText e then optText true s else isOptEnd e && optText false s

def normEv : Event → Event
  | .start t a => .start t (normAttrs a)
  | e => e

/-- the view of a stream in which the filler must change nothing: `value` / `checked` /
    `selected` attributes erased, TEXT events erased unless `kt` -/
def norm (kt : Bool) (s : Stream) : Stream := (s.filter fun e => kt || !isText e).map normEv

theorem norm_append (kt : Bool) (a b : Stream) : norm kt (a ++ b) = norm kt a ++ norm kt b := by
  simp [norm]

/-- the START of an option held back together with the option's text -/
def pend (st : St) : Stream :=
  match st.optionStart with
  | some (t, a) => .start t a :: st.optionText
  | none => []

structure Inv (kt : Bool) (st : St) (inO : Bool) : Prop where
  noPend : st.optionStart = none → st.optionText = [] ∧ st.inOption = false
  isPend : ∀ t a, st.optionStart = some (t, a) →
    inO = true ∧ st.inForm = true ∧ st.inSelect = true ∧ st.inOption = true
  ta : kt = true → st.inTextarea = false

theorem sOption_ne_sForm : (sOption = sForm) = False := by decide
theorem sOption_ne_sSelect : (sOption = sSelect) = False := by decide
theorem sOption_ne_sInput : (sOption = sInput) = False := by decide
theorem sOption_ne_sTextarea : (sOption = sTextarea) = False := by decide

theorem norm_start (kt : Bool) (t : QName) (a a' : AttrList) (h : normAttrs a' = normAttrs a) :
    norm kt [.start t a'] = norm kt [.start t a] := by
  simp [norm, isText, normEv, h]

@[simp] theorem norm_nil (kt : Bool) : norm kt [] = [] := rfl

theorem keep_norm (kt : Bool) (st st1 : St) (o : Stream) (h0 : st.optionStart = none)
    (h1 : st1.optionStart = none) :
    norm kt o ++ norm kt (pend st1) = norm kt (pend st) ++ norm kt o := by
  simp [pend, h0, h1]

theorem buffer_norm (kt : Bool) (st st1 : St) (x : Event) (ot : QName) (oa : AttrList)
    (hp : st.optionStart = some (ot, oa)) (h1 : st1.optionStart = st.optionStart)
    (h2 : st1.optionText = st.optionText ++ [x]) :
    norm kt [] ++ norm kt (pend st1) = norm kt (pend st) ++ norm kt [x] := by
  have : pend st1 = pend st ++ [x] := by simp [pend, h1, h2, hp]
  rw [this, norm_append]; simp

theorem step_norm (c : Cfg) (kt : Bool) (st : St) (inO : Bool) (e : Event) (s' : Stream)
    (hinv : Inv kt st inO) (hopt : optText inO (e :: s') = true)
    (hta : kt = true → ∀ tag a, e = .start tag a → tag.loc = sTextarea →
      (aget a sName).bind c.lookup = none)
    (st' : St) (o : Stream) (hstep : step c st e = some (st', o)) :
    ∃ inO', Inv kt st' inO' ∧ optText inO' s' = true ∧
      norm kt o ++ norm kt (pend st') = norm kt (pend st) ++ norm kt [e] := by
  cases hp : st.optionStart with
  | some pr =>
    obtain ⟨ot, oa⟩ := pr
    obtain ⟨hO, hF, hS, hOp⟩ := hinv.isPend ot oa hp
    subst hO
    simp only [optText] at hopt
    by_cases htx : isText e = true
    · -- text inside the option: buffered
      simp only [htx, ↓reduceIte] at hopt
      cases e with
      | text t f =>
        simp only [step, hF, hS, hOp, Bool.and_self, ↓reduceIte, Option.some.injEq, Prod.mk.injEq] at hstep
        obtain ⟨rfl, rfl⟩ := hstep
        refine ⟨true, ⟨?_, ?_, hinv.ta⟩, hopt, ?_⟩
        · intro h; simp [hp] at h
        · intro t' a' _; exact ⟨rfl, by simp [hF], by simp [hS], by simp [hOp]⟩
        · exact buffer_norm kt st _ _ ot oa hp rfl rfl
      | _ => simp [isText] at htx
    · simp only [htx, Bool.false_eq_true, ↓reduceIte, Bool.and_eq_true] at hopt
      obtain ⟨hoe, hopt⟩ := hopt
      cases e with
      | end_ tag =>
        simp only [isOptEnd, decide_eq_true_eq] at hoe
        simp only [step, hF, hS, ↓reduceIte, hoe, sOption_ne_sForm, sOption_ne_sSelect, Bool.true_and,
          decide_true, hp, Option.some.injEq, Prod.mk.injEq] at hstep
        obtain ⟨rfl, rfl⟩ := hstep
        refine ⟨false, ⟨fun _ => ⟨rfl, rfl⟩, ?_, hinv.ta⟩, hopt, ?_⟩
        · intro t' a' h; simp at h
        · have hn : ∀ oa', normAttrs oa' = normAttrs oa →
              norm kt (Event.start ot oa' :: (st.optionText ++ [Event.end_ tag])) ++ norm kt [] =
              norm kt (Event.start ot oa :: st.optionText) ++ norm kt [Event.end_ tag] := by
            intro oa' h
            rw [show (Event.start ot oa' :: (st.optionText ++ [Event.end_ tag])) =
                [Event.start ot oa'] ++ (st.optionText ++ [Event.end_ tag]) from rfl,
              show (Event.start ot oa :: st.optionText) = [Event.start ot oa] ++ st.optionText from rfl]
            simp only [norm_append, norm_start kt ot oa oa' h]
            simp [norm]
          simp only [pend, hp]
          split
          · exact hn _ (normAttrs_aset _ _ _ special_selected)
          · split
            · exact hn _ (normAttrs_adel _ _ special_selected)
            · exact hn _ rfl
      | _ => simp [isOptEnd] at hoe
  | none =>
    obtain ⟨hTx, hOp⟩ := hinv.noPend hp
    have hpend : pend st = [] := by simp [pend, hp]
    -- the flag of the option hypothesis after this event
    have hopt' : ∃ inO', optText inO' s' = true ∧ (isOptStart e = true → inO' = true) := by
      cases inO with
      | false => exact ⟨isOptStart e, by simpa [optText] using hopt, fun h => h⟩
      | true =>
        simp only [optText] at hopt
        by_cases htx : isText e = true
        · simp only [htx, ↓reduceIte] at hopt
          refine ⟨true, hopt, fun _ => rfl⟩
        · simp only [htx, Bool.false_eq_true, ↓reduceIte, Bool.and_eq_true] at hopt
          refine ⟨false, hopt.2, fun h => ?_⟩
          cases e <;> simp [isOptStart, isOptEnd] at h hopt
    obtain ⟨inO', hopt1, hflag⟩ := hopt'
    -- a state change that leaves the option bookkeeping alone
    have keep : ∀ st1 : St, st1.optionStart = none → st1.optionText = [] → st1.inOption = false →
        (kt = true → st1.inTextarea = false) → Inv kt st1 inO' := by
      intro st1 h1 h2 h3 h4
      exact ⟨fun _ => ⟨h2, h3⟩, fun t a h => by simp [h1] at h, h4⟩
    cases e with
    | start tag a =>
      simp only [step] at hstep
      split at hstep
      · simp only [Option.some.injEq, Prod.mk.injEq] at hstep
        obtain ⟨rfl, rfl⟩ := hstep
        exact ⟨inO', keep _ hp hTx hOp hinv.ta, hopt1, keep_norm kt st _ _ hp hp⟩
      · split at hstep
        · split at hstep
          · simp only [Option.some.injEq, Prod.mk.injEq] at hstep
            obtain ⟨rfl, rfl⟩ := hstep
            refine ⟨inO', keep _ hp hTx hOp hinv.ta, hopt1, ?_⟩
            rw [hpend]; simpa [norm_nil] using norm_start kt tag a _ (normAttrs_inputAttrs c a)
          · split at hstep
            · split at hstep
              · simp only [Option.some.injEq, Prod.mk.injEq] at hstep
                obtain ⟨rfl, rfl⟩ := hstep
                exact ⟨inO', keep _ hp hTx hOp hinv.ta, hopt1, keep_norm kt st _ _ hp hp⟩
              · simp only [Option.some.injEq, Prod.mk.injEq] at hstep
                obtain ⟨rfl, rfl⟩ := hstep
                exact ⟨inO', keep _ hp hTx hOp hinv.ta, hopt1, keep_norm kt st _ _ hp hp⟩
            · split at hstep
              · rename_i hta'
                split at hstep
                · rename_i v hv
                  have hkt : kt = false := by
                    cases kt with
                    | false => rfl
                    | true =>
                      have := hta rfl tag a rfl hta'
                      rw [this] at hv
                      exact absurd hv (by simp)
                  simp only [Option.some.injEq, Prod.mk.injEq] at hstep
                  obtain ⟨rfl, rfl⟩ := hstep
                  exact ⟨inO', keep _ hp hTx hOp (by intro h; simp [hkt] at h), hopt1, keep_norm kt st _ _ hp hp⟩
                · simp only [Option.some.injEq, Prod.mk.injEq] at hstep
                  obtain ⟨rfl, rfl⟩ := hstep
                  exact ⟨inO', keep _ hp hTx hOp hinv.ta, hopt1, keep_norm kt st _ _ hp hp⟩
              · split at hstep
                · rename_i hsel
                  simp only [Bool.and_eq_true, decide_eq_true_eq] at hsel
                  simp only [Option.some.injEq, Prod.mk.injEq] at hstep
                  obtain ⟨rfl, rfl⟩ := hstep
                  have hio : inO' = true := hflag (by simp [isOptStart, hsel.2])
                  subst hio
                  rename_i hform _ _ _
                  refine ⟨true, ⟨?_, ?_, hinv.ta⟩, hopt1, ?_⟩
                  · intro h; simp at h
                  · intro t' a' _; exact ⟨rfl, hform, hsel.1, rfl⟩
                  · simp [pend, hp, hTx, norm]
                · simp only [Option.some.injEq, Prod.mk.injEq] at hstep
                  obtain ⟨rfl, rfl⟩ := hstep
                  exact ⟨inO', keep _ hp hTx hOp hinv.ta, hopt1, keep_norm kt st _ _ hp hp⟩
        · simp only [Option.some.injEq, Prod.mk.injEq] at hstep
          obtain ⟨rfl, rfl⟩ := hstep
          exact ⟨inO', keep _ hp hTx hOp hinv.ta, hopt1, keep_norm kt st _ _ hp hp⟩
    | text t f =>
      simp only [step, hOp, Bool.and_false, Bool.false_eq_true, ↓reduceIte] at hstep
      split at hstep
      · split at hstep
        · rename_i hta'
          have hkt : kt = false := by
            cases kt with
            | false => rfl
            | true => exact absurd (hinv.ta rfl) (by simp [hta'])
          simp only [Option.some.injEq, Prod.mk.injEq] at hstep
          obtain ⟨rfl, rfl⟩ := hstep
          exact ⟨inO', keep _ hp hTx hOp hinv.ta, hopt1, by simp [pend, hp, norm, hkt, isText]⟩
        · simp only [Option.some.injEq, Prod.mk.injEq] at hstep
          obtain ⟨rfl, rfl⟩ := hstep
          exact ⟨inO', keep _ hp hTx hOp hinv.ta, hopt1, keep_norm kt st _ _ hp hp⟩
      · simp only [Option.some.injEq, Prod.mk.injEq] at hstep
        obtain ⟨rfl, rfl⟩ := hstep
        exact ⟨inO', keep _ hp hTx hOp hinv.ta, hopt1, keep_norm kt st _ _ hp hp⟩
    | end_ tag =>
      simp only [step] at hstep
      split at hstep
      · split at hstep
        · simp only [Option.some.injEq, Prod.mk.injEq] at hstep
          obtain ⟨rfl, rfl⟩ := hstep
          exact ⟨inO', keep _ hp hTx hOp hinv.ta, hopt1, keep_norm kt st _ _ hp hp⟩
        · split at hstep
          · simp only [Option.some.injEq, Prod.mk.injEq] at hstep
            obtain ⟨rfl, rfl⟩ := hstep
            exact ⟨inO', keep _ hp hTx hOp hinv.ta, hopt1, keep_norm kt st _ _ hp hp⟩
          · split at hstep
            · simp [hp] at hstep
            · split at hstep
              · rename_i hta'
                simp only [Bool.and_eq_true] at hta'
                have hkt : kt = false := by
                  cases kt with
                  | false => rfl
                  | true => exact absurd (hinv.ta rfl) (by simp [hta'.1])
                simp only [Option.some.injEq, Prod.mk.injEq] at hstep
                obtain ⟨rfl, rfl⟩ := hstep
                refine ⟨inO', keep _ hp hTx hOp (fun _ => rfl), hopt1, ?_⟩
                subst hkt
                simp only [pend, hp, norm_append]
                split
                · split <;> simp [norm, isText]
                · simp [norm, isText]
              · simp only [Option.some.injEq, Prod.mk.injEq] at hstep
                obtain ⟨rfl, rfl⟩ := hstep
                exact ⟨inO', keep _ hp hTx hOp hinv.ta, hopt1, keep_norm kt st _ _ hp hp⟩
      · simp only [Option.some.injEq, Prod.mk.injEq] at hstep
        obtain ⟨rfl, rfl⟩ := hstep
        exact ⟨inO', keep _ hp hTx hOp hinv.ta, hopt1, keep_norm kt st _ _ hp hp⟩
    | comment t => simp only [step, Option.some.injEq, Prod.mk.injEq] at hstep; obtain ⟨rfl, rfl⟩ := hstep; exact ⟨inO', keep _ hp hTx hOp hinv.ta, hopt1, keep_norm kt st _ _ hp hp⟩
    | pi t d => simp only [step, Option.some.injEq, Prod.mk.injEq] at hstep; obtain ⟨rfl, rfl⟩ := hstep; exact ⟨inO', keep _ hp hTx hOp hinv.ta, hopt1, keep_norm kt st _ _ hp hp⟩
    | doctype n p s => simp only [step, Option.some.injEq, Prod.mk.injEq] at hstep; obtain ⟨rfl, rfl⟩ := hstep; exact ⟨inO', keep _ hp hTx hOp hinv.ta, hopt1, keep_norm kt st _ _ hp hp⟩
    | xmlDecl v en sa => simp only [step, Option.some.injEq, Prod.mk.injEq] at hstep; obtain ⟨rfl, rfl⟩ := hstep; exact ⟨inO', keep _ hp hTx hOp hinv.ta, hopt1, keep_norm kt st _ _ hp hp⟩
    | startNs p u => simp only [step, Option.some.injEq, Prod.mk.injEq] at hstep; obtain ⟨rfl, rfl⟩ := hstep; exact ⟨inO', keep _ hp hTx hOp hinv.ta, hopt1, keep_norm kt st _ _ hp hp⟩
    | endNs p => simp only [step, Option.some.injEq, Prod.mk.injEq] at hstep; obtain ⟨rfl, rfl⟩ := hstep; exact ⟨inO', keep _ hp hTx hOp hinv.ta, hopt1, keep_norm kt st _ _ hp hp⟩
    | startCdata => simp only [step, Option.some.injEq, Prod.mk.injEq] at hstep; obtain ⟨rfl, rfl⟩ := hstep; exact ⟨inO', keep _ hp hTx hOp hinv.ta, hopt1, keep_norm kt st _ _ hp hp⟩
    | endCdata => simp only [step, Option.some.injEq, Prod.mk.injEq] at hstep; obtain ⟨rfl, rfl⟩ := hstep; exact ⟨inO', keep _ hp hTx hOp hinv.ta, hopt1, keep_norm kt st _ _ hp hp⟩


theorem fillGo_norm (c : Cfg) (kt : Bool) : ∀ (s : Stream) (st : St) (inO : Bool),
    Inv kt st inO → optText inO s = true →
    (kt = true → ∀ tag a, Event.start tag a ∈ s → tag.loc = sTextarea → (aget a sName).bind c.lookup = none) →
    ∀ out, fillGo c st s = some out → norm kt out = norm kt (pend st ++ s) := by
  intro s
  induction s with
  | nil =>
    intro st inO hinv hopt _ out h
    simp only [fillGo, Option.some.injEq] at h
    subst h
    cases inO with
    | true => simp [optText] at hopt
    | false =>
      cases hp : st.optionStart with
      | none => simp [pend, hp]
      | some pr =>
        obtain ⟨t, a⟩ := pr
        have := (hinv.isPend t a hp).1
        simp at this
  | cons e s ih =>
    intro st inO hinv hopt hta out h
    simp only [fillGo] at h
    cases hs : step c st e with
    | none => simp [hs] at h
    | some r =>
      obtain ⟨st', o⟩ := r
      simp only [hs] at h
      cases hr : fillGo c st' s with
      | none => simp [hr] at h
      | some out' =>
        have h' : o ++ out' = out := by simpa [hr] using h
        subst h'
        obtain ⟨inO', hinv', hopt', hn⟩ := step_norm c kt st inO e s hinv hopt
          (fun hk tag a he => hta hk tag a (by simp [he])) st' o hs
        have := ih st' inO' hinv' hopt' (fun hk tag a he' => hta hk tag a (by simp [he'])) out' hr
        rw [norm_append, this, norm_append, ← List.append_assoc, hn, norm_append, List.append_assoc,
          ← norm_append kt [e] s]
        rfl

theorem inv_init (kt : Bool) : Inv kt {} false :=
  ⟨fun _ => ⟨rfl, rfl⟩, fun t a h => by simp at h, fun _ => rfl⟩

/-- the filler changes nothing but `value` / `checked` / `selected` attributes and TEXT events -/
theorem fill_norm (c : Cfg) (s out : Stream) (hopt : optText false s = true)
    (h : fill c s = some out) : norm false out = norm false s := by
  have := fillGo_norm c false s {} false (inv_init false) hopt (by intro h; simp at h) out h
  simpa [pend] using this

/-- without textarea elements named in the data it changes nothing but those attributes -/
theorem fill_norm_text (c : Cfg) (s out : Stream) (hopt : optText false s = true)
    (hta : ∀ tag a, Event.start tag a ∈ s → tag.loc = sTextarea → (aget a sName).bind c.lookup = none)
    (h : fill c s = some out) :
    norm true out = norm true s := by
  have := fillGo_norm c true s {} false (inv_init true) hopt (fun _ => hta) out h
  simpa [pend] using this

theorem norm_false_cons (e : Event) (s : Stream) :
    norm false (e :: s) = if isText e = true then norm false s else normEv e :: norm false s := by
  cases h : isText e <;> simp [norm, h]

theorem balance_norm (s : Stream) : ∀ st, balance st (norm false s) = balance st s := by
  induction s with
  | nil => intro st; rfl
  | cons e s ih =>
    intro st
    rw [norm_false_cons]
    cases e with
    | start t a => simp only [isText, Bool.false_eq_true, ↓reduceIte, normEv, balance]; exact ih _
    | end_ t =>
      cases st with
      | nil => simp [isText, normEv, balance]
      | cons t' st =>
        by_cases ht : t = t'
        · simp only [isText, Bool.false_eq_true, ↓reduceIte, normEv, balance, ht]; exact ih _
        · simp [isText, normEv, balance, ht]
    | text t f =>
      simp only [isText, ↓reduceIte]
      rw [balance_skip _ (by rfl), ih st]
    | _ =>
      simp only [isText, Bool.false_eq_true, ↓reduceIte, normEv]
      rw [balance_skip _ (by rfl), balance_skip _ (by rfl), ih st]

/-- the filler keeps a stream well nested -/
theorem fill_wellnested (c : Cfg) (s out : Stream) (hopt : optText false s = true)
    (hwn : WellNested s) (h : fill c s = some out) : WellNested out := by
  unfold WellNested at *
  rw [← balance_norm out, fill_norm c s out hopt h, balance_norm]; exact hwn


/-! ### fills what it is given -/

theorem aget_adel (a : AttrList) (k : Str) : aget (adel a k) k = none := by
  unfold aget adel
  simp only [Option.map_eq_none_iff, List.find?_eq_none]
  intro p hp
  obtain ⟨q, w⟩ := p
  simp only [List.mem_filter, Bool.not_eq_true', decide_eq_false_iff_not] at hp
  intro hc
  apply hp.2
  cases q with
  | mk ns loc =>
    simp at hc
    obtain ⟨h1, h2⟩ := hc
    simp [h1, h2]

/-- the `type` of an input as the filler sees it -/
def inputType (a : AttrList) : Str := ((aget a sType).getD []).map Str.lower

theorem inputAttrs_password (c : Cfg) (a : AttrList) (ht : inputType a = sPassword)
    (hp : c.passwords = false) : inputAttrs c a = a := by
  unfold inputAttrs
  unfold inputType at ht
  simp only [ht, hp]
  have h1 : (sPassword = sCheckbox) = False := by decide
  have h2 : (sPassword = sRadio) = False := by decide
  have h3 : (sPassword = ([] : Str)) = False := by decide
  have h4 : (sPassword = sHidden) = False := by decide
  have h5 : (sPassword = sText) = False := by decide
  simp [h1, h2, h3, h4, h5]

theorem inputAttrs_value (c : Cfg) (a : AttrList) (name : Str) (value : Val) (v : Scalar)
    (ht : inputType a = [] ∨ inputType a = sHidden ∨ inputType a = sText ∨
      (inputType a = sPassword ∧ c.passwords = true))
    (hn : aget a sName = some name) (hne : name.isEmpty = false) (hl : c.lookup name = some value)
    (hf : firstOf value = some v) : aget (inputAttrs c a) sValue = some v.text := by
  unfold inputAttrs
  unfold inputType at ht
  have hnc : ∀ t : Str, (t = [] ∨ t = sHidden ∨ t = sText ∨ (t = sPassword ∧ c.passwords = true)) →
      (decide (t = sCheckbox) || decide (t = sRadio)) = false := by
    intro t h
    rcases h with rfl | rfl | rfl | ⟨rfl, _⟩ <;> decide
  have hyes : ∀ t : Str, (t = [] ∨ t = sHidden ∨ t = sText ∨ (t = sPassword ∧ c.passwords = true)) →
      (decide (t = []) || decide (t = sHidden) || decide (t = sText) ||
        (decide (t = sPassword) && c.passwords)) = true := by
    intro t h
    rcases h with rfl | rfl | rfl | ⟨rfl, hp⟩
    · simp
    · simp
    · simp
    · simp [hp]
  simp only [hnc _ ht, hyes _ ht, Bool.false_eq_true, ↓reduceIte, hn, hne, hl, hf]
  exact aget_aset a sValue v.text

theorem inputAttrs_checked (c : Cfg) (a : AttrList) (name : Str) (value : Val)
    (ht : inputType a = sCheckbox ∨ inputType a = sRadio)
    (hn : aget a sName = some name) (hne : name.isEmpty = false) (hl : c.lookup name = some value) :
    ahas (inputAttrs c a) sChecked = isChecked (inputType a = sCheckbox) (aget a sValue) value := by
  unfold inputAttrs
  unfold inputType at ht ⊢
  have hyes : (decide (List.map Str.lower ((aget a sType).getD []) = sCheckbox) ||
      decide (List.map Str.lower ((aget a sType).getD []) = sRadio)) = true := by
    rcases ht with h | h <;> simp [h]
  simp only [hyes, ↓reduceIte, hn, hne, Bool.false_eq_true, hl]
  split
  · rename_i h; rw [h]; simp [ahas, aget_aset]
  · rename_i h
    have h' : isChecked (decide (List.map Str.lower ((aget a sType).getD []) = sCheckbox)) (aget a sValue) value = false := by
      simpa using h
    rw [h']
    split
    · simp [ahas, aget_adel]
    · rename_i h2; simpa using h2


/-! ### controls that are not named in the data -/

/-- no input / select / textarea of the stream has a name with an entry in the data -/
def Unnamed (c : Cfg) (s : Stream) : Prop :=
  ∀ tag a, Event.start tag a ∈ s → ∀ n, aget a sName = some n → c.lookup n = none

theorem inputAttrs_unnamed (c : Cfg) (a : AttrList)
    (h : ∀ n, aget a sName = some n → c.lookup n = none) : inputAttrs c a = a := by
  unfold inputAttrs
  cases hn : aget a sName with
  | none => simp
  | some n =>
    simp only [h n hn]
    split
    · split <;> rfl
    · split
      · split <;> rfl
      · rfl

theorem step_unnamed {c : Cfg} (st : St) (hs : st.inSelect = false) (ht : st.inTextarea = false)
    (e : Event) (h : ∀ tag a, e = .start tag a → ∀ n, aget a sName = some n → c.lookup n = none) :
    ∃ st', step c st e = some (st', [e]) ∧ st'.inSelect = false ∧ st'.inTextarea = false := by
  cases e with
  | start tag a =>
    have hl := h tag a rfl
    have hb : (aget a sName).bind c.lookup = none := by
      cases hn : aget a sName with
      | none => rfl
      | some v => simpa using hl v hn
    simp only [step, inputAttrs_unnamed c a hl, hb, hs, Bool.false_and, Bool.false_eq_true, ↓reduceIte]
    split
    · exact ⟨_, rfl, by simpa using hs, by simpa using ht⟩
    · split
      · split
        · exact ⟨_, rfl, hs, ht⟩
        · split
          · exact ⟨_, rfl, hs, ht⟩
          · split
            · exact ⟨_, rfl, hs, ht⟩
            · exact ⟨_, rfl, hs, ht⟩
      · exact ⟨_, rfl, hs, ht⟩
  | text t f =>
    simp only [step, hs, ht, Bool.false_and, Bool.false_eq_true, ↓reduceIte]
    split <;> exact ⟨_, rfl, hs, ht⟩
  | end_ tag =>
    simp only [step, hs, ht, Bool.false_and, Bool.false_eq_true, ↓reduceIte]
    split
    · split
      · exact ⟨_, rfl, by simpa using hs, by simpa using ht⟩
      · split
        · exact ⟨_, rfl, rfl, by simpa using ht⟩
        · exact ⟨_, rfl, hs, ht⟩
    · exact ⟨_, rfl, hs, ht⟩
  | _ => exact ⟨_, rfl, hs, ht⟩

theorem fillGo_unnamed {c : Cfg} (s : Stream) (h : Unnamed c s) :
    ∀ st : St, st.inSelect = false → st.inTextarea = false → fillGo c st s = some s := by
  induction s with
  | nil => intro st _ _; rfl
  | cons e s ih =>
    intro st hs ht
    obtain ⟨st', h1, h2, h3⟩ := step_unnamed (c := c) st hs ht e
      (fun tag a he n hn => h tag a (by simp [he]) n hn)
    have ih' := ih (fun tag a hm n hn => h tag a (by simp [hm]) n hn) st' h2 h3
    simp [fillGo, h1, ih']

end Genshi.Fill

/-
  Helper lemmas for C08: the forest-level `WhitespaceFilter` (`wsForestG`, Model/OutputWsForest)
  equals the event-level filter (`wsFilterG`) on the events of a forest (`forestQ`: the forest
  behind `EmptyTagFilter`), for every state, every normalisation function and every rest of the
  stream.  Mathlib-free.
-/
import Genshi.Model.OutputWsForest
import Genshi.Lemmas.OutputTreeNs
namespace Genshi.Output
open Genshi Genshi.Escape

theorem wsf_forestQ_append (a b : List Node) : forestQ (a ++ b) = forestQ a ++ forestQ b := by
  induction a with
  | nil => simp [forestQ]
  | cons n ns ih => simp [forestQ, ih]

theorem forestQ_flushN (norm : Bool → Str → Str) (st : WsSt) : forestQ (wsFlushN norm st) = wsFlushG norm st := by
  unfold wsFlushN wsFlushG
  by_cases h : st.textbuf.isEmpty = true
  · simp [h, forestQ]
  · simp [h, forestQ, treeQ, ofEvent]

theorem wsFlushN_eq_nil (norm : Bool → Str → Str) (st : WsSt) : wsFlushN norm st = [] ↔ st.textbuf = [] := by
  unfold wsFlushN
  by_cases h : st.textbuf.isEmpty = true
  · simp [h]; simpa using h
  · simp [h]; simpa using h

/-! ### something is always left of a non-empty forest (so that a non-empty element stays one) -/

/-- complete nodes or pending text -/
def wsLive (r : List Node × WsSt) : Prop := r.1 ≠ [] ∨ r.2.textbuf ≠ []

theorem wsTreeG_live (norm : Bool → Str → Str) (cfg : WsCfg) (st : WsSt) (n : Node) :
    wsLive (wsTreeG norm cfg st n) := by
  cases n with
  | elem t a ks =>
    by_cases hk : ks.isEmpty = true
    · left; simp [wsTreeG, hk]
    · left; simp [wsTreeG, hk]
  | leaf e =>
    cases e <;> first | (left; simp [wsTreeG]; done) | (right; simp [wsTreeG])

theorem wsForestG_live (norm : Bool → Str → Str) (cfg : WsCfg) (ns : List Node) : ∀ st : WsSt,
    (ns ≠ [] ∨ st.textbuf ≠ []) → wsLive (wsForestG norm cfg st ns) := by
  induction ns with
  | nil => intro st h; right; simpa [wsForestG] using h
  | cons n ns ih =>
    intro st _
    simp only [wsForestG]
    rcases wsTreeG_live norm cfg st n with h1 | h1
    · left; simp [h1]
    · rcases ih _ (Or.inr h1) with h2 | h2
      · left; simp [h2]
      · right; exact h2

/-! ### the filter on the events of a forest -/

theorem wsFilterG_nontext (norm : Bool → Str → Str) (cfg : WsCfg) (st : WsSt) (ev : QEv) (rest : List QEv)
    (h : ∀ s f, ev ≠ .text s f) :
    wsFilterG norm cfg st (ev :: rest) =
      wsFlushG norm st ++ ev :: wsFilterG norm cfg (wsUpdate cfg { st with textbuf := [] } ev) rest := by
  cases ev <;> first | rfl | exact absurd rfl (h _ _)

mutual
  theorem wsFilterG_tree (norm : Bool → Str → Str) (cfg : WsCfg) : ∀ (n : Node) (st : WsSt) (rest : List QEv),
      n.ok = true →
      wsFilterG norm cfg st (treeQ n ++ rest) =
        forestQ (wsTreeG norm cfg st n).1 ++ wsFilterG norm cfg (wsTreeG norm cfg st n).2 rest
    | .elem t a ks, st, rest, h => by
        cases ks with
        | nil =>
          simp only [treeQ, List.isEmpty_nil, ↓reduceIte, List.singleton_append, wsTreeG]
          rw [wsFilterG_nontext norm cfg st _ _ (by intro s f hh; cases hh), wsf_forestQ_append, forestQ_flushN]
          simp [forestQ, treeQ, wsUpdate]
        | cons k ks' =>
          have hk : okList (k :: ks') = true := by simpa [Node.ok] using h
          simp only [treeQ, List.isEmpty_cons, Bool.false_eq_true, ↓reduceIte, List.cons_append, List.append_assoc,
            wsTreeG]
          rw [wsFilterG_nontext norm cfg st _ _ (by intro s f hh; cases hh),
            wsFilterG_forest norm cfg (k :: ks') _ _ hk]
          simp only [List.nil_append]
          rw [wsFilterG_nontext norm cfg _ (.end_ t) rest (by intro s f hh; cases hh)]
          have hlive := wsForestG_live norm cfg (k :: ks')
            (wsUpdate cfg { st with textbuf := [] } (.start t a)) (Or.inl (by simp))
          have hne : (wsForestG norm cfg (wsUpdate cfg { st with textbuf := [] } (.start t a)) (k :: ks')).1 ++
              wsFlushN norm (wsForestG norm cfg (wsUpdate cfg { st with textbuf := [] } (.start t a)) (k :: ks')).2 ≠ [] := by
            intro he
            rw [List.append_eq_nil_iff, wsFlushN_eq_nil] at he
            rcases hlive with h1 | h1
            · exact h1 he.1
            · exact h1 he.2
          have hemp : ((wsForestG norm cfg (wsUpdate cfg { st with textbuf := [] } (.start t a)) (k :: ks')).1 ++
              wsFlushN norm (wsForestG norm cfg (wsUpdate cfg { st with textbuf := [] } (.start t a)) (k :: ks')).2).isEmpty
                = false := by
            simpa using hne
          rw [wsf_forestQ_append, forestQ_flushN]
          simp only [forestQ, treeQ, hemp, Bool.false_eq_true, ↓reduceIte, wsf_forestQ_append, forestQ_flushN,
            List.append_nil, List.append_assoc, List.cons_append, List.nil_append]
    | .leaf e, st, rest, h => by
        cases e with
        | text s f => simp [treeQ, ofEvent, wsFilterG, wsTreeG, forestQ]
        | start t a => simp [Node.ok, Event.isStartEnd] at h
        | end_ t => simp [Node.ok, Event.isStartEnd] at h
        | _ =>
          simp only [treeQ, ofEvent, List.singleton_append, wsTreeG]
          rw [wsFilterG_nontext norm cfg st _ _ (by intro s f hh; cases hh), wsf_forestQ_append, forestQ_flushN]
          simp [forestQ, treeQ, ofEvent]
  theorem wsFilterG_forest (norm : Bool → Str → Str) (cfg : WsCfg) : ∀ (ns : List Node) (st : WsSt) (rest : List QEv),
      okList ns = true →
      wsFilterG norm cfg st (forestQ ns ++ rest) =
        forestQ (wsForestG norm cfg st ns).1 ++ wsFilterG norm cfg (wsForestG norm cfg st ns).2 rest
    | [], st, rest, _ => by simp [forestQ, wsForestG]
    | n :: ns, st, rest, h => by
        simp only [okList, Bool.and_eq_true] at h
        simp only [forestQ, List.append_assoc, wsForestG]
        rw [wsFilterG_tree norm cfg n st _ h.1, wsFilterG_forest norm cfg ns _ rest h.2, wsf_forestQ_append]
        simp
end

/-- `WhitespaceFilter` on the events of a whole forest is the flattening of `wsForest` -/
theorem wsFilter_forestQ (cfg : WsCfg) (ns : List Node) (h : okList ns = true) :
    wsFilter cfg {} (forestQ ns) = forestQ (wsForest cfg ns) := by
  have := wsFilterG_forest stdNorm cfg ns {} [] h
  simp only [List.append_nil] at this
  simp only [wsFilter, wsForest, this, wsf_forestQ_append, forestQ_flushN, wsFilterG]

/-! ### the filter keeps the forest inside one namespace -/

theorem uniformNs_flushN (u : Str) (norm : Bool → Str → Str) (st : WsSt) :
    forestUniformNs u (wsFlushN norm st) = true := by
  unfold wsFlushN
  split <;> simp [forestUniformNs, uniformNs, leafF]

theorem wsf_uniformNs_append (u : Str) (a b : List Node) :
    forestUniformNs u (a ++ b) = (forestUniformNs u a && forestUniformNs u b) := by
  induction a with
  | nil => simp [forestUniformNs]
  | cons n ns ih => simp [forestUniformNs, ih, Bool.and_assoc]

mutual
  theorem uniformNs_wsTreeG (u : Str) (norm : Bool → Str → Str) (cfg : WsCfg) : ∀ (n : Node) (st : WsSt),
      uniformNs u n = true → forestUniformNs u (wsTreeG norm cfg st n).1 = true
    | .elem t a ks, st, h => by
        simp only [uniformNs, Bool.and_eq_true] at h
        cases ks with
        | nil =>
          simp [wsTreeG, wsf_uniformNs_append, uniformNs_flushN, forestUniformNs, uniformNs, h.1.1, h.1.2]
        | cons k ks' =>
          have := uniformNs_wsForestG u norm cfg (k :: ks') (wsUpdate cfg { st with textbuf := [] } (.start t a)) h.2
          simp [wsTreeG, wsf_uniformNs_append, uniformNs_flushN, forestUniformNs, uniformNs, h.1.1, h.1.2, this]
    | .leaf e, st, h => by
        cases e <;> simp [uniformNs, leafF] at h <;>
          simp [wsTreeG, wsf_uniformNs_append, uniformNs_flushN, forestUniformNs, uniformNs, leafF]
  theorem uniformNs_wsForestG (u : Str) (norm : Bool → Str → Str) (cfg : WsCfg) : ∀ (ns : List Node) (st : WsSt),
      forestUniformNs u ns = true → forestUniformNs u (wsForestG norm cfg st ns).1 = true
    | [], st, _ => by simp [wsForestG, forestUniformNs]
    | n :: ns, st, h => by
        simp only [forestUniformNs, Bool.and_eq_true] at h
        simp [wsForestG, wsf_uniformNs_append, uniformNs_wsTreeG u norm cfg n st h.1,
          uniformNs_wsForestG u norm cfg ns _ h.2]
end

theorem uniformNs_wsForest (u : Str) (cfg : WsCfg) (ns : List Node) (h : forestUniformNs u ns = true) :
    forestUniformNs u (wsForest cfg ns) = true := by
  simp [wsForest, wsf_uniformNs_append, uniformNs_flushN, uniformNs_wsForestG u stdNorm cfg ns {} h]

end Genshi.Output

/-
  GenericStrategy on paths with descendant / descendant-or-self / self steps whose
  predicates are not position tests: what it reports is `Ref.reach`.
-/
import Genshi.Lemmas.PathAbstract
import Genshi.Lemmas.PathReach
import Genshi.Lemmas.PathChildPath
import Genshi.Lemmas.PathUnion
namespace Genshi.Path
open Genshi Genshi.Path.Ref

section
variable (ns : NsMap) (vs : Vars)

def XVal.isNum : XVal → Bool
  | .num _ => true
  | _ => false

/-- the reference value of a typed expression is a number exactly when the expression is
    statically a number -/
theorem xEval_isNum (p : Expr) (ht : p.typed ns vs = true) (n : Node) :
    XVal.isNum (xEval n ns (toXVars vs) p) = p.numTyped vs := by
  cases p with
  | var v =>
    simp only [Expr.typed] at ht
    cases hl : lookup v vs with
    | none => simp [hl] at ht
    | some w =>
      cases w with
      | bool b => simp [xEval, Expr.numTyped, hl, lookup_toXVars v vs _ (.bool b) hl rfl, XVal.isNum]
      | num x => simp [xEval, Expr.numTyped, hl, lookup_toXVars v vs _ (.num x) hl rfl, XVal.isNum]
      | str s => simp [xEval, Expr.numTyped, hl, lookup_toXVars v vs _ (.str s) hl rfl, XVal.isNum]
      | _ => simp [hl] at ht
  | fn0 f =>
    cases n with
    | elem t a k => cases f <;> rfl
    | leaf e => cases f <;> cases e <;> rfl
  | fn1 f a => cases f <;> rfl
  | fn2 f a b => cases f <;> rfl
  | fn3 f a b c => cases f <;> rfl
  | _ => rfl

theorem nonpositional_of_numTyped (s : Step) (htyped : ∀ q ∈ s.preds, q.typed ns vs = true)
    (hnn : ∀ q ∈ s.preds, q.numTyped vs = false) : NonPositional ns (toXVars vs) s := by
  intro q hq n pos
  have h := xEval_isNum ns vs q (htyped q hq) n
  rw [hnn q hq] at h
  unfold predHolds
  cases hv : xEval n ns (toXVars vs) q <;> simp_all [XVal.isNum]

theorem all_congr_mem {α : Type} {l : List α} {f g : α → Bool} (h : ∀ a ∈ l, f a = g a) : l.all f = l.all g := by
  induction l with
  | nil => rfl
  | cons x xs ih =>
    simp only [List.all_cons, h x List.mem_cons_self, ih (fun a ha => h a (List.mem_cons_of_mem _ ha))]

/-- the matcher's test of one step at a node's event = the reference test of that node -/
theorem hitE_eq_hitR (s : Step) (hwf : s.test.elemWf ns) (htyped : ∀ q ∈ s.preds, q.typed ns vs = true)
    (hnn : ∀ q ∈ s.preds, q.numTyped vs = false) (c : LNode)
    (hok : nodeOk c.node) (htag : tagsOk c.node)
    (hleaf : match c.node with | .leaf e => e.isStartEnd = false | _ => True)
    (hab : ∀ q ∈ s.preds, q.absentFree (nodeEvent c.node) ns vs = true) :
    hitE ns vs s (nodeEvent c.node) = hitR ns (toXVars vs) s c := by
  unfold hitE hitR
  have h1 := mtest_eq_testNode s ns hwf c hleaf htag
  unfold mtest at h1
  rw [h1]
  congr 1
  apply all_congr_mem
  intro q hq
  have h2 := eval_toX c.node hok ns vs q (htyped q hq) (hab q hq)
  have h3 := isNum_eval q (nodeEvent c.node) ns vs
  rw [hnn q hq] at h3
  unfold predHolds
  cases hv : q.eval (nodeEvent c.node) ns vs <;> rw [hv] at h2 h3 <;> simp [Val.toX, Val.isNum] at h2 h3 <;>
    rw [← h2] <;> simp [Val.truthy, xBoolean]

/-! ## What one run of the position loop computes -/

theorem any_or {α : Type} (L : List α) (f g : α → Bool) : L.any (fun k => f k || g k) = (L.any f || L.any g) := by
  induction L with
  | nil => rfl
  | cons x xs ih =>
    simp only [List.any_cons, ih]
    cases f x <;> cases g x <;> cases xs.any f <;> cases xs.any g <;> rfl

theorem any_true_of_mem {α : Type} (L : List α) (f : α → Bool) (x : α) (hx : x ∈ L) (hf : f x = true) :
    L.any f = true := List.any_eq_true.mpr ⟨x, hx, hf⟩

theorem pushDescA_any (N : List Nat) (x : Nat) (f : Nat → Bool) :
    (pushDescA N x).any f = (N.any f || f x) := by
  unfold pushDescA
  cases hl : N.getLast? with
  | none =>
    have : N = [] := List.getLast?_eq_none_iff.mp hl
    subst this; simp
  | some l =>
    simp only
    by_cases h : (l == x) = true
    · simp only [h, if_true]
      have hlx : l = x := by simpa using h
      have hmem : x ∈ N := hlx ▸ List.mem_of_getLast? hl
      cases hf : f x with
      | false => simp
      | true => simp [any_true_of_mem N f x hmem hf]
    · simp [h]

section
variable (S : List Step) (c t : LNode)

/-- some child is reached from position `x` -/
def CH (x : Nat) : Bool := (childrenOf c).any fun k => RR ns (toXVars vs) S x k t

/-- some child is reached from one of the positions handed down -/
def CHN (N : List Nat) : Bool := (childrenOf c).any fun k => N.any fun y => RR ns (toXVars vs) S y k t

theorem CHN_append_one (N : List Nat) (y : Nat) : CHN ns vs S c t (N ++ [y]) = (CHN ns vs S c t N || CH ns vs S c t y) := by
  unfold CHN CH
  rw [← any_or]
  apply List.any_congr rfl
  intro k
  simp [List.any_append]

theorem CHN_pushDesc (N : List Nat) (x : Nat) :
    CHN ns vs S c t (pushDescA N x) = (CHN ns vs S c t N || CH ns vs S c t x) := by
  unfold CHN CH
  rw [← any_or]
  apply List.any_congr rfl
  intro k
  exact pushDescA_any N x _

/-- what a queue entry still stands for at node `c` -/
def Vq (en : AEntry) : Bool :=
  match S[en.1]? with
  | none => false
  | some s => (hitR ns (toXVars vs) s c && reach ns (toXVars vs) (S.drop (en.1 + 1)) c t) ||
      (en.2 && isDescLike s.axis && CH ns vs S c t en.1)

/-- the nodes designated by a loop state: by the queue, by `matched`, by `next_pos` -/
def Phi (Q : List AEntry) (a : AAcc) : Bool :=
  Q.any (Vq ns vs S c t) || (a.matched && c.loc == t.loc) || CHN ns vs S c t a.nextPos

theorem Vq_some (x : Nat) (fp : Bool) (s : Step) (hs : S[x]? = some s) :
    Vq ns vs S c t (x, fp) =
      ((hitR ns (toXVars vs) s c && reach ns (toXVars vs) (S.drop (x + 1)) c t) ||
        (fp && isDescLike s.axis && CH ns vs S c t x)) := by
  simp [Vq, hs]

theorem pushSelfA_any (q : List AEntry) (x1 : Nat)
    (hq : ∀ en ∈ q, x1 ≤ en.1) :
    (pushSelfA q x1).any (Vq ns vs S c t) = (Vq ns vs S c t (x1, false) || q.any (Vq ns vs S c t)) := by
  cases q with
  | nil => simp [pushSelfA]
  | cons en q' =>
    obtain ⟨x', fp⟩ := en
    simp only [pushSelfA]
    by_cases h : x' > x1
    · simp [h]
    · have hx : x' = x1 := by
        have := hq (x', fp) List.mem_cons_self
        simp only at this; omega
      subst hx
      simp only [h, if_false, List.any_cons]
      cases hs : S[x']? with
      | none => simp [Vq, hs]
      | some s =>
        rw [Vq_some ns vs S c t x' fp s hs, Vq_some ns vs S c t x' false s hs]
        generalize (hitR ns (toXVars vs) s c && reach ns (toXVars vs) (S.drop (x' + 1)) c t) = A
        generalize (isDescLike s.axis && CH ns vs S c t x') = B
        generalize List.any q' (Vq ns vs S c t) = C
        cases A <;> cases fp <;> cases B <;> cases C <;> rfl

/-- the loop invariant that is not about meaning: queue and `next_pos` are strictly
    ascending, inside the step list, `next_pos` stays below the queue, the fuel suffices -/
structure LInv (fuel : Nat) (Q : List AEntry) (N : List Nat) : Prop where
  qs : Q.Pairwise (fun a b => a.1 < b.1)
  qb : ∀ en ∈ Q, en.1 < S.length
  qf : ∀ en ∈ Q, S.length < fuel + en.1
  nsrt : N.Pairwise (· < ·)
  nb : ∀ y ∈ N, y < S.length
  nq : ∀ y ∈ N, ∀ en ∈ Q, y ≤ en.1

def NOut (N : List Nat) : Prop := N.Pairwise (· < ·) ∧ ∀ y ∈ N, y < S.length

end

theorem pushDescA_sorted (N : List Nat) (x : Nat) (hs : N.Pairwise (· < ·)) (hle : ∀ y ∈ N, y ≤ x) :
    (pushDescA N x).Pairwise (· < ·) := by
  unfold pushDescA
  cases hl : N.getLast? with
  | none => simp
  | some l =>
    simp only
    by_cases h : (l == x) = true
    · simpa [h] using hs
    · simp only [h, Bool.false_eq_true, if_false]
      have hlx : l ≠ x := by simpa using h
      have hne : N ≠ [] := by intro h'; simp [h'] at hl
      have hl' : N.getLast hne = l := by
        have := List.getLast?_eq_some_getLast hne
        rw [this] at hl; exact Option.some.inj hl
      have hdec := List.dropLast_concat_getLast hne
      rw [hl'] at hdec
      obtain ⟨N0, hN⟩ : ∃ N0, N = N0 ++ [l] := ⟨N.dropLast, hdec.symm⟩
      subst hN
      rw [List.pairwise_append]
      refine ⟨hs, by simp, ?_⟩
      intro y hy z hz
      simp at hz; subst hz
      rw [List.pairwise_append] at hs
      have hlz := hle l (by simp)
      rcases List.mem_append.mp hy with h1 | h1
      · have := hs.2.2 y h1 l (by simp)
        omega
      · simp at h1; subst h1
        omega

theorem pushSelfA_mem (q : List AEntry) (x1 : Nat) (en : AEntry) (h : en ∈ pushSelfA q x1) :
    en ∈ q ∨ en = (x1, false) := by
  cases q with
  | nil => simp [pushSelfA] at h; exact Or.inr h
  | cons e0 q' =>
    obtain ⟨x', fp⟩ := e0
    simp only [pushSelfA] at h
    split at h
    · rcases List.mem_cons.mp h with h1 | h1
      · exact Or.inr h1
      · exact Or.inl h1
    · exact Or.inl h

theorem pushSelfA_sorted (q : List AEntry) (x1 : Nat) (hs : q.Pairwise (fun a b => a.1 < b.1))
    (hq : ∀ en ∈ q, x1 ≤ en.1) : (pushSelfA q x1).Pairwise (fun a b => a.1 < b.1) := by
  cases q with
  | nil => simp [pushSelfA]
  | cons e0 q' =>
    obtain ⟨x', fp⟩ := e0
    simp only [pushSelfA]
    split
    · rename_i hgt
      rw [List.pairwise_cons]
      refine ⟨?_, hs⟩
      intro en hen
      rcases List.mem_cons.mp hen with h1 | h1
      · subst h1; exact hgt
      · have := (List.pairwise_cons.mp hs).1 en h1
        simp only at this ⊢; omega
    · exact hs

section
variable (S : List Step) (c t : LNode)

/-- the part of `next_pos` inherited by descendant-like positions -/
theorem N1_props (N : List Nat) (x : Nat) (b : Bool) (hx : x < S.length)
    (hs : N.Pairwise (· < ·)) (hle : ∀ y ∈ N, y ≤ x) (hb : ∀ y ∈ N, y < S.length) :
    (if b = true then pushDescA N x else N).Pairwise (· < ·) ∧
    (∀ y ∈ (if b = true then pushDescA N x else N), y ≤ x) ∧
    (∀ y ∈ (if b = true then pushDescA N x else N), y < S.length) ∧
    CHN ns vs S c t (if b = true then pushDescA N x else N) = (CHN ns vs S c t N || (b && CH ns vs S c t x)) := by
  cases b with
  | false => simp only [Bool.false_eq_true, if_false]; exact ⟨hs, hle, hb, by simp⟩
  | true =>
    simp only [if_true]
    refine ⟨pushDescA_sorted N x hs hle, ?_, ?_, by simp [CHN_pushDesc]⟩
    · intro y hy
      rcases (pushDescA_mem N x y).mp hy with h1 | h1
      · exact hle y h1
      · omega
    · intro y hy
      rcases (pushDescA_mem N x y).mp hy with h1 | h1
      · exact hb y h1
      · omega

theorem LInv_next (fuel : Nat) (q : List AEntry) (N1 : List Nat) (x : Nat) (b1 b2 : Bool)
    (hx1 : x + 1 < S.length) (hf : S.length < fuel + 1 + x)
    (hqs : q.Pairwise (fun a b => a.1 < b.1)) (hqgt : ∀ en ∈ q, x < en.1) (hqb : ∀ en ∈ q, en.1 < S.length)
    (hN1s : N1.Pairwise (· < ·)) (hN1le : ∀ y ∈ N1, y ≤ x) (hN1b : ∀ y ∈ N1, y < S.length) :
    LInv S fuel (if b1 = true then pushSelfA q (x + 1) else q) (if b2 = true then N1 ++ [x + 1] else N1) := by
  have hQmem : ∀ en ∈ (if b1 = true then pushSelfA q (x + 1) else q), en ∈ q ∨ en = (x + 1, false) := by
    intro en hen
    cases b1 with
    | false => exact Or.inl (by simpa using hen)
    | true => exact pushSelfA_mem q (x + 1) en (by simpa using hen)
  have hNmem : ∀ y ∈ (if b2 = true then N1 ++ [x + 1] else N1), y ∈ N1 ∨ y = x + 1 := by
    intro y hy
    cases b2 with
    | false => exact Or.inl (by simpa using hy)
    | true => simpa using hy
  refine ⟨?_, ?_, ?_, ?_, ?_, ?_⟩
  · cases b1 with
    | false => simpa using hqs
    | true =>
      simp only [if_true]
      exact pushSelfA_sorted q (x + 1) hqs (fun en hen => hqgt en hen)
  · intro en hen
    rcases hQmem en hen with h1 | h1
    · exact hqb en h1
    · subst h1; exact hx1
  · intro en hen
    rcases hQmem en hen with h1 | h1
    · have := hqgt en h1; omega
    · subst h1; simp only; omega
  · cases b2 with
    | false => simpa using hN1s
    | true =>
      simp only [if_true]
      rw [List.pairwise_append]
      refine ⟨hN1s, by simp, ?_⟩
      intro y hy z hz
      simp at hz; subst hz
      have := hN1le y hy; omega
  · intro y hy
    rcases hNmem y hy with h1 | h1
    · exact hN1b y h1
    · omega
  · intro y hy en hen
    have hy' : y ≤ x + 1 := by
      rcases hNmem y hy with h1 | h1
      · have := hN1le y h1; omega
      · omega
    rcases hQmem en hen with h1 | h1
    · have := hqgt en h1; omega
    · subst h1; exact hy'

end

section
variable (S : List Step) (c t : LNode)

/-- the Phi equation of one loop iteration whose step passed and is not the last one -/
theorem Phi_advance (q : List AEntry) (N N1 : List Nat) (m fp : Bool) (x : Nat) (s s' : Step)
    (hs : S[x]? = some s) (hs' : S[x + 1]? = some s')
    (hna : s'.axis ≠ .attribute) (hnp : NonPositional ns (toXVars vs) s')
    (hh : hitR ns (toXVars vs) s c = true)
    (hqgt : ∀ en ∈ q, x < en.1)
    (hN1 : CHN ns vs S c t N1 = (CHN ns vs S c t N || ((isDescLike s.axis && fp) && CH ns vs S c t x))) :
    Phi ns vs S c t ((x, fp) :: q) ⟨N, m⟩ =
      Phi ns vs S c t
        (if (s'.axis == .descendantOrSelf || s'.axis == .self) = true then pushSelfA q (x + 1) else q)
        ⟨if (s'.axis != .self) = true then N1 ++ [x + 1] else N1, m⟩ := by
  have hps := pushSelfA_any ns vs S c t q (x + 1) (fun en hen => hqgt en hen)
  have hv := Vq_some ns vs S c t (x + 1) false s' hs'
  simp only [Bool.false_and, Bool.or_false] at hv
  have hdrop := reach_drop ns (toXVars vs) S (x + 1) s' hs' hnp hna c t
  have hunf := RR_unfold ns (toXVars vs) S (x + 1) s' hs' hnp hna c t
  unfold Phi
  simp only [List.any_cons]
  rw [Vq_some ns vs S c t x fp s hs, hh]
  cases hax : s'.axis with
  | «attribute» => exact absurd hax hna
  | self =>
    rw [hax] at hdrop hunf
    have e0 : (Axis.self == Axis.descendant || Axis.self == Axis.descendantOrSelf) = false := by decide
    have e1 : (Axis.self == Axis.descendantOrSelf || Axis.self == Axis.self) = true := by decide
    have e1' : (Axis.self == Axis.self || Axis.self == Axis.descendantOrSelf) = true := by decide
    have e2 : (Axis.self != Axis.self) = false := by decide
    simp only [e1', if_true] at hdrop
    simp only [e0, Bool.false_and, Bool.or_false] at hunf
    simp only [e1, e2, if_true, Bool.false_eq_true, if_false]
    rw [hdrop, hunf, hps, hv, hN1]
    generalize List.any q (Vq ns vs S c t) = A
    generalize (c.loc == t.loc) = C
    generalize CHN ns vs S c t N = D
    generalize CH ns vs S c t x = E
    generalize isDescLike s.axis = F
    generalize (hitR ns (toXVars vs) s' c && reach ns (toXVars vs) (List.drop (x + 1 + 1) S) c t) = G
    cases A <;> cases C <;> cases D <;> cases E <;> cases F <;> cases G <;> cases fp <;> cases m <;> rfl
  | descendantOrSelf =>
    rw [hax] at hdrop hunf
    have e0 : (Axis.descendantOrSelf == Axis.descendant || Axis.descendantOrSelf == Axis.descendantOrSelf) = true := by decide
    have e1 : (Axis.descendantOrSelf == Axis.descendantOrSelf || Axis.descendantOrSelf == Axis.self) = true := by decide
    have e1' : (Axis.descendantOrSelf == Axis.self || Axis.descendantOrSelf == Axis.descendantOrSelf) = true := by decide
    have e2 : (Axis.descendantOrSelf != Axis.self) = true := by decide
    simp only [e1', if_true] at hdrop
    simp only [e0, Bool.true_and] at hunf
    simp only [e1, e2, if_true]
    rw [hdrop, hunf, hps, hv, CHN_append_one, hN1]
    unfold CH
    generalize ((childrenOf c).any fun k => RR ns (toXVars vs) S (x + 1) k t) = H
    generalize ((childrenOf c).any fun k => RR ns (toXVars vs) S x k t) = E
    generalize List.any q (Vq ns vs S c t) = A
    generalize (c.loc == t.loc) = C
    generalize CHN ns vs S c t N = D
    generalize isDescLike s.axis = F
    generalize (hitR ns (toXVars vs) s' c && reach ns (toXVars vs) (List.drop (x + 1 + 1) S) c t) = G
    cases A <;> cases C <;> cases D <;> cases E <;> cases F <;> cases G <;> cases H <;> cases fp <;> cases m <;> rfl
  | child =>
    rw [hax] at hdrop
    have e1 : (Axis.child == Axis.descendantOrSelf || Axis.child == Axis.self) = false := by decide
    have e1' : (Axis.child == Axis.self || Axis.child == Axis.descendantOrSelf) = false := by decide
    have e2 : (Axis.child != Axis.self) = true := by decide
    simp only [e1', Bool.false_eq_true, if_false] at hdrop
    simp only [e1, e2, if_true, Bool.false_eq_true, if_false]
    rw [hdrop, CHN_append_one, hN1]
    unfold CH
    generalize ((childrenOf c).any fun k => RR ns (toXVars vs) S (x + 1) k t) = H
    generalize ((childrenOf c).any fun k => RR ns (toXVars vs) S x k t) = E
    generalize List.any q (Vq ns vs S c t) = A
    generalize (c.loc == t.loc) = C
    generalize CHN ns vs S c t N = D
    generalize isDescLike s.axis = F
    cases A <;> cases C <;> cases D <;> cases E <;> cases F <;> cases H <;> cases fp <;> cases m <;> rfl
  | descendant =>
    rw [hax] at hdrop
    have e1 : (Axis.descendant == Axis.descendantOrSelf || Axis.descendant == Axis.self) = false := by decide
    have e1' : (Axis.descendant == Axis.self || Axis.descendant == Axis.descendantOrSelf) = false := by decide
    have e2 : (Axis.descendant != Axis.self) = true := by decide
    simp only [e1', Bool.false_eq_true, if_false] at hdrop
    simp only [e1, e2, if_true, Bool.false_eq_true, if_false]
    rw [hdrop, CHN_append_one, hN1]
    unfold CH
    generalize ((childrenOf c).any fun k => RR ns (toXVars vs) S (x + 1) k t) = H
    generalize ((childrenOf c).any fun k => RR ns (toXVars vs) S x k t) = E
    generalize List.any q (Vq ns vs S c t) = A
    generalize (c.loc == t.loc) = C
    generalize CHN ns vs S c t N = D
    generalize isDescLike s.axis = F
    cases A <;> cases C <;> cases D <;> cases E <;> cases F <;> cases H <;> cases fp <;> cases m <;> rfl

/-- the `while pos_queue` loop keeps designating the same nodes (`Phi`), and hands a sorted
    `next_pos` to the children -/
theorem aLoop_sem (e : Event)
    (hna : ∀ s ∈ S, s.axis ≠ .attribute)
    (hnp : ∀ s ∈ S, NonPositional ns (toXVars vs) s)
    (hhit : ∀ s ∈ S, hitE ns vs s e = hitR ns (toXVars vs) s c) :
    ∀ (fuel : Nat) (Q : List AEntry) (a : AAcc), LInv S fuel Q a.nextPos →
      Phi ns vs S c t Q a = Phi ns vs S c t [] (aLoop ns vs S S.length e fuel Q a) ∧
      NOut S (aLoop ns vs S S.length e fuel Q a).nextPos := by
  intro fuel
  induction fuel with
  | zero =>
    intro Q a h
    cases Q with
    | nil => exact ⟨by simp [aLoop], h.nsrt, h.nb⟩
    | cons en q =>
      have h1 := h.qb en List.mem_cons_self
      have h2 := h.qf en List.mem_cons_self
      omega
  | succ fuel ih =>
    intro Q a h
    cases Q with
    | nil => exact ⟨by simp [aLoop], h.nsrt, h.nb⟩
    | cons en q =>
      obtain ⟨x, fp⟩ := en
      obtain ⟨N, m⟩ := a
      have hx : x < S.length := h.qb (x, fp) List.mem_cons_self
      have hfx : S.length < fuel + 1 + x := h.qf (x, fp) List.mem_cons_self
      obtain ⟨s, hs⟩ : ∃ s, S[x]? = some s := ⟨S[x], List.getElem?_eq_getElem hx⟩
      have hmem : s ∈ S := List.mem_of_getElem? hs
      have hqgt : ∀ en ∈ q, x < en.1 := fun en hen => (List.pairwise_cons.mp h.qs).1 en hen
      have hqs : q.Pairwise (fun a b => a.1 < b.1) := (List.pairwise_cons.mp h.qs).2
      have hqb : ∀ en ∈ q, en.1 < S.length := fun en hen => h.qb en (List.mem_cons_of_mem _ hen)
      obtain ⟨hN1s, hN1le, hN1b, hN1c⟩ := N1_props ns vs S c t N x (isDescLike s.axis && fp) hx h.nsrt
        (fun y hy => h.nq y hy (x, fp) List.mem_cons_self) h.nb
      have hinv1 : LInv S fuel q (if (isDescLike s.axis && fp) = true then pushDescA N x else N) :=
        ⟨hqs, hqb, fun en hen => by have := hqgt en hen; omega, hN1s, hN1b,
          fun y hy en hen => by have := hN1le y hy; have := hqgt en hen; omega⟩
      simp only [aLoop, hs, hhit s hmem]
      generalize (if (isDescLike s.axis && fp) = true then pushDescA N x else N) = N1 at *
      cases hh : hitR ns (toXVars vs) s c with
      | false =>
        simp only [Bool.not_false, if_true]
        obtain ⟨e1, e2⟩ := ih q ⟨N1, m⟩ hinv1
        refine ⟨?_, e2⟩
        rw [← e1]
        unfold Phi
        simp only [List.any_cons]
        rw [Vq_some ns vs S c t x fp s hs, hh, hN1c]
        generalize List.any q (Vq ns vs S c t) = A
        generalize (c.loc == t.loc) = C
        generalize CHN ns vs S c t N = D
        generalize CH ns vs S c t x = E
        generalize isDescLike s.axis = F
        generalize reach ns (toXVars vs) (List.drop (x + 1) S) c t = G
        cases A <;> cases C <;> cases D <;> cases E <;> cases F <;> cases G <;> cases fp <;> cases m <;> rfl
      | true =>
        simp only [Bool.not_true, Bool.false_eq_true, if_false]
        by_cases hl : (x + 1 == S.length) = true
        · simp only [hl, if_true]
          obtain ⟨e1, e2⟩ := ih q ⟨N1, true⟩ hinv1
          refine ⟨?_, e2⟩
          rw [← e1]
          have hend : S[x + 1]? = none := by
            have : x + 1 = S.length := by simpa using hl
            simp [this]
          unfold Phi
          simp only [List.any_cons]
          rw [Vq_some ns vs S c t x fp s hs, hh, hN1c, reach_drop_end ns (toXVars vs) S (x + 1) hend]
          generalize List.any q (Vq ns vs S c t) = A
          generalize (c.loc == t.loc) = C
          generalize CHN ns vs S c t N = D
          generalize CH ns vs S c t x = E
          generalize isDescLike s.axis = F
          cases A <;> cases C <;> cases D <;> cases E <;> cases F <;> cases fp <;> cases m <;> rfl
        · simp only [hl, Bool.false_eq_true, if_false]
          have hx1 : x + 1 < S.length := by
            have : x + 1 ≠ S.length := by simpa using hl
            omega
          obtain ⟨s', hs'⟩ : ∃ s', S[x + 1]? = some s' := ⟨S[x + 1], List.getElem?_eq_getElem hx1⟩
          have hmem' : s' ∈ S := List.mem_of_getElem? hs'
          simp only [hs', Option.map_some, Option.getD_some]
          have hinv2 := LInv_next S fuel q N1 x (s'.axis == .descendantOrSelf || s'.axis == .self) (s'.axis != .self)
            hx1 hfx hqs hqgt hqb hN1s hN1le hN1b
          obtain ⟨e1, e2⟩ := ih _ ⟨if (s'.axis != .self) = true then N1 ++ [x + 1] else N1, m⟩ hinv2
          refine ⟨?_, e2⟩
          rw [← e1]
          exact Phi_advance ns vs S c t q N N1 m fp x s s' hs hs' (hna s' hmem') (hnp s' hmem') hh hqgt hN1c

end

/-! ## One node, then whole trees -/

theorem selB_append (v1 v2 : List Val) (l1 l2 : List (Option LNode)) (h : v1.length = l1.length) (x : List Nat) :
    selB (v1 ++ v2) (l1 ++ l2) x = (selB v1 l1 x || selB v2 l2 x) := by
  simp only [selB, matched_append v1 v2 l1 l2 h, List.any_append]

/-- a node property that depends on the node only, for all steps of `S` -/
def HitOk (S : List Step) (n : Node) : Prop :=
  ∀ s ∈ S, ∀ loc : List Nat, hitE ns vs s (nodeEvent n) = hitR ns (toXVars vs) s ⟨loc, n⟩

section
variable (S : List Step)

/-- the loop at the event of node `c`, started from the positions handed down by the parent -/
theorem aVisit (hna : ∀ s ∈ S, s.axis ≠ .attribute) (hnp : ∀ s ∈ S, NonPositional ns (toXVars vs) s)
    (c : LNode) (hhit : HitOk ns vs S c.node) (P : List Nat) (hP : NOut S P) (fuel : Nat) (hfuel : S.length < fuel) :
    NOut S (aLoop ns vs S S.length (nodeEvent c.node) fuel (P.map fun x => (x, true)) ⟨[], false⟩).nextPos ∧
    ∀ t : LNode, P.any (fun x => RR ns (toXVars vs) S x c t) =
      (((aLoop ns vs S S.length (nodeEvent c.node) fuel (P.map fun x => (x, true)) ⟨[], false⟩).matched && c.loc == t.loc) ||
        CHN ns vs S c t (aLoop ns vs S S.length (nodeEvent c.node) fuel (P.map fun x => (x, true)) ⟨[], false⟩).nextPos) := by
  have hinv : LInv S fuel (P.map fun x => ((x, true) : AEntry)) [] := by
    refine ⟨?_, ?_, ?_, by simp, by simp, by simp⟩
    · rw [List.pairwise_map]; exact hP.1
    · intro en hen
      simp only [List.mem_map] at hen
      obtain ⟨x, hx, rfl⟩ := hen
      exact hP.2 x hx
    · intro en hen; omega
  have hh : ∀ s ∈ S, hitE ns vs s (nodeEvent c.node) = hitR ns (toXVars vs) s c := fun s hs => hhit s hs c.loc
  refine ⟨(aLoop_sem ns vs S c c (nodeEvent c.node) hna hnp hh fuel _ ⟨[], false⟩ hinv).2, fun t => ?_⟩
  have h1 := (aLoop_sem ns vs S c t (nodeEvent c.node) hna hnp hh fuel _ ⟨[], false⟩ hinv).1
  have hstart : Phi ns vs S c t (P.map fun x => ((x, true) : AEntry)) ⟨[], false⟩
      = P.any (fun x => RR ns (toXVars vs) S x c t) := by
    unfold Phi CHN
    simp only [List.any_map, List.any_nil, Bool.false_and, Bool.or_false]
    have : ((childrenOf c).any fun _ => false) = false := by
      induction childrenOf c with
      | nil => rfl
      | cons _ _ ih => simp [ih]
    rw [this, Bool.or_false]
    apply any_congr_mem
    intro x hx
    have hxl := hP.2 x hx
    obtain ⟨s, hs⟩ : ∃ s, S[x]? = some s := ⟨S[x], List.getElem?_eq_getElem hxl⟩
    have hmem : s ∈ S := List.mem_of_getElem? hs
    simp only [Function.comp]
    rw [Vq_some ns vs S c t x true s hs, RR_unfold ns (toXVars vs) S x s hs (hnp s hmem) (hna s hmem) c t]
    simp [isDescLike, CH]
  rw [← hstart, h1]
  simp [Phi]

/-- fuel and queue of `aStep` at a non-END, non-marker event -/
theorem aStep_run (F : Nat) (P : List Nat) (A : AState) (e : Event) (he : e.isEnd = false) (hm : e.isNsOrCdata = false) :
    aStep ns vs S F (P :: A) e =
      let acc := aLoop ns vs S (realLen S) e (2 * F + (P.map fun x => ((x, true) : AEntry)).length + 2)
        (P.map fun x => (x, true)) ⟨[], false⟩
      (if e.isStart then acc.nextPos :: P :: A else P :: A, if acc.matched then .bool true else .none) := by
  simp [aStep, he, hm]

theorem aStep_end (F : Nat) (st : AState) (tg : QName) : aStep ns vs S F st (.end_ tg) = (st.drop 1, .none) := by
  simp [aStep, Event.isEnd]

end

mutual
  /-- the abstract matcher over the events of a tree, started with the positions `P` for its
      root: the stack is restored, and the marked nodes are those reached from `P` -/
  theorem aTree (ns : NsMap) (vs : Vars) (S : List Step) (F : Nat) (hF : S.length ≤ F) (hrl : realLen S = S.length) (hna : ∀ s ∈ S, s.axis ≠ .attribute)
      (hnp : ∀ s ∈ S, NonPositional ns (toXVars vs) s) :
      ∀ (n : Node), n.clean = true → AllNodes (HitOk ns vs S) n → ∀ (loc : List Nat) (P : List Nat) (A : AState),
        NOut S P →
        (runOne (aStep ns vs S F) (P :: A) n.flatten).2 = P :: A ∧
        ∀ t : LNode, selB (runOne (aStep ns vs S F) (P :: A) n.flatten).1 (eventLocs n loc) t.loc
          = P.any fun x => RR ns (toXVars vs) S x ⟨loc, n⟩ t
    | .elem tg ats ks, hcl, hall, loc, P, A, hP => by
        have hv := aVisit ns vs S hna hnp ⟨loc, .elem tg ats ks⟩ hall.1 P hP
          (2 * F + (P.map fun x => ((x, true) : AEntry)).length + 2) (by omega)
        have hrun := aStep_run ns vs S F P A (.start tg ats) rfl rfl
        rw [hrl] at hrun
        simp only [Event.isStart, if_true] at hrun
        simp only [nodeEvent] at hv
        have hk := aTreeList ns vs S F hF hrl hna hnp ks (by simpa [Node.clean] using hcl) hall.2 loc 0 _ (P :: A) hv.1
        simp only [Node.flatten, eventLocs, runOne_cons, runOne_append]
        rw [hrun]
        simp only []
        rw [hk.1]
        refine ⟨by simp [runOne, aStep_end], fun t => ?_⟩
        rw [selB_cons, selB_append _ _ _ _ (by rw [runOne_length, eventLocsList_length]), hk.2 t, hv.2 t]
        simp [runOne, aStep_end, selB, matched, CHN, childrenOf, Val.truthy]
        cases (aLoop ns vs S S.length (Event.start tg ats) (2 * F + P.length + 2)
          (List.map (fun x => (x, true)) P) ⟨[], false⟩).matched <;> simp [Val.truthy]
    | .leaf e, hcl, hall, loc, P, A, hP => by
        simp only [Node.clean, Bool.and_eq_true, Bool.not_eq_true'] at hcl
        obtain ⟨hend, hstart⟩ := isEnd_of_not_startEnd hcl.1
        have hv := aVisit ns vs S hna hnp ⟨loc, .leaf e⟩ hall P hP
          (2 * F + (P.map fun x => ((x, true) : AEntry)).length + 2) (by omega)
        have hrun := aStep_run ns vs S F P A e hend hcl.2
        rw [hrl] at hrun
        simp only [hstart, Bool.false_eq_true, if_false] at hrun
        simp only [nodeEvent] at hv
        simp only [Node.flatten, eventLocs, runOne_cons, hrun]
        refine ⟨by simp [runOne], fun t => ?_⟩
        rw [hv.2 t]
        simp [runOne, selB, matched, CHN, childrenOf]
        cases (aLoop ns vs S S.length e (2 * F + P.length + 2)
          (List.map (fun x => (x, true)) P) ⟨[], false⟩).matched <;> simp [Val.truthy]
  theorem aTreeList (ns : NsMap) (vs : Vars) (S : List Step) (F : Nat) (hF : S.length ≤ F) (hrl : realLen S = S.length) (hna : ∀ s ∈ S, s.axis ≠ .attribute)
      (hnp : ∀ s ∈ S, NonPositional ns (toXVars vs) s) :
      ∀ (ks : List Node), cleanList ks = true → AllList (HitOk ns vs S) ks → ∀ (loc : List Nat) (i : Nat)
        (N : List Nat) (A : AState), NOut S N →
        (runOne (aStep ns vs S F) (N :: A) (flattenList ks)).2 = N :: A ∧
        ∀ t : LNode, selB (runOne (aStep ns vs S F) (N :: A) (flattenList ks)).1 (eventLocsList ks loc i) t.loc
          = ((ks.zipIdx i).map fun (k, j) => (⟨loc ++ [j], k⟩ : LNode)).any
              fun k => N.any fun y => RR ns (toXVars vs) S y k t
    | [], _, _, loc, i, N, A, _ => by simp [Genshi.flattenList, eventLocsList, runOne, selB, matched]
    | k :: ks, hcl, hall, loc, i, N, A, hN => by
        simp only [cleanList, Bool.and_eq_true] at hcl
        have h1 := aTree ns vs S F hF hrl hna hnp k hcl.1 hall.1 (loc ++ [i]) N A hN
        have h2 := aTreeList ns vs S F hF hrl hna hnp ks hcl.2 hall.2 loc (i + 1) N A hN
        simp only [Genshi.flattenList, eventLocsList, runOne_append]
        rw [h1.1]
        refine ⟨h2.1, fun t => ?_⟩
        rw [selB_append _ _ _ _ (by rw [runOne_length, eventLocs_length]), h1.2 t, h2.2 t]
        simp [List.zipIdx_cons]
end

mutual
  theorem AllNodes.imp {P Q : Node → Prop} (h : ∀ n, P n → Q n) : ∀ (n : Node), AllNodes P n → AllNodes Q n
    | .elem _ _ ks, hn => ⟨h _ hn.1, AllList.imp h ks hn.2⟩
    | .leaf _, hn => h _ hn
  theorem AllList.imp {P Q : Node → Prop} (h : ∀ n, P n → Q n) : ∀ (ks : List Node), AllList P ks → AllList Q ks
    | [], _ => trivial
    | k :: ks, hk => ⟨AllNodes.imp h k hk.1, AllList.imp h ks hk.2⟩
end

/-- the static hypotheses on a step list without position tests -/
structure StepsOk (S : List Step) : Prop where
  ne : 0 < S.length
  na : ∀ s ∈ S, s.axis ≠ .attribute
  wf : ∀ s ∈ S, s.test.elemWf ns
  typed : ∀ s ∈ S, ∀ q ∈ s.preds, q.typed ns vs = true
  nonpos : ∀ s ∈ S, ∀ q ∈ s.preds, q.numTyped vs = false

theorem StepsOk.realLen {S : List Step} (h : StepsOk ns vs S) : realLen S = S.length := by
  unfold Genshi.Path.realLen
  cases hl : S.getLast? with
  | none => have := List.getLast?_eq_none_iff.mp hl; have := h.ne; simp_all
  | some last =>
    have := h.na last (List.mem_of_getLast? hl)
    simp [this]

theorem StepsOk.lastResult {S : List Step} (h : StepsOk ns vs S) (e : Event) : lastResult S e ns = .bool true := by
  unfold Genshi.Path.lastResult
  cases hl : S.getLast? with
  | none => rfl
  | some last =>
    have := h.na last (List.mem_of_getLast? hl)
    simp [this]

theorem StepsOk.hitOk {S : List Step} (h : StepsOk ns vs S) (n : Node) (hn : NodeFor S ns vs n) :
    HitOk ns vs S n := by
  intro s hs loc
  obtain ⟨hok, htag, hleaf, hab⟩ := hn
  exact hitE_eq_hitR ns vs s (h.wf s hs) (h.typed s hs) (h.nonpos s hs) ⟨loc, n⟩ hok htag
    (by cases n <;> simp_all) (hab s hs)

/-- **GenericStrategy without position tests.**  Over the events of an element tree the
    matcher reports `True` exactly at the nodes the reference semantics reaches from the root
    with the step list (first step taken as a test of the root itself). -/
theorem generic_nonpos_marks (S : List Step) (h : StepsOk ns vs S) (root : Node) (hcl : root.clean = true)
    (hnodes : AllNodes (NodeFor S ns vs) root) (t : LNode) :
    selB (runOne (gStep S ns vs) gInit root.flatten).1 (eventLocs root []) t.loc
      = RR ns (toXVars vs) S 0 ⟨[], root⟩ t := by
  have hrl := h.realLen ns vs
  have htake : S.take (realLen S) = S := by rw [hrl]; exact List.take_length
  have hnpm : NoPositional ns vs (S.take (realLen S)) := by
    rw [htake]
    intro s hs q hq e
    rw [isNum_eval, h.nonpos s hs q hq]
  rw [generic_eq_abstract ns vs S (by rw [htake]) hnpm (by rw [hrl]; exact h.ne)]
  have hlast : (fun e v => gate (lastResult S e ns) v) = fun (_ : Event) v => gate (.bool true) v := by
    funext e v; rw [h.lastResult ns vs e]
  rw [hlast, htake, zipWith_gate_true]
  have hnpr : ∀ s ∈ S, NonPositional ns (toXVars vs) s :=
    fun s hs => nonpositional_of_numTyped ns vs s (h.typed s hs) (h.nonpos s hs)
  have htree := aTree ns vs S S.length (Nat.le_refl _) hrl h.na hnpr root hcl
    (AllNodes.imp (fun n hn => h.hitOk ns vs n hn) root hnodes) [] [0] []
    ⟨by simp, by intro y hy; simp at hy; subst hy; exact h.ne⟩
  rw [htree.2 t]
  simp

end
end Genshi.Path

/-
  C13 — the hypothesis of `indentation_read_back` from a condition on the tree: when every
  identifier is non-empty and free of whitespace and every literal / operator text is free of
  newlines (`charsOK`), no expression text contains a newline, and an expression (not a helper
  node) never starts with whitespace.
-/
import Genshi.Lemmas.PyLayout
import Genshi.Lemmas.PyParseS2
set_option linter.unusedSimpArgs false
namespace Genshi.Py
open Genshi.Gen

/-- free of newlines -/
def nlFree (s : List Char) : Bool := !s.contains '\n'

/-- non-empty and the first character is not whitespace -/
def headOKc : List Char → Bool
  | [] => false
  | c :: _ => !isPySpace c

def identOK (s : Str) : Bool := !s.isEmpty && s.all (fun c => !isPySpace c)

theorem nlFree_append (a b : List Char) : nlFree (a ++ b) = (nlFree a && nlFree b) := by
  simp only [nlFree, List.contains_eq_mem, List.mem_append]
  by_cases h1 : '\n' ∈ a <;> by_cases h2 : '\n' ∈ b <;> simp [h1, h2]

theorem nlFree_cons (c : Char) (a : List Char) : nlFree (c :: a) = (decide (c ≠ '\n') && nlFree a) := by
  simp only [nlFree, List.contains_eq_mem, List.mem_cons]
  by_cases h1 : c = '\n' <;> by_cases h2 : '\n' ∈ a <;> simp [h1, h2, eq_comm]

theorem nlFree_nil : nlFree [] = true := rfl

theorem nlFree_ident {s : Str} (h : identOK s = true) : nlFree s = true := by
  simp only [identOK, Bool.and_eq_true, List.all_eq_true] at h
  simp only [nlFree, Bool.not_eq_true', List.contains_eq_mem, decide_eq_false_iff_not]
  intro hm
  have := h.2 _ hm
  simp [isPySpace] at this

theorem headOKc_ident {s : Str} (h : identOK s = true) : headOKc s = true := by
  cases s with
  | nil => simp [identOK] at h
  | cons c r =>
    simp only [identOK, Bool.and_eq_true, List.all_cons] at h
    exact h.2.1

theorem headOKc_append {a : List Char} (b : List Char) (h : headOKc a = true) : headOKc (a ++ b) = true := by
  cases a with
  | nil => simp [headOKc] at h
  | cons c r => exact h

theorem nlFree_drop (n : Nat) (a : List Char) (h : nlFree a = true) : nlFree (a.drop n) = true := by
  simp only [nlFree, Bool.not_eq_true', List.contains_eq_mem, decide_eq_false_iff_not] at h ⊢
  exact fun hm => h (List.mem_of_mem_drop hm)

mutual
/-- identifiers without whitespace, literal and operator texts without newline -/
def charsOK : PyExpr → Bool
  | .name id => identOK id
  | .const c => nlFree (constC c) && headOKc (constC c)
  | .boolOp op vs => nlFree (symText AstGen.boolOperators op) && charsOKL vs
  | .binOp l op r => nlFree (symText AstGen.binaryOperators op) && charsOK l && charsOK r
  | .unaryOp op e => nlFree (symText AstGen.unaryOperators op) && charsOK e
  | .lambda po ar va ko ka body => charsOKL po && charsOKL ar && charsOKO va && charsOKL ko && charsOKO ka && charsOK body
  | .ifExp t b o => charsOK t && charsOK b && charsOK o
  | .dict items => charsOKL items
  | .listComp elt gens => charsOK elt && charsOKL gens
  | .genExp elt gens => charsOK elt && charsOKL gens
  | .yield_ v => charsOKO v
  | .compare l rest => charsOK l && charsOKL rest
  | .call f args kws => charsOK f && charsOKL args && charsOKL kws
  | .attribute v a => charsOK v && identOK a
  | .subscript v s => charsOK v && charsOK s
  | .slice l u st => charsOKO l && charsOKO u && charsOKO st
  | .starred e => charsOK e
  | .list elts => charsOKL elts
  | .tuple elts => charsOKL elts
  | .unsupported _ => true
  | .keyword none v => charsOK v
  | .keyword (some n) v => identOK n && charsOK v
  | .comp t it ifs _ => charsOK t && charsOK it && charsOKL ifs
  | .param n ann d => identOK n && charsOKO ann && charsOKO d
  | .dictItem k v => charsOKO k && charsOK v
  | .cmpRhs op e => nlFree (symText AstGen.comparisonOperators op) && charsOK e
def charsOKL : List PyExpr → Bool
  | [] => true
  | e :: es => charsOK e && charsOKL es
def charsOKO : Option PyExpr → Bool
  | none => true
  | some e => charsOK e
end

theorem nlFree_wrapC (k : Str) (s : List Char) (h : nlFree s = true) : nlFree (wrapC k s) = true := by
  unfold wrapC
  split
  · simp only [nlFree_cons, nlFree_append, h]; decide
  · exact h

macro "nl_close" "[" ts:Lean.Parser.Tactic.simpLemma,* "]" : tactic =>
  `(tactic| (simp only [nlFree_append, nlFree_cons, nlFree_nil, List.cons_append, List.nil_append, $ts,*]; first | done | decide))

mutual
theorem nlFree_genC : ∀ (e : PyExpr), charsOK e = true → nlFree (genC e) = true
  | .name id, h => by simp only [charsOK] at h; simp only [genC]; exact nlFree_ident h
  | .const c, h => by simp only [charsOK, Bool.and_eq_true] at h; simp only [genC]; exact h.1
  | .boolOp op vs, h => by
      simp only [charsOK, Bool.and_eq_true] at h
      cases vs with
      | nil => simp only [genC]; exact nlFree_wrapC _ _ rfl
      | cons v rest =>
        simp only [charsOKL, Bool.and_eq_true] at h
        simp only [genC]
        apply nlFree_wrapC
        have hp : nlFree (' ' :: (symText AstGen.boolOperators op ++ [' '])) = true := by nl_close [h.1]
        nl_close [nlFree_genC v h.2.1, nlFree_genListC _ [] rest hp rfl h.2.2]
  | .binOp l op r, h => by
      simp only [charsOK, Bool.and_eq_true] at h
      simp only [genC]
      apply nlFree_wrapC
      nl_close [nlFree_genC l h.1.2, nlFree_genC r h.2, h.1.1]
  | .unaryOp op e, h => by
      simp only [charsOK, Bool.and_eq_true] at h
      simp only [genC]
      apply nlFree_wrapC
      nl_close [nlFree_genC e h.2, h.1]
  | .lambda po ar va ko ka body, h => by
      simp only [charsOK, Bool.and_eq_true] at h
      obtain ⟨⟨⟨⟨⟨h1, h2⟩, h3⟩, h4⟩, h5⟩, h6⟩ := h
      simp only [genC]
      apply nlFree_wrapC
      have hp : nlFree (paramsC (genListC cs!", " [] po) po.isEmpty (genListC cs!", " [] ar)
          (varargC (genOptC cs!", *" va) va.isNone ko.isEmpty) (genListC cs!", " [] ko) (genOptC cs!", **" ka)) = true := by
        unfold paramsC
        apply nlFree_drop
        have hv : nlFree (varargC (genOptC cs!", *" va) va.isNone ko.isEmpty) = true := by
          unfold varargC
          split
          · exact nlFree_genOptC cs!", *" va rfl h3
          · split <;> rfl
        have hs : nlFree (if po.isEmpty = true then [] else cs!", /") = true := by split <;> rfl
        nl_close [nlFree_genListC cs!", " [] po rfl rfl h1, nlFree_genListC cs!", " [] ar rfl rfl h2, hv,
          nlFree_genListC cs!", " [] ko rfl rfl h4, nlFree_genOptC cs!", **" ka rfl h5, hs]
      nl_close [hp, nlFree_genC body h6]
  | .ifExp t b o, h => by
      simp only [charsOK, Bool.and_eq_true] at h
      simp only [genC]
      apply nlFree_wrapC
      nl_close [nlFree_genC t h.1.1, nlFree_genC b h.1.2, nlFree_genC o h.2]
  | .dict items, h => by
      simp only [charsOK] at h
      simp only [genC]
      nl_close [nlFree_genListC [] cs!", " items rfl rfl h]
  | .listComp elt gens, h => by
      simp only [charsOK, Bool.and_eq_true] at h
      simp only [genC]
      nl_close [nlFree_genC elt h.1, nlFree_genListC [] [] gens rfl rfl h.2]
  | .genExp elt gens, h => by
      simp only [charsOK, Bool.and_eq_true] at h
      simp only [genC]
      nl_close [nlFree_genC elt h.1, nlFree_genListC [] [] gens rfl rfl h.2]
  | .yield_ v, h => by
      simp only [charsOK] at h
      simp only [genC]
      apply nlFree_wrapC
      nl_close [nlFree_genOptC [' '] v rfl h]
  | .compare l rest, h => by
      simp only [charsOK, Bool.and_eq_true] at h
      simp only [genC]
      apply nlFree_wrapC
      nl_close [nlFree_genC l h.1, nlFree_genListC [] [] rest rfl rfl h.2]
  | .call f args kws, h => by
      simp only [charsOK, Bool.and_eq_true] at h
      simp only [genC]
      have hd : nlFree ((genListC cs!", " [] args ++ genListC cs!", " [] kws).drop 2) = true :=
        nlFree_drop _ _ (by nl_close [nlFree_genListC cs!", " [] args rfl rfl h.1.2, nlFree_genListC cs!", " [] kws rfl rfl h.2])
      nl_close [nlFree_genC f h.1.1, hd]
  | .attribute v a, h => by
      simp only [charsOK, Bool.and_eq_true] at h
      simp only [genC]
      nl_close [nlFree_genC v h.1, nlFree_ident h.2]
  | .subscript v s, h => by
      simp only [charsOK, Bool.and_eq_true] at h
      have hv := nlFree_genC v h.1
      have hs := nlFree_genC s h.2
      have : ∃ A, genC (.subscript v s) = genC v ++ '[' :: (A ++ [']']) ∧ nlFree A = true := by
        cases s with
        | const c =>
          obtain ⟨k, t⟩ := c
          cases k
          case ellipsis => exact ⟨cs!"...", by simp [genC], rfl⟩
          all_goals exact ⟨_, by simp only [genC], hs⟩
        | _ => exact ⟨_, by simp only [genC], hs⟩
      obtain ⟨A, hg, hA⟩ := this
      rw [hg]
      nl_close [hv, hA]
  | .slice l u st, h => by
      simp only [charsOK, Bool.and_eq_true] at h
      simp only [genC]
      nl_close [nlFree_genOptC [] l rfl h.1.1, nlFree_genOptC [] u rfl h.1.2, nlFree_genOptC [':'] st rfl h.2]
  | .starred e, h => by
      simp only [charsOK] at h
      simp only [genC]
      nl_close [nlFree_genC e h]
  | .list elts, h => by
      simp only [charsOK] at h
      simp only [genC]
      nl_close [nlFree_genListC [] cs!", " elts rfl rfl h]
  | .tuple elts, h => by
      simp only [charsOK] at h
      simp only [genC]
      nl_close [nlFree_genListC [] cs!", " elts rfl rfl h]
  | .unsupported _, _ => rfl
  | .keyword none v, h => by
      simp only [charsOK] at h
      simp only [genC]
      nl_close [nlFree_genC v h]
  | .keyword (some n) v, h => by
      simp only [charsOK, Bool.and_eq_true] at h
      simp only [genC]
      nl_close [nlFree_ident h.1, nlFree_genC v h.2]
  | .comp t it ifs a, h => by
      simp only [charsOK, Bool.and_eq_true] at h
      simp only [genC]
      have ha : nlFree (if a = true then cs!" async" else []) = true := by split <;> rfl
      nl_close [ha, nlFree_genC t h.1.1, nlFree_genC it h.1.2, nlFree_genListC cs!" if " [] ifs rfl rfl h.2]
  | .param n ann d, h => by
      simp only [charsOK, Bool.and_eq_true] at h
      simp only [genC]
      nl_close [nlFree_ident h.1.1, nlFree_genOptC cs!": " ann rfl h.1.2, nlFree_genOptC ['='] d rfl h.2]
  | .dictItem k v, h => by
      simp only [charsOK, Bool.and_eq_true] at h
      simp only [genC]
      nl_close [nlFree_genOptC [] k rfl h.1, nlFree_genC v h.2]
  | .cmpRhs op e, h => by
      simp only [charsOK, Bool.and_eq_true] at h
      simp only [genC]
      nl_close [h.1, nlFree_genC e h.2]
theorem nlFree_genListC : ∀ (pre post : List Char) (es : List PyExpr), nlFree pre = true → nlFree post = true →
    charsOKL es = true → nlFree (genListC pre post es) = true
  | _, _, [], _, _, _ => rfl
  | pre, post, e :: es, h1, h2, h => by
      simp only [charsOKL, Bool.and_eq_true] at h
      simp only [genListC, nlFree_append, Bool.and_eq_true]
      exact ⟨⟨⟨h1, nlFree_genC e h.1⟩, h2⟩, nlFree_genListC pre post es h1 h2 h.2⟩
theorem nlFree_genOptC : ∀ (pre : List Char) (o : Option PyExpr), nlFree pre = true → charsOKO o = true →
    nlFree (genOptC pre o) = true
  | _, none, _, _ => rfl
  | pre, some e, h1, h => by
      simp only [charsOKO] at h
      simp only [genOptC, nlFree_append, Bool.and_eq_true]
      exact ⟨h1, nlFree_genC e h⟩
end

/-! ### an expression never starts with whitespace -/

theorem headOKc_wrapC {k : Str} (hk : parenthesised k = true) (s : List Char) : headOKc (wrapC k s) = true := by
  simp [wrapC, hk, headOKc, isPySpace]

theorem headOKc_genC : ∀ (e : PyExpr), WF e → isExpr e = true → charsOK e = true → headOKc (genC e) = true
  | .name id, _, _, h => by simp only [charsOK] at h; simp only [genC]; exact headOKc_ident h
  | .const c, _, _, h => by simp only [charsOK, Bool.and_eq_true] at h; simp only [genC]; exact h.2
  | .boolOp _ vs, _, _, _ => by cases vs <;> (simp only [genC]; exact headOKc_wrapC parens_all.1 _)
  | .binOp _ _ _, _, _, _ => by simp only [genC]; exact headOKc_wrapC parens_all.2.1 _
  | .unaryOp _ _, _, _, _ => by simp only [genC]; exact headOKc_wrapC parens_all.2.2.1 _
  | .lambda _ _ _ _ _ _, _, _, _ => by simp only [genC]; exact headOKc_wrapC parens_all.2.2.2.1 _
  | .ifExp _ _ _, _, _, _ => by simp only [genC]; exact headOKc_wrapC parens_all.2.2.2.2.1 _
  | .yield_ _, _, _, _ => by simp only [genC]; exact headOKc_wrapC parens_all.2.2.2.2.2.1 _
  | .compare _ _, _, _, _ => by simp only [genC]; exact headOKc_wrapC parens_all.2.2.2.2.2.2 _
  | .dict _, _, _, _ => by simp [genC, headOKc, isPySpace]
  | .listComp _ _, _, _, _ => by simp [genC, headOKc, isPySpace]
  | .genExp _ _, _, _, _ => by simp [genC, headOKc, isPySpace]
  | .list _, _, _, _ => by simp [genC, headOKc, isPySpace]
  | .tuple _, _, _, _ => by simp [genC, headOKc, isPySpace]
  | .call f _ _, hw, _, h => by
      simp only [WF] at hw
      simp only [charsOK, Bool.and_eq_true] at h
      simp only [genC]
      exact headOKc_append _ (headOKc_genC f hw.1 hw.2.1 h.1.1)
  | .attribute v _, hw, _, h => by
      simp only [WF] at hw
      simp only [charsOK, Bool.and_eq_true] at h
      simp only [genC]
      exact headOKc_append _ (headOKc_genC v hw.1 hw.2.1 h.1)
  | .subscript v s, hw, _, h => by
      simp only [WF] at hw
      simp only [charsOK, Bool.and_eq_true] at h
      have hv := headOKc_genC v hw.1 hw.2.1 h.1
      cases s with
      | const c =>
        obtain ⟨k, t⟩ := c
        cases k <;> (simp only [genC]; exact headOKc_append _ hv)
      | _ => simp only [genC]; exact headOKc_append _ hv
  | .slice _ _ _, _, he, _ => by simp [isExpr] at he
  | .starred _, _, he, _ => by simp [isExpr] at he
  | .unsupported _, _, he, _ => by simp [isExpr] at he
  | .keyword _ _, _, he, _ => by simp [isExpr] at he
  | .comp _ _ _ _, _, he, _ => by simp [isExpr] at he
  | .param _ _ _, _, he, _ => by simp [isExpr] at he
  | .dictItem _ _, _, he, _ => by simp [isExpr] at he
  | .cmpRhs _ _, _, he, _ => by simp [isExpr] at he

theorem lineOKb_of {i : Nat} {t : List Char} (h1 : nlFree t = true) (h2 : headOKc t = true) : lineOKb ⟨i, t⟩ = true := by
  cases t with
  | nil => simp [headOKc] at h2
  | cons c r =>
    simp only [nlFree] at h1
    simp only [headOKc] at h2
    simp only [lineOKb, Bool.and_eq_true]
    exact ⟨h1, h2⟩

theorem lineOKb_blank (i : Nat) : lineOKb ⟨i, []⟩ = true := rfl

/-! ### statements -/

def aliasOKc : Str × Option Str → Bool
  | (n, none) => nlFree n
  | (n, some a) => nlFree n && nlFree a

def itemsOKc : List (PyExpr × Option PyExpr) → Bool
  | [] => true
  | (c, v) :: r => charsOK c && charsOKO v && itemsOKc r

mutual
def charsOKS : PyStmt → Bool
  | .expr e => charsOK e
  | .assign ts v => charsOKL ts && charsOK v
  | .augAssign t op v => nlFree (symText AstGen.binaryOperators op) && charsOK t && charsOK v
  | .return_ v => charsOKO v
  | .delete ts => charsOKL ts
  | .pass_ | .break_ | .continue_ => true
  | .assert_ t m => charsOK t && charsOKO m
  | .raise_ e c => charsOKO e && charsOKO c
  | .global_ ns => ns.all nlFree
  | .import_ ns => ns.all aliasOKc
  | .importFrom m ns _ => nlFree (m.getD []) && ns.all aliasOKc
  | .if_ t b o => charsOK t && charsOKB b && charsOKB o
  | .while_ t b o => charsOK t && charsOKB b && charsOKB o
  | .for_ t it b o => charsOK t && charsOK it && charsOKB b && charsOKB o
  | .with_ items b => itemsOKc items && charsOKB b
  | .try_ b hs o f => charsOKB b && charsOKB hs && charsOKB o && charsOKB f
  | .handler t n b => charsOKO t && nlFree (n.getD []) && charsOKB b
  | .functionDef name po ar va ko ka body decos ret _ =>
      nlFree name && charsOKL po && charsOKL ar && charsOKO va && charsOKL ko && charsOKO ka && charsOKB body
        && charsOKL decos && charsOKO ret
  | .classDef name bases kws body decos _ => nlFree name && charsOKL bases && charsOKL kws && charsOKB body && charsOKL decos
  | .unsupported _ => true
def charsOKB : List PyStmt → Bool
  | [] => true
  | s :: ss => charsOKS s && charsOKB ss
end

theorem nlFree_joinC (sep : List Char) (hs : nlFree sep = true) (xs : List (List Char)) (h : ∀ x ∈ xs, nlFree x = true) :
    nlFree (joinC sep xs) = true := by
  induction xs with
  | nil => rfl
  | cons x r ih =>
    cases r with
    | nil => simpa [joinC] using h x (by simp)
    | cons y r' =>
      simp only [joinC, nlFree_append, Bool.and_eq_true]
      exact ⟨⟨h x (by simp), hs⟩, ih (fun z hz => h z (by simp [hz]))⟩

theorem nlFree_aliasC {p : Str × Option Str} (h : aliasOKc p = true) : nlFree (aliasC p) = true := by
  obtain ⟨n, a⟩ := p
  cases a with
  | none => exact h
  | some a =>
    simp only [aliasOKc, Bool.and_eq_true] at h
    simp only [aliasC]
    nl_close [h.1, h.2]

theorem nlFree_aliases (ns : List (Str × Option Str)) (h : ns.all aliasOKc = true) :
    nlFree (joinC cs!", " (ns.map aliasC)) = true := by
  apply nlFree_joinC _ rfl
  intro x hx
  obtain ⟨p, hp, rfl⟩ := List.mem_map.mp hx
  exact nlFree_aliasC (List.all_eq_true.mp h p hp)

theorem nlFree_withItem (items : List (PyExpr × Option PyExpr)) (h : itemsOKc items = true) :
    ∀ p ∈ items, nlFree (withItemC p) = true := by
  induction items with
  | nil => intro p hp; simp at hp
  | cons q r ih =>
    obtain ⟨c, v⟩ := q
    simp only [itemsOKc, Bool.and_eq_true] at h
    intro p hp
    rcases List.mem_cons.mp hp with rfl | hp'
    · cases v with
      | none => exact nlFree_genC c h.1.1
      | some t =>
        simp only [withItemC]
        nl_close [nlFree_genC c h.1.1, nlFree_genC t h.1.2]
    · exact ih h.2 p hp'

theorem nlFree_withItems (items : List (PyExpr × Option PyExpr)) (h : itemsOKc items = true) :
    nlFree (joinC cs!", " (items.map withItemC)) = true := by
  apply nlFree_joinC _ rfl
  intro x hx
  obtain ⟨p, hp, rfl⟩ := List.mem_map.mp hx
  exact nlFree_withItem items h p hp

theorem nlFree_reprs (ns : List Str) (h : ns.all nlFree = true) : nlFree (joinC cs!", " (ns.map reprC)) = true := by
  apply nlFree_joinC _ rfl
  intro x hx
  obtain ⟨p, hp, rfl⟩ := List.mem_map.mp hx
  have := List.all_eq_true.mp h p hp
  simp only [reprC]
  nl_close [this]

theorem nlFree_genParamsC (po ar : List PyExpr) (va : Option PyExpr) (ko : List PyExpr) (ka : Option PyExpr)
    (h1 : charsOKL po = true) (h2 : charsOKL ar = true) (h3 : charsOKO va = true) (h4 : charsOKL ko = true)
    (h5 : charsOKO ka = true) : nlFree (genParamsC po ar va ko ka) = true := by
  unfold genParamsC paramsC
  apply nlFree_drop
  have hv : nlFree (varargC (genOptC cs!", *" va) va.isNone ko.isEmpty) = true := by
    unfold varargC
    split
    · exact nlFree_genOptC cs!", *" va rfl h3
    · split <;> rfl
  have hs : nlFree (if po.isEmpty = true then [] else cs!", /") = true := by split <;> rfl
  nl_close [nlFree_genListC cs!", " [] po rfl rfl h1, nlFree_genListC cs!", " [] ar rfl rfl h2, hv,
    nlFree_genListC cs!", " [] ko rfl rfl h4, nlFree_genOptC cs!", **" ka rfl h5, hs]

theorem nlFree_classArgsC (bases kws : List PyExpr) (h1 : charsOKL bases = true) (h2 : charsOKL kws = true) :
    nlFree (classArgsC bases kws) = true := by
  unfold classArgsC
  split
  · rfl
  · have hd : nlFree ((genListC cs!", " [] bases ++ genListC cs!", " [] kws).drop 2) = true :=
      nlFree_drop _ _ (by nl_close [nlFree_genListC cs!", " [] bases rfl rfl h1, nlFree_genListC cs!", " [] kws rfl rfl h2])
    nl_close [hd]

theorem charsOKL_of_mem {es : List PyExpr} (h : charsOKL es = true) : ∀ e ∈ es, charsOK e = true := by
  induction es with
  | nil => intro e he; simp at he
  | cons x r ih =>
    simp only [charsOKL, Bool.and_eq_true] at h
    intro e he
    rcases List.mem_cons.mp he with rfl | he'
    · exact h.1
    · exact ih h.2 e he'

theorem decos_ok (ind : Nat) (decos : List PyExpr) (h : charsOKL decos = true) :
    (decos.map fun d => (⟨ind, '@' :: genC d⟩ : PLine)).all lineOKb = true := by
  simp only [List.all_map, List.all_eq_true]
  intro d hd
  exact lineOKb_of (by nl_close [nlFree_genC d (charsOKL_of_mem h d hd)]) (by simp [headOKc, isPySpace])

theorem supported_headC {e : PyExpr} (hs : Supported e) (hc : charsOK e = true) : headOKc (genC e) = true :=
  headOKc_genC e hs.1 hs.2 hc

macro "kw_head" : tactic => `(tactic| simp [headOKc, isPySpace])

mutual
theorem linesOK_stmt : ∀ (s : PyStmt) (ind : Nat), WFS s → charsOKS s = true → (genStmtC ind s).all lineOKb = true
  | .expr e, ind, hw, h => by
      simp only [WFS] at hw
      simp only [charsOKS] at h
      simp only [genStmtC, List.all_cons, List.all_nil, Bool.and_true]
      exact lineOKb_of (nlFree_genC e h) (supported_headC hw h)
  | .assign ts v, ind, hw, h => by
      simp only [WFS] at hw
      simp only [charsOKS, Bool.and_eq_true] at h
      simp only [genStmtC, List.all_cons, List.all_nil, Bool.and_true]
      refine lineOKb_of (by nl_close [nlFree_genListC [] cs!" = " ts rfl rfl h.1, nlFree_genC v h.2]) ?_
      cases ts with
      | nil => exact absurd rfl hw.1
      | cons t r =>
        simp only [charsOKL, Bool.and_eq_true] at h
        simp only [genListC, List.nil_append, List.append_assoc]
        exact headOKc_append _ (supported_headC (hw.2.1 t (by simp)) h.1.1)
  | .augAssign t op v, ind, hw, h => by
      simp only [WFS] at hw
      simp only [charsOKS, Bool.and_eq_true] at h
      simp only [genStmtC, List.all_cons, List.all_nil, Bool.and_true]
      refine lineOKb_of (by simp only [augOpC]; nl_close [nlFree_genC t h.1.2, nlFree_genC v h.2, h.1.1]) ?_
      rw [List.append_assoc]
      exact headOKc_append _ (supported_headC hw.2.1 h.1.2)
  | .return_ v, ind, _, h => by
      simp only [charsOKS] at h
      simp only [genStmtC, List.all_cons, List.all_nil, Bool.and_true]
      exact lineOKb_of (by nl_close [nlFree_genOptC [' '] v rfl h]) (by kw_head)
  | .delete ts, ind, _, h => by
      simp only [charsOKS] at h
      simp only [genStmtC, List.all_cons, List.all_nil, Bool.and_true]
      have hd := nlFree_drop 2 _ (nlFree_genListC cs!", " [] ts rfl rfl h)
      exact lineOKb_of (by nl_close [hd]) (by kw_head)
  | .pass_, ind, _, _ => by simp [genStmtC, lineOKb, isPySpace]
  | .break_, ind, _, _ => by simp [genStmtC, lineOKb, isPySpace]
  | .continue_, ind, _, _ => by simp [genStmtC, lineOKb, isPySpace]
  | .assert_ t m, ind, _, h => by
      simp only [charsOKS, Bool.and_eq_true] at h
      simp only [genStmtC, List.all_cons, List.all_nil, Bool.and_true]
      exact lineOKb_of (by nl_close [nlFree_genC t h.1, nlFree_genOptC cs!", " m rfl h.2]) (by kw_head)
  | .raise_ e c, ind, _, h => by
      simp only [charsOKS, Bool.and_eq_true] at h
      cases e with
      | none => simp [genStmtC, lineOKb, isPySpace]
      | some x =>
        simp only [charsOKO] at h
        simp only [genStmtC, List.all_cons, List.all_nil, Bool.and_true]
        exact lineOKb_of (by nl_close [nlFree_genC x h.1, nlFree_genOptC cs!" from " c rfl h.2]) (by kw_head)
  | .global_ _, _, hw, _ => by simp [WFS] at hw
  | .import_ ns, ind, _, h => by
      simp only [charsOKS] at h
      simp only [genStmtC, List.all_cons, List.all_nil, Bool.and_true]
      exact lineOKb_of (by nl_close [nlFree_aliases ns h]) (by kw_head)
  | .importFrom m ns lvl, ind, _, h => by
      simp only [charsOKS, Bool.and_eq_true] at h
      simp only [genStmtC, List.all_cons, List.all_nil, Bool.and_true]
      have hdots : nlFree (List.replicate lvl '.') = true := by
        simp only [nlFree, Bool.not_eq_true', List.contains_eq_mem, decide_eq_false_iff_not, List.mem_replicate]
        intro hh; exact absurd hh.2 (by decide)
      exact lineOKb_of (by nl_close [hdots, h.1, nlFree_aliases ns h.2]) (by kw_head)
  | .if_ t b o, ind, hw, h => by
      simp only [WFS] at hw
      simp only [charsOKS, Bool.and_eq_true] at h
      simp only [genStmtC, List.all_cons, List.all_append, Bool.and_eq_true]
      exact ⟨lineOKb_of (by nl_close [nlFree_genC t h.1.1]) (by kw_head), linesOK_body b _ hw.2.1 h.1.2, linesOK_else o ind hw.2.2.1 h.2⟩
  | .while_ t b o, ind, hw, h => by
      simp only [WFS] at hw
      simp only [charsOKS, Bool.and_eq_true] at h
      simp only [genStmtC, List.all_cons, List.all_append, Bool.and_eq_true]
      exact ⟨lineOKb_of (by nl_close [nlFree_genC t h.1.1]) (by kw_head), linesOK_body b _ hw.2.1 h.1.2, linesOK_else o ind hw.2.2.1 h.2⟩
  | .for_ t it b o, ind, hw, h => by
      simp only [WFS] at hw
      simp only [charsOKS, Bool.and_eq_true] at h
      simp only [genStmtC, List.all_cons, List.all_append, Bool.and_eq_true]
      exact ⟨lineOKb_of (by nl_close [nlFree_genC t h.1.1.1, nlFree_genC it h.1.1.2]) (by kw_head),
        linesOK_body b _ hw.2.2.1 h.1.2, linesOK_else o ind hw.2.2.2.1 h.2⟩
  | .with_ items b, ind, hw, h => by
      simp only [WFS] at hw
      simp only [charsOKS, Bool.and_eq_true] at h
      simp only [genStmtC, List.all_cons, Bool.and_eq_true]
      exact ⟨lineOKb_of (by nl_close [nlFree_withItems items h.1]) (by kw_head), linesOK_body b _ hw.2.2.1 h.2⟩
  | .try_ b hs o f, ind, hw, h => by
      simp only [WFS] at hw
      simp only [charsOKS, Bool.and_eq_true] at h
      obtain ⟨⟨⟨h1, h2⟩, h3⟩, h4⟩ := h
      have e1 := linesOK_body b (ind + 1) hw.1 h1
      have e2 := linesOK_body hs ind hw.2.1 h2
      cases o with
      | nil =>
        cases f with
        | nil => simp [genStmtC, List.all_append, e1, e2, lineOKb, isPySpace]
        | cons f1 fr =>
          have e4 := linesOK_body (f1 :: fr) (ind + 1) hw.2.2.2.2.1 h4
          simp [genStmtC, List.all_append, e1, e2, e4, lineOKb, isPySpace]
      | cons o1 orr =>
        have e3 := linesOK_body (o1 :: orr) (ind + 1) hw.2.2.2.1 h3
        cases f with
        | nil => simp [genStmtC, List.all_append, e1, e2, e3, lineOKb, isPySpace]
        | cons f1 fr =>
          have e4 := linesOK_body (f1 :: fr) (ind + 1) hw.2.2.2.2.1 h4
          simp [genStmtC, List.all_append, e1, e2, e3, e4, lineOKb, isPySpace]
  | .handler t n b, ind, hw, h => by
      simp only [WFS] at hw
      simp only [charsOKS, Bool.and_eq_true] at h
      obtain ⟨hw1, rfl, hw3, _⟩ := hw
      simp only [genStmtC, List.all_cons, Bool.and_eq_true]
      exact ⟨lineOKb_of (by nl_close [nlFree_genOptC [' '] t rfl h.1.1]) (by kw_head), linesOK_body b _ hw3 h.2⟩
  | .functionDef name po ar va ko ka body decos ret tp, ind, hw, h => by
      simp only [WFS] at hw
      simp only [charsOKS, Bool.and_eq_true] at h
      obtain ⟨⟨⟨⟨⟨⟨⟨⟨h0, h1⟩, h2⟩, h3⟩, h4⟩, h5⟩, h6⟩, h7⟩, h8⟩ := h
      simp only [genStmtC, List.all_append, List.all_cons, Bool.and_eq_true]
      exact ⟨decos_ok ind decos h7,
        lineOKb_of (by nl_close [h0, nlFree_genParamsC po ar va ko ka h1 h2 h3 h4 h5, nlFree_genOptC cs!" -> " ret rfl h8]) (by kw_head),
        linesOK_body body _ hw.2.2.1 h6⟩
  | .classDef name bases kws body decos tp, ind, hw, h => by
      simp only [WFS] at hw
      simp only [charsOKS, Bool.and_eq_true] at h
      obtain ⟨⟨⟨⟨h0, h1⟩, h2⟩, h3⟩, h4⟩ := h
      simp only [genStmtC, List.all_append, List.all_cons, Bool.and_eq_true]
      exact ⟨decos_ok ind decos h4,
        lineOKb_of (by nl_close [h0, nlFree_classArgsC bases kws h1 h2]) (by kw_head),
        linesOK_body body _ hw.2.2.2.2.2.1 h3⟩
  | .unsupported _, _, hw, _ => by simp [WFS] at hw
theorem linesOK_body : ∀ (ss : List PyStmt) (ind : Nat), WFSL ss → charsOKB ss = true → (genBodyC ind ss).all lineOKb = true
  | [], _, _, _ => rfl
  | s :: ss, ind, hw, h => by
      simp only [WFSL] at hw
      simp only [charsOKB, Bool.and_eq_true] at h
      simp only [genBodyC, List.all_append, Bool.and_eq_true]
      exact ⟨linesOK_stmt s ind hw.1 h.1, linesOK_body ss ind hw.2 h.2⟩
theorem linesOK_else : ∀ (ss : List PyStmt) (ind : Nat), WFSL ss → charsOKB ss = true → (genElseC ind ss).all lineOKb = true
  | [], _, _, _ => rfl
  | s :: ss, ind, hw, h => by
      simp only [WFSL] at hw
      simp only [charsOKB, Bool.and_eq_true] at h
      simp only [genElseC, List.all_cons, List.all_append, Bool.and_eq_true]
      exact ⟨by simp [lineOKb, isPySpace], linesOK_stmt s _ hw.1 h.1, linesOK_body ss _ hw.2 h.2⟩
end

end Genshi.Py

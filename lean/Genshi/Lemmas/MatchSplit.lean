/-
  The eager filter processes a closed prefix of the stream independently of what follows
  (`run_append`), and more fuel never changes a result (`run_mono`).
-/
import Genshi.Lemmas.MatchRun
namespace Genshi.Match
open Genshi
variable {σ : Type}

theorem run_mono : ∀ (f s : Nat) (en : Option Nat) (items : List (Item σ)) (mts : List (MT σ))
    (r : List (MT σ) × List Event), run f s en items mts = some r → run (f + 1) s en items mts = some r := by
  intro f
  induction f with
  | zero => intro s en items mts r h; simp [run] at h
  | succ f ih =>
    intro s en items mts r h
    cases items with
    | nil => simp [run] at h ⊢; exact h
    | cons it rest =>
      cases it with
      | reg t => simp only [run] at h ⊢; exact ih _ _ _ _ _ h
      | ev e =>
        by_cases hS : isStart e = true
        · rcases run_start_cases hS h with ⟨mts1, p, hsc, hp, rfl⟩ |
            ⟨mts1, idx, t, inner, tail, rest', mts3, innerOut, mts4, out, p, hsc, ht, hst, h3, h4, h5, rfl⟩
          · simp only [run, hS, ↓reduceIte, hsc, ih _ _ _ _ _ hp, emit, Option.map_some]
          · simp only [run, hS, ↓reduceIte, hsc, ht, hst,
              ih _ _ _ _ _ h3, ih _ _ _ _ _ h4, ih _ _ _ _ _ h5, Option.map_some]
        · by_cases hE : isEnd e = true
          · simp only [run, hS, Bool.false_eq_true, ↓reduceIte, hE] at h ⊢
            obtain ⟨q, hr, rfl⟩ := emit_some h
            rw [ih _ _ _ _ _ hr]; simp [emit]
          · simp only [run, hS, Bool.false_eq_true, ↓reduceIte, hE] at h ⊢
            obtain ⟨q, hr, rfl⟩ := emit_some h
            rw [ih _ _ _ _ _ hr]; simp [emit]

theorem run_mono_le {f f' s : Nat} {en : Option Nat} {items : List (Item σ)} {mts : List (MT σ)}
    {r : List (MT σ) × List Event} (h : run f s en items mts = some r) (hle : f ≤ f') :
    run f' s en items mts = some r := by
  induction hle with
  | refl => exact h
  | step _ ih => exact run_mono _ _ _ _ _ _ ih

theorem run_fuel_pos {f s : Nat} {en : Option Nat} {items : List (Item σ)} {mts : List (MT σ)}
    {r : List (MT σ) × List Event} (h : run f s en items mts = some r) : 0 < f := by
  cases f with
  | zero => simp [run] at h
  | succ f => omega

/-- `_strip` on a list that closes the `d + 1` open elements before the appended part -/
theorem strip_append : ∀ (a : List (Item σ)) (d k : Nat) (b : List (Item σ)),
    lvl (k + d + 1) (evs a) = some 0 →
    ∃ inner tail a'', strip (d + 1) a = some (inner, tail, a'') ∧
      strip (d + 1) (a ++ b) = some (inner, tail, a'' ++ b) ∧ lvl k (evs a'') = some 0 := by
  intro a
  induction a with
  | nil => intro d k b h; simp [lvl] at h
  | cons it rest ih =>
    intro d k b h
    cases it with
    | reg t =>
      simp only [evs_reg] at h
      obtain ⟨inner, tail, a'', h1, h2, h3⟩ := ih d k b h
      exact ⟨.reg t :: inner, tail, a'', by simp [strip, h1], by simp [strip, h2], h3⟩
    | ev e =>
      simp only [evs_ev, lvl] at h
      by_cases hs : isStart e = true
      · simp only [hs, ↓reduceIte] at h
        obtain ⟨inner, tail, a'', h1, h2, h3⟩ := ih (d + 1) k b (by rw [show k + (d + 1) + 1 = k + d + 1 + 1 by omega]; exact h)
        exact ⟨.ev e :: inner, tail, a'', by simp [strip, hs, h1], by simp [strip, hs, h2], h3⟩
      · simp only [hs, Bool.false_eq_true, ↓reduceIte] at h
        by_cases he : isEnd e = true
        · simp only [he, ↓reduceIte] at h
          cases d with
          | zero =>
            simp only [Nat.add_zero] at h
            exact ⟨[], e, rest, by simp [strip, hs, he], by simp [strip, hs, he], h⟩
          | succ d =>
            obtain ⟨inner, tail, a'', h1, h2, h3⟩ := ih d k b (by rw [show k + d + 1 = k + (d + 1) by omega]; exact h)
            exact ⟨.ev e :: inner, tail, a'', by simp [strip, hs, he, h1], by simp [strip, hs, he, h2], h3⟩
        · simp only [he, Bool.false_eq_true, ↓reduceIte] at h
          obtain ⟨inner, tail, a'', h1, h2, h3⟩ := ih d k b h
          exact ⟨.ev e :: inner, tail, a'', by simp [strip, hs, he, h1], by simp [strip, hs, he, h2], h3⟩

/-- **Closed segments are processed independently**: the run over `a ++ b`, where `a` closes every
    element it opens (and the `d` elements open before it), is the run over `a` followed by the run
    over `b`. -/
theorem run_append : ∀ (f s : Nat) (en : Option Nat) (a b : List (Item σ)) (d : Nat) (mts : List (MT σ))
    (r : List (MT σ) × List Event), lvl d (evs a) = some 0 → run f s en (a ++ b) mts = some r →
    ∃ r1 r2, run f s en a mts = some r1 ∧ run f s en b r1.1 = some r2 ∧ r = (r2.1, r1.2 ++ r2.2) := by
  intro f
  induction f with
  | zero => intro s en a b d mts r _ h; simp [run] at h
  | succ f ih =>
    intro s en a b d mts r hl h
    cases a with
    | nil =>
      simp only [List.nil_append] at h
      exact ⟨(mts, []), r, by simp [run], h, by simp⟩
    | cons it rest =>
      cases it with
      | reg t =>
        simp only [List.cons_append, run] at h ⊢
        obtain ⟨r1, r2, h1, h2, h3⟩ := ih s en rest b d (mts ++ [t]) r (by simpa using hl) h
        exact ⟨r1, r2, h1, run_mono _ _ _ _ _ _ h2, h3⟩
      | ev e =>
        simp only [evs_ev, lvl] at hl
        simp only [List.cons_append] at h
        by_cases hS : isStart e = true
        · simp only [hS, ↓reduceIte] at hl
          rcases run_start_cases hS h with ⟨mts1, p, hsc, hp, rfl⟩ |
            ⟨mts1, idx, t, inner, tail, rest', mts3, innerOut, mts4, out, p, hsc, ht, hst, h3, h4, h5, rfl⟩
          · obtain ⟨r1, r2, h1, h2, h3⟩ := ih s en rest b (d + 1) mts1 p hl hp
            refine ⟨(r1.1, e :: r1.2), r2, ?_, run_mono _ _ _ _ _ _ h2, by simp [h3]⟩
            simp only [run, hS, ↓reduceIte, hsc, h1, emit, Option.map_some]
          · obtain ⟨inner', tail', a'', hs1, hs2, hs3⟩ := strip_append rest 0 d b (by simpa using hl)
            rw [hs2] at hst
            simp only [Option.some.injEq, Prod.mk.injEq] at hst
            obtain ⟨rfl, rfl, rfl⟩ := hst
            obtain ⟨r1, r2, h1, h2, h3'⟩ := ih s en a'' b d _ p hs3 h5
            refine ⟨(r1.1, out ++ r1.2), r2, ?_, run_mono _ _ _ _ _ _ h2, by simp [h3']⟩
            simp only [run, hS, ↓reduceIte, hsc, ht, hs1, h3, h4, h1,
              Option.map_some]
        · simp only [hS, Bool.false_eq_true, ↓reduceIte] at hl
          simp only [run, hS, Bool.false_eq_true, ↓reduceIte] at h ⊢
          by_cases hE : isEnd e = true
          · simp only [hE, ↓reduceIte] at hl h ⊢
            cases d with
            | zero => simp at hl
            | succ d =>
              simp only at hl
              obtain ⟨q, hr, rfl⟩ := emit_some h
              obtain ⟨r1, r2, h1, h2, h3⟩ := ih s en rest b d _ q hl hr
              exact ⟨(r1.1, e :: r1.2), r2, by rw [h1]; simp [emit], run_mono _ _ _ _ _ _ h2, by simp [h3]⟩
          · simp only [hE, Bool.false_eq_true, ↓reduceIte] at hl h ⊢
            obtain ⟨q, hr, rfl⟩ := emit_some h
            obtain ⟨r1, r2, h1, h2, h3⟩ := ih s en rest b d mts q hl hr
            exact ⟨(r1.1, e :: r1.2), r2, by rw [h1]; simp [emit], run_mono _ _ _ _ _ _ h2, by simp [h3]⟩

end Genshi.Match

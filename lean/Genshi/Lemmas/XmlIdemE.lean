/-
  C02 — idempotence, part 4: from flattened events to the text.

    * `idem_flatten_builder`: the event-level statement for builder streams;
    * the serializer does not distinguish `None` from `""` in attribute values
      (`serRun_normF`);
    * what the tokenizer reports for the serializer's text, minus the white
      space outside the root element, is the flattened stream itself
      (`dropTopWs_tokOf`, `flatRun_topOK`);
    * `idem_text_*`: `ser (parse (encode (ser s))) = ser s`.
-/
import Genshi.Lemmas.XmlIdemD
import Genshi.Lemmas.XmlMerge
namespace Genshi.Xml
open Genshi Genshi.Escape Genshi.Xml.Reader

theorem brel_init : BRel FSt.init FSt.init PSt.init CkSt.init :=
  ⟨rfl, rfl, rfl, rfl, inv_init.scope, PFrames.nil _⟩

/-- **idempotence at the level of events, builder streams**: for every stream
    without namespace events inside `docOK`, reading the flattened output back
    (`reparseX`) and flattening again gives the same flattened output (an
    `xmlns=""` the first pass wrote comes back as `None`, which is written `""`
    again: equality up to `normF`) -/
theorem idem_flatten_builder (pref : List (Str × Str)) (hpref : prefOK pref = true) (xs : List XEv)
    (h1 : docOK xs = true) (h2 : builderShaped xs = true) :
    ∃ xs2, reparseX PSt.init ((flatten pref xs).map normF) = some xs2 ∧
      (flatten pref xs2).map normF = (flatten pref xs).map normF := by
  unfold docOK at h1
  unfold builderShaped at h2
  split at h1
  · rename_i v e s rest
    simp only [List.all_cons, Bool.and_eq_true] at h2
    have hst : (flatStep pref FSt.init (.ev (.xmlDecl v e s))).1 = FSt.init := rfl
    obtain ⟨xs2, r1, r2⟩ := builder_run pref hpref rest _ _ _ _ ⟨_, inv_init⟩ h1 h2.2 brel_init
    refine ⟨.ev (.xmlDecl v e s) :: xs2, ?_, ?_⟩
    · simp only [flatten, flatRun_cons, hst, flatStep, List.map_append, List.map_cons, List.map_nil, normF,
        List.cons_append, List.nil_append]
      rw [reparseX]
      simp only [r1, Option.map_some]
    · simp only [flatten, flatRun_cons, hst, List.map_append]
      rw [r2]
  · obtain ⟨xs2, r1, r2⟩ := builder_run pref hpref xs _ _ _ _ ⟨_, inv_init⟩ h1 h2 brel_init
    exact ⟨xs2, r1, r2⟩

/-! ### the serializer and `None` attribute values -/

theorem emitAttrs_norm (a : List (Str × Str)) : emitAttrs (normAttrs a) = emitAttrs a := by
  induction a with
  | nil => rfl
  | cons x rest ih =>
    obtain ⟨n, v⟩ := x
    simp only [normAttrs, List.map_cons, emitAttrs] at ih ⊢
    rw [ih]
    by_cases hv : v = noneUri
    · subst hv
      have h0 : normUri noneUri = [] := by decide
      have h1 : ([] : Str) ≠ noneUri := by decide
      rw [h0, if_neg h1, if_pos rfl]
      simp [escapePy_eq_spec, escapeSpec]
    · rw [normUri_of_ne hv]

theorem serStep_normF (st : SerSt) (e : FEv) : serStep st (normF e) = serStep st e := by
  cases e with
  | start n a => simp only [normF, serStep, emitStart, emitAttrs_norm]
  | empty n a => simp only [normF, serStep, emitStart, emitAttrs_norm]
  | end_ n => rfl
  | other ev => rfl

theorem serRun_normF (fs : List FEv) : ∀ st : SerSt, serRun st (fs.map normF) = serRun st fs := by
  induction fs with
  | nil => intro st; rfl
  | cons e es ih =>
    intro st
    simp only [List.map_cons, serRun, serStep_normF]
    cases serStep st e with
    | none => rfl
    | some r => simp only [ih]

/-! ### the white space of the prolog -/

/-- depth discipline of a flattened document: character data only inside
    elements, a DOCTYPE only outside, no XML declaration -/
def topOK : Nat → List FEv → Bool
  | _, [] => true
  | d, .start _ _ :: es => topOK (d + 1) es
  | d, .empty _ _ :: es => topOK d es
  | d, .end_ _ :: es => d ≠ 0 && topOK (d - 1) es
  | d, .other (.text _ _) :: es => d ≠ 0 && topOK d es
  | d, .other (.doctype _ _ _) :: es => d = 0 && topOK d es
  | _, .other (.xmlDecl _ _ _) :: _ => false
  | d, .other _ :: es => topOK d es

theorem dropTopWs_tokOf : ∀ (fs : List FEv) (d : Nat), topOK d fs = true →
    dropTopWs d (tokOf fs) = fs.map normF := by
  intro fs
  induction fs with
  | nil => intro d _; simp [tokOf, dropTopWs]
  | cons e es ih =>
    intro d h
    cases e with
    | start n a =>
      simp only [topOK] at h
      simp only [tokOf, normF, dropTopWs, List.map_cons, ih _ h]
    | empty n a =>
      simp only [topOK] at h
      cases d <;> simp only [tokOf, normF, dropTopWs, List.map_cons, ih _ h]
    | end_ n =>
      simp only [topOK, Bool.and_eq_true] at h
      simp only [tokOf, normF, dropTopWs, List.map_cons, ih _ h.2]
    | other ev =>
      cases ev with
      | text s f =>
        simp only [topOK, Bool.and_eq_true, decide_eq_true_eq] at h
        cases d with
        | zero => exact absurd rfl h.1
        | succ d' => simp only [tokOf, normF, dropTopWs, List.map_cons, ih _ h.2]
      | doctype n p s =>
        simp only [topOK, Bool.and_eq_true, decide_eq_true_eq] at h
        obtain ⟨h0, h1⟩ := h
        subst h0
        have hw : (['\n'] : Str).all isSpace = true := by decide
        simp only [tokOf, wsTok, normF, dropTopWs, List.map_cons, hw, if_true, ih _ h1]
      | xmlDecl v e s => simp [topOK] at h
      | comment s =>
        simp only [topOK] at h
        cases d <;> simp only [tokOf, normF, dropTopWs, List.map_cons, ih _ h]
      | pi t dd =>
        simp only [topOK] at h
        cases d <;> simp only [tokOf, normF, dropTopWs, List.map_cons, ih _ h]
      | startCdata =>
        simp only [topOK] at h
        cases d <;> simp only [tokOf, normF, dropTopWs, List.map_cons, ih _ h]
      | endCdata =>
        simp only [topOK] at h
        cases d <;> simp only [tokOf, normF, dropTopWs, List.map_cons, ih _ h]
      | startNs p u =>
        simp only [topOK] at h
        cases d <;> simp only [tokOf, normF, dropTopWs, List.map_cons, ih _ h]
      | endNs p =>
        simp only [topOK] at h
        cases d <;> simp only [tokOf, normF, dropTopWs, List.map_cons, ih _ h]
      | start t a =>
        simp only [topOK] at h
        cases d <;> simp only [tokOf, normF, dropTopWs, List.map_cons, ih _ h]
      | end_ t =>
        simp only [topOK] at h
        cases d <;> simp only [tokOf, normF, dropTopWs, List.map_cons, ih _ h]

theorem flatRun_topOK (pref : List (Str × Str)) : ∀ (xs : List XEv) (st : FSt) (ck : CkSt),
    docGo ck xs = true → topOK ck.stack.length (flatRun pref st xs) = true := by
  intro xs
  induction xs with
  | nil => intro st ck _; rfl
  | cons x xs ih =>
    intro st ck hdoc
    simp only [docGo] at hdoc
    cases hck : ckStep ck x with
    | none => rw [hck] at hdoc; cases hdoc
    | some ck' =>
      rw [hck] at hdoc
      simp only at hdoc
      rw [flatRun_cons]
      have ih' := ih (flatStep pref st x).1 ck' hdoc
      cases x with
      | empty tag attrs =>
        simp only [ckStep, Option.map_eq_some_iff] at hck
        obtain ⟨d', _, rfl⟩ := hck
        rw [flatStep_empty] at ih' ⊢
        simp only [List.cons_append, List.nil_append, topOK]
        exact ih'
      | ev e =>
        cases e with
        | start tag attrs =>
          simp only [ckStep, Option.map_eq_some_iff] at hck
          obtain ⟨d', _, rfl⟩ := hck
          rw [flatStep_start] at ih' ⊢
          simp only [List.cons_append, List.nil_append, topOK]
          simpa using ih'
        | end_ tag =>
          simp only [ckStep] at hck
          cases hs : ck.stack with
          | nil => rw [hs] at hck; cases hck
          | cons top rest' =>
            obtain ⟨t', d⟩ := top
            rw [hs] at hck
            simp only at hck
            by_cases ht : tag = t'
            · subst ht
              simp only [if_true, Option.some.injEq] at hck
              subst hck
              have hout : ∃ name, (flatStep pref st (.ev (.end_ tag))).2 = [.end_ name] := by
                simp only [flatStep]
                split <;> exact ⟨_, rfl⟩
              obtain ⟨name, hn⟩ := hout
              rw [hn]
              simp only [List.cons_append, List.nil_append, topOK, List.length_cons, Bool.and_eq_true,
                decide_eq_true_eq]
              exact ⟨by omega, by simpa using ih'⟩
            · simp [ht] at hck
        | startNs p u =>
          have hst := ckStep_stack_ns hck
          have : (flatStep pref st (.ev (.startNs p u))).2 = [] := rfl
          rw [this, List.nil_append, ← hst]
          exact ih'
        | endNs p =>
          have hst := ckStep_stack_endNs hck
          have : (flatStep pref st (.ev (.endNs p))).2 = [] := rfl
          rw [this, List.nil_append, ← hst]
          exact ih'
        | xmlDecl v e s => simp [ckStep] at hck
        | text s f =>
          have hst := ckStep_stack_plain (e := .text s f) rfl hck
          obtain ⟨_, hne⟩ := ckStep_text hck
          rw [flatStep_plain pref st _ rfl] at ih' ⊢
          simp only [List.cons_append, List.nil_append, topOK, Bool.and_eq_true, decide_eq_true_eq]
          rw [← hst]
          refine ⟨?_, ih'⟩
          intro e0
          have : ck'.stack = [] := List.eq_nil_of_length_eq_zero e0
          rw [hst] at this
          rw [this] at hne; cases hne
        | comment s =>
          have hst := ckStep_stack_plain (e := .comment s) rfl hck
          rw [flatStep_plain pref st _ rfl] at ih' ⊢
          simp only [List.cons_append, List.nil_append, topOK]
          rw [← hst]; exact ih'
        | pi t d =>
          have hst := ckStep_stack_plain (e := .pi t d) rfl hck
          rw [flatStep_plain pref st _ rfl] at ih' ⊢
          simp only [List.cons_append, List.nil_append, topOK]
          rw [← hst]; exact ih'
        | startCdata =>
          have hst := ckStep_stack_plain (e := .startCdata) rfl hck
          rw [flatStep_plain pref st _ rfl] at ih' ⊢
          simp only [List.cons_append, List.nil_append, topOK]
          rw [← hst]; exact ih'
        | endCdata =>
          have hst := ckStep_stack_plain (e := .endCdata) rfl hck
          rw [flatStep_plain pref st _ rfl] at ih' ⊢
          simp only [List.cons_append, List.nil_append, topOK]
          rw [← hst]; exact ih'
        | doctype n p s =>
          have hst := ckStep_stack_plain (e := .doctype n p s) rfl hck
          rw [flatStep_plain pref st _ rfl] at ih' ⊢
          simp only [List.cons_append, List.nil_append, topOK, Bool.and_eq_true, decide_eq_true_eq]
          rw [← hst]
          refine ⟨?_, ih'⟩
          simp only [ckStep] at hck
          split at hck
          · cases hck
          · rename_i hc
            simp only [Bool.or_eq_true, Bool.not_eq_true', not_or, Bool.not_eq_true, Bool.not_eq_false] at hc
            have : ck.stack.isEmpty = true := by simpa using hc.1.1
            rw [hst]
            simpa using this

/-- what a parser's tokenizer reports for the text of a flattened document,
    without the white space outside the root element, is the flattened stream -/
theorem dropTopWs_flatten (pref : List (Str × Str)) (xs : List XEv) (h : docOK xs = true) :
    dropTopWs 0 (tokOf (flatten pref xs)) = (flatten pref xs).map normF := by
  unfold docOK at h
  split at h
  · rename_i v e s rest
    have hst : (flatStep pref FSt.init (.ev (.xmlDecl v e s))).1 = FSt.init := rfl
    have := dropTopWs_tokOf _ 0 (flatRun_topOK pref rest FSt.init CkSt.init h)
    have hw : (['\n'] : Str).all isSpace = true := by decide
    simp only [flatten, flatRun_cons, hst, flatStep, List.cons_append, List.nil_append, tokOf, wsTok, dropTopWs,
      hw, if_true, List.map_cons, normF]
    rw [this]
  · exact dropTopWs_tokOf _ 0 (flatRun_topOK pref xs FSt.init CkSt.init h)

end Genshi.Xml

namespace Genshi.Xml
open Genshi Genshi.Escape Genshi.Xml.Reader

/-- the tokenizer inverts the serializer (as `tokenizer_inverts_serializer`, for use here) -/
theorem tokenize_ser (rep : Char → Bool) (hr : AsciiRep rep) (fs : List FEv)
    (h : docTextOK fs = true) (hm : repMarkup rep fs = true) :
    ∃ out, serRun SerSt.init fs = some out ∧ tokenize (encodeText rep out) = some (tokOf fs) := by
  obtain ⟨o1, h1, _⟩ := tokenize_doc (fun _ => true) (fun _ _ => rfl) fs h
  rw [serRunEnc_all] at h1
  obtain ⟨o2, h2, h3⟩ := tokenize_doc rep hr fs h
  have := encodeText_serRun rep hr fs SerSt.init o1 hm h1
  rw [h2] at this
  cases this
  exact ⟨o1, h1, h3⟩

/-- from events to text: if flattening what is read back from the flattened
    events gives the same events, then serialising what is parsed from the
    (encoded) text gives the same text -/
theorem idem_text_of_events (pref : List (Str × Str)) (rep : Char → Bool) (hr : AsciiRep rep)
    (xs : List XEv) (hd : docOK xs = true)
    (hb : docTextOK (flatten pref xs) = true) (hm : repMarkup rep (flatten pref xs) = true)
    (hev : ∃ xs2, reparseX PSt.init ((flatten pref xs).map normF) = some xs2 ∧
      (flatten pref xs2).map normF = (flatten pref xs).map normF) :
    ∃ out, serRun SerSt.init (flatten pref xs) = some out ∧
      ∃ xs2, parseText (encodeText rep out) = some xs2 ∧
        serRun SerSt.init (flatten pref xs2) = some out := by
  obtain ⟨out, h1, h2⟩ := tokenize_ser rep hr _ hb hm
  obtain ⟨xs2, r1, r2⟩ := hev
  refine ⟨out, h1, xs2, ?_, ?_⟩
  · unfold parseText
    rw [h2]
    simp only [Option.bind_some]
    rw [dropTopWs_flatten pref xs hd]
    exact r1
  · rw [← serRun_normF, r2, serRun_normF]
    exact h1

theorem accX_noNs (acc : Option Str) : (accX acc).all noNs = true := by
  cases acc with
  | none => rfl
  | some t =>
    simp only [accX, flushX]
    by_cases h : t.isEmpty = true <;> simp [h, noNs]

theorem noNs_mergeX : ∀ (xs : List XEv) (acc : Option Str), xs.all noNs = true →
    (mergeXGo acc xs).all noNs = true := by
  intro xs
  induction xs with
  | nil => intro acc _; rw [mergeXGo_nil]; exact accX_noNs acc
  | cons x xs ih =>
    intro acc h
    simp only [List.all_cons, Bool.and_eq_true] at h
    cases hk : kindX x with
    | text =>
      obtain ⟨s, rfl⟩ := kind_text_inv hk
      rw [mergeXGo_text]
      exact ih _ h.2
    | ns =>
      rcases kind_ns_inv hk with ⟨p, u, rfl⟩ | ⟨p, rfl⟩
      · simp [noNs] at h
      · simp [noNs] at h
    | other =>
      rw [mergeXGo_other acc x xs (by rw [hk]; trivial)]
      simp only [List.all_append, List.all_cons, Bool.and_eq_true]
      exact ⟨accX_noNs acc, h.1, ih none h.2⟩

theorem inputTextOK_mergeX (rep : Char → Bool) (pref : List (Str × Str)) (xs : List XEv)
    (ht : inputTextOKm rep pref xs = true) : inputTextOK rep pref (mergeX xs) = true := by
  unfold inputTextOKm at ht
  simp only [Bool.and_eq_true] at ht
  obtain ⟨⟨⟨⟨hp, hev⟩, hns⟩, hdt⟩, hrm⟩ := ht
  unfold inputTextOK
  simp only [Bool.and_eq_true]
  refine ⟨⟨⟨hp, evTxt_mergeX rep xs none hev⟩, ?_⟩, ?_⟩
  · unfold mergeX; rw [skeleton_mergeX]; exact hdt
  · unfold mergeX repMarkup; rw [skeleton_mergeX]
    exact repMarkupGo_mergeF rep _ false none (fun e => by cases e) hrm

/-- **ser_idempotent for builder streams, text level** (adjacent and empty
    TEXT events included) -/
theorem idem_text_builder (pref : List (Str × Str)) (hpref : prefOK pref = true) (rep : Char → Bool)
    (hr : AsciiRep rep) (xs : List XEv) (hd : docOK xs = true) (hb : builderShaped xs = true)
    (ht : inputTextOKm rep pref xs = true) :
    ∃ out, serRun SerSt.init (flatten pref xs) = some out ∧
      ∃ xs2, parseText (encodeText rep out) = some xs2 ∧
        serRun SerSt.init (flatten pref xs2) = some out := by
  have ht' := inputTextOK_mergeX rep pref xs ht
  have hd' := docOK_mergeX xs hd
  have hb' : builderShaped (mergeX xs) = true := noNs_mergeX xs none hb
  obtain ⟨t1, t2⟩ := textOK_of_input rep hr pref _ ht'
  obtain ⟨out, h1, h2⟩ := idem_text_of_events pref rep hr (mergeX xs) hd' t1 t2
    (idem_flatten_builder pref hpref _ hd' hb')
  rw [flatten_mergeX, serRun_mergeF'] at h1
  exact ⟨out, h1, h2⟩

/-- **ser_idempotent for parser-shaped streams, text level** -/
theorem idem_text_parsed (pref : List (Str × Str)) (hpref : prefOK pref = true) (rep : Char → Bool)
    (hr : AsciiRep rep) (xs : List XEv) (hd : docOK xs = true) (hi : idemOK pref xs = true)
    (ht : inputTextOK rep pref xs = true) :
    ∃ out, serRun SerSt.init (flatten pref xs) = some out ∧
      ∃ xs2, parseText (encodeText rep out) = some xs2 ∧
        serRun SerSt.init (flatten pref xs2) = some out := by
  obtain ⟨t1, t2⟩ := textOK_of_input rep hr pref _ ht
  obtain ⟨xs2, r1, r2⟩ := idem_flatten pref hpref xs hd hi
  exact idem_text_of_events pref rep hr xs hd t1 t2 ⟨xs2, r1, by rw [r2]⟩

end Genshi.Xml

/-
  C01 — the re-read output as a TREE: the START / END / TEXT events of the C01 reader embedded
  into the shared event type (`Genshi.Event`, plain names), and well-nestedness (`nest`) carried
  over to `Genshi.balance`, so that `Parse.wellNested_unique_forest` gives the one forest of
  `Core.Node`s whose flattening the re-read stream is.
-/
import Genshi.Lemmas.SubstNest
import Genshi.Lemmas.ParseTree
namespace Genshi.Subst
open Genshi

/-- a C01 event as a shared `Event` (names without namespace) -/
def toCore : Ev → Event
  | .start t a => .start (QName.plain t) (a.map fun p => (QName.plain p.1, p.2))
  | .end_ t => .end_ (QName.plain t)
  | .text s f => .text s f

theorem plain_inj (a b : Name) : QName.plain a = QName.plain b ↔ a = b := by
  constructor
  · intro h; simpa [QName.plain] using h
  · intro h; rw [h]

theorem balance_toCore : ∀ (evs : List Ev) (st : List Name),
    balance (st.map QName.plain) (evs.map toCore) = (nest st evs).map (·.map QName.plain)
  | [], st => by simp [balance, nest]
  | .start t a :: es, st => by
      have := balance_toCore es (t :: st)
      simpa [balance, nest, toCore] using this
  | .end_ t :: es, [] => by simp [balance, nest, toCore]
  | .end_ t :: es, t' :: st => by
      have := balance_toCore es st
      by_cases h : t = t'
      · subst h; simpa [balance, nest, toCore] using this
      · have h' : ¬ QName.plain t = QName.plain t' := fun e => h ((plain_inj t t').mp e)
        simp [balance, nest, toCore, h, h']
  | .text s f :: es, st => by
      have := balance_toCore es st
      cases st <;> simpa [balance, nest, toCore] using this

/-- a well-nested C01 stream is a well-nested shared stream -/
theorem wellNested_toCore (evs : List Ev) (h : nest [] evs = some []) : WellNested (evs.map toCore) := by
  have := balance_toCore evs []
  simpa [WellNested, h] using this

end Genshi.Subst

/-
  C06 — `url(` in the style text `sanitize_css` emits: every argument, as the browser-side
  reader finds it in the joined declarations, was accepted by `is_safe_uri`, hence has a safe
  scheme (up to the `+ - .` of finding C06-scheme-punct).
-/
import Genshi.Lemmas.SanCssSafe
set_option linter.unusedSimpArgs false
namespace Genshi.San
open Genshi.Gen Genshi.San.Spec

/-! ### the spec-side `url(` scanner without fuel -/

theorem callAt_shorter {wide : Bool} {word s r : Str} (h : callAt wide word s = some r) : r.length < s.length := by
  obtain ⟨b, hb, hs⟩ := callAt_block h
  have := block_ne_nil hb
  rw [hs]; cases b with
  | nil => exact absurd rfl this
  | cons _ _ => simp; omega

theorem dropWhile_length_le (p : Char → Bool) (l : Str) : (l.dropWhile p).length ≤ l.length := by
  induction l with
  | nil => simp
  | cons c cs ih =>
    by_cases h : p c = true
    · simp [List.dropWhile, h]; omega
    · simp [List.dropWhile, h]

theorem urlArgsGo_fuel : ∀ (f : Nat) (s : Str), s.length < f → urlArgsGo f s = urlArgsGo (s.length + 1) s := by
  intro f
  induction f using Nat.strongRecOn with
  | _ f ih =>
    intro s hf
    cases f with
    | zero => simp at hf
    | succ f =>
      cases s with
      | nil => rfl
      | cons c cs =>
        have hcs : cs.length < f := by simp at hf; omega
        simp only [urlArgsGo, List.length_cons]
        cases hc : callAt false urlWord (c :: cs) with
        | none =>
          simp only
          rw [ih f (by omega) cs hcs]
        | some r =>
          simp only
          have hr := callAt_shorter hc
          have hd := dropWhile_length_le (· ≠ ')') r
          split
          · rw [ih f (by omega) cs hcs]
          · rw [ih f (by omega) _ (by simp at hr; omega),
              ih (cs.length + 1) (by omega) _ (by simp at hr; omega)]

theorem urlArgs_nil : urlArgs [] = [] := rfl

theorem urlArgs_cons (c : Char) (cs : Str) : urlArgs (c :: cs) =
    match callAt false urlWord (c :: cs) with
    | some r =>
      if (r.takeWhile (· ≠ ')')).isEmpty then urlArgs cs
      else r.takeWhile (· ≠ ')') :: urlArgs (r.dropWhile (· ≠ ')'))
    | none => urlArgs cs := by
  unfold urlArgs
  simp only [urlArgsGo, List.length_cons]
  cases hc : callAt false urlWord (c :: cs) with
  | none => rfl
  | some r =>
    simp only
    have hr := callAt_shorter hc
    have hd := dropWhile_length_le (· ≠ ')') r
    split
    · rfl
    · rw [urlArgsGo_fuel (cs.length + 1) _ (by simp at hr; omega)]

theorem urlArgs_cons_none {c : Char} {cs : Str} (h : callAt false urlWord (c :: cs) = none) :
    urlArgs (c :: cs) = urlArgs cs := by
  rw [urlArgs_cons, h]

theorem urlArgs_cons_empty {c : Char} {cs r : Str} (h : callAt false urlWord (c :: cs) = some r)
    (he : (r.takeWhile (· ≠ ')')).isEmpty = true) : urlArgs (c :: cs) = urlArgs cs := by
  rw [urlArgs_cons, h]; simp only [he, ↓reduceIte]

theorem urlArgs_cons_some {c : Char} {cs r : Str} (h : callAt false urlWord (c :: cs) = some r)
    (he : (r.takeWhile (· ≠ ')')).isEmpty = false) :
    urlArgs (c :: cs) = r.takeWhile (· ≠ ')') :: urlArgs (r.dropWhile (· ≠ ')')) := by
  rw [urlArgs_cons, h]; simp only [he, Bool.false_eq_true, ↓reduceIte]

/-! ### `_URL_FINDITER` finds exactly what the spec-side scanner finds -/

theorem url_classes_sub : classesSubset (wordClasses false urlWord) SanClass.urlClasses = true := by decide
theorem url_classes_sup : classesSubset SanClass.urlClasses (wordClasses false urlWord) = true := by decide

theorem matchClasses_url (s : Str) :
    matchClasses SanClass.urlClasses s = matchClasses (wordClasses false urlWord) s := by
  rw [Bool.eq_iff_iff]
  exact ⟨matchClasses_mono _ _ s url_classes_sup, matchClasses_mono _ _ s url_classes_sub⟩

theorem dropClasses_drop : ∀ (cls : List (List Nat)) (s : Str), dropClasses cls s = s.drop cls.length := by
  intro cls
  induction cls with
  | nil => intro s; simp [dropClasses]
  | cons cl cls ih =>
    intro s
    cases s with
    | nil => simp [dropClasses]
    | cons c cs => simp [dropClasses, ih]

theorem dropClasses_url (s : Str) :
    dropClasses SanClass.urlClasses s = dropClasses (wordClasses false urlWord) s := by
  rw [dropClasses_drop, dropClasses_drop]
  have : SanClass.urlClasses.length = (wordClasses false urlWord).length := by decide
  rw [this]

theorem space_tables_eq : SanClass.reSpaceRanges = SanClass.spaceRanges := by decide

theorem isReSpace_eq : isReSpace = isSpace := by
  funext c
  unfold isReSpace isSpace
  rw [space_tables_eq]

theorem urlMatchAt_eq (s : Str) : urlMatchAt s =
    match callAt false urlWord s with
    | some r =>
      if (r.takeWhile (· ≠ ')')).isEmpty then none
      else some (r.takeWhile (· ≠ ')'), r.dropWhile (· ≠ ')'))
    | none => none := by
  unfold urlMatchAt callAt
  rw [matchClasses_url, dropClasses_url, isReSpace_eq]
  by_cases hm : matchClasses (wordClasses false urlWord) s = true
  · simp only [hm, ↓reduceIte]
    split <;> simp_all
  · simp [hm]

theorem urlFindGo_eq : ∀ (f : Nat) (s : Str), urlFindGo f s = urlArgsGo f s := by
  intro f
  induction f with
  | zero => intro s; rfl
  | succ f ih =>
    intro s
    cases s with
    | nil => rfl
    | cons c cs =>
      simp only [urlFindGo, urlArgsGo, urlMatchAt_eq]
      cases hc : callAt false urlWord (c :: cs) with
      | none => simp [ih]
      | some r =>
        simp only
        by_cases he : (r.takeWhile (· ≠ ')')).isEmpty = true
        · simp only [he, ↓reduceIte, ih]
        · simp only [he, Bool.false_eq_true, ↓reduceIte, ih]

theorem urlFind_eq (v : Str) : urlFind v = urlArgs v := urlFindGo_eq _ v

/-! ### where a `url(` can start -/

theorem url_class_semicolon : ∀ cl ∈ wordClasses false urlWord, inClass cl ';' = false := by decide
theorem url_class_colon : ∀ cl ∈ wordClasses false urlWord, inClass cl ':' = false := by decide
theorem url_class_space : ∀ cl ∈ wordClasses false urlWord, inClass cl ' ' = false := by decide
theorem url_class_close : ∀ cl ∈ wordClasses false urlWord, inClass cl ')' = false := by decide

theorem block_head {wide : Bool} {word b : Str} (h : IsBlock wide word b) (hw : word ≠ []) :
    ∃ c rest, b = c :: rest ∧ ∃ cl ∈ wordClasses wide word, inClass cl c = true := by
  obtain ⟨w, sp, rfl, hsp, _⟩ := h
  cases w with
  | nil =>
    exfalso
    have := hsp.1
    simp [wordClasses] at this
    exact hw (List.length_eq_zero_iff.mp this.symm)
  | cons c w' =>
    exact ⟨c, w' ++ sp ++ ['('], by simp, spells_mem hsp c (by simp)⟩

theorem head_not_call {x : Char} (hx : ∀ cl ∈ wordClasses false urlWord, inClass cl x = false) (rest : Str) :
    callAt false urlWord (x :: rest) = none := by
  cases hc : callAt false urlWord (x :: rest) with
  | none => rfl
  | some r =>
    exfalso
    obtain ⟨b, hb, hs⟩ := callAt_block hc
    obtain ⟨c, rest', rfl, cl, hcl, hin⟩ := block_head hb (by decide)
    simp at hs
    rw [← hs.1, hx cl hcl] at hin
    cases hin

theorem url_block_no_close {b : Str} (hb : IsBlock false urlWord b) : ∀ c ∈ b, (c ≠ ')') := by
  intro c hc he
  subst he
  exact block_not_mem hb url_class_close (by decide) (by decide) hc

/-- scanning on from the parenthesis that closes an argument finds nothing new -/
theorem urlArgs_after_close : ∀ (n : Nat) (y : Str), y.length ≤ n →
    ∀ arg ∈ urlArgs (y.dropWhile (· ≠ ')')), arg ∈ urlArgs y := by
  intro n
  induction n with
  | zero =>
    intro y hl arg h
    have : y = [] := List.length_eq_zero_iff.mp (Nat.le_zero.mp hl)
    subst this; simpa using h
  | succ n ih =>
    intro y hl arg h
    cases y with
    | nil => simpa using h
    | cons c y' =>
      by_cases hc : c = ')'
      · subst hc
        simpa [List.dropWhile] using h
      · have hdw : (c :: y').dropWhile (· ≠ ')') = y'.dropWhile (· ≠ ')') := by
          simp [List.dropWhile, hc]
        have hl' : y'.length ≤ n := by simp at hl; omega
        cases hcall : callAt false urlWord (c :: y') with
        | none =>
          rw [urlArgs_cons_none hcall]
          exact ih y' hl' arg (by rw [← hdw]; exact h)
        | some r =>
          by_cases he : (r.takeWhile (· ≠ ')')).isEmpty = true
          · rw [urlArgs_cons_empty hcall he]
            exact ih y' hl' arg (by rw [← hdw]; exact h)
          · have he' : (r.takeWhile (· ≠ ')')).isEmpty = false := by simpa using he
            rw [urlArgs_cons_some hcall he']
            obtain ⟨b, hb, hs⟩ := callAt_block hcall
            have : (c :: y').dropWhile (· ≠ ')') = r.dropWhile (· ≠ ')') := by
              rw [hs]
              apply List.dropWhile_append_of_pos
              intro x hx
              simpa using url_block_no_close hb x hx
            rw [this] at h
            exact List.mem_cons_of_mem _ h

/-- a property name without parenthesis holds no `url(` -/
theorem urlArgs_skip_propname : ∀ (pn value : Str), '(' ∉ pn → urlArgs (pn ++ ':' :: value) = urlArgs value := by
  intro pn
  induction pn with
  | nil =>
    intro value _
    simp only [List.nil_append]
    exact urlArgs_cons_none (head_not_call url_class_colon value)
  | cons c pn' ih =>
    intro value hp
    have hp' : '(' ∉ pn' := fun hm => hp (by simp [hm])
    simp only [List.cons_append]
    have hnone : callAt false urlWord (c :: (pn' ++ ':' :: value)) = none := by
      cases hc : callAt false urlWord (c :: (pn' ++ ':' :: value)) with
      | none => rfl
      | some r =>
        exfalso
        obtain ⟨b, hb, hs⟩ := callAt_block hc
        have hs' : (c :: pn') ++ ':' :: value = [] ++ b ++ r := by simpa using hs
        rcases block_split hs' (block_not_mem hb url_class_colon (by decide) (by decide)) (block_ne_nil hb) with
          ⟨r', hx⟩ | ⟨a', hy⟩
        · apply hp
          rw [hx]; simp [block_paren_mem hb]
        · have h1 := congrArg List.length hs'
          have h2 := congrArg List.length hy
          simp at h1 h2
          omega
    rw [urlArgs_cons_none hnone]
    exact ih value hp'

/-! ### an accepted `url()` argument, as the browser reads it -/

/-- the scheme a browser reads in the argument (after trimming CSS white space and quotes), if
    any, is a safe scheme -/
def GoodArg (cfg : Cfg) (arg : Str) : Prop :=
  ∀ sch, browserScheme (trimArg arg) = some sch → sch ∈ cfg.safeSchemes

theorem stripBy_decomp (p : Char → Bool) (s : Str) : ∃ t1 t2, s = t1 ++ Genshi.Str.stripBy p s ++ t2 ∧
    (∀ c ∈ t1, p c = true) ∧ (∀ c ∈ t2, p c = true) := by
  unfold Genshi.Str.stripBy
  obtain ⟨t1, h1, ha1⟩ := lstripBy_decomp p s
  obtain ⟨t2, h2, ha2⟩ := rstripBy_decomp p (Genshi.Str.lstripBy p s)
  refine ⟨t1, t2, ?_, ha1, ha2⟩
  rw [List.append_assoc, ← h2, ← h1]

theorem trimArg_decomp (a : Str) : ∃ lead trail, a = lead ++ trimArg a ++ trail ∧
    ∀ c ∈ lead, isSpace c = true ∨ isQuote c = true := by
  unfold trimArg pyStrip
  obtain ⟨s1, e1, h1, hs1, _⟩ := stripBy_decomp isSpace a
  obtain ⟨s2, e2, h2, hs2, _⟩ := stripBy_decomp isQuote (Genshi.Str.stripBy isSpace a)
  obtain ⟨s3, e3, h3, hs3, _⟩ := stripBy_decomp isSpace (Genshi.Str.stripBy isQuote (Genshi.Str.stripBy isSpace a))
  refine ⟨s1 ++ s2 ++ s3, e3 ++ e2 ++ e1, ?_, ?_⟩
  · conv => lhs; rw [h1, h2, h3]
    simp [List.append_assoc]
  · intro c hc
    simp at hc
    rcases hc with hc | hc | hc
    · exact Or.inl (hs1 c hc)
    · exact Or.inr (hs2 c hc)
    · exact Or.inl (hs3 c hc)

theorem split1_append_left {sep : Char} : ∀ {l : Str} (s : Str), sep ∉ l →
    split1 sep (l ++ s) = (l ++ (split1 sep s).1, (split1 sep s).2) := by
  intro l
  induction l with
  | nil => intro s _; simp
  | cons c cs ih =>
    intro s h
    have hc : c ≠ sep := fun e => h (by simp [e])
    have hcs : sep ∉ cs := fun hm => h (by simp [hm])
    simp only [List.cons_append]
    conv => lhs; unfold split1
    simp only [hc, ↓reduceIte, ih s hcs]

theorem split1_append_right {sep : Char} : ∀ {s a b : Str} (t : Str), split1 sep s = (a, some b) →
    split1 sep (s ++ t) = (a, some (b ++ t)) := by
  intro s
  induction s with
  | nil => intro a b t h; simp [split1] at h
  | cons c cs ih =>
    intro a b t h
    unfold split1 at h
    by_cases hc : c = sep
    · simp [hc] at h; obtain ⟨rfl, rfl⟩ := h
      simp [split1, hc]
    · simp only [hc, ↓reduceIte] at h
      cases hsp : split1 sep cs with
      | mk a' b' =>
        simp only [hsp] at h
        simp at h
        obtain ⟨rfl, rfl⟩ := h
        simp only [List.cons_append]
        conv => lhs; unfold split1
        simp only [hc, ↓reduceIte, ih t hsp]

/-- if the text before the first colon of `g ++ ';' :: m` holds no `;`, that colon is in `g` -/
theorem split1_colon_before_semicolon {g m pw rw : Str} (h : split1 ':' (g ++ ';' :: m) = (pw, some rw))
    (hs : ';' ∉ pw) : ∃ r', split1 ':' g = (pw, some r') := by
  cases hg : split1 ':' g with
  | mk a b =>
    cases b with
    | some b' =>
      rw [split1_append_right _ hg] at h
      simp at h
      exact ⟨b', by rw [h.1]⟩
    | none =>
      exfalso
      have hn : ':' ∉ g := (split1_none_iff ':' g).mp (by rw [hg])
      rw [split1_append_left _ hn] at h
      simp at h
      apply hs
      rw [← h.1]
      have : (split1 ':' (';' :: m)).1 = ';' :: (split1 ':' m).1 := by
        conv => lhs; unfold split1
        simp
      rw [this]; simp

theorem quote_space_not_kept {c : Char} (h : isSpace c = true ∨ isQuote c = true) : keepInScheme c = false := by
  rcases h with h | h
  · apply keep_of_isWsCtl
    unfold isWsCtl; simp [h]
  · unfold isQuote at h
    simp only [Bool.or_eq_true, decide_eq_true_eq] at h
    rcases h with rfl | rfl <;> decide +kernel

theorem good_of_safe {cfg : Cfg} {g arg : Str} (hsafe : isSafeUri cfg g = true)
    (harg : arg = g ∨ ∃ m, arg = g ++ ';' :: m) : GoodArg cfg arg := by
  intro sch hb
  obtain ⟨lead, trail, hdec, hlead⟩ := trimArg_decomp arg
  obtain ⟨pre, r, hsp, hlow, hall⟩ := browserScheme_pre hb
  -- the first colon of the whole argument
  have hcl : ':' ∉ lead := by
    intro hm
    rcases hlead _ hm with h | h
    · revert h; decide
    · revert h; decide
  have hsplit : split1 ':' arg = (lead ++ pre, some (r ++ trail)) := by
    rw [hdec, List.append_assoc, split1_append_left _ hcl, split1_append_right trail hsp]
  have hnot : ∀ x, isWsCtl x = false → isSchemeChar x = false →
      isSpace x = false → isQuote x = false → x ∉ lead ++ pre := by
    intro x h1 h2 h4 h5 hm
    simp at hm
    rcases hm with hm | hm
    · rcases hlead _ hm with h | h
      · rw [h4] at h; cases h
      · rw [h5] at h; cases h
    · exact not_mem_pre hall h1 h2 hm
  have hhash : '#' ∉ lead ++ pre := hnot '#' (by decide) (by decide) (by decide) (by decide)
  have hsemi : ';' ∉ lead ++ pre := hnot ';' (by decide) (by decide) (by decide) (by decide)
  have hfil : (lead ++ pre).filter keepInScheme = pre.filter keepInScheme := by
    rw [List.filter_append]
    have : lead.filter keepInScheme = [] := by
      apply List.filter_eq_nil_iff.mpr
      intro c hc
      simp [quote_space_not_kept (hlead c hc)]
    rw [this]; simp
  have hg : ∃ r', split1 ':' g = (lead ++ pre, some r') := by
    rcases harg with rfl | ⟨m, rfl⟩
    · exact ⟨_, hsplit⟩
    · exact split1_colon_before_semicolon hsplit hsemi
  obtain ⟨r', hr'⟩ := hg
  rw [isSafeUri_pre hr' hhash, hfil, hlow] at hsafe
  simpa using hsafe

/-! ### joining declarations with `; ` -/

theorem callAt_append {wide : Bool} {word s r : Str} (t : Str) (h : callAt wide word s = some r) :
    callAt wide word (s ++ t) = some (r ++ t) := by
  obtain ⟨b, hb, rfl⟩ := callAt_block h
  rw [List.append_assoc]
  exact block_callAt hb

theorem callAt_before_sep {x y r : Str} {c sep : Char}
    (h1 : ∀ cl ∈ wordClasses false urlWord, inClass cl sep = false) (h2 : isSpace sep = false) (h3 : sep ≠ '(')
    (h : callAt false urlWord (c :: x ++ sep :: y) = some r) :
    ∃ r1, callAt false urlWord (c :: x) = some r1 ∧ r = r1 ++ sep :: y := by
  obtain ⟨b, hb, hs⟩ := callAt_block h
  have hs' : (c :: x) ++ sep :: y = [] ++ b ++ r := by simpa using hs
  rcases block_split hs' (block_not_mem hb h1 h2 h3) (block_ne_nil hb) with ⟨r', hx⟩ | ⟨a', hy⟩
  · refine ⟨r', ?_, ?_⟩
    · rw [hx]; simpa using block_callAt (r := r') hb
    · rw [hx] at hs'
      simp at hs'
      exact hs'.symm
  · exfalso
    have e1 := congrArg List.length hs'
    have e2 := congrArg List.length hy
    simp at e1 e2
    omega

theorem callAt_none_of_append {x t : Str} (h : callAt false urlWord (x ++ t) = none) :
    callAt false urlWord x = none := by
  cases hc : callAt false urlWord x with
  | none => rfl
  | some r => rw [callAt_append t hc] at h; cases h

theorem takeWhile_append_stop {p : Char → Bool} : ∀ {l1 : Str} (l2 : Str), (∃ x ∈ l1, p x = false) →
    (l1 ++ l2).takeWhile p = l1.takeWhile p ∧ (l1 ++ l2).dropWhile p = l1.dropWhile p ++ l2 := by
  intro l1
  induction l1 with
  | nil => intro l2 h; obtain ⟨x, hx, _⟩ := h; simp at hx
  | cons c cs ih =>
    intro l2 h
    by_cases hp : p c = true
    · obtain ⟨x, hx, hpx⟩ := h
      simp at hx
      rcases hx with rfl | hx
      · rw [hp] at hpx; cases hpx
      · have := ih l2 ⟨x, hx, hpx⟩
        simp [List.takeWhile, List.dropWhile, hp, this.1, this.2]
    · simp [List.takeWhile, List.dropWhile, hp]

theorem takeWhile_all {p : Char → Bool} : ∀ {l : Str}, (∀ z ∈ l, p z = true) → l.takeWhile p = l := by
  intro l
  induction l with
  | nil => intro _; rfl
  | cons c cs ih =>
    intro h
    simp [List.takeWhile, h c (by simp), ih (fun z hz => h z (by simp [hz]))]

theorem isSafeUri_nil (cfg : Cfg) : isSafeUri cfg [] = true := by
  simp [isSafeUri, split1]

theorem urlArgs_join_step (cfg : Cfg) : ∀ (n : Nat) (x y : Str), x.length ≤ n →
    (∀ g ∈ urlArgs x, isSafeUri cfg g = true) → (∀ arg ∈ urlArgs y, GoodArg cfg arg) →
    ∀ arg ∈ urlArgs (x ++ ';' :: y), GoodArg cfg arg := by
  intro n
  induction n using Nat.strongRecOn with
  | _ n ih =>
    intro x y hl hx hy arg harg
    cases x with
    | nil =>
      simp only [List.nil_append] at harg
      rw [urlArgs_cons_none (head_not_call url_class_semicolon y)] at harg
      exact hy arg harg
    | cons c x' =>
      have hl' : x'.length < n := by simp at hl; omega
      simp only [List.cons_append] at harg
      cases hcall : callAt false urlWord (c :: (x' ++ ';' :: y)) with
      | none =>
        rw [urlArgs_cons_none hcall] at harg
        have hnx : callAt false urlWord (c :: x') = none :=
          callAt_none_of_append (t := ';' :: y) (by simpa using hcall)
        rw [urlArgs_cons_none hnx] at hx
        exact ih x'.length hl' x' y (Nat.le_refl _) hx hy arg harg
      | some r =>
        obtain ⟨r1, hr1, hr⟩ := callAt_before_sep url_class_semicolon (by decide) (by decide)
          (by simpa using hcall)
        have hr1len := callAt_shorter hr1
        by_cases hclose : ∃ z ∈ r1, (decide (z ≠ ')')) = false
        · -- the argument is closed inside this declaration
          obtain ⟨htw, hdw⟩ := takeWhile_append_stop (p := fun z => decide (z ≠ ')')) (';' :: y) hclose
          rw [← hr] at htw hdw
          by_cases he : (r1.takeWhile (· ≠ ')')).isEmpty = true
          · rw [urlArgs_cons_empty hcall (by rw [htw]; exact he)] at harg
            rw [urlArgs_cons_empty hr1 he] at hx
            exact ih x'.length hl' x' y (Nat.le_refl _) hx hy arg harg
          · have he' : (r1.takeWhile (· ≠ ')')).isEmpty = false := by simpa using he
            rw [urlArgs_cons_some hcall (by rw [htw]; exact he'), htw, hdw] at harg
            rw [urlArgs_cons_some hr1 he'] at hx
            simp only [List.mem_cons] at harg
            rcases harg with rfl | harg
            · exact good_of_safe (hx _ (by simp)) (Or.inl rfl)
            · have hdl := dropWhile_length_le (· ≠ ')') r1
              exact ih (r1.dropWhile (· ≠ ')')).length (by simp at hr1len; omega) _ y (Nat.le_refl _)
                (fun g hg => hx g (List.mem_cons_of_mem _ hg)) hy arg harg
        · -- the argument runs on into the next declaration
          have hall : ∀ z ∈ r1, (decide (z ≠ ')')) = true := by
            intro z hz
            cases hd : decide (z ≠ ')') with
            | true => rfl
            | false => exact absurd ⟨z, hz, hd⟩ hclose
          have htw : r.takeWhile (· ≠ ')') = r1 ++ ';' :: y.takeWhile (· ≠ ')') := by
            rw [hr, List.takeWhile_append_of_pos hall]
            simp [List.takeWhile]
          have hdw : r.dropWhile (· ≠ ')') = y.dropWhile (· ≠ ')') := by
            rw [hr, List.dropWhile_append_of_pos hall]
            simp [List.dropWhile]
          have hne : (r.takeWhile (· ≠ ')')).isEmpty = false := by rw [htw]; simp
          rw [urlArgs_cons_some hcall hne, htw, hdw] at harg
          simp only [List.mem_cons] at harg
          rcases harg with rfl | harg
          · -- the open argument, continued
            have hsafe : isSafeUri cfg r1 = true := by
              by_cases he : (r1.takeWhile (· ≠ ')')).isEmpty = true
              · have : r1 = [] := by
                  have h1 : r1.takeWhile (· ≠ ')') = r1 := takeWhile_all hall
                  rw [h1] at he; simpa using he
                rw [this]; exact isSafeUri_nil cfg
              · have he' : (r1.takeWhile (· ≠ ')')).isEmpty = false := by simpa using he
                rw [urlArgs_cons_some hr1 he'] at hx
                have h1 : r1.takeWhile (· ≠ ')') = r1 := takeWhile_all hall
                rw [h1] at hx
                exact hx r1 (by simp)
            exact good_of_safe hsafe (Or.inr ⟨_, rfl⟩)
          · exact hy arg (urlArgs_after_close _ y (Nat.le_refl _) arg harg)

theorem urlArgs_join (cfg : Cfg) : ∀ (ds : List Str), (∀ d ∈ ds, ∀ g ∈ urlArgs d, isSafeUri cfg g = true) →
    ∀ arg ∈ urlArgs (Genshi.Str.join declSep ds), GoodArg cfg arg := by
  intro ds
  induction ds with
  | nil => intro _ arg h; simp [Genshi.Str.join, urlArgs_nil] at h
  | cons d ds ih =>
    intro h arg harg
    cases ds with
    | nil =>
      simp only [Genshi.Str.join] at harg
      exact good_of_safe (h d (by simp) arg harg) (Or.inl rfl)
    | cons d2 ds' =>
      rw [join_cons_cons] at harg
      have e : d ++ declSep ++ Genshi.Str.join declSep (d2 :: ds') =
          d ++ ';' :: (' ' :: Genshi.Str.join declSep (d2 :: ds')) := by simp [declSep]
      rw [e] at harg
      refine urlArgs_join_step cfg d.length d _ (Nat.le_refl _) (h d (by simp)) ?_ arg harg
      intro a ha
      rw [urlArgs_cons_none (head_not_call url_class_space _)] at ha
      exact ih (fun x hx => h x (by simp [hx])) a ha

theorem decl_urls_safe {cfg : Cfg} (hcfg : CssNamesPlain cfg) {d : Str} (hf : DeclFacts cfg d) :
    ∀ g ∈ urlArgs d, isSafeUri cfg g = true := by
  obtain ⟨pn, value, hsp, hsafe, _, hurl⟩ := hf.ex
  rw [split1_eq hsp, urlArgs_skip_propname pn value (paren_not_in_propname hcfg hsafe), ← urlFind_eq]
  exact hurl

/-- **every `url(` argument of the style text that `sanitize_css` emits, as the browser decodes and
    reads it, was accepted by `is_safe_uri`**: the scheme a browser reads in it, if any, is safe -/
theorem sanitizeCss_urls_safe (hd : SanClass.commentsDotall = true) {cfg : Cfg} (hcfg : CssNamesPlain cfg)
    {x : Str} {decls : List Str} (h : sanitizeCss cfg x = .ok decls) :
    ∀ arg ∈ urlArgs (cssDecode (Genshi.Str.join declSep decls)), GoodArg cfg arg := by
  rw [sanitizeCss_decode_fixed hd h]
  exact urlArgs_join cfg decls (fun d hd' => decl_urls_safe hcfg (sanitizeCss_facts h d hd'))

end Genshi.San

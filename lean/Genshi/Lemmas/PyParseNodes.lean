/-
  C13 — `parse_gen`, node by node: what the parser does on the tokens each visitor writes,
  given what it does on the tokens of the children.
-/
import Genshi.Lemmas.PyParseWF
namespace Genshi.Py
open Genshi.Gen

/-! ### goals -/

def notEqHead : List Tok → Bool
  | .op ['='] :: _ => false
  | _ => true

def noKwStart : List Tok → Bool
  | .name _ :: .op ['='] :: _ => false
  | _ => true

/-- parsing a primary on the tokens of `e` is the same as having `e` and continuing with the
    trailers of the rest (with `cS e` levels of fuel used by the trailers of `e` itself) -/
def Spine (e : PyExpr) : Prop :=
  ∀ M, need e ≤ M → ∀ rest, primaryF (knot M) (gen e ++ rest) = (knot (M - cS e)).trailers e rest

structure ExprGoal (e : PyExpr) : Prop where
  spine : Spine e
  head : headOK (gen e) = true
  nokw : ∀ rest, notEqHead rest = true → noKwStart (gen e ++ rest) = true

theorem need_ge (e : PyExpr) : cS e + 8 ≤ need e := by
  have := cS_lt_sz e
  have := sz_pos e
  simp only [need]; omega

namespace ExprGoal
variable {e : PyExpr}

theorem prim (g : ExprGoal e) {M : Nat} (hM : need e ≤ M) (rest : List Tok) (hs : stopsTrailer rest = true) :
    primaryF (knot M) (gen e ++ rest) = some (e, rest) := by
  rw [g.spine M hM rest]
  have := need_ge e
  obtain ⟨n, hn⟩ : ∃ n, M - cS e = n + 1 := ⟨M - cS e - 1, by omega⟩
  rw [hn, knot_trailers, trailers_stop _ _ _ hs]

theorem unary (g : ExprGoal e) {M : Nat} (hM : need e ≤ M) (rest : List Tok) (hs : stopsTrailer rest = true)
    (hp : stopsPow rest = true) : unaryF (knot M) (gen e ++ rest) = some (e, rest) :=
  unary_of_power _ _ _ _ (power_of_primary _ _ _ _ (g.prim hM rest hs) hp) (headOK_append _ g.head)

theorem kunary (g : ExprGoal e) {M : Nat} (hM : need e + 1 ≤ M) (rest : List Tok) (hs : stopsTrailer rest = true)
    (hp : stopsPow rest = true) : (knot M).unary (gen e ++ rest) = some (e, rest) := by
  obtain ⟨n, rfl⟩ : ∃ n, M = n + 1 := ⟨M - 1, by omega⟩
  rw [knot_unary]; exact g.unary (by omega) rest hs hp

theorem bin (g : ExprGoal e) {M : Nat} (hM : need e ≤ M) (lvl : Nat) (rest : List Tok) (hs : stopsTrailer rest = true)
    (hp : stopsPow rest = true) (hb : stopsBin rest = true) :
    binF (knot M) lvl (gen e ++ rest) = some (e, rest) := by
  have := need_ge e
  obtain ⟨n, rfl⟩ : ∃ n, M = n + 1 := ⟨M - 1, by omega⟩
  exact bin_of_unary _ _ _ _ _ (g.unary hM rest hs hp) hb

theorem kbin (g : ExprGoal e) {M : Nat} (hM : need e + 1 ≤ M) (lvl : Nat) (rest : List Tok) (hs : stopsTrailer rest = true)
    (hp : stopsPow rest = true) (hb : stopsBin rest = true) :
    (knot M).bin lvl (gen e ++ rest) = some (e, rest) := by
  obtain ⟨n, rfl⟩ : ∃ n, M = n + 1 := ⟨M - 1, by omega⟩
  rw [knot_bin]; exact g.bin (by omega) lvl rest hs hp hb

theorem inv (g : ExprGoal e) {M : Nat} (hM : need e ≤ M) (rest : List Tok) (hb : belowBool rest = true) :
    invF (knot M) (gen e ++ rest) = some (e, rest) := by
  have := need_ge e
  obtain ⟨n, rfl⟩ : ∃ n, M = n + 1 := ⟨M - 1, by omega⟩
  exact inv_of_cmp _ _ _ _
    (cmp_of_bin _ _ _ _ (g.bin hM 0 rest (belowBool_trailer hb) (belowBool_pow hb) (belowBool_bin hb))
      (belowBool_cmp hb))
    (headOK_not (headOK_append _ g.head))

theorem kinv (g : ExprGoal e) {M : Nat} (hM : need e + 1 ≤ M) (rest : List Tok) (hb : belowBool rest = true) :
    (knot M).inv (gen e ++ rest) = some (e, rest) := by
  obtain ⟨n, rfl⟩ : ∃ n, M = n + 1 := ⟨M - 1, by omega⟩
  rw [knot_inv]; exact g.inv (by omega) rest hb

theorem conj (g : ExprGoal e) {M : Nat} (hM : need e ≤ M) (rest : List Tok) (hb : belowBool rest = true)
    (ha : stopsAnd rest = true) : conjF (knot M) (gen e ++ rest) = some (e, rest) := by
  have := need_ge e
  obtain ⟨n, rfl⟩ : ∃ n, M = n + 1 := ⟨M - 1, by omega⟩
  exact conj_of_inv _ _ _ _ (g.inv hM rest hb) ha

theorem kconj (g : ExprGoal e) {M : Nat} (hM : need e + 1 ≤ M) (rest : List Tok) (hb : belowBool rest = true)
    (ha : stopsAnd rest = true) : (knot M).conj (gen e ++ rest) = some (e, rest) := by
  obtain ⟨n, rfl⟩ : ∃ n, M = n + 1 := ⟨M - 1, by omega⟩
  rw [knot_conj]; exact g.conj (by omega) rest hb ha

theorem disj (g : ExprGoal e) {M : Nat} (hM : need e ≤ M) (rest : List Tok) (hd : closedD rest = true) :
    disjF (knot M) (gen e ++ rest) = some (e, rest) := by
  have := need_ge e
  obtain ⟨n, rfl⟩ : ∃ n, M = n + 1 := ⟨M - 1, by omega⟩
  exact disj_of_conj _ _ _ _ (g.conj hM rest (closedD_belowBool hd) (closedD_and hd)) (closedD_or hd)

theorem kdisj (g : ExprGoal e) {M : Nat} (hM : need e + 1 ≤ M) (rest : List Tok) (hd : closedD rest = true) :
    (knot M).disj (gen e ++ rest) = some (e, rest) := by
  obtain ⟨n, rfl⟩ : ∃ n, M = n + 1 := ⟨M - 1, by omega⟩
  rw [knot_disj]; exact g.disj (by omega) rest hd

theorem expr (g : ExprGoal e) {M : Nat} (hM : need e ≤ M) (rest : List Tok) (hc : closedE rest = true) :
    exprF (knot M) (gen e ++ rest) = some (e, rest) :=
  expr_of_disj _ _ _ _ (g.disj hM rest (closedE_D hc)) (headOK_lambda (headOK_append _ g.head)) (closedE_if hc)

theorem kexpr (g : ExprGoal e) {M : Nat} (hM : need e + 1 ≤ M) (rest : List Tok) (hc : closedE rest = true) :
    (knot M).expr (gen e ++ rest) = some (e, rest) := by
  obtain ⟨n, rfl⟩ : ∃ n, M = n + 1 := ⟨M - 1, by omega⟩
  rw [knot_expr]; exact g.expr (by omega) rest hc

end ExprGoal

/-! ### lifting from an intermediate layer to a full expression (rest closed) -/

theorem expr_of_bin0 (n : Nat) (toks : List Tok) (e : PyExpr) (r : List Tok)
    (h : binF (knot (n+1)) 0 toks = some (e, r)) (hn : notKwHead cs!"not" toks = true)
    (hl : notKwHead cs!"lambda" toks = true) (hc : closedE r = true) :
    exprF (knot (n+1)) toks = some (e, r) :=
  expr_of_inv _ _ _ _
    (inv_of_cmp _ _ _ _ (cmp_of_bin _ _ _ _ h (belowBool_cmp (closedD_belowBool (closedE_D hc)))) hn) hl hc

theorem expr_of_cmp (n : Nat) (toks : List Tok) (e : PyExpr) (r : List Tok)
    (h : cmpF (knot (n+1)) toks = some (e, r)) (hn : notKwHead cs!"not" toks = true)
    (hl : notKwHead cs!"lambda" toks = true) (hc : closedE r = true) :
    exprF (knot (n+1)) toks = some (e, r) :=
  expr_of_inv _ _ _ _ (inv_of_cmp _ _ _ _ h hn) hl hc

theorem expr_of_conj (n : Nat) (toks : List Tok) (e : PyExpr) (r : List Tok)
    (h : conjF (knot (n+1)) toks = some (e, r)) (hl : notKwHead cs!"lambda" toks = true) (hc : closedE r = true) :
    exprF (knot (n+1)) toks = some (e, r) :=
  expr_of_disj _ _ _ _ (disj_of_conj _ _ _ _ h (closedD_or (closedE_D hc))) hl (closedE_if hc)

/-! ### atoms -/

theorem closedE_cons_rp (rest : List Tok) : closedE (tRP :: rest) = true := by rfl
theorem closedD_cons_rp (rest : List Tok) : closedD (tRP :: rest) = true := by rfl

theorem spine_name (id : Str) (h : IdentOK id) : ExprGoal (.name id) := by
  have h1 : id ≠ cs!"True" := by intro e; subst e; exact absurd h (by decide)
  have h2 : id ≠ cs!"False" := by intro e; subst e; exact absurd h (by decide)
  have h3 : id ≠ cs!"None" := by intro e; subst e; exact absurd h (by decide)
  refine ⟨?_, ?_, ?_⟩
  · intro M _ rest
    simp [gen, primaryF, atomF, h1, h2, h3, cS, show isKeyword id = false from h]
  · simp [gen, headOK, atomStart, show isKeyword id = false from h]
  · intro rest hr
    cases rest with
    | nil => simp [gen, noKwStart]
    | cons t r =>
      simp only [gen, List.cons_append, List.nil_append]
      unfold noKwStart
      split
      · rename_i heq
        simp at heq
        simp [heq.2.1, notEqHead] at hr
      · rfl

theorem signedNum_eq (t : Str) (h : match t with | '-' :: _ => False | _ => True) : signedNum t = wordNum t := by
  unfold signedNum
  split
  · simp at h
  · rfl

theorem spine_const (c : Const) (h : ConstOK c) : ExprGoal (.const c) := by
  obtain ⟨kind, text⟩ := c
  have key : ∃ t, gen (.const ⟨kind, text⟩) = [t] ∧ atomStart t = true ∧
      ∀ k rest, atomF k (t :: rest) = some (.const ⟨kind, text⟩, rest) := by
    cases kind <;> simp only [ConstOK] at h
    · obtain ⟨h1, h2, h3⟩ := h
      exact ⟨.num text, by simp [gen, genConst, signedNum_eq _ h3, h1], rfl, by intro k rest; simp [atomF, h2]⟩
    · obtain ⟨h1, h2, h3, h4⟩ := h
      exact ⟨.num text, by simp [gen, genConst, h4, signedNum_eq _ h3, h1], rfl, by intro k rest; simp [atomF, h2]⟩
    · obtain ⟨h1, h2, h3, h4⟩ := h
      exact ⟨.num text, by simp [gen, genConst, h4, signedNum_eq _ h3, h1], rfl, by intro k rest; simp [atomF, h2]⟩
    · exact ⟨.str text, by simp [gen, genConst], rfl, by intro k rest; simp [atomF, h]⟩
    · exact ⟨.str text, by simp [gen, genConst], rfl, by intro k rest; simp [atomF, h]⟩
    · subst h; exact ⟨.name cs!"True", by simp [gen, genConst], by decide, by intro k rest; simp [atomF]⟩
    · subst h; exact ⟨.name cs!"False", by simp [gen, genConst], by decide, by intro k rest; simp [atomF]⟩
    · subst h; exact ⟨.name cs!"None", by simp [gen, genConst], by decide, by intro k rest; simp [atomF]⟩
    · subst h; exact ⟨tEllipsis, by simp [gen, genConst], by decide, by intro k rest; simp [atomF, tEllipsis]⟩
  obtain ⟨t, hg, hs, ha⟩ := key
  refine ⟨?_, ?_, ?_⟩
  · intro M _ rest
    simp [hg, primaryF, ha, cS]
  · simp [hg, headOK, hs]
  · intro rest hr
    rw [hg]
    cases rest with
    | nil => simp [noKwStart]
    | cons t2 r =>
      simp only [List.cons_append, List.nil_append]
      unfold noKwStart
      split
      · rename_i heq
        simp at heq
        simp [heq.2.1, notEqHead] at hr
      · rfl

/-! ### parenthesised forms -/

def isStarred : PyExpr → Bool
  | .starred _ => true
  | _ => false

/-- what the text between the parentheses of a parenthesised node starts with: not `)`, `yield`, `*` -/
def parenStart : List Tok → Bool
  | [] => false
  | t :: _ => t != tRP && t != kw cs!"yield" && t != tStar

theorem parenStart_append {a : List Tok} (b : List Tok) (h : parenStart a = true) : parenStart (a ++ b) = true := by
  cases a with
  | nil => simp [parenStart] at h
  | cons t r => simpa [parenStart] using h

theorem headOK_parenStart {toks : List Tok} (h : headOK toks = true) : parenStart toks = true := by
  cases toks with
  | nil => simp [headOK] at h
  | cons t r =>
    simp [headOK] at h
    simp only [parenStart, Bool.and_eq_true, bne_iff_ne, ne_eq]
    refine ⟨⟨?_, ?_⟩, ?_⟩
    · intro e; subst e; simp [atomStart, tRP] at h
    · intro e; subst e; revert h; decide
    · intro e; subst e; simp [atomStart, tStar] at h

theorem eltF_expr (k : Knot) (toks : List Tok) (h : parenStart toks = true) : eltF k toks = k.expr toks := by
  cases toks with
  | nil => simp [parenStart] at h
  | cons t r =>
    simp only [parenStart, Bool.and_eq_true, bne_iff_ne, ne_eq] at h
    unfold eltF
    split
    · rename_i heq
      exact absurd (List.cons.inj heq).1 h.2
    · rfl

/-- `( inner )` where `inner` parses as the expression `e` -/
theorem paren_wrap (n : Nat) (inner rest : List Tok) (e : PyExpr)
    (h : exprF (knot n) (inner ++ tRP :: rest) = some (e, tRP :: rest))
    (hh : parenStart inner = true) (hs : isStarred e = false) :
    primaryF (knot (n+1)) (tLP :: (inner ++ tRP :: rest)) = (knot (n+1)).trailers e rest := by
  have he : eltF (knot (n+1)) (inner ++ tRP :: rest) = some (e, tRP :: rest) := by
    rw [eltF_expr _ _ (parenStart_append _ hh), knot_expr, h]
  cases inner with
  | nil => simp [parenStart] at hh
  | cons t r =>
    simp only [parenStart, Bool.and_eq_true, bne_iff_ne, ne_eq] at hh
    simp only [primaryF, atomF, tLP]
    simp only [show (['('] : Str) ≠ ['.', '.', '.'] by decide, if_false, if_true]
    simp only [List.cons_append] at he ⊢
    unfold parenF
    split
    · rename_i heq; exact absurd (List.cons.inj heq).1 hh.1.1
    · rename_i heq; exact absurd (List.cons.inj heq).1 hh.1.2
    · simp only [tRP] at he
      simp only [tRP, he, Option.bind_eq_bind, Option.bind_some]
      cases e <;> simp_all [isStarred]

/-- a node written as `( inner )`: it is enough to parse `inner` as an expression -/
theorem goal_of_paren (e : PyExpr) (inner : List Tok) (hg : gen e = tLP :: (inner ++ [tRP])) (hc : cS e = 0)
    (hs : isStarred e = false) (hh : parenStart inner = true)
    (h : ∀ n, need e ≤ n + 1 → ∀ rest, exprF (knot n) (inner ++ tRP :: rest) = some (e, tRP :: rest)) :
    ExprGoal e := by
  refine ⟨?_, ?_, ?_⟩
  · intro M hM rest
    have := need_ge e
    obtain ⟨n, rfl⟩ : ∃ n, M = n + 1 := ⟨M - 1, by omega⟩
    rw [hg, hc]
    simp only [List.cons_append, List.append_assoc, List.nil_append, Nat.sub_zero]
    exact paren_wrap n inner rest e (h n hM rest) hh hs
  · simp [hg, headOK, atomStart, tLP]
  · intro rest _
    simp [hg, noKwStart, tLP]

theorem stopsTrailer_op {s : Str} (rest : List Tok) (h : stopsTrailer [Tok.op s] = true) :
    stopsTrailer (Tok.op s :: rest) = true := by
  unfold stopsTrailer at h ⊢
  split <;> simp_all

theorem goal_binOp (l r : PyExpr) (op : Str) (gl : ExprGoal l) (gr : ExprGoal r)
    (hop : (lookup AstGen.binaryOperators op).isSome = true) : ExprGoal (.binOp l op r) := by
  obtain ⟨sym, hsym⟩ := Option.isSome_iff_exists.mp hop
  obtain ⟨hsymToks, hst, hcase⟩ := binTable_ok _ (lookup_mem hsym)
  simp only at hsymToks hst hcase
  apply goal_of_paren _ (gen l ++ Tok.op sym :: gen r)
  · simp [gen, wrapP, parens_all.2.1, opToks, hsym, hsymToks]
  · rfl
  · rfl
  · exact headOK_parenStart (headOK_append _ gl.head)
  · intro n hn rest
    simp only [need, sz] at hn
    have hnl : need l + 3 ≤ n := by simp only [need]; have := sz_pos r; omega
    have hnr : need r + 3 ≤ n := by simp only [need]; have := sz_pos l; omega
    obtain ⟨m, rfl⟩ : ∃ m, n = m + 2 := ⟨n - 2, by omega⟩
    simp only [List.append_assoc, List.cons_append]
    have hhead : headOK (gen l ++ Tok.op sym :: (gen r ++ tRP :: rest)) = true := headOK_append _ gl.head
    rcases hcase with ⟨hpow, hcls⟩ | ⟨hnp, hlvl⟩
    · -- `**`: the power layer
      subst hpow; subst hcls
      have hp : primaryF (knot (m+2)) (gen l ++ Tok.op ['*', '*'] :: (gen r ++ tRP :: rest))
          = some (l, Tok.op ['*', '*'] :: (gen r ++ tRP :: rest)) := gl.prim (by omega) _ (stopsTrailer_op _ hst)
      have hr := gr.unary (M := m+1) (by omega) (tRP :: rest) rfl rfl
      have hpw : powerF (knot (m+2)) (gen l ++ Tok.op ['*', '*'] :: (gen r ++ tRP :: rest))
          = some (.binOp l cs!"Pow" r, tRP :: rest) := by
        simp [powerF, hp, hr]
      exact expr_of_unary _ _ _ _ (unary_of_power _ _ _ _ hpw hhead) (headOK_not hhead) (headOK_lambda hhead)
        (closedE_cons_rp rest)
    · -- a left-associative operator with a level
      obtain ⟨⟨cls, lvl⟩, hbl, hcls⟩ := Option.map_eq_some_iff.mp hlvl
      simp only at hcls; subst hcls
      have hsp : stopsPow (Tok.op sym :: (gen r ++ tRP :: rest)) = true := by
        unfold stopsPow; split
        · rename_i heq; exact absurd (by simpa using (List.cons.inj heq).1) hnp
        · rfl
      have hu := gl.unary (M := m+2) (by omega) (Tok.op sym :: (gen r ++ tRP :: rest)) (stopsTrailer_op _ hst) hsp
      have hr := gr.bin (M := m) (by omega) (lvl + 1) (tRP :: rest) rfl rfl rfl
      have hb : binF (knot (m+2)) 0 (gen l ++ Tok.op sym :: (gen r ++ tRP :: rest))
          = some (.binOp l cls r, tRP :: rest) := by
        rw [binF_def, hu]
        simp only [Option.bind_some, knot_binl]
        rw [binl_step _ _ _ _ _ _ _ hbl (Nat.zero_le _), knot_bin, hr]
        simp only [Option.bind_some, knot_binl]
        exact binl_stop _ _ _ _ rfl
      exact expr_of_bin0 _ _ _ _ hb (headOK_not hhead) (headOK_lambda hhead) (closedE_cons_rp rest)

/-! ### unary operators, conditional, yield -/

theorem invF_not (k : Knot) (r : List Tok) :
    invF k (.name ['n', 'o', 't'] :: r) = (k.inv r).bind fun x => some (.unaryOp cs!"Not" x.1, x.2) := rfl

theorem unaryF_op (k : Knot) (s : Str) (r : List Tok) (cls : Str)
    (h : unarySym? s Astgrammar.unaryOps = some cls) :
    unaryF k (.op s :: r) = (k.unary r).bind fun x => some (.unaryOp cls x.1, x.2) := by
  simp [unaryF, h]

theorem goal_unaryOp (e : PyExpr) (op : Str) (ge : ExprGoal e)
    (hop : (lookup AstGen.unaryOperators op).isSome = true) : ExprGoal (.unaryOp op e) := by
  obtain ⟨sym, hsym⟩ := Option.isSome_iff_exists.mp hop
  rcases unTable_ok _ (lookup_mem hsym) with ⟨hnot, htoks⟩ | ⟨_, htoks, hun⟩
  · simp only at hnot htoks
    subst hnot
    apply goal_of_paren _ (Tok.name cs!"not" :: gen e)
    · simp [gen, wrapP, parens_all.2.2.1, opToks, hsym, htoks]
    · rfl
    · rfl
    · rfl
    · intro n hn rest
      simp only [need, sz] at hn
      obtain ⟨m, rfl⟩ : ∃ m, n = m + 2 := ⟨n - 2, by omega⟩
      have hi := ge.inv (M := m+1) (by simp only [need]; omega) (tRP :: rest) rfl
      have : invF (knot (m+2)) (Tok.name cs!"not" :: (gen e ++ tRP :: rest))
          = some (.unaryOp cs!"Not" e, tRP :: rest) := by
        rw [invF_not, knot_inv, hi]; rfl
      exact expr_of_inv _ _ _ _ this rfl (closedE_cons_rp rest)
  · simp only at htoks hun
    have hs1 : sym ≠ [')'] := by intro e; subst e; simp [unarySym?, Astgrammar.unaryOps] at hun
    have hs2 : sym ≠ ['*'] := by intro e; subst e; simp [unarySym?, Astgrammar.unaryOps] at hun
    apply goal_of_paren _ (Tok.op sym :: gen e)
    · simp [gen, wrapP, parens_all.2.2.1, opToks, hsym, htoks]
    · rfl
    · rfl
    · simp [parenStart, tRP, tStar, kw, hs1, hs2]
    · intro n hn rest
      simp only [need, sz] at hn
      obtain ⟨m, rfl⟩ : ∃ m, n = m + 2 := ⟨n - 2, by omega⟩
      have hu := ge.unary (M := m+1) (by simp only [need]; omega) (tRP :: rest) rfl rfl
      have : unaryF (knot (m+2)) (Tok.op sym :: (gen e ++ tRP :: rest))
          = some (.unaryOp op e, tRP :: rest) := by
        rw [unaryF_op _ _ _ _ hun, knot_unary, hu]; rfl
      exact expr_of_unary _ _ _ _ this rfl rfl (closedE_cons_rp rest)

theorem exprF_if (k : Knot) (toks : List Tok) (b : PyExpr) (r1 : List Tok)
    (hl : notKwHead cs!"lambda" toks = true) (h : disjF k toks = some (b, .name ['i', 'f'] :: r1)) :
    exprF k toks = (k.disj r1).bind fun x =>
      match x.2 with
      | .name ['e', 'l', 's', 'e'] :: r3 => (k.expr r3).bind fun y => some (.ifExp x.1 b y.1, y.2)
      | _ => none := by
  unfold exprF
  split
  · simp [notKwHead] at hl
  · simp only [h, Option.bind_eq_bind, Option.bind_some]
    rfl

theorem goal_ifExp (t b o : PyExpr) (gt : ExprGoal t) (gb : ExprGoal b) (go : ExprGoal o) :
    ExprGoal (.ifExp t b o) := by
  apply goal_of_paren _ (gen b ++ kw cs!"if" :: (gen t ++ kw cs!"else" :: gen o))
  · simp [gen, wrapP, parens_all.2.2.2.2.1]
  · rfl
  · rfl
  · exact headOK_parenStart (headOK_append _ gb.head)
  · intro n hn rest
    simp only [need, sz] at hn
    obtain ⟨m, rfl⟩ : ∃ m, n = m + 2 := ⟨n - 2, by omega⟩
    simp only [List.append_assoc, List.cons_append]
    have hb := gb.disj (M := m+2) (by simp only [need]; omega)
      (kw cs!"if" :: (gen t ++ kw cs!"else" :: (gen o ++ tRP :: rest))) rfl
    have ht := gt.disj (M := m+1) (by simp only [need]; omega) (kw cs!"else" :: (gen o ++ tRP :: rest)) rfl
    have ho := go.expr (M := m+1) (by simp only [need]; omega) (tRP :: rest) (closedE_cons_rp rest)
    rw [exprF_if _ _ _ _ (headOK_lambda (headOK_append _ gb.head)) hb, knot_disj, ht]
    simp only [Option.bind_some, kw, knot_expr, ho]

theorem goal_yield_none : ExprGoal (.yield_ none) := by
  have hg : gen (.yield_ none) = [tLP, kw cs!"yield", tRP] := by
    simp [gen, wrapP, parens_all.2.2.2.2.2.1, genOpt]
  refine ⟨?_, ?_, ?_⟩
  · intro M hM rest
    rw [hg]
    simp [primaryF, atomF, parenF, tLP, tRP, kw, cS]
  · rw [hg]; rfl
  · intro rest _; rw [hg]; rfl

theorem goal_yield_some (x : PyExpr) (gx : ExprGoal x) : ExprGoal (.yield_ (some x)) := by
  have hg : gen (.yield_ (some x)) = tLP :: kw cs!"yield" :: (gen x ++ [tRP]) := by
    simp [gen, wrapP, parens_all.2.2.2.2.2.1, genOpt]
  refine ⟨?_, ?_, ?_⟩
  · intro M hM rest
    simp only [need, sz, szO] at hM
    obtain ⟨m, rfl⟩ : ∃ m, M = m + 2 := ⟨M - 2, by omega⟩
    have hx := gx.expr (M := m+1) (by simp only [need]; omega) (tRP :: rest) (closedE_cons_rp rest)
    have hps := headOK_parenStart (headOK_append (tRP :: rest) gx.head)
    have he : eltF (knot (m+2)) (gen x ++ tRP :: rest) = some (x, tRP :: rest) := by
      rw [eltF_expr _ _ hps, knot_expr, hx]
    rw [hg]
    simp only [List.cons_append, List.append_assoc, List.nil_append, cS, Nat.sub_zero]
    simp only [primaryF, atomF, tLP]
    simp only [show (['('] : Str) ≠ ['.', '.', '.'] by decide, if_false, if_true]
    obtain ⟨t, r, hcons⟩ : ∃ t r, gen x ++ tRP :: rest = t :: r := by
      cases hgx : gen x with
      | nil => have := gx.head; simp [hgx, headOK] at this
      | cons t r => exact ⟨t, r ++ tRP :: rest, rfl⟩
    have hne : t ≠ tRP := by
      rw [hcons] at hps
      simp only [parenStart, Bool.and_eq_true, bne_iff_ne, ne_eq] at hps
      exact hps.1.1
    rw [hcons] at he
    simp only [parenF, kw, hcons]
    split
    · rename_i heq; exact absurd (List.cons.inj heq).1 hne
    · simp only [tRP] at he
      simp only [he, Option.bind_eq_bind, Option.bind_some]
  · rw [hg]; rfl
  · intro rest _; rw [hg]; rfl

end Genshi.Py

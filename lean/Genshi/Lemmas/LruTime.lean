/-
  C15 — "least recently used" in terms of the operation history: give every operation a
  time; the recency list of the abstract LRU map is strictly ordered by the time of last
  use of its keys, so the entry dropped by an eviction is the one used longest ago.
-/
import Genshi.Lemmas.LruAbs
namespace Genshi.Lru
set_option linter.unusedSectionVars false
variable {K V : Type} [DecidableEq K]

/-- the abstract map together with the time of the last use of every key (0 = never) and
    the number of operations so far -/
structure Timed (K V : Type) where
  a : ALru K V
  last : K → Nat
  now : Nat

/-- does this operation use a key (a hit or a store)? -/
def usedKey (a : ALru K V) : Op K V → Option K
  | .get k => if (alookup k a.items).isSome then some k else none
  | .set k _ => some k
  | _ => none

def tstep (s : Timed K V) (op : Op K V) : Timed K V :=
  { a := (astep s.a op).1,
    last := match usedKey s.a op with
      | some k => fun k' => if k' = k then s.now + 1 else s.last k'
      | none => s.last,
    now := s.now + 1 }

def trun (s : Timed K V) : List (Op K V) → Timed K V
  | [] => s
  | op :: ops => trun (tstep s op) ops

def tinit (cap : Nat) : Timed K V := ⟨aempty cap, fun _ => 0, 0⟩

/-- most recently used first, strictly; every cached key has been used, not in the future -/
def TimeOrdered (s : Timed K V) : Prop :=
  s.a.items.Pairwise (fun p q => s.last q.1 < s.last p.1) ∧ ∀ p ∈ s.a.items, 0 < s.last p.1 ∧ s.last p.1 ≤ s.now

theorem pairwise_aerase {R : K × V → K × V → Prop} {l : List (K × V)} (k : K) (h : l.Pairwise R) :
    (aerase k l).Pairwise R := h.sublist List.filter_sublist

theorem touch_ordered (s : Timed K V) (k : K) (v : V) (h : TimeOrdered s) :
    let last' : K → Nat := fun k' => if k' = k then s.now + 1 else s.last k'
    ((k, v) :: aerase k s.a.items).Pairwise (fun p q => last' q.1 < last' p.1) ∧
    ∀ p ∈ (k, v) :: aerase k s.a.items, 0 < last' p.1 ∧ last' p.1 ≤ s.now + 1 := by
  intro last'
  obtain ⟨hp, hb⟩ := h
  have hne : ∀ p ∈ aerase k s.a.items, p ∈ s.a.items ∧ p.1 ≠ k := fun p hp' => by
    simpa [aerase, List.mem_filter] using hp'
  constructor
  · rw [List.pairwise_cons]
    constructor
    · intro q hq
      obtain ⟨hq1, hq2⟩ := hne q hq
      have := (hb q hq1).2
      simp only [last', hq2, if_false, if_true]
      omega
    · have := pairwise_aerase k hp
      apply List.Pairwise.imp_of_mem _ this
      intro p q hp' hq' hlt
      simp only [last', (hne p hp').2, (hne q hq').2, if_false]
      exact hlt
  · intro p hp'
    rcases List.mem_cons.mp hp' with rfl | hp'
    · simp [last']
    · obtain ⟨h1, h2⟩ := hne p hp'
      have := hb p h1
      simp only [last', h2, if_false]
      omega

theorem tstep_ordered (s : Timed K V) (op : Op K V) (h : TimeOrdered s) : TimeOrdered (tstep s op) := by
  have hmono : ∀ p ∈ s.a.items, 0 < s.last p.1 ∧ s.last p.1 ≤ s.now + 1 := fun p hp => by
    have := h.2 p hp; omega
  cases op with
  | get k =>
    simp only [tstep, usedKey, astep]
    cases hl : alookup k s.a.items with
    | none => exact ⟨h.1, hmono⟩
    | some v =>
      obtain ⟨h1, h2⟩ := touch_ordered s k v h
      exact ⟨h1, h2⟩
  | set k v =>
    simp only [tstep, usedKey, astep]
    obtain ⟨h1, h2⟩ := touch_ordered s k v h
    exact ⟨h1.sublist (List.take_sublist _ _), fun p hp => h2 p (List.mem_of_mem_take hp)⟩
  | contains k => exact ⟨h.1, hmono⟩
  | len => exact ⟨h.1, hmono⟩
  | iter => exact ⟨h.1, hmono⟩

theorem trun_ordered (s : Timed K V) (ops : List (Op K V)) (h : TimeOrdered s) : TimeOrdered (trun s ops) := by
  induction ops generalizing s with
  | nil => exact h
  | cons op ops ih => exact ih _ (tstep_ordered s op h)

theorem tinit_ordered (cap : Nat) : TimeOrdered (tinit cap : Timed K V) := by
  simp [TimeOrdered, tinit, aempty]

/-- the timed run is the plain run with bookkeeping -/
theorem trun_a (s : Timed K V) (ops : List (Op K V)) : (trun s ops).a = (arun s.a ops).1 := by
  induction ops generalizing s with
  | nil => rfl
  | cons op ops ih => simp only [trun, arun]; rw [ih]; rfl

/-- in a time-ordered list the last entry is the least recently used one -/
theorem last_is_least_recent {s : Timed K V} (h : TimeOrdered s) (pre : List (K × V)) (p : K × V)
    (hitems : s.a.items = pre ++ [p]) : ∀ q ∈ pre, s.last p.1 < s.last q.1 := by
  intro q hq
  have := h.1
  rw [hitems, List.pairwise_append] at this
  exact this.2.2 q hq p (by simp)

end Genshi.Lru

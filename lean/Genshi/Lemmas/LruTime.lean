/-
  C15 — "least recently used" in terms of the operation history: give every operation a
  time; the recency list of the abstract LRU map is strictly ordered by the time of last
  use of its keys, so the entry dropped by an eviction is the one used longest ago.
-/
import Genshi.Lemmas.LruAbs
namespace Genshi.Lru
set_option linter.unusedSectionVars false
variable {K V : Type} [DecidableEq K]

/-- the abstract map together with the time of the last use of every key (0 = never) and
    the number of operations so far -/
structure Timed (K V : Type) where
  a : ALru K V
  last : K → Nat
  now : Nat

/-- does this operation use a key (a hit or a store)? -/
def usedKey (a : ALru K V) : Op K V → Option K
  | .get k => if (alookup k a.items).isSome then some k else none
  | .set k _ => some k
  | _ => none

def tstep (s : Timed K V) (op : Op K V) : Timed K V :=
  { a := (astep s.a op).1,
    last := match usedKey s.a op with
      | some k => fun k' => if k' = k then s.now + 1 else s.last k'
      | none => s.last,
    now := s.now + 1 }

def trun (s : Timed K V) : List (Op K V) → Timed K V
  | [] => s
  | op :: ops => trun (tstep s op) ops

def tinit (cap : Nat) : Timed K V := ⟨aempty cap, fun _ => 0, 0⟩

/-- most recently used first, strictly; every cached key has been used, not in the future -/
def TimeOrdered (s : Timed K V) : Prop :=
  s.a.items.Pairwise (fun p q => s.last q.1 < s.last p.1) ∧ ∀ p ∈ s.a.items, 0 < s.last p.1 ∧ s.last p.1 ≤ s.now

theorem pairwise_aerase {R : K × V → K × V → Prop} {l : List (K × V)} (k : K) (h : l.Pairwise R) :
    (aerase k l).Pairwise R := h.sublist List.filter_sublist

theorem touch_ordered (s : Timed K V) (k : K) (v : V) (h : TimeOrdered s) :
    let last' : K → Nat := fun k' => if k' = k then s.now + 1 else s.last k'
    ((k, v) :: aerase k s.a.items).Pairwise (fun p q => last' q.1 < last' p.1) ∧
    ∀ p ∈ (k, v) :: aerase k s.a.items, 0 < last' p.1 ∧ last' p.1 ≤ s.now + 1 := by
  intro last'
  obtain ⟨hp, hb⟩ := h
  have hne : ∀ p ∈ aerase k s.a.items, p ∈ s.a.items ∧ p.1 ≠ k := fun p hp' => by
    simpa [aerase, List.mem_filter] using hp'
  constructor
  · rw [List.pairwise_cons]
    constructor
    · intro q hq
      obtain ⟨hq1, hq2⟩ := hne q hq
      have := (hb q hq1).2
      simp only [last', hq2, if_false, if_true]
      omega
    · have := pairwise_aerase k hp
      apply List.Pairwise.imp_of_mem _ this
      intro p q hp' hq' hlt
      simp only [last', (hne p hp').2, (hne q hq').2, if_false]
      exact hlt
  · intro p hp'
    rcases List.mem_cons.mp hp' with rfl | hp'
    · simp [last']
    · obtain ⟨h1, h2⟩ := hne p hp'
      have := hb p h1
      simp only [last', h2, if_false]
      omega

theorem tstep_ordered (s : Timed K V) (op : Op K V) (h : TimeOrdered s) : TimeOrdered (tstep s op) := by
  have hmono : ∀ p ∈ s.a.items, 0 < s.last p.1 ∧ s.last p.1 ≤ s.now + 1 := fun p hp => by
    have := h.2 p hp; omega
  cases op with
  | get k =>
    simp only [tstep, usedKey, astep]
    cases hl : alookup k s.a.items with
    | none => exact ⟨h.1, hmono⟩
    | some v =>
      obtain ⟨h1, h2⟩ := touch_ordered s k v h
      exact ⟨h1, h2⟩
  | set k v =>
    simp only [tstep, usedKey, astep]
    obtain ⟨h1, h2⟩ := touch_ordered s k v h
    exact ⟨h1.sublist (List.take_sublist _ _), fun p hp => h2 p (List.mem_of_mem_take hp)⟩
  | contains k => exact ⟨h.1, hmono⟩
  | len => exact ⟨h.1, hmono⟩
  | iter => exact ⟨h.1, hmono⟩

theorem trun_ordered (s : Timed K V) (ops : List (Op K V)) (h : TimeOrdered s) : TimeOrdered (trun s ops) := by
  induction ops generalizing s with
  | nil => exact h
  | cons op ops ih => exact ih _ (tstep_ordered s op h)

theorem tinit_ordered (cap : Nat) : TimeOrdered (tinit cap : Timed K V) := by
  simp [TimeOrdered, tinit, aempty]

/-- the timed run is the plain run with bookkeeping -/
theorem trun_a (s : Timed K V) (ops : List (Op K V)) : (trun s ops).a = (arun s.a ops).1 := by
  induction ops generalizing s with
  | nil => rfl
  | cons op ops ih => simp only [trun, arun]; rw [ih]; rfl

/-- in a time-ordered list the last entry is the least recently used one -/
theorem last_is_least_recent {s : Timed K V} (h : TimeOrdered s) (pre : List (K × V)) (p : K × V)
    (hitems : s.a.items = pre ++ [p]) : ∀ q ∈ pre, s.last p.1 < s.last q.1 := by
  intro q hq
  have := h.1
  rw [hitems, List.pairwise_append] at this
  exact this.2.2 q hq p (by simp)


/-! ### which keys are cached: the `cap` most recently used ones -/

/-- every used key that is not cached was last used before every cached key, and keys are
    only missing when the cache is full -/
def TopRecent (s : Timed K V) : Prop :=
  (∀ k, 0 < s.last k → k ∉ akeys s.a.items → ∀ p ∈ s.a.items, s.last k < s.last p.1) ∧
  (s.a.items.length = s.a.cap ∨ ∀ k, 0 < s.last k → k ∈ akeys s.a.items)

theorem mem_akeys_iff {l : List (K × V)} {k : K} : k ∈ akeys l ↔ ∃ p ∈ l, p.1 = k := by
  simp [akeys]

theorem akeys_touch (k : K) (v : V) (l : List (K × V)) (k' : K) :
    k' ∈ akeys ((k, v) :: aerase k l) ↔ k' = k ∨ k' ∈ akeys l := by
  simp only [akeys, List.map_cons, List.mem_cons]
  have : k' ∈ List.map (fun x => x.1) (aerase k l) ↔ (k' ∈ List.map (fun x => x.1) l ∧ k' ≠ k) := by
    simp only [aerase, List.mem_map, List.mem_filter]
    constructor
    · rintro ⟨p, ⟨hp, hne⟩, rfl⟩; exact ⟨⟨p, hp, rfl⟩, by simpa using hne⟩
    · rintro ⟨⟨p, hp, rfl⟩, hne⟩; exact ⟨p, ⟨hp, by simpa using hne⟩, rfl⟩
  rw [this]
  by_cases h : k' = k <;> simp [h]

theorem aerase_self_none {l : List (K × V)} {k : K} (h : ∀ p ∈ l, p.1 ≠ k) : aerase k l = l := by
  unfold aerase
  rw [List.filter_eq_self]
  intro p hp
  simpa using h p hp

/-- with distinct keys, erasing a cached key removes exactly one entry -/
theorem aerase_length_unique {l : List (K × V)} {k : K} {v : V}
    (hd : l.Pairwise (fun p q => p.1 ≠ q.1)) (hl : alookup k l = some v) :
    (aerase k l).length + 1 = l.length := by
  induction l with
  | nil => simp [alookup] at hl
  | cons p r ih =>
    obtain ⟨k1, v1⟩ := p
    obtain ⟨h1, h2⟩ := List.pairwise_cons.mp hd
    by_cases hk1 : k1 = k
    · subst hk1
      have hr : aerase k1 ((k1, v1) :: r) = aerase k1 r := by simp [aerase]
      rw [hr, aerase_self_none (fun q hq e => h1 q hq e.symm)]
      rfl
    · have hr : aerase k ((k1, v1) :: r) = (k1, v1) :: aerase k r := by simp [aerase, hk1]
      rw [hr]
      simp only [alookup, hk1, if_false] at hl
      simp only [List.length_cons]
      have := ih h2 hl
      omega

theorem TimeOrdered.distinct {s : Timed K V} (h : TimeOrdered s) :
    s.a.items.Pairwise (fun p q => p.1 ≠ q.1) :=
  h.1.imp fun {p q} hlt e => by rw [e] at hlt; exact Nat.lt_irrefl _ hlt

/-- moving a cached key to the front keeps the cached set and the invariant -/
theorem touch_cached_top (s : Timed K V) (k : K) (v v' : V) (hto : TimeOrdered s) (ht : TopRecent s)
    (hl : alookup k s.a.items = some v') (hcap : s.a.items.length ≤ s.a.cap) :
    let last' : K → Nat := fun k' => if k' = k then s.now + 1 else s.last k'
    let items' := ((k, v) :: aerase k s.a.items).take s.a.cap
    (∀ k0, 0 < last' k0 → k0 ∉ akeys items' → ∀ p ∈ items', last' k0 < last' p.1) ∧
    (items'.length = s.a.cap ∨ ∀ k0, 0 < last' k0 → k0 ∈ akeys items') := by
  intro last' items'
  have hkc : k ∈ akeys s.a.items := alookup_isSome.mp (by rw [hl]; rfl)
  have hlen1 := aerase_length_unique hto.distinct hl
  have hlen : ((k, v) :: aerase k s.a.items).length ≤ s.a.cap := by
    simp only [List.length_cons]; omega
  have hit : items' = (k, v) :: aerase k s.a.items := List.take_of_length_le hlen
  have hsame : ∀ k0, k0 ∈ akeys items' ↔ k0 ∈ akeys s.a.items := by
    intro k0; rw [hit, akeys_touch]
    constructor
    · rintro (rfl | h)
      · exact hkc
      · exact h
    · intro h; exact Or.inr h
  constructor
  · intro k0 hpos hnot p hp
    have hk0 : k0 ≠ k := fun e => hnot ((hsame k0).mpr (e ▸ hkc))
    have hnot' : k0 ∉ akeys s.a.items := fun h => hnot ((hsame k0).mpr h)
    have hpos' : 0 < s.last k0 := by simpa [last', hk0] using hpos
    rw [hit] at hp
    simp only [last', hk0, if_false]
    rcases List.mem_cons.mp hp with rfl | hp
    · simp only [if_true]
      obtain ⟨p0, hp0, _⟩ := mem_akeys_iff.mp hkc
      have h1 := ht.1 k0 hpos' hnot' p0 hp0
      have h2 := (hto.2 p0 hp0).2
      omega
    · obtain ⟨hp1, hp2⟩ : p ∈ s.a.items ∧ p.1 ≠ k := by simpa [aerase, List.mem_filter] using hp
      simp only [hp2, if_false]
      exact ht.1 k0 hpos' hnot' p hp1
  · rcases ht.2 with hfull | hall
    · left
      rw [hit]; simp only [List.length_cons]; omega
    · right
      intro k0 hpos
      by_cases hk0 : k0 = k
      · exact (hsame k0).mpr (hk0 ▸ hkc)
      · exact (hsame k0).mpr (hall k0 (by simpa [last', hk0] using hpos))


/-- storing a key that is not cached: it becomes the most recent one and, in a full cache, the
    entry used longest ago makes room -/
theorem touch_new_top (s : Timed K V) (k : K) (v : V) (hto : TimeOrdered s) (ht : TopRecent s)
    (hbound : ∀ k0, s.last k0 ≤ s.now)
    (hl : alookup k s.a.items = none) (hcap : s.a.items.length ≤ s.a.cap) :
    let last' : K → Nat := fun k' => if k' = k then s.now + 1 else s.last k'
    let items' := ((k, v) :: aerase k s.a.items).take s.a.cap
    (∀ k0, 0 < last' k0 → k0 ∉ akeys items' → ∀ p ∈ items', last' k0 < last' p.1) ∧
    (items'.length = s.a.cap ∨ ∀ k0, 0 < last' k0 → k0 ∈ akeys items') := by
  intro last' items'
  have hne : ∀ p ∈ s.a.items, p.1 ≠ k := alookup_eq_none.mp hl
  have her : aerase k s.a.items = s.a.items := aerase_self_none hne
  have hitems : items' = ((k, v) :: s.a.items).take s.a.cap := by simp only [items', her]
  cases hc : s.a.cap with
  | zero =>
    have : items' = [] := by rw [hitems, hc]; rfl
    rw [this]
    exact ⟨fun _ _ _ p hp => by simp at hp, Or.inl rfl⟩
  | succ n =>
    have hit : items' = (k, v) :: s.a.items.take n := by rw [hitems, hc]; rfl
    by_cases hroom : s.a.items.length ≤ n
    · -- nothing is dropped
      have htk : s.a.items.take n = s.a.items := List.take_of_length_le hroom
      rw [htk] at hit
      have hall : ∀ k0, 0 < s.last k0 → k0 ∈ akeys s.a.items := by
        rcases ht.2 with hfull | hall
        · omega
        · exact hall
      have hallk : ∀ k0, 0 < last' k0 → k0 ∈ akeys items' := by
        intro k0 hpos
        rw [hit]
        by_cases hk0 : k0 = k
        · simp [akeys, hk0]
        · have : 0 < s.last k0 := by simpa [last', hk0] using hpos
          have := hall k0 this
          simp only [akeys, List.map_cons, List.mem_cons]; exact Or.inr this
      exact ⟨fun k0 hpos hnot => absurd (hallk k0 hpos) hnot, Or.inr hallk⟩
    · -- the cache is full: the last entry goes
      have hfull : s.a.items.length = n + 1 := by omega
      have hne' : s.a.items ≠ [] := by intro e; rw [e] at hfull; simp at hfull
      have hsplit : s.a.items = s.a.items.take n ++ [s.a.items.getLast hne'] := by
        have h1 := List.dropLast_concat_getLast hne'
        rw [List.dropLast_eq_take, hfull] at h1
        exact h1.symm
      refine ⟨?_, Or.inl (by rw [hit]; simp [List.length_take]; omega)⟩
      intro k0 hpos hnot p hp
      have hk0 : k0 ≠ k := by
        intro e; apply hnot; rw [hit]; simp [akeys, e]
      have hpos' : 0 < s.last k0 := by simpa [last', hk0] using hpos
      rw [hit] at hp hnot
      simp only [last', hk0, if_false]
      rcases List.mem_cons.mp hp with rfl | hp
      · simp only [if_true]; have := hbound k0; omega
      · have hpi : p ∈ s.a.items := List.mem_of_mem_take hp
        simp only [hne p hpi, if_false]
        by_cases hin : k0 ∈ akeys s.a.items
        · -- k0 is the entry that was dropped
          obtain ⟨q, hq, hqk⟩ := mem_akeys_iff.mp hin
          rw [hsplit] at hq
          rcases List.mem_append.mp hq with hq | hq
          · exfalso; apply hnot
            simp only [akeys, List.map_cons, List.mem_cons]
            exact Or.inr (List.mem_map.mpr ⟨q, hq, hqk⟩)
          · simp only [List.mem_singleton] at hq
            have := last_is_least_recent hto (s.a.items.take n) (s.a.items.getLast hne') hsplit p hp
            rw [← hq, hqk] at this
            exact this
        · exact ht.1 k0 hpos' hin p hpi

/-- the whole invariant -/
def LruSpec (s : Timed K V) : Prop :=
  TimeOrdered s ∧ TopRecent s ∧ (∀ k, s.last k ≤ s.now) ∧ s.a.items.length ≤ s.a.cap

theorem tstep_spec (s : Timed K V) (op : Op K V) (h : LruSpec s) : LruSpec (tstep s op) := by
  obtain ⟨hto, ht, hb, hc⟩ := h
  have hto' := tstep_ordered s op hto
  have hcap' : (tstep s op).a.items.length ≤ (tstep s op).a.cap := by
    have h1 : AWf s.a := ⟨hc, by
      have := hto.distinct
      unfold akeys
      rw [List.Nodup, List.pairwise_map]
      exact this⟩
    have := astep_awf h1 op
    exact this.1.1
  have hmono : ∀ k, s.last k ≤ s.now + 1 := fun k => Nat.le_succ_of_le (hb k)
  refine ⟨hto', ?_, ?_, hcap'⟩
  · cases op with
    | get k =>
      cases hl : alookup k s.a.items with
      | none => simpa [tstep, usedKey, astep, hl, TopRecent] using ht
      | some v =>
        have := touch_cached_top s k v v hto ht hl hc
        have hlen := aerase_length_unique hto.distinct hl
        have htake : ((k, v) :: aerase k s.a.items).take s.a.cap = (k, v) :: aerase k s.a.items :=
          List.take_of_length_le (by simp only [List.length_cons]; omega)
        rw [htake] at this
        simpa [tstep, usedKey, astep, hl, TopRecent] using this
    | set k v =>
      cases hl : alookup k s.a.items with
      | none =>
        have := touch_new_top s k v hto ht hb hl hc
        simpa [tstep, usedKey, astep, TopRecent] using this
      | some v' =>
        have := touch_cached_top s k v v' hto ht hl hc
        simpa [tstep, usedKey, astep, TopRecent] using this
    | contains k => simpa [tstep, usedKey, astep, TopRecent] using ht
    | len => simpa [tstep, usedKey, astep, TopRecent] using ht
    | iter => simpa [tstep, usedKey, astep, TopRecent] using ht
  · intro k0
    simp only [tstep]
    cases usedKey s.a op with
    | none => exact hmono k0
    | some k =>
      simp only
      split
      · omega
      · exact hmono k0

theorem trun_spec (s : Timed K V) (ops : List (Op K V)) (h : LruSpec s) : LruSpec (trun s ops) := by
  induction ops generalizing s with
  | nil => exact h
  | cons op ops ih => exact ih _ (tstep_spec s op h)

theorem tinit_spec (cap : Nat) : LruSpec (tinit cap : Timed K V) := by
  refine ⟨tinit_ordered cap, ⟨by simp [tinit, aempty], Or.inr ?_⟩, by simp [tinit], by simp [tinit, aempty]⟩
  intro k h; simp [tinit] at h

end Genshi.Lru

/-
  Positional predicates: the matchers count candidates in one pass (a counter per
  positional predicate, bumped for every candidate that reaches it); XPath
  filters the candidate list predicate by predicate, renumbering the survivors.
  `sfilter_eq_fpreds`: the two agree, for any number of predicates and any
  candidate list.
-/
import Genshi.Model.PathStrategy
import Genshi.Model.PathRef
namespace Genshi.Path
open Genshi Genshi.Path.Ref

/-- does predicate `p` hold for a candidate whose event is `e` at position `pos` (model terms) -/
def predHoldsM (ns : NsMap) (vs : Vars) (p : Expr) (e : Event) (pos : Nat) : Bool :=
  match p.eval e ns vs with
  | .num x => x.eqNat pos
  | v => v.truthy

section
variable (ns : NsMap) (vs : Vars) (ev : LNode → Event)

/-- one XPath filtering pass with positions starting at `off + 1` -/
def fpred (p : Expr) (off : Nat) : List LNode → List LNode
  | [] => []
  | n :: L => if predHoldsM ns vs p (ev n) (off + 1) then n :: fpred p (off + 1) L else fpred p (off + 1) L

/-- successive filtering; `isPos p` says (statically) whether `p` is a position test; the
    `cnum`-th positional predicate starts counting at `off cnum` -/
def fpreds (isPos : Expr → Bool) : List Expr → Nat → (Nat → Nat) → List LNode → List LNode
  | [], _, _, L => L
  | p :: ps, cnum, off, L =>
      if isPos p then fpreds isPos ps (cnum + 1) off (fpred ns vs ev p (off cnum) L)
      else fpreds isPos ps cnum off (L.filter fun n => predHoldsM ns vs p (ev n) 0)

/-- the one-pass filter of SingleStepStrategy over a candidate list -/
def sfilter (preds : List Expr) : List Nat → List LNode → List LNode × List Nat
  | cs, [] => ([], cs)
  | cs, n :: L =>
      let r := sPreds (ev n) ns vs preds 0 cs
      let rest := sfilter preds r.2 L
      (if r.1 then n :: rest.1 else rest.1, rest.2)

theorem fpreds_nil (isPos : Expr → Bool) (ps : List Expr) (cnum : Nat) (off : Nat → Nat) :
    fpreds ns vs ev isPos ps cnum off [] = [] := by
  induction ps generalizing cnum with
  | nil => rfl
  | cons p ps ih => simp [fpreds, fpred, ih]

theorem bump_getD (cnum : Nat) (cs : List Nat) (h : cnum ≤ cs.length) (k : Nat) :
    (bump cnum cs).getD k 0 = if k = cnum then cs.getD k 0 + 1 else cs.getD k 0 := by
  unfold bump
  by_cases hl : cs.length < cnum + 1
  · have hlen : cs.length = cnum := by omega
    simp only [hl, if_true]
    by_cases hk : k = cnum
    · subst hk
      simp [List.getD_eq_getElem?_getD, List.getElem?_mapIdx, hlen]
    · simp only [hk, if_false, List.getD_eq_getElem?_getD, List.getElem?_mapIdx]
      by_cases hk2 : k < cs.length
      · simp [List.getElem?_append_left hk2, hk]
      · have : k ≥ (cs ++ [0]).length := by simp; omega
        simp [List.getElem?_eq_none_iff.mpr this, List.getElem?_eq_none_iff.mpr (by omega : cs.length ≤ k)]
  · simp only [hl, if_false]
    by_cases hk : k = cnum
    · subst hk
      have hk2 : k < cs.length := by omega
      simp [List.getD_eq_getElem?_getD, List.getElem?_mapIdx, hk2]
    · simp only [hk, if_false, List.getD_eq_getElem?_getD, List.getElem?_mapIdx]
      cases h' : cs[k]? <;> simp [hk]

theorem bump_length (cnum : Nat) (cs : List Nat) (h : cnum ≤ cs.length) : cnum + 1 ≤ (bump cnum cs).length := by
  unfold bump
  by_cases hl : cs.length < cnum + 1 <;> simp [hl] <;> omega

theorem fpreds_congr (isPos : Expr → Bool) (ps : List Expr) (cnum : Nat) (off off' : Nat → Nat)
    (h : ∀ k, cnum ≤ k → off k = off' k) (L : List LNode) :
    fpreds ns vs ev isPos ps cnum off L = fpreds ns vs ev isPos ps cnum off' L := by
  induction ps generalizing cnum L with
  | nil => rfl
  | cons p ps ih =>
    simp only [fpreds]
    by_cases hp : isPos p = true
    · simp only [hp, if_true, h cnum (Nat.le_refl _)]
      exact ih (cnum + 1) (fun k hk => h k (by omega)) _
    · simp only [hp, Bool.false_eq_true, if_false]
      exact ih cnum h _

theorem isNum_iff (v : Val) : v.isNum = true ↔ ∃ x, v = .num x := by
  cases v <;> simp [Val.isNum]

theorem sPreds_cons_num (e : Event) (p : Expr) (ps : List Expr) (cnum : Nat) (cs : List Nat) (x : XNum)
    (h : p.eval e ns vs = .num x) :
    sPreds e ns vs (p :: ps) cnum cs =
      if x.eqNat ((bump cnum cs).getD cnum 0) = true ∧ (Val.num x).truthy = true
      then sPreds e ns vs ps (cnum + 1) (bump cnum cs) else (false, bump cnum cs) := by
  simp only [sPreds, h, List.getD_eq_getElem?_getD]
  by_cases h1 : x.eqNat ((bump cnum cs)[cnum]?.getD 0) = true <;>
    by_cases h2 : (Val.num x).truthy = true <;> simp [h1, h2]

theorem sPreds_cons_other (e : Event) (p : Expr) (ps : List Expr) (cnum : Nat) (cs : List Nat)
    (h : (p.eval e ns vs).isNum = false) :
    sPreds e ns vs (p :: ps) cnum cs =
      if (p.eval e ns vs).truthy = true then sPreds e ns vs ps cnum cs else (false, cs) := by
  simp only [sPreds]
  cases hv : p.eval e ns vs <;> simp_all [Val.isNum] <;> split <;> simp_all

theorem predHoldsM_num (p : Expr) (e : Event) (pos : Nat) (x : XNum) (h : p.eval e ns vs = .num x) :
    predHoldsM ns vs p e pos = x.eqNat pos := by simp [predHoldsM, h]

theorem predHoldsM_other (p : Expr) (e : Event) (pos : Nat) (h : (p.eval e ns vs).isNum = false) :
    predHoldsM ns vs p e pos = (p.eval e ns vs).truthy := by
  unfold predHoldsM
  cases hv : p.eval e ns vs <;> simp_all [Val.isNum]

theorem sPreds_getD_lt (e : Event) (ps : List Expr) (cnum : Nat) (cs : List Nat) (hlen : cnum ≤ cs.length)
    (k : Nat) (hk : k < cnum) : (sPreds e ns vs ps cnum cs).2.getD k 0 = cs.getD k 0 := by
  induction ps generalizing cnum cs with
  | nil => rfl
  | cons p ps ih =>
    have hb : (bump cnum cs).getD k 0 = cs.getD k 0 := by
      rw [bump_getD cnum cs hlen k]; simp [Nat.ne_of_lt hk]
    by_cases hn : (p.eval e ns vs).isNum = true
    · obtain ⟨x, hx⟩ := (isNum_iff _).mp hn
      rw [sPreds_cons_num ns vs e p ps cnum cs x hx]
      split
      · rw [ih (cnum + 1) (bump cnum cs) (bump_length cnum cs hlen) (by omega)]; exact hb
      · exact hb
    · rw [sPreds_cons_other ns vs e p ps cnum cs (by simpa using hn)]
      split
      · exact ih cnum cs hlen hk
      · rfl

theorem eqNat_succ_truthy (x : XNum) (k : Nat) (h : x.eqNat (k + 1) = true) : (Val.num x).truthy = true := by
  cases x with
  | nan => simp [XNum.eqNat] at h
  | dec neg m e =>
    simp only [XNum.eqNat, Bool.and_eq_true, beq_iff_eq] at h
    simp only [Val.truthy, XNum.isZero, Bool.not_eq_true', beq_eq_false_iff_ne]
    intro hm
    rw [hm] at h
    have : (k + 1) * 10 ^ e > 0 := Nat.mul_pos (by omega) (Nat.pow_pos (by omega))
    omega

/-- the candidate at the head of the list: one pass of `sPreds` decides it and leaves the
    counters where XPath's successive filtering continues for the rest -/
theorem fpreds_cons (isPos : Expr → Bool) (n : LNode) (ps : List Expr)
    (hstatic : ∀ p ∈ ps, (p.eval (ev n) ns vs).isNum = isPos p) :
    ∀ (cnum : Nat) (cs : List Nat), cnum ≤ cs.length → ∀ (L : List LNode),
      fpreds ns vs ev isPos ps cnum (fun k => cs.getD k 0) (n :: L) =
        (if (sPreds (ev n) ns vs ps cnum cs).1 then [n] else []) ++
          fpreds ns vs ev isPos ps cnum (fun k => (sPreds (ev n) ns vs ps cnum cs).2.getD k 0) L := by
  induction ps with
  | nil => intro cnum cs _ L; simp [fpreds, sPreds]
  | cons p ps ih =>
    intro cnum cs hlen L
    have hst := hstatic p List.mem_cons_self
    have ih := ih (fun q hq => hstatic q (List.mem_cons_of_mem _ hq))
    have hbg : (bump cnum cs).getD cnum 0 = cs.getD cnum 0 + 1 := by
      rw [bump_getD cnum cs hlen cnum]; simp
    by_cases hn : (p.eval (ev n) ns vs).isNum = true
    · obtain ⟨x, hx⟩ := (isNum_iff _).mp hn
      have hpos : isPos p = true := by rw [← hst, hn]
      rw [sPreds_cons_num ns vs (ev n) p ps cnum cs x hx]
      simp only [fpreds, hpos, if_true, fpred, predHoldsM_num ns vs p (ev n) _ x hx, hbg]
      by_cases hh : x.eqNat (cs.getD cnum 0 + 1) = true
      · have htr := eqNat_succ_truthy x _ hh
        simp only [hh, htr, and_self, if_true]
        rw [fpreds_congr ns vs ev isPos ps (cnum + 1) (fun k => cs.getD k 0) (fun k => (bump cnum cs).getD k 0)
              (fun k hk => by rw [bump_getD cnum cs hlen k]; simp [show k ≠ cnum by omega]),
            ih (cnum + 1) (bump cnum cs) (bump_length cnum cs hlen)]
        congr 2
        rw [sPreds_getD_lt ns vs (ev n) ps (cnum + 1) (bump cnum cs) (bump_length cnum cs hlen) cnum (by omega), hbg]
      · simp only [hh, Bool.false_eq_true, false_and, if_false, List.nil_append, hbg]
        exact fpreds_congr ns vs ev isPos ps (cnum + 1) _ _
          (fun k hk => by rw [bump_getD cnum cs hlen k]; simp [show k ≠ cnum by omega]) _
    · have hn' : (p.eval (ev n) ns vs).isNum = false := by simpa using hn
      have hpos : isPos p = false := by rw [← hst, hn']
      rw [sPreds_cons_other ns vs (ev n) p ps cnum cs hn']
      simp only [fpreds, hpos, Bool.false_eq_true, if_false, List.filter_cons,
        predHoldsM_other ns vs p (ev n) 0 hn']
      by_cases ht : (p.eval (ev n) ns vs).truthy = true
      · simp only [ht, if_true]
        exact ih cnum cs hlen _
      · simp only [ht, Bool.false_eq_true, if_false, List.nil_append]

/-- **one pass = successive filtering**: SingleStepStrategy's counters select exactly the
    candidates XPath's predicate-by-predicate filtering (with renumbering) keeps -/
theorem sfilter_eq_fpreds (isPos : Expr → Bool) (ps : List Expr) (L : List LNode)
    (hstatic : ∀ n ∈ L, ∀ p ∈ ps, (p.eval (ev n) ns vs).isNum = isPos p) (cs : List Nat) :
    (sfilter ns vs ev ps cs L).1 = fpreds ns vs ev isPos ps 0 (fun k => cs.getD k 0) L := by
  induction L generalizing cs with
  | nil => simp [sfilter, fpreds_nil]
  | cons n L ih =>
    have h1 := fpreds_cons ns vs ev isPos n ps (hstatic n List.mem_cons_self) 0 cs (Nat.zero_le _) L
    have h2 := ih (fun m hm => hstatic m (List.mem_cons_of_mem _ hm)) (sPreds (ev n) ns vs ps 0 cs).2
    rw [h1, ← h2]
    simp only [sfilter]
    split <;> simp

theorem sfilter_append (ps : List Expr) (cs : List Nat) (L1 L2 : List LNode) :
    sfilter ns vs ev ps cs (L1 ++ L2) =
      ((sfilter ns vs ev ps cs L1).1 ++ (sfilter ns vs ev ps (sfilter ns vs ev ps cs L1).2 L2).1,
       (sfilter ns vs ev ps (sfilter ns vs ev ps cs L1).2 L2).2) := by
  induction L1 generalizing cs with
  | nil => simp [sfilter]
  | cons n L ih =>
    simp only [List.cons_append, sfilter, ih]
    split <;> simp

theorem fpred_mem (p : Expr) (off : Nat) (L : List LNode) : ∀ n ∈ fpred ns vs ev p off L, n ∈ L := by
  induction L generalizing off with
  | nil => simp [fpred]
  | cons m L ih =>
    intro n hn
    simp only [fpred] at hn
    split at hn
    · rcases List.mem_cons.mp hn with h | h
      · exact h ▸ List.mem_cons_self
      · exact List.mem_cons_of_mem _ (ih (off + 1) n h)
    · exact List.mem_cons_of_mem _ (ih (off + 1) n hn)

end

/-! ## The reference's filter in the same shape -/

section
variable (ns : NsMap) (xvs : XVars)

theorem filterPred_eq_go (p : Expr) (L : List LNode) (off : Nat) :
    ((L.zipIdx off).filter fun (c, i) => predHolds p c.node (i + 1) ns xvs).map Prod.fst =
      (match L with
       | [] => []
       | n :: L' =>
          (if predHolds p n.node (off + 1) ns xvs then [n] else []) ++
          ((L'.zipIdx (off + 1)).filter fun (c, i) => predHolds p c.node (i + 1) ns xvs).map Prod.fst) := by
  cases L with
  | nil => rfl
  | cons n L' =>
    simp only [List.zipIdx_cons, List.filter_cons]
    split <;> simp

/-- the reference's `filterPred`, unrolled with an explicit position offset -/
theorem fpred_eq_filterPred (vs : Vars) (ev : LNode → Event) (p : Expr) (L : List LNode) (off : Nat)
    (hag : ∀ n ∈ L, ∀ pos, predHoldsM ns vs p (ev n) pos = predHolds p n.node pos ns xvs) :
    fpred ns vs ev p off L =
      ((L.zipIdx off).filter fun (c, i) => predHolds p c.node (i + 1) ns xvs).map Prod.fst := by
  induction L generalizing off with
  | nil => rfl
  | cons n L ih =>
    rw [filterPred_eq_go]
    simp only [fpred, hag n List.mem_cons_self]
    rw [ih (off + 1) (fun m hm => hag m (List.mem_cons_of_mem _ hm))]
    split <;> simp

theorem zipIdx_filter_fst (f : LNode → Bool) (L : List LNode) (k : Nat) :
    ((L.zipIdx k).filter fun (c, _) => f c).map Prod.fst = L.filter f := by
  induction L generalizing k with
  | nil => rfl
  | cons n L ih =>
    simp only [List.zipIdx_cons, List.filter_cons]
    split <;> simp [ih]

theorem filterPred_mem (p : Expr) (L : List LNode) : ∀ n ∈ filterPred p ns xvs L, n ∈ L := by
  intro n hn
  simp only [filterPred, List.mem_map, List.mem_filter] at hn
  obtain ⟨⟨c, i⟩, ⟨hm, _⟩, rfl⟩ := hn
  have := List.mem_zipIdx' hm
  exact this.2 ▸ List.getElem_mem _

/-- with agreeing predicate outcomes and static positional flags, the counters-from-zero pass
    is the reference's `filterPreds` -/
theorem fpreds_eq_filterPreds (vs : Vars) (ev : LNode → Event) (isPos : Expr → Bool) (ps : List Expr) :
    ∀ (cnum : Nat) (L : List LNode),
      (∀ n ∈ L, ∀ p ∈ ps, ∀ pos, predHoldsM ns vs p (ev n) pos = predHolds p n.node pos ns xvs) →
      (∀ n ∈ L, ∀ p ∈ ps, (p.eval (ev n) ns vs).isNum = isPos p) →
      fpreds ns vs ev isPos ps cnum (fun _ => 0) L = filterPreds ps ns xvs L := by
  induction ps with
  | nil => intro cnum L _ _; rfl
  | cons p ps ih =>
    intro cnum L hag hst
    have hagp := fun n hn => hag n hn p List.mem_cons_self
    simp only [fpreds, filterPreds, List.foldl_cons]
    by_cases hp : isPos p = true
    · simp only [hp, if_true]
      rw [fpred_eq_filterPred ns xvs vs ev p L 0 hagp]
      have hsub : ∀ n ∈ filterPred p ns xvs L, n ∈ L := filterPred_mem ns xvs p L
      exact ih (cnum + 1) (filterPred p ns xvs L)
        (fun n hn q hq => hag n (hsub n hn) q (List.mem_cons_of_mem _ hq))
        (fun n hn q hq => hst n (hsub n hn) q (List.mem_cons_of_mem _ hq))
    · simp only [hp, Bool.false_eq_true, if_false]
      have hfil : L.filter (fun n => predHoldsM ns vs p (ev n) 0) = filterPred p ns xvs L := by
        rw [filterPred, ← zipIdx_filter_fst (fun n => predHoldsM ns vs p (ev n) 0) L 0]
        congr 1
        apply List.filter_congr
        intro ⟨c, i⟩ hm
        have hc : c ∈ L := by
          have := List.mem_zipIdx' hm
          exact this.2 ▸ List.getElem_mem _
        have hnn : (p.eval (ev c) ns vs).isNum = false := by
          rw [hst c hc p List.mem_cons_self]; simpa using hp
        simp only
        rw [← hagp c hc (i + 1), predHoldsM_other ns vs p (ev c) 0 hnn, predHoldsM_other ns vs p (ev c) (i + 1) hnn]
      rw [hfil]
      have hsub : ∀ n ∈ filterPred p ns xvs L, n ∈ L := filterPred_mem ns xvs p L
      exact ih cnum (filterPred p ns xvs L)
        (fun n hn q hq => hag n (hsub n hn) q (List.mem_cons_of_mem _ hq))
        (fun n hn q hq => hst n (hsub n hn) q (List.mem_cons_of_mem _ hq))

end
end Genshi.Path

/-
  C11: (a) preparation never runs out of fuel, for any file set (the `inlined` guard set makes
  `Template._prepare` terminate on cyclic includes); (b) fuel monotonicity of rendering: more fuel
  never changes a result that was reached.
-/
import Genshi.Lemmas.InclPrep
namespace Genshi.Incl

/-! ## (a) preparation terminates -/

theorem Res.bind_ne_fuel {α β : Type} {x : Res α} {k : α → Res β} (hx : x ≠ .fuel) (hk : ∀ a, k a ≠ .fuel) :
    x.bind k ≠ .fuel := by
  cases x with
  | fuel => exact absurd rfl hx
  | err e => simp
  | ok a => exact hk a

/-- "prepare another template" does not run out of fuel for names outside the guard set -/
def PJNoFuel (files : Files) (J : PJ) (inl : List Name) : Prop :=
  ∀ name k body c, name ∉ inl → files.find name = some ⟨k, some body⟩ → J (name :: inl) name c ≠ .fuel

mutual
theorem prepN_nofuel {files : Files} {J : PJ} {inl : List Name} (hJ : PJNoFuel files J inl) :
    ∀ (n : Node) (c : Cache), prepN files J inl n c ≠ .fuel
  | .text _, _ => by simp [prepN]
  | .var _, _ => by simp [prepN]
  | .call _, _ => by simp [prepN]
  | .select, _ => by simp [prepN]
  | .elem t b, c => by rw [prepN_elem]; exact Res.bind_ne_fuel (prepL_nofuel hJ b c) (by simp)
  | .cond cd b, c => by rw [prepN_cond]; exact Res.bind_ne_fuel (prepL_nofuel hJ b c) (by simp)
  | .loop x xs b, c => by rw [prepN_loop]; exact Res.bind_ne_fuel (prepL_nofuel hJ b c) (by simp)
  | .defn m b, c => by rw [prepN_defn]; exact Res.bind_ne_fuel (prepL_nofuel hJ b c) (by simp)
  | .matchT t b, c => by rw [prepN_matchT]; exact Res.bind_ne_fuel (prepL_nofuel hJ b c) (by simp)
  | .inlined b, c => by rw [prepN_inlined]; exact Res.bind_ne_fuel (prepL_nofuel hJ b c) (by simp)
  | .include (.dyn ps) cls hasFb fb pos, c => by
    rw [prepN_dyn]; exact Res.bind_ne_fuel (prepL_nofuel hJ fb c) (by simp)
  | .include (.static h) cls hasFb fb pos, c => by
    have hfb := prepL_nofuel hJ fb c
    rw [prepN_static]
    cases resolve pos h with
    | none => simp
    | some name =>
      simp only
      cases hfind : files.find name with
      | none =>
        simp only
        cases hasFb with
        | true => simpa using hfb
        | false => simpa using Res.bind_ne_fuel hfb (by simp)
      | some f =>
        obtain ⟨fk, fbody⟩ := f
        simp only
        by_cases hk : fk = cls
        · simp only [hk, ne_eq, not_true_eq_false, if_false]
          cases fbody with
          | none => simp
          | some body =>
            simp only
            by_cases hin : name ∈ inl
            · simp only [hin, if_true]
              exact Res.bind_ne_fuel hfb (by simp)
            · simp only [hin, if_false]
              exact Res.bind_ne_fuel (hJ name fk body c hin hfind) (by simp)
        · simp [hk]
termination_by structural n => n
theorem prepL_nofuel {files : Files} {J : PJ} {inl : List Name} (hJ : PJNoFuel files J inl) :
    ∀ (ns : List Node) (c : Cache), prepL files J inl ns c ≠ .fuel
  | [], _ => by simp [prepL]
  | n :: ns, c => by
    rw [prepL_cons]
    exact Res.bind_ne_fuel (prepN_nofuel hJ n c) fun r1 =>
      Res.bind_ne_fuel (prepL_nofuel hJ ns r1.2) (by simp)
termination_by structural ns => ns
end

theorem prepT_nofuel (files : Files) :
    ∀ (f : Nat) (inl : List Name) (name : Name) (c : Cache), rem files inl < f → prepT files f inl name c ≠ .fuel
  | 0, _, _, _, h => by omega
  | f + 1, inl, name, c, hf => by
    simp only [prepT]
    cases c.lookup name with
    | some b => simp
    | none =>
      simp only
      cases hfind : files.find name with
      | none => simp
      | some fl =>
        obtain ⟨fk, fbody⟩ := fl
        cases fbody with
        | none => simp
        | some body =>
          simp only
          apply Res.bind_ne_fuel _ (by simp)
          apply prepL_nofuel
          intro name' k' body' c' hn' hfind'
          exact prepT_nofuel files f (name' :: inl) name' c'
            (by have := rem_lt hn' (find_mem_names hfind'); omega)

/-- loading (and preparing) a template in inline mode never runs out of fuel — whatever the file
set: cyclic, ill-formed, outside the hypothesis -/
theorem loadInl_nofuel (files : Files) (name : Name) (cls : Kind) (c : Cache) :
    loadInl files name cls c ≠ .fuel := by
  simp only [loadInl]
  cases files.find name with
  | none => simp
  | some f =>
    simp only
    by_cases hk : f.kind = cls
    · simp only [hk, ne_eq, not_true_eq_false, if_false]
      cases f.body with
      | none => simp
      | some body =>
        exact prepT_nofuel files (prepFuel files) [name] name c
          (by have := rem_le_names files [name]; simp only [prepFuel]; omega)
    · simp [hk]

/-! ## (b) more fuel never changes a result -/

/-- `x'` refines `x`: `x` ran out of fuel or they agree -/
def Le {α : Type} (x x' : Res α) : Prop := x = .fuel ∨ x = x'

theorem Le.refl {α : Type} (x : Res α) : Le x x := .inr rfl

theorem Le.bind {α β : Type} {x x' : Res α} {k k' : α → Res β} (hx : Le x x') (hk : ∀ a, Le (k a) (k' a)) :
    Le (x.bind k) (x'.bind k') := by
  rcases hx with h | h
  · subst h; exact .inl rfl
  · subst h
    cases x with
    | fuel => exact .inl rfl
    | err e => exact .inr rfl
    | ok a => exact hk a

theorem loopItems_le {k k' : St → R} (x : Name) (hk : ∀ s, Le (k s) (k' s)) :
    ∀ (vs : List Value) (s : St), Le (loopItems k x vs s) (loopItems k' x vs s)
  | [], s => .inr rfl
  | v :: vs, s => by
    simp only [loopItems]
    exact Le.bind (hk _) fun r1 => Le.bind (loopItems_le x hk vs _) fun r2 => Le.refl _

def JLe (J J' : RJ) : Prop := ∀ rng ns st, Le (J rng ns st) (J' rng ns st)

mutual
theorem renderN_le (inl : Mode) (files : Files) {J J' : RJ} (hJ : JLe J J') :
    ∀ (n : Node) (rng : Rng) (st : St), Le (renderN inl files J rng n st) (renderN inl files J' rng n st)
  | .text _, _, _ => .inr rfl
  | .var _, _, _ => .inr rfl
  | .elem tag body, rng, st => by
    rw [renderN_elem, renderN_elem]
    cases firstMatch st.mts rng tag with
    | none => exact Le.bind (renderL_le inl files hJ body rng st) fun r => Le.refl _
    | some p =>
      obtain ⟨idx, mb⟩ := p
      exact Le.bind (renderL_le inl files hJ body _ st) fun r => Le.bind (hJ _ _ _) fun r' => Le.refl _
  | .select, rng, st => by
    rw [renderN_select, renderN_select]
    cases st.sel with
    | nil => exact Le.refl _
    | cons c _ => exact hJ _ _ _
  | .cond c body, rng, st => by
    rw [renderN_cond, renderN_cond]
    refine Le.bind (Le.refl _) fun b => ?_
    cases b with
    | true => exact renderL_le inl files hJ body rng st
    | false => exact Le.refl _
  | .loop x xs body, rng, st => by
    rw [renderN_loop, renderN_loop]
    cases st.lookup xs with
    | none => exact Le.refl _
    | some v => exact loopItems_le x (fun s => renderL_le inl files hJ body rng s) _ st
  | .defn _ _, _, _ => .inr rfl
  | .call m, rng, st => by
    rw [renderN_call, renderN_call]
    cases st.macros.lookup m with
    | some body => exact hJ _ _ _
    | none => exact Le.refl _
  | .matchT _ _, _, _ => .inr rfl
  | .include href cls hasFb fb pos, rng, st => by
    rw [renderN_include, renderN_include]
    refine Le.bind (Le.refl _) fun h => ?_
    cases resolve pos h with
    | none => exact Le.refl _
    | some name =>
      simp only
      cases loadT inl files name cls st with
      | fuel => exact Le.refl _
      | ok p => obtain ⟨body, st1⟩ := p; exact hJ _ _ _
      | err e =>
        cases e with
        | notFound =>
          cases hasFb with
          | true => exact renderL_le inl files hJ fb rng.fresh st
          | false => exact Le.refl _
        | syntaxErr => exact Le.refl _
        | undefined => exact Le.refl _
        | unmodelled => exact Le.refl _
  | .inlined body, rng, st => by
    rw [renderN_inlined, renderN_inlined]; exact hJ _ _ _
termination_by structural n => n
theorem renderL_le (inl : Mode) (files : Files) {J J' : RJ} (hJ : JLe J J') :
    ∀ (ns : List Node) (rng : Rng) (st : St), Le (renderL inl files J rng ns st) (renderL inl files J' rng ns st)
  | [], _, _ => .inr rfl
  | n :: ns, rng, st => by
    rw [renderL_cons, renderL_cons]
    exact Le.bind (renderN_le inl files hJ n rng st) fun r1 =>
      Le.bind (renderL_le inl files hJ ns rng r1.2) fun r2 => Le.refl _
termination_by structural ns => ns
end

theorem render_le_succ (inl : Mode) (files : Files) : ∀ f : Nat, JLe (render inl files f) (render inl files (f + 1))
  | 0 => fun _ _ _ => .inl rfl
  | f + 1 => fun rng ns st => by
    rw [render_succ, render_succ]
    exact renderL_le inl files (render_le_succ inl files f) ns rng st

theorem render_le (inl : Mode) (files : Files) {f g : Nat} (h : f ≤ g) : JLe (render inl files f) (render inl files g) := by
  induction h with
  | refl => exact fun _ _ _ => Le.refl _
  | step _ ih =>
    intro rng ns st
    rcases ih rng ns st with h1 | h1
    · exact .inl h1
    · rw [h1]; exact render_le_succ inl files _ rng ns st

/-! ## run-time mode never touches the cache of prepared templates -/

def KC (x : R) (c : Cache) : Prop := ∀ r, x = .ok r → r.2.cache = c

theorem KC.bind {x : R} {k : List Ev × St → R} {c : Cache} (hx : KC x c)
    (hk : ∀ a, a.2.cache = c → KC (k a) c) : KC (x.bind k) c := by
  cases x with
  | fuel => intro r h; simp at h
  | err e => intro r h; simp at h
  | ok a => exact hk a (hx a rfl)

theorem KC.ok {o : List Ev} {s : St} {c : Cache} (h : s.cache = c) : KC (.ok (o, s)) c := by
  intro r hr; cases hr; exact h

theorem KC.err {e : Err} {c : Cache} : KC (.err e) c := by intro r h; simp at h
theorem KC.fuel {c : Cache} : KC .fuel c := by intro r h; simp at h

theorem loopItems_kc {k : St → R} (x : Name) {c : Cache} (hk : ∀ s, s.cache = c → KC (k s) c) :
    ∀ (vs : List Value) (s : St), s.cache = c → KC (loopItems k x vs s) c
  | [], s, hs => KC.ok hs
  | v :: vs, s, hs => by
    simp only [loopItems]
    refine KC.bind (hk _ hs) fun r1 h1 => ?_
    refine KC.bind (loopItems_kc x hk vs _ h1) fun r2 h2 => ?_
    exact KC.ok h2

mutual
theorem renderN_kc (files : Files) {J : RJ} (hJ : ∀ rng ns st, KC (J rng ns st) st.cache) :
    ∀ (n : Node) (rng : Rng) (st : St), KC (renderN .runtime files J rng n st) st.cache
  | .text _, _, _ => KC.ok rfl
  | .var x, rng, st => by
    rw [renderN_var]
    cases st.lookup x with
    | none => exact KC.err
    | some v =>
      dsimp only
      cases v.text? with
      | none => exact KC.err
      | some s => exact KC.ok rfl
  | .elem tag body, rng, st => by
    rw [renderN_elem]
    cases firstMatch st.mts rng tag with
    | none => exact KC.bind (renderL_kc files hJ body rng st) fun r hr => KC.ok hr
    | some p =>
      obtain ⟨idx, mb⟩ := p
      refine KC.bind (renderL_kc files hJ body _ st) fun r hr => ?_
      refine KC.bind (hr ▸ hJ _ mb { r.2 with sel := r.1 :: r.2.sel }) fun r' hr' => ?_
      exact KC.ok hr'
  | .select, rng, st => by
    rw [renderN_select]
    cases st.sel with
    | nil => exact KC.err
    | cons c _ => exact hJ _ _ _
  | .cond c body, rng, st => by
    rw [renderN_cond]
    cases evalCond st c with
    | fuel => exact KC.fuel
    | err e => exact KC.err
    | ok b =>
      cases b with
      | true => exact renderL_kc files hJ body rng st
      | false => exact KC.ok rfl
  | .loop x xs body, rng, st => by
    rw [renderN_loop]
    cases st.lookup xs with
    | none => exact KC.err
    | some v => exact loopItems_kc x (fun s hs => hs ▸ renderL_kc files hJ body rng s) _ st rfl
  | .defn _ _, _, _ => KC.ok rfl
  | .call m, rng, st => by
    rw [renderN_call]
    cases st.macros.lookup m with
    | some body => exact hJ _ _ _
    | none => cases st.lookup m <;> exact KC.err
  | .matchT _ _, _, _ => KC.ok rfl
  | .include href cls hasFb fb pos, rng, st => by
    rw [renderN_include]
    cases evalHref st href with
    | fuel => exact KC.fuel
    | err e => exact KC.err
    | ok h =>
      simp only [Res.bind_ok]
      cases resolve pos h with
      | none => exact KC.err
      | some name =>
        simp only [loadT]
        cases loadRaw files name cls with
        | fuel => exact KC.fuel
        | ok body => exact hJ _ _ _
        | err e =>
          cases e with
          | notFound =>
            cases hasFb with
            | true => exact renderL_kc files hJ fb rng.fresh st
            | false => exact KC.err
          | syntaxErr => exact KC.err
          | undefined => exact KC.err
          | unmodelled => exact KC.err
  | .inlined body, rng, st => by rw [renderN_inlined]; exact hJ _ _ _
termination_by structural n => n
theorem renderL_kc (files : Files) {J : RJ} (hJ : ∀ rng ns st, KC (J rng ns st) st.cache) :
    ∀ (ns : List Node) (rng : Rng) (st : St), KC (renderL .runtime files J rng ns st) st.cache
  | [], _, _ => KC.ok rfl
  | n :: ns, rng, st => by
    rw [renderL_cons]
    refine KC.bind (renderN_kc files hJ n rng st) fun r1 h1 => ?_
    refine KC.bind (h1 ▸ renderL_kc files hJ ns rng r1.2) fun r2 h2 => ?_
    exact KC.ok h2
termination_by structural ns => ns
end

theorem render_kc (files : Files) : ∀ (f : Nat) (rng : Rng) (ns : List Node) (st : St),
    KC (render .runtime files f rng ns st) st.cache
  | 0, _, _, _ => KC.fuel
  | f + 1, rng, ns, st => by rw [render_succ]; exact renderL_kc files (render_kc files f) ns rng st

theorem render_keeps_cache_runtime (files : Files) (fuel : Nat) (rng : Rng) (ns : List Node) (st : St) :
    match renderL .runtime files (render .runtime files fuel) rng ns st with
    | .ok r => r.2.cache = st.cache
    | _ => True := by
  have := renderL_kc files (render_kc files fuel) ns rng st
  cases h : renderL .runtime files (render .runtime files fuel) rng ns st with
  | fuel => trivial
  | err e => trivial
  | ok r => exact this r h

end Genshi.Incl

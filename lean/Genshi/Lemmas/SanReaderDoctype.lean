/-
  C06 (wave 4, package `sanx`) — the html-mode reader of C08 reads a DOCTYPE declaration back
  whole as soon as its literal holds no `>`: html.parser (and the HTML5 tokenizer) end the
  declaration at the first `>`, quoted or not, so unbalanced quotes inside the literal are
  harmless.  C08's own hypothesis `dtScan false` additionally asks for closed quotes (it shares the
  scanner with the XML mode); this file re-proves C08's events-level round trip for HTML under the
  weaker hypothesis (`HtmlOkG`), which is exactly what the sanitizer establishes
  (`no_gt_in_declarations`).  Nothing of C08 is changed; every statement here is additive.
-/
import Genshi.Lemmas.ReaderPrologSim
import Genshi.Lemmas.Output
set_option linter.unusedSimpArgs false
namespace Genshi.Reader
open Genshi Genshi.Escape Genshi.Output

/-- the quote of a `doctypeQ` mode is never `>` -/
def QNoGt : Option Char → Prop
  | none => True
  | some q => (q == '>') = false

theorem feed_doctype_body_html (s : Str) : ∀ (qs : Option Char) (st : RSt), st.mode = dtMode qs → QNoGt qs →
    '>' ∉ s → ∃ qs', QNoGt qs' ∧ feed false st s = { st with mode := dtMode qs', buf := st.buf ++ s } := by
  induction s with
  | nil =>
    intro qs st hm hq _
    refine ⟨qs, hq, ?_⟩
    cases st; simp only at hm; subst hm; simp [feed]
  | cons c cs ih =>
    intro qs st hm hq h
    have hc : (c == '>') = false := by
      have : c ≠ '>' := fun e => h (by simp [e])
      simpa using this
    have hcs : '>' ∉ cs := fun e => h (by simp [e])
    cases qs with
    | none =>
      by_cases h2 : (c == '"' || c == '\'') = true
      · have s1 : step false st c = { st with mode := .doctypeQ c, buf := st.buf ++ [c] } := by
          have h2' : (c == '"' || c == '\'') = true := h2
          simp only [step, hm, dtMode, hc, Bool.false_eq_true, ↓reduceIte, h2']
        obtain ⟨qs', hq', hf⟩ := ih (some c) { st with mode := .doctypeQ c, buf := st.buf ++ [c] } rfl hc hcs
        refine ⟨qs', hq', ?_⟩
        rw [feed_cons, s1, hf]; simp
      · have s1 : step false st c = { st with buf := st.buf ++ [c] } := by
          simp only [Bool.or_eq_true, not_or] at h2
          simp [step, hm, dtMode, hc, h2]
        obtain ⟨qs', hq', hf⟩ := ih none { st with buf := st.buf ++ [c] } (by simp [hm]) trivial hcs
        refine ⟨qs', hq', ?_⟩
        rw [feed_cons, s1, hf]; simp
    | some q =>
      by_cases h1 : (c == q) = true
      · have s1 : step false st c = { st with mode := .doctype, buf := st.buf ++ [c] } := by
          simp [step, hm, dtMode, h1]
        obtain ⟨qs', hq', hf⟩ := ih none { st with mode := .doctype, buf := st.buf ++ [c] } rfl trivial hcs
        refine ⟨qs', hq', ?_⟩
        rw [feed_cons, s1, hf]; simp
      · have s1 : step false st c = { st with buf := st.buf ++ [c] } := by
          simp only [step, hm, dtMode, h1, Bool.false_eq_true, ↓reduceIte, hc, Bool.not_false, Bool.and_false]
        obtain ⟨qs', hq', hf⟩ := ih (some q) { st with buf := st.buf ++ [c] } (by simp [hm]) hq hcs
        refine ⟨qs', hq', ?_⟩
        rw [feed_cons, s1, hf]; simp

/-- `<!DOCTYPE literal>` and the line feed behind it, read by the html-mode reader from character
    data: whatever the quotes inside the literal, as long as it holds no `>` -/
theorem feed_doctype_html (buf : Str) (toks : List Tok) (content : Str) (h : '>' ∉ content) :
    feed false (mk .data buf toks) (['<', '!', 'D', 'O', 'C', 'T', 'Y', 'P', 'E', ' '] ++ content ++ ['>', '\n']) =
      mk .data ['\n'] (.doctype content :: flushToks buf toks) := by
  have s0 : feed false (mk .data buf toks) ['<', '!', 'D', 'O', 'C', 'T', 'Y', 'P', 'E', ' '] =
      ⟨.doctype, [], [], [], [], [], [], flushToks buf toks⟩ := by
    simp [feed, step, mk, kwComment, kwDoctype, kwCdata, List.isPrefixOf, flush_eq]
  obtain ⟨qs', hq', hf⟩ := feed_doctype_body_html content none
    ⟨.doctype, [], [], [], [], [], [], flushToks buf toks⟩ rfl trivial h
  rw [show ['<', '!', 'D', 'O', 'C', 'T', 'Y', 'P', 'E', ' '] ++ content ++ ['>', '\n'] =
        ['<', '!', 'D', 'O', 'C', 'T', 'Y', 'P', 'E', ' '] ++ (content ++ ['>', '\n']) by simp,
    feed_append, s0, feed_append, hf]
  cases qs' with
  | none => simp [feed, step, mk, dtMode]
  | some q =>
    have hq : (q == '>') = false := hq'
    have hq2 : ('>' == q) = false := by
      have : q ≠ '>' := by simpa using hq
      simpa using fun e => this e.symm
    simp [feed, step, mk, dtMode, hq2]

/-- as C08's `HtmlOkP`, but a DOCTYPE literal only has to be free of `>` -/
def HtmlOkG (raw hd : Bool) (ev : FEv) : Prop :=
  match ev with
  | .doctype n p s => raw = false ∧ (hd = false → '>' ∉ doctypeContent n p s)
  | _ => HtmlOkP raw hd ev

theorem htmlOkG_of_P {raw hd : Bool} {ev : FEv} (h : HtmlOkP raw hd ev)
    (hdt : ∀ n p s, ev = .doctype n p s → hd = false → '>' ∉ doctypeContent n p s) : HtmlOkG raw hd ev := by
  cases ev with
  | doctype n p s => exact ⟨h.1, hdt n p s rfl⟩
  | _ => exact h

theorem html_eventG (o : Opts) (r : RS) (hd : Bool) (c : Ctx) (ev : FEv) (hraw : c.raw = r.raw)
    (hhd : c.haveDoctype = hd) (hok : HtmlOkG r.raw hd ev) :
    feed false r.toRSt (emit .html o c ev).flatten = (htmlEvP r hd ev).1.toRSt ∧
    (ctxAfter .html o c ev).raw = (htmlEvP r hd ev).1.raw ∧
    (ctxAfter .html o c ev).haveDoctype = (htmlEvP r hd ev).2 := by
  cases ev with
  | doctype n p s =>
    obtain ⟨rraw, rbuf, rtoks⟩ := r
    obtain ⟨hr, hs⟩ := hok
    simp only at hr; subst hr
    cases hd with
    | true =>
      exact ⟨by simp [emit, hhd, htmlEvP, feed], by simp [ctxAfter, htmlEvP, hraw], by simp [ctxAfter, htmlEvP]⟩
    | false =>
      refine ⟨?_, by simp [ctxAfter, htmlEvP, hraw], by simp [ctxAfter, htmlEvP]⟩
      simp only [emit, hhd, Bool.false_eq_true, ↓reduceIte, flatten_singleton, htmlEvP, toRSt_eq, doctypeOut_eq]
      exact feed_doctype_html rbuf rtoks _ (hs rfl)
  | pi t d => exact html_eventP o r hd c _ hraw hhd hok
  | start t a => exact html_eventP o r hd c _ hraw hhd hok
  | empty t a => exact html_eventP o r hd c _ hraw hhd hok
  | end_ t => exact html_eventP o r hd c _ hraw hhd hok
  | text s f => exact html_eventP o r hd c _ hraw hhd hok
  | comment s => exact html_eventP o r hd c _ hraw hhd hok
  | xmlDecl v e s => exact html_eventP o r hd c _ hraw hhd hok
  | startNs p u => exact html_eventP o r hd c _ hraw hhd hok
  | endNs p => exact html_eventP o r hd c _ hraw hhd hok
  | startCdata => exact html_eventP o r hd c _ hraw hhd hok
  | endCdata => exact html_eventP o r hd c _ hraw hhd hok

/-- the hypotheses along the stream -/
def HtmlOkAllG : Bool → Bool → List FEv → Prop
  | _, _, [] => True
  | raw, hd, ev :: rest => HtmlOkG raw hd ev ∧ HtmlOkAllG (rawAfter raw ev) (hd || HtmlOkAllP.isDoctypeEv ev) rest

theorem htmlEvP_flagsG (r : RS) (hd : Bool) (ev : FEv) (hok : HtmlOkG r.raw hd ev) :
    (htmlEvP r hd ev).1.raw = rawAfter r.raw ev ∧ (htmlEvP r hd ev).2 = (hd || HtmlOkAllP.isDoctypeEv ev) := by
  cases ev with
  | doctype n p s =>
    have hr : r.raw = false := hok.1
    cases hd <;> simp [htmlEvP, rawAfter, HtmlOkAllP.isDoctypeEv, hr]
  | pi t d => exact htmlEvP_flags r hd _ hok
  | start t a => exact htmlEvP_flags r hd _ hok
  | empty t a => exact htmlEvP_flags r hd _ hok
  | end_ t => exact htmlEvP_flags r hd _ hok
  | text s f => exact htmlEvP_flags r hd _ hok
  | comment s => exact htmlEvP_flags r hd _ hok
  | xmlDecl v e s => exact htmlEvP_flags r hd _ hok
  | startNs p u => exact htmlEvP_flags r hd _ hok
  | endNs p => exact htmlEvP_flags r hd _ hok
  | startCdata => exact htmlEvP_flags r hd _ hok
  | endCdata => exact htmlEvP_flags r hd _ hok

theorem html_streamG (o : Opts) (evs : List FEv) :
    ∀ (r : RS) (hd : Bool) (c : Ctx), c.raw = r.raw → c.haveDoctype = hd → HtmlOkAllG r.raw hd evs →
      feed false r.toRSt (serSpec .html o c evs).flatten = (foldP evs r hd).1.toRSt ∧
      (foldP evs r hd).1.raw = rawEndP r.raw evs := by
  induction evs with
  | nil => intro r hd c _ _ _; simp [serSpec, feed, foldP, rawEndP]
  | cons ev rest ih =>
    intro r hd c hraw hhd hok
    have he := html_eventG o r hd c ev hraw hhd hok.1
    have hf := htmlEvP_flagsG r hd ev hok.1
    simp only [serSpec, List.flatten_append, feed_append]
    rw [he.1]
    have := ih (htmlEvP r hd ev).1 (htmlEvP r hd ev).2 _ he.2.1 he.2.2 (by rw [hf.1, hf.2]; exact hok.2)
    simp only [foldP, List.foldl_cons, rawEndP] at this ⊢
    rw [hf.1] at this
    exact this

theorem html_tokensG (o : Opts) (evs : List FEv) (hok : HtmlOkAllG false false evs)
    (hend : (foldP evs {} false).1.raw = false) :
    tokens false (serSpec .html o {} evs).flatten = some (htmlExpectedP evs) := by
  have h := (html_streamG o evs {} false {} rfl rfl hok).1
  have h0 : ({} : RS).toRSt = ({} : RSt) := rfl
  rw [h0] at h
  unfold tokens htmlExpectedP
  simp only [h]
  generalize (foldP evs {} false).1 = r at hend ⊢
  obtain ⟨rraw, rbuf, rtoks⟩ := r
  simp only at hend
  subst hend
  simp [toRSt_eq, mk, flush_eq]

/-- C08's `html_roundtrip_prolog_partial` with the DOCTYPE hypothesis weakened to "no `>` in the
    literal": the html serializer's main loop (cache on or off) followed by the html-mode tokenizer
    gives exactly the prescribed tokens -/
theorem html_roundtrip_prolog_nogt (o : Opts) (useCache : Bool) (evs : List FEv)
    (hok : HtmlOkAllG false false evs) (hend : (foldP evs {} false).1.raw = false) :
    tokens false (loop .html o useCache {} evs).flatten = some (htmlExpectedP evs) := by
  have hl : loop .html o useCache {} evs = serSpec .html o {} evs := by
    cases useCache
    · exact loop_nocache_eq_spec .html o evs {}
    · exact loop_cache_eq_spec .html o evs {} (cacheOk_nil .html o)
  rw [hl]; exact html_tokensG o evs hok hend

/-! ### the literal holds no `>` when the three fields hold none -/

theorem doctypeContent_no_gt (n : Str) (p s : Option Str) (hn : '>' ∉ n) (hp : '>' ∉ p.getD [])
    (hs : '>' ∉ s.getD []) : '>' ∉ doctypeContent n p s := by
  unfold doctypeContent
  intro hmem
  simp only [List.mem_append] at hmem
  rcases hmem with (h1 | h1) | h1
  · exact hn h1
  · split at h1
    · simp only [List.mem_append, List.mem_cons, List.not_mem_nil, or_false] at h1
      rcases h1 with (h1 | h1) | h1
      · revert h1; decide
      · exact hp h1
      · revert h1; decide
    · split at h1
      · revert h1; decide
      · cases h1
  · split at h1
    · split at h1
      · simp only [List.mem_append, List.mem_cons, List.not_mem_nil, or_false] at h1
        rcases h1 with (h1 | h1) | h1
        · revert h1; decide
        · exact hs h1
        · revert h1; decide
      · simp only [List.mem_append, List.mem_cons, List.not_mem_nil, or_false] at h1
        rcases h1 with (h1 | h1) | h1
        · revert h1; decide
        · exact hs h1
        · revert h1; decide
    · cases h1

end Genshi.Reader

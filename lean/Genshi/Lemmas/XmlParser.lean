/-
  `_coalesce` (genshi/input.py): adjacent TEXT events are merged, nothing else
  changes.
-/
import Genshi.Model.XmlParser
import Genshi.Lemmas.Core
namespace Genshi.Xml
open Genshi

def isText : Event → Bool
  | .text _ _ => true
  | _ => false

/-- no two TEXT events in a row -/
def NoAdjText : Stream → Prop
  | .text _ _ :: .text s f :: es => False ∧ NoAdjText (.text s f :: es)
  | _ :: es => NoAdjText es
  | [] => True

/-- character data between markup, in order: one string per maximal TEXT run,
    and the non-TEXT events -/
def runsGo : Option Str → Stream → List (Sum Str Event)
  | none, [] => []
  | some t, [] => [.inl t]
  | none, .text s _ :: es => runsGo (some s) es
  | some t, .text s _ :: es => runsGo (some (t ++ s)) es
  | none, e :: es => .inr e :: runsGo none es
  | some t, e :: es => .inl t :: .inr e :: runsGo none es

def runs (s : Stream) : List (Sum Str Event) := runsGo none s

theorem coalesceGo_noAdj : ∀ (s : Stream) (buf : Option Str), NoAdjText (coalesceGo buf s) := by
  intro s
  induction s with
  | nil => intro buf; cases buf <;> simp [coalesceGo, NoAdjText]
  | cons e es ih =>
    intro buf
    cases buf with
    | none =>
      cases e with
      | text s f => simp only [coalesceGo]; exact ih _
      | _ => simp only [coalesceGo, NoAdjText]; exact ih _
    | some t =>
      cases e with
      | text s f => simp only [coalesceGo]; exact ih _
      | _ => simp only [coalesceGo, NoAdjText]; exact ih _

theorem coalesce_noAdj (s : Stream) : NoAdjText (coalesce s) := coalesceGo_noAdj s none

/-- the merged stream has the same text runs and the same other events -/
theorem runs_coalesceGo : ∀ (s : Stream) (buf : Option Str),
    runsGo none (coalesceGo buf s) = runsGo buf s := by
  intro s
  induction s with
  | nil => intro buf; cases buf <;> simp [coalesceGo, runsGo]
  | cons e es ih =>
    intro buf
    cases buf with
    | none =>
      cases e with
      | text s f => simp only [coalesceGo, runsGo]; exact ih _
      | _ => simp only [coalesceGo, runsGo]; rw [ih]
    | some t =>
      cases e with
      | text s f => simp only [coalesceGo, runsGo]; exact ih _
      | _ => simp only [coalesceGo, runsGo, List.nil_append]; rw [ih]

theorem runs_coalesce (s : Stream) : runs (coalesce s) = runs s := runs_coalesceGo s none

theorem balance_coalesceGo : ∀ (s : Stream) (buf : Option Str) (st : List QName),
    balance st (coalesceGo buf s) = balance st s := by
  intro s
  induction s with
  | nil => intro buf st; cases buf <;> simp [coalesceGo, balance]
  | cons e es ih =>
    intro buf st
    cases buf with
    | none =>
      cases e with
      | text s f => simp only [coalesceGo, balance]; exact ih _ _
      | start t a => simp only [coalesceGo, balance]; exact ih _ _
      | end_ t =>
        simp only [coalesceGo]
        cases st with
        | nil => simp [balance]
        | cons t' st' => simp only [balance]; split <;> simp [ih]
      | _ => simp only [coalesceGo, balance]; exact ih _ _
    | some b =>
      cases e with
      | text s f => simp only [coalesceGo, balance]; exact ih _ _
      | start t a => simp only [coalesceGo, balance]; exact ih _ _
      | end_ t =>
        simp only [coalesceGo]
        cases st with
        | nil => simp [balance]
        | cons t' st' => simp only [balance]; split <;> simp [ih]
      | _ => simp only [coalesceGo, balance]; exact ih _ _

/-- merging text keeps a stream well nested -/
theorem wellNested_coalesce (s : Stream) (h : WellNested s) : WellNested (coalesce s) := by
  unfold WellNested coalesce at *
  rw [balance_coalesceGo]; exact h

end Genshi.Xml

/-
  `_coalesce` (genshi/input.py): adjacent TEXT events are merged, nothing else
  changes.
-/
import Genshi.Model.XmlParser
import Genshi.Lemmas.Core
namespace Genshi.Xml
open Genshi

def isText : Event → Bool
  | .text _ _ => true
  | _ => false

/-- no two TEXT events in a row -/
def NoAdjText : Stream → Prop
  | .text _ _ :: .text s f :: es => False ∧ NoAdjText (.text s f :: es)
  | _ :: es => NoAdjText es
  | [] => True

/-- character data between markup, in order: one string per maximal TEXT run,
    and the non-TEXT events -/
def runsGo : Option Str → Stream → List (Sum Str Event)
  | none, [] => []
  | some t, [] => [.inl t]
  | none, .text s _ :: es => runsGo (some s) es
  | some t, .text s _ :: es => runsGo (some (t ++ s)) es
  | none, e :: es => .inr e :: runsGo none es
  | some t, e :: es => .inl t :: .inr e :: runsGo none es

def runs (s : Stream) : List (Sum Str Event) := runsGo none s

theorem coalesceGo_noAdj : ∀ (s : Stream) (buf : Option Str), NoAdjText (coalesceGo buf s) := by
  intro s
  induction s with
  | nil => intro buf; cases buf <;> simp [coalesceGo, NoAdjText]
  | cons e es ih =>
    intro buf
    cases buf with
    | none =>
      cases e with
      | text s f => simp only [coalesceGo]; exact ih _
      | _ => simp only [coalesceGo, NoAdjText]; exact ih _
    | some t =>
      cases e with
      | text s f => simp only [coalesceGo]; exact ih _
      | _ => simp only [coalesceGo, NoAdjText]; exact ih _

theorem coalesce_noAdj (s : Stream) : NoAdjText (coalesce s) := coalesceGo_noAdj s none

/-- the merged stream has the same text runs and the same other events -/
theorem runs_coalesceGo : ∀ (s : Stream) (buf : Option Str),
    runsGo none (coalesceGo buf s) = runsGo buf s := by
  intro s
  induction s with
  | nil => intro buf; cases buf <;> simp [coalesceGo, runsGo]
  | cons e es ih =>
    intro buf
    cases buf with
    | none =>
      cases e with
      | text s f => simp only [coalesceGo, runsGo]; exact ih _
      | _ => simp only [coalesceGo, runsGo]; rw [ih]
    | some t =>
      cases e with
      | text s f => simp only [coalesceGo, runsGo]; exact ih _
      | _ => simp only [coalesceGo, runsGo, List.nil_append]; rw [ih]

theorem runs_coalesce (s : Stream) : runs (coalesce s) = runs s := runs_coalesceGo s none

theorem balance_coalesceGo : ∀ (s : Stream) (buf : Option Str) (st : List QName),
    balance st (coalesceGo buf s) = balance st s := by
  intro s
  induction s with
  | nil => intro buf st; cases buf <;> simp [coalesceGo, balance]
  | cons e es ih =>
    intro buf st
    cases buf with
    | none =>
      cases e with
      | text s f => simp only [coalesceGo, balance]; exact ih _ _
      | start t a => simp only [coalesceGo, balance]; exact ih _ _
      | end_ t =>
        simp only [coalesceGo]
        cases st with
        | nil => simp [balance]
        | cons t' st' => simp only [balance]; split <;> simp [ih]
      | _ => simp only [coalesceGo, balance]; exact ih _ _
    | some b =>
      cases e with
      | text s f => simp only [coalesceGo, balance]; exact ih _ _
      | start t a => simp only [coalesceGo, balance]; exact ih _ _
      | end_ t =>
        simp only [coalesceGo]
        cases st with
        | nil => simp [balance]
        | cons t' st' => simp only [balance]; split <;> simp [ih]
      | _ => simp only [coalesceGo, balance]; exact ih _ _

/-- merging text keeps a stream well nested -/
theorem wellNested_coalesce (s : Stream) (h : WellNested s) : WellNested (coalesce s) := by
  unfold WellNested coalesce at *
  rw [balance_coalesceGo]; exact h

/-! ### seams: `_coalesce` joins TEXT with TEXT only

Whatever stands between two pieces of character data — an END_CDATA directly
followed by a START_CDATA in particular — stays where it is, and the text on
its two sides is never joined.  (A CDATA section is the only place where the
serializer writes text verbatim, so joining `a]]` and `>b` across the seam of
`<![CDATA[a]]]]><![CDATA[>b]]>` would make the output ill-formed.) -/

theorem coalesceGo_append_nontext (e : Event) (he : isText e = false) (b : Stream) :
    ∀ (a : Stream) (buf : Option Str),
      coalesceGo buf (a ++ e :: b) = coalesceGo buf a ++ e :: coalesce b := by
  intro a
  induction a with
  | nil =>
    intro buf
    cases buf <;> cases e <;> simp_all [coalesceGo, coalesce, isText]
  | cons x xs ih =>
    intro buf
    cases buf with
    | none =>
      cases x with
      | text s f => simp only [List.cons_append, coalesceGo]; exact ih _
      | _ => simp only [List.cons_append, coalesceGo, ih]
    | some t =>
      cases x with
      | text s f => simp only [List.cons_append, coalesceGo]; exact ih _
      | _ => simp only [List.cons_append, coalesceGo, ih]

/-- an event that is not TEXT splits the work of `_coalesce` in two -/
theorem coalesce_append_nontext (a b : Stream) (e : Event) (he : isText e = false) :
    coalesce (a ++ e :: b) = coalesce a ++ e :: coalesce b :=
  coalesceGo_append_nontext e he b a none

/-- two CDATA sections that directly follow each other stay two sections -/
theorem coalesce_cdata_seam (a b : Stream) :
    coalesce (a ++ .endCdata :: .startCdata :: b) = coalesce a ++ .endCdata :: .startCdata :: coalesce b := by
  rw [coalesce_append_nontext a _ .endCdata rfl]
  have := coalesce_append_nontext [] b .startCdata rfl
  simp only [List.nil_append] at this
  rw [this]; simp [coalesce, coalesceGo]

/-- the events other than TEXT, in order -/
def nonText (s : Stream) : Stream := s.filter fun e => !isText e

theorem nonText_text (s : Str) (f : Bool) (es : Stream) : nonText (.text s f :: es) = nonText es := rfl

theorem nonText_cons (e : Event) (he : isText e = false) (es : Stream) : nonText (e :: es) = e :: nonText es := by
  simp [nonText, List.filter_cons, he]

theorem nonText_coalesceGo : ∀ (s : Stream) (buf : Option Str),
    nonText (coalesceGo buf s) = nonText s := by
  intro s
  induction s with
  | nil => intro buf; cases buf <;> rfl
  | cons e es ih =>
    intro buf
    cases buf with
    | none =>
      cases e with
      | text s f => simp only [coalesceGo, nonText_text]; exact ih _
      | _ => simp only [coalesceGo]; rw [nonText_cons _ rfl, nonText_cons _ rfl, ih]
    | some t =>
      cases e with
      | text s f => simp only [coalesceGo, nonText_text]; exact ih _
      | _ => simp only [coalesceGo, nonText_text]; rw [nonText_cons _ rfl, nonText_cons _ rfl, ih]

/-- `_coalesce` neither drops, adds, moves nor merges an event that is not TEXT -/
theorem nonText_coalesce (s : Stream) : nonText (coalesce s) = nonText s := nonText_coalesceGo s none

/-! ### `ET(element)` -/

theorem balance_etText (o : Option Str) (st : List QName) (rest : Stream) :
    balance st (etText o ++ rest) = balance st rest := by
  cases o with
  | none => rfl
  | some t => cases t <;> simp [etText, balance]

mutual
  theorem balance_etStream : ∀ (t : ETree) (st : List QName) (rest : Stream),
      balance st (etStream t ++ rest) = balance st rest
    | .node tag attrs text kids tail, st, rest => by
        simp only [etStream, List.cons_append, List.append_assoc, balance]
        rw [balance_etText, balance_etKids kids (qnameOf tag :: st)]
        simp only [balance, if_true]
        exact balance_etText tail st rest
  theorem balance_etKids : ∀ (ks : List ETree) (st : List QName) (rest : Stream),
      balance st (etKids ks ++ rest) = balance st rest
    | [], st, rest => by simp [etKids]
    | k :: ks, st, rest => by
        simp only [etKids, List.append_assoc]
        rw [balance_etStream k st, balance_etKids ks st rest]
end

/-- the stream `ET` makes of any ElementTree element is well nested -/
theorem wellNested_etStream (t : ETree) : WellNested (etStream t) := by
  unfold WellNested
  have := balance_etStream t [] []
  simpa [balance] using this

def isNsEvent : Event → Bool
  | .startNs _ _ => true
  | .endNs _ => true
  | _ => false

theorem noNs_etText (o : Option Str) : (etText o).all (fun e => !isNsEvent e) = true := by
  cases o with
  | none => rfl
  | some t => cases t <;> simp [etText, isNsEvent]

mutual
  theorem noNs_etStream : ∀ (t : ETree), (etStream t).all (fun e => !isNsEvent e) = true
    | .node tag attrs text kids tail => by
        simp only [etStream, List.all_cons, List.all_append, noNs_etText, noNs_etKids kids]
        rfl
  theorem noNs_etKids : ∀ (ks : List ETree), (etKids ks).all (fun e => !isNsEvent e) = true
    | [] => rfl
    | k :: ks => by
        simp only [etKids, List.all_append, noNs_etStream k, noNs_etKids ks]
        rfl
end

/-! ### the shape of what `XMLParser` delivers, whatever expat calls -/

def plainText : Event → Bool
  | .text _ true => false
  | _ => true

theorem handleCb_plain (entity : Str → Option Char) (c : Cb) (es : List Event)
    (h : handleCb entity c = .events es) : es.all plainText = true := by
  cases c with
  | other t =>
    cases t with
    | nil => simp [handleCb] at h; subst h; rfl
    | cons ch rest =>
      simp only [handleCb] at h
      split at h
      · split at h
        · cases h; rfl
        · cases h
      · cases h; rfl
  | _ => simp only [handleCb] at h; cases h; rfl

theorem runCbs_plain (entity : Str → Option Char) : ∀ (cbs : List Cb),
    (runCbs entity cbs).1.all plainText = true := by
  intro cbs
  induction cbs with
  | nil => rfl
  | cons c cs ih =>
    simp only [runCbs]
    cases hc : handleCb entity c with
    | events es =>
      simp only [List.all_append, Bool.and_eq_true]
      exact ⟨handleCb_plain entity c es hc, ih⟩
    | undefinedEntity => rfl

theorem coalesceGo_plain : ∀ (s : Stream) (buf : Option Str), s.all plainText = true →
    (coalesceGo buf s).all plainText = true := by
  intro s
  induction s with
  | nil => intro buf _; cases buf <;> rfl
  | cons e es ih =>
    intro buf h
    simp only [List.all_cons, Bool.and_eq_true] at h
    cases buf with
    | none =>
      cases e with
      | text s f => simp only [coalesceGo]; exact ih _ h.2
      | _ => simp only [coalesceGo, List.all_cons, Bool.and_eq_true]; exact ⟨rfl, ih _ h.2⟩
    | some t =>
      cases e with
      | text s f => simp only [coalesceGo]; exact ih _ h.2
      | _ => simp only [coalesceGo, List.all_cons, Bool.and_eq_true]; exact ⟨rfl, rfl, ih _ h.2⟩

/-- whatever expat calls, the stream XMLParser delivers has no two TEXT events in a row, no `Markup` text, and
    the events other than TEXT are those the callbacks enqueued, in order -/
theorem parseCbs_shape (entity : Str → Option Char) (cbs : List Cb) :
    NoAdjText (parseCbs entity cbs).1 ∧ (parseCbs entity cbs).1.all plainText = true ∧
    nonText (parseCbs entity cbs).1 = nonText (runCbs entity cbs).1 := by
  refine ⟨coalesce_noAdj _, coalesceGo_plain _ none (runCbs_plain entity cbs), nonText_coalesce _⟩

end Genshi.Xml

/-
  C19 — the translation pass under the identity catalogue returns the stream *unchanged*
  (not only up to the order of directives) when no SUB event carries an `i18n:domain` or
  `i18n:ctxt` directive: the loop that "organises" the directives then moves nothing.
  Used to compose the pass with the message directive for content that holds
  directive-carrying elements (`py:if` … on an element inside an `i18n:msg`).
-/
import Genshi.Lemmas.I18nChoose
namespace Genshi.I18n
open Genshi

/-- no directive the pass moves to the front -/
def noCtxDirs (ds : List Dir) : Bool :=
  ds.all fun d => match d with
    | .domain _ => false
    | .ctxt _ => false
    | _ => true

mutual
  def stableEv : TEvent → Bool
    | .sub d b => noCtxDirs d && stableList b
    | _ => true
  def stableList : List TEvent → Bool
    | [] => true
    | e :: es => stableEv e && stableList es
end

theorem reorderGo_stable (fuel idx : Nat) (r : Reorder) (h : noCtxDirs r.dirs = true) :
    reorderGo fuel idx r = r := by
  induction fuel generalizing idx with
  | zero => simp [reorderGo]
  | succ fuel ih =>
    simp only [reorderGo]
    cases hget : r.dirs[idx]? with
    | none => rfl
    | some dir =>
      have hmem : dir ∈ r.dirs := List.mem_of_getElem? hget
      have hd := (List.all_eq_true.mp h) dir hmem
      cases dir with
      | domain d => simp at hd
      | ctxt c => simp at hd
      | _ => exact ih (idx + 1)

theorem reorder_stable (ds : List Dir) (h : noCtxDirs ds = true) :
    (reorder ds).dirs = ds ∧ (reorder ds).pushed = [] := by
  unfold reorder
  rw [reorderGo_stable _ _ _ h]
  exact ⟨rfl, rfl⟩

mutual
  theorem trSub_id_eq (cfg : Cfg) (ctx : Ctx) (ta : Bool) :
      ∀ e : TEvent, cleanEv cfg e = true → stableEv e = true → trSub cfg Catalog.id ctx ta e = e
    | .sub d b, h, hs => by
        simp only [stableEv, Bool.and_eq_true] at hs
        obtain ⟨hd, hp⟩ := reorder_stable d hs.1
        simp only [trSub, hd, hp, List.nil_append]
        rw [trList_id_eq cfg ctx _ _ 0 b (by simpa [cleanEv] using h) hs.2]
    | .start _ _, _, _ => rfl
    | .end_ _, _, _ => rfl
    | .text _, _, _ => rfl
    | .expr _ _, _, _ => rfl
    | .exec _, _, _ => rfl
    | .other _, _, _ => rfl
  theorem trList_id_eq (cfg : Cfg) (ctx : Ctx) (tt ta : Bool) :
      ∀ (skip : Nat) (s : List TEvent), cleanList cfg s = true → stableList s = true →
        trList cfg Catalog.id ctx tt ta skip s = s
    | _, [], _, _ => by simp [trList]
    | skip + 1, e :: es, h, hs => by
        simp only [cleanList, Bool.and_eq_true] at h
        simp only [stableList, Bool.and_eq_true] at hs
        simp only [trList]
        rw [trList_id_eq cfg ctx tt ta _ es h.2 hs.2]
    | 0, .start tag attrs :: es, h, hs => by
        simp only [cleanList, cleanEv, Bool.and_eq_true] at h
        simp only [stableList, Bool.and_eq_true] at hs
        simp only [trList]
        split
        · rw [trList_id_eq cfg ctx tt ta _ es h.2 hs.2]
        · rw [gettextOf_id, trAttrs_id cfg ta attrs h.1, trList_id_eq cfg ctx tt ta _ es h.2 hs.2]
    | 0, .text s :: es, h, hs => by
        simp only [cleanList, Bool.and_eq_true] at h
        simp only [stableList, Bool.and_eq_true] at hs
        simp only [trList, gettextOf_id, trText_id, ite_self]
        rw [trList_id_eq cfg ctx tt ta _ es h.2 hs.2]
    | 0, .sub d b :: es, h, hs => by
        simp only [cleanList, Bool.and_eq_true] at h
        simp only [stableList, Bool.and_eq_true] at hs
        simp only [trList]
        rw [trSub_id_eq cfg ctx ta _ h.1 hs.1, trList_id_eq cfg ctx tt ta _ es h.2 hs.2]
    | 0, .end_ t :: es, h, hs => by
        simp only [cleanList, Bool.and_eq_true] at h
        simp only [stableList, Bool.and_eq_true] at hs
        simp only [trList]
        rw [trList_id_eq cfg ctx tt ta _ es h.2 hs.2]
    | 0, .expr i m :: es, h, hs => by
        simp only [cleanList, Bool.and_eq_true] at h
        simp only [stableList, Bool.and_eq_true] at hs
        simp only [trList]
        rw [trList_id_eq cfg ctx tt ta _ es h.2 hs.2]
    | 0, .exec m :: es, h, hs => by
        simp only [cleanList, Bool.and_eq_true] at h
        simp only [stableList, Bool.and_eq_true] at hs
        simp only [trList]
        rw [trList_id_eq cfg ctx tt ta _ es h.2 hs.2]
    | 0, .other l :: es, h, hs => by
        simp only [cleanList, Bool.and_eq_true] at h
        simp only [stableList, Bool.and_eq_true] at hs
        simp only [trList]
        rw [trList_id_eq cfg ctx tt ta _ es h.2 hs.2]
end

/-- **identity_transparent, pass and directive together**, content with directive-carrying
    elements: the translation pass under the identity catalogue followed by
    `MsgDirective.__call__` under the identity catalogue -/
theorem pass_then_msg_identity_sub (cfg : Cfg) (ctx : Ctx) (ta : Bool) (t : QName) (a : TAttrs) (F : List MNode)
    (extra : List Str) (hc : cleanM F = true) (hna : deepNoAdjM F = true) (hnd : (namesM F).Nodup)
    (hso : subsOKM false F = true) (hst : stableList (flattenM F) = true)
    (hattr : cleanList cfg (.start t a :: (flattenM F ++ [.end_ t])) = true) :
    msgGenerate (namesM F ++ extra) (fun s => s)
        (trList cfg Catalog.id ctx false ta 0 (.start t a :: (flattenM F ++ [.end_ t]))) =
      .ok (.start t a :: (coalesce (flattenM (trimF F)) ++ [.end_ t])) := by
  have hs : stableList (.start t a :: (flattenM F ++ [.end_ t])) = true := by
    have happ : ∀ (x y : List TEvent), stableList x = true → stableList y = true → stableList (x ++ y) = true := by
      intro x y hx hy
      induction x with
      | nil => simpa using hy
      | cons e es ih =>
        simp only [stableList, Bool.and_eq_true] at hx
        simp only [List.cons_append, stableList, Bool.and_eq_true]
        exact ⟨hx.1, ih hx.2⟩
    simp only [stableList, stableEv, Bool.true_and]
    exact happ _ _ hst (by simp [stableList, stableEv])
  rw [trList_id_eq cfg ctx false ta 0 _ hattr hs]
  exact msgGenerate_identity_attr t a F extra hc hna hnd hso

end Genshi.I18n

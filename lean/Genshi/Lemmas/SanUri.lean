/-
  C06 — `is_safe_uri` against the browser-side scheme reader.
-/
import Genshi.Lemmas.SanTotal
import Genshi.Model.SanSpec
set_option linter.unusedSimpArgs false
namespace Genshi.San
open Genshi.Gen Genshi.San.Spec

theorem char_le_iff (a b : Char) : a ≤ b ↔ a.toNat ≤ b.toNat := by
  rw [Char.le_def, UInt32.le_iff_toNat_le]; rfl

/-! ### range tables -/

theorem inRanges_iff {rs : List (Nat × Nat)} {n : Nat} :
    inRanges rs n = true ↔ ∃ r ∈ rs, r.1 ≤ n ∧ n ≤ r.2 := by
  unfold inRanges
  simp [List.any_eq_true]

/-- no range of `a` meets a range of `b` -/
def rangesDisjoint (a b : List (Nat × Nat)) : Bool :=
  a.all fun x => b.all fun y => x.2 < y.1 || y.2 < x.1

theorem rangesDisjoint_spec {a b : List (Nat × Nat)} (h : rangesDisjoint a b = true) {n : Nat}
    (ha : inRanges a n = true) : inRanges b n = false := by
  cases hb : inRanges b n with
  | false => rfl
  | true =>
    obtain ⟨x, hx, hx1, hx2⟩ := inRanges_iff.mp ha
    obtain ⟨y, hy, hy1, hy2⟩ := inRanges_iff.mp hb
    unfold rangesDisjoint at h
    have := List.all_eq_true.mp (List.all_eq_true.mp h x hx) y hy
    simp at this
    omega

/-- the code points of `isWsCtl` as ranges -/
def wsCtlRanges : List (Nat × Nat) := SanClass.spaceRanges ++ [(0, 31), (127, 159)]

theorem isWsCtl_ranges (c : Char) : isWsCtl c = inRanges wsCtlRanges c.toNat := by
  unfold isWsCtl wsCtlRanges isSpace inRanges
  simp only [List.any_append, List.any_cons, List.any_nil, Bool.or_false, Bool.or_assoc, Nat.zero_le,
    decide_true, Bool.true_and]
  congr 2
  rw [decide_eq_decide]; omega

theorem wsCtl_alnum_disjoint : rangesDisjoint wsCtlRanges SanClass.alnumRanges = true := by
  decide +kernel

/-- white space and control characters are not alphanumeric: `is_safe_uri` discards them, too -/
theorem isAlnum_of_isWsCtl {c : Char} (h : isWsCtl c = true) : isAlnum c = false := by
  rw [isWsCtl_ranges] at h
  exact rangesDisjoint_spec wsCtl_alnum_disjoint h

theorem alnum_has_ascii : (48, 57) ∈ SanClass.alnumRanges ∧ (65, 90) ∈ SanClass.alnumRanges ∧
    (97, 122) ∈ SanClass.alnumRanges := by decide

theorem isAlnum_of_ascii {c : Char} (h : isAsciiAlpha c = true ∨ isAsciiDigit c = true) :
    isAlnum c = true := by
  unfold isAlnum
  rw [inRanges_iff]
  obtain ⟨h1, h2, h3⟩ := alnum_has_ascii
  unfold isAsciiAlpha isAsciiDigit at h
  simp only [Bool.or_eq_true, Bool.and_eq_true, decide_eq_true_eq, char_le_iff] at h
  rcases h with (⟨ha, hb⟩ | ⟨ha, hb⟩) | ⟨ha, hb⟩
  · exact ⟨_, h3, ha, hb⟩
  · exact ⟨_, h2, ha, hb⟩
  · exact ⟨_, h1, ha, hb⟩

theorem lowerAscii_spec : ∀ n, n < 128 →
    lookupLower SanClass.lowerAscii n = if 65 ≤ n ∧ n ≤ 90 then some [n + 32] else none := by
  decide

theorem pyLowerChar_ascii {c : Char} (h : c.toNat < 128) : pyLowerChar c = [Genshi.Str.lower c] := by
  unfold pyLowerChar Genshi.Str.lower
  simp only [h, ↓reduceIte, lowerAscii_spec _ h, char_le_iff]
  have e1 : ('A' : Char).toNat = 65 := rfl
  have e2 : ('Z' : Char).toNat = 90 := rfl
  rw [e1, e2]
  by_cases hr : 65 ≤ c.toNat ∧ c.toNat ≤ 90
  · simp [hr]
  · simp [hr]

theorem ascii_of_schemeChar {c : Char} (h : isSchemeChar c = true) : c.toNat < 128 := by
  unfold isSchemeChar isAsciiAlpha isAsciiDigit at h
  simp only [Bool.or_eq_true, Bool.and_eq_true, decide_eq_true_eq, char_le_iff] at h
  have e1 : ('z' : Char).toNat = 122 := rfl
  have e2 : ('Z' : Char).toNat = 90 := rfl
  have e3 : ('9' : Char).toNat = 57 := rfl
  rcases h with ((((⟨_, hb⟩ | ⟨_, hb⟩) | ⟨_, hb⟩) | h) | h) | h
  · omega
  · omega
  · omega
  · subst h; decide
  · subst h; decide
  · subst h; decide

/-! ### `split1` -/

theorem split1_none_iff (sep : Char) (l : Str) : (split1 sep l).2 = none ↔ sep ∉ l := by
  induction l with
  | nil => simp [split1]
  | cons c cs ih =>
    unfold split1
    by_cases h : c = sep
    · simp [h]
    · simp only [h, ↓reduceIte]
      have : sep ∉ c :: cs ↔ sep ∉ cs := by
        simp [List.mem_cons, Ne.symm h]
      rw [this, ← ih]

theorem split1_fst_not_mem (sep : Char) (l : Str) : sep ∉ (split1 sep l).1 := by
  induction l with
  | nil => simp [split1]
  | cons c cs ih =>
    unfold split1
    by_cases h : c = sep
    · simp [h]
    · simp only [h, ↓reduceIte]
      simp [List.mem_cons, Ne.symm h, ih]

/-- filtering by a predicate that keeps the separator commutes with `split1` -/
theorem split1_filter (sep : Char) (f : Char → Bool) (hf : f sep = true) (l : Str) :
    split1 sep (l.filter f) = ((split1 sep l).1.filter f, (split1 sep l).2.map (List.filter f)) := by
  induction l with
  | nil => simp [split1]
  | cons c cs ih =>
    by_cases h : c = sep
    · subst h; simp [split1, hf]
    · by_cases hc : f c = true
      · simp only [List.filter_cons, hc, ↓reduceIte]
        conv => lhs; unfold split1
        conv => rhs; unfold split1
        simp only [h, ↓reduceIte, ih, List.filter_cons, hc]
      · simp only [List.filter_cons, hc, Bool.false_eq_true, ↓reduceIte, ih]
        conv => rhs; unfold split1
        simp only [h, ↓reduceIte, List.filter_cons, hc, Bool.false_eq_true]

/-- cutting at a later `#` does not change the text before the first colon -/
theorem split1_colon_of_hash {l pre : Str} {r : Str} (h : split1 ':' l = (pre, some r)) (hp : '#' ∉ pre) :
    ∃ r', split1 ':' (split1 '#' l).1 = (pre, some r') := by
  induction l generalizing pre r with
  | nil => simp [split1] at h
  | cons c cs ih =>
    unfold split1 at h
    by_cases hc : c = ':'
    · subst hc
      simp at h
      obtain ⟨rfl, rfl⟩ := h
      refine ⟨(split1 '#' cs).1, ?_⟩
      conv => lhs; arg 2; unfold split1
      simp [split1]
    · simp only [hc, ↓reduceIte] at h
      cases hsp : split1 ':' cs with
      | mk a b =>
        simp only [hsp] at h
        simp at h
        obtain ⟨rfl, rfl⟩ := h
        have hne : c ≠ '#' := by
          intro he; subst he; simp at hp
        have hp' : '#' ∉ a := by
          intro hm; exact hp (by simp [hm])
        obtain ⟨r', hr'⟩ := ih hsp hp'
        refine ⟨r', ?_⟩
        conv => lhs; arg 2; unfold split1
        simp only [hne, ↓reduceIte]
        unfold split1
        simp [hc, hr']

/-! ### the accepted URI as the browser reads it -/

theorem isWsCtl_colon : isWsCtl ':' = false := by decide
theorem isWsCtl_hash : isWsCtl '#' = false := by decide

/-- a scheme without `+ - .` is alphanumeric ASCII throughout -/
theorem alnum_of_plain_scheme {p : Str} (hs : isScheme p = true)
    (hp : ∀ c ∈ p, c ≠ '+' ∧ c ≠ '-' ∧ c ≠ '.') :
    ∀ c ∈ p, (isAsciiAlpha c = true ∨ isAsciiDigit c = true) ∧ c.toNat < 128 := by
  intro c hc
  cases p with
  | nil => simp at hc
  | cons a as =>
    simp only [isScheme, Bool.and_eq_true, List.all_eq_true] at hs
    have hsc : isSchemeChar c = true := by
      simp at hc
      rcases hc with rfl | hc
      · simp [isSchemeChar, hs.1]
      · exact hs.2 c hc
    refine ⟨?_, ascii_of_schemeChar hsc⟩
    have := hp c hc
    unfold isSchemeChar at hsc
    simp only [Bool.or_eq_true, decide_eq_true_eq] at hsc
    rcases hsc with (((h | h) | h) | h) | h
    · exact Or.inl h
    · exact Or.inr h
    · exact absurd h this.1
    · exact absurd h this.2.1
    · exact absurd h this.2.2

theorem pyLower_ascii {p : Str} (h : ∀ c ∈ p, c.toNat < 128) : pyLower p = p.map Genshi.Str.lower := by
  induction p with
  | nil => rfl
  | cons c cs ih =>
    unfold pyLower at *
    simp only [List.flatMap_cons, List.map_cons]
    rw [pyLowerChar_ascii (h c (by simp)), ih (fun d hd => h d (by simp [hd]))]
    rfl

/-- what `is_safe_uri` computes once the text before the first colon is known to hold no `#` -/
theorem isSafeUri_pre {cfg : Cfg} {v pre r : Str} (hsp : split1 ':' v = (pre, some r)) (hhash : '#' ∉ pre) :
    isSafeUri cfg v = cfg.safeSchemes.contains (pyLower (pre.filter keepInScheme)) := by
  unfold isSafeUri
  by_cases hh : List.contains v '#' = true
  · obtain ⟨r', hr'⟩ := split1_colon_of_hash hsp hhash
    simp only [hh, ↓reduceIte]
    have hcol : List.contains (split1 '#' v).1 ':' = true := by
      have : (split1 ':' (split1 '#' v).1).2 ≠ none := by simp [hr']
      rw [Ne, split1_none_iff] at this
      simpa using this
    simp [hcol, hr']
    intro hn; exact absurd (by simpa using hcol) hn
  · simp only [hh, Bool.false_eq_true, ↓reduceIte]
    have hcol : List.contains v ':' = true := by
      have : (split1 ':' v).2 ≠ none := by simp [hsp]
      rw [Ne, split1_none_iff] at this
      simpa using this
    simp [hcol, hsp]
    intro hn; exact absurd (by simpa using hcol) hn

theorem isWsCtl_punct : isWsCtl '+' = false ∧ isWsCtl '-' = false ∧ isWsCtl '.' = false := by decide

/-- white space and control characters are dropped by `is_safe_uri` -/
theorem keep_of_isWsCtl {c : Char} (h : isWsCtl c = true) : keepInScheme c = false := by
  unfold keepInScheme
  rw [isAlnum_of_isWsCtl h]
  cases hp : isSchemePunct c with
  | false => rfl
  | true =>
    unfold isSchemePunct at hp
    simp only [Bool.or_eq_true, decide_eq_true_eq] at hp
    rcases hp with (rfl | rfl) | rfl
    · rw [isWsCtl_punct.1] at h; cases h
    · rw [isWsCtl_punct.2.1] at h; cases h
    · rw [isWsCtl_punct.2.2] at h; cases h

/-- every character of a scheme name is kept -/
theorem keep_of_schemeChar {c : Char} (h : isSchemeChar c = true) : keepInScheme c = true := by
  unfold isSchemeChar at h
  unfold keepInScheme isSchemePunct
  simp only [Bool.or_eq_true, decide_eq_true_eq] at h ⊢
  rcases h with (((h | h) | h) | h) | h
  · exact Or.inl (isAlnum_of_ascii (Or.inl h))
  · exact Or.inl (isAlnum_of_ascii (Or.inr h))
  · exact Or.inr (Or.inl (Or.inl h))
  · exact Or.inr (Or.inl (Or.inr h))
  · exact Or.inr (Or.inr h)

theorem scheme_all_schemeChar {p : Str} (hs : isScheme p = true) : ∀ c ∈ p, isSchemeChar c = true := by
  cases p with
  | nil => simp [isScheme] at hs
  | cons a as =>
    simp only [isScheme, Bool.and_eq_true, List.all_eq_true] at hs
    intro c hc
    simp at hc
    rcases hc with rfl | hc
    · simp [isSchemeChar, hs.1]
    · exact hs.2 c hc

theorem toNat_ofNat_valid {n : Nat} (h : n.isValidChar) : (Char.ofNat n).toNat = n := by
  simp [Char.ofNat, h, Char.ofNatAux, Char.toNat]

/-- the browser's reading, unfolded: the scheme is the text before the first colon with white
    space and controls removed, ASCII case folded — and that is exactly what `is_safe_uri`
    compares with the safe schemes -/
theorem browserScheme_pre {v s : Str} (hb : browserScheme v = some s) :
    ∃ pre r, split1 ':' v = (pre, some r) ∧ pyLower (pre.filter keepInScheme) = s ∧
      ∀ x ∈ pre, isWsCtl x = true ∨ isSchemeChar x = true := by
  unfold browserScheme at hb
  simp only at hb
  have hfc : (fun c => !isWsCtl c) ':' = true := by simp [isWsCtl_colon]
  rw [split1_filter ':' _ hfc] at hb
  cases hsp : split1 ':' v with
  | mk pre rest =>
    simp only [hsp] at hb
    cases rest with
    | none => simp at hb
    | some r =>
      simp only [Option.map_some] at hb
      by_cases hsch : isScheme (pre.filter fun c => !isWsCtl c) = true
      · simp only [hsch, ↓reduceIte, Option.some.injEq] at hb
        subst hb
        have hsc := scheme_all_schemeChar hsch
        have hfilt : pre.filter keepInScheme = pre.filter fun c => !isWsCtl c := by
          have h1 : pre.filter keepInScheme = (pre.filter fun c => !isWsCtl c).filter keepInScheme := by
            rw [List.filter_filter]
            apply List.filter_congr
            intro c _
            cases hw : isWsCtl c with
            | false => simp
            | true => simp [keep_of_isWsCtl hw]
          rw [h1]
          apply List.filter_eq_self.mpr
          intro c hc
          exact keep_of_schemeChar (hsc c hc)
        refine ⟨pre, r, rfl, ?_, ?_⟩
        · rw [hfilt, pyLower_ascii (fun c hc => ascii_of_schemeChar (hsc c hc))]
        · intro x hx
          cases hw : isWsCtl x with
          | true => exact Or.inl rfl
          | false =>
            right
            exact hsc x (by simp [List.mem_filter, hx, hw])
      · simp [hsch] at hb

/-- a character that is neither white space/control nor a scheme character does not occur before
    the colon of such a URI -/
theorem not_mem_pre {pre : Str} (hall : ∀ x ∈ pre, isWsCtl x = true ∨ isSchemeChar x = true)
    {x : Char} (h1 : isWsCtl x = false) (h2 : isSchemeChar x = false) : x ∉ pre := by
  intro hm
  rcases hall x hm with h | h
  · rw [h1] at h; cases h
  · rw [h2] at h; cases h

/-- **`is_safe_uri` is sound for the browser's reading**: if the URI is accepted and a browser
    reads a scheme in it, that scheme is one of the configured safe schemes. -/
theorem isSafeUri_sound {cfg : Cfg} {v s : Str} (h : isSafeUri cfg v = true)
    (hb : browserScheme v = some s) : s ∈ cfg.safeSchemes := by
  obtain ⟨pre, r, hsp, hlow, hall⟩ := browserScheme_pre hb
  have hhash : '#' ∉ pre := not_mem_pre hall (by decide) (by decide)
  rw [isSafeUri_pre hsp hhash, hlow] at h
  simpa using h

end Genshi.San

/-
  C02 — `encode` after the serializer: when every character of the markup is
  representable, encoding the text only touches character data and attribute
  values, i.e. it is the serializer run with encoded character data.
-/
import Genshi.Lemmas.XmlTokD
namespace Genshi.Xml
open Genshi Genshi.Escape Genshi.Xml.Reader

theorem enc_id (rep : Char → Bool) (s : Str) (h : ∀ c ∈ s, rep c = true) : encodeText rep s = s :=
  encodeText_rep rep s (List.all_eq_true.mpr h)

theorem enc_ascii (rep : Char → Bool) (hr : AsciiRep rep) (s : Str) (h : ∀ c ∈ s, c.toNat < 128) :
    encodeText rep s = s := enc_id rep s (fun c hc => hr c (h c hc))

theorem enc_cons (rep : Char → Bool) (c : Char) (hc : rep c = true) (s : Str) :
    encodeText rep (c :: s) = c :: encodeText rep s := by
  simp [encodeText, hc]

theorem encodeText_emitAttrs (rep : Char → Bool) (hr : AsciiRep rep) (a : List (Str × Str))
    (h : a.all (fun x => x.1.all rep) = true) : encodeText rep (emitAttrs a) = emitAttrsEnc rep a := by
  unfold emitAttrsEnc
  induction a with
  | nil => rfl
  | cons x xs ih =>
    obtain ⟨k, v⟩ := x
    simp only [List.all_cons, Bool.and_eq_true] at h
    have hk : ∀ c ∈ ' ' :: k, rep c = true := by
      intro c hc
      rcases List.mem_cons.mp hc with rfl | hc
      · exact hr _ (by decide)
      · exact List.all_eq_true.mp h.1 c hc
    show encodeText rep ((' ' :: k ++ ('=' :: '"' :: (if v = noneUri then [] else escapePy true v))) ++
      '"' :: emitAttrs xs) = _
    rw [encodeText_append, encodeText_append, enc_id rep (' ' :: k) hk,
      enc_cons rep '=' (hr _ (by decide)), enc_cons rep '"' (hr _ (by decide)),
      enc_cons rep '"' (hr _ (by decide)), ih h.2]
    simp only [List.map_cons, emitAttrsWith, encAttr, encEscStr]
    by_cases hv : v = noneUri
    · simp [hv, encodeText]
    · simp [hv]

theorem enc_emitStart (rep : Char → Bool) (hr : AsciiRep rep) (n : Str) (a : List (Str × Str)) (empty : Bool)
    (hn : n.all rep = true) (ha : a.all (fun x => x.1.all rep) = true) :
    encodeText rep (emitStart n a empty) =
      '<' :: n ++ emitAttrsEnc rep a ++ (if empty then ['/', '>'] else ['>']) := by
  have h1 : ∀ c ∈ '<' :: n, rep c = true := by
    intro c hc
    rcases List.mem_cons.mp hc with rfl | hc
    · exact hr _ (by decide)
    · exact List.all_eq_true.mp hn c hc
  have h2 : ∀ c ∈ (if empty then ['/', '>'] else ['>']), rep c = true := by
    intro c hc
    apply hr
    cases empty <;> (revert hc; simp) <;> (try rintro (rfl | rfl)) <;> (try rintro rfl) <;> decide
  show encodeText rep (('<' :: n ++ emitAttrs a) ++ (if empty then ['/', '>'] else ['>'])) = _
  rw [encodeText_append, encodeText_append, enc_id rep _ h1, encodeText_emitAttrs rep hr a ha, enc_id rep _ h2]

theorem repOpt_getD {rep : Char → Bool} {o : Option Str} (h : repOpt rep o = true) : (o.getD []).all rep = true := by
  cases o with
  | none => rfl
  | some s => exact h

/-- the text of one event, encoded -/
theorem encodeText_serStep (rep : Char → Bool) (hr : AsciiRep rep) (st : SerSt) (e : FEv)
    (h : repMarkupGo rep st.inCdata [e] = true) :
    serStepEnc rep st e = (serStep st e).map fun r => (r.1, encodeText rep r.2) := by
  cases e with
  | start n a =>
    simp only [repMarkupGo, Bool.and_eq_true, Bool.and_true] at h
    simp only [serStepEnc, serStep, Option.map_some]
    rw [enc_emitStart rep hr n a false h.1 h.2]
    simp
  | empty n a =>
    simp only [repMarkupGo, Bool.and_eq_true, Bool.and_true] at h
    simp only [serStepEnc, serStep, Option.map_some]
    rw [enc_emitStart rep hr n a true h.1 h.2]
    simp
  | end_ n =>
    simp only [repMarkupGo, Bool.and_eq_true, Bool.and_true] at h
    simp only [serStepEnc, serStep, emitEnd, Option.map_some]
    rw [enc_id rep ('<' :: '/' :: n ++ ['>'])]
    intro c hc
    simp only [List.cons_append, List.mem_cons, List.mem_append, List.mem_singleton, List.mem_nil_iff, or_false] at hc
    rcases hc with rfl | rfl | hc | rfl
    · exact hr _ (by decide)
    · exact hr _ (by decide)
    · exact List.all_eq_true.mp h c hc
    · exact hr _ (by decide)
  | other ev =>
    cases ev with
    | text s safe =>
      simp only [repMarkupGo, Bool.and_eq_true, Bool.and_true, Bool.or_eq_true, Bool.not_eq_true',
        Bool.or_eq_false_iff] at h
      simp only [serStepEnc, serStep]
      by_cases hc : st.inCdata = true ∨ safe = true
      · simp only [hc, if_true, Option.map_some]
        rcases h with h | h
        · rcases hc with hc | hc
          · rw [hc] at h; simp at h
          · rw [hc] at h; simp at h
        · rw [encodeText_rep rep s h]
      · simp only [hc, if_false, Option.map_some, encEscStr]
    | comment s =>
      simp only [repMarkupGo, Bool.and_eq_true, Bool.and_true] at h
      simp only [serStepEnc, serStep, Option.map_some]
      rw [enc_id rep (['<', '!', '-', '-'] ++ s ++ ['-', '-', '>'])]
      intro c hc
      simp only [List.cons_append, List.nil_append, List.mem_cons, List.mem_append, List.mem_nil_iff, or_false] at hc
      rcases hc with rfl | rfl | rfl | rfl | hc | rfl | rfl | rfl
      all_goals first | exact hr _ (by decide) | exact List.all_eq_true.mp h c hc
    | pi t d =>
      simp only [repMarkupGo, Bool.and_eq_true, Bool.and_true] at h
      simp only [serStepEnc, serStep, Option.map_some]
      rw [enc_id rep (['<', '?'] ++ t ++ ' ' :: d ++ ['?', '>'])]
      intro c hc
      simp only [List.cons_append, List.nil_append, List.mem_cons, List.mem_append, List.mem_nil_iff, or_false] at hc
      rcases hc with rfl | rfl | (hc | rfl | hc) | rfl | rfl
      all_goals first | exact hr _ (by decide) | exact List.all_eq_true.mp h.1 c hc | exact List.all_eq_true.mp h.2 c hc
    | startCdata =>
      simp only [serStepEnc, serStep, Option.map_some]
      rw [enc_ascii rep hr _ (by decide)]
    | endCdata =>
      simp only [serStepEnc, serStep, Option.map_some]
      rw [enc_ascii rep hr _ (by decide)]
    | xmlDecl v e sa =>
      simp only [repMarkupGo, Bool.and_eq_true, Bool.and_true] at h
      simp only [serStepEnc, serStep]
      by_cases hd : st.haveDecl = true
      · simp [hd, encodeText]
      · simp only [hd, Bool.false_eq_true, if_false, Option.map_some]
        have : encodeText rep (emitDecl v e sa) = emitDecl v e sa := by
          apply enc_id
          intro c hc
          simp only [emitDecl, List.mem_append] at hc
          rcases hc with (((hc | hc) | hc) | hc) | hc
          · rcases hc with hc | hc
            · exact hr c (by revert hc; simp; rintro (rfl|rfl|rfl|rfl|rfl|rfl|rfl|rfl|rfl|rfl|rfl|rfl|rfl|rfl|rfl) <;> decide)
            · exact List.all_eq_true.mp h.1 c hc
          · exact hr c (by revert hc; simp; rintro rfl; decide)
          · cases e with
            | none => simp at hc
            | some en =>
              simp only at hc
              split at hc
              · simp at hc
              · simp only [List.mem_append] at hc
                rcases hc with (hc | hc) | hc
                · exact hr c (by revert hc; simp; rintro (rfl|rfl|rfl|rfl|rfl|rfl|rfl|rfl|rfl|rfl|rfl) <;> decide)
                · exact List.all_eq_true.mp h.2 c hc
                · exact hr c (by revert hc; simp; rintro rfl; decide)
          · split at hc
            · simp at hc
            · apply hr
              simp only [List.mem_append] at hc
              rcases hc with (hc | hc) | hc
              · revert hc; simp; rintro (rfl|rfl|rfl|rfl|rfl|rfl|rfl|rfl|rfl|rfl|rfl|rfl|rfl) <;> decide
              · split at hc <;> (revert hc; simp; rintro (rfl|rfl|rfl) <;> decide)
              · revert hc; simp; rintro rfl; decide
          · exact hr c (by revert hc; simp; rintro (rfl|rfl|rfl) <;> decide)
        rw [this]
    | doctype n p s =>
      simp only [repMarkupGo, Bool.and_eq_true, Bool.and_true] at h
      obtain ⟨⟨hn, hp⟩, hs⟩ := h
      simp only [serStepEnc, serStep]
      by_cases hd : st.haveDoctype = true
      · simp [hd, encodeText]
      · simp only [hd, Bool.false_eq_true, if_false]
        cases hem : emitDoctype n p s with
        | none => rfl
        | some out =>
          simp only [Option.map_some]
          have : encodeText rep out = out := by
            apply enc_id
            intro c hc
            unfold emitDoctype at hem
            split at hem
            · cases hem
            · simp only [Option.some.injEq] at hem
              subst hem
              have hp' := repOpt_getD hp
              have hs' := repOpt_getD hs
              simp only [List.mem_append] at hc
              rcases hc with (((hc | hc) | hc) | hc) | hc
              · exact hr c (by revert hc; simp; rintro (rfl|rfl|rfl|rfl|rfl|rfl|rfl|rfl|rfl|rfl) <;> decide)
              · exact List.all_eq_true.mp hn c hc
              · split at hc
                · simp only [List.mem_append] at hc
                  rcases hc with (hc | hc) | hc
                  · exact hr c (by revert hc; simp; rintro (rfl|rfl|rfl|rfl|rfl|rfl|rfl|rfl|rfl) <;> decide)
                  · exact List.all_eq_true.mp hp' c hc
                  · exact hr c (by revert hc; simp; rintro rfl; decide)
                · split at hc
                  · exact hr c (by revert hc; simp; rintro (rfl|rfl|rfl|rfl|rfl|rfl|rfl) <;> decide)
                  · simp at hc
              · split at hc
                · split at hc
                  · simp only [List.mem_append] at hc
                    rcases hc with (hc | hc) | hc
                    · exact hr c (by revert hc; simp; rintro (rfl|rfl) <;> decide)
                    · exact List.all_eq_true.mp hs' c hc
                    · exact hr c (by revert hc; simp; rintro rfl; decide)
                  · simp only [List.mem_append] at hc
                    rcases hc with (hc | hc) | hc
                    · exact hr c (by revert hc; simp; rintro (rfl|rfl) <;> decide)
                    · exact List.all_eq_true.mp hs' c hc
                    · exact hr c (by revert hc; simp; rintro rfl; decide)
                · simp at hc
              · exact hr c (by revert hc; simp; rintro (rfl|rfl) <;> decide)
          rw [this]
    | startNs p u => simp [serStepEnc, serStep, encodeText]
    | endNs p => simp [serStepEnc, serStep, encodeText]
    | start t a => simp [serStepEnc, serStep, encodeText]
    | end_ t => simp [serStepEnc, serStep, encodeText]

end Genshi.Xml

namespace Genshi.Xml
open Genshi Genshi.Escape Genshi.Xml.Reader

def nextCdata (c : Bool) : FEv → Bool
  | .other .startCdata => true
  | .other .endCdata => false
  | _ => c

theorem repMarkupGo_cons (rep : Char → Bool) (c : Bool) (e : FEv) (es : List FEv) :
    repMarkupGo rep c (e :: es) = (repMarkupGo rep c [e] && repMarkupGo rep (nextCdata c e) es) := by
  cases e with
  | start n a => simp [repMarkupGo, nextCdata]
  | empty n a => simp [repMarkupGo, nextCdata]
  | end_ n => simp [repMarkupGo, nextCdata]
  | other ev => cases ev <;> simp [repMarkupGo, nextCdata]

theorem serStep_inCdata (st st' : SerSt) (e : FEv) (out : Str) (h : serStep st e = some (st', out)) :
    st'.inCdata = nextCdata st.inCdata e := by
  cases e with
  | start n a => simp only [serStep, Option.some.injEq, Prod.mk.injEq] at h; rw [← h.1]; rfl
  | empty n a => simp only [serStep, Option.some.injEq, Prod.mk.injEq] at h; rw [← h.1]; rfl
  | end_ n => simp only [serStep, Option.some.injEq, Prod.mk.injEq] at h; rw [← h.1]; rfl
  | other ev =>
    cases ev with
    | text s f =>
      simp only [serStep] at h
      split at h <;> (simp only [Option.some.injEq, Prod.mk.injEq] at h; rw [← h.1]; rfl)
    | xmlDecl v e sa =>
      simp only [serStep] at h
      split at h <;> (simp only [Option.some.injEq, Prod.mk.injEq] at h; rw [← h.1]; rfl)
    | doctype n p s =>
      simp only [serStep] at h
      split at h
      · simp only [Option.some.injEq, Prod.mk.injEq] at h; rw [← h.1]; rfl
      · simp only [Option.map_eq_some_iff] at h
        obtain ⟨o, _, ho⟩ := h
        simp only [Prod.mk.injEq] at ho
        rw [← ho.1]; rfl
    | _ => simp only [serStep, Option.some.injEq, Prod.mk.injEq] at h; rw [← h.1]; rfl

/-- **`encode` after the serializer** is the serializer with encoded character
    data, as long as the markup itself is representable -/
theorem encodeText_serRun (rep : Char → Bool) (hr : AsciiRep rep) :
    ∀ (fs : List FEv) (st : SerSt) (out : Str), repMarkupGo rep st.inCdata fs = true →
      serRun st fs = some out → serRunEnc rep st fs = some (encodeText rep out) := by
  intro fs
  induction fs with
  | nil =>
    intro st out _ h
    simp only [serRun, Option.some.injEq] at h
    subst h; rfl
  | cons e es ih =>
    intro st out hrep h
    rw [repMarkupGo_cons, Bool.and_eq_true] at hrep
    rw [serRun_cons] at h
    rw [serRunEnc_cons, encodeText_serStep rep hr st e hrep.1]
    cases hs : serStep st e with
    | none => rw [hs] at h; cases h
    | some r =>
      obtain ⟨st', o⟩ := r
      rw [hs] at h
      simp only [Option.map_eq_some_iff] at h
      obtain ⟨o', ho', rfl⟩ := h
      have hc := serStep_inCdata st st' e o hs
      simp only [Option.map_some]
      rw [ih st' o' (by rw [hc]; exact hrep.2) ho']
      simp [encodeText_append]

end Genshi.Xml

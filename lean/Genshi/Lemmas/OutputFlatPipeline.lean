/-
  C09 — the typed pipeline `serT` (flattener with cache + typed main loop) on events whose
  values are all plain strings is the plain pipeline: C02's `Xml.flatten` followed by `loop`.
-/
import Genshi.Lemmas.OutputFlattenCacheC
import Genshi.Lemmas.OutputMarkupAttr
import Genshi.Model.OutputPipelineFull
namespace Genshi.Output
open Genshi

/-- a typed stream without Markup values goes through the plain loop on its keys -/
theorem loopT_noMarkup (m : Method) (o : Opts) (b : Bool) (evs : List TEv) :
    ∀ st : LoopSt, (∀ e ∈ evs, e.hasMarkup = false) →
      loopT m o b st evs = loop m o b st (evs.map TEv.key) := by
  induction evs with
  | nil => intro st _; rfl
  | cons e rest ih =>
    intro st h
    have he := h e List.mem_cons_self
    simp only [List.map_cons, loopT, loop, stepT, he, Bool.false_eq_true, ↓reduceIte]
    rw [ih _ (fun e' he' => h e' (List.mem_cons_of_mem _ he'))]

theorem plainAttrs_typedOfF (a : List (Str × Str)) : plainAttrs (Xml.typedOfF a) = a := by
  simp [plainAttrs, Xml.typedOfF, Function.comp_def]

theorem toTEv_ofF_noMarkup (x : Xml.FEv) : (toTEv (Xml.TFEv.ofF x)).hasMarkup = false := by
  cases x <;> simp [toTEv, Xml.TFEv.ofF, TEv.hasMarkup, Xml.typedOfF]

theorem toTEv_ofF_key (x : Xml.FEv) : (toTEv (Xml.TFEv.ofF x)).key = ofXF x := by
  cases x <;> simp [toTEv, Xml.TFEv.ofF, TEv.key, ofXF, plainAttrs_typedOfF]

/-- plain events: the typed pipeline is `Xml.flatten` followed by the plain main loop -/
theorem serT_plain (m : Method) (o : Opts) (pref : List (Str × Str)) (c : Bool) (xs : List Xml.XEv) :
    serT m o pref c (xs.map Xml.TXEv.ofX) = (loop m o c {} ((Xml.flatten pref xs).map ofXF)).flatten := by
  have hc : Xml.cflatten pref c (xs.map Xml.TXEv.ofX) = (Xml.flatten pref xs).map Xml.TFEv.ofF := by
    cases c
    · exact Xml.crun_false_ofX pref xs Xml.FSt.init []
    · have := Xml.crun_cache pref (xs.map Xml.TXEv.ofX) Xml.FSt.init [] [] (Xml.cacheOk_nil _ _)
      simp only [Xml.cflatten]
      rw [this]; exact Xml.crun_false_ofX pref xs Xml.FSt.init []
  simp only [serT, hc, List.map_map]
  rw [loopT_noMarkup]
  · simp only [List.map_map]
    have : (TEv.key ∘ (toTEv ∘ Xml.TFEv.ofF)) = ofXF := by funext x; exact toTEv_ofF_key x
    rw [this]
  · intro e he
    obtain ⟨x, _, rfl⟩ := List.mem_map.1 he
    exact toTEv_ofF_noMarkup x

end Genshi.Output

/-
  C12 — the two forms of the tree specification of one match template are the same function:

  * `xpForest sel` (Model/MatchReal.lean): an element is replaced iff the relation `sel` holds of its
    LOCATION (child indexes inside its top-level tree) — instantiated with the XPath reference
    semantics `Ref.reach` by `patternSel`;
  * `mkKids … marks`: an element is replaced iff its START event is MARKED, one Boolean per event —
    instantiated with the verdicts of the real matcher by `patternMarks`.

  The bridge is `markB sel (eventLocs n loc)`: the marks that say of every event whether `sel` holds of
  the node the event stands for (`mkNode_markB`).  That the matcher's verdicts ARE such marks is what
  C05 `Operand` states (None / True, True exactly at the nodes the pattern path reaches, locations of a
  tree being pairwise distinct: `vals_of_marks`), for every operand of a union (`operands_run`).
-/
import Genshi.Lemmas.MatchRealSpec
import Genshi.Lemmas.PathAttr
namespace Genshi.Match
open Genshi Genshi.Path Genshi.Path.Ref

/-- the marks of a relation on locations: one Boolean per event (`false` at END events) -/
def markB (sel : List Nat → Bool) (locs : List (Option LNode)) : List Bool :=
  locs.map fun l => match l with
    | some m => sel m.loc
    | none => false

theorem markB_append (sel : List Nat → Bool) (a b : List (Option LNode)) :
    markB sel (a ++ b) = markB sel a ++ markB sel b := by simp [markB]

theorem markB_length (sel : List Nat → Bool) (a : List (Option LNode)) : (markB sel a).length = a.length := by
  simp [markB]

mutual
  /-- the rewrite by marks, fed the marks of a relation on locations, is the rewrite by that relation;
      the marks of the node's events — and only those — are consumed -/
  theorem mkNode_markB (sel : List Nat → Bool) (body : List BItem) (recursive : Bool) :
      ∀ (n : Node) (loc : List Nat) (tl : List Bool),
        mkNode body recursive n (markB sel (eventLocs n loc) ++ tl) = (xpNode sel body recursive loc n, tl)
    | .leaf e, loc, tl => by simp [mkNode, xpNode, eventLocs, markB]
    | .elem tg at_ kids, loc, tl => by
        have hk := mkKids_markB sel body recursive kids loc 0 ([false] ++ tl)
        have hm : markB sel (eventLocs (.elem tg at_ kids) loc) ++ tl
            = sel loc :: (markB sel (eventLocsList kids loc 0) ++ ([false] ++ tl)) := by
          simp [eventLocs, markB]
        rw [hm]
        simp only [mkNode, List.tail_cons, List.headD_cons, hk, xpNode]
        cases sel loc <;> simp
  theorem mkKids_markB (sel : List Nat → Bool) (body : List BItem) (recursive : Bool) :
      ∀ (ks : List Node) (loc : List Nat) (i : Nat) (tl : List Bool),
        mkKids body recursive ks (markB sel (eventLocsList ks loc i) ++ tl) = (xpKids sel body recursive loc i ks, tl)
    | [], loc, i, tl => by simp [mkKids, xpKids, eventLocsList, markB]
    | k :: ks, loc, i, tl => by
        have h1 := mkNode_markB sel body recursive k (loc ++ [i]) (markB sel (eventLocsList ks loc (i + 1)) ++ tl)
        have h2 := mkKids_markB sel body recursive ks loc (i + 1) tl
        simp only [eventLocsList, markB_append, List.append_assoc, mkKids, h1, h2, xpKids]
end

/-- a whole forest: every top-level tree rewritten by its own relation, the marks of the trees laid end
    to end (`mk top` may be any marks that make `mkNode` agree with `xpNode` on `top`) -/
theorem mkKids_forest (sel : Node → List Nat → Bool) (mk : Node → List Bool) (body : List BItem) (recursive : Bool) :
    ∀ (forest : List Node),
      (∀ top ∈ forest, ∀ tl, mkNode body recursive top (mk top ++ tl) = (xpNode (sel top) body recursive [] top, tl)) →
      ∀ tl, mkKids body recursive forest (forest.flatMap mk ++ tl) = (xpForest sel body recursive forest, tl)
  | [], _, tl => by simp [mkKids, xpForest]
  | n :: ns, h, tl => by
      have h1 := h n List.mem_cons_self (ns.flatMap mk ++ tl)
      have h2 := mkKids_forest sel mk body recursive ns (fun t ht => h t (List.mem_cons_of_mem _ ht)) tl
      simp only [List.flatMap_cons, List.append_assoc, mkKids, h1, h2, xpForest]

/-! ### the verdicts of a matcher that designates a node set are the marks of that node set -/

/-- `reach` looks at the location of the target only -/
theorem reach_target_loc (ns : NsMap) (xvs : XVars) : ∀ (p : LocPath) (c t t' : LNode), t.loc = t'.loc →
    reach ns xvs p c t = reach ns xvs p c t'
  | [], c, t, t', h => by simp [reach, h]
  | s :: rest, c, t, t', h => by
      simp only [reach]
      have : (fun m => reach ns xvs rest m t) = (fun m => reach ns xvs rest m t') :=
        funext fun m => reach_target_loc ns xvs rest m t t' h
      rw [this]

/-- results that are None / True: "is it True" are the marks of the marked locations -/
theorem isTrue_markVals (mk : List Nat → Bool) (locs : List (Option LNode)) :
    (markVals mk locs).map (· == Val.bool true) = markB mk locs := by
  simp only [markVals, markB, List.map_map]
  apply List.map_congr_left
  intro l _
  cases l with
  | none => rfl
  | some m => simp only [Function.comp]; cases mk m.loc <;> rfl

/-- the pattern a match path stands for: its first step taken on the descendant-or-self axis
    (`GenericStrategy.test(ignore_context=True)`: `gSteps p true` for a path without a leading `.`
    or attribute step; SimplePathStrategy: `Frags.patPath`) -/
def patOf : LocPath → LocPath
  | [] => []
  | s0 :: rest => ⟨.descendantOrSelf, s0.test, s0.preds⟩ :: rest

/-- what the XPath side needs to know of one location path of a match path, on one tree: the matcher
    `Path.__init__` (or the forced strategy) builds for it in pattern mode reports None / True, and True
    exactly at the nodes its pattern reaches from the top of the tree -/
def PatOperand (ns : NsMap) (vs : Vars) (force : Option Strategy) (top : Node) (p : LocPath) : Prop :=
  p ≠ [] ∧ Operand ns vs (toXVars vs) top (patOf p) (mkMatcher (stratOf force p) p true).1 (mkMatcher (stratOf force p) p true).2

theorem patOperands (ns : NsMap) (vs : Vars) (force : Option Strategy) (top : Node) :
    ∀ (paths : List LocPath), (∀ p ∈ paths, PatOperand ns vs force top p) →
      Operands ns vs (toXVars vs) top (paths.map patOf) (pathTest paths true force).1 (pathTest paths true force).2
  | [], _ => by simp [pathTest]; exact .nil
  | p :: ps, h => by
      have ih := patOperands ns vs force top ps (fun q hq => h q (List.mem_cons_of_mem _ hq))
      have hp := (h p List.mem_cons_self).2
      cases force with
      | none =>
        simp only [pathTest, List.map_cons, stratOf] at ih hp ⊢
        exact .cons hp ih
      | some st =>
        simp only [pathTest, List.map_cons, stratOf] at ih hp ⊢
        exact .cons hp ih

theorem patternSel_eq_nodeSelected (ns : NsMap) (xvs : XVars) (top : Node) (x : LNode) :
    ∀ (paths : List LocPath), (∀ p ∈ paths, p ≠ []) →
      (∀ p ∈ paths, ∃ last, (patOf p).getLast? = some last ∧ last.axis ≠ .attribute) →
      patternSel paths ns xvs top x.loc = nodeSelected (paths.map patOf) ns xvs ⟨[], top⟩ x
  | [], _, _ => by simp [patternSel, nodeSelected]
  | p :: ps, hne, hna => by
      have ih := patternSel_eq_nodeSelected ns xvs top x ps (fun q hq => hne q (List.mem_cons_of_mem _ hq))
        (fun q hq => hna q (List.mem_cons_of_mem _ hq))
      obtain ⟨last, hl, hax⟩ := hna p List.mem_cons_self
      have hax' : (last.axis != Axis.attribute) = true := by simpa using hax
      simp only [patternSel, nodeSelected, List.map_cons, List.any_cons] at ih ⊢
      rw [ih, hl]
      cases p with
      | nil => exact absurd rfl (hne [] List.mem_cons_self)
      | cons s0 rest =>
        simp only [patOf, hax', Bool.true_and]
        rw [reach_target_loc ns xvs _ ⟨[], top⟩ ⟨x.loc, .leaf (.text [] false)⟩ x rfl]

/-- **marks = locations, per tree.**  If every location path of the match path is an operand on the tree
    `top`, the verdicts of the real matcher over the tree's events are the marks of the XPath pattern
    relation `patternSel`. -/
theorem patternMarks_eq_markB (ns : NsMap) (vs : Vars) (force : Option Strategy) (top : Node) (paths : List LocPath)
    (h : ∀ p ∈ paths, PatOperand ns vs force top p) :
    patternMarks paths ns vs force top = markB (patternSel paths ns (toXVars vs) top) (eventLocs top []) := by
  have hops := patOperands ns vs force top paths h
  obtain ⟨hok, hsel⟩ := operands_run ns vs (toXVars vs) top _ _ _ hops
  have hna := operands_nonAttr ns vs (toXVars vs) top _ _ _ hops
  unfold patternMarks
  rw [vals_of_marks _ _ hok (eventLocs_nodup top []), isTrue_markVals]
  congr 1
  funext x
  have := hsel ⟨x, top⟩
  simp only at this
  rw [this]
  symm
  exact patternSel_eq_nodeSelected ns (toXVars vs) top ⟨x, top⟩ paths (fun p hp => (h p hp).1)
    (fun p hp => hna (patOf p) (List.mem_map_of_mem hp))

/-- a top-level tree on which the location form and the mark form of the specification agree: a leaf
    (text between the elements: passes whatever the marks), or a tree that makes every location path of
    the match path an operand -/
def TopOk (ns : NsMap) (vs : Vars) (force : Option Strategy) (paths : List LocPath) (top : Node) : Prop :=
  (∃ e, top = .leaf e) ∨ ∀ p ∈ paths, PatOperand ns vs force top p

/-- **`xpForest ∘ patternSel` = `mkKids ∘ patternMarks`** on every forest whose element trees make every
    location path of the match path an operand. -/
theorem xpForest_eq_mkKids (ns : NsMap) (vs : Vars) (force : Option Strategy) (paths : List LocPath)
    (body : List BItem) (recursive : Bool) (forest : List Node)
    (h : ∀ top ∈ forest, TopOk ns vs force paths top) :
    (mkKids body recursive forest (forest.flatMap (patternMarks paths ns vs force))).1
      = xpForest (patternSel paths ns (toXVars vs)) body recursive forest := by
  have := mkKids_forest (patternSel paths ns (toXVars vs)) (patternMarks paths ns vs force) body recursive forest
    (fun top ht tl => by
      rcases h top ht with ⟨e, rfl⟩ | hop
      · simp [patternMarks, Node.flatten, runTest, mkNode, xpNode]
      · rw [patternMarks_eq_markB ns vs force top paths hop]
        exact mkNode_markB _ body recursive top [] tl) []
  rw [List.append_nil] at this
  rw [this]

end Genshi.Match

/-
  C06 — CSS escapes: the text `sanitize_css` emits is *stable*: decoding it once more, as the
  browser does, changes nothing.  (`Stable` is the set of texts the browser-side
  `Spec.unescapeOnce` leaves alone; the model's single decoding pass lands in it, and comment
  removal, splitting at `;`, stripping and joining with `; ` stay in it.)
-/
import Genshi.Lemmas.SanTotal
import Genshi.Model.SanSpec
set_option linter.unusedSimpArgs false
namespace Genshi.San
open Genshi.Gen Genshi.San.Spec

/-! ### equations of the comment scanners -/

theorem ace_hit (dotall : Bool) (r : Str) : afterCommentEnd dotall ('*' :: '/' :: r) = some r := by
  simp [afterCommentEnd]

theorem ace_miss (dotall : Bool) (c : Char) (r : Str) (h : ¬ (c = '*' ∧ ∃ r', r = '/' :: r')) :
    afterCommentEnd dotall (c :: r) =
      if (!dotall && c = '\n') = true then none else afterCommentEnd dotall r := by
  conv => lhs; unfold afterCommentEnd
  split
  · rename_i r'
    exact absurd ⟨rfl, r', rfl⟩ h
  · rfl

theorem scg_hit (dotall : Bool) (f : Nat) (r' rest : Str) (h : afterCommentEnd dotall r' = some rest) :
    stripCommentsGo dotall (f + 1) ('/' :: '*' :: r') = stripCommentsGo dotall f rest := by
  simp [stripCommentsGo, h]

theorem scg_open (dotall : Bool) (f : Nat) (r' : Str) (h : afterCommentEnd dotall r' = none) :
    stripCommentsGo dotall (f + 1) ('/' :: '*' :: r') = '/' :: stripCommentsGo dotall f ('*' :: r') := by
  simp [stripCommentsGo, h]

theorem scg_miss (dotall : Bool) (f : Nat) (c : Char) (r : Str) (h : ¬ (c = '/' ∧ ∃ r', r = '*' :: r')) :
    stripCommentsGo dotall (f + 1) (c :: r) = c :: stripCommentsGo dotall f r := by
  conv => lhs; unfold stripCommentsGo
  split
  · rename_i r'
    exact absurd ⟨rfl, r', rfl⟩ h
  · rfl

/-! ### stable texts -/

/-- characters after which a backslash is left alone by the browser-side decoder -/
def keptAfter (d : Char) : Bool := keepEscaped d || isCssNewline d

/-- texts on which `Spec.unescapeOnce` is the identity, described by its scan -/
inductive Stable : Str → Prop
  | nil : Stable []
  | plain (c : Char) (cs : Str) : c ≠ '\\' → Stable cs → Stable (c :: cs)
  | last : Stable ['\\']
  | kept (d : Char) (r : Str) : keptAfter d = true → Stable r → Stable ('\\' :: d :: r)

theorem keptAfter_cases {d : Char} (h : keptAfter d = true) :
    d = '\\' ∨ d = '\'' ∨ d = '"' ∨ d = '{' ∨ d = '}' ∨ d = ';' ∨ d = ':' ∨ d = '(' ∨ d = ')' ∨
      d = '#' ∨ d = '*' ∨ d = '\n' ∨ d = '\r' ∨ d = '\x0c' := by
  unfold keptAfter keepEscaped isCssNewline at h
  simp only [Bool.or_eq_true, decide_eq_true_eq] at h
  rcases h with (((((((((((h|h)|h)|h)|h)|h)|h)|h)|h)|h)|h)|((h|h)|h)) <;> simp [h]

/-- a property of the fourteen characters -/
theorem keptAfter_forall {P : Char → Prop} (h : P '\\' ∧ P '\'' ∧ P '"' ∧ P '{' ∧ P '}' ∧ P ';' ∧ P ':' ∧ P '(' ∧
    P ')' ∧ P '#' ∧ P '*' ∧ P '\n' ∧ P '\r' ∧ P '\x0c') {d : Char} (hd : keptAfter d = true) : P d := by
  obtain ⟨h1, h2, h3, h4, h5, h6, h7, h8, h9, h10, h11, h12, h13, h14⟩ := h
  rcases keptAfter_cases hd with h|h|h|h|h|h|h|h|h|h|h|h|h|h <;> (subst h; assumption)

theorem keptAfter_not_hex {d : Char} (h : keptAfter d = true) : isHex d = false :=
  keptAfter_forall (P := fun d => isHex d = false) (by decide) h

theorem keptAfter_not_slash {d : Char} (h : keptAfter d = true) : d ≠ '/' :=
  keptAfter_forall (P := fun d => d ≠ '/') (by decide) h

/-! ### the browser-side decoder is the identity on stable texts -/

theorem takeHex_not_hex {d : Char} (r : Str) (h : isHex d = false) (n : Nat) : takeHex (n + 1) (d :: r) = ([], d :: r) := by
  simp [takeHex, h]

theorem unescapeOnceGo_stable {s : Str} (hs : Stable s) : ∀ f, s.length < f → unescapeOnceGo f s = s := by
  induction hs with
  | nil => intro f hf; cases f with
    | zero => simp at hf
    | succ f => rfl
  | plain c cs hc _ ih =>
    intro f hf
    cases f with
    | zero => simp at hf
    | succ f =>
      simp only [unescapeOnceGo, hc, ↓reduceIte]
      rw [ih f (by simp at hf; omega)]
  | last =>
    intro f hf
    cases f with
    | zero => simp at hf
    | succ f => simp [unescapeOnceGo]
  | kept d r hd _ ih =>
    intro f hf
    cases f with
    | zero => simp at hf
    | succ f =>
      have hx := keptAfter_not_hex hd
      simp only [unescapeOnceGo, ↓reduceIte, takeHex_not_hex r hx 5, List.isEmpty_nil, Bool.not_true,
        Bool.false_eq_true]
      by_cases hn : isCssNewline d = true
      · simp only [hn, ↓reduceIte]
        cases f with
        | zero => simp at hf
        | succ f =>
          have hdb : d ≠ '\\' := by
            intro e; subst e; revert hn; decide
          simp only [unescapeOnceGo, hdb, ↓reduceIte]
          rw [ih f (by simp at hf; omega)]
      · have hk : keepEscaped d = true := by
          unfold keptAfter at hd
          simp only [Bool.or_eq_true] at hd
          rcases hd with hd | hd
          · exact hd
          · exact absurd hd hn
        simp only [hn, Bool.false_eq_true, ↓reduceIte, hk]
        rw [ih f (by simp at hf; omega)]

theorem unescapeOnce_stable {s : Str} (hs : Stable s) : unescapeOnce s = s :=
  unescapeOnceGo_stable hs _ (Nat.lt_succ_self _)

/-! ### the model's decoding pass lands in the stable texts -/

theorem takeUpTo_snd_length (p : Char → Bool) (n : Nat) (s : Str) : (takeUpTo p n s).2.length ≤ s.length := by
  induction n generalizing s with
  | zero => simp [takeUpTo]
  | succ n ih =>
    cases s with
    | nil => simp [takeUpTo]
    | cons c cs =>
      unfold takeUpTo
      by_cases hp : p c = true
      · simp only [hp, ↓reduceIte]
        have := ih cs
        simp; omega
      · simp [hp]

theorem takeUpTo_head_false {p : Char → Bool} {n : Nat} {d : Char} {r : Str}
    (h : (takeUpTo p (n + 1) (d :: r)).1 = []) : p d = false := by
  unfold takeUpTo at h
  by_cases hp : p d = true
  · simp [hp] at h
  · simpa using hp

theorem dropOneSpace_length (s : Str) : (dropOneSpace s).length ≤ s.length := by
  cases s with
  | nil => simp [dropOneSpace]
  | cons d r =>
    unfold dropOneSpace
    by_cases h : isReSpace d = true
    · simp [h]
    · simp [h]

theorem replChar_ne_backslash : replChar ≠ '\\' := by decide

theorem cssHexRepl_shape {hs r : Str} (h : cssHexRepl hs = .ok r) :
    r = ['\\', '\\'] ∨ ∃ x, r = [x] ∧ x ≠ '\\' := by
  unfold cssHexRepl at h
  cases hn : pyIntHex hs with
  | error e => simp [hn] at h; cases h
  | ok n =>
    simp only [hn, ok_bind] at h
    by_cases h1 : n = 0x5C
    · simp [h1] at h; exact Or.inl h.symm
    · by_cases h2 : n > 0x10FFFF ∨ (0xD800 ≤ n ∧ n ≤ 0xDFFF)
      · simp only [h1, ↓reduceIte, h2, pure_eq_ok, Except.ok.injEq] at h
        exact Or.inr ⟨replChar, h.symm, replChar_ne_backslash⟩
      · simp only [h1, ↓reduceIte, h2] at h
        have hv := isValidChar_of_guard h2
        rw [pyChr_ok hv] at h
        simp at h
        refine Or.inr ⟨Char.ofNat n, h.symm, ?_⟩
        intro e
        have : (Char.ofNat n).toNat = n := by simp [Char.ofNat, hv, Char.ofNatAux, Char.toNat]
        rw [e] at this
        exact h1 this.symm

theorem excluded_kept : ∀ n ∈ SanClass.escapeExcluded, n ∉ SanClass.escapeHex →
    keptAfter (Char.ofNat n) = true ∧ n ≠ 92 := by decide

theorem backslash_not_excluded : inClass SanClass.escapeExcluded '\\' = false := by decide

theorem excluded_kept_char {d : Char} (he : inClass SanClass.escapeExcluded d = true)
    (hh : inClass SanClass.escapeHex d = false) : keptAfter d = true ∧ d ≠ '\\' := by
  unfold inClass at he hh
  have h1 : d.toNat ∈ SanClass.escapeExcluded := by simpa using he
  have h2 : d.toNat ∉ SanClass.escapeHex := by simpa using hh
  have := excluded_kept _ h1 h2
  rw [Char.ofNat_toNat] at this
  refine ⟨this.1, ?_⟩
  intro e; subst e; exact this.2 rfl

theorem unescapeGo_stable : ∀ (f : Nat) (s o : Str), s.length < f → unescapeGo f s = .ok o → Stable o := by
  intro f
  induction f using Nat.strongRecOn with
  | _ f ih =>
    intro s o hf h
    cases f with
    | zero => simp at hf
    | succ f =>
      cases s with
      | nil => simp [unescapeGo] at h; subst h; exact .nil
      | cons c cs =>
        have hlen : cs.length < f := by simp at hf; omega
        unfold unescapeGo at h
        by_cases hc : c = '\\'
        · simp only [hc, ↓reduceIte] at h
          by_cases he : (takeUpTo (inClass SanClass.escapeHex) 6 cs).1.isEmpty = true
          · simp only [he, Bool.not_true, Bool.false_eq_true, ↓reduceIte] at h
            cases cs with
            | nil => simp at h; subst h; subst hc; exact .last
            | cons d r =>
              simp only at h
              have hnh : inClass SanClass.escapeHex d = false :=
                takeUpTo_head_false (by simpa using he)
              by_cases hx : inClass SanClass.escapeExcluded d = true
              · simp only [hx, Bool.not_true, Bool.false_eq_true, ↓reduceIte] at h
                obtain ⟨hk, hdb⟩ := excluded_kept_char hx hnh
                -- the scan goes on at `d`, which is not a backslash
                cases f with
                | zero => simp at hlen
                | succ f' =>
                  obtain ⟨t', ht'⟩ := unescapeGo_ok f' r
                  have hstep : unescapeGo (f' + 1) (d :: r) = .ok (d :: t') := by
                    conv => lhs; unfold unescapeGo
                    simp [hdb, ht']
                  simp [hstep] at h; subst h; subst hc
                  exact .kept d t' hk (ih f' (by omega) r t' (by simp at hlen; omega) ht')
              · simp only [hx, Bool.not_false, ↓reduceIte] at h
                obtain ⟨t, ht⟩ := unescapeGo_ok f r
                simp only [ht, ok_bind, pure_eq_ok, Except.ok.injEq] at h
                have hst : Stable t := ih f (by omega) r t (by simp at hlen; omega) ht
                by_cases hd : d = '\\'
                · simp [hd] at h; subst h
                  exact .kept '\\' t (by decide) hst
                · simp [hd] at h; subst h
                  exact .plain d t hd hst
          · simp only [he, Bool.not_false, ↓reduceIte] at h
            have hne : (takeUpTo (inClass SanClass.escapeHex) 6 cs).1 ≠ [] := by
              intro h0; simp [h0] at he
            obtain ⟨r, hr⟩ := cssHexRepl_ok hne (takeUpTo_all _ 6 cs)
            obtain ⟨t, ht⟩ := unescapeGo_ok f (dropOneSpace (takeUpTo (inClass SanClass.escapeHex) 6 cs).2)
            simp only [hr, ht, ok_bind, pure_eq_ok, Except.ok.injEq] at h
            have hst : Stable t := ih f (by omega) _ t (by
              have h1 := dropOneSpace_length (takeUpTo (inClass SanClass.escapeHex) 6 cs).2
              have h2 := takeUpTo_snd_length (inClass SanClass.escapeHex) 6 cs
              omega) ht
            subst h
            rcases cssHexRepl_shape hr with hp | ⟨x, hx, hxb⟩
            · rw [hp]; exact .kept '\\' t (by decide) hst
            · rw [hx]; exact .plain x t hxb hst
        · simp only [hc, ↓reduceIte] at h
          obtain ⟨t, ht⟩ := unescapeGo_ok f cs
          simp [ht] at h; subst h
          exact .plain c t hc (ih f (by omega) cs t hlen ht)

theorem unescapeCss_stable {s o : Str} (h : unescapeCss s = .ok o) : Stable o :=
  unescapeGo_stable _ s o (Nat.lt_succ_self _) h

/-! ### comment removal keeps a text stable -/

theorem Stable.tail {c : Char} {cs : Str} (h : Stable (c :: cs)) (hc : c ≠ '\\') : Stable cs := by
  cases h with
  | plain _ _ _ h' => exact h'
  | last => exact absurd rfl hc
  | kept _ _ _ _ => exact absurd rfl hc

theorem afterCommentEnd_length (dotall : Bool) : ∀ (s rest : Str), afterCommentEnd dotall s = some rest →
    rest.length < s.length := by
  intro s
  induction s with
  | nil => intro rest h; simp [afterCommentEnd] at h
  | cons c r ih =>
    intro rest h
    by_cases hh : c = '*' ∧ ∃ r', r = '/' :: r'
    · obtain ⟨rfl, r', rfl⟩ := hh
      rw [ace_hit] at h
      simp at h; subst h; simp; omega
    · rw [ace_miss dotall c r hh] at h
      split at h
      · cases h
      · have := ih rest h
        simp; omega

/-- the text after a removed comment is still stable (a `/` is never an escaped character) -/
theorem stable_afterCommentEnd (dotall : Bool) {s : Str} (hs : Stable s) :
    ∀ rest, afterCommentEnd dotall s = some rest → Stable rest := by
  induction hs with
  | nil => intro rest h; simp [afterCommentEnd] at h
  | plain c cs hc hcs ih =>
    intro rest h
    by_cases hh : c = '*' ∧ ∃ r', cs = '/' :: r'
    · obtain ⟨rfl, r', rfl⟩ := hh
      rw [ace_hit] at h
      simp at h; subst h
      exact hcs.tail (by decide)
    · rw [ace_miss dotall c cs hh] at h
      split at h
      · cases h
      · exact ih rest h
  | last =>
    intro rest h
    rw [ace_miss dotall _ _ (by simp)] at h
    split at h
    · cases h
    · simp [afterCommentEnd] at h
  | kept d r hd hr ih =>
    intro rest h
    rw [ace_miss dotall _ _ (by simp)] at h
    split at h
    · cases h
    · by_cases hh : d = '*' ∧ ∃ r', r = '/' :: r'
      · obtain ⟨rfl, r', rfl⟩ := hh
        rw [ace_hit] at h
        simp at h; subst h
        exact hr.tail (by decide)
      · rw [ace_miss dotall d r hh] at h
        split at h
        · cases h
        · exact ih rest h

theorem stripCommentsGo_stable (dotall : Bool) : ∀ (n : Nat) (s : Str), s.length ≤ n → Stable s →
    ∀ f, Stable (stripCommentsGo dotall f s) := by
  intro n
  induction n with
  | zero =>
    intro s hl hs f
    have : s = [] := List.length_eq_zero_iff.mp (Nat.le_zero.mp hl)
    subst this
    cases f <;> simp [stripCommentsGo] <;> exact .nil
  | succ n ih =>
    intro s hl hs f
    cases f with
    | zero => simpa [stripCommentsGo] using hs
    | succ f =>
      cases hs with
      | nil => simp [stripCommentsGo]; exact .nil
      | plain c cs hc hcs =>
        have hlc : cs.length ≤ n := by simp at hl; omega
        by_cases hh : c = '/' ∧ ∃ r', cs = '*' :: r'
        · obtain ⟨rfl, r', rfl⟩ := hh
          have hr' : Stable r' := hcs.tail (by decide)
          cases ha : afterCommentEnd dotall r' with
          | some rest =>
            rw [scg_hit dotall f r' rest ha]
            have hl2 := afterCommentEnd_length dotall r' rest ha
            exact ih rest (by simp at hlc; omega) (stable_afterCommentEnd dotall hr' rest ha) f
          | none =>
            rw [scg_open dotall f r' ha]
            exact .plain _ _ (by decide) (ih _ hlc hcs f)
        · rw [scg_miss dotall f c cs hh]
          exact .plain c _ hc (ih cs hlc hcs f)
      | last =>
        rw [scg_miss dotall f _ _ (by simp)]
        cases f <;> simp [stripCommentsGo] <;> exact .last
      | kept d r hd hr =>
        rw [scg_miss dotall f _ _ (by simp)]
        cases f with
        | zero => simp [stripCommentsGo]; exact .kept d r hd hr
        | succ f =>
          have hds : d ≠ '/' := keptAfter_not_slash hd
          rw [scg_miss dotall f d r (by intro h; exact hds h.1)]
          exact .kept d _ hd (ih r (by simp at hl; omega) hr f)

theorem stripCommentsOnce_stable (dotall : Bool) {s : Str} (hs : Stable s) : Stable (stripCommentsOnce dotall s) :=
  stripCommentsGo_stable dotall s.length s (Nat.le_refl _) hs _

theorem stripCommentsFix_stable (dotall : Bool) : ∀ (f : Nat) (s : Str), Stable s → Stable (stripCommentsFix dotall f s) := by
  intro f
  induction f with
  | zero => intro s hs; simpa [stripCommentsFix] using hs
  | succ f ih =>
    intro s hs
    unfold stripCommentsFix
    simp only
    split
    · exact hs
    · exact ih _ (stripCommentsOnce_stable dotall hs)

theorem stripCssComments_stable {s : Str} (hs : Stable s) : Stable (stripCssComments s) :=
  stripCommentsFix_stable _ _ s hs

/-! ### splitting at `;`, stripping, joining with `; ` -/

theorem splitOn_ne_nil (sep : Char) (s : Str) : splitOn sep s ≠ [] := by
  cases s with
  | nil => simp [splitOn]
  | cons c cs =>
    unfold splitOn
    by_cases h : c = sep
    · simp [h]
    · simp only [h, ↓reduceIte]
      split <;> simp

theorem splitOn_cons_ne {sep c : Char} (h : c ≠ sep) (cs : Str) :
    ∃ p ps, splitOn sep cs = p :: ps ∧ splitOn sep (c :: cs) = (c :: p) :: ps := by
  cases hs : splitOn sep cs with
  | nil => exact absurd hs (splitOn_ne_nil sep cs)
  | cons p ps =>
    refine ⟨p, ps, rfl, ?_⟩
    conv => lhs; unfold splitOn
    simp [h, hs]

theorem splitOn_cons_eq (sep : Char) (cs : Str) : splitOn sep (sep :: cs) = [] :: splitOn sep cs := by
  conv => lhs; unfold splitOn
  simp

theorem splitOn_stable {s : Str} (hs : Stable s) : ∀ p ∈ splitOn ';' s, Stable p := by
  induction hs with
  | nil => intro p hp; simp [splitOn] at hp; subst hp; exact .nil
  | plain c cs hc _ ih =>
    intro p hp
    by_cases h : c = ';'
    · subst h
      rw [splitOn_cons_eq] at hp
      simp at hp
      rcases hp with rfl | hp
      · exact .nil
      · exact ih p hp
    · obtain ⟨q, qs, hq, hsp⟩ := splitOn_cons_ne h cs
      rw [hsp] at hp
      simp at hp
      rcases hp with rfl | hp
      · exact .plain c q hc (ih q (by simp [hq]))
      · exact ih p (by simp [hq, hp])
  | last =>
    intro p hp
    simp [splitOn] at hp
    subst hp; exact .last
  | kept d r hd _ ih =>
    intro p hp
    obtain ⟨q, qs, hq, hsp⟩ := splitOn_cons_ne (sep := ';') (c := '\\') (by decide) (d :: r)
    rw [hsp] at hp
    by_cases h : d = ';'
    · subst h
      rw [splitOn_cons_eq] at hq
      simp at hq
      obtain ⟨rfl, rfl⟩ := hq
      simp at hp
      rcases hp with rfl | hp
      · exact .last
      · exact ih p hp
    · obtain ⟨q', qs', hq', hsp'⟩ := splitOn_cons_ne h r
      rw [hsp'] at hq
      simp at hq
      obtain ⟨rfl, rfl⟩ := hq
      simp at hp
      rcases hp with rfl | hp
      · exact .kept d q' hd (ih q' (by simp [hq']))
      · exact ih p (by simp [hq', hp])

theorem lstripBy_stable {p : Char → Bool} (hp : ∀ c, p c = true → c ≠ '\\') {s : Str} (hs : Stable s) :
    Stable (Genshi.Str.lstripBy p s) := by
  induction s with
  | nil => simpa [Genshi.Str.lstripBy] using hs
  | cons c cs ih =>
    unfold Genshi.Str.lstripBy
    by_cases h : p c = true
    · simp only [h, ↓reduceIte]
      exact ih (hs.tail (hp c h))
    · simpa [h] using hs

theorem lstripBy_decomp (p : Char → Bool) (l : Str) :
    ∃ t, l = t ++ Genshi.Str.lstripBy p l ∧ ∀ c ∈ t, p c = true := by
  induction l with
  | nil => exact ⟨[], by simp [Genshi.Str.lstripBy], by simp⟩
  | cons c cs ih =>
    unfold Genshi.Str.lstripBy
    by_cases h : p c = true
    · obtain ⟨t, ht, hall⟩ := ih
      refine ⟨c :: t, ?_, ?_⟩
      · simp only [h, ↓reduceIte, List.cons_append]; rw [← ht]
      · intro x hx; simp at hx; rcases hx with rfl | hx
        · exact h
        · exact hall x hx
    · exact ⟨[], by simp [h], by simp⟩

theorem rstripBy_decomp (p : Char → Bool) (s : Str) :
    ∃ t, s = Genshi.Str.rstripBy p s ++ t ∧ ∀ c ∈ t, p c = true := by
  obtain ⟨t, ht, hall⟩ := lstripBy_decomp p s.reverse
  refine ⟨t.reverse, ?_, ?_⟩
  · unfold Genshi.Str.rstripBy
    have := congrArg List.reverse ht
    simpa using this
  · intro c hc; exact hall c (by simpa using hc)

/-- a prefix of a stable text that is cut in front of characters other than backslashes is stable -/
theorem stable_prefix : ∀ (n : Nat) (a t : Str), a.length ≤ n → Stable (a ++ t) → (∀ c ∈ t, c ≠ '\\') → Stable a := by
  intro n
  induction n using Nat.strongRecOn with
  | _ n ih =>
    intro a t hl hs ht
    cases a with
    | nil => exact .nil
    | cons c a' =>
      by_cases hc : c = '\\'
      · subst hc
        cases a' with
        | nil => exact .last
        | cons d a'' =>
          simp only [List.cons_append] at hs
          cases hs with
          | plain _ _ hne _ => exact absurd rfl hne
          | kept _ _ hd hr =>
            have : a''.length ≤ n - 2 := by simp at hl; omega
            exact .kept d a'' hd (ih (n - 2) (by simp at hl; omega) a'' t this hr ht)
      · simp only [List.cons_append] at hs
        have := hs.tail hc
        exact .plain c a' hc (ih (n - 1) (by simp at hl; omega) a' t (by simp at hl; omega) this ht)

theorem rstripBy_stable {p : Char → Bool} (hp : ∀ c, p c = true → c ≠ '\\') {s : Str} (hs : Stable s) :
    Stable (Genshi.Str.rstripBy p s) := by
  obtain ⟨t, ht, hall⟩ := rstripBy_decomp p s
  rw [ht] at hs
  exact stable_prefix _ _ t (Nat.le_refl _) hs (fun c hc => hp c (hall c hc))

theorem isSpace_ne_backslash : ∀ c, isSpace c = true → c ≠ '\\' := by
  intro c h e; subst e; revert h; decide

theorem pyStrip_stable {s : Str} (hs : Stable s) : Stable (pyStrip s) := by
  unfold pyStrip Genshi.Str.stripBy
  exact rstripBy_stable isSpace_ne_backslash (lstripBy_stable isSpace_ne_backslash hs)

theorem stable_append_semicolon {a r : Str} (ha : Stable a) (hr : Stable r) : Stable (a ++ ';' :: r) := by
  induction ha with
  | nil => exact .plain ';' r (by decide) hr
  | plain c cs hc _ ih => exact .plain c _ hc ih
  | last => exact .kept ';' r (by decide) hr
  | kept d r' hd _ ih => exact .kept d _ hd ih

theorem join_declSep_stable : ∀ (ds : List Str), (∀ d ∈ ds, Stable d) → Stable (Genshi.Str.join declSep ds) := by
  intro ds
  induction ds with
  | nil => intro _; exact .nil
  | cons d ds ih =>
    intro h
    cases ds with
    | nil => simpa [Genshi.Str.join] using h d (by simp)
    | cons d' ds' =>
      have hrest := ih (fun x hx => h x (by simp [hx]))
      have : Genshi.Str.join declSep (d :: d' :: ds') = d ++ ';' :: ' ' :: Genshi.Str.join declSep (d' :: ds') := by
        simp [Genshi.Str.join, declSep]
      rw [this]
      exact stable_append_semicolon (h d (by simp)) (.plain ' ' _ (by decide) hrest)

theorem cssDecl_stable {cfg : Cfg} {piece d : Str} (hp : Stable piece) (h : cssDecl cfg piece = some d) : Stable d := by
  unfold cssDecl at h
  simp only at h
  split at h
  · cases h
  · split at h
    · cases h
    · split at h
      · cases h
      · split at h
        · cases h
        · split at h
          · cases h
          · simp at h; subst h
            exact pyStrip_stable (pyStrip_stable hp)

/-- **the text `sanitize_css` emits is stable**: decoding its escapes again changes nothing -/
theorem sanitizeCss_stable {cfg : Cfg} {x : Str} {decls : List Str} (h : sanitizeCss cfg x = .ok decls) :
    Stable (Genshi.Str.join declSep decls) := by
  unfold sanitizeCss at h
  cases ht : replaceUnicodeEscapes x with
  | error e => simp [ht] at h; cases h
  | ok t =>
    simp only [ht, ok_bind, pure_eq_ok, Except.ok.injEq] at h
    subst h
    have hst : Stable (stripCssComments t) := stripCssComments_stable (unescapeCss_stable ht)
    apply join_declSep_stable
    intro d hd
    obtain ⟨piece, hpiece, hdecl⟩ := List.mem_filterMap.mp hd
    exact cssDecl_stable (splitOn_stable hst piece hpiece) hdecl

end Genshi.San

/-
  SimplePathStrategy's matcher step on one fragment that may start anywhere below the
  context (`descendant::t1/…/tn`, `//t1/…/tn`): the pair (fragment 1, p) on its stack always
  holds the longest prefix of the fragment that matches the end of the chain of ancestors.
-/
import Genshi.Lemmas.PathKmp
import Genshi.Lemmas.PathSingle
namespace Genshi.Path.Kmp
open Genshi Genshi.Path

section
variable (ns : NsMap)

/-- the chain of ancestors (innermost first) as a text -/
def textOf (rw : List Event) : Nat → Sym := fun k t =>
  match rw[k]? with
  | some e => t.matches e ns
  | none => false

theorem textOf_cons (e : Event) (rw : List Event) :
    textOf ns (e :: rw) = push (fun t => t.matches e ns) (textOf ns rw) := by
  funext k t
  cases k <;> simp [textOf, push]

theorem compat_event (e : Event) : Compat (fun t => t.matches e ns) := by
  constructor
  · intro t u ht hu h
    rcases simpleT_cases t ht with ⟨a, rfl⟩ | rfl | rfl <;> rcases simpleT_cases u hu with ⟨b, rfl⟩ | rfl | rfl <;>
      simp_all [nodesEqual]
  · intro t u ht hu h1 h2
    rcases simpleT_cases t ht with ⟨a, rfl⟩ | rfl | rfl <;> rcases simpleT_cases u hu with ⟨b, rfl⟩ | rfl | rfl <;>
      cases e <;> simp_all [NodeTest.matches, NodeTest.apply, Val.truthy, nodesEqual]

theorem compatOn_textOf (rw : List Event) : CompatOn (textOf ns rw) rw.length := by
  intro k hk
  have : (textOf ns rw k) = fun t => t.matches rw[k] ns := by
    funext t; simp [textOf, List.getElem?_eq_getElem hk]
  rw [this]
  exact compat_event ns _

variable (frag : Frag)

/-- the matcher's step on the current fragment -/
def kmpStep (p : Nat) (e : Event) : Nat :=
  let p1 := kmpBack frag e ns (p + 1) p
  if fragTest frag p1 e ns then p1 + 1 else p1

theorem kmpBack_eq_back (e : Event) : ∀ (fuel p : Nat),
    kmpBack frag e ns fuel p
      = back frag.pi (fun x => decide (x ≥ frag.tests.length) || !fragTest frag x e ns) fuel p := by
  intro fuel
  induction fuel with
  | zero => intro p; rfl
  | succ fuel ih => intro p; simp only [kmpBack, back, ih]

theorem fragTest_eq (p : Nat) (e : Event) :
    fragTest frag p e ns = (decide (p < frag.tests.length) && (Fof frag.tests p).matches e ns) := by
  unfold fragTest
  by_cases hp : p < frag.tests.length
  · rw [getElem?_Fof frag.tests p hp]; simp [hp]
  · have : frag.tests[p]? = none := by simp; omega
    rw [this]; simp [hp]

/-- the step keeps "longest prefix matching the end of the chain" -/
theorem kmpStep_max (hne : frag.tests ≠ []) (hs : Simple (Fof frag.tests) frag.tests.length)
    (hpi : frag.pi = calculatePi frag.tests) (rw : List Event) (p : Nat)
    (hp : IsMax (Fof frag.tests) frag.tests.length (textOf ns rw) rw.length p) (e : Event) :
    IsMax (Fof frag.tests) frag.tests.length (textOf ns (e :: rw)) (rw.length + 1) (kmpStep ns frag p e) := by
  have hpiok := (calculatePi_ok frag.tests hne hs).1
  rw [← hpi] at hpiok
  rw [textOf_cons]
  have h := step_max (Fof frag.tests) frag.tests.length hs (textOf ns rw) rw.length (compatOn_textOf ns rw)
    frag.pi hpiok (fun t => t.matches e ns)
    (fun x => decide (x ≥ frag.tests.length) || !fragTest frag x e ns)
    (fun s => by
      rw [fragTest_eq]
      by_cases h1 : s < frag.tests.length <;> cases (Fof frag.tests s).matches e ns <;> simp [h1] <;> omega)
    p (p + 1) (by omega) hp
  unfold kmpStep
  rw [kmpBack_eq_back]
  simp only
  generalize back frag.pi (fun x => decide (x ≥ frag.tests.length) || !fragTest frag x e ns) (p + 1) p = p1 at h ⊢
  have hb : (decide (p1 ≥ frag.tests.length) || !fragTest frag p1 e ns) = !fragTest frag p1 e ns := by
    rw [fragTest_eq]
    by_cases h1 : p1 < frag.tests.length <;> simp [h1] <;> omega
  rw [hb] at h
  cases hft : fragTest frag p1 e ns <;> simp [hft] at h ⊢ <;> exact h

/-- the fragments of `descendant::t1/…/tn` (`sb = false`) and `descendant-or-self::t1/…/tn`
    (`sb = true`, what a leading `//` gives) -/
def frags2 (tests : List NodeTest) (sb : Bool) : List Frag :=
  [⟨[], [], none, false⟩, ⟨tests, calculatePi tests, none, sb⟩]

theorem icLoop_frags2 (tests : List NodeTest) (sb : Bool) (e : Event) (p : Nat) :
    icLoop (frags2 tests sb) e ns 3 1 p
      = (1, kmpStep ns ⟨tests, calculatePi tests, none, sb⟩ p e, tests.length, none) := by
  simp only [icLoop, frags2, kmpStep, List.getElem?_cons_succ, List.getElem?_cons_zero, List.length_cons,
    List.length_nil]
  split <;> simp

/-- SimplePathStrategy inside the fragment that can start anywhere: KMP step, `True` when the
    whole fragment is matched -/
theorem pStep_kmp (tests : List NodeTest) (sb ic0 : Bool) (p : Nat) (rest : PState) (e : Event)
    (he : e.isEnd = false) (hm : e.isNsOrCdata = false) :
    pStep (some (frags2 tests sb)) ic0 ns (⟨some (1, p), true⟩ :: rest) e =
      ((if e.isStart then
          ⟨some (1, kmpStep ns ⟨tests, calculatePi tests, none, sb⟩ p e), true⟩ :: ⟨some (1, p), true⟩ :: rest
        else ⟨some (1, p), true⟩ :: rest),
       if kmpStep ns ⟨tests, calculatePi tests, none, sb⟩ p e == tests.length then .bool true else .none) := by
  have hl : (frags2 tests sb).length = 2 := rfl
  simp only [pStep, he, hm, Bool.false_eq_true, if_false, hl, Nat.reduceAdd, icLoop_frags2 ns, Bool.not_true,
    Bool.false_and, if_true]
  by_cases h : (kmpStep ns ⟨tests, calculatePi tests, none, sb⟩ p e == tests.length) = true <;>
    simp [h, icLoop_frags2 ns]

/-- the first event (the context node) in relative mode: for `descendant::` the fragment can
    only start below it -/
theorem pStep_kmp_root_desc (tests : List NodeTest) (hne : tests ≠ []) (e : Event)
    (he : e.isEnd = false) (hm : e.isNsOrCdata = false) :
    pStep (some (frags2 tests false)) false ns [] e = ([⟨some (1, 0), true⟩], .none) := by
  have h1 : tests.isEmpty = false := by cases tests <;> simp_all
  simp [pStep, he, hm, frags2, skipEmpty, h1]

/-- for `descendant-or-self::` the context node itself is the first candidate -/
theorem pStep_kmp_root_dos (tests : List NodeTest) (hne : tests ≠ []) (e : Event)
    (he : e.isEnd = false) (hm : e.isNsOrCdata = false) :
    pStep (some (frags2 tests true)) false ns [] e =
      ((if e.isStart then [⟨some (1, kmpStep ns ⟨tests, calculatePi tests, none, true⟩ 0 e), true⟩] else []),
       if kmpStep ns ⟨tests, calculatePi tests, none, true⟩ 0 e == tests.length then .bool true else .none) := by
  have h1 : tests.isEmpty = false := by cases tests <;> simp_all
  have hl : (frags2 tests true).length = 2 := rfl
  have hsk : skipEmpty (frags2 tests true) 3 0 = 1 := by simp [skipEmpty, frags2, h1]
  simp only [pStep, he, hm, Bool.false_eq_true, if_false, hl, hsk]
  simp only [frags2, List.getElem?_cons_succ, List.getElem?_cons_zero, Option.map_some, Option.getD_some,
    Bool.not_true, Bool.false_and, if_false, Bool.false_or]
  have := icLoop_frags2 ns tests true e 0
  simp only [frags2] at this
  simp only [Nat.lt_irrefl, decide_true, Nat.zero_lt_one, decide_false, Nat.reduceAdd, this, if_true]
  by_cases h : (kmpStep ns ⟨tests, calculatePi tests, none, true⟩ 0 e == tests.length) = true <;> simp [h, this]

end
end Genshi.Path.Kmp

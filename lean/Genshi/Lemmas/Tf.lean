/-
  Lemmas about the transformer model (`Genshi/Model/Tf.lean`).
-/
import Genshi.Model.Tf
import Genshi.Lemmas.Core
namespace Genshi.Tf

theorem unmark_markAll (s : Stream) : unmark (markAll s) = s := by
  induction s with
  | nil => rfl
  | cons e es ih => simp only [markAll, List.map_cons, unmark] at ih ⊢; rw [ih]

/-- results `Path.test()` can return without replacing the event -/
def Res.plain : Res → Bool
  | .none | .hit | .attrs _ | .self => true
  | _ => false

theorem unmark_selectGo (d : Nat) (rs : List Res) (s : MStream) (h : ∀ r ∈ rs, r.plain = true) :
    unmark (selectGo d rs s) = unmark s := by
  induction s generalizing d rs with
  | nil => cases d <;> simp [selectGo]
  | cons p s ih =>
    obtain ⟨m, x⟩ := p
    have htail : ∀ r ∈ rs.tail, r.plain = true := fun r hr => h r (List.mem_of_mem_tail hr)
    cases d with
    | zero =>
      cases m with
      | none => cases x <;> simp [selectGo, unmark, ih 0 rs h]
      | some m =>
        have hhd : (rs.headD .none).plain = true := by
          cases rs with
          | nil => rfl
          | cons r rs => exact h r (by simp)
        cases hr : rs.headD .none <;> simp only [hr, Res.plain] at hhd <;> simp only [selectGo, hr]
        · cases x <;> simp [unmark, ih 0 _ htail]
        · by_cases hx : x.isStart
          · simp only [hx, ↓reduceIte]; cases x <;> simp [unmark, ih 1 _ htail]
          · simp only [hx]; cases x <;> simp [unmark, ih 0 _ htail]
        · cases x <;> simp [unmark, ih 0 _ htail]
        · cases x <;> simp [unmark, ih 0 _ htail]
        · exact absurd hhd (by simp)
        · exact absurd hhd (by simp)
    | succ d =>
      simp only [selectGo]
      by_cases hd : subDepth d x = 0
      · simp only [hd, ↓reduceIte]; cases x <;> simp [unmark, ih 0 rs h]
      · simp only [hd, ↓reduceIte]; cases x <;> simp [unmark, ih _ rs h]

theorem unmark_append (a b : MStream) : unmark (a ++ b) = unmark a ++ unmark b := by
  induction a with
  | nil => rfl
  | cons p a ih =>
    obtain ⟨m, x⟩ := p
    cases x <;> simp [unmark, ih]

def Bal (s : Stream) : Prop := balance [] s = some []

theorem Bal.nil : Bal [] := rfl

theorem balance_bal (st : List QName) {a : Stream} (ha : Bal a) (b : Stream) :
    balance st (a ++ b) = balance st b := by
  rw [balance_append]
  have := balance_frame a [] [] st ha
  simp at this
  simp [this]

theorem Bal.append {a b : Stream} (ha : Bal a) (hb : Bal b) : Bal (a ++ b) := by
  unfold Bal; rw [balance_bal [] ha]; exact hb

theorem balance_cons_congr (e : Event) {a b : Stream}
    (h : ∀ st, balance st a = balance st b) (st : List QName) :
    balance st (e :: a) = balance st (e :: b) := by
  cases e with
  | start t at_ => simp [balance, h]
  | end_ t =>
    cases st with
    | nil => simp [balance]
    | cons t' st => by_cases ht : t = t' <;> simp [balance, ht, h]
  | _ => cases st <;> simp [balance, h]

theorem balance_append_congr (p : Stream) {a b : Stream}
    (h : ∀ st, balance st a = balance st b) (st : List QName) :
    balance st (p ++ a) = balance st (p ++ b) := by
  induction p generalizing st with
  | nil => exact h st
  | cons e p ih => exact balance_cons_congr e (fun st => ih st) st

theorem unmark_inj_ev (c : Stream) : unmark (inj (c.map .ev)) = c := by
  induction c with
  | nil => rfl
  | cons e c ih => simp only [inj, List.map_cons, unmark] at ih ⊢; rw [ih]

end Genshi.Tf

/-
  once_hint_irrelevant: setting once="true" on a template that fires at most once does not
  change the output.  A simulation between the run without the hint and the run with it.
-/
import Genshi.Lemmas.MatchIns
import Genshi.Lemmas.MatchPipe
import Genshi.Lemmas.MatchSync
namespace Genshi.Match
open Genshi
variable {σ : Type}

def onceAt (t : MT σ) : MT σ := { t with once := true }

/-- the ghost counter of slot `i` -/
def hitsAt (i : Nat) (m : List (MT σ)) : Nat :=
  match m[i]? with
  | some t => t.hits
  | none => 0

/-- slot-wise relation between the template list of the run without the hint (left) and with it
    (right): equal off slot `i`; at slot `i` the left template is live and without the hint, the right
    one is the same with the hint (`b = false`: has not fired yet) or retired (`b = true`: has fired) -/
def Q (i : Nat) (b : Bool) (j : Nat) (t t' : MT σ) : Prop :=
  if j = i then
    t.once = false ∧ t.retired = false ∧ (if b then t'.retired = true else t' = onceAt t)
  else t' = t

inductive PRel (R : Nat → MT σ → MT σ → Prop) : Nat → List (MT σ) → List (MT σ) → Prop
  | nil (k : Nat) : PRel R k [] []
  | cons {k : Nat} {t t' : MT σ} {ts ts' : List (MT σ)} : R k t t' → PRel R (k + 1) ts ts' → PRel R k (t :: ts) (t' :: ts')

theorem PRel.length {R : Nat → MT σ → MT σ → Prop} {k : Nat} {a b : List (MT σ)} (h : PRel R k a b) :
    b.length = a.length := by
  induction h with
  | nil => rfl
  | cons _ _ ih => simp [ih]

theorem PRel.get {R : Nat → MT σ → MT σ → Prop} {k : Nat} {a b : List (MT σ)} (h : PRel R k a b) :
    ∀ p t, a[p]? = some t → ∃ t', b[p]? = some t' ∧ R (k + p) t t' := by
  induction h with
  | nil => intro p t ht; simp at ht
  | @cons k x x' xs xs' hr _ ih =>
    intro p t ht
    cases p with
    | zero =>
      simp only [List.getElem?_cons_zero, Option.some.injEq] at ht
      subst ht
      exact ⟨x', by simp, by simpa using hr⟩
    | succ p =>
      simp only [List.getElem?_cons_succ] at ht ⊢
      obtain ⟨t', h1, h2⟩ := ih p t ht
      exact ⟨t', h1, by rw [show k + (p + 1) = k + 1 + p by omega]; exact h2⟩

theorem PRel.append {R : Nat → MT σ → MT σ → Prop} {k : Nat} {a b : List (MT σ)} (h : PRel R k a b)
    {c d : List (MT σ)} (h2 : PRel R (k + a.length) c d) : PRel R k (a ++ c) (b ++ d) := by
  induction h with
  | nil => simpa using h2
  | @cons k x x' xs xs' hr _ ih =>
    simp only [List.cons_append]
    refine PRel.cons hr (ih ?_)
    simp only [List.length_cons] at h2
    rw [show k + 1 + xs.length = k + (xs.length + 1) by omega]; exact h2

theorem test_hits (t : MT σ) (e : Event) (u : Bool) : (t.test e u).1.hits = t.hits := by
  unfold MT.test; split <;> rfl

theorem test_onceAt (t : MT σ) (e : Event) (u : Bool) :
    (onceAt t).test e u = (onceAt (t.test e u).1, (t.test e u).2) := by
  unfold MT.test onceAt
  by_cases h : t.retired = true <;> simp [h]

theorem test_once_flags (t : MT σ) (e : Event) (u : Bool) :
    (t.test e u).1.once = t.once ∧ (t.test e u).1.retired = t.retired := by
  unfold MT.test; split <;> simp_all

theorem test_retired {t : MT σ} (h : t.retired = true) (e : Event) (u : Bool) : t.test e u = (t, false) := by
  unfold MT.test; simp [h]

/-- testing both sides keeps the slot relation (the right side does not fire when retired) -/
theorem q_test (i : Nat) (b : Bool) (j : Nat) (t t' : MT σ) (e : Event) (u : Bool) (h : Q i b j t t') :
    Q i b j (t.test e u).1 (t'.test e u).1 := by
  unfold Q at *
  by_cases hj : j = i
  · simp only [hj, ↓reduceIte] at h ⊢
    obtain ⟨h1, h2, h3⟩ := h
    have hf := test_once_flags t e u
    refine ⟨by rw [hf.1, h1], by rw [hf.2, h2], ?_⟩
    cases b with
    | true =>
      simp only [↓reduceIte] at h3 ⊢
      rw [test_retired h3]; exact h3
    | false =>
      simp only [Bool.false_eq_true, ↓reduceIte] at h3 ⊢
      rw [h3, test_onceAt]
  · simp only [hj, ↓reduceIte] at h ⊢
    rw [h]

/-- testing only the left side keeps the relation once the right side is retired -/
theorem q_test_left (i : Nat) (t t' : MT σ) (e : Event) (u : Bool) (h : Q i true i t t') :
    Q i true i (t.test e u).1 t' := by
  unfold Q at *
  simp only [↓reduceIte] at h ⊢
  have hf := test_once_flags t e u
  exact ⟨by rw [hf.1, h.1], by rw [hf.2, h.2.1], h.2.2⟩

theorem q_fire_eq (i : Nat) (j : Nat) (t t' : MT σ) (e : Event) (h : Q i false j t t') :
    (t'.test e false).2 = (t.test e false).2 := by
  unfold Q at h
  by_cases hj : j = i
  · simp only [hj, ↓reduceIte, Bool.false_eq_true] at h
    rw [h.2.2, test_onceAt]
  · simp only [hj, ↓reduceIte] at h; rw [h]

theorem q_hits (i : Nat) (b : Bool) (j : Nat) (t t' : MT σ) (h : Q i b j t t') :
    Q i b j { t with hits := t.hits + 1 } { t' with hits := t'.hits + 1 } := by
  unfold Q at *
  by_cases hj : j = i
  · simp only [hj, ↓reduceIte] at h ⊢
    refine ⟨h.1, h.2.1, ?_⟩
    cases b with
    | true => simpa using h.2.2
    | false =>
      simp only [Bool.false_eq_true, ↓reduceIte] at h ⊢
      rw [h.2.2]; rfl
  · simp only [hj, ↓reduceIte] at h ⊢
    rw [h]

/-! ### the scan on related lists -/

/-- before the template has fired: the two scans agree -/
theorem scanP_relA (i : Nat) (e : Event) : ∀ (a b : List (MT σ)) (k : Nat) (w : Nat → Bool),
    PRel (Q i false) k a b →
    (scanP w e b).2 = (scanP w e a).2 ∧ PRel (Q i false) k (scanP w e a).1 (scanP w e b).1 := by
  intro a b k w h
  induction h generalizing w with
  | nil => simp [scanP]; exact PRel.nil _
  | @cons k t t' ts ts' hr hrest ih =>
    unfold scanP
    by_cases hw : w 0 = true
    · simp only [hw, ↓reduceIte]
      have hf := q_fire_eq i k t t' e hr
      rw [hf]
      by_cases hfire : (t.test e false).2 = true
      · simp only [hfire, ↓reduceIte, true_and]
        exact PRel.cons (q_hits i false k _ _ (q_test i false k t t' e false hr)) hrest
      · simp only [hfire, Bool.false_eq_true, ↓reduceIte]
        obtain ⟨h1, h2⟩ := ih (fun p => w (p + 1))
        exact ⟨by rw [h1], PRel.cons (q_test i false k t t' e false hr) h2⟩
    · simp only [hw, Bool.false_eq_true, ↓reduceIte]
      obtain ⟨h1, h2⟩ := ih (fun p => w (p + 1))
      exact ⟨by rw [h1], PRel.cons hr h2⟩

/-- after the template has fired (right side retired), windows that agree off slot `i`: unless the
    left scan fires slot `i` again, the scans agree -/
theorem scanP_relB (i : Nat) (e : Event) : ∀ (a b : List (MT σ)) (k : Nat) (w w' : Nat → Bool),
    PRel (Q i true) k a b → (∀ p, k + p ≠ i → w' p = w p) →
    (∀ p, (scanP w e a).2 = some p → k + p ≠ i) →
    (scanP w' e b).2 = (scanP w e a).2 ∧ PRel (Q i true) k (scanP w e a).1 (scanP w' e b).1 := by
  intro a b k w w' h
  induction h generalizing w w' with
  | nil => intro _ _; simp [scanP]; exact PRel.nil _
  | @cons k t t' ts ts' hr hrest ih =>
    intro hw hne
    have hw1 : ∀ p, k + 1 + p ≠ i → (fun p => w' (p + 1)) p = (fun p => w (p + 1)) p := by
      intro p hp; exact hw (p + 1) (by omega)
    by_cases hk : k = i
    · -- this is slot i: right side retired
      have hq := hr
      unfold Q at hq
      simp only [hk, ↓reduceIte] at hq
      have hret := test_retired hq.2.2 e false
      unfold scanP
      -- the left side must not fire here
      have hleft : w 0 = true → (t.test e false).2 = false := by
        intro hw0
        cases hf : (t.test e false).2 with
        | false => rfl
        | true =>
          exfalso
          have := hne 0 (by unfold scanP; simp [hw0, hf])
          omega
      have hne1 : ∀ p, (scanP (fun p => w (p + 1)) e ts).2 = some p → k + 1 + p ≠ i := by
        intro p hp; omega
      obtain ⟨h1, h2⟩ := ih (fun p => w (p + 1)) (fun p => w' (p + 1)) hw1 hne1
      have hrel : Q i true k (t.test e false).1 t' := by
        have hr' : Q i true i t t' := by have h0 := hr; rw [hk] at h0; exact h0
        have := q_test_left i t t' e false hr'
        rw [hk]; exact this
      by_cases hw0 : w 0 = true
      · simp only [hw0, ↓reduceIte, hleft hw0, Bool.false_eq_true]
        by_cases hw0' : w' 0 = true
        · simp only [hw0', ↓reduceIte, hret, Bool.false_eq_true]
          exact ⟨by rw [h1], PRel.cons hrel h2⟩
        · simp only [hw0', Bool.false_eq_true, ↓reduceIte]
          exact ⟨by rw [h1], PRel.cons hrel h2⟩
      · simp only [hw0, Bool.false_eq_true, ↓reduceIte]
        by_cases hw0' : w' 0 = true
        · simp only [hw0', ↓reduceIte, hret, Bool.false_eq_true]
          exact ⟨by rw [h1], PRel.cons hr h2⟩
        · simp only [hw0', Bool.false_eq_true, ↓reduceIte]
          exact ⟨by rw [h1], PRel.cons hr h2⟩
    · -- another slot: identical templates, identical window
      have hq := hr
      unfold Q at hq
      simp only [hk, ↓reduceIte] at hq
      have hw0 : w' 0 = w 0 := hw 0 (by omega)
      unfold scanP
      rw [hw0, hq]
      by_cases hw0t : w 0 = true
      · simp only [hw0t, ↓reduceIte]
        by_cases hfire : (t.test e false).2 = true
        · simp only [hfire, ↓reduceIte, true_and]
          exact PRel.cons (by unfold Q; simp [hk]) hrest
        · simp only [hfire, Bool.false_eq_true, ↓reduceIte]
          have hne1 : ∀ p, (scanP (fun p => w (p + 1)) e ts).2 = some p → k + 1 + p ≠ i := by
            intro p hp
            have := hne (p + 1) (by unfold scanP; simp [hw0t, hfire, hp])
            omega
          obtain ⟨h1, h2⟩ := ih (fun p => w (p + 1)) (fun p => w' (p + 1)) hw1 hne1
          exact ⟨by rw [h1], PRel.cons (by unfold Q; simp [hk]) h2⟩
      · simp only [hw0t, Bool.false_eq_true, ↓reduceIte]
        have hne1 : ∀ p, (scanP (fun p => w (p + 1)) e ts).2 = some p → k + 1 + p ≠ i := by
          intro p hp
          have := hne (p + 1) (by unfold scanP; simp [hw0t, hp])
          omega
        obtain ⟨h1, h2⟩ := ih (fun p => w (p + 1)) (fun p => w' (p + 1)) hw1 hne1
        exact ⟨by rw [h1], PRel.cons (by unfold Q; simp [hk]) h2⟩

/-- `mapW` with a test on related lists, windows agreeing off slot `i` when the right side is retired -/
theorem mapW_rel (i : Nat) (b : Bool) (e : Event) (u : Bool) : ∀ (a c : List (MT σ)) (k : Nat) (w w' : Nat → Bool),
    PRel (Q i b) k a c → (∀ p, (b = false ∨ k + p ≠ i) → w' p = w p) →
    PRel (Q i b) k (mapW w (fun t => (t.test e u).1) a) (mapW w' (fun t => (t.test e u).1) c) := by
  intro a c k w w' h
  induction h generalizing w w' with
  | nil => intro _; exact PRel.nil _
  | @cons k t t' ts ts' hr hrest ih =>
    intro hw
    simp only [mapW]
    have hw1 : ∀ p, (b = false ∨ k + 1 + p ≠ i) → (fun p => w' (p + 1)) p = (fun p => w (p + 1)) p := by
      intro p hp; exact hw (p + 1) (by rcases hp with hp | hp; exact Or.inl hp; exact Or.inr (by omega))
    refine PRel.cons ?_ (ih _ _ hw1)
    by_cases hk : b = false ∨ k ≠ i
    · have hw0 : w' 0 = w 0 := hw 0 (by simpa using hk)
      rw [hw0]
      split
      · exact q_test i b k t t' e u hr
      · exact hr
    · have hb : b = true := by cases b <;> simp_all
      have hki : k = i := by
        cases Nat.decEq k i with
        | isTrue h => exact h
        | isFalse h => exact absurd (Or.inr h) hk
      subst hb
      have hr' : Q i true i t t' := by have h0 := hr; rw [hki] at h0; exact h0
      have hq := hr'
      unfold Q at hq
      simp only [↓reduceIte] at hq
      have hret := test_retired hq.2.2 e u
      have : (if w' 0 = true then (t'.test e u).1 else t') = t' := by split <;> simp [hret]
      rw [this, hki]
      split
      · exact q_test_left i t t' e u hr'
      · exact hr'

theorem retireAt_rel (i : Nat) (b : Bool) : ∀ (a c : List (MT σ)) (k idx : Nat),
    PRel (Q i b) k a c → k + idx ≠ i → PRel (Q i b) k (retireAt idx a) (retireAt idx c) := by
  intro a c k idx h
  induction h generalizing idx with
  | nil => intro _; cases idx <;> exact PRel.nil _
  | @cons k t t' ts ts' hr hrest ih =>
    intro hne
    cases idx with
    | zero =>
      simp only [retireAt]
      refine PRel.cons ?_ hrest
      unfold Q at hr ⊢
      have hk : k ≠ i := by omega
      simp only [hk, ↓reduceIte] at hr ⊢
      rw [hr]
    | succ idx =>
      simp only [retireAt]
      exact PRel.cons hr (ih idx (by omega))

/-- the hinted side retires slot `i` when it fires -/
theorem retireAt_fire (i : Nat) : ∀ (a c : List (MT σ)) (k idx : Nat),
    PRel (Q i false) k a c → k + idx = i → PRel (Q i true) k a (retireAt idx c) := by
  intro a c k idx h
  induction h generalizing idx with
  | nil => intro _; cases idx <;> exact PRel.nil _
  | @cons k t t' ts ts' hr hrest ih =>
    intro he
    cases idx with
    | zero =>
      simp only [retireAt]
      have hk : k = i := by omega
      refine PRel.cons ?_ ?_
      · unfold Q at hr ⊢
        simp only [hk, ↓reduceIte, Bool.false_eq_true] at hr ⊢
        exact ⟨hr.1, hr.2.1, rfl⟩
      · -- the slots after i are equal on both sides
        clear ih
        have : ∀ (k' : Nat) (x y : List (MT σ)), i < k' → PRel (Q i false) k' x y → PRel (Q i true) k' x y := by
          intro k' x y hlt hxy
          induction hxy with
          | nil => exact PRel.nil _
          | @cons k'' u u' us us' hq _ ih2 =>
            refine PRel.cons ?_ (ih2 (by omega))
            unfold Q at hq ⊢
            have : k'' ≠ i := by omega
            simp only [this, ↓reduceIte] at hq ⊢
            exact hq
        exact this (k + 1) ts ts' (by omega) hrest
    | succ idx =>
      simp only [retireAt]
      refine PRel.cons ?_ (ih idx (by omega))
      unfold Q at hr ⊢
      have hk : k ≠ i := by omega
      simp only [hk, ↓reduceIte] at hr ⊢
      exact hr

end Genshi.Match

namespace Genshi.Match
open Genshi
variable {σ : Type}

/-! ### the ghost counter -/

theorem hitsAt_scanEnd (i : Nat) (e : Event) (s : Nat) (en : Option Nat) (m : List (MT σ)) :
    hitsAt i (scanEnd e s en 0 m) = hitsAt i m := by
  unfold hitsAt
  rw [scanEnd_get]
  cases m[i]? with
  | none => rfl
  | some t => simp only [Option.map_some]; split <;> simp [test_hits]

theorem hitsAt_updRange (i : Nat) (e : Event) (lo hi : Nat) (m : List (MT σ)) :
    hitsAt i (updRange e lo hi 0 m) = hitsAt i m := by
  unfold hitsAt
  rw [updRange_get]
  cases m[i]? with
  | none => rfl
  | some t => simp only [Option.map_some]; split <;> simp [test_hits]

theorem hitsAt_fired (i : Nat) (t : MT σ) (idx : Nat) (m : List (MT σ)) :
    hitsAt i (fired t idx m) = hitsAt i m := by
  unfold fired
  split
  · unfold hitsAt
    rw [retireAt_get]
    cases m[i]? with
    | none => rfl
    | some t => simp only [Option.map_some]; split <;> rfl
  · rfl

theorem hitsAt_append (i : Nat) (m : List (MT σ)) (t : MT σ) (h : i < m.length) :
    hitsAt i (m ++ [t]) = hitsAt i m := by
  unfold hitsAt
  rw [List.getElem?_append_left h]

theorem hitsAt_scan_none (i : Nat) (e : Event) (s : Nat) (en : Option Nat) (m m1 : List (MT σ))
    (h : scan e s en 0 m = (m1, none)) : hitsAt i m1 = hitsAt i m := by
  have := scan_none_get e s en 0 m (by rw [h]) i
  rw [h] at this
  unfold hitsAt
  simp only at this
  rw [this]
  cases m[i]? with
  | none => rfl
  | some t => simp only [Option.map_some]; split <;> simp [test_hits]

theorem hitsAt_scan_some (i : Nat) (e : Event) (s : Nat) (en : Option Nat) (m m1 : List (MT σ)) (idx : Nat)
    (h : scan e s en 0 m = (m1, some idx)) (hi : i < m.length) :
    hitsAt i m1 = hitsAt i m + (if idx = i then 1 else 0) := by
  obtain ⟨j, t, hj, ht, _, _, hlt, heq, hgt, _⟩ := scan_some_get e s en 0 m idx (by rw [h])
  rw [h] at hlt heq hgt
  simp only [Nat.zero_add] at hj hlt
  subst hj
  unfold hitsAt
  rcases Nat.lt_trichotomy i idx with h1 | h1 | h1
  · rw [hlt i h1]
    have : idx ≠ i := by omega
    simp only [this, ↓reduceIte, Nat.add_zero]
    cases m[i]? with
    | none => rfl
    | some t => simp only [Option.map_some]; split <;> simp [test_hits]
  · subst h1
    simp only at heq
    rw [heq, ht]
    simp [test_hits]
  · rw [hgt i h1]
    have : idx ≠ i := by omega
    simp [this]

/-- the counters never decrease -/
theorem run_hits_mono (i : Nat) : ∀ (f start : Nat) (end_ : Option Nat) (items : List (Item σ))
    (mts : List (MT σ)) (r : List (MT σ) × List Event), i < mts.length →
    run f start end_ items mts = some r → hitsAt i mts ≤ hitsAt i r.1 := by
  intro f
  induction f with
  | zero => intro start end_ items mts r _ h; simp [run] at h
  | succ f ih =>
    intro start end_ items mts r hi h
    cases items with
    | nil => simp [run] at h; subst h; exact Nat.le_refl _
    | cons it rest =>
      cases it with
      | reg t =>
        simp only [run] at h
        have := ih _ _ _ _ _ (by simp; omega) h
        rw [hitsAt_append i mts t hi] at this; exact this
      | ev e =>
        by_cases hS : isStart e = true
        · rcases run_start_cases hS h with ⟨mts1, p, hsc, hp, rfl⟩ |
            ⟨mts1, idx, t, inner, tail, rest', mts3, innerOut, mts4, out, p, hsc, ht, hst, h3, h4, h5, rfl⟩
          · have hl1 := scan_length e start end_ 0 mts; rw [hsc] at hl1
            have := ih _ _ _ _ _ (by simp only at hl1; omega) hp
            rw [hitsAt_scan_none i e start end_ mts mts1 hsc] at this
            exact this
          · have hl1 := scan_length e start end_ 0 mts; rw [hsc] at hl1
            simp only at hl1
            have e1 := hitsAt_scan_some i e start end_ mts mts1 idx hsc hi
            have hl2 : (fired t idx mts1).length = mts1.length := by
              unfold fired; split
              · exact retireAt_length idx mts1
              · rfl
            have e3 := ih _ _ _ _ _ (by omega) h3
            rw [hitsAt_fired] at e3
            have hl3 := run_length _ _ _ _ _ _ h3
            have e4 := ih _ _ _ _ _ (by simp only at hl3; omega) h4
            have hl4 := run_length _ _ _ _ _ _ h4
            have hl5 := updRange_length tail start (idx + 1) 0 mts4
            have e5 := ih _ _ _ _ _ (by simp only at hl3 hl4; omega) h5
            rw [hitsAt_updRange] at e5
            simp only at e3 e4 e5 ⊢
            omega
        · simp only [run, hS, Bool.false_eq_true, ↓reduceIte] at h
          by_cases hE : isEnd e = true
          · simp only [hE, ↓reduceIte] at h
            obtain ⟨q, hr, rfl⟩ := emit_some h
            have hl1 := scanEnd_length e start end_ 0 mts
            have := ih _ _ _ _ q (by omega) hr
            rw [hitsAt_scanEnd] at this
            exact this
          · simp only [hE, Bool.false_eq_true, ↓reduceIte] at h
            obtain ⟨q, hr, rfl⟩ := emit_some h
            exact ih _ _ _ _ q hi hr

end Genshi.Match

namespace Genshi.Match
open Genshi
variable {σ : Type}

theorem scan_rel (i : Nat) (b : Bool) (e : Event) (s : Nat) (en en' : Option Nat) (a c : List (MT σ))
    (h : PRel (Q i b) 0 a c) (hw : ∀ j, (b = false ∨ j ≠ i) → inWindow s en' j = inWindow s en j)
    (hne : b = true → (scan e s en 0 a).2 ≠ some i) :
    (scan e s en' 0 c).2 = (scan e s en 0 a).2 ∧ PRel (Q i b) 0 (scan e s en 0 a).1 (scan e s en' 0 c).1 := by
  rw [scan_eq_scanP, scan_eq_scanP]
  simp only
  cases b with
  | false =>
    have hfun : (fun p => inWindow s en' (0 + p)) = (fun p => inWindow s en (0 + p)) := by
      funext p; exact hw _ (Or.inl rfl)
    rw [hfun]
    obtain ⟨h1, h2⟩ := scanP_relA i e a c 0 (fun p => inWindow s en (0 + p)) h
    exact ⟨by rw [h1], h2⟩
  | true =>
    have hne' := hne rfl
    rw [scan_eq_scanP] at hne'
    simp only at hne'
    obtain ⟨h1, h2⟩ := scanP_relB i e a c 0 (fun p => inWindow s en (0 + p)) (fun p => inWindow s en' (0 + p)) h
      (by intro p hp; exact hw _ (Or.inr (by omega)))
      (by intro p hp heq; apply hne'; rw [hp]; simp; omega)
    exact ⟨by rw [h1], h2⟩

theorem inWindow_succ_of {s idx j : Nat} {en en' : Option Nat} (hs : s ≤ idx)
    (h : inWindow s en' j = inWindow s en j) : inWindow (idx + 1) en' j = inWindow (idx + 1) en j := by
  unfold inWindow at *
  by_cases hj : idx + 1 ≤ j
  · have : s ≤ j := by omega
    simp only [this, decide_true, Bool.true_and] at h
    simp only [hj, decide_true, Bool.true_and]
    exact h
  · simp [hj]

/-- **The simulation** between the run without `once` on slot `i` (left) and with it (right).
    `b` says whether the hinted template has already fired (then the right slot is retired and the
    left one must not fire again; the windows may differ at slot `i`). -/
theorem run_once (i : Nat) : ∀ (f s : Nat) (en en' : Option Nat) (items : List (Item σ)) (a c : List (MT σ))
    (r : List (MT σ) × List Event) (b : Bool),
    PRel (Q i b) 0 a c → i < a.length →
    (∀ j, (b = false ∨ j ≠ i) → inWindow s en' j = inWindow s en j) →
    run f s en items a = some r →
    hitsAt i r.1 ≤ hitsAt i a + (if b then 0 else 1) →
    ∃ c' b', run f s en' items c = some (c', r.2) ∧ PRel (Q i b') 0 r.1 c' ∧
      ((b' = b ∧ hitsAt i r.1 = hitsAt i a) ∨ (b = false ∧ b' = true ∧ hitsAt i r.1 = hitsAt i a + 1)) := by
  intro f
  induction f with
  | zero => intro s en en' items a c r b _ _ _ h; simp [run] at h
  | succ f ih =>
    intro s en en' items a c r b hrel hi hw h hbud
    have hlenc : c.length = a.length := hrel.length
    cases items with
    | nil =>
      simp [run] at h; subst h
      exact ⟨c, b, by simp [run], hrel, Or.inl ⟨rfl, rfl⟩⟩
    | cons it rest =>
      cases it with
      | reg t =>
        simp only [run] at h ⊢
        have hrel' : PRel (Q i b) 0 (a ++ [t]) (c ++ [t]) := by
          apply hrel.append
          refine PRel.cons ?_ (PRel.nil _)
          unfold Q
          have : ¬ a.length = i := by omega
          simp only [Nat.zero_add, this, ↓reduceIte]
        have hh := hitsAt_append i a t hi
        obtain ⟨c', b', h1, h2, h3⟩ := ih s en en' rest (a ++ [t]) (c ++ [t]) r b hrel' (by simp; omega) hw h
          (by rw [hh]; exact hbud)
        rw [hh] at h3
        exact ⟨c', b', h1, h2, h3⟩
      | ev e =>
        by_cases hS : isStart e = true
        · rcases run_start_cases hS h with ⟨a1, p, hsc, hp, rfl⟩ |
            ⟨a1, idx, t, inner, tail, rest', a3, innerOut, a4, out, p, hsc, ht, hst, h3, h4, h5, rfl⟩
          · -- nothing fires on the left
            have hl1 := scan_length e s en 0 a; rw [hsc] at hl1; simp only at hl1
            have hh1 := hitsAt_scan_none i e s en a a1 hsc
            obtain ⟨hs1, hs2⟩ := scan_rel i b e s en en' a c hrel hw (by intro _; rw [hsc]; simp)
            rw [hsc] at hs1 hs2
            simp only at hs1 hs2
            obtain ⟨c', b', hr1, hr2, hr3⟩ := ih s en en' rest a1 _ p b hs2 (by omega) hw hp
              (by rw [hh1]; exact hbud)
            refine ⟨c', b', ?_, hr2, by rw [hh1] at hr3; exact hr3⟩
            generalize hsc' : scan e s en' 0 c = sc' at hs1 hs2 hr1
            obtain ⟨c1, hit'⟩ := sc'
            simp only at hs1 hs2 hr1
            subst hs1
            simp only [run, hS, ↓reduceIte, hsc', hr1, emit, Option.map_some]
          · -- template idx fires on the left
            have hl1 := scan_length e s en 0 a; rw [hsc] at hl1; simp only at hl1
            have hh1 := hitsAt_scan_some i e s en a a1 idx hsc hi
            have hl2 : (fired t idx a1).length = a1.length := by
              unfold fired; split
              · exact retireAt_length idx a1
              · rfl
            have hl3 := run_length _ _ _ _ _ _ h3
            have hl4 := run_length _ _ _ _ _ _ h4
            have hl5 := updRange_length tail s (idx + 1) 0 a4
            simp only at hl3 hl4
            have m3 := run_hits_mono i _ _ _ _ _ _ (show i < (fired t idx a1).length by omega) h3
            have m4 := run_hits_mono i _ _ _ _ _ _ (show i < a3.length by omega) h4
            have m5 := run_hits_mono i _ _ _ _ _ _ (show i < (updRange tail s (idx + 1) 0 a4).length by omega) h5
            rw [hitsAt_fired] at m3
            rw [hitsAt_updRange] at m5
            simp only at m3 m4 m5 hbud
            obtain ⟨hwin_idx, _, _⟩ := scan_first e s en a idx (by rw [hsc])
            have hs_le : s ≤ idx := ((inWindow_iff _ _ _).mp hwin_idx).1
            have hne : b = true → (scan e s en 0 a).2 ≠ some i := by
              intro hb; rw [hsc]; simp only [ne_eq, Option.some.injEq]
              intro hidx
              simp only [hb, ↓reduceIte, Nat.add_zero] at hbud
              simp only [hidx, ↓reduceIte] at hh1
              omega
            obtain ⟨hs1, hs2⟩ := scan_rel i b e s en en' a c hrel hw hne
            rw [hsc] at hs1 hs2
            simp only at hs1 hs2
            generalize hsc' : scan e s en' 0 c = sc' at hs1 hs2
            obtain ⟨c1, hit'⟩ := sc'
            simp only at hs1 hs2
            subst hs1
            obtain ⟨t', ht', hq⟩ := hs2.get idx t ht
            simp only [Nat.zero_add] at hq
            by_cases hidx : idx = i
            · -- the hinted template itself fires: b must be false
              have hbf : b = false := by
                cases b with
                | false => rfl
                | true => exact absurd (by rw [hsc, hidx]) (hne rfl)
              subst hbf
              subst hidx
              unfold Q at hq
              simp only [↓reduceIte, Bool.false_eq_true] at hq
              obtain ⟨hto, htr, ht'eq⟩ := hq
              simp only [↓reduceIte, Bool.false_eq_true] at hbud hh1
              -- right side: retire
              have hfired_l : fired t idx a1 = a1 := by unfold fired; simp [hto]
              have hfired_r : fired t' idx c1 = retireAt idx c1 := by unfold fired; simp [ht'eq, onceAt]
              have hrel2 : PRel (Q idx true) 0 (fired t idx a1) (fired t' idx c1) := by
                rw [hfired_l, hfired_r]; exact retireAt_fire idx a1 c1 0 idx hs2 (by omega)
              have hpe' : preEnd t' idx = idx + 1 := by unfold preEnd; simp [ht'eq, onceAt]
              have hpe := preEnd_le t idx
              -- inner: windows differ at most at slot idx
              obtain ⟨c3, b3, hr3, hrel3, hd3⟩ := ih s (some (preEnd t idx)) (some (preEnd t' idx)) inner _ _ (a3, innerOut) true
                hrel2 (by omega)
                (by intro j hj
                    rcases hj with hj | hj
                    · cases hj
                    · rw [hpe']; unfold inWindow
                      congr 1
                      apply decide_eq_decide.mpr
                      omega)
                h3 (by rw [hitsAt_fired]; simp only [↓reduceIte, Nat.add_zero]; omega)
              have hb3 : b3 = true := by rcases hd3 with ⟨h1, _⟩ | ⟨h1, _⟩ <;> simp_all
              subst hb3
              have hd3' : hitsAt idx a3 = hitsAt idx a1 := by
                rcases hd3 with ⟨_, h2⟩ | ⟨h1, _⟩
                · rw [hitsAt_fired] at h2; exact h2
                · cases h1
              have hbody : t'.body = t.body := by rw [ht'eq]; rfl
              obtain ⟨c4, b4, hr4, hrel4, hd4⟩ := ih (idx + 1) en en' _ a3 c3 (a4, out) true hrel3 (by omega)
                (by intro j hj; exact inWindow_succ_of hs_le (hw j (Or.inl rfl)))
                h4 (by simp only [↓reduceIte, Nat.add_zero]; omega)
              have hb4 : b4 = true := by rcases hd4 with ⟨h1, _⟩ | ⟨h1, _⟩ <;> simp_all
              subst hb4
              have hd4' : hitsAt idx a4 = hitsAt idx a3 := by
                rcases hd4 with ⟨_, h2⟩ | ⟨h1, _⟩
                · exact h2
                · cases h1
              have hrel5 : PRel (Q idx true) 0 (updRange tail s (idx + 1) 0 a4) (updRange tail s (idx + 1) 0 c4) := by
                rw [updRange_eq_mapW, updRange_eq_mapW]
                exact mapW_rel idx true tail true a4 c4 0 _ _ hrel4 (by intro p _; rfl)
              obtain ⟨c6, b6, hr6, hrel6, hd6⟩ := ih s en en' rest' _ _ p true hrel5 (by omega)
                (by intro j hj; exact hw j (Or.inl rfl))
                h5 (by rw [hitsAt_updRange]; simp only [↓reduceIte, Nat.add_zero]; omega)
              have hb6 : b6 = true := by rcases hd6 with ⟨h1, _⟩ | ⟨h1, _⟩ <;> simp_all
              subst hb6
              have hd6' : hitsAt idx p.1 = hitsAt idx a4 := by
                rcases hd6 with ⟨_, h2⟩ | ⟨h1, _⟩
                · rw [hitsAt_updRange] at h2; exact h2
                · cases h1
              refine ⟨c6, true, ?_, hrel6, Or.inr ⟨rfl, rfl, by simp only; omega⟩⟩
              simp only [run, hS, ↓reduceIte, hsc', ht', hst, hr3, hbody,
                hr4, hr6, Option.map_some]
            · -- another template fires: the same on both sides
              unfold Q at hq
              simp only [hidx, ↓reduceIte] at hq
              rw [hq] at ht'
              simp only [hidx, ↓reduceIte, Nat.add_zero] at hh1
              have hrel2 : PRel (Q i b) 0 (fired t idx a1) (fired t idx c1) := by
                unfold fired; split
                · exact retireAt_rel i b a1 c1 0 idx hs2 (by omega)
                · exact hs2
              obtain ⟨c3, b3, hr3, hrel3, hd3⟩ := ih s (some (preEnd t idx)) (some (preEnd t idx)) inner _ _ (a3, innerOut) b
                hrel2 (by omega) (by intro j _; rfl) h3 (by rw [hitsAt_fired]; simp only; omega)
              rw [hitsAt_fired] at hd3
              simp only at hd3
              have hbb3 : b3 = false → b = false := by
                intro h0; rcases hd3 with ⟨h1, _⟩ | ⟨_, h1, _⟩
                · rw [← h1]; exact h0
                · rw [h1] at h0; cases h0
              have hbud4 : hitsAt i a4 ≤ hitsAt i a3 + (if b3 = true then 0 else 1) := by
                rcases hd3 with ⟨h1, h2⟩ | ⟨h0, h1, h2⟩
                · rw [h1]; omega
                · rw [h0] at hbud; rw [h1]
                  simp only [Bool.false_eq_true, ↓reduceIte] at hbud ⊢
                  omega
              obtain ⟨c4, b4, hr4, hrel4, hd4⟩ := ih (idx + 1) en en' _ a3 c3 (a4, out) b3 hrel3 (by omega)
                (by intro j hj
                    apply inWindow_succ_of hs_le
                    apply hw
                    rcases hj with hj | hj
                    · exact Or.inl (hbb3 hj)
                    · exact Or.inr hj)
                h4 hbud4
              simp only at hd4
              have hbb4 : b4 = false → b = false := by
                intro h0; rcases hd4 with ⟨h1, _⟩ | ⟨_, h1, _⟩
                · exact hbb3 (by rw [← h1]; exact h0)
                · rw [h1] at h0; cases h0
              have hrel5 : PRel (Q i b4) 0 (updRange tail s (idx + 1) 0 a4) (updRange tail s (idx + 1) 0 c4) := by
                rw [updRange_eq_mapW, updRange_eq_mapW]
                exact mapW_rel i b4 tail true a4 c4 0 _ _ hrel4 (by intro p _; rfl)
              have hbud6 : hitsAt i p.1 ≤ hitsAt i a4 + (if b4 = true then 0 else 1) := by
                rcases hd3 with ⟨h1, h2⟩ | ⟨h0, h1, h2⟩ <;> rcases hd4 with ⟨g1, g2⟩ | ⟨g0, g1, g2⟩
                · rw [g1, h1]; omega
                · rw [h1] at g0; rw [g0] at hbud; rw [g1]
                  simp only [Bool.false_eq_true, ↓reduceIte] at hbud ⊢
                  omega
                · rw [h0] at hbud; rw [g1, h1]
                  simp only [Bool.false_eq_true, ↓reduceIte] at hbud ⊢
                  omega
                · rw [h1] at g0; cases g0
              obtain ⟨c6, b6, hr6, hrel6, hd6⟩ := ih s en en' rest' _ _ p b4 hrel5 (by omega)
                (by intro j hj
                    apply hw
                    rcases hj with hj | hj
                    · exact Or.inl (hbb4 hj)
                    · exact Or.inr hj)
                h5 (by rw [hitsAt_updRange]; exact hbud6)
              rw [hitsAt_updRange] at hd6
              refine ⟨c6, b6, ?_, hrel6, ?_⟩
              · simp only [run, hS, ↓reduceIte, hsc', ht', hst, hr3,
                  hr4, hr6, Option.map_some]
              · simp only
                rcases hd3 with ⟨h1, h2⟩ | ⟨h0, h1, h2⟩ <;> rcases hd4 with ⟨g1, g2⟩ | ⟨g0, g1, g2⟩ <;>
                  rcases hd6 with ⟨k1, k2⟩ | ⟨k0, k1, k2⟩
                · exact Or.inl ⟨by rw [k1, g1, h1], by omega⟩
                · exact Or.inr ⟨by rw [← h1, ← g1]; exact k0, k1, by omega⟩
                · exact Or.inr ⟨by rw [← h1]; exact g0, by rw [k1]; exact g1, by omega⟩
                · rw [g1] at k0; cases k0
                · exact Or.inr ⟨h0, by rw [k1, g1]; exact h1, by omega⟩
                · rw [g1, h1] at k0; cases k0
                · rw [h1] at g0; cases g0
                · rw [h1] at g0; cases g0
        · by_cases hE : isEnd e = true
          · simp only [run, hS, Bool.false_eq_true, ↓reduceIte, hE] at h ⊢
            obtain ⟨q, hr, rfl⟩ := emit_some h
            have hl1 := scanEnd_length e s en 0 a
            have hrel1 : PRel (Q i b) 0 (scanEnd e s en 0 a) (scanEnd e s en' 0 c) := by
              rw [scanEnd_eq_mapW, scanEnd_eq_mapW]
              exact mapW_rel i b e false a c 0 _ _ hrel (by intro p hp; simp only [Nat.zero_add]; exact hw p (by simpa using hp))
            obtain ⟨c', b', hr1, hr2, hr3⟩ := ih s en en' rest _ _ q b hrel1 (by omega) hw hr
              (by rw [hitsAt_scanEnd]; exact hbud)
            rw [hitsAt_scanEnd] at hr3
            exact ⟨c', b', by rw [hr1]; simp [emit], hr2, hr3⟩
          · simp only [run, hS, Bool.false_eq_true, ↓reduceIte, hE] at h ⊢
            obtain ⟨q, hr, rfl⟩ := emit_some h
            obtain ⟨c', b', hr1, hr2, hr3⟩ := ih s en en' rest a c q b hrel hi hw hr hbud
            exact ⟨c', b', by rw [hr1]; simp [emit], hr2, hr3⟩

end Genshi.Match

namespace Genshi.Match
open Genshi
variable {σ : Type}

theorem prel_refl_off (i : Nat) (b : Bool) : ∀ (m : List (MT σ)) (k : Nat), i < k → PRel (Q i b) k m m := by
  intro m
  induction m with
  | nil => intro k _; exact PRel.nil _
  | cons t ts ih =>
    intro k hk
    refine PRel.cons ?_ (ih (k + 1) (by omega))
    unfold Q
    have : k ≠ i := by omega
    simp [this]

/-- the list with the hint set on slot `i` is related to the list without it -/
theorem prel_set : ∀ (m : List (MT σ)) (k j : Nat) (t : MT σ), m[j]? = some t → t.once = false → t.retired = false →
    PRel (Q (k + j) false) k m (m.set j (onceAt t)) := by
  intro m
  induction m with
  | nil => intro k j t h; simp at h
  | cons x xs ih =>
    intro k j t h ho hr
    cases j with
    | zero =>
      simp only [List.getElem?_cons_zero, Option.some.injEq] at h
      subst h
      simp only [List.set_cons_zero, Nat.add_zero]
      refine PRel.cons ?_ (prel_refl_off k false xs (k + 1) (by omega))
      unfold Q
      simp [ho, hr]
    | succ j =>
      simp only [List.getElem?_cons_succ] at h
      simp only [List.set_cons_succ]
      refine PRel.cons ?_ ?_
      · unfold Q
        have : k ≠ k + (j + 1) := by omega
        simp [this]
      · have := ih (k + 1) j t h ho hr
        rw [show k + 1 + j = k + (j + 1) by omega] at this
        exact this

end Genshi.Match

/-
  C04: `interpolate` on a run of any number of pieces (literal text, `${…}`), the generalisation of
  `lex_expr` / `parseNew_expr` (one expression) that the inversion theorem of the text-template
  reader needs; and: `unmodelled` (the domain test of the C03 lexer model) is inherited by infixes.
-/
import Genshi.Lemmas.TmplScanText
namespace Genshi.Tmpl.Scan
open Genshi.Py.Lex (Scannable lexGo lex flush lexGo_text lexGo_expr lexGo_end textChunk unmodelled)

/-- source of a run of pieces: `(false, t)` literal text, `(true, s)` an expression `${s}` -/
def segSrc : List (Bool × Str) → Str
  | [] => []
  | (false, t) :: r => t ++ segSrc r
  | (true, s) :: r => '$' :: '{' :: (s ++ '}' :: segSrc r)

def pieceEv : Bool × Str → SEv
  | (false, t) => .text t
  | (true, s) => .expr s

/-- texts non-empty and `$`-free, never two texts in a row; expression sources scannable,
    non-empty and without blanks at their ends -/
def SegOK : List (Bool × Str) → Prop
  | [] => True
  | (false, t) :: r => t ≠ [] ∧ (∀ c ∈ t, c ≠ '$') ∧ (∀ p, r.head? = some p → p.1 = true) ∧ SegOK r
  | (true, s) :: r => Scannable s ∧ s ≠ [] ∧ Genshi.Py.Lex.stripAscii s = s ∧ SegOK r

theorem flush_rev (lit : Str) (out : List (Bool × Str)) :
    (flush lit out).reverse = out.reverse ++ textChunk lit.reverse := by
  cases lit <;> simp [flush, textChunk]

theorem lexGo_seg : ∀ (ps : List (Bool × Str)) (lit : Str) (out : List (Bool × Str)) (fuel : Nat), SegOK ps →
    (lit ≠ [] → ∀ p, ps.head? = some p → p.1 = true) → (segSrc ps).length + 1 ≤ fuel →
    lexGo fuel lit out (segSrc ps) = .ok (out.reverse ++ textChunk lit.reverse ++ ps)
  | [], lit, out, fuel, _, _, hf => by
      obtain ⟨f, rfl⟩ : ∃ f, fuel = f + 1 := ⟨fuel - 1, by simp [segSrc] at hf; omega⟩
      simp [segSrc, lexGo_end, flush_rev]
  | (false, t) :: r, lit, out, fuel, h, hl, hf => by
      obtain ⟨ht, hd, hh, hr⟩ := h
      have hlit : lit = [] := by
        cases lit with
        | nil => rfl
        | cons x l => exact absurd (hl (by simp) (false, t) rfl) (by simp)
      subst hlit
      simp only [segSrc, List.length_append] at hf ⊢
      rw [lexGo_text t hd fuel [] out (segSrc r) (by omega)]
      rw [lexGo_seg r (t.reverse ++ []) out (fuel - t.length) hr (fun _ => hh) (by omega)]
      cases t with
      | nil => exact absurd rfl ht
      | cons c t' => simp [textChunk]
  | (true, s) :: r, lit, out, fuel, h, _, hf => by
      obtain ⟨hs, _, _, hr⟩ := h
      obtain ⟨f, rfl⟩ : ∃ f, fuel = f + 1 := ⟨fuel - 1, by simp [segSrc] at hf; omega⟩
      simp only [segSrc, List.length_cons, List.length_append] at hf ⊢
      rw [lexGo_expr f lit out s (segSrc r) hs]
      rw [lexGo_seg r [] _ f hr (by simp) (by omega)]
      simp [flush_rev, textChunk]

/-- **`lex` on any number of pieces**: the chunks are the pieces -/
theorem lex_seg (ps : List (Bool × Str)) (h : SegOK ps) : lex (segSrc ps) = .ok ps := by
  unfold lex
  rw [lexGo_seg ps [] [] _ h (by simp) (Nat.le_refl _)]
  simp [textChunk]

theorem interpGo_seg : ∀ (ps : List (Bool × Str)) (buf : Str), SegOK ps →
    (buf ≠ [] → ∀ p, ps.head? = some p → p.1 = true) →
    interpGo buf ps = flushBuf buf ++ ps.map pieceEv
  | [], buf, _, _ => by simp [interpGo]
  | (false, t) :: r, buf, h, hb => by
      obtain ⟨ht, _, hh, hr⟩ := h
      have hbuf : buf = [] := by
        cases buf with
        | nil => rfl
        | cons x l => exact absurd (hb (by simp) (false, t) rfl) (by simp)
      subst hbuf
      simp only [interpGo, List.nil_append]
      rw [interpGo_seg r t hr (fun _ => hh)]
      cases t with
      | nil => exact absurd rfl ht
      | cons c t' => simp [flushBuf, pieceEv]
  | (true, s) :: r, buf, h, _ => by
      obtain ⟨_, hne, hst, hr⟩ := h
      simp only [interpGo]
      rw [interpGo_seg r [] hr (by simp)]
      cases s with
      | nil => exact absurd rfl hne
      | cons c s' => simp [flushBuf, pieceEv, hst]

/-- **`interpolate` on any number of pieces** -/
theorem interpolate_seg (ps : List (Bool × Str)) (h : SegOK ps) (hm : unmodelled (segSrc ps) = false) :
    interpolate (segSrc ps) = .ok (ps.map pieceEv) := by
  unfold interpolate
  rw [hm, lex_seg ps h]
  simp only [Bool.and_false, Bool.false_eq_true, if_false]
  rw [interpGo_seg ps [] h (by simp)]
  simp [flushBuf]

/-! ### `unmodelled` looks at most two characters ahead -/

/-- the window of `unmodelled` at one position -/
def win (c : Char) (r : Str) : Bool :=
  match c, r with
  | '\'', '\'' :: '\'' :: _ => true
  | '"', '"' :: '"' :: _ => true
  | '\\', '\n' :: _ => true
  | '\\', '\r' :: _ => true
  | _, _ => false

theorem unmodelled_cons (c : Char) (r : Str) :
    unmodelled (c :: r) = (decide (c.toNat ≥ 128) || win c r || unmodelled r) := by
  rfl

theorem win_prefix (c : Char) (a b : Str) (h : win c (a ++ b) = false) : win c a = false := by
  match a with
  | [] => unfold win; split <;> simp_all
  | [d] =>
    unfold win at h ⊢
    split <;> simp_all
  | d :: e :: a' =>
    simp only [List.cons_append] at h
    unfold win at h ⊢
    split <;> simp_all

theorem unmodelled_append_right : ∀ (a b : Str), unmodelled (a ++ b) = false → unmodelled b = false
  | [], _, h => h
  | c :: a, b, h => by
      rw [List.cons_append, unmodelled_cons] at h
      simp only [Bool.or_eq_false_iff] at h
      exact unmodelled_append_right a b h.2

theorem unmodelled_append_left : ∀ (a b : Str), unmodelled (a ++ b) = false → unmodelled a = false
  | [], _, _ => rfl
  | c :: a, b, h => by
      rw [List.cons_append, unmodelled_cons] at h
      simp only [Bool.or_eq_false_iff] at h
      rw [unmodelled_cons]
      simp only [Bool.or_eq_false_iff]
      exact ⟨⟨h.1.1, win_prefix c a b h.1.2⟩, unmodelled_append_left a b h.2⟩

theorem unmodelled_infix (a b c : Str) (h : unmodelled (a ++ (b ++ c)) = false) : unmodelled b = false :=
  unmodelled_append_left b c (unmodelled_append_right a _ h)

end Genshi.Tmpl.Scan

/-
  C04: the reverse simulation — whatever the implementation model renders for a
  well-formed template, the documentation semantics defines, identically.
-/
import Genshi.Lemmas.TmplSimMain
import Genshi.Lemmas.TmplDocRules
namespace Genshi.Tmpl

theorem getMacro_sim_rev {d : DSt} {st : St} (h : SimG d st) {v : Val} {m : Macro}
    (hm : getMacro st v = .ok m) : ∃ dm, getDMacro d v = .ok dm ∧ MacroSim dm m := by
  cases v with
  | «macro» i =>
    simp only [getMacro] at hm
    cases hmi : st.macros[i]? with
    | none => simp [hmi] at hm
    | some m' =>
      simp only [hmi, Except.ok.injEq] at hm
      subst hm
      have hlt : i < d.macros.length := by
        rw [h.mlen]; exact (List.getElem?_eq_some_iff.1 hmi).1
      refine ⟨d.macros[i], ?_, h.macros i d.macros[i] m' (List.getElem?_eq_getElem hlt) hmi⟩
      simp [getDMacro, List.getElem?_eq_getElem hlt]
  | atom a => simp [getMacro] at hm
  | list xs => simp [getMacro] at hm
  | dict kv => simp [getMacro] at hm
  | undef => simp [getMacro] at hm

theorem run_pos {m : Nat} {t : ITask} {st : St} {r : List Event × St} (h : run m t st = .ok r) :
    ∃ k, m = k + 1 := by
  cases m with
  | zero => simp [run] at h
  | succ k => exact ⟨k, rfl⟩

/-- splitting a flattened concatenation keeps the fuel -/
theorem flat_append_split {a b : List CEv} : ∀ {m : Nat} {st s2 : St} {o : List Event},
    run m (.flat (a ++ b)) st = .ok (o, s2) →
    ∃ o1 s1 o2, run m (.flat a) st = .ok (o1, s1) ∧ run m (.flat b) s1 = .ok (o2, s2) ∧ o = o1 ++ o2 := by
  induction a with
  | nil =>
    intro m st s2 o h
    obtain ⟨k, rfl⟩ := run_pos h
    exact ⟨[], st, o, rfl, by simpa using h, rfl⟩
  | cons e a ih =>
    intro m st s2 o h
    obtain ⟨k, rfl⟩ := run_pos h
    simp only [List.cons_append, run, seq_ok] at h
    obtain ⟨o1, s1, o2, h1, h2, rfl⟩ := h
    obtain ⟨p1, t1, p2, h3, h4, rfl⟩ := ih h2
    refine ⟨o1 ++ p1, t1, p2, ?_, IOk.lift h4 (Nat.le_succ k), by simp [List.append_assoc]⟩
    simp only [run, seq_ok]
    exact ⟨o1, s1, p1, h1, h3, rfl⟩

theorem flat_single_inv {e : CEv} {m : Nat} {st s1 : St} {o : List Event}
    (h : run (m + 1) (.flat [e]) st = .ok (o, s1)) : run m (.ev e) st = .ok (o, s1) := by
  simp only [run, seq_ok] at h
  obtain ⟨o1, t1, o2, h1, h2, rfl⟩ := h
  obtain ⟨k, rfl⟩ := run_pos h2
  simp only [run, Except.ok.injEq, Prod.mk.injEq] at h2
  obtain ⟨rfl, rfl⟩ := h2
  simpa using h1

/-- the sub-stream `py:replace` leaves is never rewritten again -/
theorem attach_xexpr_snd (x : XExpr) (ds : List Dir) (hr : ∀ d ∈ ds, 8 < d.rank) :
    (attach ds [.xexpr x]).2 = [.xexpr x] := by
  induction ds with
  | nil => rfl
  | cons d ds ih =>
    have hd := hr d (List.mem_cons_self ..)
    have ih' := ih (fun y hy => hr y (List.mem_cons_of_mem _ hy))
    cases d <;> simp [Dir.rank] at hd <;> simp [attach, ih']

def RevQ (m : Nat) (T : DTask) : Prop :=
  ∀ (loc : Env) (d : DSt) (st : St) (o : List Event) (st' : St),
    run m (taskOf T) st = .ok (o, st') → TaskWF T → loc = st.scopes.flatten → SimG d st →
    BindsPre T st → ∃ d', DOk T loc d o d' ∧ SimG d' st'

theorem ev_start_inv {t a} {m : Nat} {st s1 : St} {o : List Event}
    (h : run m (.ev (.start t a)) st = .ok (o, s1)) : o = [startEv t a] ∧ s1 = st := by
  obtain ⟨k, rfl⟩ := run_pos h
  simp only [run, Except.ok.injEq, Prod.mk.injEq] at h
  exact ⟨h.1.symm, h.2.symm⟩

theorem ev_end_inv {t} {m : Nat} {st s1 : St} {o : List Event}
    (h : run m (.ev (.end_ t)) st = .ok (o, s1)) : o = [endEv t] ∧ s1 = st := by
  obtain ⟨k, rfl⟩ := run_pos h
  simp only [run, Except.ok.injEq, Prod.mk.injEq] at h
  exact ⟨h.1.symm, h.2.symm⟩

/-- rendering the body of a target with no directive left (`dirs [] t`), from the flat stream -/
theorem revF (m : Nat) (ih : ∀ k, k < m → ∀ T, RevQ k T) :
    ∀ k, k < m → ∀ (t : Target) (loc : Env) (d : DSt) (st : St) (o : List Event) (st' : St),
      run k (.flat (targetBody t)) st = .ok (o, st') → wfNodes t.kids = true →
      loc = st.scopes.flatten → SimG d st → ∃ d', DOk (.dirs [] t) loc d o d' ∧ SimG d' st' := by
  intro k hk t loc d st o st' h hwf hl hg
  cases t with
  | frag kids =>
    obtain ⟨d', h1, g1⟩ := ih k hk (.nodes kids) loc d st o st' h hwf hl hg trivial
    exact ⟨d', DOk.dirs_nil_frag h1, g1⟩
  | elem tag attrs kids =>
    obtain ⟨j, rfl⟩ := run_pos h
    simp only [targetBody, run, seq_ok] at h
    obtain ⟨o1, s1, o2, h1, h2, rfl⟩ := h
    obtain ⟨rfl, rfl⟩ := ev_start_inv h1
    obtain ⟨p1, t1, p2, h3, h4, rfl⟩ := flat_append_split h2
    have hs1 : t1.scopes = s1.scopes := run_scopes j _ _ _ _ h3
    obtain ⟨d1, h5, g1⟩ := ih j (by omega) (.nodes kids) loc d s1 p1 t1 h3 hwf hl hg trivial
    obtain ⟨i, rfl⟩ := run_pos h4
    obtain ⟨rfl, rfl⟩ := ev_end_inv (flat_single_inv h4)
    exact ⟨d1, by simpa using DOk.dirs_nil_elem h5, g1⟩

/-- after `py:replace` the remaining directives pass the single EXPR event through -/
theorem passthrough_inv {x : XExpr} : ∀ (D : List Dir), StrictSorted D → (∀ d ∈ D, 8 < d.rank) →
    ∀ {k : Nat} {st st' : St} {o : List Event},
    run (k + 1) (.apply (attach D [.xexpr x]).1 [.xexpr x]) st = .ok (o, st') →
    ∃ j, j ≤ k ∧ run j (.ev (.xexpr x)) st = .ok (o, st') := by
  have hflat : ∀ {k : Nat} {st st' : St} {o : List Event},
      run k (.flat [.xexpr x]) st = .ok (o, st') → ∃ j, j ≤ k ∧ run j (.ev (.xexpr x)) st = .ok (o, st') := by
    intro k st st' o h
    obtain ⟨i, rfl⟩ := run_pos h
    exact ⟨i, by omega, flat_single_inv h⟩
  intro D
  induction D with
  | nil =>
    intro _ _ k st st' o h
    simp only [attach, run] at h
    obtain ⟨j, hj, h2⟩ := hflat h
    exact ⟨j, hj, h2⟩
  | cons dd D ih =>
    intro hs hr k st st' o h
    have hd := hr dd (List.mem_cons_self ..)
    cases dd <;> simp [Dir.rank] at hd
    · -- content
      simp only [attach] at h
      exact ih hs.tail (fun y hy => hr y (List.mem_cons_of_mem _ hy)) h
    · -- attrs
      rcases sorted_after_attrs hs with rfl | ⟨c, rfl⟩
      · simp only [attach, run, attrsHead, bind, Except.bind] at h
        obtain ⟨j, hj, h2⟩ := hflat h
        exact ⟨j, by omega, h2⟩
      · simp only [attach, run, attrsHead, stripBody, bind, Except.bind] at h
        obtain ⟨j, hj, h2⟩ := hflat h
        exact ⟨j, by omega, h2⟩
    · -- strip
      rw [sorted_after_strip hs] at h
      simp only [attach, run, stripBody, bind, Except.bind] at h
      obtain ⟨j, hj, h2⟩ := hflat h
      exact ⟨j, by omega, h2⟩

theorem body_ne_nil (ks : List CEv) (e : CEv) : ks ++ [e] ≠ [] := by simp

theorem revDirs (m : Nat) (ih : ∀ k, k < m → ∀ T, RevQ k T) :
    ∀ (D : List Dir) (t : Target), RevQ m (.dirs D t) := by
  intro D
  induction D with
  | nil =>
    intro t loc d st o st' h hwf hl hg _
    have hdw : DirsWF [] t := hwf
    obtain ⟨k, rfl⟩ := run_pos h
    simp only [taskOf, attach, run] at h
    exact revF (k + 1) ih k (by omega) t loc d st o st' h hdw.wf hl hg
  | cons dd D ihD =>
    intro t loc d st o st' h hwf hl hg _
    have hdw : DirsWF (dd :: D) t := hwf
    have hdt : DirsWF D t := hdw.tail
    have hlook := look_sim hl hg.glob
    obtain ⟨k, rfl⟩ := run_pos h
    have hk : k < k + 1 := Nat.lt_succ_self k
    cases dd with
    | def_ name params =>
      simp only [taskOf, attach_keep (.def_ name params) D _ (by simp [Dir.rank]), run, Except.ok.injEq,
        Prod.mk.injEq] at h
      obtain ⟨rfl, rfl⟩ := h
      exact ⟨_, DOk.def_ name params D t loc d, hg.define name params D t hdt⟩
    | when e =>
      simp only [taskOf, attach_keep (.when e) D _ (by simp [Dir.rank]), run] at h
      cases hcs : st.choice with
      | nil => simp [hcs] at h
      | cons c cs =>
        simp only [hcs] at h
        have hch : d.ch = some c := by rw [hg.ch, hcs]; rfl
        cases hm : c.matched with
        | true =>
          simp only [hm, if_true, Except.ok.injEq, Prod.mk.injEq] at h
          obtain ⟨rfl, rfl⟩ := h
          exact ⟨d, DOk.when_done hch hm, hg⟩
        | false =>
          simp only [hm, Bool.false_eq_true, if_false] at h
          split at h
          · simp at h
          · simp only [bind_ok] at h
            obtain ⟨mm, hmm, h2⟩ := h
            rw [← hlook] at hmm
            cases mm with
            | true =>
              simp only [if_true] at h2
              obtain ⟨d', h3, g⟩ := ih k hk (.dirs D t) loc (d.setMatched c true) (st.setMatched c cs true)
                o st' h2 hdt (by simpa [St.setMatched] using hl) (hg.setMatched c cs true) trivial
              exact ⟨d', DOk.when_hit hch hm hmm h3, g⟩
            | false =>
              simp only [Bool.false_eq_true, if_false, pure, Except.pure, Except.ok.injEq, Prod.mk.injEq] at h2
              obtain ⟨rfl, rfl⟩ := h2
              exact ⟨_, DOk.when_miss hch hm hmm, hg.setMatched c cs false⟩
    | otherwise =>
      simp only [taskOf, attach_keep .otherwise D _ (by simp [Dir.rank]), run] at h
      cases hcs : st.choice with
      | nil => simp [hcs] at h
      | cons c cs =>
        simp only [hcs] at h
        have hch : d.ch = some c := by rw [hg.ch, hcs]; rfl
        cases hm : c.matched with
        | true =>
          simp only [hm, if_true, Except.ok.injEq, Prod.mk.injEq] at h
          obtain ⟨rfl, rfl⟩ := h
          exact ⟨d, DOk.otherwise_done hch hm, hg⟩
        | false =>
          simp only [hm, Bool.false_eq_true, if_false] at h
          obtain ⟨d', h3, g⟩ := ih k hk (.dirs D t) loc (d.setMatched c true) (st.setMatched c cs true)
            o st' h hdt (by simpa [St.setMatched] using hl) (hg.setMatched c cs true) trivial
          exact ⟨d', DOk.otherwise_hit hch hm h3, g⟩
    | for_ v e =>
      simp only [taskOf, attach_keep (.for_ v e) D _ (by simp [Dir.rank]), run, bind_ok] at h
      obtain ⟨it, hit, items, hitems, h2⟩ := h
      rw [← hlook] at hit
      obtain ⟨d', h3, g⟩ := ih k hk (.loop v items D t) loc d st o st' h2 hdt hl hg trivial
      exact ⟨d', DOk.for_ hit hitems h3, g⟩
    | if_ e =>
      simp only [taskOf, attach_keep (.if_ e) D _ (by simp [Dir.rank]), run, bind_ok] at h
      obtain ⟨v, hv, h2⟩ := h
      rw [← hlook] at hv
      cases ht : v.truthy with
      | true =>
        simp only [ht, if_true] at h2
        obtain ⟨d', h3, g⟩ := ih k hk (.dirs D t) loc d st o st' h2 hdt hl hg trivial
        exact ⟨d', DOk.if_true hv ht h3, g⟩
      | false =>
        simp only [ht, Bool.false_eq_true, if_false, pure, Except.pure, Except.ok.injEq, Prod.mk.injEq] at h2
        obtain ⟨rfl, rfl⟩ := h2
        exact ⟨d, DOk.if_false hv ht, hg⟩
    | choose e =>
      simp only [taskOf, attach_keep (.choose e) D _ (by simp [Dir.rank]), run, bind_ok, mapSt_ok] at h
      obtain ⟨v, hv, s1, h2, rfl⟩ := h
      rw [← hlook] at hv
      have hg0 : SimG { d with ch := some ⟨false, e.isSome, v⟩ }
          { st with choice := ⟨false, e.isSome, v⟩ :: st.choice } := ⟨hg.glob, rfl, hg.mlen, hg.macros⟩
      obtain ⟨d1, h3, g1⟩ := ih k hk (.dirs D t) loc _ _ o s1 h2 hdt hl hg0 trivial
      have htail : s1.choice.tail = st.choice := by
        rcases (run_inv k _ _ _ _ h2).1 with h3 | ⟨c, cs, h3, _, h4⟩
        · rw [h3]; rfl
        · simp only [List.cons.injEq] at h3
          rw [h4, List.tail_cons, h3.2]
      refine ⟨{ d1 with ch := d.ch }, DOk.choose hv h3, ⟨g1.glob, ?_, g1.mlen, g1.macros⟩⟩
      simp only [St.popChoice, htail]; exact hg.ch
    | with_ bs =>
      simp only [taskOf, attach_keep (.with_ bs) D _ (by simp [Dir.rank]), run, mapSt_ok] at h
      obtain ⟨s1, h2, rfl⟩ := h
      obtain ⟨d', h3, g⟩ := ih k hk (.binds bs D t) loc d (st.push []) o s1 h2 hdt
        (by simp [St.push, hl]) (hg.of_same rfl rfl rfl) (by simp [BindsPre, St.push])
      exact ⟨d', DOk.with_ h3, g.of_same rfl rfl rfl⟩
    | replace x =>
      have hr : ∀ y ∈ D, 8 < y.rank := fun y hy => by simpa [Dir.rank] using hdw.sorted.head_lt y hy
      simp only [taskOf, attach] at h
      rw [attach_xexpr_snd x D hr] at h
      obtain ⟨j, hj, h2⟩ := passthrough_inv D hdt.sorted hr h
      obtain ⟨d', h3, g⟩ := ih j (by omega) (.xexpr x) loc d st o st' h2 trivial hl hg trivial
      exact ⟨d', DOk.replace h3, g⟩
    | content x =>
      cases t with
      | frag kids =>
        have := hdw.tok (.content x) (List.mem_cons_self ..)
        simp [Dir.elemOnly] at this
      | elem tag attrs kids =>
        have hdt' : DirsWF D (.elem tag attrs [.expr x]) :=
          ⟨hdt.sorted, trivial, by simp [Target.kids, wfNodes, wfNode]⟩
        have h' : run (k + 1) (taskOf (.dirs D (.elem tag attrs [.expr x]))) st = .ok (o, st') := by
          simp only [taskOf, targetBody, attach, getLast_body] at h ⊢
          simpa [compileNodes, compileNode] using h
        obtain ⟨d', h3, g⟩ := ihD (.elem tag attrs [.expr x]) loc d st o st' h' hdt' hl hg trivial
        exact ⟨d', DOk.content_elem h3, g⟩
    | attrs e =>
      cases t with
      | frag kids =>
        have := hdw.tok (.attrs e) (List.mem_cons_self ..)
        simp [Dir.elemOnly] at this
      | elem tag attrs kids =>
        rcases sorted_after_attrs hdw.sorted with rfl | ⟨c, rfl⟩
        · simp only [taskOf, attach, targetBody, run, attrsHead, bind_ok, pure, Except.pure,
            Except.ok.injEq] at h
          obtain ⟨b, ⟨v, hv, ps, hps, rfl⟩, h2⟩ := h
          rw [← hlook] at hv
          obtain ⟨d', h3, g⟩ := revF (k + 1) ih k hk (.elem tag (Genshi.Escape.Attrs.or attrs ps) kids)
            loc d st o st' h2 hdt.wf hl hg
          exact ⟨d', DOk.attrs_elem hv hps h3, g⟩
        · simp only [taskOf, attach, targetBody, run, attrsHead, bind_ok, pure, Except.pure,
            Except.ok.injEq] at h
          obtain ⟨b, ⟨v, hv, ps, hps, rfl⟩, b', hb', h2⟩ := h
          rw [← hlook] at hv
          simp only [stripBody, bind_ok] at hb'
          obtain ⟨cond, hcond, hb'⟩ := hb'
          rw [← hlook] at hcond
          cases cond with
          | true =>
            simp only [if_true] at hb'
            cases hck : compileNodes kids ++ [CEv.end_ tag] with
            | nil => exact absurd hck (body_ne_nil _ _)
            | cons e0 rest0 =>
              rw [hck] at hb'
              simp only [pure, Except.pure, Except.ok.injEq] at hb'
              have hdl : b' = compileNodes kids := by rw [← hb', ← hck]; simp
              subst hdl
              obtain ⟨d', h3, g⟩ := revF (k + 1) ih k hk (.frag kids) loc d st o st' h2 hdt.wf hl hg
              refine ⟨d', DOk.attrs_elem hv hps (DOk.strip_elem (b := true) hcond ?_), g⟩
              simpa using h3
          | false =>
            simp only [Bool.false_eq_true, if_false, pure, Except.pure, Except.ok.injEq] at hb'
            subst hb'
            obtain ⟨d', h3, g⟩ := revF (k + 1) ih k hk (.elem tag (Genshi.Escape.Attrs.or attrs ps) kids)
              loc d st o st' h2 hdt.wf hl hg
            refine ⟨d', DOk.attrs_elem hv hps (DOk.strip_elem (b := false) hcond ?_), g⟩
            simpa using h3
    | strip c =>
      cases t with
      | frag kids =>
        have := hdw.tok (.strip c) (List.mem_cons_self ..)
        simp [Dir.elemOnly] at this
      | elem tag attrs kids =>
        have hnil := sorted_after_strip hdw.sorted
        subst hnil
        simp only [taskOf, attach, targetBody, run, bind_ok] at h
        obtain ⟨b', hb', h2⟩ := h
        simp only [stripBody, bind_ok] at hb'
        obtain ⟨cond, hcond, hb'⟩ := hb'
        rw [← hlook] at hcond
        cases cond with
        | true =>
          simp only [if_true] at hb'
          cases hck : compileNodes kids ++ [CEv.end_ tag] with
          | nil => exact absurd hck (body_ne_nil _ _)
          | cons e0 rest0 =>
            rw [hck] at hb'
            simp only [pure, Except.pure, Except.ok.injEq] at hb'
            have hdl : b' = compileNodes kids := by rw [← hb', ← hck]; simp
            subst hdl
            obtain ⟨d', h3, g⟩ := revF (k + 1) ih k hk (.frag kids) loc d st o st' h2 hdt.wf hl hg
            refine ⟨d', DOk.strip_elem (b := true) hcond ?_, g⟩
            simpa using h3
        | false =>
          simp only [Bool.false_eq_true, if_false, pure, Except.pure, Except.ok.injEq] at hb'
          subst hb'
          obtain ⟨d', h3, g⟩ := revF (k + 1) ih k hk (.elem tag attrs kids) loc d st o st' h2 hdt.wf hl hg
          refine ⟨d', DOk.strip_elem (b := false) hcond ?_, g⟩
          simpa using h3

theorem attach_snd_ne_nil : ∀ (D : List Dir) (body : List CEv), body ≠ [] → (attach D body).2 ≠ [] := by
  intro D
  induction D with
  | nil => intro body h; exact h
  | cons dd D ih =>
    intro body h
    cases dd with
    | replace x => simp only [attach]; exact ih _ (by simp)
    | content x =>
      cases body with
      | nil => exact absurd rfl h
      | cons e rest => cases e <;> simp only [attach] <;> exact ih _ (by simp)
    | def_ n ps => simp only [attach]; exact ih _ h
    | when e => simp only [attach]; exact ih _ h
    | otherwise => simp only [attach]; exact ih _ h
    | for_ v e => simp only [attach]; exact ih _ h
    | if_ e => simp only [attach]; exact ih _ h
    | choose e => simp only [attach]; exact ih _ h
    | with_ bs => simp only [attach]; exact ih _ h
    | attrs e => simp only [attach]; exact ih _ h
    | strip c => simp only [attach]; exact ih _ h

/-- element body with no directive left, at the fuel of the element itself -/
theorem revElemBody (m : Nat) (ih : ∀ k, k < m → ∀ T, RevQ k T) (tag : Name) (attrs : List (Name × Str))
    (kids : List TNode) (loc : Env) (d : DSt) (st : St) (o : List Event) (st' : St)
    (h : run m (.flat (targetBody (.elem tag attrs kids))) st = .ok (o, st'))
    (hwf : wfNodes kids = true) (hl : loc = st.scopes.flatten) (hg : SimG d st) :
    ∃ d', DOk (.dirs [] (.elem tag attrs kids)) loc d o d' ∧ SimG d' st' := by
  obtain ⟨j, rfl⟩ := run_pos h
  simp only [targetBody, run, seq_ok] at h
  obtain ⟨o1, s1, o2, h1, h2, rfl⟩ := h
  obtain ⟨rfl, rfl⟩ := ev_start_inv h1
  obtain ⟨p1, t1, p2, h3, h4, rfl⟩ := flat_append_split h2
  obtain ⟨d1, h5, g1⟩ := ih j (by omega) (.nodes kids) loc d s1 p1 t1 h3 hwf hl hg trivial
  obtain ⟨i, rfl⟩ := run_pos h4
  obtain ⟨rfl, rfl⟩ := ev_end_inv (flat_single_inv h4)
  exact ⟨d1, by simpa using DOk.dirs_nil_elem h5, g1⟩

/-- a SUB whose directives all vanished at `attach` is inlined: its events are flattened at the
    fuel of the surrounding stream -/
theorem revInline (m : Nat) (ih : ∀ k, k < m → ∀ T, RevQ k T) :
    ∀ (D : List Dir) (t : Target), DirsWF D t → (attach D (targetBody t)).1 = [] →
      (D = [] → ∃ tag attrs kids, t = .elem tag attrs kids) →
      ∀ (loc : Env) (d : DSt) (st : St) (o : List Event) (st' : St),
      run m (.flat (attach D (targetBody t)).2) st = .ok (o, st') →
      loc = st.scopes.flatten → SimG d st → ∃ d', DOk (.dirs D t) loc d o d' ∧ SimG d' st' := by
  intro D
  induction D with
  | nil =>
    intro t hdw _ hel loc d st o st' h hl hg
    obtain ⟨tag, attrs, kids, rfl⟩ := hel rfl
    exact revElemBody m ih tag attrs kids loc d st o st' (by simpa [attach] using h) hdw.wf hl hg
  | cons dd D ihD =>
    intro t hdw hnil _ loc d st o st' h hl hg
    have hdt := hdw.tail
    cases dd with
    | replace x =>
      have hr : ∀ y ∈ D, 8 < y.rank := fun y hy => by simpa [Dir.rank] using hdw.sorted.head_lt y hy
      simp only [attach] at h
      rw [attach_xexpr_snd x D hr] at h
      obtain ⟨k, rfl⟩ := run_pos h
      obtain ⟨d', h3, g⟩ := ih k (Nat.lt_succ_self k) (.xexpr x) loc d st o st' (flat_single_inv h) trivial hl hg
        trivial
      exact ⟨d', DOk.replace h3, g⟩
    | content x =>
      cases t with
      | frag kids =>
        have := hdw.tok (.content x) (List.mem_cons_self ..)
        simp [Dir.elemOnly] at this
      | elem tag attrs kids =>
        have hdt' : DirsWF D (.elem tag attrs [.expr x]) :=
          ⟨hdt.sorted, trivial, by simp [Target.kids, wfNodes, wfNode]⟩
        have heq : attach (.content x :: D) (targetBody (.elem tag attrs kids)) =
            attach D (targetBody (.elem tag attrs [.expr x])) := by
          simp only [targetBody, attach, getLast_body]
          simp [compileNodes, compileNode]
        rw [heq] at h hnil
        obtain ⟨d', h3, g⟩ := ihD _ hdt' hnil (fun _ => ⟨tag, attrs, [.expr x], rfl⟩) loc d st o st' h hl hg
        exact ⟨d', DOk.content_elem h3, g⟩
    | def_ n ps => rw [attach_keep _ D _ (by simp [Dir.rank])] at hnil; simp at hnil
    | when e => rw [attach_keep _ D _ (by simp [Dir.rank])] at hnil; simp at hnil
    | otherwise => rw [attach_keep _ D _ (by simp [Dir.rank])] at hnil; simp at hnil
    | for_ v e => rw [attach_keep _ D _ (by simp [Dir.rank])] at hnil; simp at hnil
    | if_ e => rw [attach_keep _ D _ (by simp [Dir.rank])] at hnil; simp at hnil
    | choose e => rw [attach_keep _ D _ (by simp [Dir.rank])] at hnil; simp at hnil
    | with_ bs => rw [attach_keep _ D _ (by simp [Dir.rank])] at hnil; simp at hnil
    | attrs e => rw [attach_keep _ D _ (by simp [Dir.rank])] at hnil; simp at hnil
    | strip c => rw [attach_keep _ D _ (by simp [Dir.rank])] at hnil; simp at hnil

/-- the head node of a flattened node list: its events are consumed first, the rest of the list
    is flattened with one unit of fuel less -/
theorem revNodeHead (m : Nat) (ih : ∀ k, k < m + 1 → ∀ T, RevQ k T) (nd : TNode) (R : List CEv)
    (loc : Env) (d : DSt) (st : St) (o : List Event) (st' : St)
    (h : run (m + 1) (.flat (compileNode nd ++ R)) st = .ok (o, st'))
    (hwf : wfNode nd = true) (hl : loc = st.scopes.flatten) (hg : SimG d st) :
    ∃ o1 s1 o2 d1, DOk (.node nd) loc d o1 d1 ∧ SimG d1 s1 ∧ s1.scopes = st.scopes ∧
      run m (.flat R) s1 = .ok (o2, st') ∧ o = o1 ++ o2 := by
  -- the general shape: a node compiles to `mkSub r.1 r.2`
  have hsub : ∀ (D : List Dir) (t : Target), DirsWF D t →
      (D = [] → ∃ tag attrs kids, t = .elem tag attrs kids) →
      (∀ o1 d1, DOk (.dirs D t) loc d o1 d1 → DOk (.node nd) loc d o1 d1) →
      compileNode nd = mkSub (attach D (targetBody t)).1 (attach D (targetBody t)).2 →
      ∃ o1 s1 o2 d1, DOk (.node nd) loc d o1 d1 ∧ SimG d1 s1 ∧ s1.scopes = st.scopes ∧
        run m (.flat R) s1 = .ok (o2, st') ∧ o = o1 ++ o2 := by
    intro D t hdw hel hnode hc
    rw [hc] at h
    unfold mkSub at h
    split at h
    · -- inlined
      rename_i hemp
      have hnil : (attach D (targetBody t)).1 = [] := by simpa using hemp
      have hbne : (attach D (targetBody t)).2 ≠ [] := by
        cases t with
        | elem tag attrs kids => exact attach_snd_ne_nil _ _ (by simp [targetBody])
        | frag kids =>
          cases D with
          | nil => obtain ⟨_, _, _, hh⟩ := hel rfl; cases hh
          | cons dd D' =>
            have htok := hdw.tok dd (List.mem_cons_self ..)
            cases dd with
            | replace x => simp only [attach]; exact attach_snd_ne_nil D' _ (by simp)
            | content x => simp [Dir.elemOnly] at htok
            | attrs e => simp [Dir.elemOnly] at htok
            | strip c => simp [Dir.elemOnly] at htok
            | def_ n ps => rw [attach_keep _ D' _ (by simp [Dir.rank])] at hnil; simp at hnil
            | when e => rw [attach_keep _ D' _ (by simp [Dir.rank])] at hnil; simp at hnil
            | otherwise => rw [attach_keep _ D' _ (by simp [Dir.rank])] at hnil; simp at hnil
            | for_ v e => rw [attach_keep _ D' _ (by simp [Dir.rank])] at hnil; simp at hnil
            | if_ e => rw [attach_keep _ D' _ (by simp [Dir.rank])] at hnil; simp at hnil
            | choose e => rw [attach_keep _ D' _ (by simp [Dir.rank])] at hnil; simp at hnil
            | with_ bs => rw [attach_keep _ D' _ (by simp [Dir.rank])] at hnil; simp at hnil
      cases hb : (attach D (targetBody t)).2 with
      | nil => exact absurd hb hbne
      | cons e1 b2 =>
        rw [hb] at h
        simp only [List.cons_append, run, seq_ok] at h
        obtain ⟨p1, t1, p23, h1, h23, rfl⟩ := h
        obtain ⟨p2, t2, o2, h2, h3, rfl⟩ := flat_append_split h23
        have hfull : run (m + 1) (.flat (attach D (targetBody t)).2) st = .ok (p1 ++ p2, t2) := by
          rw [hb]; simp only [run, seq_ok]; exact ⟨p1, t1, p2, h1, h2, rfl⟩
        obtain ⟨d1, h4, g1⟩ := revInline (m + 1) ih D t hdw hnil hel loc d st _ t2 hfull hl hg
        have hsc : t2.scopes = st.scopes := run_scopes (m + 1) _ _ _ _ hfull
        exact ⟨p1 ++ p2, t2, o2, d1, hnode _ _ h4, g1, hsc, h3, by simp [List.append_assoc]⟩
    · -- a SUB event
      simp only [List.cons_append, List.nil_append, run, seq_ok] at h
      obtain ⟨o1, s1, o2, h1, h2, rfl⟩ := h
      obtain ⟨i, rfl⟩ := run_pos h1
      simp only [run] at h1
      obtain ⟨d1, h3, g1⟩ := ih i (by omega) (.dirs D t) loc d st o1 s1 h1 hdw hl hg trivial
      exact ⟨o1, s1, o2, d1, hnode _ _ h3, g1, run_scopes i _ _ _ _ h1, h2, rfl⟩
  cases nd with
  | text s =>
    simp only [compileNode, List.cons_append, List.nil_append, run, seq_ok] at h
    obtain ⟨o1, s1, o2, h1, h2, rfl⟩ := h
    obtain ⟨i, rfl⟩ := run_pos h1
    simp only [run, Except.ok.injEq, Prod.mk.injEq] at h1
    obtain ⟨rfl, rfl⟩ := h1
    exact ⟨_, st, o2, d, DOk.node_text s loc d, hg, rfl, h2, rfl⟩
  | expr x =>
    simp only [compileNode, List.cons_append, List.nil_append, run, seq_ok] at h
    obtain ⟨o1, s1, o2, h1, h2, rfl⟩ := h
    obtain ⟨d1, h3, g1⟩ := ih m (Nat.lt_succ_self m) (.xexpr x) loc d st o1 s1 h1 trivial hl hg trivial
    exact ⟨o1, s1, o2, d1, DOk.node_expr h3, g1, run_scopes m _ _ _ _ h1, h2, rfl⟩
  | elem tag attrs dirs kids =>
    have hw : wfNode (.elem tag attrs dirs kids) = true := hwf
    simp only [wfNode, Bool.and_eq_true, decide_eq_true_eq] at hw
    have hdw : DirsWF (sortBy Dir.docIdx dirs) (.elem tag attrs kids) :=
      ⟨sortBy_docIdx_strict dirs hw.1, trivial, hw.2⟩
    exact hsub _ _ hdw (fun _ => ⟨tag, attrs, kids, rfl⟩) (fun _ _ hh => DOk.node_elem hh)
      (by simp only [compileNode, implIdx_eq_docIdx, targetBody])
  | delem dd kids =>
    have hw : wfNode (.delem dd kids) = true := hwf
    simp only [wfNode, Bool.and_eq_true, Bool.not_eq_true'] at hw
    have hdw : DirsWF [dd] (.frag kids) :=
      ⟨by simp [StrictSorted], by intro x hx; simp at hx; subst hx; exact hw.1, hw.2⟩
    exact hsub _ _ hdw (by simp) (fun _ _ hh => DOk.node_delem hh) (by simp only [compileNode, targetBody])

theorem sim_rev : ∀ (m : Nat) (T : DTask), RevQ m T := by
  intro m
  induction m using Nat.strongRecOn with
  | ind m ih =>
    intro T loc d st o st' h hwf hl hg hb
    obtain ⟨k, rfl⟩ := run_pos h
    cases T with
    | dirs D t => exact revDirs (k + 1) ih D t loc d st o st' h hwf hl hg hb
    | nodes ns =>
      cases ns with
      | nil =>
        simp only [taskOf, compileNodes, run, Except.ok.injEq, Prod.mk.injEq] at h
        obtain ⟨rfl, rfl⟩ := h
        exact ⟨d, DOk.nodes_nil loc d, hg⟩
      | cons nd rest =>
        obtain ⟨w1, w2⟩ := wfNodes_cons hwf
        simp only [taskOf, compileNodes_cons] at h
        obtain ⟨o1, s1, o2, d1, h1, g1, hs1, h2, rfl⟩ := revNodeHead k ih nd _ loc d st o st' h w1 hl hg
        obtain ⟨d2, h3, g2⟩ := ih k (Nat.lt_succ_self k) (.nodes rest) loc d1 s1 o2 st' h2 w2
          (by rw [hs1]; exact hl) g1 trivial
        exact ⟨d2, DOk.nodes_cons h1 h3, g2⟩
    | node nd =>
      have h' : run (k + 1) (.flat (compileNode nd ++ [])) st = .ok (o, st') := by simpa [taskOf] using h
      obtain ⟨o1, s1, o2, d1, h1, g1, _, h2, rfl⟩ := revNodeHead k ih nd [] loc d st o st' h' hwf hl hg
      obtain ⟨i, rfl⟩ := run_pos h2
      simp only [run, Except.ok.injEq, Prod.mk.injEq] at h2
      obtain ⟨rfl, rfl⟩ := h2
      exact ⟨d1, by simpa using h1, g1⟩
    | xexpr x =>
      have hlook := look_sim hl hg.glob
      cases x with
      | pure e =>
        simp only [taskOf, run, bind_ok, pure, Except.pure, Except.ok.injEq, Prod.mk.injEq] at h
        obtain ⟨v, hv, out, hout, rfl, rfl⟩ := h
        rw [← hlook] at hv
        exact ⟨d, DOk.xexpr_pure hv hout, hg⟩
      | call f args =>
        simp only [taskOf, run, bind_ok, mapSt_ok] at h
        obtain ⟨fv, hfv, vs, hvs, mc, hmc, scope, hsc, s1, h2, rfl⟩ := h
        obtain ⟨dm, hdm, ms⟩ := getMacro_sim_rev hg hmc
        obtain ⟨hp, hdw, hd1, hd2⟩ := ms
        rw [← hlook] at hfv hvs hsc
        rw [hd1, hd2] at h2
        obtain ⟨d', h3, g⟩ := ih k (Nat.lt_succ_self k) (.dirs dm.dirs dm.target) (scope ++ loc) d
          (st.push scope) o s1 h2 hdw (by simp [St.push, hl]) (hg.of_same rfl rfl rfl) trivial
        exact ⟨d', DOk.xexpr_call hfv hvs hdm (by rw [hp]; exact hsc) h3, g.of_same rfl rfl rfl⟩
    | loop v items D t =>
      have hdw : DirsWF D t := hwf
      cases items with
      | nil =>
        simp only [taskOf, run, Except.ok.injEq, Prod.mk.injEq] at h
        obtain ⟨rfl, rfl⟩ := h
        exact ⟨d, DOk.loop_nil v D t loc d, hg⟩
      | cons item items =>
        simp only [taskOf, run, seq_ok] at h
        obtain ⟨o1, s1, o2, h1, h2, rfl⟩ := h
        obtain ⟨d1, h3, g1⟩ := ih k (Nat.lt_succ_self k) (.dirs D t) ((v, item) :: loc) d
          (st.push [(v, item)]) o1 s1 h1 hdw (by simp [St.push, hl]) (hg.of_same rfl rfl rfl) trivial
        have hs1 : s1.scopes = (st.push [(v, item)]).scopes := run_scopes k _ _ _ _ h1
        obtain ⟨d2, h4, g2⟩ := ih k (Nat.lt_succ_self k) (.loop v items D t) loc d1 s1.pop o2 st' h2 hdw
          (by simp [St.pop, hs1, St.push, hl]) (g1.of_same rfl rfl rfl) trivial
        exact ⟨d2, DOk.loop_cons h3 h4, g2⟩
    | binds bs D t =>
      have hdw : DirsWF D t := hwf
      cases bs with
      | nil =>
        simp only [taskOf, run] at h
        obtain ⟨d', h3, g⟩ := ih k (Nat.lt_succ_self k) (.dirs D t) loc d st o st' h hdw hl hg trivial
        exact ⟨d', DOk.binds_nil h3, g⟩
      | cons p bs =>
        obtain ⟨x, e⟩ := p
        have hlook := look_sim hl hg.glob
        simp only [taskOf, run, bind_ok] at h
        obtain ⟨v, hv, h2⟩ := h
        rw [← hlook] at hv
        have hne : st.scopes ≠ [] := hb
        obtain ⟨f, fs, hfs⟩ : ∃ f fs, st.scopes = f :: fs := by
          cases hsc : st.scopes with
          | nil => exact absurd hsc hne
          | cons f fs => exact ⟨f, fs, rfl⟩
        have hset : (st.setTop x v).scopes = ((x, v) :: f) :: fs := by simp [St.setTop, hfs]
        obtain ⟨d', h3, g⟩ := ih k (Nat.lt_succ_self k) (.binds bs D t) ((x, v) :: loc) d (st.setTop x v) o st'
          h2 hdw (by rw [hset, hl, hfs]; simp)
          (hg.of_same (by simp [St.setTop, hfs]) (by simp [St.setTop, hfs]) (by simp [St.setTop, hfs]))
          (by show (st.setTop x v).scopes ≠ []; rw [hset]; simp)
        exact ⟨d', DOk.binds_cons hv h3, g⟩

end Genshi.Tmpl

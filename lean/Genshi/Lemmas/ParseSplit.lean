/-
  C07 — how the tokenizer cuts character data into callbacks does not matter: the outcome
  depends only on the callback sequence with adjacent character-data callbacks merged.
  (`html.parser` and Expat cut text where the chunks end; this, with "batches never matter",
  is the layer's whole contribution to chunking invariance.)
-/
import Genshi.Lemmas.ParseContent
namespace Genshi.Parse
open Genshi

/-- a layer with a character-data callback `mk s` that enqueues one TEXT event and changes nothing -/
structure TextCb {κ cb : Type} (L : Layer κ cb) where
  mkT : Str → cb
  txt : cb → Option Str
  txt_mk : ∀ s, txt (mkT s) = some s
  of_txt : ∀ c s, txt c = some s → c = mkT s
  step_mk : ∀ k s, L.step k (mkT s) = .ok (k, [.text s false])

section split
variable {κ cb : Type} {L : Layer κ cb} (T : TextCb L)

def flushD (buf : Option Str) : List (Item cb) :=
  match buf with
  | some b => [.cb (T.mkT b)]
  | none => []

/-- the callback sequence with adjacent character-data callbacks merged -/
def mergeDataGo : Option Str → List (Item cb) → List (Item cb)
  | buf, [] => flushD T buf
  | buf, i :: rest =>
    match i with
    | .cb c =>
      match T.txt c with
      | some s => mergeDataGo (some (buf.getD [] ++ s)) rest
      | none => flushD T buf ++ .cb c :: mergeDataGo none rest
    | .raise e => flushD T buf ++ .raise e :: mergeDataGo none rest

def mergeData (items : List (Item cb)) : List (Item cb) := mergeDataGo T none items

/-- same exception, and the same events once `_coalesce` has run (from any buffer) -/
def SimC (r r' : Stream × Option PyExc) : Prop :=
  r.2 = r'.2 ∧ ∀ f b, coalesceGo f b r.1 = coalesceGo f b r'.1

theorem SimC.refl (r : Stream × Option PyExc) : SimC r r := ⟨rfl, fun _ _ => rfl⟩

theorem SimC.trans {a b c : Stream × Option PyExc} (h1 : SimC a b) (h2 : SimC b c) : SimC a c :=
  ⟨h1.1.trans h2.1, fun f x => (h1.2 f x).trans (h2.2 f x)⟩

theorem SimC.symm {a b : Stream × Option PyExc} (h : SimC a b) : SimC b a :=
  ⟨h.1.symm, fun f x => (h.2 f x).symm⟩

theorem coalesceGo_append_congr (f : Bool) : ∀ (a r1 r2 : Stream) (b : Option Str),
    (∀ b', coalesceGo f b' r1 = coalesceGo f b' r2) → coalesceGo f b (a ++ r1) = coalesceGo f b (a ++ r2)
  | [], r1, r2, b, h => h b
  | e :: es, r1, r2, b, h => by
      by_cases ht : isText e = true
      · obtain ⟨s, x, rfl⟩ := (isText_iff e).1 ht
        simp only [List.cons_append, coalesceGo_text]
        exact coalesceGo_append_congr f es r1 r2 _ h
      · have h' : isText e = false := by simpa using ht
        simp only [List.cons_append]
        rw [coalesceGo_nontext f b e _ h', coalesceGo_nontext f b e _ h',
            coalesceGo_append_congr f es r1 r2 none h]

theorem simC_prepend (evs : Stream) {r r' : Stream × Option PyExc} (h : SimC r r') :
    SimC (evs ++ r.1, r.2) (evs ++ r'.1, r'.2) :=
  ⟨h.1, fun f b => coalesceGo_append_congr f evs r.1 r'.1 b (h.2 f)⟩

/-- prefixing the same items keeps two runs similar -/
theorem eager_prefix_congr : ∀ (pre : List (Item cb)) (a b : List (Item cb)),
    (∀ k, SimC (eager L k a) (eager L k b)) → ∀ k, SimC (eager L k (pre ++ a)) (eager L k (pre ++ b))
  | [], a, b, h, k => h k
  | .raise e :: pre, a, b, h, k => by simp only [List.cons_append, eager]; exact SimC.refl _
  | .cb c :: pre, a, b, h, k => by
      simp only [List.cons_append, eager]
      cases L.step k c with
      | error e => exact SimC.refl _
      | ok r =>
        obtain ⟨k', evs⟩ := r
        exact simC_prepend evs (eager_prefix_congr pre a b h k')

theorem eager_mk (k : κ) (s : Str) (rest : List (Item cb)) :
    eager L k (.cb (T.mkT s) :: rest) = (.text s false :: (eager L k rest).1, (eager L k rest).2) := by
  simp [eager, T.step_mk]

/-- two character-data callbacks in a row are as good as one with the concatenated text -/
theorem eager_two_texts (k : κ) (x y : Str) (rest : List (Item cb)) :
    SimC (eager L k (.cb (T.mkT x) :: .cb (T.mkT y) :: rest)) (eager L k (.cb (T.mkT (x ++ y)) :: rest)) := by
  rw [eager_mk, eager_mk, eager_mk]
  refine ⟨rfl, fun f b => ?_⟩
  simp only [coalesceGo_text]
  cases b <;> simp [List.append_assoc]

theorem eager_mergeDataGo : ∀ (items : List (Item cb)) (buf : Option Str) (k : κ),
    SimC (eager L k (flushD T buf ++ items)) (eager L k (mergeDataGo T buf items))
  | [], buf, k => by simp only [mergeDataGo, List.append_nil]; exact SimC.refl _
  | .raise e :: rest, buf, k => by
      simp only [mergeDataGo]
      exact eager_prefix_congr (flushD T buf) _ _
        (fun k' => by simp only [eager]; exact SimC.refl _) k
  | .cb c :: rest, buf, k => by
      simp only [mergeDataGo]
      cases ht : T.txt c with
      | none =>
        simp only
        refine eager_prefix_congr (flushD T buf) _ _ (fun k' => ?_) k
        simp only [eager]
        cases L.step k' c with
        | error e => exact SimC.refl _
        | ok r =>
          obtain ⟨k2, evs⟩ := r
          have ih := eager_mergeDataGo rest none k2
          simp only [flushD, List.nil_append] at ih
          exact simC_prepend evs ih
      | some s =>
        simp only
        have hc := T.of_txt c s ht
        subst hc
        have ih := eager_mergeDataGo rest (some (buf.getD [] ++ s)) k
        refine SimC.trans ?_ ih
        cases buf with
        | none => simp only [flushD, List.nil_append, Option.getD_none, List.cons_append]; exact SimC.refl _
        | some b =>
          simp only [flushD, List.cons_append, List.nil_append, Option.getD_some]
          exact eager_two_texts T k b s rest

/-- **the cutting of character data never matters**: callback sequences that agree once adjacent
    character-data callbacks are merged give the same exception and the same coalesced events -/
theorem eager_mergeData_congr (a b : List (Item cb)) (h : mergeData T a = mergeData T b) (k : κ) :
    SimC (eager L k a) (eager L k b) := by
  have ha := eager_mergeDataGo T a none k
  have hb := eager_mergeDataGo T b none k
  simp only [flushD, List.nil_append] at ha hb
  unfold mergeData at h
  rw [h] at ha
  exact SimC.trans ha (SimC.symm hb)

/-- the same for what `parse` delivers (with any batching on either side) -/
theorem parse_mergeData_congr (handler : PyExc → Raised) (k : κ) (reads reads' : List (Read cb))
    (close close' : List (Item cb))
    (h : mergeData T (reads.flatMap Read.toItems ++ close) = mergeData T (reads'.flatMap Read.toItems ++ close')) :
    (parse L handler k reads close).2 = (parse L handler k reads' close').2 ∧
    ((parse L handler k reads close).2 = none → (parse L handler k reads close).1 = (parse L handler k reads' close').1) := by
  obtain ⟨a1, _, a3⟩ := parse_vs_eager L handler k reads close
  obtain ⟨b1, _, b3⟩ := parse_vs_eager L handler k reads' close'
  obtain ⟨e1, e2⟩ := eager_mergeData_congr T _ _ h k
  refine ⟨by rw [a1, b1, e1], ?_⟩
  intro hn
  rw [a1] at hn
  have hna : (eager L k (reads.flatMap Read.toItems ++ close)).2 = none := by
    cases hh : (eager L k (reads.flatMap Read.toItems ++ close)).2 with
    | none => rfl
    | some e => rw [hh] at hn; simp at hn
  have hnb : (eager L k (reads'.flatMap Read.toItems ++ close')).2 = none := by rw [← e1]; exact hna
  rw [a3 hna, b3 hnb]
  exact e2 true none

end split

/-! the two instances -/

def htmlData (env : Env) : TextCb (htmlLayer env) where
  mkT := HtmlCb.data
  txt := fun c => match c with
    | .data s => some s
    | _ => none
  txt_mk := fun _ => rfl
  of_txt := by
    intro c s h
    cases c <;> simp_all
  step_mk := fun _ _ => rfl

def xmlData : TextCb xmlLayer where
  mkT := XmlCb.characterData
  txt := fun c => match c with
    | .characterData s => some s
    | _ => none
  txt_mk := fun _ => rfl
  of_txt := by
    intro c s h
    cases c <;> simp_all
  step_mk := fun _ _ => rfl

end Genshi.Parse

/-
  C02 — idempotence for builder streams, part 1: what the second pass can see
  of the first pass's bindings (`scopeOf`: prefix and URI, not the `auto` flag,
  `None` and `""` identified) determines `_find_prefix`; and the prefix chosen
  for a name is stable under the fresh declarations made later on the same tag.
-/
import Genshi.Lemmas.XmlIdem
namespace Genshi.Xml
open Genshi Genshi.Xml.Reader

/-! ### look-ups depend only on the visible part of the bindings -/

theorem uriOf_scope : ∀ (bs1 bs2 : List Binding), scopeOf bs1 = scopeOf bs2 → ∀ p : Str,
    (uriOf bs1 p).map normUri = (uriOf bs2 p).map normUri
  | [], [], _, _ => rfl
  | [], _ :: _, h, _ => by simp [scopeOf] at h
  | _ :: _, [], h, _ => by simp [scopeOf] at h
  | (p1, u1, a1) :: bs1, (p2, u2, a2) :: bs2, h, p => by
      simp only [scopeOf, List.map_cons, List.cons.injEq, proj, Prod.mk.injEq] at h
      obtain ⟨⟨hp, hu⟩, hr⟩ := h
      rw [uriOf_cons, uriOf_cons]
      subst hp
      by_cases e : p1 = p
      · simp [e, hu]
      · simp only [e, if_false]
        exact uriOf_scope bs1 bs2 hr p

theorem normUri_eq_ok {u uri : Str} (h1 : uri ≠ []) (h : normUri u = uri) : u = uri := by
  unfold normUri at h
  by_cases e : u = noneUri
  · simp only [e, if_true] at h; exact absurd h.symm h1
  · simpa [e] using h

theorem uriOf_scope_some {bs1 bs2 : List Binding} (h : scopeOf bs1 = scopeOf bs2) {uri p : Str}
    (h1 : uri ≠ []) (h2 : uri ≠ noneUri) (hu : uriOf bs1 p = some uri) : uriOf bs2 p = some uri := by
  have := uriOf_scope bs1 bs2 h p
  rw [hu] at this
  cases h2' : uriOf bs2 p with
  | none => rw [h2'] at this; cases this
  | some u2 =>
    rw [h2'] at this
    simp only [Option.map_some, Option.some.injEq] at this
    rw [normUri_of_ne h2] at this
    rw [normUri_eq_ok h1 this.symm]

theorem uriOf_scope_none {bs1 bs2 : List Binding} (h : scopeOf bs1 = scopeOf bs2) {p : Str}
    (hu : uriOf bs1 p = none) : uriOf bs2 p = none := by
  have := uriOf_scope bs1 bs2 h p
  rw [hu] at this
  cases h2' : uriOf bs2 p with
  | none => rfl
  | some u2 => rw [h2'] at this; cases this

theorem uriOf_scope_iff {bs1 bs2 : List Binding} (h : scopeOf bs1 = scopeOf bs2) {uri p : Str}
    (h1 : uri ≠ []) (h2 : uri ≠ noneUri) : uriOf bs1 p = some uri ↔ uriOf bs2 p = some uri :=
  ⟨uriOf_scope_some h h1 h2, uriOf_scope_some h.symm h1 h2⟩

theorem findGo_scope {full1 full2 : List Binding} (hf : scopeOf full1 = scopeOf full2) {uri : Str}
    (h1 : uri ≠ []) (h2 : uri ≠ noneUri) (fa : Bool) :
    ∀ (bs1 bs2 : List Binding), scopeOf bs1 = scopeOf bs2 →
      findGo full1 uri fa bs1 = findGo full2 uri fa bs2
  | [], [], _ => rfl
  | [], _ :: _, h => by simp [scopeOf] at h
  | _ :: _, [], h => by simp [scopeOf] at h
  | (p1, u1, a1) :: bs1, (p2, u2, a2) :: bs2, h => by
      simp only [scopeOf, List.map_cons, List.cons.injEq, proj, Prod.mk.injEq] at h
      obtain ⟨⟨hp, hu⟩, hr⟩ := h
      subst hp
      have ih := findGo_scope hf h1 h2 fa bs1 bs2 hr
      have hu' : u1 = uri ↔ u2 = uri := by
        constructor
        · intro e; subst e
          rw [normUri_of_ne h2] at hu
          exact normUri_eq_ok h1 hu.symm
        · intro e; subst e
          rw [normUri_of_ne h2] at hu
          exact normUri_eq_ok h1 hu
      have hc : (u1 = uri ∧ (¬ p1.isEmpty ∨ fa = false) ∧ uriOf full1 p1 = some uri) ↔
          (u2 = uri ∧ (¬ p1.isEmpty ∨ fa = false) ∧ uriOf full2 p1 = some uri) := by
        rw [hu', uriOf_scope_iff hf h1 h2]
      simp only [findGo]
      by_cases c1 : (u1 = uri ∧ (¬ p1.isEmpty ∨ fa = false) ∧ uriOf full1 p1 = some uri)
      · rw [if_pos c1, if_pos (hc.mp c1)]
      · rw [if_neg c1, if_neg (fun c2 => c1 (hc.mpr c2))]
        exact ih

theorem findPrefix_scope {bs1 bs2 : List Binding} (h : scopeOf bs1 = scopeOf bs2) {uri : Str}
    (h1 : uri ≠ []) (h2 : uri ≠ noneUri) (fa : Bool) :
    findPrefix bs1 uri fa = findPrefix bs2 uri fa := by
  unfold findPrefix
  have hc : (fa = false ∧ uriOf bs1 [] = some uri) ↔ (fa = false ∧ uriOf bs2 [] = some uri) := by
    rw [uriOf_scope_iff h h1 h2]
  by_cases c1 : (fa = false ∧ uriOf bs1 [] = some uri)
  · rw [if_pos c1, if_pos (hc.mp c1)]
  · rw [if_neg c1, if_neg (fun c2 => c1 (hc.mpr c2))]
    exact findGo_scope h h1 h2 fa bs1 bs2 h

/-! ### stability of a chosen prefix under later fresh declarations -/

theorem findGo_full_congr (full full' : List Binding) (uri : Str) (fa : Bool) :
    ∀ bs : List Binding, (∀ q ∈ bs.map (·.1), uriOf full' q = uriOf full q) →
      findGo full' uri fa bs = findGo full uri fa bs := by
  intro bs
  induction bs with
  | nil => intro _; rfl
  | cons b bs ih =>
    intro h
    obtain ⟨p, u, a⟩ := b
    simp only [findGo]
    rw [h p (by simp), ih (fun q hq => h q (by simp [hq]))]

/-- a fresh binding does not change the answer of `_find_prefix` for `uri`,
    unless it binds `uri` itself and the answer did not come from the default
    namespace -/
theorem findPrefix_push {bs : List Binding} {p u uri : Str} {a fa : Bool} (hf : uriOf bs p = none)
    (hc : u ≠ uri ∨ (fa = false ∧ uriOf bs [] = some uri)) :
    findPrefix ((p, u, a) :: bs) uri fa = findPrefix bs uri fa := by
  have hp : p ≠ [] := by
    intro e; subst e; exact uriOf_nil_ne_none _ hf
  have hd : uriOf ((p, u, a) :: bs) [] = uriOf bs [] := by
    rw [uriOf_cons]; simp [hp]
  unfold findPrefix
  rw [hd]
  by_cases c : (fa = false ∧ uriOf bs [] = some uri)
  · rw [if_pos c, if_pos c]
  · rw [if_neg c, if_neg c]
    have hu : u ≠ uri := by
      rcases hc with h | h
      · exact h
      · exact absurd h c
    simp only [findGo]
    rw [if_neg (fun x => hu x.1)]
    apply findGo_full_congr
    intro q hq
    rw [uriOf_cons]
    have : p ≠ q := by
      intro e; subst e
      exact uriOf_ne_none_of_mem bs p hq hf
    simp [this]

/-- the prefix found for `uri` stays the answer after a declaration that was
    made because *another* namespace had no usable prefix -/
theorem findPrefix_push_stable {bs : List Binding} {p ns uri q : Str} {a fa : Bool}
    (hq : findPrefix bs uri fa = some q) (hn : findPrefix bs ns true = none) (hf : uriOf bs p = none) :
    findPrefix ((p, ns, a) :: bs) uri fa = some q := by
  rw [findPrefix_push hf, hq]
  have hs := findPrefix_sound bs uri fa q hq
  by_cases hq0 : q = []
  · subst hq0
    cases fa with
    | true => exact absurd rfl (hs.2 rfl)
    | false => exact Or.inr ⟨rfl, hs.1⟩
  · left
    intro e; subst e
    have := findPrefix_complete bs ns true q hq0 hs.1
    rw [hn] at this
    cases this

theorem findPrefix_declared {bs : List Binding} {p uri : Str} {a : Bool} (hp : p ≠ []) :
    findPrefix ((p, uri, a) :: bs) uri true = some p := by
  unfold findPrefix
  rw [if_neg (fun x => by cases x.1)]
  simp only [findGo]
  rw [if_pos]
  refine ⟨trivial, Or.inl (by simpa using hp), ?_⟩
  rw [uriOf_cons]; simp

end Genshi.Xml

namespace Genshi.Xml
open Genshi Genshi.Xml.Reader

/-! ### `flatAttrs`, equation by equation -/

theorem flatAttrs_plain (pref : List (Str × Str)) (t : TagSt) (a : QName) (v : Str) (rest : AttrList)
    (hn : a.ns = []) :
    flatAttrs pref t ((a, v) :: rest) =
      ((a.loc, v) :: (flatAttrs pref t rest).1, (flatAttrs pref t rest).2) := by
  have hne : a.ns.isEmpty = true := by simp [hn]
  rw [flatAttrs]
  simp only [hne, if_true]

theorem flatAttrs_found (pref : List (Str × Str)) (t : TagSt) (a : QName) (v : Str) (rest : AttrList)
    (hn : a.ns ≠ []) (p : Str) (hf : findPrefix t.bindings a.ns true = some p) :
    flatAttrs pref t ((a, v) :: rest) =
      ((p ++ ':' :: a.loc, v) :: (flatAttrs pref t rest).1, (flatAttrs pref t rest).2) := by
  have hne : a.ns.isEmpty = false := by simpa using hn
  rw [flatAttrs]
  simp only [hne, Bool.false_eq_true, if_false, hf]

theorem flatAttrs_decl (pref : List (Str × Str)) (t : TagSt) (a : QName) (v : Str) (rest : AttrList)
    (hn : a.ns ≠ []) (hf : findPrefix t.bindings a.ns true = none) :
    flatAttrs pref t ((a, v) :: rest) =
      (((declare pref t a.ns none).1 ++ ':' :: a.loc, v) :: (flatAttrs pref (declare pref t a.ns none).2 rest).1,
       (flatAttrs pref (declare pref t a.ns none).2 rest).2) := by
  have hne : a.ns.isEmpty = false := by simpa using hn
  rw [flatAttrs]
  simp only [hne, Bool.false_eq_true, if_false, hf]

/-- the prefix in force for `uri` when the attribute loop starts is still the
    answer when it ends -/
theorem flatAttrs_stable (pref : List (Str × Str)) (hpref : prefOK pref = true) (base : List Binding)
    (uri q : Str) (fa : Bool) (attrs : AttrList) :
    ∀ (t : TagSt), TagInv base t → (∀ a ∈ attrs, attrOK a = true) →
      findPrefix t.bindings uri fa = some q →
      findPrefix (flatAttrs pref t attrs).2.bindings uri fa = some q := by
  induction attrs with
  | nil => intro t _ _ h; exact h
  | cons av rest ih =>
    intro t h hok hq
    obtain ⟨a, v⟩ := av
    have hrest : ∀ x ∈ rest, attrOK x = true := fun x hx => hok x (by simp [hx])
    obtain ⟨_, hns, _, _⟩ := attrOK_parts (hok (a, v) (by simp))
    obtain ⟨hns1, hns2⟩ := nsOK_ne hns
    by_cases hn : a.ns = []
    · rw [flatAttrs_plain pref t a v rest hn]
      exact ih t h hrest hq
    · cases hf : findPrefix t.bindings a.ns true with
      | some p =>
        rw [flatAttrs_found pref t a v rest hn p hf]
        exact ih t h hrest hq
      | none =>
        rw [flatAttrs_decl pref t a v rest hn hf]
        have hx := ne_xmlNs_of_findPrefix_none h.xml hf
        obtain ⟨j1, j2, j3, j4⟩ := declare_fresh_inv pref hpref base t h a.ns none (Or.inl rfl) hn hx hns2 hns1
        apply ih _ j1 hrest
        rw [j4]
        exact findPrefix_push_stable hq hf j3

/-- **the second pass over the attributes**: with every declaration of the
    first pass in scope, each attribute finds the prefix the first pass gave it
    and nothing is declared -/
theorem flatAttrs_second (pref : List (Str × Str)) (hpref : prefOK pref = true) (base : List Binding)
    (attrs : AttrList) :
    ∀ (t : TagSt), TagInv base t → (∀ a ∈ attrs, attrOK a = true) →
      ∀ T : TagSt, scopeOf T.bindings = scopeOf (flatAttrs pref t attrs).2.bindings →
        flatAttrs pref T attrs = ((flatAttrs pref t attrs).1, T) := by
  induction attrs with
  | nil => intro t _ _ T _; rfl
  | cons av rest ih =>
    intro t h hok T hT
    obtain ⟨a, v⟩ := av
    have hrest : ∀ x ∈ rest, attrOK x = true := fun x hx => hok x (by simp [hx])
    obtain ⟨_, hns, _, _⟩ := attrOK_parts (hok (a, v) (by simp))
    obtain ⟨hns1, hns2⟩ := nsOK_ne hns
    by_cases hn : a.ns = []
    · rw [flatAttrs_plain pref t a v rest hn] at hT ⊢
      rw [flatAttrs_plain pref T a v rest hn, ih t h hrest T hT]
    · cases hf : findPrefix t.bindings a.ns true with
      | some p =>
        rw [flatAttrs_found pref t a v rest hn p hf] at hT ⊢
        have hT2 : findPrefix T.bindings a.ns true = some p := by
          rw [findPrefix_scope hT hn hns1]
          exact flatAttrs_stable pref hpref base a.ns p true rest t h hrest hf
        rw [flatAttrs_found pref T a v rest hn p hT2, ih t h hrest T hT]
      | none =>
        rw [flatAttrs_decl pref t a v rest hn hf] at hT ⊢
        have hx := ne_xmlNs_of_findPrefix_none h.xml hf
        obtain ⟨j1, j2, j3, j4⟩ := declare_fresh_inv pref hpref base t h a.ns none (Or.inl rfl) hn hx hns2 hns1
        have hT2 : findPrefix T.bindings a.ns true = some (declare pref t a.ns none).1 := by
          rw [findPrefix_scope hT hn hns1]
          apply flatAttrs_stable pref hpref base a.ns _ true rest _ j1 hrest
          rw [j4]
          exact findPrefix_declared j2
        rw [flatAttrs_found pref T a v rest hn _ hT2, ih _ j1 hrest T hT]

theorem takePending_append (A B : List (Str × Str)) :
    ∀ t : TagSt, takePending t (A ++ B) = takePending (takePending t A) B := by
  induction A with
  | nil => intro t; rfl
  | cons d ds ih =>
    intro t
    obtain ⟨p, u⟩ := d
    simp only [List.cons_append, takePending]
    split
    · exact ih _
    · exact ih t

/-- **the declarations of the attribute loop, met again as explicit ones**: all
    of them are taken, in order -/
theorem takePending_second_attrs (pref : List (Str × Str)) (hpref : prefOK pref = true) (base : List Binding)
    (attrs : AttrList) :
    ∀ (t : TagSt), TagInv base t → (∀ a ∈ attrs, attrOK a = true) →
      ∀ T : TagSt, scopeOf T.bindings = scopeOf t.bindings →
        ∃ DA, (flatAttrs pref t attrs).2.declared = t.declared ++ DA ∧
          (∀ d ∈ DA, d.2 ≠ [] ∧ d.2 ≠ noneUri) ∧
          scopeOf (takePending T DA).bindings = scopeOf (flatAttrs pref t attrs).2.bindings ∧
          (takePending T DA).declared = T.declared ++ DA := by
  induction attrs with
  | nil => intro t _ _ T hT; exact ⟨[], by simp [flatAttrs], by simp, by simpa [flatAttrs, takePending] using hT, by simp [takePending]⟩
  | cons av rest ih =>
    intro t h hok T hT
    obtain ⟨a, v⟩ := av
    have hrest : ∀ x ∈ rest, attrOK x = true := fun x hx => hok x (by simp [hx])
    obtain ⟨_, hns, _, _⟩ := attrOK_parts (hok (a, v) (by simp))
    obtain ⟨hns1, hns2⟩ := nsOK_ne hns
    by_cases hn : a.ns = []
    · rw [flatAttrs_plain pref t a v rest hn]
      exact ih t h hrest T hT
    · cases hf : findPrefix t.bindings a.ns true with
      | some p =>
        rw [flatAttrs_found pref t a v rest hn p hf]
        exact ih t h hrest T hT
      | none =>
        rw [flatAttrs_decl pref t a v rest hn hf]
        have hx := ne_xmlNs_of_findPrefix_none h.xml hf
        obtain ⟨j1, j2, j3, j4⟩ := declare_fresh_inv pref hpref base t h a.ns none (Or.inl rfl) hn hx hns2 hns1
        have hdecl : (declare pref t a.ns none).2.declared = t.declared ++ [((declare pref t a.ns none).1, a.ns)] := by
          rw [declare_fresh pref t a.ns none (Or.inl rfl)]
        generalize hp' : (declare pref t a.ns none).1 = p' at *
        generalize ht' : (declare pref t a.ns none).2 = t' at *
        have hT' : scopeOf ((p', a.ns, false) :: T.bindings) = scopeOf t'.bindings := by
          rw [j4]
          simp only [scopeOf, List.map_cons, proj] at hT ⊢
          rw [hT]
        obtain ⟨DA, d1, d2, d3, d4⟩ := ih t' j1 hrest
          { T with bindings := (p', a.ns, false) :: T.bindings, declared := T.declared ++ [(p', a.ns)] } hT'
        have hcond : uriOf T.bindings p' ≠ some a.ns ∧
            (¬ p'.isEmpty ∨ falsyUri a.ns ∨ findPrefix T.bindings a.ns false = none) := by
          refine ⟨?_, Or.inl (by simpa using j2)⟩
          rw [uriOf_scope_none hT.symm j3]
          simp
        have htp : takePending T ((p', a.ns) :: DA) =
            takePending { T with bindings := (p', a.ns, false) :: T.bindings, declared := T.declared ++ [(p', a.ns)] } DA := by
          rw [takePending, if_pos hcond]
        refine ⟨(p', a.ns) :: DA, ?_, ?_, ?_, ?_⟩
        · rw [d1, hdecl]; simp
        · intro d hd
          rcases List.mem_cons.mp hd with rfl | hd
          · exact ⟨hn, hns1⟩
          · exact d2 d hd
        · rw [htp]; exact d3
        · rw [htp, d4]; simp

end Genshi.Xml

/-
  Helper lemmas for C09: the repaired main loops on events whose attribute values
  may be Markup instances (`Model/OutputMarkupAttr.lean`): the cache invariant is
  kept (a start tag holding a Markup value never touches the cache), so the output
  is the concatenation of a context-free `emitT` for both cache settings.
-/
import Genshi.Model.OutputMarkupAttr
import Genshi.Lemmas.Output
namespace Genshi.Output
open Genshi Genshi.Escape

/-- the context-free meaning of a typed event -/
def emitT (m : Method) (o : Opts) (c : Ctx) (e : TEv) : List Str :=
  if e.hasMarkup then e.fresh m (emit m o c e.key) else emit m o c e.key

def serSpecT (m : Method) (o : Opts) : Ctx → List TEv → List Str
  | _, [] => []
  | c, e :: rest => emitT m o c e ++ serSpecT m o (ctxAfter m o c e.key) rest

theorem stepT_spec (m : Method) (o : Opts) (b : Bool) (st : LoopSt) (e : TEv) (h : CacheOk m o st.cache) :
    (stepT m o b st e).2 = emitT m o (ctxOf st) e ∧
    ctxOf (stepT m o b st e).1 = ctxAfter m o (ctxOf st) e.key ∧
    CacheOk m o (stepT m o b st e).1.cache := by
  have hn := step_nocache m o st e.key
  by_cases hm : e.hasMarkup = true
  · simp only [stepT, hm, ↓reduceIte, emitT]
    refine ⟨by rw [hn.1], hn.2.1, by rw [hn.2.2]; exact h⟩
  · have hm' : e.hasMarkup = false := by simpa using hm
    simp only [stepT, hm', Bool.false_eq_true, ↓reduceIte, emitT]
    cases b with
    | false => exact ⟨hn.1, hn.2.1, by rw [hn.2.2]; exact h⟩
    | true => exact step_cache m o st e.key h

theorem loopT_eq_spec (m : Method) (o : Opts) (b : Bool) (evs : List TEv) :
    ∀ st : LoopSt, CacheOk m o st.cache → loopT m o b st evs = serSpecT m o (ctxOf st) evs := by
  induction evs with
  | nil => intro st _; rfl
  | cons e rest ih =>
    intro st h
    have hs := stepT_spec m o b st e h
    simp only [loopT, serSpecT]
    rw [hs.1, ih _ hs.2.2, hs.2.1]

/-- without Markup values the typed rendering is the plain one -/
theorem escAttr_plain (v : Str) : escAttr v false = escapePy true v := rfl

theorem startOutM_plain (m : Method) (ie : Bool) (t : Str) (a : MAttrs) (h : ∀ p ∈ a, p.2.2 = false) :
    startOutM m ie t a = startOut m ie t (plainAttrs a) := by
  have hx : xmlAttrsM a = xmlAttrs (plainAttrs a) := by
    unfold xmlAttrsM xmlAttrs plainAttrs
    induction a with
    | nil => rfl
    | cons p ps ih =>
      have hp := h p (by simp)
      have := ih (fun q hq => h q (by simp [hq]))
      simp only [List.flatMap_cons, List.map_cons]
      rw [this]
      simp [attrOutM, attrOut, escAttr, hp]
  have hxh : ∀ l : MAttrs, (∀ p ∈ l, p.2.2 = false) →
      l.flatMap (xhtmlAttrM a) = (plainAttrs l).flatMap (xhtmlAttr (plainAttrs a)) := by
    intro l
    induction l with
    | nil => intro _; rfl
    | cons p ps ih =>
      intro hl
      have hp := hl p (by simp)
      have := ih (fun q hq => hl q (by simp [hq]))
      simp [plainAttrs, xhtmlAttrM, xhtmlAttr, attrOutM, attrOut, escAttr, hp] at this ⊢
      rw [this]
  have hh : ∀ l : MAttrs, (∀ p ∈ l, p.2.2 = false) →
      l.flatMap (htmlAttrM a) = (plainAttrs l).flatMap (htmlAttr (plainAttrs a)) := by
    intro l
    induction l with
    | nil => intro _; rfl
    | cons p ps ih =>
      intro hl
      have hp := hl p (by simp)
      have := ih (fun q hq => hl q (by simp [hq]))
      simp [plainAttrs, htmlAttrM, htmlAttr, attrOutM, attrOut, escAttr, hp] at this ⊢
      rw [this]
  cases m
  · simp [startOutM, startOut, hx]
  · simp [startOutM, startOut, xhtmlAttrsM, xhtmlAttrs, hxh a h]
  · simp [startOutM, startOut, htmlAttrsM, htmlAttrs, hh a h]

/-- events without typed values go through the loops of `Model/Output.lean` unchanged -/
theorem loopT_ev (m : Method) (o : Opts) (b : Bool) (evs : List FEv) :
    ∀ st : LoopSt, loopT m o b st (evs.map TEv.ev) = loop m o b st evs := by
  induction evs with
  | nil => intro st; rfl
  | cons e rest ih =>
    intro st
    simp only [List.map_cons, loopT, loop, stepT, TEv.hasMarkup, Bool.false_eq_true, ↓reduceIte, TEv.key]
    rw [ih]

end Genshi.Output

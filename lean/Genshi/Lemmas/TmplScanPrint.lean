/-
  C04: the printer round trip of the new text syntax: every well-formed token list, printed the way
  the documentation writes the constructs (with the documented escapes), is scanned to itself.
-/
import Genshi.Lemmas.TmplScan
namespace Genshi.Tmpl.Scan
open Genshi.San (isReSpace isReWord isSpace inRanges)
open Genshi.Gen

/-! ### facts about the generated classes and flags -/

theorem newDotall_on : TextScan.newDotall = true := by decide
theorem dotNew_true (c : Char) : dotNew c = true := by simp [dotNew, newDotall_on]

theorem space_blank : isReSpace ' ' = true := by decide
theorem word_blank : isReWord ' ' = false := by decide +kernel
theorem space_percent : isReSpace '%' = false := by decide

/-- no range of `\w` meets a range of `\s` -/
theorem ranges_disjoint :
    SanClass.reWordRanges.all (fun r => SanClass.reSpaceRanges.all (fun q => r.2 < q.1 || q.2 < r.1)) = true := by
  decide +kernel

theorem word_not_space {c : Char} (h : isReWord c = true) : isReSpace c = false := by
  have hd := ranges_disjoint
  simp only [isReWord, isReSpace, inRanges, List.any_eq_true, List.all_eq_true] at *
  obtain ⟨r, hr, hin⟩ := h
  cases hs : SanClass.reSpaceRanges.any (fun q => decide (q.1 ≤ c.toNat) && decide (c.toNat ≤ q.2)) with
  | false => rfl
  | true =>
    simp only [List.any_eq_true] at hs
    obtain ⟨q, hq, hinq⟩ := hs
    have := hd r hr q hq
    simp only [Bool.and_eq_true, decide_eq_true_eq, Bool.or_eq_true] at *
    omega

/-! ### scanner steps -/

/-- the last character of `x`, or `p` -/
def lastCh (p : Char) : Str → Char
  | [] => p
  | c :: r => lastCh c r

theorem lastCh_snoc (p : Char) (x : Str) (c : Char) : lastCh p (x ++ [c]) = c := by
  induction x generalizing p with
  | nil => rfl
  | cons d x ih => exact ih d

theorem scanNewGo_skip (x : Str) : ∀ (k : Nat) (p : Char) (acc y : Str), x.length = k →
    scanNewGo k p acc (x ++ y) = scanNewGo 0 (lastCh p x) acc y := by
  induction x with
  | nil => intro k p acc y h; simp at h; subst h; rfl
  | cons c x ih =>
    intro k p acc y h
    cases k with
    | zero => simp at h
    | succ k =>
      simp only [List.length_cons, Nat.add_right_cancel_iff] at h
      simp only [List.cons_append, scanNewGo, lastCh]
      exact ih k c acc y h

theorem scanNewGo_push {c p : Char} {acc X : Str}
    (h : c ≠ '{' ∨ p = '\\' ∨ (X.head? ≠ some '%' ∧ X.head? ≠ some '#')) :
    scanNewGo 0 p acc (c :: X) = scanNewGo 0 c (c :: acc) X := by
  conv => lhs; unfold scanNewGo
  split
  · rename_i hc
    simp only [Bool.and_eq_true, decide_eq_true_eq, bne_iff_ne, ne_eq] at hc
    obtain ⟨rfl, hp⟩ := hc
    rcases h with h | h | ⟨h1, h2⟩
    · exact absurd rfl h
    · exact absurd h hp
    · split
      · simp at h1
      · simp at h2
      · rfl
  · rfl

theorem scanNewGo_dir {p : Char} {acc r' : Str} {m : DirM} (hp : p ≠ '\\') (hm : matchDir r' = some m) :
    scanNewGo 0 p acc ('{' :: '%' :: r') =
      flushText acc ++ RTok.dir m.inner m.cmd m.val :: scanNewGo 0 '}' [] m.rest := by
  have hs := matchDir_spec hm
  have hk : scanNewGo (m.inner.length + 3) '{' [] ('%' :: r') = scanNewGo 0 '}' [] m.rest := by
    have e : '%' :: r' = ('%' :: m.inner ++ ['%'] ++ ['}']) ++ m.rest := by rw [hs]; simp
    rw [e, scanNewGo_skip _ (m.inner.length + 3) '{' [] m.rest (by simp), lastCh_snoc]
  conv => lhs; unfold scanNewGo
  simp [hp, hm, hk]

theorem scanNewGo_comment {p : Char} {acc r' body rest : Str} (hp : p ≠ '\\')
    (hm : matchComment r' = some (body, rest)) :
    scanNewGo 0 p acc ('{' :: '#' :: r') =
      flushText acc ++ RTok.comment body :: scanNewGo 0 '}' [] rest := by
  have hs := matchComment_spec hm
  have hk : scanNewGo (body.length + 3) '{' [] ('#' :: r') = scanNewGo 0 '}' [] rest := by
    have e : '#' :: r' = ('#' :: body ++ ['#'] ++ ['}']) ++ rest := by rw [hs]; simp
    rw [e, scanNewGo_skip _ (body.length + 3) '{' [] rest (by simp), lastCh_snoc]
  conv => lhs; unfold scanNewGo
  simp [hp, hm, hk]

/-! ### the escapes -/

theorem unescape_escape (s : Str) : unescapeNew (escapeNew s) = s := by
  fun_induction escapeNew s with
  | case1 => rfl
  | case2 r ih => simp [unescapeNew, ih]
  | case3 r ih => simp [unescapeNew, ih]
  | case4 r ih => simp [unescapeNew, ih]
  | case5 c r h1 h2 h3 ih =>
    unfold unescapeNew
    split <;> simp_all

theorem escape_head (r rest : Str) (hr1 : r.head? ≠ some '%') (hr2 : r.head? ≠ some '#')
    (h1 : rest.head? ≠ some '%') (h2 : rest.head? ≠ some '#') :
    (escapeNew r ++ rest).head? ≠ some '%' ∧ (escapeNew r ++ rest).head? ≠ some '#' := by
  fun_cases escapeNew r <;> simp_all

theorem escape_ne_nil {s : Str} (h : s ≠ []) : escapeNew s ≠ [] := by
  fun_cases escapeNew s <;> simp_all

theorem lastCh_escape (s : Str) : ∀ p, lastCh p (escapeNew s) = '\\' → lastCh p s = '\\' := by
  fun_induction escapeNew s with
  | case1 => intro p h; exact h
  | case2 r ih => intro p h; exact ih _ h
  | case3 r ih =>
    intro p h
    simp only [lastCh] at h ⊢
    exact ih _ h
  | case4 r ih =>
    intro p h
    simp only [lastCh] at h ⊢
    exact ih _ h
  | case5 c r h1 h2 h3 ih => intro p h; exact ih _ h

/-- escaped text is scanned as text: no directive or comment starts inside it -/
theorem scan_escaped (s : Str) : ∀ (p : Char) (acc rest : Str),
    rest.head? ≠ some '%' → rest.head? ≠ some '#' →
    scanNewGo 0 p acc (escapeNew s ++ rest) =
      scanNewGo 0 (lastCh p (escapeNew s)) ((escapeNew s).reverse ++ acc) rest := by
  fun_induction escapeNew s with
  | case1 => intro p acc rest _ _; rfl
  | case2 r ih =>
    intro p acc rest h1 h2
    simp only [List.cons_append]
    rw [scanNewGo_push (Or.inl (by decide)), scanNewGo_push (Or.inl (by decide)), ih _ _ _ h1 h2]
    simp [lastCh]
  | case3 r ih =>
    intro p acc rest h1 h2
    simp only [List.cons_append]
    rw [scanNewGo_push (Or.inl (by decide)), scanNewGo_push (Or.inr (Or.inl rfl)),
      scanNewGo_push (Or.inl (by decide)), ih _ _ _ h1 h2]
    simp [lastCh]
  | case4 r ih =>
    intro p acc rest h1 h2
    simp only [List.cons_append]
    rw [scanNewGo_push (Or.inl (by decide)), scanNewGo_push (Or.inr (Or.inl rfl)),
      scanNewGo_push (Or.inl (by decide)), ih _ _ _ h1 h2]
    simp [lastCh]
  | case5 c r hc1 hc2 hc3 ih =>
    intro p acc rest h1 h2
    simp only [List.cons_append]
    have hh : c ≠ '{' ∨ p = '\\' ∨ ((escapeNew r ++ rest).head? ≠ some '%' ∧ (escapeNew r ++ rest).head? ≠ some '#') := by
      by_cases hc : c = '{'
      · subst hc
        refine Or.inr (Or.inr (escape_head r rest ?_ ?_ h1 h2))
        · intro h; cases r with
          | nil => simp at h
          | cons d r' => simp at h; subst h; exact hc2 r' rfl rfl
        · intro h; cases r with
          | nil => simp at h
          | cons d r' => simp at h; subst h; exact hc3 r' rfl rfl
      · exact Or.inl hc
    rw [scanNewGo_push hh, ih _ _ _ h1 h2]
    simp [lastCh]

/-! ### printed directives and comments are matched -/

theorem span_all {p : Char → Bool} : ∀ (l l₂ : Str), (∀ a ∈ l, p a = true) →
    (∀ c, l₂.head? = some c → p c = false) →
    (l ++ l₂).takeWhile p = l ∧ (l ++ l₂).dropWhile p = l₂
  | [], [], _, _ => by simp
  | [], c :: r, _, h => by simp [h c rfl]
  | a :: l, l₂, h1, h2 => by
    have ha := h1 a (List.mem_cons_self ..)
    have := span_all l l₂ (fun b hb => h1 b (List.mem_cons_of_mem _ hb)) h2
    simp [ha, this.1, this.2]

theorem find2_none_cons {a b c : Char} {x : Str} (h : find2 a b (c :: x) = none) :
    ¬(c = a ∧ x.head? = some b) ∧ find2 a b x = none := by
  simp only [find2] at h
  split at h
  · simp at h
  · rename_i hc
    simp only [Bool.and_eq_true, decide_eq_true_eq] at hc
    refine ⟨hc, ?_⟩
    split at h
    · simp at h
    · assumption

theorem find2_append {a b : Char} : ∀ (x y : Str), find2 a b x = none → y.head? ≠ some b →
    find2 a b (x ++ y) = (find2 a b y).map (fun uv => (x ++ uv.1, uv.2))
  | [], y, _, _ => by simp only [List.nil_append]; cases find2 a b y <;> rfl
  | c :: x, y, h, hy => by
    obtain ⟨hc, hx⟩ := find2_none_cons h
    have ih := find2_append x y hx hy
    have hc' : ¬(c = a ∧ (x ++ y).head? = some b) := by
      rintro ⟨rfl, hh⟩
      cases x with
      | nil => exact hy (by simpa using hh)
      | cons d x' => exact hc ⟨rfl, by simpa using hh⟩
    simp only [List.cons_append, find2]
    rw [if_neg (by simpa using hc'), ih]
    cases find2 a b y <;> simp

theorem rstripBy_snoc {p : Char → Bool} (v : Str) {c : Char} (h : p c = true) :
    rstripBy p (v ++ [c]) = rstripBy p v := by
  simp [rstripBy, h]

theorem rstripBy_id {p : Char → Bool} (v : Str) (h : ∀ c, v.getLast? = some c → p c = false) :
    rstripBy p v = v := by
  unfold rstripBy
  cases hv : v.reverse with
  | nil => simp at hv; subst hv; rfl
  | cons c r =>
    have hl : v.getLast? = some c := by rw [← List.head?_reverse, hv]; rfl
    have hc := h c hl
    simp only [List.dropWhile_cons, hc]
    rw [← hv]; simp

/-- what makes `{% cmd val %}` a directive the documentation describes -/
structure OkDir (cmd val : Str) : Prop where
  cmd_ne : cmd ≠ []
  cmd_word : ∀ c ∈ cmd, isReWord c = true
  val_free : find2 '%' '}' val = none
  val_head : ∀ c, val.head? = some c → isReSpace c = false
  val_last : ∀ c, val.getLast? = some c → isReSpace c = false

/-- what follows `{%` in a printed directive -/
def dirTail (cmd val rest : Str) : Str :=
  ' ' :: (cmd ++ ' ' :: (if val.isEmpty then '%' :: '}' :: rest else val ++ ' ' :: '%' :: '}' :: rest))

theorem print_dir (cmd val rest : Str) :
    printNewTok (.dir cmd val) ++ rest = '{' :: '%' :: dirTail cmd val rest := by
  cases hv : val.isEmpty <;> simp [printNewTok, dirTail, hv]

theorem matchDir_print {cmd val : Str} (ok : OkDir cmd val) (rest : Str) :
    ∃ inner, matchDir (dirTail cmd val rest) = some ⟨inner, cmd, val, rest⟩ := by
  obtain ⟨c0, cmd', rfl⟩ := List.exists_cons_of_ne_nil ok.cmd_ne
  have hc0 : isReSpace c0 = false := word_not_space (ok.cmd_word c0 (List.mem_cons_self ..))
  -- the part after the command word
  generalize hZ : (if val.isEmpty then '%' :: '}' :: rest else val ++ ' ' :: '%' :: '}' :: rest) = Z
  have hZhead : ∀ c, Z.head? = some c → isReSpace c = false := by
    intro c hc
    subst hZ
    cases val with
    | nil => simp at hc; subst hc; exact space_percent
    | cons d v => simp at hc; subst hc; exact ok.val_head d rfl
  have hZfind : find2 '%' '}' Z = some (if val.isEmpty then [] else val ++ [' '], rest) := by
    subst hZ
    cases val with
    | nil => simp [find2]
    | cons d v =>
      have := find2_append (d :: v) (' ' :: '%' :: '}' :: rest) ok.val_free (by simp)
      simp only [List.isEmpty_cons, Bool.false_eq_true, if_false]
      rw [this]
      simp [find2]
  have hstrip : rstripBy isReSpace (if val.isEmpty then [] else val ++ [' ']) = val := by
    cases val with
    | nil => simp [rstripBy]
    | cons d v =>
      simp only [List.isEmpty_cons, Bool.false_eq_true, if_false]
      rw [rstripBy_snoc _ space_blank]
      exact rstripBy_id _ ok.val_last
  have s1 := span_all (p := isReSpace) [' '] ((c0 :: cmd') ++ ' ' :: Z) (by simp [space_blank])
    (by intro c hc; simp at hc; subst hc; exact hc0)
  have s2 := span_all (p := isReWord) (c0 :: cmd') (' ' :: Z) ok.cmd_word
    (by intro c hc; simp at hc; subst hc; exact word_blank)
  have s3 := span_all (p := isReSpace) [' '] Z (by simp [space_blank]) hZhead
  have e : dirTail (c0 :: cmd') val rest = [' '] ++ ((c0 :: cmd') ++ ' ' :: Z) := by
    unfold dirTail; rw [hZ]; rfl
  have e3 : (' ' :: Z) = [' '] ++ Z := rfl
  refine ⟨[' '] ++ (c0 :: cmd') ++ [' '] ++ (if val.isEmpty then [] else val ++ [' ']), ?_⟩
  unfold matchDir
  simp only [e, s1.1, s1.2, s2.1, s2.2]
  simp only [e3, s3.1, s3.2, hZfind, hstrip]
  simp [dotNew_true]

theorem matchComment_print {b : Str} (h : find2 '#' '}' b = none) (rest : Str) :
    matchComment (b ++ '#' :: '}' :: rest) = some (b, rest) := by
  unfold matchComment
  rw [find2_append b _ h (by simp)]
  simp [find2, dotNew_true]

/-! ### the round trip -/

def CTok.isText : CTok → Bool
  | .text _ => true
  | _ => false

/-- a construct the documentation describes: non-empty text; `{% word value %}` where the value
    holds no `%}` and starts and ends with a non-blank; a comment without `#}` inside -/
def OkTok : CTok → Prop
  | .text s => s ≠ []
  | .dir cmd val => OkDir cmd val
  | .comment b => find2 '#' '}' b = none

/-- well-formed token lists: every token is a documented construct, text tokens are maximal (no two
    in a row) and a text in front of a directive or comment does not end in a backslash (it would
    escape the delimiter: such a template cannot be written) -/
def WF : List CTok → Prop
  | [] => True
  | t :: ts => OkTok t ∧ WF ts ∧
      (∀ s, t = .text s → ∀ u, ts.head? = some u → u.isText = false ∧ lastCh ' ' s ≠ '\\')

theorem lastCh_cons (p q : Char) : ∀ (s : Str), s ≠ [] → lastCh p s = lastCh q s
  | [], h => absurd rfl h
  | _ :: _, _ => rfl

theorem print_head (ts : List CTok) (h : ∀ u, ts.head? = some u → u.isText = false) :
    (printNew ts).head? ≠ some '%' ∧ (printNew ts).head? ≠ some '#' := by
  cases ts with
  | nil => simp [printNew]
  | cons u r =>
    have hu := h u rfl
    cases u with
    | text s => simp [CTok.isText] at hu
    | dir cmd val => rw [printNew, print_dir]; simp
    | comment b => simp [printNew, printNewTok]

theorem scan_print_go : ∀ (ts : List CTok) (p : Char) (acc : Str), WF ts → (ts ≠ [] → p ≠ '\\') →
    (acc ≠ [] → ∀ u, ts.head? = some u → u.isText = false) →
    (scanNewGo 0 p acc (printNew ts)).map cook = (flushText acc).map cook ++ ts
  | [], p, acc, _, _, _ => by simp [printNew, scanNewGo]
  | .text s :: ts, p, acc, wf, hp, hacc => by
    obtain ⟨ok, wfts, hnext⟩ := wf
    have hacc0 : acc = [] := by
      cases acc with
      | nil => rfl
      | cons a acc' =>
        have := hacc (by simp) (.text s) rfl
        simp [CTok.isText] at this
    subst hacc0
    have hnt : ∀ u, ts.head? = some u → u.isText = false := fun u hu => (hnext s rfl u hu).1
    obtain ⟨h1, h2⟩ := print_head ts hnt
    have hne : escapeNew s ≠ [] := escape_ne_nil ok
    rw [printNew, show printNewTok (.text s) = escapeNew s from rfl, scan_escaped s p [] _ h1 h2]
    rw [scan_print_go ts _ _ wfts ?_ (fun _ => hnt)]
    · have hf : flushText ((escapeNew s).reverse ++ []) = [.text (escapeNew s)] := by
        unfold flushText
        simp [hne]
      rw [hf]
      simp [flushText, cook, unescape_escape]
    · intro hts hl
      obtain ⟨u, r, rfl⟩ := List.exists_cons_of_ne_nil hts
      have := (hnext s rfl u rfl).2
      have hl' := lastCh_escape s p hl
      rw [lastCh_cons p ' ' s ok] at hl'
      exact this hl'
  | .dir cmd val :: ts, p, acc, wf, hp, _ => by
    obtain ⟨ok, wfts, _⟩ := wf
    obtain ⟨inner, hm⟩ := matchDir_print ok (printNew ts)
    rw [printNew, print_dir, scanNewGo_dir (hp (by simp)) hm]
    simp only [List.map_append, List.map_cons, cook]
    rw [scan_print_go ts '}' [] wfts (fun _ => by decide) (fun h => absurd rfl h)]
    simp [flushText]
  | .comment b :: ts, p, acc, wf, hp, _ => by
    obtain ⟨ok, wfts, _⟩ := wf
    have hm := matchComment_print ok (printNew ts)
    have e : printNewTok (.comment b) ++ printNew ts = '{' :: '#' :: (b ++ '#' :: '}' :: printNew ts) := by
      simp [printNewTok]
    rw [printNew, e, scanNewGo_comment (hp (by simp)) hm]
    simp only [List.map_append, List.map_cons, cook]
    rw [scan_print_go ts '}' [] wfts (fun _ => by decide) (fun h => absurd rfl h)]
    simp [flushText]

/-- every well-formed token list, printed, is scanned to itself -/
theorem scan_print {ts : List CTok} (wf : WF ts) : (scanNew (printNew ts)).map cook = ts := by
  have := scan_print_go ts '\n' [] wf (fun _ => by decide) (fun h => absurd rfl h)
  simpa [scanNew, flushText] using this

end Genshi.Tmpl.Scan

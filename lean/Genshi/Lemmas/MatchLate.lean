/-
  C12 — registrations inside the stream.  A `py:match` directive that appears later in the template
  registers its template at that point of the stream: the part of the stream before it (a closed
  segment) is filtered with the templates registered so far, the part after it with the extended list.
  So a stream with registrations between closed segments is a sequence of registration-free segments,
  and the theorems about registration-free streams apply segment by segment; `lazy_eq_eager` is carried
  over to such streams here.
-/
import Genshi.Lemmas.MatchSplit
import Genshi.Lemmas.MatchEquiv
namespace Genshi.Match
open Genshi
variable {σ : Type}

/-- **A registration splits the stream.**  For a closed segment `A` (any items, registrations
    included), a registration `t` and any rest `B`: the filter over `A · reg t · B` is the filter over
    `A` with the list as it is — its output and the list it leaves do not depend on `t` or `B` —
    followed by the filter over `B` with `t` appended to that list. -/
theorem run_reg_split (f s : Nat) (en : Option Nat) (A : List (Item σ)) (t : MT σ) (B : List (Item σ))
    (M : List (MT σ)) (r : List (MT σ) × List Event) (hcl : Closed (evs A))
    (h : run f s en (A ++ .reg t :: B) M = some r) :
    ∃ r1 r2, run f s en A M = some r1 ∧ run f s en B (r1.1 ++ [t]) = some r2 ∧ r = (r2.1, r1.2 ++ r2.2) := by
  obtain ⟨r1, r2, h1, h2, h3⟩ := run_append f s en A (.reg t :: B) 0 M r hcl h
  refine ⟨r1, r2, h1, ?_, h3⟩
  obtain ⟨f0, rfl⟩ : ∃ f0, f = f0 + 1 := ⟨f - 1, by have := run_fuel_pos h2; omega⟩
  simp only [run] at h2
  exact run_mono _ _ _ _ _ _ h2

/-- streams whose registrations sit between closed, well-nested, registration-free segments
    (`py:match` declarations that are children of the template's root, before or between the content) -/
inductive Segmented : List (Item σ) → Prop
  | last (A : List (Item σ)) : NoReg A → Neutral (evs A) → Segmented A
  | cons (A : List (Item σ)) (t : MT σ) (rest : List (Item σ)) :
      NoReg A → Neutral (evs A) → Closed (evs A) → Segmented rest → Segmented (A ++ .reg t :: rest)

theorem runL_append (F : Nat) : ∀ (A B : List (Item σ)) (a : Auto) (m : List (MT σ)),
    runL F a (A ++ B) m = (runL F a A m).bind fun q => (runL F q.1 B q.2.1).map fun p => (p.1, p.2.1, q.2.2 ++ p.2.2) := by
  intro A
  induction A with
  | nil =>
    intro B a m
    simp only [List.nil_append, runL, Option.bind_some, List.nil_append]
    cases runL F a B m <;> simp
  | cons it rest ih =>
    intro B a m
    cases it with
    | reg t => simp only [List.cons_append, runL]; exact ih B a (m ++ [t])
    | ev e =>
      simp only [List.cons_append, runL]
      cases hf : feed F 0 none a e m with
      | none => simp
      | some q =>
        obtain ⟨a1, m1, o1⟩ := q
        simp only [ih B a1 m1]
        cases hr : runL F a1 rest m1 with
        | none => simp
        | some p =>
          obtain ⟨a2, m2, o2⟩ := p
          simp only [Option.bind_some]
          cases runL F a2 B m2 <;> simp [List.append_assoc]

/-- **lazy_eq_eager with registrations inside the stream.**  On every stream whose registrations sit
    between closed well-nested segments, the automaton (which honours `buffer="false"`) yields what the
    eager filter yields and leaves the same template list — for the templates registered before the
    stream and those registered inside it alike (bodies well nested, at most one `select()` when unbuffered). -/
theorem lazy_eq_eager_segmented : ∀ (items : List (Item σ)), Segmented items → ∀ (f : Nat) (mts : List (MT σ))
    (r : List (MT σ) × List Event), (∀ t ∈ mts, LazyOK t) → (∀ t, Item.reg t ∈ items → LazyOK t) →
    run f 0 none items mts = some r → ∀ F, f ≤ F → runL F .idle items mts = some (.idle, r.1, r.2) := by
  intro items hseg
  induction hseg with
  | last A hnr hneu =>
    intro f mts r hok _ h F hF
    rw [runL_noReg F A .idle mts hnr]
    exact auto_eq_run f 0 none A mts r hnr hneu hok h F hF
  | cons A t rest hnr hneu hcl _ ih =>
    intro f mts r hok hreg h F hF
    obtain ⟨r1, r2, h1, h2, rfl⟩ := run_reg_split f 0 none A t rest mts r hcl h
    have hA : runL F .idle A mts = some (.idle, r1.1, r1.2) := by
      rw [runL_noReg F A .idle mts hnr]
      exact auto_eq_run f 0 none A mts r1 hnr hneu hok h1 F hF
    have hok1 : ∀ x ∈ r1.1 ++ [t], LazyOK x := by
      intro x hx
      rcases List.mem_append.mp hx with hx | hx
      · exact run_forall static_lazyOK f 0 none A mts r1 hok (fun y hy => absurd hy (hnr y)) h1 x hx
      · simp only [List.mem_singleton] at hx
        subst hx
        exact hreg _ (by simp)
    have hrest := ih f (r1.1 ++ [t]) r2 hok1 (fun y hy => hreg y (by simp [hy])) h2 F hF
    rw [runL_append, hA]
    simp only [Option.bind_some, runL, hrest, Option.map_some]

end Genshi.Match

/-
  C05 stage 2 (child-axis chains): the nodes SimplePathStrategy reports for
  `t1/t2/…/tn` are the XPath node set, and `Path.select` emits its outermost
  members.
-/
import Genshi.Lemmas.PathSimple
import Genshi.Lemmas.PathSelect
namespace Genshi.Path
open Genshi Genshi.Path.Ref

section
variable (ns : NsMap)

/-- the nodes reached from `c` through child steps with the given tests, in document order -/
def chainAt : List NodeTest → LNode → List LNode
  | [], c => [c]
  | t :: rest, c => (childrenOf c).flatMap fun k => if t.matches (nodeEvent k.node) ns then chainAt rest k else []

/-- the same, over a list of sibling nodes numbered from `i` -/
def chainKids (t : NodeTest) (rest : List NodeTest) (loc : List Nat) : Nat → List Node → List LNode
  | _, [] => []
  | i, k :: ks =>
      (if t.matches (nodeEvent k) ns then chainAt ns rest ⟨loc ++ [i], k⟩ else []) ++ chainKids t rest loc (i + 1) ks

theorem chainAt_cons_elem (t : NodeTest) (rest : List NodeTest) (loc : List Nat) (tag : QName) (a : AttrList)
    (ks : List Node) :
    chainAt ns (t :: rest) ⟨loc, .elem tag a ks⟩ = chainKids ns t rest loc 0 ks := by
  have h : ∀ (ks : List Node) (i : Nat),
      ((ks.zipIdx i).map fun (k, j) => (⟨loc ++ [j], k⟩ : LNode)).flatMap
        (fun k => if t.matches (nodeEvent k.node) ns then chainAt ns rest k else [])
      = chainKids ns t rest loc i ks := by
    intro ks
    induction ks with
    | nil => intro i; simp [chainKids]
    | cons k ks ih => intro i; simp [chainKids, List.zipIdx_cons, ih (i + 1)]
  simp only [chainAt, childrenOf]
  exact h ks 0

theorem chainAt_cons_leaf (t : NodeTest) (rest : List NodeTest) (loc : List Nat) (e : Event) :
    chainAt ns (t :: rest) ⟨loc, .leaf e⟩ = [] := by
  simp [chainAt, childrenOf]

theorem pStep_end (frags : List Frag) (ic : Bool) (st : PState) (tag : QName) :
    pStep (some frags) ic ns st (.end_ tag) = (st.drop 1, .none) := by
  simp [pStep, Event.isEnd]

theorem drop_cons_info {α : Type} {l : List α} {p : Nat} {t : α} {r : List α} (h : l.drop p = t :: r) :
    l[p]? = some t ∧ l.drop (p + 1) = r ∧ ((p + 1 == l.length) = r.isEmpty) := by
  have h1 : l[p]? = some t := by
    have := congrArg List.head? h
    simpa [List.head?_drop] using this
  have h2 : l.drop (p + 1) = r := by
    have := congrArg List.tail h
    simpa [List.tail_drop] using this
  refine ⟨h1, h2, ?_⟩
  have hl : (l.drop p).length = r.length + 1 := by rw [h]; simp
  simp only [List.length_drop] at hl
  cases r with
  | nil => simp at hl ⊢; omega
  | cons x xs => simp at hl ⊢; omega

mutual
  /-- a dead subtree reports nothing -/
  theorem simple_dead (frags : List Frag) :
      ∀ (n : Node), n.clean = true → ∀ (rest : PState) (loc : List Nat),
        matched (runOne (pStep (some frags) false ns) (⟨none, false⟩ :: rest) n.flatten).1 (eventLocs n loc) = [] ∧
        (runOne (pStep (some frags) false ns) (⟨none, false⟩ :: rest) n.flatten).2 = ⟨none, false⟩ :: rest
    | .elem t a ks, hcl, rest, loc => by
        have hk := simple_deadList frags ks (by simpa [Node.clean] using hcl) (⟨none, false⟩ :: rest) loc 0
        simp only [Node.flatten, eventLocs, runOne_cons, runOne_append,
          pStep_dead ns frags (.start t a) rest rfl rfl, Event.isStart, if_true, matched, Val.truthy,
          Bool.false_eq_true, if_false, List.nil_append]
        rw [matched_append _ _ _ _ (by rw [runOne_length, eventLocsList_length]), hk.1, hk.2]
        simp [runOne, pStep_end, matched, Val.truthy]
    | .leaf e, hcl, rest, loc => by
        simp only [Node.clean, Bool.and_eq_true, Bool.not_eq_true'] at hcl
        obtain ⟨hend, hstart⟩ := isEnd_of_not_startEnd hcl.1
        simp [Node.flatten, eventLocs, runOne, pStep_dead ns frags e rest hend hcl.2, hstart, matched, Val.truthy]
  theorem simple_deadList (frags : List Frag) :
      ∀ (ks : List Node), cleanList ks = true → ∀ (rest : PState) (loc : List Nat) (i : Nat),
        matched (runOne (pStep (some frags) false ns) (⟨none, false⟩ :: rest) (flattenList ks)).1
            (eventLocsList ks loc i) = [] ∧
        (runOne (pStep (some frags) false ns) (⟨none, false⟩ :: rest) (flattenList ks)).2 = ⟨none, false⟩ :: rest
    | [], _, rest, loc, i => by simp [Genshi.flattenList, eventLocsList, runOne, matched]
    | k :: ks, hcl, rest, loc, i => by
        simp only [cleanList, Bool.and_eq_true] at hcl
        have h1 := simple_dead frags k hcl.1 rest (loc ++ [i])
        have h2 := simple_deadList frags ks hcl.2 rest loc (i + 1)
        simp only [Genshi.flattenList, eventLocsList, runOne_append]
        rw [matched_append _ _ _ _ (by rw [runOne_length, eventLocs_length]), h1.1, h1.2, h2.1, h2.2]
        exact ⟨rfl, rfl⟩
end

mutual
  /-- a node that is a candidate for `tests[p]` -/
  theorem simple_live (tests : List NodeTest) (pi : List Nat) :
      ∀ (n : Node), n.clean = true → ∀ (p : Nat) (t : NodeTest) (trest : List NodeTest), tests.drop p = t :: trest →
        ∀ (rest : PState) (loc : List Nat),
        matched (runOne (pStep (some [⟨tests, pi, none, false⟩]) false ns) (⟨some (0, p), false⟩ :: rest) n.flatten).1
            (eventLocs n loc)
          = (if t.matches (nodeEvent n) ns then chainAt ns trest ⟨loc, n⟩ else []) ∧
        (runOne (pStep (some [⟨tests, pi, none, false⟩]) false ns) (⟨some (0, p), false⟩ :: rest) n.flatten).2
          = ⟨some (0, p), false⟩ :: rest
    | .elem tag a ks, hcl, p, t, trest, hdrop, rest, loc => by
        obtain ⟨hget, hdrop', hlast⟩ := drop_cons_info hdrop
        have hkcl : cleanList ks = true := by simpa [Node.clean] using hcl
        simp only [Node.flatten, eventLocs, runOne_cons, runOne_append, nodeEvent,
          pStep_chain ns tests pi (.start tag a) p t rest hget rfl rfl, Event.isStart, if_true]
        by_cases hm : t.matches (.start tag a) ns = true
        · simp only [hm, Bool.not_true, Bool.false_eq_true, if_false, if_true, hlast]
          cases trest with
          | nil =>
            have hk := simple_deadList ns [⟨tests, pi, none, false⟩] ks hkcl (⟨some (0, p), false⟩ :: rest) loc 0
            simp only [List.isEmpty_nil, if_true, matched, Val.truthy, Option.toList]
            rw [matched_append _ _ _ _ (by rw [runOne_length, eventLocsList_length]), hk.1, hk.2]
            simp [runOne, pStep_end, matched, Val.truthy, chainAt]
          | cons t' trest' =>
            have hk := simple_liveList tests pi ks hkcl (p + 1) t' trest' hdrop' (⟨some (0, p), false⟩ :: rest) loc 0
            simp only [List.isEmpty_cons, Bool.false_eq_true, if_false, matched, Val.truthy, List.nil_append]
            rw [matched_append _ _ _ _ (by rw [runOne_length, eventLocsList_length]), hk.1, hk.2]
            simp [runOne, pStep_end, matched, Val.truthy, chainAt_cons_elem]
        · have hk := simple_deadList ns [⟨tests, pi, none, false⟩] ks hkcl (⟨some (0, p), false⟩ :: rest) loc 0
          simp only [hm, Bool.not_false, if_true, Bool.false_eq_true, if_false, matched, Val.truthy, List.nil_append]
          rw [matched_append _ _ _ _ (by rw [runOne_length, eventLocsList_length]), hk.1, hk.2]
          simp [runOne, pStep_end, matched, Val.truthy]
    | .leaf e, hcl, p, t, trest, hdrop, rest, loc => by
        obtain ⟨hget, hdrop', hlast⟩ := drop_cons_info hdrop
        simp only [Node.clean, Bool.and_eq_true, Bool.not_eq_true'] at hcl
        obtain ⟨hend, hstart⟩ := isEnd_of_not_startEnd hcl.1
        simp only [Node.flatten, eventLocs, runOne, nodeEvent,
          pStep_chain ns tests pi e p t rest hget hend hcl.2, hstart, Bool.false_eq_true, if_false]
        by_cases hm : t.matches e ns = true
        · cases trest with
          | nil => simp [hm, hlast, matched, Val.truthy, Option.toList, chainAt]
          | cons t' trest' => simp [hm, hlast, matched, Val.truthy, chainAt_cons_leaf]
        · simp [hm, matched, Val.truthy]
  theorem simple_liveList (tests : List NodeTest) (pi : List Nat) :
      ∀ (ks : List Node), cleanList ks = true → ∀ (p : Nat) (t : NodeTest) (trest : List NodeTest),
        tests.drop p = t :: trest → ∀ (rest : PState) (loc : List Nat) (i : Nat),
        matched (runOne (pStep (some [⟨tests, pi, none, false⟩]) false ns) (⟨some (0, p), false⟩ :: rest)
            (flattenList ks)).1 (eventLocsList ks loc i)
          = chainKids ns t trest loc i ks ∧
        (runOne (pStep (some [⟨tests, pi, none, false⟩]) false ns) (⟨some (0, p), false⟩ :: rest) (flattenList ks)).2
          = ⟨some (0, p), false⟩ :: rest
    | [], _, p, t, trest, _, rest, loc, i => by simp [Genshi.flattenList, eventLocsList, runOne, matched, chainKids]
    | k :: ks, hcl, p, t, trest, hdrop, rest, loc, i => by
        simp only [cleanList, Bool.and_eq_true] at hcl
        have h1 := simple_live tests pi k hcl.1 p t trest hdrop rest (loc ++ [i])
        have h2 := simple_liveList tests pi ks hcl.2 p t trest hdrop rest loc (i + 1)
        simp only [Genshi.flattenList, eventLocsList, runOne_append, chainKids]
        rw [matched_append _ _ _ _ (by rw [runOne_length, eventLocs_length]), h1.1, h1.2, h2.1, h2.2]
        exact ⟨rfl, rfl⟩
end

end

theorem gLoop_retval (steps : List Step) (rlen : Nat) (e : Event) (ns : NsMap) (vs : Vars)
    (hlast : lastResult steps e ns = .bool true) :
    ∀ (fuel : Nat) (q : List QEntry) (acc : GAcc), (acc.retval = .none ∨ acc.retval = .bool true) →
      ((gLoop steps rlen e ns vs fuel q acc).retval = .none ∨ (gLoop steps rlen e ns vs fuel q acc).retval = .bool true) := by
  intro fuel
  induction fuel with
  | zero => intro q acc h; simpa [gLoop] using h
  | succ fuel ih =>
    intro q acc h
    cases q with
    | nil => simpa [gLoop] using h
    | cons en q =>
      obtain ⟨x, pcou, mcou⟩ := en
      simp only [gLoop]
      cases steps[x]? with
      | none => exact h
      | some st =>
        simp only
        split
        · exact ih _ _ h
        · split
          · exact ih _ _ h
          · split
            · apply ih
              simp [hlast, Val.truthy]
            · exact ih _ _ h

theorem gStep_out (steps : List Step) (ns : NsMap) (vs : Vars) (hlast : ∀ e, lastResult steps e ns = .bool true)
    (st : GState) (e : Event) :
    (gStep steps ns vs st e).2 = .none ∨ ((gStep steps ns vs st e).2 = .bool true ∧ e.isEnd = false) := by
  by_cases he : e.isEnd = true
  · left; simp [gStep, he]
  · by_cases hm : e.isNsOrCdata = true
    · left; simp [gStep, he, hm]
    · have he' : e.isEnd = false := by simpa using he
      simp only [gStep, he', hm, Bool.false_eq_true, if_false]
      rcases gLoop_retval steps (realLen steps) e ns vs (hlast e) _ _ ⟨[], st.store, .none⟩ (Or.inl rfl) with h | h
      · exact Or.inl h
      · exact Or.inr ⟨h, trivial⟩

/-! ## Hereditarily hygienic trees -/

def qnOkB (q : QName) : Bool := nameOk q.loc && !(List.elem '}' q.ns)

theorem qnOk_of_B {q : QName} (h : qnOkB q = true) : qnOk q := by
  simp only [qnOkB, Bool.and_eq_true, Bool.not_eq_true', List.elem_eq_mem, decide_eq_false_iff_not] at h
  exact ⟨h.1, h.2⟩

mutual
  def _root_.Genshi.Node.good : Node → Bool
    | .elem t _ ks => qnOkB t && goodList ks
    | .leaf e => !e.isStartEnd && !e.isNsOrCdata
  def goodList : List Node → Bool
    | [] => true
    | n :: ns => n.good && goodList ns
end

theorem good_children (c : LNode) (hc : c.node.good = true) : ∀ k ∈ childrenOf c, k.node.good = true := by
  obtain ⟨loc, node⟩ := c
  cases node with
  | leaf e => intro k hk; simp [childrenOf] at hk
  | elem t a ks =>
    simp only [Node.good, Bool.and_eq_true] at hc
    have hall : ∀ (ks : List Node), goodList ks = true → ∀ k ∈ ks, k.good = true := by
      intro ks
      induction ks with
      | nil => intro _ k hk; simp at hk
      | cons x xs ih =>
        intro h k hk
        simp only [goodList, Bool.and_eq_true] at h
        rcases List.mem_cons.mp hk with h1 | h1
        · rw [h1]; exact h.1
        · exact ih h.2 k h1
    intro k hk
    simp only [childrenOf, List.mem_map] at hk
    obtain ⟨⟨k', j⟩, hmem, rfl⟩ := hk
    have := List.mem_zipIdx' hmem
    exact hall ks hc.2 k' (this.2 ▸ List.getElem_mem _)

theorem matches_eq_testNode (t : NodeTest) (ns : NsMap) (hwf : t.elemWf ns) (k : LNode) (hk : k.node.good = true) :
    t.matches (nodeEvent k.node) ns = testNode t k.node ns := by
  have := mtest_eq_testNode ⟨.child, t, []⟩ ns hwf k
    (by cases hn : k.node with
        | elem _ _ _ => trivial
        | leaf e => rw [hn] at hk; simp only [Node.good, Bool.and_eq_true, Bool.not_eq_true'] at hk; exact hk.1)
    (by cases hn : k.node with
        | elem tg _ _ => rw [hn] at hk; simp only [Node.good, Bool.and_eq_true] at hk; exact qnOk_of_B hk.1
        | leaf e => trivial)
  simpa [mtest] using this

theorem any_congr_mem {α : Type} {l : List α} {f g : α → Bool} (h : ∀ a ∈ l, f a = g a) : l.any f = l.any g := by
  induction l with
  | nil => rfl
  | cons x xs ih =>
    simp only [List.any_cons, h x List.mem_cons_self, ih (fun a ha => h a (List.mem_cons_of_mem _ ha))]

/-- the chain's candidates are the XPath node set -/
theorem chainAt_reach (ns : NsMap) (xvs : XVars) (tests : List NodeTest) (hwf : ∀ t ∈ tests, t.elemWf ns) :
    ∀ (c : LNode), c.node.good = true → ∀ (m : LNode),
      (chainAt ns tests c).any (fun x => x.loc == m.loc) = reach ns xvs (childChain tests) c m := by
  induction tests with
  | nil => intro c _ m; simp [chainAt, childChain, reach]
  | cons t rest ih =>
    intro c hc m
    have ih := ih (fun t' ht' => hwf t' (List.mem_cons_of_mem _ ht'))
    simp only [chainAt, childChain, List.map_cons, reach, stepNodes, filterPreds, List.foldl_nil, axisNodes,
      List.any_flatMap, List.any_filter]
    apply any_congr_mem
    intro k hk
    have hkg := good_children c hc k hk
    rw [← matches_eq_testNode t ns (hwf t List.mem_cons_self) k hkg]
    by_cases hm : t.matches (nodeEvent k.node) ns = true
    · simp only [hm, if_true, Bool.true_and]
      have := ih k hkg m
      simpa [childChain] using this
    · simp [hm]

/-! ## Assembly -/

theorem lastResult_chain (tests : List NodeTest) (hne : tests ≠ []) (e : Event) (ns : NsMap) :
    lastResult (dotSlash :: childChain tests) e ns = .bool true := by
  unfold lastResult
  cases hl : (dotSlash :: childChain tests).getLast? with
  | none => rfl
  | some last =>
    have hne' : childChain tests ≠ [] := by simpa [childChain] using hne
    rw [List.getLast?_cons_of_ne_nil hne'] at hl
    simp only [childChain, List.getLast?_map] at hl
    cases hg : tests.getLast? <;> simp [hg] at hl
    rw [← hl]; simp

/-- both strategies report the same on a child chain, and what they report are matches -/
theorem chain_runs (ns : NsMap) (vs : Vars) (tests : List NodeTest) (hne : tests ≠ [])
    (tag : QName) (attrs : AttrList) (kids : List Node) (hok : okList kids = true) :
    (runOne (gStep (dotSlash :: childChain tests) ns vs) gInit (Node.elem tag attrs kids).flatten).1
      = (runOne (pStep (some [⟨tests, calculatePi tests, none, false⟩]) false ns) [] (Node.elem tag attrs kids).flatten).1 := by
  simp only [Node.flatten, runOne_cons, runOne_append]
  rw [gStep_root_chain ns vs tests hne gInit tag attrs [] rfl,
      pStep_root ns tests hne _ (.start tag attrs) rfl rfl]
  have hi : RChain tests.length 1 ⟨[⟨1, [gInit.store.length]⟩] :: gInit.stack, gInit.store ++ [[]]⟩
      [⟨some (0, 0), false⟩] := by
    refine StkRel.one (Or.inl ⟨_, rfl, rfl, Nat.le_refl _, ?_⟩)
    cases tests with
    | nil => exact absurd rfl hne
    | cons _ _ => simp
  have hk := (sim_chain ns vs tests hne (calculatePi tests)).flattenList kids hok 1 (Nat.le_refl _) _ _ hi
  rw [hk.1]
  simp [runOne, gStep_end, pStep, Event.isEnd]

theorem ok_of_clean : ∀ (n : Node), n.clean = true → n.ok = true
  | .elem _ _ ks, h => by
      simp only [Node.clean] at h
      simp only [Node.ok]
      exact okList_of_clean ks h
  | .leaf e, h => by
      simp only [Node.clean, Bool.and_eq_true, Bool.not_eq_true'] at h
      simp [Node.ok, h.1]
where
  okList_of_clean : ∀ (ks : List Node), cleanList ks = true → okList ks = true
    | [], _ => rfl
    | k :: ks, h => by
        simp only [cleanList, Bool.and_eq_true] at h
        simp [okList, ok_of_clean k h.1, okList_of_clean ks h.2]

theorem clean_of_good : ∀ (n : Node), n.good = true → n.clean = true
  | .elem _ _ ks, h => by
      simp only [Node.good, Bool.and_eq_true] at h
      simp only [Node.clean]
      exact cleanList_of_good ks h.2
  | .leaf e, h => by simpa [Node.good, Node.clean] using h
where
  cleanList_of_good : ∀ (ks : List Node), goodList ks = true → cleanList ks = true
    | [], _ => rfl
    | k :: ks, h => by
        simp only [goodList, Bool.and_eq_true] at h
        simp [cleanList, clean_of_good k h.1, cleanList_of_good ks h.2]

/-- SimplePathStrategy's matches on a child chain are `chainAt` -/
theorem simple_chain_matches (ns : NsMap) (tests : List NodeTest) (hne : tests ≠ [])
    (tag : QName) (attrs : AttrList) (kids : List Node) (hcl : cleanList kids = true) :
    matched (runOne (pStep (some [⟨tests, calculatePi tests, none, false⟩]) false ns) []
        (Node.elem tag attrs kids).flatten).1 (eventLocs (.elem tag attrs kids) [])
      = chainAt ns tests ⟨[], .elem tag attrs kids⟩ := by
  cases tests with
  | nil => exact absurd rfl hne
  | cons t trest =>
    simp only [Node.flatten, eventLocs, runOne_cons, runOne_append]
    rw [pStep_root ns (t :: trest) hne _ (.start tag attrs) rfl rfl]
    have hk := simple_liveList ns (t :: trest) (calculatePi (t :: trest)) kids hcl 0 t trest rfl [] [] 0
    simp only [matched, Val.truthy, Bool.false_eq_true, if_false, List.nil_append]
    rw [matched_append _ _ _ _ (by rw [runOne_length, eventLocsList_length]), hk.1, hk.2]
    simp [runOne, pStep_end, matched, Val.truthy, chainAt_cons_elem]

end Genshi.Path

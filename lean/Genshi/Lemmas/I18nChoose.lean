/-
  C19 — `i18n:choose` under a catalogue that answers with the selected form unchanged: the
  chosen branch comes out with its content unchanged up to the white space at its edges.
-/
import Genshi.Lemmas.I18nTrim
import Genshi.Model.I18nChoose
import Genshi.Lemmas.I18n
namespace Genshi.I18n
open Genshi

theorem choosePass1_plain (params : List Str) (pl : Bool) : ∀ (evs rest : List TEvent) (st : ChooseState),
    (∀ e ∈ evs, isBranchSub e = false) →
    choosePass1 params pl (evs ++ rest) st =
      choosePass1 params pl rest { st with newStream := st.newStream ++ evs.map some }
  | [], rest, st, _ => by simp
  | e :: evs, rest, st, h => by
      have he : isBranchSub e = false := h e (by simp)
      have ih := choosePass1_plain params pl evs rest
        { st with newStream := st.newStream ++ [some e] } (fun x hx => h x (by simp [hx]))
      cases e with
      | sub dirs body =>
        simp only [isBranchSub] at he
        simp only [List.cons_append, choosePass1, he, Bool.false_eq_true, ↓reduceIte]
        rw [ih]; simp [List.append_assoc]
      | start _ _ => simp only [List.cons_append, choosePass1]; rw [ih]; simp [List.append_assoc]
      | end_ _ => simp only [List.cons_append, choosePass1]; rw [ih]; simp [List.append_assoc]
      | text _ => simp only [List.cons_append, choosePass1]; rw [ih]; simp [List.append_assoc]
      | expr _ _ => simp only [List.cons_append, choosePass1]; rw [ih]; simp [List.append_assoc]
      | exec _ => simp only [List.cons_append, choosePass1]; rw [ih]; simp [List.append_assoc]
      | other _ => simp only [List.cons_append, choosePass1]; rw [ih]; simp [List.append_assoc]

theorem choosePass2_plain (c : Except Err (List TEvent)) : ∀ (evs : List TEvent) (rest : List (Option TEvent)),
    choosePass2 c (evs.map some ++ rest) = (choosePass2 c rest).map (evs ++ ·)
  | [], rest => by cases h : choosePass2 c rest <;> simp [Except.map, h]
  | e :: evs, rest => by
      simp only [List.map_cons, List.cons_append, choosePass2, bind, Except.bind]
      rw [choosePass2_plain c evs rest]
      cases h : choosePass2 c rest <;> simp [Except.map, pure, Except.pure]

/-- the branch `<t i18n:singular="">content</t>`: its buffer is the buffer of the content -/
theorem branchCall_elem (params : List Str) (t : QName) (a : TAttrs) (evs : List TEvent) (b : MB)
    (h : mbAppendList (MB.new params) evs = .ok b) :
    ∃ bevs, branchCall params (.start t a :: (evs ++ [.end_ t])) = .ok (bevs, b) ∧
      ∀ tr, emitChoice tr bevs = tr.map (fun x => .start t a :: (x ++ [.end_ t])) := by
  refine ⟨[.ev (.start t a), .msgbuf, .ev (.end_ t)], ?_, ?_⟩
  · simp [branchCall, msgBuffer, TEvent.isStart, TEvent.isEnd, h, bind, Except.bind, pure, Except.pure]
  · intro tr
    cases tr <;> simp [emitChoice, bind, Except.bind, pure, Except.pure, Except.map]

/-- **identity_transparent for i18n:choose.**  `ChooseDirective.__call__` over
    `pre  <ts i18n:singular>Fs</ts>  mid  <tp i18n:plural>Fp</tp>  post` with a catalogue that
    answers with the selected message unchanged: the chosen branch takes the place of the
    singular one, its content unchanged up to the white space at its edges; everything else
    passes. -/
theorem chooseCall_identity (pre mid post : List TEvent) (ts tp : QName) (as ap : TAttrs)
    (Fs Fp : List MNode) (es ep : List Str) (params : List Str) (isPlural : Bool)
    (hpre : ∀ e ∈ pre, isBranchSub e = false) (hmid : ∀ e ∈ mid, isBranchSub e = false)
    (hpost : ∀ e ∈ post, isBranchSub e = false)
    (hps : params = namesM Fs ++ es) (hpp : params = namesM Fp ++ ep)
    (hcs : cleanM Fs = true) (hnas : deepNoAdjM Fs = true) (hnds : (namesM Fs).Nodup)
    (hcp : cleanM Fp = true) (hnap : deepNoAdjM Fp = true) (hndp : (namesM Fp).Nodup)
    (hsos : subsOKM false Fs = true) (hsop : subsOKM false Fp = true) :
    chooseCall params isPlural (fun s p => if isPlural then p else s)
        (pre ++ .sub [.singular] (.start ts as :: (flattenM Fs ++ [.end_ ts])) ::
          (mid ++ .sub [.plural] (.start tp ap :: (flattenM Fp ++ [.end_ tp])) :: post)) =
      some (.ok (pre ++ ((if isPlural then .start tp ap :: (coalesce (flattenM (trimF Fp)) ++ [.end_ tp])
                          else .start ts as :: (coalesce (flattenM (trimF Fs)) ++ [.end_ ts])) ++ (mid ++ post)))) := by
  obtain ⟨bS, hbS, htrS⟩ := translate_format_self Fs es hcs hnas hnds hsos
  obtain ⟨bP, hbP, htrP⟩ := translate_format_self Fp ep hcp hnap hndp hsop
  rw [← hps] at hbS
  rw [← hpp] at hbP
  obtain ⟨evS, hcallS, hemS⟩ := branchCall_elem params ts as (flattenM Fs) bS hbS
  obtain ⟨evP, hcallP, hemP⟩ := branchCall_elem params tp ap (flattenM Fp) bP hbP
  unfold chooseCall
  rw [choosePass1_plain params isPlural pre _ _ hpre]
  simp only [choosePass1, List.any_cons, Dir.isBranch, List.any_nil, Bool.or_false, ↓reduceIte, hcallS]
  rw [choosePass1_plain params isPlural mid _ _ hmid]
  cases isPlural with
  | false =>
    simp only [choosePass1, List.any_cons, Dir.isBranch, List.any_nil, Bool.or_false, ↓reduceIte, Bool.false_eq_true]
    have := choosePass1_plain params false post [] ⟨([] ++ pre.map some ++ [none]) ++ mid.map some, some (evS, bS), none⟩ hpost
    simp only [List.append_nil] at this
    rw [this]
    simp only [choosePass1, pure, Except.pure, Bool.false_eq_true, ↓reduceIte, hemS, htrS, Except.map]
    simp only [List.nil_append, List.append_assoc]
    rw [choosePass2_plain]
    simp only [List.cons_append, List.nil_append, choosePass2, bind, Except.bind]
    rw [choosePass2_plain]
    have hpostmap : choosePass2 (Except.ok (.start ts as :: (coalesce (flattenM (trimF Fs)) ++ [.end_ ts]))) (post.map some) = .ok post := by
      have := choosePass2_plain (Except.ok (.start ts as :: (coalesce (flattenM (trimF Fs)) ++ [.end_ ts]))) post []
      simpa [choosePass2, Except.map, pure, Except.pure] using this
    rw [hpostmap]
    simp [Except.map, pure, Except.pure, List.append_assoc]
  | true =>
    simp only [choosePass1, List.any_cons, Dir.isBranch, List.any_nil, Bool.or_false, ↓reduceIte, hcallP]
    have := choosePass1_plain params true post [] ⟨([] ++ pre.map some ++ [none]) ++ mid.map some, some (evS, bS), some (evP, bP)⟩ hpost
    simp only [List.append_nil] at this
    rw [this]
    simp only [choosePass1, pure, Except.pure, ↓reduceIte, hemP, htrP, Except.map]
    simp only [List.nil_append, List.append_assoc]
    rw [choosePass2_plain]
    simp only [List.cons_append, List.nil_append, choosePass2, bind, Except.bind]
    rw [choosePass2_plain]
    have hpostmap : choosePass2 (Except.ok (.start tp ap :: (coalesce (flattenM (trimF Fp)) ++ [.end_ tp]))) (post.map some) = .ok post := by
      have := choosePass2_plain (Except.ok (.start tp ap :: (coalesce (flattenM (trimF Fp)) ++ [.end_ tp]))) post []
      simpa [choosePass2, Except.map, pure, Except.pure] using this
    rw [hpostmap]
    simp [Except.map, pure, Except.pure, List.append_assoc]

end Genshi.I18n

namespace Genshi.I18n
open Genshi

/-- for streams without SUB events, "same up to directive order" is equality -/
theorem sameList_eq_of_noSub : ∀ (s s' : List TEvent), (s.all fun e => match e with | .sub _ _ => false | _ => true) = true →
    sameList s s' = true → s' = s
  | [], [], _, _ => rfl
  | [], _ :: _, _, h => by simp [sameList] at h
  | _ :: _, [], _, h => by simp [sameList] at h
  | e :: es, e' :: es', hn, h => by
      simp only [List.all_cons, Bool.and_eq_true] at hn
      simp only [sameList, Bool.and_eq_true] at h
      have he : e' = e := by
        cases e <;> simp_all [sameEv]
      rw [he, sameList_eq_of_noSub es es' hn.2 h.2]

mutual
  /-- no element of the message carries a directive -/
  def MNode.plainN : MNode → Bool
    | .elem sd _ _ ks => sd.isNone && plainM ks
    | _ => true
  def plainM : List MNode → Bool
    | [] => true
    | n :: ns => n.plainN && plainM ns
end

mutual
  theorem MNode.subsOK_of_plain : ∀ (n : MNode) (i : Bool), n.plainN = true → n.subsOK i = true
    | .text _, _, _ => rfl
    | .expr _ _ _, _, _ => rfl
    | .elem sd _ _ ks, i, h => by
        simp only [MNode.plainN, Bool.and_eq_true, Option.isNone_iff_eq_none] at h
        obtain ⟨rfl, hk⟩ := h
        simp [MNode.subsOK, subsOKM_of_plain ks i hk]
  theorem subsOKM_of_plain : ∀ (ns : List MNode) (i : Bool), plainM ns = true → subsOKM i ns = true
    | [], _, _ => rfl
    | n :: ns, i, h => by
        simp only [plainM, Bool.and_eq_true] at h
        simp [subsOKM, MNode.subsOK_of_plain n i h.1, subsOKM_of_plain ns i h.2]
end

mutual
  theorem MNode.flatten_noSub : ∀ (n : MNode), n.plainN = true →
      (n.flatten.all fun e => match e with | .sub _ _ => false | _ => true) = true
    | .text _, _ => rfl
    | .expr _ _ _, _ => rfl
    | .elem sd _ _ ks, h => by
        simp only [MNode.plainN, Bool.and_eq_true, Option.isNone_iff_eq_none] at h
        obtain ⟨rfl, hk⟩ := h
        simp only [MNode.flatten, List.all_cons, List.all_append, List.all_nil, Bool.and_true, Bool.true_and]
        exact flattenM_noSub ks hk
  theorem flattenM_noSub : ∀ (ns : List MNode), plainM ns = true →
      ((flattenM ns).all fun e => match e with | .sub _ _ => false | _ => true) = true
    | [], _ => rfl
    | n :: ns, h => by
        simp only [plainM, Bool.and_eq_true] at h
        simp only [flattenM, List.all_append, Bool.and_eq_true]
        exact ⟨MNode.flatten_noSub n h.1, flattenM_noSub ns h.2⟩
end

/-- **identity_transparent, pass and directive together**: the translation pass under the
    identity catalogue followed by `MsgDirective.__call__` under the identity catalogue -/
theorem pass_then_msg_identity (cfg : Cfg) (ctx : Ctx) (ta : Bool) (t : QName) (a : TAttrs) (F : List MNode)
    (extra : List Str) (hc : cleanM F = true) (hna : deepNoAdjM F = true) (hnd : (namesM F).Nodup)
    (hpl : plainM F = true)
    (hattr : cleanList cfg (.start t a :: (flattenM F ++ [.end_ t])) = true) :
    msgGenerate (namesM F ++ extra) (fun s => s)
        (trList cfg Catalog.id ctx false ta 0 (.start t a :: (flattenM F ++ [.end_ t]))) =
      .ok (.start t a :: (coalesce (flattenM (trimF F)) ++ [.end_ t])) := by
  have hns : ((TEvent.start t a :: (flattenM F ++ [.end_ t])).all fun e => match e with | .sub _ _ => false | _ => true) = true := by
    simp only [List.all_cons, List.all_append, List.all_nil, Bool.and_true, Bool.true_and]
    exact flattenM_noSub F hpl
  have hs := trList_id_same cfg ctx false ta 0 _ hattr
  rw [sameList_eq_of_noSub _ _ hns hs]
  exact msgGenerate_identity_attr t a F extra hc hna hnd (subsOKM_of_plain F false hpl)

end Genshi.I18n

/-
  The injector loops with a content that VARIES from injection to injection (`runGoL`,
  `prependL`, `appendGoL` of `TfTraceDefs.lean`: what a link that reads a `StreamBuffer` lazily
  computes) keep a `Good` stream `Good` and balanced the same way, as long as every single
  content is unmarked and balanced on its own (`VOk`).  Generalises `runGo_balance` /
  `runGo_good`, `prepend_*`, `append_*`.
-/
import Genshi.Lemmas.TfTraceDefs
namespace Genshi.Tf

/-! ### admissible contents -/

theorem VOk.nil : VOk [] := ⟨fun p hp => by simp at hp, Bal.nil⟩

theorem VOk.headD {l : List MStream} (h : ∀ c ∈ l, VOk c) : VOk (l.headD []) := by
  cases l with
  | nil => exact VOk.nil
  | cons c l => exact h c (by simp)

theorem VOk.tail {l : List MStream} (h : ∀ c ∈ l, VOk c) : ∀ c ∈ l.tail, VOk c :=
  fun c hc => h c (List.mem_of_mem_tail hc)

/-! ### `runGoL` on blocks and brackets (mirrors `runGo_inRun_block` …) -/

section run
variable (keep : Bool)

theorem runGoL_inRun_block (pres posts : List MStream) (m : Mark) (blk s : MStream) (h : Uniform m blk) :
    runGoL keep (.inRun m) pres posts (blk ++ s) = K keep blk ++ runGoL keep (.inRun m) pres posts s := by
  induction blk with
  | nil => simp [K]
  | cons p blk ih =>
    obtain ⟨m', x⟩ := p
    have hm : m' = some m := h (m', x) (by simp)
    have hu : Uniform m blk := fun q hq => h q (by simp [hq])
    subst hm
    simp only [List.cons_append, runGoL, ↓reduceIte, ih hu]
    cases keep <;> simp [K]

theorem runGoL_idle_block (pres posts : List MStream) (m : Mark) (hm : m ≠ .enter) (p : MItem)
    (blk s : MStream) (h : Uniform m (p :: blk)) :
    runGoL keep .idle pres posts ((p :: blk) ++ s) =
      pres.headD [] ++ (K keep (p :: blk) ++ runGoL keep (.inRun m) pres.tail posts s) := by
  obtain ⟨m', x⟩ := p
  have hm' : m' = some m := h (m', x) (by simp)
  have hu : Uniform m blk := fun q hq => h q (by simp [hq])
  subst hm'
  simp only [List.cons_append, runGoL, startSt, hm, ↓reduceIte,
    runGoL_inRun_block keep pres.tail posts m blk s hu]
  cases keep <;> simp [K]

theorem runGoL_inRun_other (pres posts : List MStream) (m0 m : Mark) (hne : m ≠ m0) (hm : m ≠ .enter)
    (p : MItem) (blk s : MStream) (h : Uniform m (p :: blk)) :
    runGoL keep (.inRun m0) pres posts ((p :: blk) ++ s) =
      posts.headD [] ++ (pres.headD [] ++ (K keep (p :: blk) ++
        runGoL keep (.inRun m) pres.tail posts.tail s)) := by
  obtain ⟨m', x⟩ := p
  have hm' : m' = some m := h (m', x) (by simp)
  have hu : Uniform m blk := fun q hq => h q (by simp [hq])
  subst hm'
  have : (some m = some m0) = False := by simp [hne]
  simp only [List.cons_append, runGoL, this, ↓reduceIte, startSt, hm,
    runGoL_inRun_block keep pres.tail posts.tail m blk s hu]
  cases keep <;> simp [K]

theorem runGoL_inEnter_mid (pres posts : List MStream) (mid : MStream) (x : MEv) (s : MStream)
    (h : NoExit mid) :
    runGoL keep .inEnter pres posts (mid ++ (some .exit, x) :: s) =
      K keep (mid ++ [(some .exit, x)]) ++ (posts.headD [] ++ runGoL keep .idle pres posts.tail s) := by
  induction mid with
  | nil => cases keep <;> simp [runGoL, K]
  | cons p mid ih =>
    obtain ⟨m', y⟩ := p
    have hp : m' ≠ some .exit := h (m', y) (by simp)
    have hu : NoExit mid := fun q hq => h q (by simp [hq])
    simp only [List.cons_append, runGoL, hp, ↓reduceIte, ih hu]
    cases keep <;> simp [K]

theorem runGoL_idle_elem (pres posts : List MStream) (e : MEv) (mid : MStream) (x : MEv) (s : MStream)
    (h : NoExit mid) :
    runGoL keep .idle pres posts ((some .enter, e) :: (mid ++ (some .exit, x) :: s)) =
      pres.headD [] ++ (K keep ((some .enter, e) :: (mid ++ [(some .exit, x)])) ++
        (posts.headD [] ++ runGoL keep .idle pres.tail posts.tail s)) := by
  simp only [runGoL, startSt, ↓reduceIte, runGoL_inEnter_mid keep pres.tail posts mid x s h]
  cases keep <;> simp [K]

theorem runGoL_inRun_elem (pres posts : List MStream) (m0 : Mark) (hm0 : m0 ≠ .enter) (e : MEv)
    (mid : MStream) (x : MEv) (s : MStream) (h : NoExit mid) :
    runGoL keep (.inRun m0) pres posts ((some .enter, e) :: (mid ++ (some .exit, x) :: s)) =
      posts.headD [] ++ (pres.headD [] ++ (K keep ((some .enter, e) :: (mid ++ [(some .exit, x)])) ++
        (posts.tail.headD [] ++ runGoL keep .idle pres.tail posts.tail.tail s))) := by
  have : (some Mark.enter = some m0) = False := by
    simp; intro h; exact hm0 h.symm
  simp only [runGoL, this, ↓reduceIte, startSt, runGoL_inEnter_mid keep pres.tail posts.tail mid x s h]
  cases keep <;> simp [K]

theorem runGoL_inRun_nil (pres posts : List MStream) (m : Mark) :
    runGoL keep (.inRun m) pres posts [] = posts.headD [] := by
  simp [runGoL]

theorem runGoL_idle_nil (pres posts : List MStream) :
    runGoL keep .idle pres posts [] = [] := by
  simp [runGoL]

theorem runGoL_idle_plain (pres posts : List MStream) (x : MEv) (s : MStream) :
    runGoL keep .idle pres posts ((none, x) :: s) = (none, x) :: runGoL keep .idle pres posts s := by
  simp [runGoL]

theorem runGoL_inRun_plain (pres posts : List MStream) (m : Mark) (x : MEv) (s : MStream) :
    runGoL keep (.inRun m) pres posts ((none, x) :: s) =
      posts.headD [] ++ (none, x) :: runGoL keep .idle pres posts.tail s := by
  have hne : ((none : Option Mark) = some m) = False := by simp
  simp only [runGoL, hne, ↓reduceIte]

end run

/-! ### balance -/

theorem balance_unmark_plain_congr (x : MEv) {a b : MStream}
    (h : ∀ st, balance st (unmark a) = balance st (unmark b)) (st : List QName) :
    balance st (unmark ((none, x) :: a)) = balance st (unmark ((none, x) :: b)) := by
  cases x with
  | ev e => simp only [unmark]; exact balance_cons_congr e h st
  | attr t a => simp only [unmark]; exact h st
  | brk => simp only [unmark]; exact h st

/-- the induction behind `runGoL_balance`: the outer loop and the inner loop of a run of another
    mark than ENTER, for all lists of contents at once -/
theorem runGoL_balance_aux (keep : Bool) {s : MStream} (hg : Good s) :
    ∀ (pres posts : List MStream), (∀ c ∈ pres, VOk c) → (∀ c ∈ posts, VOk c) →
      (∀ st, balance st (unmark (runGoL keep .idle pres posts s)) = balance st (unmark s)) ∧
      (∀ m, m ≠ .enter → ∀ st,
        balance st (unmark (runGoL keep (.inRun m) pres posts s)) = balance st (unmark s)) := by
  induction hg with
  | nil =>
    intro pres posts _ hposts
    refine ⟨fun st => by rw [runGoL_idle_nil], fun m _ st => ?_⟩
    rw [runGoL_inRun_nil]
    have := balance_bal st (VOk.headD hposts).2 []
    simpa [unmark] using this
  | @plain x s' _ ih =>
    intro pres posts hpres hposts
    have ha : ∀ (pres posts : List MStream), (∀ c ∈ pres, VOk c) → (∀ c ∈ posts, VOk c) →
        ∀ st, balance st (unmark (runGoL keep .idle pres posts ((none, x) :: s'))) =
          balance st (unmark ((none, x) :: s')) := by
      intro pres posts hpres hposts st
      rw [runGoL_idle_plain]
      exact balance_unmark_plain_congr x (ih pres posts hpres hposts).1 st
    refine ⟨ha pres posts hpres hposts, fun m _ st => ?_⟩
    rw [runGoL_inRun_plain, unmark_append, balance_bal st (VOk.headD hposts).2,
      ← runGoL_idle_plain]
    exact ha pres posts.tail hpres (VOk.tail hposts) st
  | @block m' blk s' hne hnx hu hb _ ih =>
    intro pres posts hpres hposts
    cases blk with
    | nil => simpa using ih pres posts hpres hposts
    | cons p blk =>
      have hK := unmark_K_bal keep (p :: blk) hb
      constructor
      · intro st
        rw [runGoL_idle_block keep pres posts m' hne p blk _ hu]
        simp only [unmark_append]
        rw [balance_bal st (VOk.headD hpres).2, balance_bal st hK,
          (ih pres.tail posts (VOk.tail hpres) hposts).2 m' hne st, balance_bal st hb]
      · intro m hm st
        by_cases hmm : m' = m
        · subst hmm
          rw [runGoL_inRun_block keep pres posts m' (p :: blk) _ hu]
          simp only [unmark_append]
          rw [balance_bal st hK, (ih pres posts hpres hposts).2 m' hm st, balance_bal st hb]
        · rw [runGoL_inRun_other keep pres posts m m' hmm hne p blk _ hu]
          simp only [unmark_append]
          rw [balance_bal st (VOk.headD hposts).2, balance_bal st (VOk.headD hpres).2,
            balance_bal st hK,
            (ih pres.tail posts.tail (VOk.tail hpres) (VOk.tail hposts)).2 m' hne st,
            balance_bal st hb]
  | @elem t a mid s' hf hb _ ih =>
    intro pres posts hpres hposts
    have hE : Bal (unmark ((some Mark.enter, MEv.ev (.start t a)) ::
        (mid ++ [(some Mark.exit, MEv.ev (.end_ t))]))) := by
      rw [unmark_elem']; exact bal_elem t a hb
    have hK := unmark_K_bal keep _ hE
    constructor
    · intro st
      rw [runGoL_idle_elem keep pres posts _ mid _ _ hf.noExit]
      simp only [unmark_append]
      rw [balance_bal st (VOk.headD hpres).2, balance_bal st hK,
        balance_bal st (VOk.headD hposts).2,
        (ih pres.tail posts.tail (VOk.tail hpres) (VOk.tail hposts)).1 st, unmark_elem,
        balance_bal st (bal_elem t a hb)]
    · intro m hm st
      rw [runGoL_inRun_elem keep pres posts m hm _ mid _ _ hf.noExit]
      simp only [unmark_append]
      rw [balance_bal st (VOk.headD hposts).2, balance_bal st (VOk.headD hpres).2,
        balance_bal st hK, balance_bal st (VOk.headD (VOk.tail hposts)).2,
        (ih pres.tail posts.tail.tail (VOk.tail hpres) (VOk.tail (VOk.tail hposts))).1 st,
        unmark_elem, balance_bal st (bal_elem t a hb)]

/-- replace / before / after with a content that varies from selection to selection: the output
    is balanced exactly as the input is -/
theorem runGoL_balance (keep : Bool) {s : MStream} (hg : Good s) :
    ∀ (pres posts : List MStream), (∀ c ∈ pres, VOk c) → (∀ c ∈ posts, VOk c) →
    ∀ st, balance st (unmark (runGoL keep .idle pres posts s)) = balance st (unmark s) :=
  fun pres posts hpres hposts => (runGoL_balance_aux keep hg pres posts hpres hposts).1

theorem runGoL_wellNested (keep : Bool) {s : MStream} (hg : Good s) (pres posts : List MStream)
    (hpres : ∀ c ∈ pres, VOk c) (hposts : ∀ c ∈ posts, VOk c) (hwn : WellNested (unmark s)) :
    WellNested (unmark (runGoL keep .idle pres posts s)) := by
  unfold WellNested; rw [runGoL_balance keep hg pres posts hpres hposts]; exact hwn

/-! ### `Good` -/

theorem runGoL_good_aux (keep : Bool) {s : MStream} (hg : Good s) :
    ∀ (pres posts : List MStream), (∀ c ∈ pres, VOk c) → (∀ c ∈ posts, VOk c) →
      Good (runGoL keep .idle pres posts s) ∧
      (∀ m, m ≠ .enter → Good (runGoL keep (.inRun m) pres posts s)) := by
  induction hg with
  | nil =>
    intro pres posts _ hposts
    refine ⟨by rw [runGoL_idle_nil]; exact Good.nil, fun m _ => ?_⟩
    rw [runGoL_inRun_nil]
    simpa using Good.append_plain (VOk.headD hposts).1 Good.nil
  | @plain x s' _ ih =>
    intro pres posts hpres hposts
    refine ⟨?_, fun m _ => ?_⟩
    · rw [runGoL_idle_plain]; exact Good.plain x (ih pres posts hpres hposts).1
    · rw [runGoL_inRun_plain]
      exact Good.append_plain (VOk.headD hposts).1
        (Good.plain x (ih pres posts.tail hpres (VOk.tail hposts)).1)
  | @block m' blk s' hne hnx hu hb _ ih =>
    intro pres posts hpres hposts
    cases blk with
    | nil => simpa using ih pres posts hpres hposts
    | cons p blk =>
      constructor
      · rw [runGoL_idle_block keep pres posts m' hne p blk _ hu]
        exact Good.append_plain (VOk.headD hpres).1 (Good.K_block keep hne hnx hu hb
          ((ih pres.tail posts (VOk.tail hpres) hposts).2 m' hne))
      · intro m hm
        by_cases hmm : m' = m
        · subst hmm
          rw [runGoL_inRun_block keep pres posts m' (p :: blk) _ hu]
          exact Good.K_block keep hne hnx hu hb ((ih pres posts hpres hposts).2 m' hm)
        · rw [runGoL_inRun_other keep pres posts m m' hmm hne p blk _ hu]
          exact Good.append_plain (VOk.headD hposts).1 (Good.append_plain (VOk.headD hpres).1
            (Good.K_block keep hne hnx hu hb
              ((ih pres.tail posts.tail (VOk.tail hpres) (VOk.tail hposts)).2 m' hne)))
  | @elem t a mid s' hf hb _ ih =>
    intro pres posts hpres hposts
    constructor
    · rw [runGoL_idle_elem keep pres posts _ mid _ _ hf.noExit]
      exact Good.append_plain (VOk.headD hpres).1 (Good.K_elem keep hf hb
        (Good.append_plain (VOk.headD hposts).1
          (ih pres.tail posts.tail (VOk.tail hpres) (VOk.tail hposts)).1))
    · intro m hm
      rw [runGoL_inRun_elem keep pres posts m hm _ mid _ _ hf.noExit]
      exact Good.append_plain (VOk.headD hposts).1 (Good.append_plain (VOk.headD hpres).1
        (Good.K_elem keep hf hb (Good.append_plain (VOk.headD (VOk.tail hposts)).1
          (ih pres.tail posts.tail.tail (VOk.tail hpres) (VOk.tail (VOk.tail hposts))).1)))

/-- … and the output is `Good` again -/
theorem runGoL_good (keep : Bool) {s : MStream} (hg : Good s) :
    ∀ (pres posts : List MStream), (∀ c ∈ pres, VOk c) → (∀ c ∈ posts, VOk c) →
    Good (runGoL keep .idle pres posts s) :=
  fun pres posts hpres hposts => (runGoL_good_aux keep hg pres posts hpres hposts).1

/-! ### prepend -/

theorem prependL_inner (cs : List MStream) (l s : MStream) (h : Inner l) :
    prependL cs (l ++ s) = l ++ prependL cs s := by
  induction l with
  | nil => rfl
  | cons p l ih =>
    obtain ⟨m, x⟩ := p
    have h1 : m ≠ some .enter := (h (m, x) (by simp)).1
    simp [prependL, h1, ih h.tail]

theorem prependL_elem (cs : List MStream) (e x : MEv) (mid s : MStream) (h : Inner mid) :
    prependL cs ((some .enter, e) :: (mid ++ (some .exit, x) :: s)) =
      (some .enter, e) :: ((cs.headD [] ++ mid) ++ (some .exit, x) :: prependL cs.tail s) := by
  simp [prependL, prependL_inner cs.tail mid _ h]

theorem prependL_plain (cs : List MStream) (x : MEv) (s : MStream) :
    prependL cs ((none, x) :: s) = (none, x) :: prependL cs s := by
  simp [prependL]

/-- prepend with a content that varies from element to element -/
theorem prependL_balance {s : MStream} (hg : Good s) : ∀ (cs : List MStream), (∀ c ∈ cs, VOk c) →
    ∀ st, balance st (unmark (prependL cs s)) = balance st (unmark s) := by
  induction hg with
  | nil => intro cs _ st; rfl
  | @plain x s' _ ih =>
    intro cs hcs st
    rw [prependL_plain]
    exact balance_unmark_plain_congr x (ih cs hcs) st
  | @block m blk s' hne hnx hu hb _ ih =>
    intro cs hcs st
    rw [prependL_inner cs blk s' (Inner.ofUniform hne hnx hu)]
    simp only [unmark_append]
    rw [balance_bal st hb, balance_bal st hb, ih cs hcs st]
  | @elem t a mid s' hf hb _ ih =>
    intro cs hcs st
    have hb' : Bal (unmark (cs.headD [] ++ mid)) := by
      rw [unmark_append]; exact (VOk.headD hcs).2.append hb
    rw [prependL_elem cs _ _ mid s' hf.inner, unmark_elem, unmark_elem,
      balance_bal st (bal_elem t a hb), balance_bal st (bal_elem t a hb'),
      ih cs.tail (VOk.tail hcs) st]

theorem prependL_good {s : MStream} (hg : Good s) : ∀ (cs : List MStream), (∀ c ∈ cs, VOk c) →
    Good (prependL cs s) := by
  induction hg with
  | nil => intro cs _; exact Good.nil
  | @plain x s' _ ih =>
    intro cs hcs
    rw [prependL_plain]; exact Good.plain x (ih cs hcs)
  | @block m blk s' hne hnx hu hb _ ih =>
    intro cs hcs
    rw [prependL_inner cs blk s' (Inner.ofUniform hne hnx hu)]
    exact Good.block m blk hne hnx hu hb (ih cs hcs)
  | @elem t a mid s' hf hb _ ih =>
    intro cs hcs
    rw [prependL_elem cs _ _ mid s' hf.inner]
    exact Good.elem t a _ (Flat.append_plain (VOk.headD hcs).1 hf)
      (by rw [unmark_append]; exact (VOk.headD hcs).2.append hb) (ih cs.tail (VOk.tail hcs))

theorem prependL_wellNested {s : MStream} (hg : Good s) (cs : List MStream)
    (hcs : ∀ c ∈ cs, VOk c) (hwn : WellNested (unmark s)) : WellNested (unmark (prependL cs s)) := by
  unfold WellNested; rw [prependL_balance hg cs hcs]; exact hwn

/-! ### append -/

theorem appendGoL_inner (cs : List MStream) (l s : MStream) (h : Inner l) :
    appendGoL cs none (l ++ s) = l ++ appendGoL cs none s := by
  induction l with
  | nil => rfl
  | cons p l ih =>
    obtain ⟨m, x⟩ := p
    have h1 : m ≠ some .enter := (h (m, x) (by simp)).1
    simp [appendGoL, h1, ih h.tail]

theorem appendGoL_mid (cs : List MStream) (last : MItem) (l : MStream) (x : MEv) (s : MStream)
    (h : Inner l) :
    appendGoL cs (some last) (l ++ (some .exit, x) :: s) =
      l ++ (cs.headD [] ++ (some .exit, x) :: appendGoL cs.tail none s) := by
  induction l generalizing last with
  | nil => simp [appendGoL]
  | cons p l ih =>
    obtain ⟨m, y⟩ := p
    have h1 : m ≠ some .exit := (h (m, y) (by simp)).2
    simp [appendGoL, h1, ih _ h.tail]

theorem appendL_elem (cs : List MStream) (e x : MEv) (mid s : MStream) (h : Inner mid) :
    appendGoL cs none ((some .enter, e) :: (mid ++ (some .exit, x) :: s)) =
      (some .enter, e) :: ((mid ++ cs.headD []) ++ (some .exit, x) :: appendGoL cs.tail none s) := by
  simp [appendGoL, appendGoL_mid cs _ mid x s h]

theorem appendGoL_plain (cs : List MStream) (x : MEv) (s : MStream) :
    appendGoL cs none ((none, x) :: s) = (none, x) :: appendGoL cs none s := by
  simp [appendGoL]

/-- append with a content that varies from element to element -/
theorem appendL_balance {s : MStream} (hg : Good s) : ∀ (cs : List MStream), (∀ c ∈ cs, VOk c) →
    ∀ st, balance st (unmark (appendGoL cs none s)) = balance st (unmark s) := by
  induction hg with
  | nil => intro cs _ st; rfl
  | @plain x s' _ ih =>
    intro cs hcs st
    rw [appendGoL_plain]
    exact balance_unmark_plain_congr x (ih cs hcs) st
  | @block m blk s' hne hnx hu hb _ ih =>
    intro cs hcs st
    rw [appendGoL_inner cs blk s' (Inner.ofUniform hne hnx hu)]
    simp only [unmark_append]
    rw [balance_bal st hb, balance_bal st hb, ih cs hcs st]
  | @elem t a mid s' hf hb _ ih =>
    intro cs hcs st
    have hb' : Bal (unmark (mid ++ cs.headD [])) := by
      rw [unmark_append]; exact hb.append (VOk.headD hcs).2
    rw [appendL_elem cs _ _ mid s' hf.inner, unmark_elem, unmark_elem,
      balance_bal st (bal_elem t a hb), balance_bal st (bal_elem t a hb'),
      ih cs.tail (VOk.tail hcs) st]

theorem appendL_good {s : MStream} (hg : Good s) : ∀ (cs : List MStream), (∀ c ∈ cs, VOk c) →
    Good (appendGoL cs none s) := by
  induction hg with
  | nil => intro cs _; exact Good.nil
  | @plain x s' _ ih =>
    intro cs hcs
    rw [appendGoL_plain]; exact Good.plain x (ih cs hcs)
  | @block m blk s' hne hnx hu hb _ ih =>
    intro cs hcs
    rw [appendGoL_inner cs blk s' (Inner.ofUniform hne hnx hu)]
    exact Good.block m blk hne hnx hu hb (ih cs hcs)
  | @elem t a mid s' hf hb _ ih =>
    intro cs hcs
    rw [appendL_elem cs _ _ mid s' hf.inner]
    have hfl : Flat (cs.headD []) := by
      simpa using Flat.append_plain (VOk.headD hcs).1 Flat.nil
    exact Good.elem t a _ (hf.append hfl)
      (by rw [unmark_append]; exact hb.append (VOk.headD hcs).2) (ih cs.tail (VOk.tail hcs))

theorem appendL_wellNested {s : MStream} (hg : Good s) (cs : List MStream)
    (hcs : ∀ c ∈ cs, VOk c) (hwn : WellNested (unmark s)) :
    WellNested (unmark (appendGoL cs none s)) := by
  unfold WellNested; rw [appendL_balance hg cs hcs]; exact hwn

/-! ### the varying loops with a constant content are the fixed ones -/

theorem runGoL_replicate (pre post : MStream) (keep : Bool) :
    ∀ (s : MStream) (st : RunSt) (a b : Nat), s.length < a → s.length < b →
      runGoL keep st (List.replicate a pre) (List.replicate b post) s = runGo pre post keep st s := by
  intro s
  induction s with
  | nil =>
    intro st a b _ hb
    obtain ⟨b', rfl⟩ : ∃ b', b = b' + 1 := ⟨b - 1, by simp at hb; omega⟩
    cases st <;> simp [runGoL, runGo, List.replicate_succ]
  | cons p s ih =>
    intro st a b ha hb
    obtain ⟨m, x⟩ := p
    simp only [List.length_cons] at ha hb
    obtain ⟨a', rfl⟩ : ∃ a', a = a' + 1 := ⟨a - 1, by omega⟩
    obtain ⟨b', rfl⟩ : ∃ b', b = b' + 1 := ⟨b - 1, by omega⟩
    have h1 : ∀ st, runGoL keep st (pre :: List.replicate a' pre) (post :: List.replicate b' post) s =
        runGo pre post keep st s := fun st => by
      simpa [List.replicate_succ] using ih st (a' + 1) (b' + 1) (by omega) (by omega)
    have h2 : ∀ st, runGoL keep st (List.replicate a' pre) (post :: List.replicate b' post) s =
        runGo pre post keep st s := fun st => by
      simpa [List.replicate_succ] using ih st a' (b' + 1) (by omega) (by omega)
    have h3 : ∀ st, runGoL keep st (pre :: List.replicate a' pre) (List.replicate b' post) s =
        runGo pre post keep st s := fun st => by
      simpa [List.replicate_succ] using ih st (a' + 1) b' (by omega) (by omega)
    have h4 : ∀ st, runGoL keep st (List.replicate a' pre) (List.replicate b' post) s =
        runGo pre post keep st s := fun st => ih st a' b' (by omega) (by omega)
    rw [List.replicate_succ, List.replicate_succ]
    cases st with
    | idle => cases m <;> simp only [runGoL, runGo, List.headD_cons, List.tail_cons, h1, h2]
    | inEnter => simp only [runGoL, runGo, List.headD_cons, List.tail_cons, h1, h3]
    | inRun m0 =>
      cases m <;> simp only [runGoL, runGo, List.headD_cons, List.tail_cons, h1, h3, h4]

theorem prependL_replicate (c : List MEv) :
    ∀ (s : MStream) (n : Nat), s.length ≤ n → prependL (List.replicate n (inj c)) s = prepend c s := by
  intro s
  induction s with
  | nil => intro n _; simp [prependL, prepend]
  | cons p s ih =>
    intro n hn
    obtain ⟨m, x⟩ := p
    simp only [List.length_cons] at hn
    obtain ⟨n', rfl⟩ : ∃ n', n = n' + 1 := ⟨n - 1, by omega⟩
    have h1 := ih (n' + 1) (by omega)
    have h2 := ih n' (by omega)
    rw [List.replicate_succ] at h1 ⊢
    simp only [prependL, prepend, List.headD_cons, List.tail_cons, h1, h2]

theorem appendGoL_replicate (c : List MEv) :
    ∀ (s : MStream) (last : Option MItem) (n : Nat), s.length < n →
      appendGoL (List.replicate n (inj c)) last s = appendGo c last s := by
  intro s
  induction s with
  | nil =>
    intro last n hn
    obtain ⟨n', rfl⟩ : ∃ n', n = n' + 1 := ⟨n - 1, by simp at hn; omega⟩
    cases last <;> simp [appendGoL, appendGo, List.replicate_succ]
  | cons p s ih =>
    intro last n hn
    obtain ⟨m, x⟩ := p
    simp only [List.length_cons] at hn
    obtain ⟨n', rfl⟩ : ∃ n', n = n' + 1 := ⟨n - 1, by omega⟩
    have h1 := fun last => ih last (n' + 1) (by omega)
    have h2 := fun last => ih last n' (by omega)
    rw [List.replicate_succ] at h1 ⊢
    cases last <;> simp only [appendGoL, appendGo, List.headD_cons, List.tail_cons, h1, h2]

/-! ### the statements are not vacuous: a `Good` stream with two selected elements, two different
    admissible contents, and what the loops make of them -/

section examples

private def qa : QName := ⟨[], ['a']⟩
private def qb : QName := ⟨[], ['b']⟩
private def c1 : MStream := [(none, .ev (.text ['1'] false))]
private def c2 : MStream := [(none, .ev (.start qb []) ), (none, .ev (.text ['2'] false)), (none, .ev (.end_ qb))]
private def two : MStream :=
  [(some .enter, .ev (.start qa [])), (some .exit, .ev (.end_ qa)), (none, .ev (.text ['-'] false)),
   (some .enter, .ev (.start qb [])), (some .exit, .ev (.end_ qb))]

private theorem two_good : Good two :=
  Good.elem qa [] [] Flat.nil Bal.nil (Good.plain _ (Good.elem qb [] [] Flat.nil Bal.nil Good.nil))

private theorem c12_ok : ∀ c ∈ [c1, c2], VOk c := by
  intro c hc
  simp only [List.mem_cons, List.not_mem_nil, or_false] at hc
  rcases hc with rfl | rfl
  · exact ⟨by unfold NoneMarked; decide, by unfold Bal; decide⟩
  · exact ⟨by unfold NoneMarked; decide, by unfold Bal; decide⟩

/-- after(): the first element is followed by `c1`, the second by `c2` -/
example : runGoL true .idle [] [c1, c2] two =
    [(some .enter, .ev (.start qa [])), (some .exit, .ev (.end_ qa))] ++ c1 ++
    [(none, .ev (.text ['-'] false)), (some .enter, .ev (.start qb [])), (some .exit, .ev (.end_ qb))] ++ c2 := by
  decide

/-- replace(): the first element becomes `c1`, the second `c2` -/
example : runGoL false .idle [c1, c2] [] two = c1 ++ [(none, .ev (.text ['-'] false))] ++ c2 := by
  decide

example : Good (runGoL true .idle [] [c1, c2] two) ∧ WellNested (unmark (runGoL true .idle [] [c1, c2] two)) :=
  ⟨runGoL_good true two_good [] [c1, c2] (by simp) c12_ok,
   runGoL_wellNested true two_good [] [c1, c2] (by simp) c12_ok (by decide)⟩

example : prependL [c1, c2] two =
    [(some .enter, .ev (.start qa []))] ++ c1 ++ [(some .exit, .ev (.end_ qa)), (none, .ev (.text ['-'] false)),
     (some .enter, .ev (.start qb []))] ++ c2 ++ [(some .exit, .ev (.end_ qb))] := by
  decide

example : Good (prependL [c1, c2] two) ∧ WellNested (unmark (prependL [c1, c2] two)) :=
  ⟨prependL_good two_good _ c12_ok, prependL_wellNested two_good _ c12_ok (by decide)⟩

example : appendGoL [c2, c1] none two =
    [(some .enter, .ev (.start qa []))] ++ c2 ++ [(some .exit, .ev (.end_ qa)), (none, .ev (.text ['-'] false)),
     (some .enter, .ev (.start qb []))] ++ c1 ++ [(some .exit, .ev (.end_ qb))] := by
  decide

example : Good (appendGoL [c1, c2] none two) ∧ WellNested (unmark (appendGoL [c1, c2] none two)) :=
  ⟨appendL_good two_good _ c12_ok, appendL_wellNested two_good _ c12_ok (by decide)⟩

/-- the hypothesis `VOk` is needed: an unbalanced content breaks the nesting -/
example : ¬ WellNested (unmark (runGoL true .idle [] [[(none, .ev (.end_ qa))]] two)) := by
  decide

end examples

end Genshi.Tf

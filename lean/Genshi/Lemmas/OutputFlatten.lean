/-
  Helper lemmas for C09: the lite `NamespaceFlattener` with its START/EMPTY cache
  produces the same events as without it.
-/
import Genshi.Model.OutputFlattenLite
namespace Genshi.Output
open Genshi

/-- the state without its cache -/
def FlatSt.nc (st : FlatSt) : FlatSt := { st with cache := [] }

/-- invariant of the flattener's cache: every entry is what the miss path computes for its key
    under the bindings now in scope, with nothing pending, and it carries no declaration -/
def FlatCacheOk (st : FlatSt) : Prop :=
  ∀ k o, flatLookup st.cache k = some o →
    (∃ t a tn fa, k = .start t a ∧ o = .start tn fa ∧
        flatStartCore st.bindings none t a = some ([], tn, fa)) ∨
    (∃ t a tn fa, k = .empty t a ∧ o = .empty tn fa ∧
        flatStartCore st.bindings none t a = some ([], tn, fa))

theorem flatCacheOk_nil (st : FlatSt) (h : st.cache = []) : FlatCacheOk st := by
  intro k o hl; simp [h, flatLookup] at hl

theorem flatCacheOk_congr {st st' : FlatSt} (hb : st'.bindings = st.bindings) (hc : st'.cache = st.cache)
    (h : FlatCacheOk st) : FlatCacheOk st' := by
  intro k o hl; rw [hc] at hl; rw [hb]; exact h k o hl

theorem flatLookup_cons (k : QEv) (v : FEv) (c : List (QEv × FEv)) (ev : QEv) :
    flatLookup ((k, v) :: c) ev = if k = ev then some v else flatLookup c ev := rfl

/-- a start tag that writes no declaration is computed the same whether or not a (redundant)
    request was pending -/
theorem flatStartCore_pending_irrelevant (b : List (Str × Bool)) (p : Option Str) (t : QName)
    (a : AttrList) (tn : Str) (fa : FAttrs)
    (h : flatStartCore b p t a = some ([], tn, fa)) : flatStartCore b none t a = some ([], tn, fa) := by
  unfold flatStartCore at h
  cases h1 : flatD1 b p with
  | none => simp [h1] at h
  | some d1 =>
    simp only [h1] at h
    cases h2 : flatD2 (d1 ++ b) d1 t with
    | none => simp [h2] at h
    | some d2 =>
      simp only [h2] at h
      cases h3 : flatAttrs a with
      | none => simp [h3] at h
      | some na =>
        simp only [h3, Option.some.injEq, Prod.mk.injEq, List.append_eq_nil_iff] at h
        obtain ⟨⟨hd1, hd2⟩, htn, hfa⟩ := h
        subst hd1; subst hd2
        unfold flatStartCore
        simp only [flatD1, List.nil_append] at h2 ⊢
        simp at hfa
        simp [h2, h3, htn, hfa]

/-! ### one step -/

/-- with the cache (under the invariant) a step passes on the same events and reaches the same
    state, cache aside, as without -/
theorem flatStep_cache (st : FlatSt) (ev : QEv) (h : FlatCacheOk st) :
    (flatStep true st ev).map (fun r => (r.1.nc, r.2)) = flatStep false st.nc ev := by
  cases ev with
  | start t a =>
    by_cases hp : st.pending.isNone = true
    · cases hl : flatLookup st.cache (.start t a) with
      | some o =>
        rcases h _ _ hl with ⟨t', a', tn, fa, hk, ho, hc⟩ | ⟨t', a', tn, fa, hk, _, _⟩
        · cases hk; subst ho
          have hpn : st.pending = none := by cases hpp : st.pending <;> simp_all
          simp [flatStep, hp, hl, FlatSt.nc, flatStartMiss, hpn, hc]
        · cases hk
      | none => 
        simp only [flatStep, hp, hl, Bool.and_self, ↓reduceIte, FlatSt.nc, Bool.false_and,
          Bool.false_eq_true, flatStartMiss]
        cases hc : flatStartCore st.bindings st.pending t a with
        | none => simp
        | some r => obtain ⟨d, tn, fa⟩ := r; by_cases hd : d.isEmpty = true <;> simp [hd]
    · simp only [flatStep, hp, Bool.and_false, Bool.false_eq_true, ↓reduceIte, FlatSt.nc, Bool.false_and,
        flatStartMiss]
      cases hc : flatStartCore st.bindings st.pending t a with
      | none => simp
      | some r => obtain ⟨d, tn, fa⟩ := r; by_cases hd : d.isEmpty = true <;> simp [hd]
  | empty t a =>
    by_cases hp : st.pending.isNone = true
    · cases hl : flatLookup st.cache (.empty t a) with
      | some o =>
        rcases h _ _ hl with ⟨t', a', tn, fa, hk, _, _⟩ | ⟨t', a', tn, fa, hk, ho, hc⟩
        · cases hk
        · cases hk; subst ho
          have hpn : st.pending = none := by cases hpp : st.pending <;> simp_all
          simp [flatStep, hp, hl, FlatSt.nc, flatEmptyMiss, hpn, hc]
      | none =>
        simp only [flatStep, hp, hl, Bool.and_self, ↓reduceIte, FlatSt.nc, Bool.false_and,
          Bool.false_eq_true, flatEmptyMiss]
        cases hc : flatStartCore st.bindings st.pending t a with
        | none => simp
        | some r => obtain ⟨d, tn, fa⟩ := r; by_cases hd : d.isEmpty = true <;> simp [hd]
    · simp only [flatStep, hp, Bool.and_false, Bool.false_eq_true, ↓reduceIte, FlatSt.nc, Bool.false_and,
        flatEmptyMiss]
      cases hc : flatStartCore st.bindings st.pending t a with
      | none => simp
      | some r => obtain ⟨d, tn, fa⟩ := r; by_cases hd : d.isEmpty = true <;> simp [hd]
  | end_ t =>
    cases he : st.elems with
    | nil => by_cases hx : t.ns = xmlNs <;> simp [flatStep, he, FlatSt.nc, hx]
    | cons x rest => obtain ⟨tn, c⟩ := x; simp [flatStep, he, FlatSt.nc]
  | text s f => simp [flatStep, FlatSt.nc]
  | comment s => simp [flatStep, FlatSt.nc]
  | pi t d => simp [flatStep, FlatSt.nc]
  | doctype n p s => simp [flatStep, FlatSt.nc]
  | xmlDecl v e s => simp [flatStep, FlatSt.nc]
  | startNs p u => by_cases hp : p.isEmpty = true <;> simp [flatStep, FlatSt.nc, hp]
  | endNs p => by_cases hp : p.isEmpty = true <;> simp [flatStep, FlatSt.nc, hp]
  | startCdata => simp [flatStep, FlatSt.nc]
  | endCdata => simp [flatStep, FlatSt.nc]

/-- the invariant is kept by every step -/
theorem flatStep_inv (st : FlatSt) (ev : QEv) (h : FlatCacheOk st) (r : FlatSt × List FEv)
    (hr : flatStep true st ev = some r) : FlatCacheOk r.1 := by
  cases ev with
  | start t a =>
    simp only [flatStep] at hr
    cases hl : (if (true && st.pending.isNone) = true then flatLookup st.cache (.start t a) else none) with
    | some o =>
      simp only [hl] at hr
      cases o <;> simp at hr <;> subst hr <;> exact h
    | none =>
      simp only [hl, flatStartMiss] at hr
      cases hc : flatStartCore st.bindings st.pending t a with
      | none => simp [hc] at hr
      | some x =>
        obtain ⟨d, tn, fa⟩ := x
        simp only [hc, Option.some.injEq] at hr
        subst hr
        by_cases hd : d.isEmpty = true
        · have hd' : d = [] := by simpa using hd
          subst hd'
          intro k o hk
          simp only [List.isEmpty_nil, ↓reduceIte, List.reverse_nil, List.nil_append, flatLookup_cons] at hk ⊢
          by_cases hkk : XEv.start t a = k
          · simp [hkk] at hk; subst hk; subst hkk
            exact Or.inl ⟨t, a, tn, fa, rfl, rfl, flatStartCore_pending_irrelevant _ _ _ _ _ _ hc⟩
          · simp [hkk] at hk; exact h k o hk
        · exact flatCacheOk_nil _ (by simp [hd])
  | empty t a =>
    simp only [flatStep] at hr
    cases hl : (if (true && st.pending.isNone) = true then flatLookup st.cache (.empty t a) else none) with
    | some o => simp only [hl, Option.some.injEq] at hr; subst hr; exact h
    | none =>
      simp only [hl, flatEmptyMiss] at hr
      cases hc : flatStartCore st.bindings st.pending t a with
      | none => simp [hc] at hr
      | some x =>
        obtain ⟨d, tn, fa⟩ := x
        simp only [hc, Option.some.injEq] at hr
        subst hr
        by_cases hd : d.isEmpty = true
        · have hd' : d = [] := by simpa using hd
          subst hd'
          intro k o hk
          simp only [List.isEmpty_nil, Bool.and_self, ↓reduceIte, flatLookup_cons] at hk ⊢
          by_cases hkk : XEv.empty t a = k
          · simp [hkk] at hk; subst hk; subst hkk
            exact Or.inr ⟨t, a, tn, fa, rfl, rfl, flatStartCore_pending_irrelevant _ _ _ _ _ _ hc⟩
          · simp [hkk] at hk; exact h k o hk
        · simp only [hd, Bool.false_and, Bool.false_eq_true, ↓reduceIte]; exact h
  | end_ t =>
    simp only [flatStep] at hr
    cases he : st.elems with
    | nil =>
      by_cases hx : t.ns = xmlNs
      · simp [he, hx] at hr
      · simp [he, hx] at hr; subst hr; exact h
    | cons x rest =>
      obtain ⟨tn, c⟩ := x
      simp only [he, Option.some.injEq] at hr
      subst hr
      by_cases hc : c = 0
      · subst hc; exact flatCacheOk_congr (by simp) (by simp) h
      · exact flatCacheOk_nil _ (by simp [hc])
  | text s f => simp [flatStep] at hr; subst hr; exact h
  | comment s => simp [flatStep] at hr; subst hr; exact h
  | pi t d => simp [flatStep] at hr; subst hr; exact h
  | doctype n p s => simp [flatStep] at hr; subst hr; exact h
  | xmlDecl v e s => simp [flatStep] at hr; subst hr; exact h
  | startNs p u =>
    by_cases hp : p.isEmpty = true
    · simp [flatStep, hp] at hr; subst hr; exact h
    · simp [flatStep, hp] at hr
  | endNs p =>
    by_cases hp : p.isEmpty = true
    · simp [flatStep, hp] at hr; subst hr; exact h
    · simp [flatStep, hp] at hr; subst hr; exact h
  | startCdata => simp [flatStep] at hr; subst hr; exact h
  | endCdata => simp [flatStep] at hr; subst hr; exact h

/-- the flattener with its cache passes on the same events as without, from any state that
    satisfies the invariant (in particular the initial one) -/
theorem flatten_cache_eq (evs : List QEv) :
    ∀ st : FlatSt, FlatCacheOk st → flatten true st evs = flatten false st.nc evs := by
  induction evs with
  | nil => intro st _; rfl
  | cons ev rest ih =>
    intro st h
    have hs := flatStep_cache st ev h
    simp only [flatten]
    cases hr : flatStep true st ev with
    | none => simp [hr] at hs; simp [← hs]
    | some r =>
      simp only [hr, Option.map_some] at hs
      rw [← hs]
      simp only []
      rw [ih r.1 (flatStep_inv st ev h r hr)]

end Genshi.Output

/-
  C06 — an attribute value survives serialisation: the serializers write `escape(value)`
  (`Genshi.Escape.escapeSpec true`, proved equal to the Python and C implementations in C18);
  decoding the references of that text again (here with the model of `stripentities`, which
  knows every numeric form and the 252 named entities) gives the value back.  So what the
  sanitizer guarantees about an attribute value holds for the value a parser reads back.
-/
import Genshi.Lemmas.SanTotal
import Genshi.Model.Escape
set_option linter.unusedSimpArgs false
namespace Genshi.San
open Genshi.Gen Genshi.Escape

theorem word_facts : isReWord 'a' = true ∧ isReWord 'm' = true ∧ isReWord 'p' = true ∧ isReWord 'l' = true ∧
    isReWord 't' = true ∧ isReWord 'g' = true ∧ isReWord ';' = false ∧ isReDigit '3' = true ∧
    isReDigit '4' = true ∧ isReDigit ';' = false := by decide +kernel

theorem entity_facts : namedRef ['a', 'm', 'p'] = .ok ['&'] ∧ namedRef ['l', 't'] = .ok ['<'] ∧
    namedRef ['g', 't'] = .ok ['>'] ∧ numRef ['3', '4'] = ['"'] := by decide +kernel

theorem matchRef_amp (rest : Str) : matchRef ('a' :: 'm' :: 'p' :: ';' :: rest) = some (.ok ['&'], rest) := by
  obtain ⟨ha, hm, hp, _, _, _, hs, _, _, _⟩ := word_facts
  simp [matchRef, matchNumeric, matchNamed, List.takeWhile, List.dropWhile, ha, hm, hp, hs, entity_facts.1]

theorem matchRef_lt (rest : Str) : matchRef ('l' :: 't' :: ';' :: rest) = some (.ok ['<'], rest) := by
  obtain ⟨_, _, _, hl, ht, _, hs, _, _, _⟩ := word_facts
  simp [matchRef, matchNumeric, matchNamed, List.takeWhile, List.dropWhile, hl, ht, hs, entity_facts.2.1]

theorem matchRef_gt (rest : Str) : matchRef ('g' :: 't' :: ';' :: rest) = some (.ok ['>'], rest) := by
  obtain ⟨_, _, _, _, ht, hg, hs, _, _, _⟩ := word_facts
  simp [matchRef, matchNumeric, matchNamed, List.takeWhile, List.dropWhile, hg, ht, hs, entity_facts.2.2.1]

theorem matchRef_qt (rest : Str) : matchRef ('#' :: '3' :: '4' :: ';' :: rest) = some (.ok ['"'], rest) := by
  obtain ⟨_, _, _, _, _, _, _, h3, h4, hs⟩ := word_facts
  simp [matchRef, matchNumeric, List.takeWhile, List.dropWhile, h3, h4, hs, entity_facts.2.2.2, dropSemi]

theorem escC_length_pos (q : Bool) (c : Char) : 1 ≤ (escC q c).length := by
  unfold escC
  split
  · simp [amp]
  · split
    · simp [lt]
    · split
      · simp [gt]
      · split
        · split <;> simp [qt]
        · simp

theorem stripEntGo_escape (q : Bool) : ∀ (v : Str) (f : Nat), (escapeSpec q v).length < f →
    stripEntGo f (escapeSpec q v) = .ok v := by
  intro v
  induction v with
  | nil =>
    intro f hf
    cases f with
    | zero => simp at hf
    | succ f => rfl
  | cons c v' ih =>
    intro f hf
    have hsplit : escapeSpec q (c :: v') = escC q c ++ escapeSpec q v' := by
      simp [escapeSpec]
    rw [hsplit] at hf ⊢
    cases f with
    | zero => simp at hf
    | succ f =>
      by_cases h1 : c = '&'
      · subst h1
        have : escC q '&' = amp := by simp [escC]
        rw [this] at hf ⊢
        simp only [amp, List.cons_append, List.nil_append, List.length_cons] at hf ⊢
        simp only [stripEntGo, ↓reduceIte, matchRef_amp]
        rw [ih f (by omega)]; rfl
      by_cases h2 : c = '<'
      · subst h2
        have : escC q '<' = lt := by simp [escC]
        rw [this] at hf ⊢
        simp only [lt, List.cons_append, List.nil_append, List.length_cons] at hf ⊢
        simp only [stripEntGo, ↓reduceIte, matchRef_lt]
        rw [ih f (by omega)]; rfl
      by_cases h3 : c = '>'
      · subst h3
        have : escC q '>' = gt := by simp [escC]
        rw [this] at hf ⊢
        simp only [gt, List.cons_append, List.nil_append, List.length_cons] at hf ⊢
        simp only [stripEntGo, ↓reduceIte, matchRef_gt]
        rw [ih f (by omega)]; rfl
      by_cases h4 : c = '"' ∧ q = true
      · obtain ⟨rfl, rfl⟩ := h4
        have : escC true '"' = qt := by simp [escC]
        rw [this] at hf ⊢
        simp only [qt, List.cons_append, List.nil_append, List.length_cons] at hf ⊢
        simp only [stripEntGo, ↓reduceIte, matchRef_qt]
        rw [ih f (by omega)]; rfl
      · have : escC q c = [c] := by
          unfold escC
          simp only [h1, h2, h3, ↓reduceIte]
          by_cases hq : c = '"'
          · have : q = false := by
              cases q with
              | false => rfl
              | true => exact absurd ⟨hq, rfl⟩ h4
            simp [hq, this]
          · simp [hq]
        rw [this] at hf ⊢
        simp only [List.cons_append, List.nil_append, List.length_cons] at hf ⊢
        simp only [stripEntGo, h1, ↓reduceIte]
        rw [ih f (by omega)]; rfl

/-- decoding the references of an escaped text gives the text back -/
theorem stripentities_escape (q : Bool) (v : Str) : stripentities (escapeSpec q v) = .ok v :=
  stripEntGo_escape q v _ (Nat.lt_succ_self _)

end Genshi.San

/-
  SimplePathStrategy as a PATTERN (`ignore_context = True`) on every supported spelling:
  `__init__`'s loop read with the first step taken on the descendant-or-self axis
  (`fragLoop_sem` with `pre = [descendant-or-self::first]`).
-/
import Genshi.Lemmas.PathFragsSelf
namespace Genshi.Path.Frags
open Genshi Genshi.Path Genshi.Path.Ref Genshi.Path.Kmp

/-- the path a location path matches as a pattern: its first step on the descendant-or-self
    axis from the root (what `GenericStrategy.test(ignore_context=True)` makes of it) -/
def patOf : LocPath → LocPath
  | [] => []
  | s :: q => ⟨.descendantOrSelf, s.test, s.preds⟩ :: q

section
variable (ns : NsMap) (xvs : XVars)

/-- **`SimplePathStrategy.__init__` is sound for every supported spelling, read as a pattern**:
    either the path is found impossible and `descendant-or-self::first/rest` selects nothing,
    or the pattern path of the fragment list built selects the same nodes -/
theorem fragments_sem_pattern (p : LocPath) (hp : ∀ s ∈ p, SStep s) (hne : p ≠ []) :
    match fragments p with
    | none => ∀ c t, reach ns xvs (patOf p) c t = false
    | some out => ∀ c t, reach ns xvs (patOf p) c t = reach ns xvs (patPath out) c t := by
  cases p with
  | nil => exact absurd rfl hne
  | cons s0 q =>
    obtain ⟨hp0, hsim, hna⟩ := hp s0 List.mem_cons_self
    have hq : ∀ s ∈ q, SStep s := fun s hs => hp s (List.mem_cons_of_mem _ hs)
    obtain ⟨ax, g, preds⟩ := s0
    simp only at hp0 hsim hna
    subst hp0
    -- the loop after the first step, whatever lies in front of it
    have key : ∀ (frs : List Frag) (sb : Bool),
        (frs = [] ∨ frs = [⟨[], calculatePi [], none, false⟩]) →
        match fragLoop q frs [g] sb with
        | none => ∀ c t, reach ns xvs (⟨.descendantOrSelf, g, []⟩ :: q) c t = false
        | some out => ∀ c t, reach ns xvs (⟨.descendantOrSelf, g, []⟩ :: q) c t = reach ns xvs (patPath out) c t := by
      intro frs sb hfrs
      have h := fragLoop_sem ns xvs q hq frs [g] sb [⟨.descendantOrSelf, g, []⟩]
        (fun _ => ⟨[], .descendantOrSelf, g, rfl, rfl, hsim⟩) (fun h => by simp at h)
      simp only [LoopSem] at h
      cases hf : fragLoop q frs [g] sb with
      | none =>
        rw [hf] at h
        simp only at h ⊢
        intro c t; exact h c t
      | some out =>
        rw [hf] at h
        simp only at h ⊢
        obtain ⟨ts, more, e1, _, _, _, _, e6⟩ := h
        intro c t
        have := e6 c t
        simp only [List.cons_append, List.nil_append] at this
        rw [this, e1]
        rcases hfrs with rfl | rfl <;> simp [patPath, fragPath]
    cases ax with
    | «attribute» => exact absurd rfl hna
    | self =>
      have := key [] true (Or.inl rfl)
      simpa only [fragments, fragLoop, List.getLast?_nil, patOf] using this
    | child =>
      have := key [] false (Or.inl rfl)
      simpa only [fragments, fragLoop, List.nil_append, patOf] using this
    | descendant =>
      have := key [⟨[], calculatePi [], none, false⟩] false (Or.inr rfl)
      simpa only [fragments, fragLoop, List.nil_append, patOf] using this
    | descendantOrSelf =>
      have := key [⟨[], calculatePi [], none, false⟩] true (Or.inr rfl)
      simpa only [fragments, fragLoop, List.nil_append, patOf] using this

end

/-- GenericStrategy's step list in pattern mode, for a path whose first step has a supported
    test (never `self::node()`, so nothing is stripped) -/
theorem gSteps_sstep_pattern (p : LocPath) (hp : ∀ s ∈ p, SStep s) : gSteps p true = patOf p := by
  cases p with
  | nil => rfl
  | cons s0 q =>
    obtain ⟨hp0, hsim, hna⟩ := hp s0 List.mem_cons_self
    obtain ⟨ax, g, preds⟩ := s0
    simp only at hp0 hsim hna
    subst hp0
    have hsd : stripDot (⟨ax, g, []⟩ :: q) = ⟨ax, g, []⟩ :: q := by
      cases q with
      | nil => rfl
      | cons x xs =>
        rcases simpleT_cases g hsim with ⟨n, rfl⟩ | rfl | rfl <;> simp [stripDot]
    have hax : (ax == Axis.attribute) = false := by cases ax <;> simp_all
    simp [gSteps, hsd, hax, patOf]

theorem sstep_patOf (p : LocPath) (hp : ∀ s ∈ p, SStep s) : ∀ s ∈ patOf p, SStep s := by
  cases p with
  | nil => intro s hs; simp [patOf] at hs
  | cons s0 q =>
    intro s hs
    simp only [patOf, List.mem_cons] at hs
    rcases hs with rfl | hs
    · obtain ⟨h1, h2, _⟩ := hp s0 List.mem_cons_self
      exact ⟨h1, h2, by simp⟩
    · exact hp s (List.mem_cons_of_mem _ hs)

/-- the path a matcher designates from the root in the given mode -/
def modePath (ic : Bool) (p : LocPath) : LocPath := if ic then patOf p else p

/-- **SimplePathStrategy designates the XPath node set of every supported spelling, in both
    modes**: `None` / `True` results, `True` exactly at the nodes `p` (relative mode) or
    `descendant-or-self::first/rest` (pattern mode) selects from the root -/
theorem simple_spelling_marks (ns : NsMap) (xvs : XVars) (ic : Bool) (p : LocPath) (hp : ∀ s ∈ p, SStep s)
    (hne : p ≠ []) (tag : QName) (attrs : AttrList) (kids : List Node) (hcl : cleanList kids = true) :
    okVals (runOne (pStep (fragments p) ic ns) [] (Node.elem tag attrs kids).flatten).1
        (eventLocs (.elem tag attrs kids) []) ∧
    ∀ x : List Nat, selB (runOne (pStep (fragments p) ic ns) [] (Node.elem tag attrs kids).flatten).1
        (eventLocs (.elem tag attrs kids) []) x
      = reach ns xvs (modePath ic p) ⟨[], .elem tag attrs kids⟩ ⟨x, .elem tag attrs kids⟩ := by
  have h0 := fragments_sem ns xvs p hp hne
  have h1 := fragments_sem_pattern ns xvs p hp hne
  cases hf : fragments p with
  | none =>
    rw [hf] at h0 h1
    simp only at h0 h1
    obtain ⟨o1, o2⟩ := okVals_replicate (eventLocs (.elem tag attrs kids) [])
    rw [eventLocs_length] at o1 o2
    rw [run_none]
    refine ⟨o1, fun x => ?_⟩
    rw [o2 x]
    cases ic <;> simp [modePath, h0, h1]
  | some out =>
    rw [hf] at h0 h1
    simp only at h0 h1
    cases ic with
    | false =>
      obtain ⟨s1, s2⟩ := simple_marks ns xvs out h0.1 tag attrs kids hcl
      refine ⟨s1, fun x => ?_⟩
      apply Bool.eq_iff_iff.mpr
      rw [s2 ⟨x, .elem tag attrs kids⟩]
      simp [modePath, h0.2]
    | true =>
      obtain ⟨s1, s2⟩ := simple_marks_pattern ns xvs out h0.1 tag attrs kids hcl
      refine ⟨s1, fun x => ?_⟩
      apply Bool.eq_iff_iff.mpr
      rw [s2 ⟨x, .elem tag attrs kids⟩]
      simp [modePath, h1]

end Genshi.Path.Frags

/-
  C12 — `buffer_hint_irrelevant` on streams with registrations inside (`Segmented`: `py:match`
  declarations between closed segments).  Two streams that differ only in the `buffer` hints of the
  templates they register, filtered with template lists that differ only in their `buffer` hints:
  the automaton honouring the hints yields what the eager filter (everything buffered) yields.
  Segment by segment: `run_reg_split` / `run_append_join` cut and glue at the registrations,
  `run_bufOn` and `lazy_eq_eager_segmented` do the work inside.
-/
import Genshi.Lemmas.MatchLate
import Genshi.Lemmas.MatchPipeline
namespace Genshi.Match
open Genshi
variable {σ : Type}

/-- an item with the `buffer` hint of a registered template switched on -/
def Item.bufOn : Item σ → Item σ
  | .ev e => .ev e
  | .reg t => .reg (Genshi.Match.bufOn t)

theorem noReg_of_bufOn_eq : ∀ (A items' : List (Item σ)), NoReg A →
    items'.map Item.bufOn = A.map Item.bufOn → items' = A
  | [], items', _, h => by simpa using h
  | it :: A, [], _, h => by simp at h
  | it :: A, it' :: items', hnr, h => by
      simp only [List.map_cons, List.cons.injEq] at h
      have hnr' : NoReg A := fun t ht => hnr t (List.mem_cons_of_mem _ ht)
      have ih := noReg_of_bufOn_eq A items' hnr' h.2
      cases it with
      | reg t => exact absurd List.mem_cons_self (hnr t)
      | ev e =>
        cases it' with
        | reg t' => simp [Item.bufOn] at h
        | ev e' =>
          have : e' = e := by simpa [Item.bufOn] using h.1
          rw [this, ih]

theorem split_of_bufOn_eq (t : MT σ) (rest : List (Item σ)) : ∀ (A items' : List (Item σ)), NoReg A →
    items'.map Item.bufOn = (A ++ .reg t :: rest).map Item.bufOn →
    ∃ t' rest', items' = A ++ .reg t' :: rest' ∧ bufOn t' = bufOn t ∧ rest'.map Item.bufOn = rest.map Item.bufOn
  | [], [], _, h => by simp at h
  | [], it' :: items', _, h => by
      simp only [List.nil_append, List.map_cons, List.cons.injEq] at h
      cases it' with
      | ev e' => simp [Item.bufOn] at h
      | reg t' =>
        refine ⟨t', items', rfl, ?_, h.2⟩
        simpa [Item.bufOn] using h.1
  | it :: A, [], _, h => by simp at h
  | it :: A, it' :: items', hnr, h => by
      simp only [List.cons_append, List.map_cons, List.cons.injEq] at h
      have hnr' : NoReg A := fun t ht => hnr t (List.mem_cons_of_mem _ ht)
      obtain ⟨t', rest', h1, h2, h3⟩ := split_of_bufOn_eq t rest A items' hnr' h.2
      cases it with
      | reg t0 => exact absurd List.mem_cons_self (hnr t0)
      | ev e =>
        cases it' with
        | reg t' => simp [Item.bufOn] at h
        | ev e' =>
          have : e' = e := by simpa [Item.bufOn] using h.1
          exact ⟨t', rest', by rw [this, h1]; rfl, h2, h3⟩

/-- the shape of the stream does not depend on the hints -/
theorem segmented_of_bufOn_eq : ∀ (items : List (Item σ)), Segmented items → ∀ (items' : List (Item σ)),
    items'.map Item.bufOn = items.map Item.bufOn → Segmented items' := by
  intro items hseg
  induction hseg with
  | last A hnr hneu =>
    intro items' h
    rw [noReg_of_bufOn_eq A items' hnr h]
    exact .last A hnr hneu
  | cons A t rest hnr hneu hcl _ ih =>
    intro items' h
    obtain ⟨t', rest', rfl, _, h3⟩ := split_of_bufOn_eq t rest A items' hnr h
    exact .cons A t' rest' hnr hneu hcl (ih rest' h3)

/-- one registration-free segment: lists that differ in the `buffer` hints only are treated alike by the eager filter -/
theorem run_bufOn_pair (f s : Nat) (en : Option Nat) (A : List (Item σ)) (mts mts' : List (MT σ))
    (r : List (MT σ) × List Event) (hnr : NoReg A) (hsame : mts'.map bufOn = mts.map bufOn)
    (h : run f s en A mts = some r) :
    ∃ r', run f s en A mts' = some r' ∧ r'.1.map bufOn = r.1.map bufOn ∧ r'.2 = r.2 := by
  have h1 := run_bufOn f s en A mts hnr
  have h2 := run_bufOn f s en A mts' hnr
  rw [hsame, h1, h] at h2
  simp only [Option.map_some] at h2
  cases h' : run f s en A mts' with
  | none => rw [h'] at h2; simp at h2
  | some r' =>
    rw [h'] at h2
    simp only [Option.map_some, Option.some.injEq, Prod.mk.injEq] at h2
    exact ⟨r', rfl, h2.1.symm, h2.2.symm⟩

/-- the eager filter over a segmented stream does not read the `buffer` hints — neither of the
    templates it starts with nor of those registered on the way -/
theorem run_bufOn_segmented : ∀ (items : List (Item σ)), Segmented items →
    ∀ (items' : List (Item σ)) (f : Nat) (mts mts' : List (MT σ)) (r : List (MT σ) × List Event),
    items'.map Item.bufOn = items.map Item.bufOn → mts'.map bufOn = mts.map bufOn →
    run f 0 none items mts = some r →
    ∃ f' r', run f' 0 none items' mts' = some r' ∧ r'.1.map bufOn = r.1.map bufOn ∧ r'.2 = r.2 := by
  intro items hseg
  induction hseg with
  | last A hnr hneu =>
    intro items' f mts mts' r hi hm h
    rw [noReg_of_bufOn_eq A items' hnr hi]
    obtain ⟨r', h1, h2, h3⟩ := run_bufOn_pair f 0 none A mts mts' r hnr hm h
    exact ⟨f, r', h1, h2, h3⟩
  | cons A t rest hnr hneu hcl _ ih =>
    intro items' f mts mts' r hi hm h
    obtain ⟨t', rest', rfl, ht, hrest⟩ := split_of_bufOn_eq t rest A items' hnr hi
    obtain ⟨r1, r2, h1, h2, rfl⟩ := run_reg_split f 0 none A t rest mts r hcl h
    obtain ⟨r1', h1', hm1, ho1⟩ := run_bufOn_pair f 0 none A mts mts' r1 hnr hm h1
    have hm2 : (r1'.1 ++ [t']).map bufOn = (r1.1 ++ [t]).map bufOn := by
      simp only [List.map_append, hm1, List.map_cons, List.map_nil, ht]
    obtain ⟨f2, r2', h2', hm2', ho2⟩ := ih rest' f (r1.1 ++ [t]) (r1'.1 ++ [t']) r2 hrest hm2 h2
    have hreg : run (f2 + 1) 0 none (.reg t' :: rest') r1'.1 = some r2' := by simp only [run]; exact h2'
    have := run_append_join f (f2 + 1) 0 none A (.reg t' :: rest') 0 mts' r1' r2' hcl h1' hreg
    exact ⟨_, _, this, hm2', by simp only [ho1, ho2]⟩

/-- **buffer_hint_irrelevant with registrations inside the stream.** -/
theorem buffer_hint_irrelevant_seg (items items' : List (Item σ)) (hseg : Segmented items)
    (hitems : items'.map Item.bufOn = items.map Item.bufOn) (f : Nat) (mts mts' : List (MT σ))
    (r : List (MT σ) × List Event) (hsame : mts'.map bufOn = mts.map bufOn)
    (hok : ∀ t ∈ mts', LazyOK t) (hreg : ∀ t, Item.reg t ∈ items' → LazyOK t)
    (h : run f 0 none items mts = some r) :
    ∃ F0 m', m'.map bufOn = r.1.map bufOn ∧ ∀ F, F0 ≤ F → runL F .idle items' mts' = some (.idle, m', r.2) := by
  obtain ⟨f', r', h', hm, ho⟩ := run_bufOn_segmented items hseg items' f mts mts' r hitems hsame h
  have hseg' := segmented_of_bufOn_eq items hseg items' hitems
  refine ⟨f', r'.1, hm, fun F hF => ?_⟩
  rw [← ho]
  exact lazy_eq_eager_segmented items' hseg' f' mts' r' hok hreg h' F hF

end Genshi.Match

/-
  C04: big-step construction rules of the documentation semantics (`DOk`), derived
  from the fuel-indexed `doc` by monotonicity.
-/
import Genshi.Lemmas.TmplMono
namespace Genshi.Tmpl

def DOk (t : DTask) (loc : Env) (d : DSt) (o : List Event) (d' : DSt) : Prop :=
  ∃ n, doc n t loc d = .ok (o, d')

theorem DOk.lift {t : DTask} {loc : Env} {d d' : DSt} {o : List Event} {n k : Nat}
    (h : doc n t loc d = .ok (o, d')) (hk : n ≤ k) : doc k t loc d = .ok (o, d') :=
  doc_mono h (by simp) hk

theorem DOk.unique {t : DTask} {loc : Env} {d d1 d2 : DSt} {o1 o2 : List Event}
    (h1 : DOk t loc d o1 d1) (h2 : DOk t loc d o2 d2) : o1 = o2 ∧ d1 = d2 := by
  obtain ⟨n1, h1⟩ := h1
  obtain ⟨n2, h2⟩ := h2
  have a := DOk.lift h1 (Nat.le_max_left n1 n2)
  have b := DOk.lift h2 (Nat.le_max_right n1 n2)
  rw [a] at b
  simp only [Except.ok.injEq, Prod.mk.injEq] at b
  exact b

theorem DOk.nodes_nil (loc : Env) (d : DSt) : DOk (.nodes []) loc d [] d := ⟨1, rfl⟩

theorem DOk.nodes_cons {nd : TNode} {rest : List TNode} {loc : Env} {d d1 d2 : DSt} {o1 o2 : List Event}
    (h1 : DOk (.node nd) loc d o1 d1) (h2 : DOk (.nodes rest) loc d1 o2 d2) :
    DOk (.nodes (nd :: rest)) loc d (o1 ++ o2) d2 := by
  obtain ⟨n1, h1⟩ := h1
  obtain ⟨n2, h2⟩ := h2
  refine ⟨max n1 n2 + 1, ?_⟩
  simp only [doc, seq_ok]
  exact ⟨o1, d1, o2, DOk.lift h1 (Nat.le_max_left _ _), DOk.lift h2 (Nat.le_max_right _ _), rfl⟩

theorem DOk.node_text (s : Str) (loc : Env) (d : DSt) : DOk (.node (.text s)) loc d [tx s] d := ⟨1, rfl⟩

theorem DOk.node_expr {x : XExpr} {loc : Env} {d d' : DSt} {o : List Event}
    (h : DOk (.xexpr x) loc d o d') : DOk (.node (.expr x)) loc d o d' := by
  obtain ⟨n, h⟩ := h; exact ⟨n + 1, by simpa only [doc] using h⟩

theorem DOk.node_elem {tag attrs dirs kids} {loc : Env} {d d' : DSt} {o : List Event}
    (h : DOk (.dirs (sortBy Dir.docIdx dirs) (.elem tag attrs kids)) loc d o d') :
    DOk (.node (.elem tag attrs dirs kids)) loc d o d' := by
  obtain ⟨n, h⟩ := h; exact ⟨n + 1, by simpa only [doc] using h⟩

theorem DOk.node_delem {dd kids} {loc : Env} {d d' : DSt} {o : List Event}
    (h : DOk (.dirs [dd] (.frag kids)) loc d o d') : DOk (.node (.delem dd kids)) loc d o d' := by
  obtain ⟨n, h⟩ := h; exact ⟨n + 1, by simpa only [doc] using h⟩

theorem DOk.dirs_nil_elem {tag attrs kids} {loc : Env} {d d' : DSt} {o : List Event}
    (h : DOk (.nodes kids) loc d o d') :
    DOk (.dirs [] (.elem tag attrs kids)) loc d (startEv tag attrs :: o ++ [endEv tag]) d' := by
  obtain ⟨n, h⟩ := h
  exact ⟨n + 1, by simp only [doc, wrapOut_ok]; exact ⟨o, h, rfl⟩⟩

theorem DOk.dirs_nil_frag {kids} {loc : Env} {d d' : DSt} {o : List Event}
    (h : DOk (.nodes kids) loc d o d') : DOk (.dirs [] (.frag kids)) loc d o d' := by
  obtain ⟨n, h⟩ := h; exact ⟨n + 1, by simpa only [doc] using h⟩

theorem DOk.xexpr_pure {e : Expr} {loc : Env} {d : DSt} {v : Val} {out : List Event}
    (hv : eval (dlook loc d) e = .ok v) (ho : renderVal v = .ok out) :
    DOk (.xexpr (.pure e)) loc d out d :=
  ⟨1, by simp [doc, hv, ho, bind, Except.bind, pure, Except.pure]⟩

theorem DOk.xexpr_call {f args} {loc : Env} {d d' : DSt} {o : List Event} {fv vs m scope}
    (hfv : eval (dlook loc d) f = .ok fv)
    (hvs : evalArgs (dlook loc d) args = .ok vs) (hm : getDMacro d fv = .ok m)
    (hsc : bindParams (dlook loc d) m.params vs = .ok scope)
    (h : DOk (.dirs m.dirs m.target) (scope ++ loc) d o d') :
    DOk (.xexpr (.call f args)) loc d o d' := by
  obtain ⟨n, h⟩ := h
  exact ⟨n + 1, by simp [doc, hfv, hvs, hm, hsc, h, bind, Except.bind]⟩

theorem DOk.def_ (name params ds t) (loc : Env) (d : DSt) :
    DOk (.dirs (.def_ name params :: ds) t) loc d [] (d.define name ⟨params, ds, t⟩) := ⟨1, rfl⟩

theorem DOk.if_true {e ds t} {loc : Env} {d d' : DSt} {o : List Event} {v : Val}
    (hv : eval (dlook loc d) e = .ok v) (ht : v.truthy = true) (h : DOk (.dirs ds t) loc d o d') :
    DOk (.dirs (.if_ e :: ds) t) loc d o d' := by
  obtain ⟨n, h⟩ := h
  exact ⟨n + 1, by simp [doc, hv, ht, h, bind, Except.bind]⟩

theorem DOk.if_false {e ds t} {loc : Env} {d : DSt} {v : Val}
    (hv : eval (dlook loc d) e = .ok v) (ht : v.truthy = false) :
    DOk (.dirs (.if_ e :: ds) t) loc d [] d :=
  ⟨1, by simp [doc, hv, ht, bind, Except.bind, pure, Except.pure]⟩

theorem DOk.for_ {v e ds t} {loc : Env} {d d' : DSt} {o : List Event} {it items}
    (hit : eval (dlook loc d) e = .ok it) (hitems : iterItems it = .ok items)
    (h : DOk (.loop v items ds t) loc d o d') : DOk (.dirs (.for_ v e :: ds) t) loc d o d' := by
  obtain ⟨n, h⟩ := h
  exact ⟨n + 1, by simp [doc, hit, hitems, h, bind, Except.bind]⟩

theorem DOk.loop_nil (v ds t) (loc : Env) (d : DSt) : DOk (.loop v [] ds t) loc d [] d := ⟨1, rfl⟩

theorem DOk.loop_cons {v item items ds t} {loc : Env} {d d1 d2 : DSt} {o1 o2 : List Event}
    (h1 : DOk (.dirs ds t) ((v, item) :: loc) d o1 d1) (h2 : DOk (.loop v items ds t) loc d1 o2 d2) :
    DOk (.loop v (item :: items) ds t) loc d (o1 ++ o2) d2 := by
  obtain ⟨n1, h1⟩ := h1
  obtain ⟨n2, h2⟩ := h2
  refine ⟨max n1 n2 + 1, ?_⟩
  simp only [doc, seq_ok]
  exact ⟨o1, d1, o2, DOk.lift h1 (Nat.le_max_left _ _), DOk.lift h2 (Nat.le_max_right _ _), rfl⟩

theorem DOk.choose {e ds t} {loc : Env} {d d1 : DSt} {o : List Event} {v : Val}
    (hv : evalOpt (dlook loc d) e = .ok v)
    (h : DOk (.dirs ds t) loc { d with ch := some ⟨false, e.isSome, v⟩ } o d1) :
    DOk (.dirs (.choose e :: ds) t) loc d o { d1 with ch := d.ch } := by
  obtain ⟨n, h⟩ := h
  exact ⟨n + 1, by simp [doc, hv, h, bind, Except.bind, mapSt]⟩

theorem DOk.with_ {bs ds t} {loc : Env} {d d' : DSt} {o : List Event}
    (h : DOk (.binds bs ds t) loc d o d') : DOk (.dirs (.with_ bs :: ds) t) loc d o d' := by
  obtain ⟨n, h⟩ := h; exact ⟨n + 1, by simpa only [doc] using h⟩

theorem DOk.binds_nil {ds t} {loc : Env} {d d' : DSt} {o : List Event}
    (h : DOk (.dirs ds t) loc d o d') : DOk (.binds [] ds t) loc d o d' := by
  obtain ⟨n, h⟩ := h; exact ⟨n + 1, by simpa only [doc] using h⟩

theorem DOk.binds_cons {x e bs ds t} {loc : Env} {d d' : DSt} {o : List Event} {v : Val}
    (hv : eval (dlook loc d) e = .ok v) (h : DOk (.binds bs ds t) ((x, v) :: loc) d o d') :
    DOk (.binds ((x, e) :: bs) ds t) loc d o d' := by
  obtain ⟨n, h⟩ := h
  exact ⟨n + 1, by simp [doc, hv, h, bind, Except.bind]⟩

theorem DOk.replace {x ds t} {loc : Env} {d d' : DSt} {o : List Event}
    (h : DOk (.xexpr x) loc d o d') : DOk (.dirs (.replace x :: ds) t) loc d o d' := by
  obtain ⟨n, h⟩ := h; exact ⟨n + 1, by simpa only [doc] using h⟩

theorem DOk.content_elem {x ds tag attrs kids} {loc : Env} {d d' : DSt} {o : List Event}
    (h : DOk (.dirs ds (.elem tag attrs [.expr x])) loc d o d') :
    DOk (.dirs (.content x :: ds) (.elem tag attrs kids)) loc d o d' := by
  obtain ⟨n, h⟩ := h; exact ⟨n + 1, by simpa only [doc] using h⟩

theorem DOk.attrs_elem {e ds tag attrs kids} {loc : Env} {d d' : DSt} {o : List Event} {v ps}
    (hv : eval (dlook loc d) e = .ok v) (hps : attrsPairs v = .ok ps)
    (h : DOk (.dirs ds (.elem tag (Genshi.Escape.Attrs.or attrs ps) kids)) loc d o d') :
    DOk (.dirs (.attrs e :: ds) (.elem tag attrs kids)) loc d o d' := by
  obtain ⟨n, h⟩ := h
  exact ⟨n + 1, by simp [doc, hv, hps, h, bind, Except.bind]⟩

theorem DOk.strip_elem {c ds tag attrs kids} {loc : Env} {d d' : DSt} {o : List Event} {b : Bool}
    (hb : stripCond (dlook loc d) c = .ok b)
    (h : DOk (.dirs ds (if b then .frag kids else .elem tag attrs kids)) loc d o d') :
    DOk (.dirs (.strip c :: ds) (.elem tag attrs kids)) loc d o d' := by
  obtain ⟨n, h⟩ := h
  exact ⟨n + 1, by simp [doc, hb, h, bind, Except.bind]⟩

theorem DOk.when_done {e ds t} {loc : Env} {d : DSt} {c : Choice}
    (hc : d.ch = some c) (hm : c.matched = true) : DOk (.dirs (.when e :: ds) t) loc d [] d :=
  ⟨1, by simp [doc, hc, hm]⟩

theorem DOk.when_hit {e ds t} {loc : Env} {d d' : DSt} {o : List Event} {c : Choice}
    (hc : d.ch = some c) (hm : c.matched = false) (hw : whenMatches (dlook loc d) c e = .ok true)
    (h : DOk (.dirs ds t) loc (d.setMatched c true) o d') :
    DOk (.dirs (.when e :: ds) t) loc d o d' := by
  obtain ⟨n, h⟩ := h
  exact ⟨n + 1, by simp [doc, hc, hm, hw, h, bind, Except.bind]⟩

theorem DOk.when_miss {e ds t} {loc : Env} {d : DSt} {c : Choice}
    (hc : d.ch = some c) (hm : c.matched = false) (hw : whenMatches (dlook loc d) c e = .ok false) :
    DOk (.dirs (.when e :: ds) t) loc d [] (d.setMatched c false) :=
  ⟨1, by simp [doc, hc, hm, hw, bind, Except.bind, pure, Except.pure]⟩

theorem DOk.otherwise_done {ds t} {loc : Env} {d : DSt} {c : Choice}
    (hc : d.ch = some c) (hm : c.matched = true) : DOk (.dirs (.otherwise :: ds) t) loc d [] d :=
  ⟨1, by simp [doc, hc, hm]⟩

theorem DOk.otherwise_hit {ds t} {loc : Env} {d d' : DSt} {o : List Event} {c : Choice}
    (hc : d.ch = some c) (hm : c.matched = false)
    (h : DOk (.dirs ds t) loc (d.setMatched c true) o d') :
    DOk (.dirs (.otherwise :: ds) t) loc d o d' := by
  obtain ⟨n, h⟩ := h
  exact ⟨n + 1, by simp [doc, hc, hm, h]⟩

end Genshi.Tmpl

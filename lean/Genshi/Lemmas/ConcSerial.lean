/-
  C16 — the serial execution in terms of C15's `load`, and C15's history invariant at
  quiescence.
-/
import Genshi.Lemmas.ConcLoad
namespace Genshi.Conc
open Genshi.Lru Genshi.Loader

/-- C15's `load`, one call after the other (requests outside the path algebra are skipped) -/
def seqLoads (cfg : Cfg) (fs : FS) (ls : LState) (comp : List (Tid × Req × Res)) :
    List (Tid × CReq) → LState × List (Tid × Req × Res)
  | [] => (ls, comp)
  | (t, q) :: more =>
    match Loader.load cfg fs ls q.r with
    | none => seqLoads cfg fs ls comp more
    | some (ls', res) => seqLoads cfg fs ls' (comp ++ [(t, q.r, res)]) more

/-- a request whose callback loads nothing and whose key is the one `load` computes -/
def Flat (c : CCfg) (q : CReq) : Prop := q.children = [] ∧ resolve c.cfg.path.isEmpty q.r = some q.key

theorem load_some_of_resolve {cfg : Cfg} {fs : FS} {ls : LState} {r : Req} {key : Key}
    (h : resolve cfg.path.isEmpty r = some key) : ∃ p, Loader.load cfg fs ls r = some p := by
  unfold Loader.load; simp [h]

theorem serial_flat (c : CCfg) (ls : LState) (comp : List (Tid × Req × Res)) (l : List (Tid × CReq))
    (hflat : ∀ p ∈ l, Flat c p.2) : serial c ls comp l = seqLoads c.cfg c.fs ls comp l := by
  induction l generalizing ls comp with
  | nil => rfl
  | cons p more ih =>
    obtain ⟨t, q⟩ := p
    obtain ⟨hch, hres⟩ := hflat (t, q) (by simp)
    obtain ⟨r, key, children⟩ := q
    simp only [CReq.children] at hch
    subst hch
    simp only [CReq.r, CReq.key] at hres
    obtain ⟨⟨ls', res⟩, hl⟩ := load_some_of_resolve (fs := c.fs) (ls := ls) hres
    simp only [serial, seqLoads, CReq.r, hl]
    rw [atomicLoad_eq_load c t ls ls' comp r key res hres hl]
    exact ih _ _ fun p hp => hflat p (List.mem_cons_of_mem _ hp)

/-- every serial load keeps C15's history invariant (the files do not change meanwhile) -/
theorem seqLoads_inv (cfg : Cfg) (fs : FS) (clock : Nat) (ls : LState) (comp : List (Tid × Req × Res))
    (l : List (Tid × CReq)) (hi : Inv ⟨fs, clock, ls⟩) :
    Inv ⟨fs, clock, (seqLoads cfg fs ls comp l).1⟩ := by
  induction l generalizing ls comp with
  | nil => exact hi
  | cons p more ih =>
    obtain ⟨t, q⟩ := p
    simp only [seqLoads]
    cases hl : Loader.load cfg fs ls q.r with
    | none => exact ih ls comp hi
    | some p =>
      obtain ⟨ls', res⟩ := p
      exact ih ls' _ (inv_load (w := ⟨fs, clock, ls⟩) hi hl)

/-! ### where the requests in the acquisition log come from -/

/-- everything a thread still has to do, is doing at top level, or has logged, is one of the
    requests of its program -/
structure MInv (progs : List (List CReq)) (g : G) : Prop where
  todo : ∀ t q, q ∈ (g.threads t).todo → q ∈ progs.getD t []
  bottom : ∀ t f, (g.threads t).stack.getLast? = some f → f.req ∈ progs.getD t []
  log : ∀ p ∈ g.acqLog, p.2 ∈ progs.getD p.1 []

theorem getLast?_cons_req (f f' : Frame) (rest : List Frame) (h : f'.req = f.req) :
    ((f' :: rest).getLast?).map (·.req) = ((f :: rest).getLast?).map (·.req) := by
  cases rest with
  | nil => simp [h]
  | cons p r => simp [List.getLast?_cons_cons]

theorem csStep_last_req (c : CCfg) (tid : Tid) (x : CS) :
    ((csStep c tid x).stack.getLast?).map (·.req) = (x.stack.getLast?).map (·.req) := by
  obtain ⟨ls, stack, completed⟩ := x
  cases stack with
  | nil => rfl
  | cons f rest =>
    obtain ⟨q, pc⟩ := f
    cases pc with
    | start => exact getLast?_cons_req _ _ _ rfl
    | acquired => exact getLast?_cons_req _ _ _ rfl
    | looked hit => exact getLast?_cons_req _ _ _ rfl
    | found loc f u isabs =>
      simp only [csStep]
      split
      · exact getLast?_cons_req _ _ _ rfl
      · exact getLast?_cons_req _ _ _ rfl
    | calling t u todo =>
      cases todo with
      | nil =>
        simp only [csStep]
        split
        · exact getLast?_cons_req _ _ _ rfl
        · exact getLast?_cons_req _ _ _ rfl
      | cons ch todo =>
        simp only [csStep, List.getLast?_cons_cons]
        exact getLast?_cons_req _ _ _ rfl
    | called t u => exact getLast?_cons_req _ _ _ rfl
    | done res => exact getLast?_cons_req _ _ _ rfl
    | released res =>
      cases rest with
      | nil => rfl
      | cons p rest' =>
        obtain ⟨pq, ppc⟩ := p
        cases res with
        | ok t => simp [csStep, List.getLast?_cons_cons]
        | err e =>
          simp only [csStep, List.getLast?_cons_cons]
          exact getLast?_cons_req _ _ _ rfl

theorem minv_init (ls : LState) (progs : List (List CReq)) : MInv progs (G.init ls progs) :=
  ⟨fun t q h => by simpa [G.init] using h, fun t f h => by simp [G.init] at h, fun p h => by simp [G.init] at h⟩

theorem minv_step {c : CCfg} {progs : List (List CReq)} {g g' : G} {t : Tid} (hm : MInv progs g)
    (h : step c g t = some g') : MInv progs g' := by
  have hlast : ∀ f, (afterCs c g t).stack.getLast? = some f → f.req ∈ progs.getD t [] := by
    intro f hf
    have h1 := csStep_last_req c t ⟨g.ls, (g.threads t).stack, g.completed⟩
    have hf' : (csStep c t ⟨g.ls, (g.threads t).stack, g.completed⟩).stack.getLast? = some f := hf
    rw [hf'] at h1
    simp only [Option.map_some] at h1
    cases hl : (g.threads t).stack.getLast? with
    | none => rw [hl] at h1; simp at h1
    | some f0 =>
      rw [hl] at h1
      simp only [Option.map_some, Option.some.injEq] at h1
      rw [h1]; exact hm.bottom t f0 hl
  cases step_kind h with
  | call q more hs ht hg =>
    subst hg
    refine ⟨?_, ?_, hm.log⟩
    · intro u q' hq'
      by_cases hu : u = t
      · subst hu; simp only [setThread_same] at hq'
        exact hm.todo u q' (by rw [ht]; exact List.mem_cons_of_mem _ hq')
      · simp only [setThread_ne _ _ hu] at hq'; exact hm.todo u q' hq'
    · intro u f hf
      by_cases hu : u = t
      · subst hu; simp only [setThread_same, List.getLast?_singleton, Option.some.injEq] at hf
        subst hf; exact hm.todo u q (by rw [ht]; simp)
      · simp only [setThread_ne _ _ hu] at hf; exact hm.bottom u f hf
  | ret q res hs hg =>
    subst hg
    refine ⟨?_, ?_, hm.log⟩
    · intro u q' hq'
      by_cases hu : u = t
      · subst hu; simp only [setThread_same] at hq'; exact hm.todo u q' hq'
      · simp only [setThread_ne _ _ hu] at hq'; exact hm.todo u q' hq'
    · intro u f hf
      by_cases hu : u = t
      · subst hu; simp [setThread_same] at hf
      · simp only [setThread_ne _ _ hu] at hf; exact hm.bottom u f hf
  | acq q rest hs hcan hg =>
    subst hg
    refine ⟨?_, ?_, ?_⟩
    · intro u q' hq'
      by_cases hu : u = t
      · subst hu; simp only [setThread_same] at hq'; exact hm.todo u q' hq'
      · simp only [setThread_ne _ _ hu] at hq'; exact hm.todo u q' hq'
    · intro u f hf
      by_cases hu : u = t
      · subst hu; simp only [setThread_same] at hf; exact hlast f hf
      · simp only [setThread_ne _ _ hu] at hf; exact hm.bottom u f hf
    · intro p hp
      simp only at hp
      cases rest with
      | nil =>
        simp only [List.isEmpty_nil, if_true, List.mem_append, List.mem_singleton] at hp
        rcases hp with hp | rfl
        · exact hm.log p hp
        · exact hm.bottom t ⟨q, .start⟩ (by rw [hs]; rfl)
      | cons f r =>
        simp only [List.isEmpty_cons, Bool.false_eq_true, if_false] at hp
        exact hm.log p hp
  | cs hs hg =>
    subst hg
    refine ⟨?_, ?_, hm.log⟩
    · intro u q' hq'
      by_cases hu : u = t
      · subst hu; simp only [setThread_same] at hq'; exact hm.todo u q' hq'
      · simp only [setThread_ne _ _ hu] at hq'; exact hm.todo u q' hq'
    · intro u f hf
      by_cases hu : u = t
      · subst hu; simp only [setThread_same] at hf; exact hlast f hf
      · simp only [setThread_ne _ _ hu] at hf; exact hm.bottom u f hf

theorem minv_exec {c : CCfg} {progs : List (List CReq)} {g : G} (hm : MInv progs g) (sched : List Tid) :
    MInv progs (exec c g sched) := by
  induction sched generalizing g with
  | nil => exact hm
  | cons t ts ih =>
    simp only [exec]
    cases hs : step c g t with
    | none => exact ih hm
    | some g' => exact ih (minv_step hm hs)


/-! ### the acquisition log respects every thread's program order -/

/-- the top-level request a thread has called but not yet acquired the lock for -/
def headWait : List Frame → List CReq
  | [⟨q, .start⟩] => [q]
  | _ => []

def logOf (t : Tid) (log : List (Tid × CReq)) : List CReq := (log.filter fun p => p.1 == t).map (·.2)

/-- what thread `t` has logged, then what it is waiting to acquire for, then what it still has to
    call, is its program -/
def PInv (progs : List (List CReq)) (g : G) : Prop :=
  ∀ t, logOf t g.acqLog ++ headWait (g.threads t).stack ++ (g.threads t).todo = progs.getD t []

theorem headWait_two (f f' : Frame) (r : List Frame) : headWait (f :: f' :: r) = [] := by
  obtain ⟨q, pc⟩ := f
  cases pc <;> rfl

theorem headWait_not_start (q : CReq) (pc : PC) (h : pc ≠ .start) : headWait [⟨q, pc⟩] = [] := by
  cases pc <;> first | rfl | exact absurd rfl h

theorem headWait_of_not_outside {s : List Frame} (h : ¬ Outside s) : headWait s = [] := by
  cases s with
  | nil => rfl
  | cons f r =>
    cases r with
    | cons f' r' => exact headWait_two f f' r'
    | nil =>
      obtain ⟨q, pc⟩ := f
      apply headWait_not_start
      intro e; subst e
      exact h (Or.inr (Or.inl ⟨q, rfl⟩))

/-- a step of the holder's section never leaves a lone frame that is about to acquire -/
theorem csStep_not_lone_start (c : CCfg) (tid : Tid) (x : CS) (hs : Shape x.stack x.ls.lock)
    (hno : ¬ Outside x.stack) : headWait (csStep c tid x).stack = [] := by
  obtain ⟨ls, stack, completed⟩ := x
  cases stack with
  | nil => exact absurd (Or.inl rfl) hno
  | cons f rest =>
    obtain ⟨q, pc⟩ := f
    have hlone : ∀ pc', pc' ≠ .start → headWait (⟨q, pc'⟩ :: rest) = [] := by
      intro pc' hne
      cases rest with
      | nil => exact headWait_not_start q pc' hne
      | cons f' r' => exact headWait_two _ _ _
    cases pc with
    | start =>
      cases rest with
      | nil => exact absurd (Or.inr (Or.inl ⟨q, rfl⟩)) hno
      | cons f' r' => exact headWait_two _ _ _
    | acquired => simp only [csStep]; exact hlone _ (by simp)
    | looked hit =>
      simp only [csStep]
      apply hlone
      intro e
      have := decide_inCS c ls q hit
      rw [e] at this; simp [PC.inCS] at this
    | found loc f u isabs =>
      simp only [csStep]
      split
      · exact hlone _ (by simp)
      · exact hlone _ (by simp)
    | calling t u todo =>
      cases todo with
      | nil =>
        simp only [csStep]
        split
        · exact hlone _ (by simp)
        · exact hlone _ (by simp)
      | cons ch todo => simp only [csStep]; exact headWait_two _ _ _
    | called t u => simp only [csStep]; exact hlone _ (by simp)
    | done res => simp only [csStep]; exact hlone _ (by simp)
    | released res =>
      cases rest with
      | nil => exact absurd (Or.inr (Or.inr ⟨q, res, rfl⟩)) hno
      | cons p rest' =>
        obtain ⟨pq, ppc⟩ := p
        have hp : isCalling ppc = true := hs.1 ⟨pq, ppc⟩ (by simp)
        have hne : ppc ≠ .start := by intro e; subst e; simp [isCalling] at hp
        cases res with
        | ok t =>
          simp only [csStep]
          cases rest' with
          | nil => exact headWait_not_start pq ppc hne
          | cons f' r' => exact headWait_two _ _ _
        | err e =>
          simp only [csStep]
          cases rest' with
          | nil => exact headWait_not_start pq _ (by simp)
          | cons f' r' => exact headWait_two _ _ _

theorem logOf_append_other {t u : Tid} (log : List (Tid × CReq)) (q : CReq) (h : u ≠ t) :
    logOf u (log ++ [(t, q)]) = logOf u log := by
  have : ((t, q).1 == u) = false := by simpa using fun e : t = u => h e.symm
  simp [logOf, List.filter_append, List.filter_cons, this]

theorem logOf_append_self (t : Tid) (log : List (Tid × CReq)) (q : CReq) :
    logOf t (log ++ [(t, q)]) = logOf t log ++ [q] := by
  simp [logOf, List.filter_append, List.filter_cons]

theorem pinv_init (ls : LState) (progs : List (List CReq)) : PInv progs (G.init ls progs) := by
  intro t; simp [G.init, logOf, headWait]

theorem pinv_step {c : CCfg} {progs : List (List CReq)} {g g' : G} {t : Tid} (hi : GInv g)
    (hp : PInv progs g) (h : step c g t = some g') : PInv progs g' := by
  cases step_kind h with
  | call q more hs ht hg =>
    subst hg
    intro u
    by_cases hu : u = t
    · subst hu
      have := hp u
      rw [hs, ht] at this
      simpa [setThread_same, headWait] using this
    · simp only [setThread_ne _ _ hu]; exact hp u
  | ret q res hs hg =>
    subst hg
    intro u
    by_cases hu : u = t
    · subst hu
      have := hp u
      rw [hs] at this
      simpa [setThread_same, headWait] using this
    · simp only [setThread_ne _ _ hu]; exact hp u
  | acq q rest hs hcan hg =>
    subst hg
    intro u
    cases rest with
    | nil =>
      have hst : (afterCs c g t).stack = [⟨q, .acquired⟩] := by simp [afterCs, hs, csStep]
      by_cases hu : u = t
      · subst hu
        have := hp u
        rw [hs] at this
        simp only [List.isEmpty_nil, if_true, setThread_same, hst, logOf_append_self]
        simpa [headWait] using this
      · simp only [List.isEmpty_nil, if_true, setThread_ne _ _ hu, logOf_append_other _ _ hu]
        exact hp u
    | cons f r =>
      have hst : (afterCs c g t).stack = ⟨q, .acquired⟩ :: f :: r := by simp [afterCs, hs, csStep]
      by_cases hu : u = t
      · subst hu
        have := hp u
        rw [hs, headWait_two] at this
        simpa [setThread_same, hst, headWait_two] using this
      · simp only [List.isEmpty_cons, Bool.false_eq_true, if_false, setThread_ne _ _ hu]
        exact hp u
  | cs hs hg =>
    have hown : g.owner = some t := by
      by_cases ho : g.owner = some t
      · exact ho
      · exact absurd (hi.outside ho) hs
    have hsh := hi.shape t
    rw [if_pos hown] at hsh
    have hafter : headWait (afterCs c g t).stack = [] :=
      csStep_not_lone_start c t ⟨g.ls, (g.threads t).stack, g.completed⟩ hsh hs
    subst hg
    intro u
    by_cases hu : u = t
    · subst hu
      have := hp u
      rw [headWait_of_not_outside hs] at this
      simpa [setThread_same, hafter] using this
    · simp only [setThread_ne _ _ hu]; exact hp u

theorem pinv_exec {c : CCfg} {progs : List (List CReq)} {g : G} (hi : GInv g) (hp : PInv progs g)
    (sched : List Tid) : PInv progs (exec c g sched) := by
  induction sched generalizing g with
  | nil => exact hp
  | cons t ts ih =>
    simp only [exec]
    cases hs : step c g t with
    | none => exact ih hi hp
    | some g' => exact ih (ginv_step hi hs) (pinv_step hi hp hs)

end Genshi.Conc

/-
  C11: what the recursion guard of `Template._prepare` leaves behind.  After inline preparation
  every statically named include still present in a prepared stream (at any depth, also inside
  inlined templates, macro / match template bodies and fallbacks) names a file that does not
  exist or one that lies on a cycle of the static include graph.  No hypothesis on the file set.
-/
import Genshi.Lemmas.InclMono
namespace Genshi.Incl

theorem targetsL_append (a b : List Node) : targetsL (a ++ b) = targetsL a ++ targetsL b := by
  induction a with
  | nil => rfl
  | cons n ns ih => simp [targetsL, ih, List.append_assoc]

theorem targetsL_singleton (n : Node) : targetsL [n] = targetsN n := by simp [targetsL]

/-- file `a` (well-formed) contains a statically named include of `b` -/
def Edge (files : Files) (a b : Name) : Prop :=
  ∃ k body, files.find a = some ⟨k, some body⟩ ∧ b ∈ targetsL body

inductive Reach (files : Files) : Name → Name → Prop
  | refl (a : Name) : Reach files a a
  | tail {a b c : Name} : Reach files a b → Edge files b c → Reach files a c

/-- `t` lies on a cycle of the static include graph -/
def Cyc (files : Files) (t : Name) : Prop := ∃ u, Reach files t u ∧ Edge files u t

def Good (files : Files) (t : Name) : Prop := files.find t = none ∨ Cyc files t

def AllGood (files : Files) (ns : List Node) : Prop := ∀ t ∈ targetsL ns, Good files t

def CacheGood (files : Files) (c : Cache) : Prop := ∀ n b, (n, b) ∈ c → AllGood files b

theorem Res.bind_eq_ok {α β : Type} {x : Res α} {k : α → Res β} {b : β} (h : x.bind k = .ok b) :
    ∃ a, x = .ok a ∧ k a = .ok b := by
  cases x with
  | fuel => simp at h
  | err e => simp at h
  | ok a => exact ⟨a, rfl, h⟩

/-- what "prepare another template" must guarantee (induction hypothesis on fuel) -/
def PJGood (files : Files) (J : PJ) (inl : List Name) (cur : Name) : Prop :=
  ∀ name c b' c', name ∉ inl → Edge files cur name → CacheGood files c →
    J (name :: inl) name c = .ok (b', c') → AllGood files b' ∧ CacheGood files c'

section
variable {files : Files} {J : PJ} {inl : List Name} {cur : Name}

/-- shared shape of the congruence cases -/
theorem wrap_good {b : List Node} {c : Cache} {mk : List Node → Node} {ns' : List Node} {c' : Cache}
    (hmk : ∀ x, targetsN (mk x) = targetsL x)
    (ih : ∀ b' c', prepL files J inl b c = .ok (b', c') → AllGood files b' ∧ CacheGood files c')
    (he : ((prepL files J inl b c).bind fun r => .ok ([mk r.1], r.2)) = .ok (ns', c')) :
    AllGood files ns' ∧ CacheGood files c' := by
  obtain ⟨r, hr, hk⟩ := Res.bind_eq_ok he
  cases hk
  obtain ⟨h1, h2⟩ := ih r.1 r.2 (by rw [hr])
  refine ⟨fun t ht => h1 t ?_, h2⟩
  rw [targetsL_singleton, hmk] at ht
  exact ht
end

mutual
theorem prepN_good {files : Files} {J : PJ} {inl : List Name} {cur : Name}
    (hJ : PJGood files J inl cur) (hg : ∀ g ∈ inl, Reach files g cur) :
    ∀ (n : Node) (c : Cache) (ns' : List Node) (c' : Cache),
      (∀ t ∈ targetsN n, Edge files cur t) → CacheGood files c →
      prepN files J inl n c = .ok (ns', c') → AllGood files ns' ∧ CacheGood files c'
  | .text s, c, ns', c', _, hc, he => by
    cases he; exact ⟨fun t ht => by simp [targetsL, targetsN] at ht, hc⟩
  | .var x, c, ns', c', _, hc, he => by
    cases he; exact ⟨fun t ht => by simp [targetsL, targetsN] at ht, hc⟩
  | .call m, c, ns', c', _, hc, he => by
    cases he; exact ⟨fun t ht => by simp [targetsL, targetsN] at ht, hc⟩
  | .select, c, ns', c', _, hc, he => by
    cases he; exact ⟨fun t ht => by simp [targetsL, targetsN] at ht, hc⟩
  | .elem tg b, c, ns', c', hs, hc, he => by
    rw [prepN_elem] at he
    exact wrap_good (mk := .elem tg) (fun x => by simp [targetsN])
      (fun b' c'' h => prepL_good hJ hg b c b' c'' (fun t ht => hs t (by simpa [targetsN] using ht)) hc h) he
  | .cond cd b, c, ns', c', hs, hc, he => by
    rw [prepN_cond] at he
    exact wrap_good (mk := .cond cd) (fun x => by simp [targetsN])
      (fun b' c'' h => prepL_good hJ hg b c b' c'' (fun t ht => hs t (by simpa [targetsN] using ht)) hc h) he
  | .loop x xs b, c, ns', c', hs, hc, he => by
    rw [prepN_loop] at he
    exact wrap_good (mk := .loop x xs) (fun x => by simp [targetsN])
      (fun b' c'' h => prepL_good hJ hg b c b' c'' (fun t ht => hs t (by simpa [targetsN] using ht)) hc h) he
  | .defn m b, c, ns', c', hs, hc, he => by
    rw [prepN_defn] at he
    exact wrap_good (mk := .defn m) (fun x => by simp [targetsN])
      (fun b' c'' h => prepL_good hJ hg b c b' c'' (fun t ht => hs t (by simpa [targetsN] using ht)) hc h) he
  | .matchT tg b, c, ns', c', hs, hc, he => by
    rw [prepN_matchT] at he
    exact wrap_good (mk := .matchT tg) (fun x => by simp [targetsN])
      (fun b' c'' h => prepL_good hJ hg b c b' c'' (fun t ht => hs t (by simpa [targetsN] using ht)) hc h) he
  | .inlined b, c, ns', c', hs, hc, he => by
    rw [prepN_inlined] at he
    exact wrap_good (mk := .inlined) (fun x => by simp [targetsN])
      (fun b' c'' h => prepL_good hJ hg b c b' c'' (fun t ht => hs t (by simpa [targetsN] using ht)) hc h) he
  | .include (.dyn ps) cls hasFb fb pos, c, ns', c', hs, hc, he => by
    rw [prepN_dyn] at he
    exact wrap_good (mk := fun x => .include (.dyn ps) cls hasFb x pos) (fun x => by simp [targetsN])
      (fun b' c'' h => prepL_good hJ hg fb c b' c'' (fun t ht => hs t (by simpa [targetsN] using ht)) hc h) he
  | .include (.static h) cls hasFb fb pos, c, ns', c', hs, hc, he => by
    have ihfb : ∀ b' c'', prepL files J inl fb c = .ok (b', c'') → AllGood files b' ∧ CacheGood files c'' :=
      fun b' c'' h' => prepL_good hJ hg fb c b' c'' (fun t ht => hs t (by simp [targetsN, ht])) hc h'
    rw [prepN_static] at he
    cases hres : resolve pos h with
    | none => simp [hres] at he
    | some name =>
      have hedge : Edge files cur name := hs name (by simp [targetsN, hres])
      simp only [hres] at he
      cases hfind : files.find name with
      | none =>
        simp only [hfind] at he
        cases hasFb with
        | true => exact ihfb ns' c' (by simpa using he)
        | false =>
          simp only [Bool.false_eq_true, if_false] at he
          obtain ⟨r, hr, hk⟩ := Res.bind_eq_ok he
          cases hk
          obtain ⟨h1, h2⟩ := ihfb r.1 r.2 (by rw [hr])
          refine ⟨fun t ht => ?_, h2⟩
          simp only [targetsL_singleton, targetsN, hres, List.cons_append, List.nil_append, List.mem_cons] at ht
          rcases ht with rfl | ht
          · exact .inl hfind
          · exact h1 t ht
      | some f =>
        obtain ⟨fk, fbody⟩ := f
        simp only [hfind] at he
        by_cases hk : fk = cls
        · subst hk
          simp only [ne_eq, not_true_eq_false, if_false] at he
          cases fbody with
          | none => simp at he
          | some body =>
            simp only at he
            by_cases hin : name ∈ inl
            · simp only [hin, if_true] at he
              obtain ⟨r, hr, hk⟩ := Res.bind_eq_ok he
              cases hk
              obtain ⟨h1, h2⟩ := ihfb r.1 r.2 (by rw [hr])
              refine ⟨fun t ht => ?_, h2⟩
              simp only [targetsL_singleton, targetsN, hres, List.cons_append, List.nil_append, List.mem_cons] at ht
              rcases ht with rfl | ht
              · exact .inr ⟨cur, hg _ hin, hedge⟩
              · exact h1 t ht
            · simp only [hin, if_false] at he
              obtain ⟨r, hr, hk⟩ := Res.bind_eq_ok he
              cases hk
              obtain ⟨h1, h2⟩ := hJ name c r.1 r.2 hin hedge hc (by rw [hr])
              refine ⟨fun t ht => h1 t ?_, h2⟩
              simpa [targetsL_singleton, targetsN] using ht
        · simp [hk] at he
termination_by structural n => n
theorem prepL_good {files : Files} {J : PJ} {inl : List Name} {cur : Name}
    (hJ : PJGood files J inl cur) (hg : ∀ g ∈ inl, Reach files g cur) :
    ∀ (ns : List Node) (c : Cache) (ns' : List Node) (c' : Cache),
      (∀ t ∈ targetsL ns, Edge files cur t) → CacheGood files c →
      prepL files J inl ns c = .ok (ns', c') → AllGood files ns' ∧ CacheGood files c'
  | [], c, ns', c', _, hc, he => by
    cases he; exact ⟨fun t ht => by simp [targetsL] at ht, hc⟩
  | n :: ns, c, ns', c', hs, hc, he => by
    rw [prepL_cons] at he
    obtain ⟨r1, hr1, hk1⟩ := Res.bind_eq_ok he
    obtain ⟨r2, hr2, hk2⟩ := Res.bind_eq_ok hk1
    cases hk2
    obtain ⟨h1, hc1⟩ := prepN_good hJ hg n c r1.1 r1.2 (fun t ht => hs t (by simp [targetsL, ht])) hc (by rw [hr1])
    obtain ⟨h2, hc2⟩ := prepL_good hJ hg ns r1.2 r2.1 r2.2 (fun t ht => hs t (by simp [targetsL, ht])) hc1 (by rw [hr2])
    refine ⟨fun t ht => ?_, hc2⟩
    rw [targetsL_append] at ht
    rcases List.mem_append.mp ht with ht | ht
    · exact h1 t ht
    · exact h2 t ht
termination_by structural ns => ns
end

theorem prepT_good (files : Files) :
    ∀ (f : Nat) (inl : List Name) (name : Name) (c : Cache) (b' : List Node) (c' : Cache),
      (∀ g ∈ inl, Reach files g name) → CacheGood files c →
      prepT files f inl name c = .ok (b', c') → AllGood files b' ∧ CacheGood files c'
  | 0, _, _, _, _, _, _, _, he => by simp [prepT] at he
  | f + 1, inl, name, c, b', c', hg, hc, he => by
    simp only [prepT] at he
    cases hl : c.lookup name with
    | some b =>
      simp only [hl] at he
      cases he
      exact ⟨hc name b' (lookup_mem hl), hc⟩
    | none =>
      simp only [hl] at he
      cases hfind : files.find name with
      | none => simp [hfind] at he
      | some fl =>
        obtain ⟨fk, fbody⟩ := fl
        cases fbody with
        | none => simp [hfind] at he
        | some body =>
          simp only [hfind] at he
          obtain ⟨r, hr, hk⟩ := Res.bind_eq_ok he
          cases hk
          have hJ : PJGood files (prepT files f) inl name := by
            intro name' c1 b1 c1' hn' hedge hc1 he1
            refine prepT_good files f (name' :: inl) name' c1 b1 c1' ?_ hc1 he1
            intro g hgm
            rcases List.mem_cons.mp hgm with rfl | hgm
            · exact .refl _
            · exact .tail (hg g hgm) hedge
          obtain ⟨h1, h2⟩ := prepL_good hJ hg body c r.1 r.2 (fun t ht => ⟨fk, body, hfind, ht⟩) hc (by rw [hr])
          refine ⟨h1, fun n b hm => ?_⟩
          rcases List.mem_cons.mp hm with heq | hm
          · cases heq; exact h1
          · exact h2 n b hm

end Genshi.Incl

/-
  The injector loops with a content that VARIES from injection to injection (`runGoL`,
  `prependL`, `appendGoL`) on streams without ENTER / EXIT marks (`Inner`: what `invert()` leaves
  behind).  before / after with contents that are unmarked and balanced on their own (`VOk`) keep
  the balance of EVERY marked stream, in every state of the loop, and keep `Inner`; the
  element-only loops `prependL` / `appendGoL` are the identity on `Inner` streams.
  Generalises `runGo_balance_any`, `runGo_inner`, `prepend_inner'`, `append_inner'` of
  `TfDirty.lean`.
-/
import Genshi.Lemmas.TfVary
import Genshi.Lemmas.TfDirty
namespace Genshi.Tf

/-- before / after with a varying content (kept selections, every content balanced on its own):
    the output is balanced like the input, in every state of the loop and for every stream -/
theorem runGoL_balance_any (s : MStream) : ∀ (pres posts : List MStream),
    (∀ c ∈ pres, VOk c) → (∀ c ∈ posts, VOk c) →
    ∀ (state : RunSt) st,
      balance st (unmark (runGoL true state pres posts s)) = balance st (unmark s) := by
  induction s with
  | nil =>
    intro pres posts _ hposts state st
    have hp : balance st (unmark (posts.headD [])) = balance st [] := by
      simpa using balance_bal st (VOk.headD hposts).2 []
    cases state
    · simp only [runGoL]
    · simp only [runGoL]; exact hp
    · simp only [runGoL]; exact hp
  | cons p s ih =>
    intro pres posts hpres hposts state st
    obtain ⟨m, x⟩ := p
    have hx : ∀ (pres posts : List MStream), (∀ c ∈ pres, VOk c) → (∀ c ∈ posts, VOk c) →
        ∀ (state' : RunSt) st,
          balance st (unmark ((m, x) :: runGoL true state' pres posts s)) =
            balance st (unmark ((m, x) :: s)) := by
      intro pres posts hpres hposts state' st
      rw [balance_unmark_cons, balance_unmark_cons]
      cases effStep (eff x) st with
      | none => rfl
      | some st' => simp [ih pres posts hpres hposts state' st']
    have hidle : ∀ (pres posts : List MStream), (∀ c ∈ pres, VOk c) → (∀ c ∈ posts, VOk c) →
        ∀ st, balance st (unmark (runGoL true .idle pres posts ((m, x) :: s))) =
          balance st (unmark ((m, x) :: s)) := by
      intro pres posts hpres hposts st
      rcases m with _ | m
      · simp only [runGoL]; exact hx pres posts hpres hposts _ st
      · simp only [runGoL, ↓reduceIte, List.singleton_append, unmark_append]
        rw [balance_bal st (VOk.headD hpres).2]
        exact hx pres.tail posts (VOk.tail hpres) hposts _ st
    cases state with
    | idle => exact hidle pres posts hpres hposts st
    | inEnter =>
      simp only [runGoL, ↓reduceIte, List.singleton_append]
      split
      · rw [balance_unmark_cons, balance_unmark_cons]
        cases effStep (eff x) st with
        | none => rfl
        | some st' =>
          simp only [Option.bind_some, unmark_append]
          rw [balance_bal st' (VOk.headD hposts).2, ih pres posts.tail hpres (VOk.tail hposts) .idle st']
      · exact hx pres posts hpres hposts _ st
    | inRun m0 =>
      simp only [runGoL]
      split
      · simp only [↓reduceIte, List.singleton_append]; exact hx pres posts hpres hposts _ st
      · rw [unmark_append, balance_bal st (VOk.headD hposts).2]
        have := hidle pres posts.tail hpres (VOk.tail hposts) st
        rcases m with _ | m
        · simpa [runGoL] using this
        · simpa [runGoL] using this

theorem runGoL_wellNested_any (s : MStream) (pres posts : List MStream)
    (hpres : ∀ c ∈ pres, VOk c) (hposts : ∀ c ∈ posts, VOk c) (state : RunSt)
    (hwn : WellNested (unmark s)) : WellNested (unmark (runGoL true state pres posts s)) := by
  unfold WellNested; rw [runGoL_balance_any s pres posts hpres hposts]; exact hwn

/-! the statement is not vacuous: an `Inner` stream (marks OUTSIDE / none only) whose OUTSIDE runs
    cut through the element `a` (its START is selected, its text and END are not; then the text of
    the next run), two different balanced contents `d1`, `d2` — one behind each run -/
section examples

private def ra : QName := ⟨[], ['a']⟩
private def rb : QName := ⟨[], ['b']⟩
private def d1 : MStream := [(none, .ev (.text ['1'] false))]
private def d2 : MStream :=
  [(none, .ev (.start rb [])), (none, .ev (.text ['2'] false)), (none, .ev (.end_ rb))]
private def cutS : MStream :=
  [(some .outside, .ev (.start ra [])), (none, .ev (.text ['-'] false)), (none, .ev (.end_ ra)),
   (some .outside, .ev (.text ['+'] false))]

private theorem cut_inner : Inner cutS := by unfold Inner; decide

private theorem d12_ok : ∀ c ∈ [d1, d2], VOk c := by
  intro c hc
  simp only [List.mem_cons, List.not_mem_nil, or_false] at hc
  rcases hc with rfl | rfl
  · exact ⟨by unfold NoneMarked; decide, by unfold Bal; decide⟩
  · exact ⟨by unfold NoneMarked; decide, by unfold Bal; decide⟩

/-- after(): `d1` lands inside the element `a` (behind its selected START), `d2` at the end -/
example : runGoL true .idle [] [d1, d2] cutS =
    [(some .outside, .ev (.start ra []))] ++ d1 ++
    [(none, .ev (.text ['-'] false)), (none, .ev (.end_ ra)), (some .outside, .ev (.text ['+'] false))] ++
    d2 := by
  decide

example : WellNested (unmark (runGoL true .idle [] [d1, d2] cutS)) :=
  runGoL_wellNested_any cutS [] [d1, d2] (by simp) d12_ok .idle (by decide)

end examples

/-- before / after with a varying unmarked content keep a stream free of ENTER / EXIT marks -/
theorem runGoL_inner (s : MStream) (h : Inner s) : ∀ (pres posts : List MStream),
    (∀ c ∈ pres, VOk c) → (∀ c ∈ posts, VOk c) →
    ∀ state, Inner (runGoL true state pres posts s) := by
  induction s with
  | nil =>
    intro pres posts _ hposts state
    cases state <;> simp only [runGoL]
    · intro p hp; simp at hp
    · exact Inner.ofNone (VOk.headD hposts).1
    · exact Inner.ofNone (VOk.headD hposts).1
  | cons p s ih =>
    intro pres posts hpres hposts state
    obtain ⟨m, x⟩ := p
    have hmx : Inner [(m, x)] := fun q hq => by
      simp at hq; subst hq; exact h (m, x) (by simp)
    have ih' := ih h.tail
    have hidle : ∀ (pres posts : List MStream), (∀ c ∈ pres, VOk c) → (∀ c ∈ posts, VOk c) →
        Inner (runGoL true .idle pres posts ((m, x) :: s)) := by
      intro pres posts hpres hposts
      rcases m with _ | m
      · simp only [runGoL]; exact hmx.append (ih' pres posts hpres hposts _)
      · simp only [runGoL, ↓reduceIte]
        exact (Inner.ofNone (VOk.headD hpres).1).append
          (hmx.append (ih' pres.tail posts (VOk.tail hpres) hposts _))
    cases state with
    | idle => exact hidle pres posts hpres hposts
    | inEnter =>
      simp only [runGoL, ↓reduceIte]
      split
      · exact hmx.append ((Inner.ofNone (VOk.headD hposts).1).append
          (ih' pres posts.tail hpres (VOk.tail hposts) _))
      · exact hmx.append (ih' pres posts hpres hposts _)
    | inRun m0 =>
      simp only [runGoL]
      split
      · simp only [↓reduceIte]; exact hmx.append (ih' pres posts hpres hposts _)
      · refine (Inner.ofNone (VOk.headD hposts).1).append ?_
        have := hidle pres posts.tail hpres (VOk.tail hposts)
        rcases m with _ | m
        · simpa [runGoL] using this
        · simpa [runGoL] using this

example : Inner (runGoL true .idle [] [d1, d2] cutS) :=
  runGoL_inner cutS cut_inner [] [d1, d2] (by simp) d12_ok .idle

/-- `prependL` only acts at ENTER marks: the identity after `invert()` -/
theorem prependL_inner_id (cs : List MStream) {s : MStream} (h : Inner s) : prependL cs s = s := by
  have := prependL_inner cs s [] h
  simpa [prependL] using this

/-- `appendGoL` only acts at ENTER / EXIT marks: the identity after `invert()` -/
theorem appendL_inner_id (cs : List MStream) {s : MStream} (h : Inner s) :
    appendGoL cs none s = s := by
  have := appendGoL_inner cs s [] h
  simpa [appendGoL] using this

example : prependL [d1, d2] cutS = cutS ∧ appendGoL [d1, d2] none cutS = cutS :=
  ⟨prependL_inner_id _ cut_inner, appendL_inner_id _ cut_inner⟩

end Genshi.Tf

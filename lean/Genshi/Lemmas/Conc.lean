/-
  C16 — lemmas about the interleaving model (`Genshi/Model/Conc.lean`).
-/
import Genshi.Model.Conc
import Genshi.Lemmas.Loader
namespace Genshi.Conc
open Genshi.Lru Genshi.Loader

/-! ### the section terminates: every step that changes something lowers the measure -/

theorem frameMeasure_pos (f : Frame) : 2 ≤ frameMeasure f := by
  unfold frameMeasure; split <;> omega

theorem decide_measure (c : CCfg) (ls : LState) (q : CReq) (hit : Option Tmpl) :
    frameMeasure ⟨q, decide c ls q hit⟩ < 7 + 10 * sizeList q.children := by
  unfold decide
  simp only
  split
  · simp [frameMeasure]; omega
  · split
    · simp [frameMeasure]; omega
    · split <;> simp [frameMeasure] <;> omega

theorem csStep_measure (c : CCfg) (tid : Tid) (x : CS) :
    csStep c tid x = x ∨ stackMeasure (csStep c tid x).stack < stackMeasure x.stack := by
  obtain ⟨ls, stack, completed⟩ := x
  cases stack with
  | nil => left; rfl
  | cons f rest =>
    obtain ⟨q, pc⟩ := f
    cases pc with
    | start => right; simp [csStep, stackMeasure, frameMeasure]
    | acquired => right; simp [csStep, stackMeasure, frameMeasure]
    | looked hit =>
      right
      have := decide_measure c ls q hit
      simp only [csStep, stackMeasure]
      simp only [frameMeasure] at this ⊢
      omega
    | found loc f u isabs =>
      right
      simp only [csStep]
      split
      · simp [stackMeasure, frameMeasure]; omega
      · simp only [stackMeasure, frameMeasure]
        split
        · omega
        · simp [sizeList]; omega
    | calling t u todo =>
      cases todo with
      | nil =>
        right
        simp only [csStep]
        split <;> simp [stackMeasure, frameMeasure, sizeList]
      | cons ch todo =>
        right
        obtain ⟨r, k, cs⟩ := ch
        simp [csStep, stackMeasure, frameMeasure, sizeList, CReq.size, CReq.children]
        omega
    | called t u => right; simp [csStep, stackMeasure, frameMeasure]
    | done res => right; simp [csStep, stackMeasure, frameMeasure]
    | released res =>
      cases rest with
      | nil => left; rfl
      | cons p rest' =>
        right
        obtain ⟨pq, ppc⟩ := p
        have hp := frameMeasure_pos ⟨pq, ppc⟩
        cases res with
        | ok t => simp [csStep, stackMeasure, frameMeasure]
        | err e =>
          simp only [csStep, stackMeasure]
          simp only [frameMeasure] at hp ⊢
          omega

theorem iter_fixed {α : Type} (f : α → α) (x : α) (h : f x = x) (n : Nat) : iter f n x = x := by
  induction n with
  | zero => rfl
  | succ n ih => simp [iter, h, ih]

/-- any number of steps beyond the measure gives the same final state -/
theorem iter_stable (c : CCfg) (tid : Tid) : ∀ (m : Nat) (x : CS), stackMeasure x.stack ≤ m →
    ∀ n, stackMeasure x.stack ≤ n → iter (csStep c tid) n x = iter (csStep c tid) (stackMeasure x.stack) x := by
  intro m
  induction m with
  | zero =>
    intro x hm n _
    have h0 : stackMeasure x.stack = 0 := by omega
    rcases csStep_measure c tid x with h | h
    · rw [iter_fixed _ _ h, iter_fixed _ _ h]
    · omega
  | succ m ih =>
    intro x hm n hn
    rcases csStep_measure c tid x with h | h
    · rw [iter_fixed _ _ h, iter_fixed _ _ h]
    · have hpos : 0 < stackMeasure x.stack := by omega
      obtain ⟨n', rfl⟩ : ∃ n', n = n' + 1 := ⟨n - 1, by omega⟩
      obtain ⟨k, hk⟩ : ∃ k, stackMeasure x.stack = k + 1 := ⟨stackMeasure x.stack - 1, by omega⟩
      rw [hk]
      simp only [iter]
      rw [ih (csStep c tid x) (by omega) n' (by omega), ih (csStep c tid x) (by omega) k (by omega)]

theorem finish_csStep (c : CCfg) (tid : Tid) (x : CS) : finish c tid (csStep c tid x) = finish c tid x := by
  unfold finish
  rcases csStep_measure c tid x with h | h
  · rw [h]
  · obtain ⟨k, hk⟩ : ∃ k, stackMeasure x.stack = k + 1 := ⟨stackMeasure x.stack - 1, by omega⟩
    rw [hk]
    simp only [iter]
    exact (iter_stable c tid k (csStep c tid x) (by omega) k (by omega)).symm


/-! ### the shape of stacks -/

def isCalling : PC → Bool
  | .calling _ _ _ => true
  | _ => false

def csCount (s : List Frame) : Nat := (s.filter fun f => f.pc.inCS).length

/-- all frames below the top are loads waiting inside their callback, and `lock` counts the
    frames that hold the lock -/
def Shape (s : List Frame) (lock : Nat) : Prop :=
  (∀ f ∈ s.tail, isCalling f.pc = true) ∧ lock = csCount s

def Outside (s : List Frame) : Prop :=
  s = [] ∨ (∃ q, s = [⟨q, .start⟩]) ∨ (∃ q res, s = [⟨q, .released res⟩])

theorem isCalling_inCS {pc : PC} (h : isCalling pc = true) : pc.inCS = true := by
  cases pc <;> simp_all [isCalling, PC.inCS]

theorem outside_of_shape0 {s : List Frame} (h : Shape s 0) : Outside s := by
  obtain ⟨ht, hc⟩ := h
  cases s with
  | nil => left; rfl
  | cons f rest =>
    cases rest with
    | cons p rest' =>
      have hp := isCalling_inCS (ht p (by simp))
      simp [csCount, List.filter_cons, hp] at hc
      split at hc <;> simp at hc
    | nil =>
      obtain ⟨q, pc⟩ := f
      cases pc <;> simp [csCount, List.filter_cons, PC.inCS] at hc
      · right; left; exact ⟨q, rfl⟩
      · right; right; exact ⟨q, _, rfl⟩

theorem shape0_of_outside {s : List Frame} (h : Outside s) : Shape s 0 := by
  rcases h with rfl | ⟨q, rfl⟩ | ⟨q, res, rfl⟩ <;> simp [Shape, csCount, PC.inCS]

theorem decide_inCS (c : CCfg) (ls : LState) (q : CReq) (hit : Option Tmpl) :
    (decide c ls q hit).inCS = true := by
  unfold decide
  simp only
  split
  · rfl
  · split
    · rfl
    · split <;> rfl

theorem csCount_cons (f : Frame) (s : List Frame) :
    csCount (f :: s) = (if f.pc.inCS then 1 else 0) + csCount s := by
  simp only [csCount, List.filter_cons]; split <;> simp <;> omega

/-- the steps of the section keep the shape -/
theorem csStep_shape (c : CCfg) (tid : Tid) (x : CS) (h : Shape x.stack x.ls.lock) :
    Shape (csStep c tid x).stack (csStep c tid x).ls.lock := by
  obtain ⟨ls, stack, completed⟩ := x
  obtain ⟨ht, hc⟩ := h
  simp only at ht hc
  cases stack with
  | nil => exact ⟨ht, hc⟩
  | cons f rest =>
    obtain ⟨q, pc⟩ := f
    simp only [List.tail_cons] at ht
    rw [csCount_cons] at hc
    cases pc with
    | start =>
      simp only [PC.inCS] at hc
      refine ⟨by simpa [csStep] using ht, ?_⟩
      simp only [csStep, csCount_cons, PC.inCS]; simp at hc ⊢; omega
    | acquired =>
      simp only [PC.inCS] at hc
      refine ⟨by simpa [csStep] using ht, ?_⟩
      simp only [csStep, csCount_cons, PC.inCS]
      split <;> simpa using hc
    | looked hit =>
      simp only [PC.inCS] at hc
      refine ⟨by simpa [csStep] using ht, ?_⟩
      simp only [csStep, csCount_cons, decide_inCS]; simpa using hc
    | found loc f u isabs =>
      simp only [PC.inCS] at hc
      simp only [csStep]
      split
      · exact ⟨by simpa using ht, by simp only [csCount_cons, PC.inCS]; simpa using hc⟩
      · refine ⟨by simpa using ht, ?_⟩
        simp only [csCount_cons, PC.inCS]
        split <;> simpa using hc
    | calling t u todo =>
      simp only [PC.inCS] at hc
      cases todo with
      | nil =>
        simp only [csStep]
        split
        · exact ⟨by simpa using ht, by simp only [csCount_cons, PC.inCS]; simpa using hc⟩
        · exact ⟨by simpa using ht, by simp only [csCount_cons, PC.inCS]; simpa using hc⟩
      | cons ch todo =>
        simp only [csStep]
        refine ⟨?_, ?_⟩
        · intro f hf
          simp only [List.tail_cons, List.mem_cons] at hf
          rcases hf with rfl | hf
          · rfl
          · exact ht f hf
        · simp only [csCount_cons, PC.inCS]; simpa using hc
    | called t u =>
      simp only [PC.inCS] at hc
      exact ⟨by simpa [csStep] using ht, by simp only [csStep, csCount_cons, PC.inCS]; simpa using hc⟩
    | done res =>
      simp only [PC.inCS] at hc
      refine ⟨by simpa [csStep] using ht, ?_⟩
      simp only [csStep, csCount_cons, PC.inCS]; simp at hc ⊢; omega
    | released res =>
      cases rest with
      | nil =>
        simp only [PC.inCS] at hc
        exact ⟨by simp [csStep], by simp only [csStep, csCount_cons, PC.inCS]; simpa using hc⟩
      | cons p rest' =>
        obtain ⟨pq, ppc⟩ := p
        have hp : isCalling ppc = true := ht ⟨pq, ppc⟩ (by simp)
        have hpcs : ppc.inCS = true := isCalling_inCS hp
        have ht' : ∀ f ∈ rest', isCalling f.pc = true := fun f hf => ht f (by simp [hf])
        rw [csCount_cons] at hc
        simp only [hpcs] at hc
        simp only [PC.inCS] at hc
        cases res with
        | ok t =>
          refine ⟨by simpa [csStep] using ht', ?_⟩
          simp only [csStep, csCount_cons, hpcs]; simpa using hc
        | err e =>
          refine ⟨by simpa [csStep] using ht', ?_⟩
          simp only [csStep, csCount_cons, PC.inCS]; simpa using hc


/-! ### the steps of the interleaving model, by kind -/

/-- the state after thread `t` takes a step of its section -/
def afterCs (c : CCfg) (g : G) (t : Tid) : CS := csStep c t ⟨g.ls, (g.threads t).stack, g.completed⟩

inductive StepKind (c : CCfg) (g : G) (t : Tid) (g' : G) : Prop where
  | call (q : CReq) (more : List CReq) (hs : (g.threads t).stack = []) (ht : (g.threads t).todo = q :: more)
      (hg : g' = { g with threads := setThread g.threads t ⟨[⟨q, .start⟩], more⟩ })
  | ret (q : CReq) (res : Res) (hs : (g.threads t).stack = [⟨q, .released res⟩])
      (hg : g' = { g with threads := setThread g.threads t ⟨[], (g.threads t).todo⟩ })
  | acq (q : CReq) (rest : List Frame) (hs : (g.threads t).stack = ⟨q, .start⟩ :: rest)
      (hcan : canAcquire c g t = true)
      (hg : g' = { g with ls := (afterCs c g t).ls, owner := some t,
                          threads := setThread g.threads t ⟨(afterCs c g t).stack, (g.threads t).todo⟩,
                          acqLog := if rest.isEmpty then g.acqLog ++ [(t, q)] else g.acqLog })
  | cs (hs : ¬ Outside (g.threads t).stack)
      (hg : g' = { g with ls := (afterCs c g t).ls,
                          owner := if (afterCs c g t).ls.lock = 0 then none else g.owner,
                          threads := setThread g.threads t ⟨(afterCs c g t).stack, (g.threads t).todo⟩,
                          completed := (afterCs c g t).completed })

theorem step_kind {c : CCfg} {g g' : G} {t : Tid} (h : step c g t = some g') : StepKind c g t g' := by
  unfold step at h
  cases hs : (g.threads t).stack with
  | nil =>
    simp only [hs] at h
    cases ht : (g.threads t).todo with
    | nil => simp [ht] at h
    | cons q more =>
      simp only [ht, Option.some.injEq] at h
      exact .call q more hs ht h.symm
  | cons f rest =>
    obtain ⟨q, pc⟩ := f
    have hno : ∀ (pc : PC), (∀ r, pc ≠ .released r) → pc ≠ .start →
        ¬ Outside (⟨q, pc⟩ :: rest) := by
      intro pc h1 h2 ho
      rcases ho with ho | ⟨_, ho⟩ | ⟨_, r, ho⟩
      · cases ho
      · simp only [List.cons.injEq, Frame.mk.injEq] at ho; exact h2 ho.1.2
      · simp only [List.cons.injEq, Frame.mk.injEq] at ho; exact h1 r ho.1.2
    cases pc with
    | start =>
      simp only [hs] at h
      split at h
      · rename_i hcan
        simp only [Option.some.injEq] at h
        refine .acq q rest hs hcan ?_
        rw [← h]; simp [afterCs, hs]
      · cases h
    | released res =>
      cases rest with
      | nil =>
        simp only [hs, Option.some.injEq] at h
        exact .ret q res hs h.symm
      | cons p rest' =>
        simp only [hs, Option.some.injEq] at h
        refine .cs ?_ ?_
        · rw [hs]; intro ho
          rcases ho with ho | ⟨_, ho⟩ | ⟨_, _, ho⟩ <;> simp at ho
        · rw [← h]; simp [afterCs, hs]
    | acquired =>
      simp only [hs, Option.some.injEq] at h
      exact .cs (by rw [hs]; exact hno _ (by simp) (by simp)) (by rw [← h]; simp [afterCs, hs])
    | looked hit =>
      simp only [hs, Option.some.injEq] at h
      exact .cs (by rw [hs]; exact hno _ (by simp) (by simp)) (by rw [← h]; simp [afterCs, hs])
    | found loc f u isabs =>
      simp only [hs, Option.some.injEq] at h
      exact .cs (by rw [hs]; exact hno _ (by simp) (by simp)) (by rw [← h]; simp [afterCs, hs])
    | calling tt u todo =>
      simp only [hs, Option.some.injEq] at h
      exact .cs (by rw [hs]; exact hno _ (by simp) (by simp)) (by rw [← h]; simp [afterCs, hs])
    | called tt u =>
      simp only [hs, Option.some.injEq] at h
      exact .cs (by rw [hs]; exact hno _ (by simp) (by simp)) (by rw [← h]; simp [afterCs, hs])
    | done res =>
      simp only [hs, Option.some.injEq] at h
      exact .cs (by rw [hs]; exact hno _ (by simp) (by simp)) (by rw [← h]; simp [afterCs, hs])

/-! ### the invariant: one holder, everybody else outside -/

structure GInv (g : G) : Prop where
  free : g.owner = none → g.ls.lock = 0
  held : ∀ h, g.owner = some h → 1 ≤ g.ls.lock ∧ h < g.n
  shape : ∀ t, Shape (g.threads t).stack (if g.owner = some t then g.ls.lock else 0)
  beyond : ∀ t, g.n ≤ t → (g.threads t).stack = [] ∧ (g.threads t).todo = []

theorem GInv.outside {g : G} (hi : GInv g) {t : Tid} (h : g.owner ≠ some t) :
    Outside (g.threads t).stack := by
  have := hi.shape t
  rw [if_neg h] at this
  exact outside_of_shape0 this

theorem GInv.holder_inside {g : G} (hi : GInv g) {t : Tid} (h : g.owner = some t) :
    ¬ Outside (g.threads t).stack := by
  intro ho
  have h1 := hi.shape t
  rw [if_pos h] at h1
  have h0 := shape0_of_outside ho
  have := (hi.held t h).1
  rw [h1.2, ← h0.2] at this
  omega

theorem ginv_init (ls : LState) (hl : ls.lock = 0) (progs : List (List CReq)) : GInv (G.init ls progs) := by
  refine ⟨fun _ => hl, fun h hh => by simp [G.init] at hh, ?_, ?_⟩
  · intro t; simp [G.init, Shape, csCount]
  · intro t ht
    have ht' : progs.length ≤ t := ht
    exact ⟨rfl, by simp [G.init, List.getD, List.getElem?_eq_none ht']⟩

theorem setThread_same (f : Tid → Thread) (t : Tid) (th : Thread) : setThread f t th t = th := by
  simp [setThread]
theorem setThread_ne (f : Tid → Thread) {t u : Tid} (th : Thread) (h : u ≠ t) : setThread f t th u = f u := by
  simp [setThread, h]

theorem ginv_step {c : CCfg} {g g' : G} {t : Tid} (hi : GInv g) (h : step c g t = some g') : GInv g' := by
  have hk := step_kind h
  have hbt : t < g.n := by
    refine Nat.lt_of_not_le fun hge => ?_
    obtain ⟨h1, h2⟩ := hi.beyond t hge
    unfold step at h
    simp [h1, h2] at h
  cases hk with
  | call q more hs ht hg =>
    have hne : g.owner ≠ some t := fun ho => hi.holder_inside ho (by rw [hs]; left; rfl)
    subst hg
    refine ⟨hi.free, hi.held, ?_, ?_⟩
    · intro u
      by_cases hu : u = t
      · subst hu; simp only [setThread_same, if_neg hne]
        exact shape0_of_outside (Or.inr (Or.inl ⟨q, rfl⟩))
      · simp only [setThread_ne _ _ hu]; exact hi.shape u
    · intro u hu
      have hu' : g.n ≤ u := hu
      have : u ≠ t := fun e => by subst e; exact absurd hu' (Nat.not_le_of_lt hbt)
      simp only [setThread_ne _ _ this]; exact hi.beyond u hu'
  | ret q res hs hg =>
    have hne : g.owner ≠ some t := fun ho => hi.holder_inside ho (by rw [hs]; right; right; exact ⟨q, res, rfl⟩)
    subst hg
    refine ⟨hi.free, hi.held, ?_, ?_⟩
    · intro u
      by_cases hu : u = t
      · subst hu; simp only [setThread_same, if_neg hne]
        exact shape0_of_outside (Or.inl rfl)
      · simp only [setThread_ne _ _ hu]; exact hi.shape u
    · intro u hu
      have hu' : g.n ≤ u := hu
      have : u ≠ t := fun e => by subst e; exact absurd hu' (Nat.not_le_of_lt hbt)
      simp only [setThread_ne _ _ this]; exact hi.beyond u hu'
  | acq q rest hs hcan hg =>
    -- before the step the lock depth seen by `t` is the global one
    have hlock : (if g.owner = some t then g.ls.lock else 0) = g.ls.lock := by
      unfold canAcquire at hcan
      cases ho : g.owner with
      | none => simp [hi.free ho]
      | some o =>
        simp only [ho, Bool.and_eq_true, beq_iff_eq] at hcan
        simp [hcan.1]
    have hsh := hi.shape t
    rw [hlock] at hsh
    have hsh' := csStep_shape c t ⟨g.ls, (g.threads t).stack, g.completed⟩ hsh
    have hlk : (afterCs c g t).ls.lock = g.ls.lock + 1 := by simp [afterCs, hs, csStep]
    have hothers : ∀ u, u ≠ t → g.owner ≠ some u := by
      intro u hu ho
      unfold canAcquire at hcan
      simp only [ho, Bool.and_eq_true, beq_iff_eq] at hcan
      exact hu hcan.1
    subst hg
    refine ⟨by simp, ?_, ?_, ?_⟩
    · intro h hh
      simp only [Option.some.injEq] at hh
      subst hh
      exact ⟨by simp only [hlk]; omega, hbt⟩
    · intro u
      by_cases hu : u = t
      · subst hu; simp only [setThread_same, if_true]; exact hsh'
      · have h1 : (some t : Option Tid) ≠ some u := by simp; exact fun e => hu e.symm
        simp only [setThread_ne _ _ hu, if_neg h1]
        have := hi.shape u
        rwa [if_neg (hothers u hu)] at this
    · intro u hu
      have hu' : g.n ≤ u := hu
      have : u ≠ t := fun e => by subst e; exact absurd hu' (Nat.not_le_of_lt hbt)
      simp only [setThread_ne _ _ this]; exact hi.beyond u hu'
  | cs hs hg =>
    have ho : g.owner = some t := by
      by_cases ho : g.owner = some t
      · exact ho
      · exact absurd (hi.outside ho) hs
    have hsh := hi.shape t
    rw [if_pos ho] at hsh
    have hsh' := csStep_shape c t ⟨g.ls, (g.threads t).stack, g.completed⟩ hsh
    subst hg
    refine ⟨?_, ?_, ?_, ?_⟩
    · intro hnone
      simp only at hnone ⊢
      by_cases h0 : (afterCs c g t).ls.lock = 0
      · exact h0
      · rw [if_neg h0, ho] at hnone; cases hnone
    · intro h hh
      simp only at hh ⊢
      by_cases h0 : (afterCs c g t).ls.lock = 0
      · rw [if_pos h0] at hh; cases hh
      · rw [if_neg h0, ho] at hh
        simp only [Option.some.injEq] at hh; subst hh
        exact ⟨by omega, hbt⟩
    · intro u
      by_cases hu : u = t
      · subst hu
        simp only [setThread_same]
        by_cases h0 : (afterCs c g u).ls.lock = 0
        · simp only [if_pos h0]
          have : Shape (afterCs c g u).stack 0 := by rw [← h0]; exact hsh'
          simpa using this
        · simp only [if_neg h0, ho, if_true]; exact hsh'
      · simp only [setThread_ne _ _ hu]
        have hne : g.owner ≠ some u := by rw [ho]; simp; exact fun e => hu e.symm
        have := hi.shape u
        rw [if_neg hne] at this
        by_cases h0 : (afterCs c g t).ls.lock = 0
        · simpa [if_pos h0] using this
        · simp only [if_neg h0, if_neg hne]; exact this
    · intro u hu
      have hu' : g.n ≤ u := hu
      have : u ≠ t := fun e => by subst e; exact absurd hu' (Nat.not_le_of_lt hbt)
      simp only [setThread_ne _ _ this]; exact hi.beyond u hu'

theorem ginv_exec {c : CCfg} {g : G} (hi : GInv g) (sched : List Tid) : GInv (exec c g sched) := by
  induction sched generalizing g with
  | nil => exact hi
  | cons t ts ih =>
    simp only [exec]
    cases hs : step c g t with
    | none => exact ih hi
    | some g' => exact ih (ginv_step hi hs)


/-! ### mutual exclusion -/

def inCSThread (g : G) (t : Tid) : Prop := ∃ f ∈ (g.threads t).stack, f.pc.inCS = true

theorem outside_not_inCS {s : List Frame} (h : Outside s) : ¬ ∃ f ∈ s, f.pc.inCS = true := by
  rintro ⟨f, hf, hcs⟩
  rcases h with rfl | ⟨q, rfl⟩ | ⟨q, res, rfl⟩
  · simp at hf
  · simp at hf; subst hf; simp [PC.inCS] at hcs
  · simp at hf; subst hf; simp [PC.inCS] at hcs

theorem GInv.mutex {g : G} (hi : GInv g) {t u : Tid} (ht : inCSThread g t) (hu : inCSThread g u) : t = u := by
  have h1 : g.owner = some t := by
    by_cases h : g.owner = some t
    · exact h
    · exact absurd ht (outside_not_inCS (hi.outside h))
  have h2 : g.owner = some u := by
    by_cases h : g.owner = some u
    · exact h
    · exact absurd hu (outside_not_inCS (hi.outside h))
  rw [h1] at h2; exact Option.some.inj h2

/-! ### no deadlock with a re-entrant lock -/

theorem step_none_iff (c : CCfg) (g : G) (t : Tid) :
    step c g t = none ↔
      ((g.threads t).stack = [] ∧ (g.threads t).todo = []) ∨
      (∃ q rest, (g.threads t).stack = ⟨q, .start⟩ :: rest ∧ canAcquire c g t = false) := by
  unfold step
  cases hs : (g.threads t).stack with
  | nil =>
    cases ht : (g.threads t).todo with
    | nil => simp [hs, ht]
    | cons q more => simp [hs, ht]
  | cons f rest =>
    obtain ⟨q, pc⟩ := f
    cases pc with
    | start =>
      by_cases hc : canAcquire c g t = true
      · simp [hs, hc]
      · have hc' : canAcquire c g t = false := by simpa using hc
        simp [hs, hc']
    | released res => cases rest <;> simp [hs]
    | acquired => simp [hs]
    | looked hit => simp [hs]
    | found loc f u isabs => simp [hs]
    | calling tt u todo => simp [hs]
    | called tt u => simp [hs]
    | done res => simp [hs]

theorem GInv.progress {c : CCfg} {g : G} (hi : GInv g) (hre : c.reentrant = true) {t : Tid}
    (ht : t < g.n) (hunf : (g.threads t).finished = false) : ∃ u, u < g.n ∧ (step c g u).isSome = true := by
  cases ho : g.owner with
  | some h =>
    refine ⟨h, (hi.held h ho).2, ?_⟩
    rw [Option.isSome_iff_ne_none]
    intro hnone
    rcases (step_none_iff c g h).mp hnone with ⟨hs, _⟩ | ⟨q, rest, hs, hcan⟩
    · exact hi.holder_inside ho (by rw [hs]; left; rfl)
    · simp [canAcquire, ho, hre] at hcan
  | none =>
    refine ⟨t, ht, ?_⟩
    rw [Option.isSome_iff_ne_none]
    intro hnone
    rcases (step_none_iff c g t).mp hnone with ⟨hs, htd⟩ | ⟨q, rest, hs, hcan⟩
    · simp [Thread.finished, hs, htd] at hunf
    · simp [canAcquire, ho] at hcan

/-! ### serializability -/

/-- the shared state once the current holder (if any) has finished its section -/
def absG (c : CCfg) (g : G) : LState × List (Tid × Req × Res) :=
  match g.owner with
  | none => (g.ls, g.completed)
  | some h =>
    let x := finish c h ⟨g.ls, (g.threads h).stack, g.completed⟩
    (x.ls, x.completed)

theorem serial_append (c : CCfg) (ls : LState) (comp : List (Tid × Req × Res)) (l : List (Tid × CReq))
    (t : Tid) (q : CReq) :
    serial c ls comp (l ++ [(t, q)]) =
      atomicLoad c t (serial c ls comp l).1 (serial c ls comp l).2 q := by
  induction l generalizing ls comp with
  | nil => simp [serial]
  | cons p l ih =>
    obtain ⟨t', q'⟩ := p
    simp only [List.cons_append, serial]
    exact ih _ _

/-- only the release lowers the depth, and it leaves a returned frame on top -/
theorem csStep_lock_drop (c : CCfg) (tid : Tid) (x : CS) (h : (csStep c tid x).ls.lock < x.ls.lock) :
    ∃ q res rest, (csStep c tid x).stack = ⟨q, .released res⟩ :: rest := by
  obtain ⟨ls, stack, completed⟩ := x
  cases stack with
  | nil => simp [csStep] at h
  | cons f rest =>
    obtain ⟨q, pc⟩ := f
    cases pc with
    | start => simp only [csStep] at h; omega
    | acquired => simp only [csStep] at h; split at h <;> simp at h
    | looked hit => simp [csStep] at h
    | found loc f u isabs =>
      simp only [csStep] at h
      split at h
      · simp at h
      · simp only at h; split at h <;> simp at h
    | calling t u todo =>
      cases todo with
      | nil => simp only [csStep] at h; split at h <;> simp at h
      | cons ch todo => simp [csStep] at h
    | called t u => simp [csStep] at h
    | done res => exact ⟨q, res, rest, by simp [csStep]⟩
    | released res =>
      cases rest with
      | nil => simp [csStep] at h
      | cons p rest' =>
        obtain ⟨pq, ppc⟩ := p
        cases res <;> simp [csStep] at h

theorem csStep_start_completed (c : CCfg) (tid : Tid) (ls : LState) (q : CReq) (rest : List Frame)
    (comp : List (Tid × Req × Res)) : (csStep c tid ⟨ls, ⟨q, .start⟩ :: rest, comp⟩).completed = comp := rfl

theorem csStep_outside_released (c : CCfg) (tid : Tid) (x : CS) (q : CReq) (res : Res)
    (h : x.stack = [⟨q, .released res⟩]) : csStep c tid x = x := by
  obtain ⟨ls, stack, completed⟩ := x
  simp only at h; subst h; rfl

/-- the linearization invariant: the state "after the holder finishes" is the serial
    execution of the top-level loads in the order in which they took the lock -/
def LInv (c : CCfg) (ls0 : LState) (g : G) : Prop := absG c g = serial c ls0 [] g.acqLog

theorem linv_step {c : CCfg} {ls0 : LState} {g g' : G} {t : Tid} (hi : GInv g) (hl : LInv c ls0 g)
    (h : step c g t = some g') : LInv c ls0 g' := by
  unfold LInv at *
  cases step_kind h with
  | call q more hs ht hg =>
    have hne : g.owner ≠ some t := fun ho => hi.holder_inside ho (by rw [hs]; left; rfl)
    subst hg
    rw [← hl]
    unfold absG
    cases ho : g.owner with
    | none => rfl
    | some o =>
      have : o ≠ t := fun e => hne (by rw [ho, e])
      simp only [setThread_ne _ _ this]
  | ret q res hs hg =>
    have hne : g.owner ≠ some t := fun ho => hi.holder_inside ho (by rw [hs]; right; right; exact ⟨q, res, rfl⟩)
    subst hg
    rw [← hl]
    unfold absG
    cases ho : g.owner with
    | none => rfl
    | some o =>
      have : o ≠ t := fun e => hne (by rw [ho, e])
      simp only [setThread_ne _ _ this]
  | acq q rest hs hcan hg =>
    have hx : afterCs c g t = csStep c t ⟨g.ls, ⟨q, .start⟩ :: rest, g.completed⟩ := by
      simp [afterCs, hs]
    have hcomp : (afterCs c g t).completed = g.completed := by rw [hx]; rfl
    have habs' : absG c g' = ((finish c t ⟨g.ls, ⟨q, .start⟩ :: rest, g.completed⟩).ls,
                               (finish c t ⟨g.ls, ⟨q, .start⟩ :: rest, g.completed⟩).completed) := by
      subst hg
      simp only [absG, setThread_same]
      have : (⟨(afterCs c g t).ls, (afterCs c g t).stack, g.completed⟩ : CS) = afterCs c g t := by
        rw [← hcomp]
      rw [this, hx, finish_csStep]
    cases rest with
    | nil =>
      have hnone : g.owner = none := by
        cases ho : g.owner with
        | none => rfl
        | some o =>
          have : o = t := by
            have := hcan; simp only [canAcquire, ho, Bool.and_eq_true, beq_iff_eq] at this; exact this.1
          subst this
          have hout : Outside (g.threads o).stack := by rw [hs]; exact Or.inr (Or.inl ⟨q, rfl⟩)
          exact absurd hout (hi.holder_inside ho)
      have hl' : (g.ls, g.completed) = serial c ls0 [] g.acqLog := by
        rw [← hl]; simp [absG, hnone]
      rw [habs']
      subst hg
      simp only [List.isEmpty_nil, if_true, serial_append, ← hl']
      rfl
    | cons p rest' =>
      have hown : g.owner = some t := by
        by_cases ho : g.owner = some t
        · exact ho
        · have := hi.outside ho
          rw [hs] at this
          rcases this with h1 | ⟨_, h1⟩ | ⟨_, _, h1⟩ <;> simp at h1
      rw [habs']
      subst hg
      simp only [List.isEmpty_cons, Bool.false_eq_true, if_false, ← hl]
      simp [absG, hown, hs]
  | cs hs hg =>
    have hown : g.owner = some t := by
      by_cases ho : g.owner = some t
      · exact ho
      · exact absurd (hi.outside ho) hs
    have hsh := hi.shape t
    rw [if_pos hown] at hsh
    have hsh' := csStep_shape c t ⟨g.ls, (g.threads t).stack, g.completed⟩ hsh
    have hbefore : absG c g = ((finish c t (afterCs c g t)).ls, (finish c t (afterCs c g t)).completed) := by
      simp only [absG, hown, afterCs, finish_csStep]
    subst hg
    rw [← hl, hbefore]
    by_cases h0 : (afterCs c g t).ls.lock = 0
    · -- the section is over: the holder's stack is a single returned frame
      have hdrop : (afterCs c g t).ls.lock < g.ls.lock := by
        have := (hi.held t hown).1; omega
      obtain ⟨q, res, rest, hst⟩ := csStep_lock_drop c t ⟨g.ls, (g.threads t).stack, g.completed⟩ hdrop
      have hout : Outside (afterCs c g t).stack := by
        apply outside_of_shape0
        have := hsh'
        simp only [afterCs] at h0 ⊢
        rw [h0] at this; exact this
      have hst' : (afterCs c g t).stack = [⟨q, .released res⟩] := by
        simp only [afterCs] at hout ⊢
        rw [hst] at hout ⊢
        rcases hout with h1 | ⟨_, h1⟩ | ⟨_, _, h1⟩
        · cases h1
        · simp at h1
        · simp only [List.cons.injEq] at h1; rw [h1.2]
      have hfix : finish c t (afterCs c g t) = afterCs c g t := by
        unfold finish
        exact iter_fixed _ _ (csStep_outside_released c t _ q res hst') _
      simp only [absG, if_pos h0, hfix]
    · simp only [absG, if_neg h0, hown, setThread_same]

theorem linv_exec {c : CCfg} {ls0 : LState} {g : G} (hi : GInv g) (hl : LInv c ls0 g) (sched : List Tid) :
    LInv c ls0 (exec c g sched) ∧ GInv (exec c g sched) := by
  induction sched generalizing g with
  | nil => exact ⟨hl, hi⟩
  | cons t ts ih =>
    simp only [exec]
    cases hs : step c g t with
    | none => exact ih hi hl
    | some g' => exact ih (ginv_step hi hs) (linv_step hi hl hs)

end Genshi.Conc

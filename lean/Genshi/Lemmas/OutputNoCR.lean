/-
  Helper lemmas for C08: the serializers write no carriage return unless the
  stream holds one (so expat's line-end normalisation is the identity on the
  output: `readXml ∘ render` is `xmlView ∘ tokens ∘ render`).
-/
import Genshi.Lemmas.Output
import Genshi.Lemmas.OutputTreeNs
namespace Genshi.Output
open Genshi Genshi.Escape

def ncr (s : Str) : Bool := s.all (· != '\r')

def oncr : Option Str → Bool
  | some s => ncr s
  | none => true

theorem ncr_append (a b : Str) : ncr (a ++ b) = (ncr a && ncr b) := by simp [ncr, List.all_append]

theorem ncr_cons (c : Char) (s : Str) : ncr (c :: s) = ((c != '\r') && ncr s) := by simp [ncr]

theorem ncr_flatMap {α : Type} (l : List α) (f : α → Str) (h : ∀ x ∈ l, ncr (f x) = true) : ncr (l.flatMap f) = true := by
  induction l with
  | nil => rfl
  | cons x xs ih =>
    simp only [List.flatMap_cons, ncr_append, Bool.and_eq_true]
    exact ⟨h x (by simp), ih (fun y hy => h y (by simp [hy]))⟩

theorem ncr_escC (q : Bool) (c : Char) (h : (c != '\r') = true) : ncr (escC q c) = true := by
  unfold escC
  split
  · decide
  · split
    · decide
    · split
      · decide
      · split
        · split
          · decide
          · simp [ncr, h]
        · simp [ncr, h]

theorem ncr_escape (q : Bool) (s : Str) (h : ncr s = true) : ncr (escapePy q s) = true := by
  rw [escapePy_eq_spec]
  unfold escapeSpec
  apply ncr_flatMap
  intro c hc
  exact ncr_escC q c (List.all_eq_true.mp h c hc)

theorem ncr_attrOut (n v : Str) (hn : ncr n = true) (hv : ncr v = true) : ncr (attrOut n v) = true := by
  simp only [attrOut, ncr_append, ncr_cons, hn, ncr_escape true v hv, Bool.and_eq_true]
  decide

def attrsNcr (a : FAttrs) : Bool := a.all fun p => ncr p.1 && ncr p.2

theorem ncr_lang : ncr lang = true := by decide

theorem ncr_startOut (m : Method) (ie : Bool) (t : Str) (a : FAttrs) (ht : ncr t = true) (ha : attrsNcr a = true) :
    ncr (startOut m ie t a) = true := by
  have hp : ∀ p ∈ a, ncr p.1 = true ∧ ncr p.2 = true := by
    intro p hp
    have := List.all_eq_true.mp ha p hp
    simpa using this
  have hend : ncr (endTag t) = true := by
    simp only [endTag, ncr_append, ht, Bool.and_eq_true]; decide
  have hx : ncr (xmlAttrs a) = true := by
    apply ncr_flatMap; intro p hp'; exact ncr_attrOut _ _ (hp p hp').1 (hp p hp').2
  have hxh : ncr (xhtmlAttrs a) = true := by
    apply ncr_flatMap; intro p hp'
    unfold xhtmlAttr
    split
    · exact ncr_attrOut _ _ (hp p hp').1 (hp p hp').1
    · split
      · rw [ncr_append, ncr_attrOut _ _ ncr_lang (hp p hp').2, ncr_attrOut _ _ (hp p hp').1 (hp p hp').2]; rfl
      · split
        · rfl
        · exact ncr_attrOut _ _ (hp p hp').1 (hp p hp').2
  have hh : ncr (htmlAttrs a) = true := by
    apply ncr_flatMap; intro p hp'
    unfold htmlAttr
    split
    · split
      · rfl
      · simp [ncr_cons, (hp p hp').1]
    · split
      · split
        · exact ncr_attrOut _ _ ncr_lang (hp p hp').2
        · rfl
      · split
        · exact ncr_attrOut _ _ (hp p hp').1 (hp p hp').2
        · rfl
  cases m
  · have h2 : ncr (if ie then ['/', '>'] else ['>']) = true := by split <;> decide
    simp [startOut, ncr_cons, ncr_append, ht, hx, h2]
  · have h2 : ncr (if ie then (if inTable (emptyElems .xhtml) t then [' ', '/', '>'] else '>' :: endTag t)
        else ['>']) = true := by
      split
      · split
        · decide
        · simp [ncr_cons, hend]
      · decide
    simp [startOut, ncr_cons, ncr_append, ht, hxh, h2]
  · have h2 : ncr (if ie && !inTable (emptyElems .html) t then endTag t else []) = true := by
      split
      · exact hend
      · rfl
    simp only [startOut, ncr_cons, ncr_append, ht, hh, h2, Bool.and_true, Bool.true_and]
    decide

/-- no carriage return in any string of the event -/
def evNcr : FEv → Bool
  | .start t a => ncr t && attrsNcr a
  | .empty t a => ncr t && attrsNcr a
  | .end_ t => ncr t
  | .text s _ => ncr s
  | .comment s => ncr s
  | .pi t d => ncr t && ncr d
  | .doctype n p s => ncr n && oncr p && oncr s
  | .xmlDecl v e _ => ncr v && oncr e
  | _ => true

theorem ncr_getD (x : Option Str) (h : oncr x = true) : ncr (x.getD []) = true := by
  cases x with
  | none => rfl
  | some s => exact h

theorem ncr_doctypeOut (n : Str) (p s : Option Str) (hn : ncr n = true) (hp : oncr p = true) (hs : oncr s = true) :
    ncr (doctypeOut n p s) = true := by
  have h1 := ncr_getD p hp
  have h2 := ncr_getD s hs
  simp only [doctypeOut, ncr_append, hn, Bool.and_eq_true]
  refine ⟨⟨⟨⟨by decide, trivial⟩, ?_⟩, ?_⟩, by decide⟩
  · split
    · simp only [ncr_append, h1, Bool.and_eq_true]; exact ⟨⟨by decide, trivial⟩, by decide⟩
    · split <;> decide
  · split
    · split
      · simp only [ncr_append, h2, Bool.and_eq_true]; exact ⟨⟨by decide, trivial⟩, by decide⟩
      · simp only [ncr_append, h2, Bool.and_eq_true]; exact ⟨⟨by decide, trivial⟩, by decide⟩
    · rfl

theorem ncr_xmlDeclOut (v : Str) (e : Option Str) (s : Int) (hv : ncr v = true) (he : oncr e = true) :
    ncr (xmlDeclOut v e s) = true := by
  have h1 := ncr_getD e he
  simp only [xmlDeclOut, ncr_append, hv, Bool.and_eq_true]
  refine ⟨⟨⟨⟨⟨by decide, trivial⟩, by decide⟩, ?_⟩, ?_⟩, by decide⟩
  · split
    · simp only [ncr_append, h1, Bool.and_eq_true]; exact ⟨⟨by decide, trivial⟩, by decide⟩
    · rfl
  · split
    · simp only [ncr_append, Bool.and_eq_true]
      refine ⟨⟨by decide, ?_⟩, by decide⟩
      split <;> decide
    · rfl

theorem emit_ncr (m : Method) (o : Opts) (c : Ctx) (ev : FEv) (h : evNcr ev = true) :
    ∀ s ∈ emit m o c ev, ncr s = true := by
  intro s hs
  cases ev with
  | start t a =>
    simp only [evNcr, Bool.and_eq_true] at h
    simp only [emit, List.mem_singleton] at hs; subst hs
    exact ncr_startOut m false t a h.1 h.2
  | empty t a =>
    simp only [evNcr, Bool.and_eq_true] at h
    simp only [emit, List.mem_singleton] at hs; subst hs
    exact ncr_startOut m true t a h.1 h.2
  | end_ t =>
    simp only [evNcr] at h
    simp only [emit, List.mem_singleton] at hs; subst hs
    simp only [endTag, ncr_append, h, Bool.and_eq_true]; decide
  | text x f =>
    simp only [evNcr] at h
    cases f with
    | true => simp only [emit, List.mem_singleton] at hs; subst hs; exact h
    | false =>
      simp only [emit] at hs
      split at hs
      · simp only [List.mem_singleton] at hs; subst hs; exact h
      · simp only [List.mem_singleton] at hs; subst hs
        rw [← escapePy_eq_spec]; exact ncr_escape false x h
  | comment x =>
    simp only [evNcr] at h
    simp only [emit, List.mem_singleton] at hs; subst hs
    simp only [commentOut, ncr_append, h, Bool.and_eq_true]; decide
  | pi t d =>
    simp only [evNcr, Bool.and_eq_true] at h
    simp only [emit, List.mem_singleton] at hs; subst hs
    simp only [piOut, ncr_append, ncr_cons, h.1, h.2, Bool.and_eq_true]; decide
  | doctype n p q =>
    simp only [evNcr, Bool.and_eq_true] at h
    simp only [emit] at hs
    split at hs
    · simp at hs
    · simp only [List.mem_singleton] at hs; subst hs
      exact ncr_doctypeOut n p q h.1.1 h.1.2 h.2
  | xmlDecl v e q =>
    simp only [evNcr, Bool.and_eq_true] at h
    simp only [emit] at hs
    split at hs
    · simp at hs
    · simp only [List.mem_singleton] at hs; subst hs
      exact ncr_xmlDeclOut v e q h.1 h.2
  | startCdata =>
    simp only [emit] at hs
    split at hs
    · simp at hs
    · simp only [List.mem_singleton] at hs; subst hs; decide
  | endCdata =>
    simp only [emit] at hs
    split at hs
    · simp at hs
    · simp only [List.mem_singleton] at hs; subst hs; decide
  | startNs p u => simp [emit] at hs
  | endNs p => simp [emit] at hs

theorem ncr_flatten (l : List Str) (h : ∀ s ∈ l, ncr s = true) : ncr l.flatten = true := by
  induction l with
  | nil => rfl
  | cons x xs ih =>
    simp only [List.flatten_cons, ncr_append, Bool.and_eq_true]
    exact ⟨h x (by simp), ih (fun y hy => h y (by simp [hy]))⟩

/-- the output holds no carriage return when the events hold none -/
theorem serSpec_ncr (m : Method) (o : Opts) (evs : List FEv) : ∀ c : Ctx, (∀ ev ∈ evs, evNcr ev = true) →
    ncr (serSpec m o c evs).flatten = true := by
  induction evs with
  | nil => intro _ _; rfl
  | cons ev rest ih =>
    intro c h
    simp only [serSpec, List.flatten_append, ncr_append, Bool.and_eq_true]
    exact ⟨ncr_flatten _ (emit_ncr m o c ev (h ev (by simp))), ih _ (fun e he => h e (by simp [he]))⟩

/-! ### on forests -/

def leafNcr : Event → Bool
  | .text s _ => ncr s
  | .comment s => ncr s
  | .pi t d => ncr t && ncr d
  | .doctype n p s => ncr n && oncr p && oncr s
  | .xmlDecl v e _ => ncr v && oncr e
  | _ => true

mutual
  def nodeNcr : Node → Bool
    | .elem t a ks => ncr t.loc && attrsNcr (fAttrs a) && forestNcr ks
    | .leaf e => leafNcr e
  def forestNcr : List Node → Bool
    | [] => true
    | n :: ns => nodeNcr n && forestNcr ns
end

theorem declAttr_ncr (u : Str) (s : Bool) (hu : ncr u = true) : attrsNcr (declAttr u s) = true := by
  unfold declAttr
  split
  · rfl
  · simp [attrsNcr, hu]; decide

theorem attrsNcr_append (a b : FAttrs) : attrsNcr (a ++ b) = (attrsNcr a && attrsNcr b) := by
  simp [attrsNcr, List.all_append]

mutual
  theorem ncr_treeFu (u : Str) (hu : ncr u = true) : ∀ (s : Bool) (n : Node), nodeNcr n = true →
      ∀ ev ∈ treeFu u s n, evNcr ev = true
    | s, .elem t a ks, h => by
        simp only [nodeNcr, Bool.and_eq_true] at h
        obtain ⟨⟨ht, ha⟩, hk⟩ := h
        have hA : attrsNcr (declAttr u s ++ fAttrs a) = true := by
          rw [attrsNcr_append, declAttr_ncr u s hu, ha]; rfl
        intro ev hev
        cases ks with
        | nil =>
          simp only [treeFu, List.isEmpty_nil, ↓reduceIte, List.mem_singleton] at hev
          subst hev; simp [evNcr, ht, hA]
        | cons k ks' =>
          simp only [treeFu, List.isEmpty_cons, Bool.false_eq_true, ↓reduceIte, List.mem_cons, List.mem_append,
            List.mem_singleton, List.not_mem_nil, or_false] at hev
          rcases hev with h1 | h1 | h1
          · subst h1; simp [evNcr, ht, hA]
          · exact ncr_forestFu u hu true (k :: ks') hk ev h1
          · subst h1; simpa [evNcr] using ht
    | s, .leaf e, h => by
        intro ev hev
        cases e <;> simp [treeFu, leafF] at hev <;> subst hev <;> simp_all [nodeNcr, leafNcr, evNcr]
  theorem ncr_forestFu (u : Str) (hu : ncr u = true) : ∀ (s : Bool) (ns : List Node), forestNcr ns = true →
      ∀ ev ∈ forestFu u s ns, evNcr ev = true
    | s, [], _ => by simp [forestFu]
    | s, n :: ns, h => by
        simp only [forestNcr, Bool.and_eq_true] at h
        intro ev hev
        simp only [forestFu, List.mem_append] at hev
        rcases hev with h1 | h1
        · exact ncr_treeFu u hu s n h.1 ev h1
        · exact ncr_forestFu u hu s ns h.2 ev h1
end

end Genshi.Output

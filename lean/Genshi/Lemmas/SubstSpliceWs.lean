/-
  C01 — `SameOut.splice` under `strip_whitespace=True`.

  With whitespace stripping the `WhitespaceFilter` buffers a whole run of character data and
  normalises it in one piece — including the tags the template author wrote inside a `Markup`
  text.  Both regular expressions only look at the following character, so a tag (which starts
  with `<`, ends with `>` and holds no newline) splits the run:

      normWs (X ++ tag ++ W) = normWs X ++ tag ++ normWs W          (`normWs_tag`)

  hence the `Markup` text is written exactly as its tags would be written as elements.
-/
import Genshi.Lemmas.SubstSplice
import Genshi.Lemmas.SubstStrip
namespace Genshi.Subst
open Genshi.Escape Genshi.Str

/-! ### the two regular expressions around a tag -/

theorem foldr_trimStep_acc (X acc : List Char) (h : acc.head? ≠ some '\n') :
    X.foldr trimStep acc = X.foldr trimStep [] ++ acc := by
  induction X with
  | nil => rfl
  | cons c X ih =>
    simp only [List.foldr_cons, ih]
    cases hR : X.foldr trimStep [] with
    | nil =>
      cases acc with
      | nil => simp
      | cons a as =>
        have : a ≠ '\n' := by simpa using h
        simp [trimStep, this]
    | cons r rs => simp [trimStep]; split <;> simp

theorem foldr_collapseStep_acc (X acc : List Char) (h : acc.head? ≠ some '\n') :
    X.foldr collapseStep acc = X.foldr collapseStep [] ++ acc := by
  induction X with
  | nil => rfl
  | cons c X ih =>
    simp only [List.foldr_cons, ih]
    cases hR : X.foldr collapseStep [] with
    | nil =>
      cases acc with
      | nil => simp
      | cons a as =>
        have : a ≠ '\n' := by simpa using h
        simp [collapseStep, this]
    | cons r rs => simp [collapseStep]; split <;> simp

theorem foldr_trimStep_noNl (T acc : List Char) (hT : ∀ x ∈ T, x ≠ '\n') (h : acc.head? ≠ some '\n') :
    T.foldr trimStep acc = T ++ acc := by
  induction T with
  | nil => rfl
  | cons c T ih =>
    have ih' := ih fun y hy => hT y (List.mem_cons_of_mem _ hy)
    simp only [List.foldr_cons, ih', List.cons_append]
    cases T with
    | nil =>
      cases acc with
      | nil => simp [trimStep]
      | cons a as =>
        have : a ≠ '\n' := by simpa using h
        simp [trimStep, this]
    | cons d T =>
      have : d ≠ '\n' := hT d (by simp)
      simp [trimStep, this]

/-- a piece of text without a newline that does not end in a blank (a tag) splits the run -/
theorem normWs_tag (X T W : List Char) (c : Char) (hT : ∀ x ∈ T, x ≠ '\n') (hc : c ≠ '\n') (hb : isBlank c = false) :
    normWs (X ++ (T ++ [c]) ++ W) = normWs X ++ (T ++ [c]) ++ normWs W := by
  have hTc : ∀ x ∈ T ++ [c], x ≠ '\n' := by
    intro x hx
    rcases List.mem_append.mp hx with h | h
    · exact hT x h
    · simp at h; rw [h]; exact hc
  have hhead : ∀ acc : List Char, ((T ++ [c]) ++ acc).head? ≠ some '\n' := by
    intro acc
    cases T with
    | nil => simpa using hc
    | cons d T => simpa using hT d (by simp)
  have h1 : trimTrailing (X ++ (T ++ [c]) ++ W) = trimTrailing X ++ (T ++ [c]) ++ trimTrailing W := by
    rw [List.append_assoc, trimTrailing_append, trimTrailing_append]
    have : (T ++ [c]).foldr trimStep (trimTrailing W) = (T ++ [c]) ++ trimTrailing W := by
      rw [List.foldr_append]
      have hs : List.foldr trimStep (trimTrailing W) [c] = c :: trimTrailing W := by
        simp [trimStep, hb]
      rw [hs, foldr_trimStep_noNl T _ hT (by simpa using hc)]
      simp
    rw [this, foldr_trimStep_acc X _ (hhead _)]
    have e : trimTrailing X = X.foldr trimStep [] := rfl
    rw [e]; simp only [List.append_assoc]
  unfold normWs
  rw [h1, List.append_assoc, collapseLines_append, collapseLines_append,
    foldr_collapseStep_keep _ _ hTc, foldr_collapseStep_acc _ _ (hhead _)]
  have e : ∀ Y, Y.foldr collapseStep [] = collapseLines Y := fun _ => rfl
  rw [e]; simp only [List.append_assoc]

/-! ### the filter's buffer only matters through its text -/

/-- the text a buffer is flushed as (before normalisation) -/
def bufText (buf : List (List Char × Bool)) : List Char :=
  (buf.map fun p => if p.2 then p.1 else escapePy false p.1).flatten

theorem isEmpty_snoc {α : Type} (buf : List α) (x : α) (xs : List α) : (buf ++ x :: xs).isEmpty = false := by
  cases buf <;> rfl

theorem bufText_append (a b : List (List Char × Bool)) : bufText (a ++ b) = bufText a ++ bufText b := by
  simp [bufText]

theorem wsFlush_congr (p : Nat) (b1 b2 : List (List Char × Bool)) (he : b1.isEmpty = b2.isEmpty)
    (ht : bufText b1 = bufText b2) : wsFlush p b1 = wsFlush p b2 := by
  simp only [wsFlush, he]
  simp only [bufText] at ht
  rw [ht]

theorem wsFilter_congr (pres noesc : List Name) (toks : List Tok) :
    ∀ (p : Nat) (ne : Bool) (b1 b2 : List (List Char × Bool)), b1.isEmpty = b2.isEmpty → bufText b1 = bufText b2 →
      wsFilter pres noesc p ne b1 toks = wsFilter pres noesc p ne b2 toks := by
  induction toks with
  | nil => intro p ne b1 b2 he ht; simp [wsFilter, wsFlush_congr p b1 b2 he ht]
  | cons tok rest ih =>
    intro p ne b1 b2 he ht
    cases tok with
    | text s f =>
      simp only [wsFilter]
      apply ih
      · simp [isEmpty_snoc]
      · simp [bufText_append, ht]
    | «open» t a => simp [wsFilter, wsFlush_congr p b1 b2 he ht]
    | empty t a => simp [wsFilter, wsFlush_congr p b1 b2 he ht]
    | close t => simp [wsFilter, wsFlush_congr p b1 b2 he ht]

/-- what a flushed buffer is written as -/
def flOut (p : Nat) (s : List Char) : List Char := if p = 0 then normWs s else s

theorem normWs_nil : normWs [] = [] := by decide

theorem serToks_wsFlush (m : Method) (p : Nat) (buf : List (List Char × Bool)) (ne : Bool) (rest : List Tok) :
    serToks m ne (wsFlush p buf ++ rest) = flOut p (bufText buf) ++ serToks m ne rest := by
  cases buf with
  | nil => simp [wsFlush, bufText, flOut, normWs_nil]
  | cons x xs =>
    simp only [wsFlush, List.isEmpty_cons, Bool.false_eq_true, if_false, List.cons_append, List.nil_append, serToks]
    simp only [flOut, bufText]

/-- an empty buffer and a buffer holding an empty `Markup` are written alike -/
theorem serToks_wsFilter_emptybuf (m : Method) (pres noesc : List Name) (p : Nat) (ne ne' : Bool) (toks : List Tok) :
    serToks m ne' (wsFilter pres noesc p ne [] toks) = serToks m ne' (wsFilter pres noesc p ne [([], true)] toks) := by
  cases toks with
  | nil =>
    have h := serToks_wsFlush m p [([], true)] ne' []
    have h0 := serToks_wsFlush m p [] ne' []
    simp only [List.append_nil] at h h0
    simp only [wsFilter, h, h0]
    simp [bufText, flOut, normWs_nil]
  | cons tok rest =>
    cases tok with
    | text s f =>
      simp only [wsFilter]
      rw [wsFilter_congr pres noesc rest p ne ([] ++ [(s, f || ne)]) ([([], true)] ++ [(s, f || ne)]) (by simp)
        (by simp [bufText])]
    | «open» t a =>
      simp only [wsFilter]
      rw [serToks_wsFlush, serToks_wsFlush]; simp [bufText, flOut, normWs_nil]
    | empty t a =>
      simp only [wsFilter]
      rw [serToks_wsFlush, serToks_wsFlush]; simp [bufText, flOut, normWs_nil]
    | close t =>
      simp only [wsFilter]
      rw [serToks_wsFlush, serToks_wsFlush]; simp [bufText, flOut, normWs_nil]

/-- **splitting a run**: when everything that may still follow in the run (`Z`) leaves the front
    part `P` of the buffered text alone, the front part can be written at once -/
theorem serToks_wsFilter_split (m : Method) (pres noesc : List Name) (p : Nat) (ne' : Bool) (P P' : List Char)
    (toks : List Tok) :
    ∀ (ne : Bool) (B : List (List Char × Bool)) (Y : List Char), bufText B = P ++ Y →
      (∀ Z, flOut p (P ++ Y ++ Z) = P' ++ flOut p (Y ++ Z)) →
      serToks m ne' (wsFilter pres noesc p ne B toks) =
        P' ++ serToks m ne' (wsFilter pres noesc p ne [(Y, true)] toks) := by
  induction toks with
  | nil =>
    intro ne B Y hB hZ
    have h1 := serToks_wsFlush m p B ne' []
    have h2 := serToks_wsFlush m p [(Y, true)] ne' []
    simp only [List.append_nil] at h1 h2
    simp only [wsFilter, h1, h2, hB]
    have := hZ []
    simp only [List.append_nil] at this
    simp [this, bufText, serToks]
  | cons tok rest ih =>
    intro ne B Y hB hZ
    cases tok with
    | text s f =>
      simp only [wsFilter]
      have hB' : bufText (B ++ [(s, f || ne)]) = P ++ (Y ++ bufText [(s, f || ne)]) := by
        rw [bufText_append, hB, List.append_assoc]
      have hZ' : ∀ Z, flOut p (P ++ (Y ++ bufText [(s, f || ne)]) ++ Z) =
          P' ++ flOut p ((Y ++ bufText [(s, f || ne)]) ++ Z) := by
        intro Z
        have := hZ (bufText [(s, f || ne)] ++ Z)
        simpa [List.append_assoc] using this
      rw [ih ne _ _ hB' hZ']
      congr 2
      apply wsFilter_congr
      · simp
      · simp [bufText]
    | «open» t a =>
      simp only [wsFilter]
      rw [serToks_wsFlush, serToks_wsFlush, hB]
      have := hZ []
      simp only [List.append_nil] at this
      simp [this, bufText]
    | empty t a =>
      simp only [wsFilter]
      rw [serToks_wsFlush, serToks_wsFlush, hB]
      have := hZ []
      simp only [List.append_nil] at this
      simp [this, bufText]
    | close t =>
      simp only [wsFilter]
      rw [serToks_wsFlush, serToks_wsFlush, hB]
      have := hZ []
      simp only [List.append_nil] at this
      simp [this, bufText]

/-! ### the serializer behind `EmptyTagFilter` and `WhitespaceFilter` -/

/-- the state: the START `EmptyTagFilter` holds back, the filter's preserve depth and buffer
    (its `noescape` flag stays off: no raw-text elements) -/
def serS (m : Method) (pend : Option (Name × List (Name × List Char))) (p : Nat)
    (buf : List (List Char × Bool)) (evs : List Ev) : List Char :=
  serToks m false (wsFilter (preserveElems m) (noescapeElems m) p false buf (emptyTagsGo pend evs))

def bump (m : Method) (p : Nat) (t : Name) : Nat :=
  if p > 0 || (preserveElems m).contains t then p + 1 else p

theorem serS_congr (m : Method) (pend : Option (Name × List (Name × List Char))) (p : Nat)
    (b1 b2 : List (List Char × Bool)) (evs : List Ev) (he : b1.isEmpty = b2.isEmpty)
    (ht : bufText b1 = bufText b2) : serS m pend p b1 evs = serS m pend p b2 evs := by
  simp only [serS, wsFilter_congr _ _ _ p false b1 b2 he ht]

theorem serS_emptybuf (m : Method) (pend : Option (Name × List (Name × List Char))) (p : Nat) (evs : List Ev) :
    serS m pend p [] evs = serS m pend p [([], true)] evs :=
  serToks_wsFilter_emptybuf m _ _ p false false _

theorem serS_text_none (m : Method) (p : Nat) (buf : List (List Char × Bool)) (s : List Char) (f : Bool)
    (rest : List Ev) : serS m none p buf (.text s f :: rest) = serS m none p (buf ++ [(s, f)]) rest := by
  simp [serS, emptyTagsGo, wsFilter]

theorem serS_start_none (m : Method) (p : Nat) (buf : List (List Char × Bool)) (t : Name)
    (a : List (Name × List Char)) (rest : List Ev) :
    serS m none p buf (.start t a :: rest) = serS m (some (t, a)) p buf rest := by
  simp [serS, emptyTagsGo]

theorem serS_end_none (m : Method) (p : Nat) (buf : List (List Char × Bool)) (t : Name) (rest : List Ev) :
    serS m none p buf (.end_ t :: rest) = flOut p (bufText buf) ++ (emitClose t ++ serS m none (p - 1) [] rest) := by
  simp only [serS, emptyTagsGo, wsFilter, serToks_wsFlush, serToks]

theorem serS_text_some (m : Method) (t : Name) (a : List (Name × List Char))
    (hne : (noescapeElems m).contains t = false) (p : Nat) (buf : List (List Char × Bool))
    (s : List Char) (f : Bool) (rest : List Ev) :
    serS m (some (t, a)) p buf (.text s f :: rest) =
      flOut p (bufText buf) ++ (emitOpen m t a ++ serS m none (bump m p t) [(s, f)] rest) := by
  simp only [serS, emptyTagsGo, wsFilter, serToks_wsFlush, serToks, hne, Bool.or_false, bump, List.nil_append]

theorem serS_start_some (m : Method) (t : Name) (a : List (Name × List Char))
    (hne : (noescapeElems m).contains t = false) (p : Nat) (buf : List (List Char × Bool))
    (t' : Name) (a' : List (Name × List Char)) (rest : List Ev) :
    serS m (some (t, a)) p buf (.start t' a' :: rest) =
      flOut p (bufText buf) ++ (emitOpen m t a ++ serS m (some (t', a')) (bump m p t) [] rest) := by
  simp only [serS, emptyTagsGo, wsFilter, serToks_wsFlush, serToks, hne, Bool.or_false, bump]

theorem serS_end_some (m : Method) (t : Name) (a : List (Name × List Char)) (p : Nat)
    (buf : List (List Char × Bool)) (t' : Name) (rest : List Ev) :
    serS m (some (t, a)) p buf (.end_ t' :: rest) =
      flOut p (bufText buf) ++ (emitEmpty m t a ++ serS m none p [] rest) := by
  simp only [serS, emptyTagsGo, wsFilter, serToks_wsFlush, serToks]

/-- two event lists the serializer writes the same text for with whitespace stripping, in every
    context: whatever is held back, buffered and follows -/
def SameOutS (m : Method) (a a' : List Ev) : Prop :=
  ∀ pend, PendOk m pend → ∀ (p : Nat) (buf : List (List Char × Bool)) (rest rest' : List Ev),
    (∀ pend', PendOk m pend' → ∀ p' buf', serS m pend' p' buf' rest = serS m pend' p' buf' rest') →
    serS m pend p buf (a ++ rest) = serS m pend p buf (a' ++ rest')

theorem pendOk_some {m : Method} {t : Name} {a : List (Name × List Char)}
    (h : (noescapeElems m).contains t = false) : PendOk m (some (t, a)) := by
  intro t1 a1 e1; cases e1; exact h

theorem pendOk_get {m : Method} {t : Name} {a : List (Name × List Char)} (h : PendOk m (some (t, a))) :
    (noescapeElems m).contains t = false := h t a rfl

theorem SameOutS.refl (m : Method) (a : List Ev) (ha : StartsOk m a) : SameOutS m a a := by
  intro pend hp p buf rest rest' h
  induction a generalizing pend p buf with
  | nil => exact h pend hp p buf
  | cons e es ih =>
    have hes : StartsOk m es := fun t a' hm => ha t a' (List.mem_cons_of_mem _ hm)
    cases e with
    | text s f =>
      cases pend with
      | none => simp only [List.cons_append, serS_text_none, ih hes none (PendOk.none m)]
      | some q =>
        obtain ⟨t0, a0⟩ := q
        simp only [List.cons_append, serS_text_some m t0 a0 (pendOk_get hp), ih hes none (PendOk.none m)]
    | start t a' =>
      have ht : PendOk m (some (t, a')) := pendOk_some (ha t a' (by simp))
      cases pend with
      | none => simp only [List.cons_append, serS_start_none, ih hes _ ht]
      | some q =>
        obtain ⟨t0, a0⟩ := q
        simp only [List.cons_append, serS_start_some m t0 a0 (pendOk_get hp), ih hes _ ht]
    | end_ t =>
      cases pend with
      | none => simp only [List.cons_append, serS_end_none, ih hes none (PendOk.none m)]
      | some q =>
        obtain ⟨t0, a0⟩ := q
        simp only [List.cons_append, serS_end_some, ih hes none (PendOk.none m)]

theorem SameOutS.append {m : Method} {a a' b b' : List Ev} (h1 : SameOutS m a a') (h2 : SameOutS m b b') :
    SameOutS m (a ++ b) (a' ++ b') := by
  intro pend hp p buf rest rest' h
  rw [List.append_assoc, List.append_assoc]
  exact h1 pend hp p buf (b ++ rest) (b' ++ rest') fun pend' hp' p' buf' => h2 pend' hp' p' buf' rest rest' h

theorem SameOutS.wrap {m : Method} {a a' : List Ev} (t : Name) (at_ : List (Name × List Char))
    (ht : (noescapeElems m).contains t = false) (h : SameOutS m a a') :
    SameOutS m (.start t at_ :: (a ++ [.end_ t])) (.start t at_ :: (a' ++ [.end_ t])) := by
  intro pend hp p buf rest rest' hr
  have hpt : PendOk m (some (t, at_)) := pendOk_some ht
  have inner : ∀ p1 buf1, serS m (some (t, at_)) p1 buf1 (a ++ (.end_ t :: rest)) =
      serS m (some (t, at_)) p1 buf1 (a' ++ (.end_ t :: rest')) := by
    intro p1 buf1
    apply h _ hpt
    intro pend' hp' p' buf'
    cases pend' with
    | none => simp only [serS_end_none, hr none (PendOk.none m)]
    | some q =>
      obtain ⟨t0, a0⟩ := q
      simp only [serS_end_some, hr none (PendOk.none m)]
  cases pend with
  | none => simp only [List.cons_append, List.append_assoc, List.nil_append, serS_start_none, inner]
  | some q =>
    obtain ⟨t0, a0⟩ := q
    simp only [List.cons_append, List.append_assoc, List.nil_append, serS_start_some m t0 a0 (pendOk_get hp), inner]

/-! ### a `Markup` text that is a serialization of tokens = those tokens in the stream, with stripping -/

def lvl (p d : Nat) : Nat := if p = 0 then 0 else p + d

theorem flOut_lvl (p d : Nat) (s : List Char) : flOut (lvl p d) s = flOut p s := by
  unfold flOut lvl
  by_cases h : p = 0
  · simp [h]
  · have : p + d ≠ 0 := by omega
    simp [h, this]

theorem escapePy_noNl (q : Bool) (v : List Char) (h : ∀ x ∈ v, x ≠ '\n') : ∀ x ∈ escapePy q v, x ≠ '\n' := by
  rw [escapePy_eq_spec]; unfold escapeSpec
  intro x hx
  obtain ⟨c, hc, hxc⟩ := List.mem_flatMap.mp hx
  exact escC_no_nl q c (h c hc) x hxc

theorem isNameB_noNl (t : Name) (h : isNameB t = true) : ∀ x ∈ t, x ≠ '\n' := by
  intro x hx e
  simp only [isNameB, Bool.and_eq_true, List.all_eq_true] at h
  have := h.2 x hx
  subst e
  simp [isNameChar] at this

theorem emitAttrs_xml_noNl (a : List (Name × List Char))
    (h : ∀ p ∈ a, isNameB p.1 = true ∧ ∀ x ∈ p.2, x ≠ '\n') : ∀ x ∈ emitAttrs .xml a, x ≠ '\n' := by
  intro x hx
  simp only [emitAttrs, List.mem_flatMap] at hx
  obtain ⟨p, hp, hxp⟩ := hx
  obtain ⟨h1, h2⟩ := h p hp
  simp only [emitAttrM, attrText, List.mem_cons, List.mem_append, List.not_mem_nil, or_false] at hxp
  rcases hxp with (((e | e) | e | e) | e) | e
  · rw [e]; decide
  · exact isNameB_noNl _ h1 x e
  · rw [e]; decide
  · rw [e]; decide
  · exact escapePy_noNl true _ h2 x e
  · rw [e]; decide

theorem flOut_tag (p : Nat) (X T W : List Char) (hT : ∀ x ∈ T, x ≠ '\n') :
    flOut p (X ++ (T ++ ['>']) ++ W) = flOut p X ++ (T ++ ['>']) ++ flOut p W := by
  unfold flOut
  by_cases h : p = 0
  · simp only [h, if_true]
    exact normWs_tag X T W '>' hT (by decide) (by decide)
  · simp [h]

theorem splice_main (m : Method) (rest rest' : List Ev)
    (hr : ∀ pend', PendOk m pend' → ∀ p' buf', serS m pend' p' buf' rest = serS m pend' p' buf' rest')
    (p : Nat) : ∀ (toks : List Tok), simpleToks m toks → (∀ tok ∈ toks, tokOkB .xml tok = true) →
      (∀ tok ∈ toks, tokWsOkB m tok = true) → ∀ (d : Nat) (buf : List (List Char × Bool)), closesOk d toks = true →
      serS m none p (buf ++ [(serToks .xml false toks, true)]) rest =
        serS m none (lvl p d) (buf ++ [([], true)]) (spliceEvents toks ++ rest') := by
  intro toks
  induction toks with
  | nil =>
    intro _ _ _ d buf hd
    simp only [closesOk, beq_iff_eq] at hd
    subst hd
    have : lvl p 0 = p := by unfold lvl; split <;> simp_all
    simp only [serToks, spliceEvents, List.nil_append, this]
    exact hr none (PendOk.none m) p _
  | cons tok ts ih =>
    intro hs hx hw d buf hd
    have hs' : simpleToks m ts := fun x hx' => hs x (List.mem_cons_of_mem _ hx')
    have hx' : ∀ tok ∈ ts, tokOkB .xml tok = true := fun x h => hx x (List.mem_cons_of_mem _ h)
    have hw' : ∀ tok ∈ ts, tokWsOkB m tok = true := fun x h => hw x (List.mem_cons_of_mem _ h)
    have ih' := ih hs' hx' hw'
    cases tok with
    | text s f =>
      simp only [closesOk] at hd
      have hL : serS m none p (buf ++ [(serToks .xml false (.text s f :: ts), true)]) rest =
          serS m none p ((buf ++ [(s, f)]) ++ [(serToks .xml false ts, true)]) rest := by
        apply serS_congr
        · simp [isEmpty_snoc]
        · cases f <;> simp [bufText, serToks, emitText]
      rw [hL, ih' d (buf ++ [(s, f)]) hd]
      simp only [spliceEvents, List.cons_append, serS_text_none]
      apply serS_congr
      · simp [isEmpty_snoc]
      · simp [bufText]
    | close t =>
      simp only [closesOk, Bool.and_eq_true, decide_eq_true_eq] at hd
      have hname : isNameB t = true := by simpa [tokOkB] using hx _ List.mem_cons_self
      have hT : ∀ x ∈ ['<', '/'] ++ t, x ≠ '\n' := by
        intro x hx2
        simp only [List.cons_append, List.nil_append, List.mem_cons] at hx2
        rcases hx2 with e | e | e
        · rw [e]; decide
        · rw [e]; decide
        · exact isNameB_noNl t hname x e
      have hL : serS m none p (buf ++ [(serToks .xml false (.close t :: ts), true)]) rest =
          (flOut p (bufText buf) ++ emitClose t) ++ serS m none p [(serToks .xml false ts, true)] rest := by
        unfold serS
        apply serToks_wsFilter_split m _ _ p false (bufText buf ++ emitClose t)
        · simp [bufText, serToks]
        · intro Z
          have := flOut_tag p (bufText buf) (['<', '/'] ++ t) (serToks .xml false ts ++ Z) hT
          simpa [emitClose, List.append_assoc] using this
      rw [hL]
      have := ih' (d - 1) [] hd.2
      simp only [List.nil_append] at this
      rw [this]
      simp only [spliceEvents, List.cons_append, serS_end_none, bufText_append, flOut_lvl]
      have hq : lvl p d - 1 = lvl p (d - 1) := by
        unfold lvl; split
        · rfl
        · omega
      rw [hq, serS_emptybuf]
      simp [bufText]
    | «open» t a =>
      simp only [closesOk] at hd
      obtain ⟨hne, hat⟩ := (hs _ (by simp)).2 t a rfl
      have hok := hx _ (List.mem_cons_self)
      simp only [tokOkB, Bool.and_eq_true] at hok
      have hwt := hw _ (List.mem_cons_self)
      simp only [tokWsOkB, Bool.and_eq_true, Bool.not_eq_true', List.all_eq_true, bne_iff_ne, ne_eq] at hwt
      have hattrs : ∀ q ∈ a, isNameB q.1 = true ∧ ∀ x ∈ q.2, x ≠ '\n' := by
        intro q hq
        have h1 := hok.1.2
        simp only [attrsOkB, List.all_eq_true, Bool.and_eq_true] at h1
        exact ⟨(h1 q hq).1, fun x hx2 => hwt.2 q hq x hx2⟩
      have hT : ∀ x ∈ '<' :: t ++ emitAttrs .xml a, x ≠ '\n' := by
        intro x hx2
        simp only [List.cons_append, List.mem_cons, List.mem_append] at hx2
        rcases hx2 with e | e | e
        · rw [e]; decide
        · exact isNameB_noNl t hok.1.1 x e
        · exact emitAttrs_xml_noNl a hattrs x e
      have hL : serS m none p (buf ++ [(serToks .xml false (.open t a :: ts), true)]) rest =
          (flOut p (bufText buf) ++ emitOpen .xml t a) ++ serS m none p [(serToks .xml false ts, true)] rest := by
        unfold serS
        apply serToks_wsFilter_split m _ _ p false (bufText buf ++ emitOpen .xml t a)
        · simp [bufText, serToks, noescapeElems]
        · intro Z
          have := flOut_tag p (bufText buf) ('<' :: t ++ emitAttrs .xml a) (serToks .xml false ts ++ Z) hT
          simpa [emitOpen, List.append_assoc] using this
      rw [hL]
      have := ih' (d + 1) [] hd
      simp only [List.nil_append] at this
      rw [this]
      simp only [spliceEvents, List.cons_append, serS_start_none, serS_text_some m t a hne, bufText_append, flOut_lvl,
        emitOpen_plain m t a hat]
      have hq : bump m (lvl p d) t = lvl p (d + 1) := by
        unfold bump lvl
        by_cases h0 : p = 0
        · simp [h0]; simpa using hwt.1
        · have : p + d > 0 := by omega
          simp [h0, this]; omega
      rw [hq]
      have hc : serS m none (lvl p (d + 1)) [([], false)] (spliceEvents ts ++ rest') =
          serS m none (lvl p (d + 1)) [([], true)] (spliceEvents ts ++ rest') := by
        apply serS_congr
        · rfl
        · simp [bufText, escapePy, replace, replaceGo]
      rw [hc]
      simp [bufText]
    | empty t a => exact absurd rfl ((hs _ (by simp)).1 t a)

theorem SameOutS.splice (m : Method) (toks : List Tok) (hs : simpleToks m toks)
    (hx : ∀ tok ∈ toks, tokOkB .xml tok = true) (hw : ∀ tok ∈ toks, tokWsOkB m tok = true)
    (hb : closesOk 0 toks = true) :
    SameOutS m [.text (serToks .xml false toks) true] (.text [] true :: spliceEvents toks) := by
  intro pend hp p buf rest rest' hr
  have hl : ∀ q, lvl q 0 = q := by intro q; unfold lvl; split <;> simp_all
  cases pend with
  | none =>
    simp only [List.cons_append, List.nil_append, serS_text_none]
    have := splice_main m rest rest' hr p toks hs hx hw 0 buf hb
    rw [hl] at this
    exact this
  | some q =>
    obtain ⟨t0, a0⟩ := q
    simp only [List.cons_append, List.nil_append, serS_text_some m t0 a0 (pendOk_get hp)]
    have := splice_main m rest rest' hr (bump m p t0) toks hs hx hw 0 [] hb
    rw [hl] at this
    simp only [List.nil_append] at this
    rw [this]

/-! ### the invariant of the template induction, with spliced markup, under stripping -/

def SemS (m : Method) (evs exp : List Ev) : Prop :=
  ∃ evs', SameOutS m evs evs' ∧ StreamOk m evs' ∧ TEq evs' exp

theorem SemS.of_spec {m : Method} {evs exp : List Ev} (hs : StreamOk m evs) (ht : TEq evs exp) : SemS m evs exp :=
  ⟨evs, SameOutS.refl m evs (startsOk_of_streamOk hs), hs, ht⟩

theorem SemS.append {m : Method} {a b ea eb : List Ev} (h1 : SemS m a ea) (h2 : SemS m b eb) :
    SemS m (a ++ b) (ea ++ eb) := by
  obtain ⟨a', s1, o1, t1⟩ := h1
  obtain ⟨b', s2, o2, t2⟩ := h2
  exact ⟨a' ++ b', SameOutS.append s1 s2, StreamOk.append o1 o2, TEq.append t1 t2⟩

theorem SemS.wrap {m : Method} {kids exp : List Ev} (t : Name) (at_ : List (Name × List Char))
    (ht : tagOkB m t = true) (hat : attrsOkB m at_ = true) (hopen : openOk m t = true) (hk : SemS m kids exp) :
    SemS m (.start t at_ :: (kids ++ [.end_ t])) (.start t at_ :: (exp ++ [.end_ t])) := by
  obtain ⟨kids', s1, o1, t1⟩ := hk
  have hne : (noescapeElems m).contains t = false := by
    simp only [tagOkB, Bool.and_eq_true, Bool.not_eq_true'] at ht; exact ht.2
  exact ⟨.start t at_ :: (kids' ++ [.end_ t]), SameOutS.wrap t at_ hne s1,
    StreamOk.wrap t at_ ht hat (Or.inl hopen) o1, TEq.wrap t at_ t1⟩

theorem SemS.nil (m : Method) : SemS m [] [] := SemS.of_spec (StreamOk.nil m) (TEq.refl _)

/-- what the template induction is for: re-reading, with whitespace stripping -/
theorem SemS.read {m : Method} {evs exp : List Ev} (h : SemS m evs exp) :
    readDoc m (serialize m true evs) = some (coalesceStrip m exp) := by
  obtain ⟨evs', s1, o1, t1⟩ := h
  have hout : serialize m true evs = serialize m true evs' := by
    have := s1 none (PendOk.none m) 0 [] [] [] (fun _ _ _ _ => rfl)
    simpa [serS, serialize, emptyTags] using this
  have hnest : emptyOkGo m none evs' = true := by
    have := o1.closed.1 []
    simpa [emptyOkGo] using this
  rw [hout, readDoc_serialize_strip m _ o1.ev o1.safe hnest]
  have := t1 flushDataP (preserveElems m) 0 [] []
  simp only [List.append_nil, ← coalesceStripGo_eq_with] at this
  simp [coalesceStrip, this]

theorem site_semS (m : Method) (env : Env) (e : SExpr) (hs : sexprOkW m e = true)
    (hd : siteOk env e = true) (he : EnvOk env) : SemS m (evalSite env e) (expectedSite env e) := by
  cases e with
  | fmtp ps as =>
    simp only [sexprOkW, Bool.and_eq_true] at hs
    obtain ⟨hM, hW⟩ := hs
    simp only [sexprOkM, Bool.and_eq_true] at hM
    obtain ⟨⟨hps, hlit⟩, hfill⟩ := hM
    obtain ⟨ha1, ha2⟩ := strLit_args env as hlit
    cases hf : fillEsc ps (as.filterMap strOf) with
    | none => simp [hf] at hfill
    | some toks =>
      simp only [hf, Bool.and_eq_true, List.all_eq_true] at hW
      obtain ⟨i1, i2, i3, i4, evs, i5, i6⟩ := fmtp_spec m ps (as.filterMap strOf) toks
        (fun p hp => (List.all_eq_true.mp hps) p hp) hf
      have hm := mMod_pieces ps (as.filterMap strOf) toks i3 hf
      rw [← serToks_raw .xml toks i4] at hm
      have hrender : evalSite env (.fmtp ps as) = [.text (serToks .xml false toks) true] := by
        simp only [evalSite, markupOp, ha1, hm]
      have hexp : expectedSite env (.fmtp ps as) = evs := by
        simp only [expectedSite, ha2, i5]
      rw [hrender, hexp]
      refine ⟨.text [] true :: spliceEvents toks, SameOutS.splice m toks i1 i4 hW.1 hW.2,
        i2.streamOk [] SafeOk.nil, ?_⟩
      have h0 : TEq [Ev.text [] true] [] := by
        apply TEq.texts
        · intro e he'; simp at he'; exact ⟨_, _, he'⟩
        · intro e he'; cases he'
        · simp [dataOf, textValue, unescape_nil]
      simpa using TEq.append h0 i6
  | v e' => obtain ⟨h1, h2⟩ := site_spec m env (.v e') hs hd he; exact SemS.of_spec h1 h2
  | add mk a => obtain ⟨h1, h2⟩ := site_spec m env (.add mk a) hs hd he; exact SemS.of_spec h1 h2
  | radd mk a => obtain ⟨h1, h2⟩ := site_spec m env (.radd mk a) hs hd he; exact SemS.of_spec h1 h2
  | join sep items => obtain ⟨h1, h2⟩ := site_spec m env (.join sep items) hs hd he; exact SemS.of_spec h1 h2
  | esc a q => obtain ⟨h1, h2⟩ := site_spec m env (.esc a q) hs hd he; exact SemS.of_spec h1 h2
  | fmt f args => obtain ⟨h1, h2⟩ := site_spec m env (.fmt f args) hs hd he; exact SemS.of_spec h1 h2
  | build b => obtain ⟨h1, h2⟩ := site_spec m env (.build b) hs hd he; exact SemS.of_spec h1 h2
  | frag kids => obtain ⟨h1, h2⟩ := site_spec m env (.frag kids) hs hd he; exact SemS.of_spec h1 h2

theorem flatMap_semS (m : Method) (xs : List Scalar) (f g : Scalar → List Ev)
    (h : ∀ x ∈ xs, SemS m (f x) (g x)) : SemS m (xs.flatMap f) (xs.flatMap g) := by
  induction xs with
  | nil => exact SemS.nil m
  | cons x xs ih =>
    simp only [List.flatMap_cons]
    exact SemS.append (h x (by simp)) (ih fun y hy => h y (List.mem_cons_of_mem _ hy))

mutual
  theorem node_semS (m : Method) : ∀ (n : Node) (env : Env), nodeOkW m n = true → nodeOk env n = true →
      EnvOk env → SemS m (renderNode env n) (expectedNode env n)
    | .lit s, env, _, _, _ => by
        simpa [renderNode, expectedNode] using
          (SemS.of_spec (StreamOk.text m s false (by simp)) (TEq.refl _) : SemS m [.text s false] [.text s false])
    | .site e, env, hs, hd, he => by
        simpa [renderNode, expectedNode] using site_semS m env e (by simpa [nodeOkW] using hs)
          (by simpa [nodeOk] using hd) he
    | .el t attrs pa kids, env, hs, hd, he => by
        simp only [nodeOkW, Bool.and_eq_true] at hs
        obtain ⟨⟨⟨⟨ht, ha⟩, hpa⟩, hvoid⟩, hk⟩ := hs
        have hattrs : ∀ p ∈ attrs, attrNameOkB m p.1 = true := by
          intro p hp
          have := (List.all_eq_true.mp ha) p hp
          simp only [Bool.and_eq_true] at this
          exact this.1
        have hattrib : attrsOkB m (evalAttrs env (attribOf env attrs pa)) = true := by
          apply evalAttrs_ok
          cases pa with
          | none => exact hattrs
          | some items =>
            apply applyPyAttrs_names m env attrs items hattrs
            intro p hp
            have := (List.all_eq_true.mp hpa) p hp
            simp only [Bool.and_eq_true] at this
            exact this.1
        rw [renderNode_el, expectedNode_el]
        cases kids with
        | nil =>
          simp only [renderList, expectedList]
          exact SemS.of_spec (StreamOk.wrap t _ ht hattrib (Or.inr rfl) (StreamOk.nil m)) (TEq.refl _)
        | cons k ks =>
          have hopen : openOk m t = true := by simpa using hvoid
          exact SemS.wrap t _ ht hattrib hopen (list_semS m (k :: ks) env hk (by simpa [nodeOk] using hd) he)
    | .loop e kids, env, hs, hd, he => by
        simp only [nodeOkW, Bool.and_eq_true] at hs
        have hv := evalV_ok env e hs.1 he
        have hx := itemsOf_ok _ hv
        simp only [nodeOk, List.all_eq_true] at hd
        simp only [renderNode, expectedNode]
        apply flatMap_semS
        intro x hxm
        exact list_semS m kids (x :: env) hs.2 (hd x hxm) (EnvOk.cons (hx x hxm) he)
    | .bind a kids, env, hs, hd, he => by
        simp only [nodeOkW, Bool.and_eq_true] at hs
        simpa [renderNode, expectedNode] using
          list_semS m kids (evalAtom env a :: env) hs.2 (by simpa [nodeOk] using hd)
            (EnvOk.cons (evalAtom_ok env a hs.1 he) he)
    | .cond b kids, env, hs, hd, he => by
        cases b with
        | false => simpa [renderNode, expectedNode] using SemS.nil m
        | true =>
          simpa [renderNode, expectedNode] using
            list_semS m kids env (by simpa [nodeOkW] using hs) (by simpa [nodeOk] using hd) he
  theorem list_semS (m : Method) : ∀ (ns : List Node) (env : Env), nodesOkW m ns = true → listOk env ns = true →
      EnvOk env → SemS m (renderList env ns) (expectedList env ns)
    | [], _, _, _, _ => by simpa [renderList, expectedList] using SemS.nil m
    | n :: ns, env, hs, hd, he => by
        simp only [nodesOkW, Bool.and_eq_true] at hs
        simp only [listOk, Bool.and_eq_true] at hd
        simp only [renderList, expectedList]
        exact SemS.append (node_semS m n env hs.1 hd.1 he) (list_semS m ns env hs.2 hd.2 he)
end

end Genshi.Subst

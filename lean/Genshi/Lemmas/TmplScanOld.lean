/-
  C04: old text syntax — text outside directive lines reaches the parsed stream verbatim, modulo
  the `\#` escape: a template that is the escaped form of a `$`-free text parses to that text alone.
-/
import Genshi.Lemmas.TmplScanText
namespace Genshi.Tmpl.Scan
open Genshi.Gen

/-- a backslash in front of every `#` -/
def escapeOld : Str → Str
  | [] => []
  | c :: r => if c = '#' then '\\' :: '#' :: escapeOld r else c :: escapeOld r

theorem blank_backslash : isBlank '\\' = false := by decide
theorem blank_hash : isBlank '#' = false := by decide

theorem escapeOld_head (s : Str) : (escapeOld s).head? ≠ some '#' := by
  cases s with
  | nil => simp [escapeOld]
  | cons c r =>
    unfold escapeOld
    split
    · simp
    · rename_i h; simpa using h

theorem unescape_escapeOld : ∀ (s : Str), unescapeOld (escapeOld s) = s
  | [] => rfl
  | c :: r => by
    have ih := unescape_escapeOld r
    unfold escapeOld
    split
    · rename_i h; subst h; simp [unescapeOld, ih]
    · rename_i h
      have hh := escapeOld_head r
      unfold unescapeOld
      split
      · rename_i heq; simp at heq
      · rename_i r' heq
        simp only [List.cons.injEq] at heq
        obtain ⟨_, h2⟩ := heq
        rw [h2] at hh; simp at hh
      · rename_i c' r' _ heq
        simp only [List.cons.injEq] at heq
        obtain ⟨rfl, rfl⟩ := heq
        rw [ih]

theorem matchOldLine_none {s : Str} (h : (s.dropWhile isBlank).head? ≠ some '#') : matchOldLine s = none := by
  unfold matchOldLine
  simp only
  split
  · rename_i c r heq; rw [heq] at h; simp at h
  · rfl

theorem escapeOld_dropBlank : ∀ (s : Str), ((escapeOld s).dropWhile isBlank).head? ≠ some '#'
  | [] => by simp [escapeOld]
  | c :: r => by
    have ih := escapeOld_dropBlank r
    unfold escapeOld
    split
    · simp [List.dropWhile_cons, blank_backslash]
    · rename_i h
      simp only [List.dropWhile_cons]
      split
      · exact ih
      · simpa using h

theorem escapeOld_ne_nil {s : Str} (h : s ≠ []) : escapeOld s ≠ [] := by
  cases s with
  | nil => exact absurd rfl h
  | cons c r => unfold escapeOld; split <;> simp

/-- escaped text holds no directive line -/
theorem scanOld_escaped_go : ∀ (s : Str) (first : Bool) (p : Char) (acc : Str),
    scanOldGo 0 first p acc (escapeOld s) = flushOld ((escapeOld s).reverse ++ acc)
  | [], f, p, acc => by simp [escapeOld, scanOldGo]
  | c :: r, f, p, acc => by
    have push : ∀ (f : Bool) (p d : Char) (acc X : Str), matchOldLine (d :: X) = none →
        scanOldGo 0 f p acc (d :: X) = scanOldGo 0 false d (d :: acc) X := by
      intro f p d acc X hm
      conv => lhs; unfold scanOldGo
      simp [hm]
    by_cases hc : c = '#'
    · subst hc
      have e : escapeOld ('#' :: r) = '\\' :: '#' :: escapeOld r := by simp [escapeOld]
      rw [e, push _ _ _ _ _ (matchOldLine_none (by simp [List.dropWhile_cons, blank_backslash]))]
      have step : scanOldGo 0 false '\\' ('\\' :: acc) ('#' :: escapeOld r) =
          scanOldGo 0 false '#' ('#' :: '\\' :: acc) (escapeOld r) := by
        conv => lhs; unfold scanOldGo
        simp
      rw [step, scanOld_escaped_go r]
      simp
    · have e : escapeOld (c :: r) = c :: escapeOld r := by simp [escapeOld, hc]
      have hm : matchOldLine (c :: escapeOld r) = none := by
        rw [← e]; exact matchOldLine_none (escapeOld_dropBlank (c :: r))
      rw [e, push _ _ _ _ _ hm, scanOld_escaped_go r]
      simp

theorem scanOld_escaped {s : Str} (hne : s ≠ []) : scanOld (escapeOld s) = [.text (escapeOld s)] := by
  unfold scanOld
  rw [scanOld_escaped_go]
  have := escapeOld_ne_nil hne
  simp [flushOld, this]

/-- old syntax: a template that is the escaped form of a non-empty `$`-free text parses to that
    text alone -/
theorem parseOld_escaped {s : Str} (hne : s ≠ []) (h : ∀ c ∈ s, c ≠ '$') :
    parseOld (escapeOld s) = .ok [.text s] := by
  unfold parseOld
  rw [scanOld_escaped hne]
  simp [parseToks, stepOld, unescape_escapeOld, interpolate_text hne h, result, PSt.emit, bind, Except.bind, pure, Except.pure]

end Genshi.Tmpl.Scan

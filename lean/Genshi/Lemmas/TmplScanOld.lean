/-
  C04: old text syntax — text outside directive lines reaches the parsed stream verbatim, modulo
  the `\#` escape: a template that is the escaped form of a `$`-free text parses to that text alone.
-/
import Genshi.Lemmas.TmplScanText
namespace Genshi.Tmpl.Scan
open Genshi.Gen

/-- a backslash in front of every `#` -/
def escapeOld : Str → Str
  | [] => []
  | c :: r => if c = '#' then '\\' :: '#' :: escapeOld r else c :: escapeOld r

theorem blank_backslash : isBlank '\\' = false := by decide
theorem blank_hash : isBlank '#' = false := by decide

theorem escapeOld_head (s : Str) : (escapeOld s).head? ≠ some '#' := by
  cases s with
  | nil => simp [escapeOld]
  | cons c r =>
    unfold escapeOld
    split
    · simp
    · rename_i h; simpa using h

theorem unescape_escapeOld : ∀ (s : Str), unescapeOld (escapeOld s) = s
  | [] => rfl
  | c :: r => by
    have ih := unescape_escapeOld r
    unfold escapeOld
    split
    · rename_i h; subst h; simp [unescapeOld, ih]
    · rename_i h
      have hh := escapeOld_head r
      unfold unescapeOld
      split
      · rename_i heq; simp at heq
      · rename_i r' heq
        simp only [List.cons.injEq] at heq
        obtain ⟨_, h2⟩ := heq
        rw [h2] at hh; simp at hh
      · rename_i c' r' _ heq
        simp only [List.cons.injEq] at heq
        obtain ⟨rfl, rfl⟩ := heq
        rw [ih]

theorem matchOldLine_none {s : Str} (h : (s.dropWhile isBlank).head? ≠ some '#') : matchOldLine s = none := by
  unfold matchOldLine
  simp only
  split
  · rename_i c r heq; rw [heq] at h; simp at h
  · rfl

theorem escapeOld_dropBlank : ∀ (s : Str), ((escapeOld s).dropWhile isBlank).head? ≠ some '#'
  | [] => by simp [escapeOld]
  | c :: r => by
    have ih := escapeOld_dropBlank r
    unfold escapeOld
    split
    · simp [List.dropWhile_cons, blank_backslash]
    · rename_i h
      simp only [List.dropWhile_cons]
      split
      · exact ih
      · simpa using h

theorem escapeOld_ne_nil {s : Str} (h : s ≠ []) : escapeOld s ≠ [] := by
  cases s with
  | nil => exact absurd rfl h
  | cons c r => unfold escapeOld; split <;> simp

/-- escaped text holds no directive line -/
theorem scanOld_escaped_go : ∀ (s : Str) (first : Bool) (p : Char) (acc : Str),
    scanOldGo 0 first p acc (escapeOld s) = flushOld ((escapeOld s).reverse ++ acc)
  | [], f, p, acc => by simp [escapeOld, scanOldGo]
  | c :: r, f, p, acc => by
    have push : ∀ (f : Bool) (p d : Char) (acc X : Str), matchOldLine (d :: X) = none →
        scanOldGo 0 f p acc (d :: X) = scanOldGo 0 false d (d :: acc) X := by
      intro f p d acc X hm
      conv => lhs; unfold scanOldGo
      simp [hm]
    by_cases hc : c = '#'
    · subst hc
      have e : escapeOld ('#' :: r) = '\\' :: '#' :: escapeOld r := by simp [escapeOld]
      rw [e, push _ _ _ _ _ (matchOldLine_none (by simp [List.dropWhile_cons, blank_backslash]))]
      have step : scanOldGo 0 false '\\' ('\\' :: acc) ('#' :: escapeOld r) =
          scanOldGo 0 false '#' ('#' :: '\\' :: acc) (escapeOld r) := by
        conv => lhs; unfold scanOldGo
        simp
      rw [step, scanOld_escaped_go r]
      simp
    · have e : escapeOld (c :: r) = c :: escapeOld r := by simp [escapeOld, hc]
      have hm : matchOldLine (c :: escapeOld r) = none := by
        rw [← e]; exact matchOldLine_none (escapeOld_dropBlank (c :: r))
      rw [e, push _ _ _ _ _ hm, scanOld_escaped_go r]
      simp

theorem scanOld_escaped {s : Str} (hne : s ≠ []) : scanOld (escapeOld s) = [.text (escapeOld s)] := by
  unfold scanOld
  rw [scanOld_escaped_go]
  have := escapeOld_ne_nil hne
  simp [flushOld, this]

/-- old syntax: a template that is the escaped form of a non-empty `$`-free text parses to that
    text alone -/
theorem parseOld_escaped {s : Str} (hne : s ≠ []) (h : ∀ c ∈ s, c ≠ '$') :
    parseOld (escapeOld s) = .ok [.text s] := by
  unfold parseOld
  rw [scanOld_escaped hne]
  simp [parseToks, stepOld, unescape_escapeOld, interpolate_text hne h, result, PSt.emit, bind, Except.bind, pure, Except.pure]

/-! ### a printed directive line is matched and split to itself -/

theorem oldDotall_off : TextScan.oldDotall = false := by decide
theorem oldMultiline_on : TextScan.oldMultiline = true := by decide

theorem dotOld_iff (c : Char) : dotOld c = true ↔ c ≠ '\n' := by
  simp [dotOld, oldDotall_off]

theorem matchOldLine_print (b line rest : Str) (c0 : Char) (hb : ∀ c ∈ b, isBlank c = true)
    (hc0 : San.isReWord c0 = true ∨ c0 = '#') (hl : ∀ c ∈ c0 :: line, c ≠ '\n') :
    matchOldLine (b ++ '#' :: c0 :: (line ++ '\n' :: rest)) = some (b, c0 :: (line ++ ['\n'])) := by
  have s1 := span_all (p := isBlank) b ('#' :: c0 :: (line ++ '\n' :: rest)) hb
    (by intro c hc; simp at hc; subst hc; exact blank_hash)
  have s2 := span_all (p := dotOld) (c0 :: line) ('\n' :: rest) (fun c hc => (dotOld_iff c).2 (hl c hc))
    (by intro c hc; simp at hc; subst hc; simp [dotOld, oldDotall_off])
  have e : c0 :: (line ++ '\n' :: rest) = (c0 :: line) ++ '\n' :: rest := rfl
  have hw : (San.isReWord c0 || decide (c0 = '#')) = true := by
    rcases hc0 with h | h <;> simp [h]
  unfold matchOldLine
  simp only [s1.1, s1.2]
  rw [if_pos (by simpa using hw), e, s2.1, s2.2]
  simp

theorem scanOldGo_skip (x : Str) : ∀ (k : Nat) (f : Bool) (p : Char) (acc y : Str), x.length = k → x ≠ [] →
    scanOldGo k f p acc (x ++ y) = scanOldGo 0 false (lastCh p x) acc y := by
  induction x with
  | nil => intro k f p acc y _ h; exact absurd rfl h
  | cons c x ih =>
    intro k f p acc y h _
    cases k with
    | zero => simp at h
    | succ k =>
      simp only [List.length_cons, Nat.add_right_cancel_iff] at h
      simp only [List.cons_append, scanOldGo, lastCh]
      cases x with
      | nil => simp at h; subst h; rfl
      | cons d x' => exact ih k false c acc y h (by simp)

theorem scanOld_line_aux (c p : Char) (first : Bool) (Y rest acc b body : Str)
    (hcond : (first || TextScan.oldMultiline && decide (p = '\n')) = true)
    (hm : matchOldLine (c :: (Y ++ '\n' :: rest)) = some (b, body))
    (hlen : (Y ++ ['\n']).length = b.length + body.length) :
    scanOldGo 0 first p acc (c :: (Y ++ '\n' :: rest)) =
      flushOld acc ++ OTok.line b body :: scanOldGo 0 false '\n' [] rest := by
  conv => lhs; unfold scanOldGo
  rw [if_pos hcond, hm]
  simp only
  have e : Y ++ '\n' :: rest = (Y ++ ['\n']) ++ rest := by simp
  rw [e, scanOldGo_skip (Y ++ ['\n']) (b.length + body.length) false c [] rest hlen (by simp), lastCh_snoc]

/-- a directive (or `##` comment) line at a line start is one token, and scanning goes on at the
    line start behind it -/
theorem scanOld_line (b line rest acc : Str) (c0 p : Char) (first : Bool) (hb : ∀ c ∈ b, isBlank c = true)
    (hc0 : San.isReWord c0 = true ∨ c0 = '#') (hl : ∀ c ∈ c0 :: line, c ≠ '\n')
    (hstart : first = true ∨ p = '\n') :
    scanOldGo 0 first p acc (b ++ '#' :: c0 :: (line ++ '\n' :: rest)) =
      flushOld acc ++ OTok.line b (c0 :: (line ++ ['\n'])) :: scanOldGo 0 false '\n' [] rest := by
  have hm := matchOldLine_print b line rest c0 hb hc0 hl
  have hcond : (first || TextScan.oldMultiline && decide (p = '\n')) = true := by
    rcases hstart with h | h <;> simp [h, oldMultiline_on]
  cases b with
  | nil =>
    have e : [] ++ '#' :: c0 :: (line ++ '\n' :: rest) = '#' :: ((c0 :: line) ++ '\n' :: rest) := rfl
    rw [e] at hm ⊢
    exact scanOld_line_aux '#' p first (c0 :: line) rest acc [] _ hcond hm (by simp)
  | cons b0 b' =>
    have e : (b0 :: b') ++ '#' :: c0 :: (line ++ '\n' :: rest) = b0 :: ((b' ++ '#' :: c0 :: line) ++ '\n' :: rest) := by
      simp
    rw [e] at hm ⊢
    exact scanOld_line_aux b0 p first (b' ++ '#' :: c0 :: line) rest acc (b0 :: b') _ hcond hm (by simp; omega)

/-- `split(None, 1)` of a printed line gives back the command and the value (with the line feed
    the old syntax leaves on it) -/
theorem splitLine_print (b cmd val : Str) (hb : ∀ c ∈ b, isBlank c = true)
    (hcmd : ∀ c ∈ cmd, San.isSpace c = false) (hne : cmd ≠ [])
    (hval : ∀ c, val.head? = some c → San.isSpace c = false) (hvne : val ≠ []) :
    splitLine b (cmd ++ ' ' :: (val ++ ['\n'])) = (cmd, some (val ++ ['\n'])) := by
  have hbs : ∀ c ∈ b, San.isSpace c = true := by
    intro c hc
    have := hb c hc
    simp only [isBlank, List.contains_iff_mem, show TextScan.oldBlank = [9, 32] by decide] at this
    simp only [List.mem_cons, List.not_mem_nil, or_false] at this
    have hc' : c = '\t' ∨ c = ' ' := by
      rcases this with h | h
      · left; rw [← Char.ofNat_toNat c, h]
      · right; rw [← Char.ofNat_toNat c, h]
    rcases hc' with rfl | rfl <;> decide
  obtain ⟨c0, cmd', rfl⟩ := List.exists_cons_of_ne_nil hne
  have hc0 := hcmd c0 (List.mem_cons_self ..)
  have s1 := span_all (p := San.isSpace) b ('#' :: (c0 :: cmd' ++ ' ' :: (val ++ ['\n']))) hbs
    (by intro c hc; simp at hc; subst hc; decide)
  have s2 := span_all (p := fun c => !San.isSpace c) (c0 :: cmd') (' ' :: (val ++ ['\n']))
    (by intro c hc; simp [hcmd c hc]) (by intro c hc; simp at hc; subst hc; decide)
  obtain ⟨v0, val', rfl⟩ := List.exists_cons_of_ne_nil hvne
  have hv0 := hval v0 rfl
  unfold splitLine
  simp only [s1.2, List.drop_succ_cons, List.drop_zero]
  have e0 : (c0 :: cmd' ++ ' ' :: (v0 :: val' ++ ['\n'])).dropWhile San.isSpace = c0 :: cmd' ++ ' ' :: (v0 :: val' ++ ['\n']) := by
    simp [List.dropWhile_cons, hc0]
  simp only [e0, s2.1, s2.2]
  simp [List.dropWhile_cons, hv0, show San.isSpace ' ' = true by decide]

end Genshi.Tmpl.Scan

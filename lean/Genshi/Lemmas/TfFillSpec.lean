/-
  The form-filler state machine (`Genshi.Fill.fill`) computes the documentation semantics
  `fillSpec` on every forest of its domain `okForest`; every well-nested stream is the
  flattening of the forest `parse` returns.
-/
import Genshi.Model.TfFillSpec
import Genshi.Lemmas.TfFill
namespace Genshi.Fill

/-! ### parse -/

theorem flattenList_app : ∀ (a b : List Node), flattenList (a ++ b) = flattenList a ++ flattenList b
  | [], b => by simp [flattenList]
  | n :: a, b => by simp [flattenList, flattenList_app a b]

/-- the events read so far -/
def pre : List (QName × AttrList × List Node) → List Node → Stream
  | [], cur => flattenList cur.reverse
  | (t, a, up) :: fr, cur => pre fr up ++ (.start t a :: flattenList cur.reverse)

def framesOk : List (QName × AttrList × List Node) → Bool
  | [] => true
  | (_, _, up) :: fr => okList up.reverse && framesOk fr

theorem okList_app : ∀ (a b : List Node), okList (a ++ b) = (okList a && okList b)
  | [], b => by simp [okList]
  | n :: a, b => by simp [okList, okList_app a b, Bool.and_assoc]

theorem pre_leaf (fr : List (QName × AttrList × List Node)) (cur : List Node) (e : Event) :
    pre fr (.leaf e :: cur) = pre fr cur ++ [e] := by
  cases fr with
  | nil => simp [pre, flattenList_app, flattenList, Node.flatten]
  | cons p fr => obtain ⟨t, a, up⟩ := p; simp [pre, flattenList_app, flattenList, Node.flatten]

theorem pre_close (fr : List (QName × AttrList × List Node)) (t : QName) (a : AttrList) (up cur : List Node) :
    pre fr (.elem t a cur.reverse :: up) = pre ((t, a, up) :: fr) cur ++ [.end_ t] := by
  cases fr with
  | nil => simp [pre, flattenList_app, flattenList, Node.flatten]
  | cons p fr => obtain ⟨t', a', up'⟩ := p; simp [pre, flattenList_app, flattenList, Node.flatten]

theorem parseGo_sound : ∀ (s : Stream) (fr : List (QName × AttrList × List Node)) (cur ns : List Node),
    parseGo fr cur s = some ns → framesOk fr = true → okList cur.reverse = true →
    flattenList ns = pre fr cur ++ s ∧ okList ns = true := by
  intro s
  induction s with
  | nil =>
    intro fr cur ns h hf hc
    cases fr with
    | nil => simp only [parseGo, Option.some.injEq] at h; subst h; simp [pre, hc]
    | cons p fr => simp [parseGo] at h
  | cons e s ih =>
    intro fr cur ns h hf hc
    cases e with
    | start t a =>
      simp only [parseGo] at h
      have := ih ((t, a, cur) :: fr) [] ns h (by simp [framesOk, hc, hf]) (by simp [okList])
      simpa [pre, flattenList] using this
    | end_ t =>
      cases fr with
      | nil => simp [parseGo] at h
      | cons p fr =>
        obtain ⟨t', a, up⟩ := p
        simp only [parseGo] at h
        split at h
        · rename_i ht
          subst ht
          simp only [framesOk, Bool.and_eq_true] at hf
          have := ih fr (.elem t a cur.reverse :: up) ns h hf.2
            (by simp [okList_app, okList, Node.ok, hf.1, hc])
          rw [pre_close] at this
          simpa using this
        · simp at h
    | text t f =>
      simp only [parseGo] at h
      have := ih fr (.leaf (.text t f) :: cur) ns h hf
        (by simp [okList_app, okList, Node.ok, Event.isStartEnd, hc])
      rw [pre_leaf] at this; simpa using this
    | comment t =>
      simp only [parseGo] at h
      have := ih fr (.leaf (.comment t) :: cur) ns h hf
        (by simp [okList_app, okList, Node.ok, Event.isStartEnd, hc])
      rw [pre_leaf] at this; simpa using this
    | pi t d =>
      simp only [parseGo] at h
      have := ih fr (.leaf (.pi t d) :: cur) ns h hf
        (by simp [okList_app, okList, Node.ok, Event.isStartEnd, hc])
      rw [pre_leaf] at this; simpa using this
    | doctype n p q =>
      simp only [parseGo] at h
      have := ih fr (.leaf (.doctype n p q) :: cur) ns h hf
        (by simp [okList_app, okList, Node.ok, Event.isStartEnd, hc])
      rw [pre_leaf] at this; simpa using this
    | xmlDecl v en sa =>
      simp only [parseGo] at h
      have := ih fr (.leaf (.xmlDecl v en sa) :: cur) ns h hf
        (by simp [okList_app, okList, Node.ok, Event.isStartEnd, hc])
      rw [pre_leaf] at this; simpa using this
    | startNs p u =>
      simp only [parseGo] at h
      have := ih fr (.leaf (.startNs p u) :: cur) ns h hf
        (by simp [okList_app, okList, Node.ok, Event.isStartEnd, hc])
      rw [pre_leaf] at this; simpa using this
    | endNs p =>
      simp only [parseGo] at h
      have := ih fr (.leaf (.endNs p) :: cur) ns h hf
        (by simp [okList_app, okList, Node.ok, Event.isStartEnd, hc])
      rw [pre_leaf] at this; simpa using this
    | startCdata =>
      simp only [parseGo] at h
      have := ih fr (.leaf .startCdata :: cur) ns h hf
        (by simp [okList_app, okList, Node.ok, Event.isStartEnd, hc])
      rw [pre_leaf] at this; simpa using this
    | endCdata =>
      simp only [parseGo] at h
      have := ih fr (.leaf .endCdata :: cur) ns h hf
        (by simp [okList_app, okList, Node.ok, Event.isStartEnd, hc])
      rw [pre_leaf] at this; simpa using this

theorem parseGo_complete : ∀ (s : Stream) (fr : List (QName × AttrList × List Node)) (cur : List Node),
    balance (fr.map (·.1)) s = some [] → (parseGo fr cur s).isSome = true := by
  intro s
  induction s with
  | nil =>
    intro fr cur h
    cases fr with
    | nil => simp [parseGo]
    | cons p fr => simp [balance] at h
  | cons e s ih =>
    intro fr cur h
    cases e with
    | start t a => simp only [parseGo]; exact ih ((t, a, cur) :: fr) [] (by simpa [balance] using h)
    | end_ t =>
      cases fr with
      | nil => simp [balance] at h
      | cons p fr =>
        obtain ⟨t', a, up⟩ := p
        simp only [List.map_cons, balance] at h
        split at h
        · rename_i ht; simp only [parseGo, ht, ↓reduceIte]; exact ih fr _ h
        · simp at h
    | text t f => simp only [parseGo]; exact ih fr _ (by rw [balance_skip _ (by rfl)] at h; exact h)
    | comment t => simp only [parseGo]; exact ih fr _ (by rw [balance_skip _ (by rfl)] at h; exact h)
    | pi t d => simp only [parseGo]; exact ih fr _ (by rw [balance_skip _ (by rfl)] at h; exact h)
    | doctype n p q => simp only [parseGo]; exact ih fr _ (by rw [balance_skip _ (by rfl)] at h; exact h)
    | xmlDecl v en sa => simp only [parseGo]; exact ih fr _ (by rw [balance_skip _ (by rfl)] at h; exact h)
    | startNs p u => simp only [parseGo]; exact ih fr _ (by rw [balance_skip _ (by rfl)] at h; exact h)
    | endNs p => simp only [parseGo]; exact ih fr _ (by rw [balance_skip _ (by rfl)] at h; exact h)
    | startCdata => simp only [parseGo]; exact ih fr _ (by rw [balance_skip _ (by rfl)] at h; exact h)
    | endCdata => simp only [parseGo]; exact ih fr _ (by rw [balance_skip _ (by rfl)] at h; exact h)

/-- every well-nested stream is the flattening of the forest `parse` reads -/
theorem parse_wellNested (s : Stream) (h : WellNested s) :
    ∃ ns, parse s = some ns ∧ flattenList ns = s ∧ okList ns = true := by
  have hc := parseGo_complete s [] [] (by simpa [WellNested] using h)
  cases hp : parseGo [] [] s with
  | none => simp [hp] at hc
  | some ns =>
    have := parseGo_sound s [] [] ns hp rfl rfl
    exact ⟨ns, hp, by simpa [pre, flattenList] using this.1, this.2⟩

/-! ### the state machine at rest in a context -/

/-- the state of the filler between two sibling nodes: inside the selected form or not, governed
    by a select named in the data or not; nothing held back -/
def ctxSt (f : Bool) (sel : Option Val) : St := { inForm := f, inSelect := sel.isSome, selectValue := sel }

/-- … while an option of a select named in the data is held back -/
def optSt (v : Val) (t : QName) (a : AttrList) (ov : Str) (nov : Bool) (txt : List Event) : St :=
  { inForm := true, inSelect := true, selectValue := some v, optionStart := some (t, a), optionValue := ov,
    noOptionValue := nov, inOption := true, optionText := txt }

theorem fillGo_cons {c : Cfg} {st st' : St} {e : Event} {o : Stream} (h : step c st e = some (st', o))
    (es : Stream) : fillGo c st (e :: es) = (fillGo c st' es).map (o ++ ·) := by
  simp [fillGo, h]

theorem sForm_ne_sInput : (sForm = sInput) = False := by decide
theorem sForm_ne_sSelect : (sForm = sSelect) = False := by decide
theorem sForm_ne_sTextarea : (sForm = sTextarea) = False := by decide
theorem sForm_ne_sOption : (sForm = sOption) = False := by decide
theorem sInput_ne_sForm : (sInput = sForm) = False := by decide
theorem sInput_ne_sSelect : (sInput = sSelect) = False := by decide
theorem sInput_ne_sTextarea : (sInput = sTextarea) = False := by decide
theorem sInput_ne_sOption : (sInput = sOption) = False := by decide
theorem sSelect_ne_sForm : (sSelect = sForm) = False := by decide
theorem sSelect_ne_sInput : (sSelect = sInput) = False := by decide
theorem sSelect_ne_sOption : (sSelect = sOption) = False := by decide
theorem sTextarea_ne_sForm : (sTextarea = sForm) = False := by decide
theorem sTextarea_ne_sInput : (sTextarea = sInput) = False := by decide
theorem sTextarea_ne_sSelect : (sTextarea = sSelect) = False := by decide
theorem sTextarea_ne_sOption : (sTextarea = sOption) = False := by decide

/-- a non START/END event passes when nothing is held back and no named textarea is open -/
theorem step_leaf (c : Cfg) (st : St) (e : Event) (he : e.isStartEnd = false)
    (h1 : st.inOption = false) (h2 : st.inTextarea = false) : step c st e = some (st, [e]) := by
  cases e <;> simp_all [step, Event.isStartEnd]

/-- the content of a textarea named in the data: TEXT is dropped, the rest passes -/
theorem fill_textarea_kids (c : Cfg) (st : St) (hF : st.inForm = true) (hO : st.inOption = false)
    (hT : st.inTextarea = true) : ∀ (ks : List Node) (rest : Stream), ks.all isLeafOk = true →
    fillGo c st (flattenList ks ++ rest) =
      (fillGo c st rest).map (flattenList (ks.filter fun k => !isTextLeaf k) ++ ·)
  | [], rest, _ => by simp [flattenList]
  | k :: ks, rest, h => by
    simp only [List.all_cons, Bool.and_eq_true] at h
    have ih := fill_textarea_kids c st hF hO hT ks rest h.2
    cases k with
    | elem t a ks' => simp [isLeafOk] at h
    | leaf e =>
      have he : e.isStartEnd = false := by simpa [isLeafOk] using h.1
      have hs : step c st e = some (st, if isTextLeaf (.leaf e) then [] else [e]) := by
        cases e <;> simp_all [step, Event.isStartEnd, isTextLeaf]
      simp only [flattenList, Node.flatten, List.cons_append, List.nil_append]
      rw [fillGo_cons hs, ih]
      cases hx : isTextLeaf (.leaf e) <;> simp [hx, List.filter_cons, flattenList, Node.flatten, Option.map_map, Function.comp_def]

/-- the content of an option below a select named in the data: TEXT is held back -/
theorem fill_option_kids (c : Cfg) : ∀ (ks : List Node) (st : St) (rest : Stream),
    st.inForm = true → st.inSelect = true → st.inOption = true → ks.all isTextLeaf = true →
    fillGo c st (flattenList ks ++ rest) =
      fillGo c { st with optionValue := if st.noOptionValue then st.optionValue ++ textOf ks else st.optionValue,
                         optionText := st.optionText ++ flattenList ks } rest
  | [], st, rest, _, _, _, _ => by
    simp only [flattenList, List.nil_append, textOf, List.append_nil]
    simp only [ite_self]
  | k :: ks, st, rest, hF, hS, hO, h => by
    simp only [List.all_cons, Bool.and_eq_true] at h
    cases k with
    | elem t a ks' => simp [isTextLeaf] at h
    | leaf e =>
      cases e with
      | text t f =>
        have hs : step c st (.text t f) =
            some ({ st with optionValue := if st.noOptionValue then st.optionValue ++ t else st.optionValue,
                            optionText := st.optionText ++ [.text t f] }, []) := by
          simp [step, hF, hS, hO]
        simp only [flattenList, Node.flatten, List.cons_append, List.nil_append]
        rw [fillGo_cons hs]
        rw [fill_option_kids c ks _ rest (by simpa using hF) (by simpa using hS) (by simpa using hO) h.2]
        simp only [Option.map_eq_map, List.nil_append]
        have : ∀ x : Option Stream, Option.map (fun o : Stream => o) x = x := by intro x; cases x <;> rfl
        rw [this]
        congr 1
        cases hn : st.noOptionValue <;> simp [hn, textOf, flattenList, Node.flatten, List.append_assoc]
      | _ => simp [isTextLeaf] at h

/-! ### the main lemma -/

mutual
  theorem fill_node (c : Cfg) : ∀ (n : Node) (f : Bool) (sel : Option Val) (rest : Stream),
      (f = false → sel = none) → okNode c f sel.isSome n = true →
      fillGo c (ctxSt f sel) (n.flatten ++ rest) =
        (fillGo c (ctxSt f sel) rest).map ((specNode c f sel n).flatten ++ ·)
    | .leaf e, f, sel, rest, _, hok => by
        have he : e.isStartEnd = false := by simpa [okNode] using hok
        simp only [Node.flatten, specNode, List.cons_append, List.nil_append]
        rw [fillGo_cons (step_leaf c (ctxSt f sel) e he rfl rfl)]
        simp
    | .elem t a ks, f, sel, rest, hsel, hok => by
        simp only [Node.flatten, List.cons_append, List.append_assoc]
        cases f with
        | false =>
          have hs := hsel rfl
          subst hs
          simp only [okNode, ↓reduceIte] at hok
          simp only [specNode, ↓reduceIte]
          -- START
          have h1 : step c (ctxSt false none) (.start t a) =
              some (ctxSt (decide (t.loc = sForm) && formMatches c a) none, [.start t a]) := by
            cases hb : (decide (t.loc = sForm) && formMatches c a) <;> simp [step, ctxSt, hb]
          -- END
          have h2 : step c (ctxSt (decide (t.loc = sForm) && formMatches c a) none) (.end_ t) =
              some (ctxSt false none, [.end_ t]) := by
            cases hb : (decide (t.loc = sForm) && formMatches c a)
            · simp [step, ctxSt]
            · simp only [Bool.and_eq_true, decide_eq_true_eq] at hb
              simp [step, ctxSt, hb.1]
          rw [fillGo_cons h1, fill_list c ks _ none _ (fun _ => rfl) hok, fillGo_cons h2]
          simp [Node.flatten, Option.map_map, Function.comp_def]
        | true =>
          simp only [okNode, Bool.true_eq_false, ↓reduceIte] at hok
          simp only [specNode, Bool.true_eq_false, ↓reduceIte]
          by_cases hform : t.loc = sForm
          · simp [hform] at hok
          by_cases hinput : t.loc = sInput
          · -- an input element
            simp only [hform, hinput, ↓reduceIte, sInput_ne_sForm] at hok ⊢
            have h1 : step c (ctxSt true sel) (.start t a) = some (ctxSt true sel, [.start t (inputAttrs c a)]) := by
              simp [step, ctxSt, hinput, sInput_ne_sForm]
            have h2 : step c (ctxSt true sel) (.end_ t) = some (ctxSt true sel, [.end_ t]) := by
              simp [step, ctxSt, hinput, sInput_ne_sForm, sInput_ne_sSelect, sInput_ne_sOption]
            rw [fillGo_cons h1, fill_list c ks true sel _ (by simp) hok, fillGo_cons h2]
            simp [Node.flatten, Option.map_map, Function.comp_def]
          by_cases hselect : t.loc = sSelect
          · -- a select element: `sel = none`
            simp only [hform, hinput, hselect, ↓reduceIte, sSelect_ne_sForm, sSelect_ne_sInput,
              Bool.and_eq_true, Bool.not_eq_true'] at hok ⊢
            have hsn : sel = none := by
              cases sel with
              | none => rfl
              | some v => simp at hok
            subst hsn
            cases hv : namedVal c a with
            | some v =>
              have h1 : step c (ctxSt true none) (.start t a) = some (ctxSt true (some v), [.start t a]) := by
                have hv' : (aget a sName).bind c.lookup = some v := hv
                simp [step, ctxSt, hselect, sSelect_ne_sForm, sSelect_ne_sInput, hv']
              have h2 : step c (ctxSt true (some v)) (.end_ t) = some (ctxSt true none, [.end_ t]) := by
                simp [step, ctxSt, hselect, sSelect_ne_sForm]
              simp only [hv, Option.isSome_some] at hok
              rw [fillGo_cons h1, fill_list c ks true (some v) _ (by simp) (by simpa using hok.2), fillGo_cons h2]
              simp [Node.flatten, Option.map_map, Function.comp_def]
            | none =>
              have h1 : step c (ctxSt true none) (.start t a) = some (ctxSt true none, [.start t a]) := by
                have hv' : (aget a sName).bind c.lookup = none := hv
                simp [step, ctxSt, hselect, sSelect_ne_sForm, sSelect_ne_sInput, hv']
              have h2 : step c (ctxSt true none) (.end_ t) = some (ctxSt true none, [.end_ t]) := by
                simp [step, ctxSt, hselect, sSelect_ne_sForm]
              simp only [hv, Option.isSome_none] at hok
              rw [fillGo_cons h1, fill_list c ks true none _ (by simp) (by simpa using hok.2), fillGo_cons h2]
              simp [Node.flatten, Option.map_map, Function.comp_def]
          by_cases htextarea : t.loc = sTextarea
          · simp only [hform, hinput, hselect, htextarea, ↓reduceIte, sTextarea_ne_sForm, sTextarea_ne_sInput,
              sTextarea_ne_sSelect] at hok ⊢
            cases hv : namedVal c a with
            | some v =>
              simp only [hv, Option.isSome_some, ↓reduceIte] at hok
              have hv' : (aget a sName).bind c.lookup = some v := hv
              have h1 : step c (ctxSt true sel) (.start t a) =
                  some ({ ctxSt true sel with textareaValue := firstOf v, inTextarea := true }, [.start t a]) := by
                simp [step, ctxSt, htextarea, sTextarea_ne_sForm, sTextarea_ne_sInput, sTextarea_ne_sSelect, hv']
              have h2 : step c { ctxSt true sel with textareaValue := firstOf v, inTextarea := true } (.end_ t) =
                  some (ctxSt true sel,
                    (match firstOf v with
                     | some x => if x.text.isEmpty then [] else [Event.text x.text false]
                     | none => []) ++ [.end_ t]) := by
                simp [step, ctxSt, htextarea, sTextarea_ne_sForm, sTextarea_ne_sSelect, sTextarea_ne_sOption]
                rfl
              rw [fillGo_cons h1, fill_textarea_kids c _ rfl rfl rfl ks _ hok, fillGo_cons h2]
              simp only [Option.map_map, Function.comp_def, Node.flatten, textareaKids, flattenList_app]
              congr 1
              funext o
              cases firstOf v with
              | none => simp [flattenList]
              | some x => cases hx : x.text.isEmpty <;> simp [flattenList, Node.flatten, hx]
            | none =>
              simp only [hv, Option.isSome_none, Bool.false_eq_true, ↓reduceIte] at hok
              have hv' : (aget a sName).bind c.lookup = none := hv
              have h1 : step c (ctxSt true sel) (.start t a) = some (ctxSt true sel, [.start t a]) := by
                simp [step, ctxSt, htextarea, sTextarea_ne_sForm, sTextarea_ne_sInput, sTextarea_ne_sSelect, hv']
              have h2 : step c (ctxSt true sel) (.end_ t) = some (ctxSt true sel, [.end_ t]) := by
                simp [step, ctxSt, htextarea, sTextarea_ne_sForm, sTextarea_ne_sSelect, sTextarea_ne_sOption]
              rw [fillGo_cons h1, fill_list c ks true sel _ (by simp) hok, fillGo_cons h2]
              simp [Node.flatten, Option.map_map, Function.comp_def]
          by_cases hopt : t.loc = sOption
          · cases sel with
            | some v =>
              simp only [hform, hinput, hselect, htextarea, hopt, ↓reduceIte, sOption_ne_sForm, sOption_ne_sInput,
                sOption_ne_sSelect, sOption_ne_sTextarea, Option.isSome_some, Bool.and_self, decide_true] at hok ⊢
              have h1 : step c (ctxSt true (some v)) (.start t a) =
                  some (optSt v t a ((aget a sValue).getD []) (aget a sValue).isNone [], []) := by
                simp [step, ctxSt, optSt, hopt, sOption_ne_sForm, sOption_ne_sInput, sOption_ne_sSelect, sOption_ne_sTextarea]
              have hov : (if (aget a sValue).isNone then (aget a sValue).getD [] ++ textOf ks else (aget a sValue).getD [])
                  = optionVal a ks := by
                unfold optionVal
                cases aget a sValue <;> simp
              have hk := fill_option_kids c ks (optSt v t a ((aget a sValue).getD []) (aget a sValue).isNone [])
                (Event.end_ t :: ([] ++ rest)) rfl rfl rfl hok
              have heq : ({ optSt v t a ((aget a sValue).getD []) (aget a sValue).isNone [] with
                    optionValue := if (optSt v t a ((aget a sValue).getD []) (aget a sValue).isNone []).noOptionValue
                      then (optSt v t a ((aget a sValue).getD []) (aget a sValue).isNone []).optionValue ++ textOf ks
                      else (optSt v t a ((aget a sValue).getD []) (aget a sValue).isNone []).optionValue,
                    optionText := (optSt v t a ((aget a sValue).getD []) (aget a sValue).isNone []).optionText ++ flattenList ks } : St)
                  = optSt v t a (optionVal a ks) (aget a sValue).isNone (flattenList ks) := by
                cases h : aget a sValue <;> simp [optSt, optionVal, h]
              rw [heq] at hk
              have h2 : step c (optSt v t a (optionVal a ks) (aget a sValue).isNone (flattenList ks)) (.end_ t) =
                  some (ctxSt true (some v), .start t (optionAttrs v a ks) :: (flattenList ks ++ [.end_ t])) := by
                simp [step, ctxSt, optSt, hopt, sOption_ne_sForm, sOption_ne_sSelect, optionAttrs]
                rfl
              rw [fillGo_cons h1, hk, fillGo_cons h2]
              simp [Node.flatten, Option.map_map, Function.comp_def]
            | none =>
              simp only [hform, hinput, hselect, htextarea, hopt, ↓reduceIte, sOption_ne_sForm, sOption_ne_sInput,
                sOption_ne_sSelect, sOption_ne_sTextarea, Option.isSome_none, Bool.and_false, Bool.false_eq_true] at hok ⊢
              have h1 : step c (ctxSt true none) (.start t a) = some (ctxSt true none, [.start t a]) := by
                simp [step, ctxSt, hopt, sOption_ne_sForm, sOption_ne_sInput, sOption_ne_sSelect, sOption_ne_sTextarea]
              have h2 : step c (ctxSt true none) (.end_ t) = some (ctxSt true none, [.end_ t]) := by
                simp [step, ctxSt, hopt, sOption_ne_sForm, sOption_ne_sSelect]
              rw [fillGo_cons h1, fill_list c ks true none _ (by simp) hok, fillGo_cons h2]
              simp [Node.flatten, Option.map_map, Function.comp_def]
          · -- any other element
            simp only [hform, hinput, hselect, htextarea, hopt, ↓reduceIte, decide_false, Bool.false_and,
              Bool.false_eq_true] at hok ⊢
            have h1 : step c (ctxSt true sel) (.start t a) = some (ctxSt true sel, [.start t a]) := by
              simp [step, ctxSt, hform, hinput, hselect, htextarea, hopt]
            have h2 : step c (ctxSt true sel) (.end_ t) = some (ctxSt true sel, [.end_ t]) := by
              simp [step, ctxSt, hform, hselect, hopt]
            rw [fillGo_cons h1, fill_list c ks true sel _ (by simp) hok, fillGo_cons h2]
            simp [Node.flatten, Option.map_map, Function.comp_def]
  theorem fill_list (c : Cfg) : ∀ (ns : List Node) (f : Bool) (sel : Option Val) (rest : Stream),
      (f = false → sel = none) → okKids c f sel.isSome ns = true →
      fillGo c (ctxSt f sel) (flattenList ns ++ rest) =
        (fillGo c (ctxSt f sel) rest).map (flattenList (specList c f sel ns) ++ ·)
    | [], f, sel, rest, _, _ => by
        simp only [flattenList, specList, List.nil_append]
        cases fillGo c (ctxSt f sel) rest <;> rfl
    | n :: ns, f, sel, rest, hsel, hok => by
        simp only [okKids, Bool.and_eq_true] at hok
        simp only [flattenList, specList, List.append_assoc]
        rw [fill_node c n f sel _ hsel hok.1, fill_list c ns f sel rest hsel hok.2]
        simp [Option.map_map, Function.comp_def]
end

/-- the filler computes the documentation semantics on its domain -/
theorem fill_spec (c : Cfg) (ns : List Node) (h : okForest c ns = true) :
    fill c (flattenList ns) = some (flattenList (fillSpec c ns)) := by
  have := fill_list c ns false none [] (fun _ => rfl) h
  simpa [fill, fillSpec, fillGo, ctxSt] using this

/-! ### what `inputAttrs` / `optionAttrs` / `textareaKids` may change -/

theorem adel_adel (a : AttrList) (k : Str) : adel (adel a k) k = adel a k := by
  simp [adel, List.filter_filter]

theorem adel_map_set (a : AttrList) (k v : Str) :
    adel (a.map fun (q, w) => if q = (⟨[], k⟩ : QName) then (q, v) else (q, w)) k = adel a k := by
  unfold adel
  induction a with
  | nil => rfl
  | cons p a ih =>
    obtain ⟨q, w⟩ := p
    by_cases hq : q = (⟨[], k⟩ : QName)
    · subst hq
      simp only [List.map_cons, ↓reduceIte, List.filter_cons, decide_true, Bool.not_true, Bool.false_eq_true]
      exact ih
    · simp only [List.map_cons, hq, ↓reduceIte, List.filter_cons, decide_false, Bool.not_false]
      rw [ih]

theorem adel_aset (a : AttrList) (k v : Str) : adel (aset a k v) k = adel a k := by
  unfold aset
  simp only
  split
  · exact adel_map_set a k v
  · simp [adel, List.filter_append]

/-- an option's attributes differ from the original in `selected` only -/
theorem optionAttrs_confined (v : Val) (a : AttrList) (ks : List Node) :
    adel (optionAttrs v a ks) sSelected = adel a sSelected := by
  unfold optionAttrs
  split
  · exact adel_aset _ _ _
  · split
    · exact adel_adel _ _
    · rfl

theorem optionAttrs_selected (v : Val) (a : AttrList) (ks : List Node) :
    ahas (optionAttrs v a ks) sSelected = isSelected (optionVal a ks) (some v) := by
  unfold optionAttrs
  by_cases h : isSelected (optionVal a ks) (some v) = true
  · simp [h, ahas, aget_aset]
  · have h' : isSelected (optionVal a ks) (some v) = false := by simpa using h
    simp only [h', Bool.false_eq_true, ↓reduceIte]
    split
    · simp [ahas, aget_adel]
    · rename_i h2; simpa using h2

/-- an input's attributes are unchanged, or differ in `checked` only (checkbox / radio named in the
    data), or differ in `value` only (text-like input named in the data; a password only when asked) -/
theorem inputAttrs_confined (c : Cfg) (a : AttrList) :
    inputAttrs c a = a ∨
    (∃ name value, aget a sName = some name ∧ c.lookup name = some value ∧
      ((inputType a = sCheckbox ∨ inputType a = sRadio) ∧ adel (inputAttrs c a) sChecked = adel a sChecked ∨
       ¬ (inputType a = sPassword ∧ c.passwords = false) ∧ ¬ (inputType a = sCheckbox ∨ inputType a = sRadio) ∧
         adel (inputAttrs c a) sValue = adel a sValue)) := by
  by_cases hpw : inputType a = sPassword ∧ c.passwords = false
  · exact Or.inl (inputAttrs_password c a hpw.1 hpw.2)
  unfold inputAttrs
  unfold inputType at hpw ⊢
  simp only
  split
  · rename_i ht
    have ht' : List.map Str.lower ((aget a sType).getD []) = sCheckbox ∨
        List.map Str.lower ((aget a sType).getD []) = sRadio := by simpa using ht
    split
    · rename_i name hn
      split
      · exact Or.inl rfl
      · split
        · rename_i value hl
          refine Or.inr ⟨name, value, hn, hl, Or.inl ⟨ht', ?_⟩⟩
          split
          · exact adel_aset _ _ _
          · split
            · exact adel_adel _ _
            · rfl
        · exact Or.inl rfl
    · exact Or.inl rfl
  · rename_i ht
    have ht' : ¬ (List.map Str.lower ((aget a sType).getD []) = sCheckbox ∨
        List.map Str.lower ((aget a sType).getD []) = sRadio) := by simpa using ht
    split
    · split
      · rename_i name hn
        split
        · exact Or.inl rfl
        · split
          · rename_i value hl
            split
            · exact Or.inr ⟨name, value, hn, hl, Or.inr ⟨hpw, ht', adel_aset _ _ _⟩⟩
            · exact Or.inl rfl
          · exact Or.inl rfl
      · exact Or.inl rfl
    · exact Or.inl rfl

theorem textOf_cons_nontext (k : Node) (l : List Node) (h : isTextLeaf k = false) :
    textOf (k :: l) = textOf l := by
  cases k with
  | elem t a ks => rfl
  | leaf e => cases e <;> simp_all [textOf, isTextLeaf]

theorem isTextLeaf_text (t : Str) (f : Bool) : isTextLeaf (.leaf (.text t f)) = true := rfl

theorem textOf_noText : ∀ (ks : List Node), textOf (ks.filter fun k => !isTextLeaf k) = []
  | [] => rfl
  | k :: ks => by
    by_cases h : isTextLeaf k = true
    · simp only [List.filter_cons, h, Bool.not_true, Bool.false_eq_true, ↓reduceIte]
      exact textOf_noText ks
    · have h' : isTextLeaf k = false := by simpa using h
      simp only [List.filter_cons, h', Bool.not_false, ↓reduceIte]
      rw [textOf_cons_nontext k _ h']
      exact textOf_noText ks

theorem textOf_app : ∀ (a b : List Node), textOf (a ++ b) = textOf a ++ textOf b
  | [], b => rfl
  | k :: a, b => by
    cases k with
    | elem t at_ ks' => simp [textOf, textOf_app a b]
    | leaf e => cases e <;> simp [textOf, textOf_app a b]

/-- the content of a textarea named in the data afterwards: the given value as text, the
    non-TEXT children as they were -/
theorem textareaKids_spec (v : Val) (x : Scalar) (ks : List Node) (hf : firstOf v = some x) :
    textOf (textareaKids v ks) = x.text ∧
    (textareaKids v ks).filter (fun k => !isTextLeaf k) = ks.filter (fun k => !isTextLeaf k) := by
  unfold textareaKids
  rw [hf]
  have hff : ∀ l : List Node, (l.filter fun k => !isTextLeaf k).filter (fun k => !isTextLeaf k) =
      l.filter fun k => !isTextLeaf k := by
    intro l; rw [List.filter_filter]; congr 1; funext k; cases isTextLeaf k <;> rfl
  by_cases hx : x.text.isEmpty = true
  · have : x.text = [] := by simpa using hx
    simp only [hx, ↓reduceIte, List.append_nil]
    exact ⟨by rw [textOf_noText, this], hff ks⟩
  · simp only [hx, Bool.false_eq_true, ↓reduceIte]
    refine ⟨by rw [textOf_app, textOf_noText]; simp [textOf], ?_⟩
    rw [List.filter_append, hff]
    simp [List.filter_cons, isTextLeaf_text]

end Genshi.Fill

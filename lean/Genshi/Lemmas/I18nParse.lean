/-
  C19 — `parse_msg` inverts the message format: for every translation tree whose text
  segments contain no bracket and no backslash, parsing its linearisation yields exactly its
  parts, in order.
-/
import Genshi.Model.I18nMsgBuf
namespace Genshi.I18n
open Genshi

/-! ### decimal numbers -/

theorem digitVal_digitChar (d : Nat) (h : d < 10) : digitVal (digitChar d) = some d := by
  have : d = 0 ∨ d = 1 ∨ d = 2 ∨ d = 3 ∨ d = 4 ∨ d = 5 ∨ d = 6 ∨ d = 7 ∨ d = 8 ∨ d = 9 := by omega
  rcases this with h | h | h | h | h | h | h | h | h | h <;> subst h <;> decide

theorem digitVal_colon : digitVal ':' = none := by decide

theorem readDigits_natStrF : ∀ (f n k : Nat) (tail : Str), n ≤ f →
    readDigits (natStrF f n ++ tail) none k = readDigits tail (some n) (k + (natStrF f n).length) := by
  intro f
  induction f with
  | zero =>
    intro n k tail h
    have : n = 0 := by omega
    subst this
    simp [natStrF, readDigits, digitVal_digitChar 0 (by omega)]
  | succ f ih =>
    intro n k tail h
    simp only [natStrF]
    by_cases hn : n < 10
    · simp [hn, readDigits, digitVal_digitChar n hn]
    · simp only [hn, ↓reduceIte, List.append_assoc, List.cons_append, List.nil_append, List.length_append,
        List.length_cons, List.length_nil]
      rw [ih (n / 10) k _ (by omega)]
      simp only [readDigits, digitVal_digitChar (n % 10) (Nat.mod_lt _ (by omega)), Option.getD_some]
      have : n / 10 * 10 + n % 10 = n := by omega
      rw [this]
      congr 1

theorem readOpen_natStr (n : Nat) (rest : Str) :
    readOpen ('[' :: (natStr n ++ ':' :: rest)) = some (n, (natStr n).length + 2) := by
  simp only [readOpen, natStr]
  rw [readDigits_natStrF n n 1 _ (Nat.le_refl _)]
  simp [readDigits, digitVal_colon]
  omega

/-! ### translation trees and their linearisation -/

mutual
  /-- a placeholder `[n: first child₁ seg₁ … childₘ segₘ ]` -/
  inductive XNode where
    | ph (n : Nat) (first : Str) (rest : XRest)
  inductive XRest where
    | nil
    | cons (x : XNode) (seg : Str) (r : XRest)
end

mutual
  def XNode.fmt : XNode → Str
    | .ph n s0 r => '[' :: (natStr n ++ ':' :: (s0 ++ (r.fmt ++ [']'])))
  def XRest.fmt : XRest → Str
    | .nil => []
    | .cons x s r => x.fmt ++ (s ++ r.fmt)
end

/-- what `parse_msg` appends for the text `s` in front of a bracket at level `top` -/
def partOf (top : Nat) (s : Str) : List (Nat × Str) :=
  if !s.isEmpty || top != 0 then [(top, s)] else []

theorem addPart_eq (top : Nat) (s : Str) (acc : List (Nat × Str)) :
    addPart top s acc = acc ++ partOf top s := by
  unfold addPart partOf; split <;> simp

mutual
  /-- the parts produced between the brackets of a placeholder (its last segment included) -/
  def XNode.parts : XNode → List (Nat × Str)
    | .ph n s0 r => XRest.parts n s0 r
  /-- the parts of `s0 child₁ seg₁ …` at level `top` -/
  def XRest.parts (top : Nat) (s0 : Str) : XRest → List (Nat × Str)
    | .nil => partOf top s0
    | .cons x s r => partOf top s0 ++ (x.parts ++ XRest.parts top s r)
end

/-- a text segment without bracket and backslash -/
def bareSeg (s : Str) : Bool := s.all fun c => c != '[' && c != ']' && c != '\\'

/-- the scan behind `plainSeg`; `bs`: the previous character is a backslash that still has to
    escape a bracket -/
def segGo : Bool → Str → Bool
  | bs, [] => !bs
  | false, c :: cs => if c = '\\' then segGo true cs else c != '[' && c != ']' && segGo false cs
  | true, c :: cs =>
      if c = '[' then (readDigits cs none 1).isNone && segGo false cs
      else if c = ']' then segGo false cs
      else false

/-- a text segment `parse_msg` leaves alone: every bracket is escaped (`\[`, `\]`), every
    backslash escapes a bracket, and no escaped opening bracket is followed by digits and a
    colon (`\[12:` is taken for a placeholder all the same: finding C19-placeholder-text) -/
def plainSeg (s : Str) : Bool := segGo false s

mutual
  def XNode.plain : XNode → Bool
    | .ph _ s0 r => plainSeg s0 && r.plain
  def XRest.plain : XRest → Bool
    | .nil => true
    | .cons x s r => x.plain && plainSeg s && r.plain
end

/-! ### the scanner -/

theorem parseGo_skip (st : List Nat) (cur : Str) (bs : Bool) (acc : List (Nat × Str)) (top : Nat) :
    ∀ (xs rest : Str), parseGo xs.length (top :: st) cur bs acc (xs ++ rest) = parseGo 0 (top :: st) cur bs acc rest := by
  intro xs
  induction xs with
  | nil => intro rest; simp
  | cons x xs ih =>
    intro rest
    simp only [List.length_cons, List.cons_append]
    rw [parseGo.eq_def]
    simp only
    exact ih rest

theorem readOpen_plain (c : Char) (cs : Str) (h : c ≠ '[') : readOpen (c :: cs) = none := by
  unfold readOpen
  split
  · rename_i heq; simp at heq; exact absurd heq.1 h
  · rfl

/-- what follows a segment in a message string: nothing, or a bracket of the structure -/
def Structural (rest : Str) : Prop := rest = [] ∨ ∃ cs, rest = '[' :: cs ∨ rest = ']' :: cs

theorem structural_nil : Structural [] := Or.inl rfl
theorem structural_open (cs : Str) : Structural ('[' :: cs) := Or.inr ⟨cs, Or.inl rfl⟩
theorem structural_close (cs : Str) : Structural (']' :: cs) := Or.inr ⟨cs, Or.inr rfl⟩

theorem digitVal_lbracket : digitVal '[' = none := by decide
theorem digitVal_rbracket : digitVal ']' = none := by decide

/-- digits that lead to no colon inside the segment lead to none in the message either -/
theorem readDigits_structural : ∀ (cs : Str) (acc : Option Nat) (k : Nat) (rest : Str), Structural rest →
    readDigits cs acc k = none → readDigits (cs ++ rest) acc k = none
  | [], acc, k, rest, hr, _ => by
      rcases hr with rfl | ⟨cs, rfl | rfl⟩
      · simp [readDigits]
      · simp [readDigits, digitVal_lbracket]
      · simp [readDigits, digitVal_rbracket]
  | c :: cs, acc, k, rest, hr, h => by
      simp only [readDigits, List.cons_append] at h ⊢
      cases hd : digitVal c with
      | some d =>
        simp only [hd] at h ⊢
        exact readDigits_structural cs _ _ rest hr h
      | none =>
        simp only [hd] at h ⊢
        exact h

/-- scanning a plain segment only accumulates it -/
theorem parseGo_seg (top : Nat) (st : List Nat) (acc : List (Nat × Str)) :
    ∀ (s cur rest : Str) (bs : Bool), segGo bs s = true → Structural rest →
      parseGo 0 (top :: st) cur bs acc (s ++ rest) = parseGo 0 (top :: st) (s.reverse ++ cur) false acc rest := by
  intro s
  induction s with
  | nil =>
    intro cur rest bs h _
    cases bs with
    | false => simp
    | true => simp [segGo] at h
  | cons c cs ih =>
    intro cur rest bs h hr
    simp only [List.cons_append]
    cases bs with
    | false =>
      simp only [segGo] at h
      by_cases hb : c = '\\'
      · subst hb
        simp only [↓reduceIte] at h
        rw [parseGo.eq_def]
        simp only [readOpen_plain '\\' _ (by decide)]
        have : (('\\' : Char) == ']' && !false) = false := by decide
        simp only [this, Bool.false_eq_true, ↓reduceIte, decide_true]
        have := ih ('\\' :: cur) rest true h hr
        simpa using this
      · simp only [hb, ↓reduceIte, Bool.and_eq_true, bne_iff_ne, ne_eq] at h
        obtain ⟨⟨h1, h2⟩, h4⟩ := h
        rw [parseGo.eq_def]
        simp only [readOpen_plain c _ h1]
        simp only [Bool.not_false, Bool.and_true, beq_iff_eq, h2, Bool.false_eq_true, ↓reduceIte]
        have hb' : decide (c = '\\') = false := by simp [hb]
        rw [hb']
        have := ih (c :: cur) rest false h4 hr
        simpa using this
    | true =>
      simp only [segGo] at h
      by_cases h1 : c = '['
      · subst h1
        simp only [↓reduceIte, Bool.and_eq_true, Option.isNone_iff_eq_none] at h
        rw [parseGo.eq_def]
        have hro : readOpen ('[' :: (cs ++ rest)) = none := by
          simp only [readOpen]
          exact readDigits_structural cs none 1 rest hr h.1
        simp only [hro]
        have : (decide (('[' : Char) = ']') && !true) = false := by decide
        simp only [this, Bool.false_eq_true, ↓reduceIte]
        have hd : decide (('[' : Char) = '\\') = false := by decide
        rw [hd]
        have := ih ('[' :: cur) rest false h.2 hr
        simpa using this
      · by_cases h2 : c = ']'
        · subst h2
          simp only [h1, ↓reduceIte] at h
          rw [parseGo.eq_def]
          simp only [readOpen_plain ']' _ (by decide)]
          simp only [decide_true, Bool.not_true, Bool.and_false, Bool.false_eq_true, ↓reduceIte]
          have hd : decide ((']' : Char) = '\\') = false := by decide
          rw [hd]
          have := ih (']' :: cur) rest false h hr
          simpa using this
        · simp [h1, h2] at h

theorem parseGo_plain (top : Nat) (st : List Nat) (acc : List (Nat × Str)) (s cur rest : Str)
    (h : plainSeg s = true) (hr : Structural rest) :
    parseGo 0 (top :: st) cur false acc (s ++ rest) = parseGo 0 (top :: st) (s.reverse ++ cur) false acc rest :=
  parseGo_seg top st acc s cur rest false h hr

/-- a segment without bracket and backslash is plain -/
theorem plainSeg_of_bare : ∀ (s : Str), bareSeg s = true → plainSeg s = true
  | [], _ => rfl
  | c :: cs, h => by
      simp only [bareSeg, List.all_cons, Bool.and_eq_true, bne_iff_ne, ne_eq] at h
      obtain ⟨⟨⟨h1, h2⟩, h3⟩, h4⟩ := h
      have ih := plainSeg_of_bare cs (by simpa [bareSeg] using h4)
      simp only [plainSeg] at ih ⊢
      simp [segGo, h3, h1, h2, ih]


theorem structural_node (x : XNode) (tail : Str) : Structural (x.fmt ++ tail) := by
  cases x with
  | ph n s0 r => simp only [XNode.fmt, List.cons_append]; exact structural_open _

theorem parseGo_close (n top : Nat) (st : List Nat) (cur : Str) (acc : List (Nat × Str)) (tail : Str) :
    parseGo 0 (n :: top :: st) cur false acc (']' :: tail) =
      parseGo 0 (top :: st) [] false (acc ++ partOf n cur.reverse) tail := by
  rw [parseGo.eq_def]
  simp [readOpen, addPart_eq]

theorem parseGo_open (n top : Nat) (st : List Nat) (cur : Str) (acc : List (Nat × Str)) (rest : Str) :
    parseGo 0 (top :: st) cur false acc ('[' :: (natStr n ++ ':' :: rest)) =
      parseGo 0 (n :: top :: st) [] false (acc ++ partOf top cur.reverse) rest := by
  rw [parseGo.eq_def]
  simp only [readOpen_natStr, addPart_eq, Nat.add_sub_cancel]
  have := parseGo_skip (top :: st) [] false (acc ++ partOf top cur.reverse) n (natStr n ++ [':']) rest
  simpa using this

mutual
  theorem parseGo_node : ∀ (x : XNode) (top : Nat) (st : List Nat) (cur : Str) (acc : List (Nat × Str))
      (tail : Str), x.plain = true →
      parseGo 0 (top :: st) cur false acc (x.fmt ++ tail) =
        parseGo 0 (top :: st) [] false (acc ++ partOf top cur.reverse ++ x.parts) tail
    | .ph n s0 r, top, st, cur, acc, tail, h => by
        simp only [XNode.plain, Bool.and_eq_true] at h
        simp only [XNode.fmt, XNode.parts, List.cons_append, List.append_assoc]
        rw [parseGo_open]
        have := parseGo_rest r n top st s0 (acc ++ partOf top cur.reverse) tail h.1 h.2
        simpa [List.append_assoc] using this
  theorem parseGo_rest : ∀ (r : XRest) (n top : Nat) (st : List Nat) (s0 : Str) (acc : List (Nat × Str))
      (tail : Str), plainSeg s0 = true → r.plain = true →
      parseGo 0 (n :: top :: st) [] false acc (s0 ++ (r.fmt ++ ']' :: tail)) =
        parseGo 0 (top :: st) [] false (acc ++ XRest.parts n s0 r) tail
    | .nil, n, top, st, s0, acc, tail, h0, _ => by
        simp only [XRest.fmt, List.nil_append, XRest.parts]
        rw [parseGo_plain n (top :: st) acc s0 [] _ h0 (structural_close _), parseGo_close]
        simp
    | .cons x s r, n, top, st, s0, acc, tail, h0, h => by
        simp only [XRest.plain, Bool.and_eq_true] at h
        simp only [XRest.fmt, XRest.parts, List.append_assoc]
        rw [parseGo_plain n (top :: st) acc s0 [] _ h0 (structural_node x _)]
        rw [parseGo_node x n (top :: st) _ acc _ h.1.1]
        rw [parseGo_rest r n top st s _ tail h.1.2 h.2]
        simp [List.append_assoc]
end

/-- the top level of a message: no closing bracket, the last segment ends at the end of the string -/
theorem parseGo_top : ∀ (r : XRest) (s0 : Str) (acc : List (Nat × Str)), plainSeg s0 = true → r.plain = true →
    parseGo 0 [0] [] false acc (s0 ++ r.fmt) = .ok (acc ++ XRest.parts 0 s0 r)
  | .nil, s0, acc, h0, _ => by
      simp only [XRest.fmt, List.append_nil, XRest.parts]
      have := parseGo_plain 0 [] acc s0 [] [] h0 structural_nil
      simp only [List.append_nil] at this
      rw [this, parseGo.eq_def]
      simp only [partOf]
      cases s0 <;> simp [pure, Except.pure]
  | .cons x s r, s0, acc, h0, h => by
      simp only [XRest.plain, Bool.and_eq_true] at h
      simp only [XRest.fmt, XRest.parts]
      rw [parseGo_plain 0 [] acc s0 [] _ h0 (structural_node x _)]
      rw [parseGo_node x 0 [] _ acc _ h.1.1]
      rw [parseGo_top r s _ h.1.2 h.2]
      simp [List.append_assoc]

/-- **parse_msg ∘ format**: the parts of a linearised translation tree -/
theorem parseMsg_fmt (s0 : Str) (r : XRest) (h0 : plainSeg s0 = true) (h : r.plain = true) :
    parseMsg (s0 ++ r.fmt) = .ok (XRest.parts 0 s0 r) := by
  unfold parseMsg
  simpa using parseGo_top r s0 [] h0 h

end Genshi.I18n

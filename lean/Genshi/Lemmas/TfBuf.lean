/-
  `copy(buffer, accumulate=True)`: the buffer receives exactly the marked events
  (what selection returns), provided no unmarked event sits between an ENTER and
  its EXIT — which is the case right after a `select`.
-/
import Genshi.Lemmas.TfChain
namespace Genshi.Tf

/-- the events a marking selects, in order -/
def marked (s : MStream) : List MEv := (s.filter (·.1.isSome)).map (·.2)

/-- no unmarked item between an ENTER and the next EXIT (`inE` = currently inside) -/
def tight : Bool → MStream → Bool
  | _, [] => true
  | false, (m, _) :: s => tight (m = some .enter) s
  | true, (m, _) :: s => m.isSome && tight (!(m = some .exit)) s

theorem marked_cons_some (m : Mark) (x : MEv) (s : MStream) : marked ((some m, x) :: s) = x :: marked s := by
  simp [marked]

theorem marked_cons_none (x : MEv) (s : MStream) : marked ((none, x) :: s) = marked s := by
  simp [marked]

theorem copyBuf_spec (s : MStream) :
    (∀ buf, tight false s = true → copyBuf true .idle buf s = buf ++ marked s) ∧
    (∀ buf, tight true s = true → copyBuf true .inEnter buf s = buf ++ marked s) ∧
    (∀ m0 buf, m0 ≠ .enter → tight false s = true → copyBuf true (.inRun m0) buf s = buf ++ marked s) := by
  induction s with
  | nil => simp [copyBuf, marked]
  | cons p s ih =>
    obtain ⟨m, x⟩ := p
    obtain ⟨h0, h1, h2⟩ := ih
    have hidle : ∀ buf, tight false ((m, x) :: s) = true →
        copyBuf true .idle buf ((m, x) :: s) = buf ++ marked ((m, x) :: s) := by
      intro buf ht
      rcases m with _ | m
      · simp only [tight] at ht
        simp only [copyBuf, marked_cons_none]
        exact h0 buf (by simpa using ht)
      · simp only [tight] at ht
        simp only [copyBuf, startSt, ↓reduceIte, marked_cons_some]
        by_cases he : m = .enter
        · subst he
          simp only [↓reduceIte]
          rw [h1 _ (by simpa using ht)]; simp
        · simp only [he, ↓reduceIte]
          have : tight false s = true := by simpa [he] using ht
          rw [h2 m _ he this]; simp
    refine ⟨hidle, ?_, ?_⟩
    · intro buf ht
      simp only [tight, Bool.and_eq_true] at ht
      obtain ⟨hm, ht⟩ := ht
      rcases m with _ | m
      · simp at hm
      · simp only [copyBuf, marked_cons_some]
        by_cases hx : m = .exit
        · subst hx
          simp only [↓reduceIte]
          rw [h0 _ (by simpa using ht)]; simp
        · have : (some m = some Mark.exit) = False := by simp [hx]
          simp only [this, ↓reduceIte]
          rw [h1 _ (by simpa [hx] using ht)]; simp
    · intro m0 buf hm0 ht
      by_cases hm : m = some m0
      · subst hm
        simp only [tight] at ht
        have : tight false s = true := by simpa [hm0] using ht
        simp only [copyBuf, ↓reduceIte, marked_cons_some]
        rw [h2 m0 _ hm0 this]; simp
      · have hi := hidle buf ht
        rcases m with _ | m
        · simp only [copyBuf, hm, ↓reduceIte] at hi ⊢
          exact hi
        · simp only [copyBuf, hm, ↓reduceIte] at hi ⊢
          exact hi

theorem selectGo_tight (rs : List Res) (s : MStream) :
    ∀ d, tight (decide (d ≠ 0)) (selectGo d rs s) = true := by
  induction s generalizing rs with
  | nil => intro d; cases d <;> simp [selectGo, tight]
  | cons p s ih =>
    obtain ⟨m, x⟩ := p
    intro d
    cases d with
    | zero =>
      rcases m with _ | m
      · simpa [selectGo, tight] using ih rs 0
      · simp only [selectGo]
        cases hr : rs.headD .none with
        | hit =>
          simp only
          by_cases hx : x.isStart = true
          · simpa [hx, tight] using ih rs.tail 1
          · simpa [hx, tight] using ih rs.tail 0
        | none => simpa [tight] using ih rs.tail 0
        | attrs a => simpa [tight] using ih rs.tail 0
        | self => simpa [tight] using ih rs.tail 0
        | event e => simpa [tight] using ih rs.tail 0
        | text t => simpa [tight] using ih rs.tail 0
    | succ d =>
      simp only [selectGo]
      by_cases hd : subDepth d x = 0
      · simpa [hd, tight] using ih rs 0
      · have := ih rs (subDepth d x)
        simp only [hd, ↓reduceIte]
        simpa [hd, tight] using this

end Genshi.Tf

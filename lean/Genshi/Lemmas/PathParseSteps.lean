/-
  C05 `parser_accepts_subset`, second part: location paths in abbreviated and unabbreviated
  syntax without predicates — `a/b`, `a//b`, `@x`, `p:a/*`, `./x:*//child::b/@p:c` — parse to
  the steps they denote (token level).
-/
import Genshi.Lemmas.PathParseChain
namespace Genshi.Path
open Genshi

/-! ## Syntax -/

/-- name tests as written -/
inductive NTSyn where
  | name (n : Str)
  | star
  | qname (p n : Str)
  | qstar (p : Str)
  deriving Repr

def NTSyn.tokens : NTSyn → List Str
  | .name n => [n]
  | .star => [['*']]
  | .qname p n => [p, [':'], n]
  | .qstar p => [p, [':'], ['*']]

def NTSyn.test (attr : Bool) : NTSyn → NodeTest
  | .name n => .localName attr n
  | .star => .principal attr
  | .qname p n => .qname attr p n
  | .qstar p => .qprincipal attr p

/-- a token that can stand where a name is expected without being taken for something else -/
def okName (n : Str) : Prop :=
  n ≠ ['*'] ∧ n ≠ ['.'] ∧ n ≠ ['.', '.'] ∧ n ≠ ['@'] ∧ n ≠ ['['] ∧ n ≠ ['|'] ∧ startsWithSlash n = false

def NTSyn.wf : NTSyn → Prop
  | .name n => okName n
  | .star => True
  | .qname p n => okName p ∧ okName n
  | .qstar p => okName p

/-- how the axis is written -/
inductive AxSyn where
  | explicit (a : Axis)     -- `axis::`
  | short                   -- nothing: child
  | attr                    -- `@`
  deriving Repr

def AxSyn.tokens : AxSyn → List Str
  | .explicit a => [axisName a, [':', ':']]
  | .short => []
  | .attr => [['@']]

def AxSyn.axis : AxSyn → Axis
  | .explicit a => a
  | .short => .child
  | .attr => .attribute

def AxSyn.parsed : AxSyn → Option Axis
  | .explicit a => some a
  | .short => none
  | .attr => some .attribute

/-- a step as written: `.`, or axis part and name test -/
inductive StepSyn where
  | dot
  | step (ax : AxSyn) (nt : NTSyn)
  deriving Repr

def StepSyn.tokens : StepSyn → List Str
  | .dot => [['.']]
  | .step ax nt => ax.tokens ++ nt.tokens

def StepSyn.ast : StepSyn → Step
  | .dot => ⟨.self, .node, []⟩
  | .step ax nt => ⟨ax.axis, nt.test (ax.axis == .attribute), []⟩

def StepSyn.parsedAxis : StepSyn → Option Axis
  | .dot => some .self
  | .step ax _ => ax.parsed

def StepSyn.wf : StepSyn → Prop
  | .dot => True
  | .step _ nt => nt.wf

/-- what follows a step: nothing, or a separator and more tokens -/
def Tail (tail : List Str) : Prop :=
  tail = [] ∨ ∃ sep y r, tail = sep :: y :: r ∧ (sep = ['/'] ∨ sep = ['/', '/'])

/-! ## The node test -/

theorem sep_facts {sep : Str} (h : sep = ['/'] ∨ sep = ['/', '/']) :
    sep ≠ ['('] ∧ sep ≠ ['(', ')'] ∧ sep ≠ [':'] ∧ sep ≠ [':', ':'] ∧ sep ≠ ['['] ∧ startsWithSlash sep = true := by
  rcases h with rfl | rfl <;> decide

theorem nodeTest_name (ts : List Str) (pos : Nat) (attr : Bool) (n : Str) (tail : List Str)
    (hn : okName n) (ht : Tail tail) (h : ts.drop pos = n :: tail) :
    nodeTest ts pos attr = .ok (.localName attr n, if tail = [] then pos else pos + 1) := by
  rcases ht with rfl | ⟨sep, y, r, rfl, hsep⟩
  · simp [nodeTest, peek_drop_one h, cur_drop h, atEnd_drop_one h, hn.1, hn.2.1, bind, Except.bind, pure, Except.pure]
  · obtain ⟨s1, s2, s3, _, _, _⟩ := sep_facts hsep
    simp [nodeTest, peek_drop_two h, cur_drop h, atEnd_drop_two h, next_drop h, hn.1, hn.2.1, s1, s2, s3,
      bind, Except.bind, pure, Except.pure]

theorem nodeTest_star (ts : List Str) (pos : Nat) (attr : Bool) (tail : List Str)
    (ht : Tail tail) (h : ts.drop pos = ['*'] :: tail) :
    nodeTest ts pos attr = .ok (.principal attr, if tail = [] then pos else pos + 1) := by
  rcases ht with rfl | ⟨sep, y, r, rfl, hsep⟩
  · simp [nodeTest, peek_drop_one h, cur_drop h, atEnd_drop_one h, bind, Except.bind, pure, Except.pure]
  · obtain ⟨s1, s2, s3, _, _, _⟩ := sep_facts hsep
    simp [nodeTest, peek_drop_two h, cur_drop h, atEnd_drop_two h, next_drop h, s1, s2, s3,
      bind, Except.bind, pure, Except.pure]

theorem nodeTest_qname (ts : List Str) (pos : Nat) (attr : Bool) (p n : Str) (tail : List Str)
    (hn : okName n) (ht : Tail tail) (h : ts.drop pos = p :: [':'] :: n :: tail) :
    nodeTest ts pos attr = .ok (.qname attr p n, if tail = [] then pos + 2 else pos + 3) := by
  have hd1 := drop_succ h
  have hd2 := drop_succ hd1
  rcases ht with rfl | ⟨sep, y, r, rfl, hsep⟩
  · simp [nodeTest, peek_drop_two h, cur_drop h, next_drop h, next_drop hd1, atEnd_drop_one hd2, hn.1,
      bind, Except.bind, pure, Except.pure]
  · simp [nodeTest, peek_drop_two h, cur_drop h, next_drop h, next_drop hd1, next_drop hd2, atEnd_drop_two hd2, hn.1,
      bind, Except.bind, pure, Except.pure]

theorem nodeTest_qstar (ts : List Str) (pos : Nat) (attr : Bool) (p : Str) (tail : List Str)
    (ht : Tail tail) (h : ts.drop pos = p :: [':'] :: ['*'] :: tail) :
    nodeTest ts pos attr = .ok (.qprincipal attr p, if tail = [] then pos + 2 else pos + 3) := by
  have hd1 := drop_succ h
  have hd2 := drop_succ hd1
  rcases ht with rfl | ⟨sep, y, r, rfl, hsep⟩
  · simp [nodeTest, peek_drop_two h, cur_drop h, next_drop h, next_drop hd1, atEnd_drop_one hd2,
      bind, Except.bind, pure, Except.pure]
  · simp [nodeTest, peek_drop_two h, cur_drop h, next_drop h, next_drop hd1, next_drop hd2, atEnd_drop_two hd2,
      bind, Except.bind, pure, Except.pure]

/-- position after a name test: on its last token when nothing follows (the parser never
    moves past the last token), else on the separator -/
def ntEnd (pos : Nat) (nt : NTSyn) (tail : List Str) : Nat :=
  if tail = [] then pos + (nt.tokens.length - 1) else pos + nt.tokens.length

theorem nodeTest_syn (ts : List Str) (pos : Nat) (attr : Bool) (nt : NTSyn) (tail : List Str)
    (hwf : nt.wf) (ht : Tail tail) (h : ts.drop pos = nt.tokens ++ tail) :
    nodeTest ts pos attr = .ok (nt.test attr, ntEnd pos nt tail) := by
  cases nt with
  | name n =>
    rw [nodeTest_name ts pos attr n tail hwf ht h]
    simp [NTSyn.test, ntEnd, NTSyn.tokens]
  | star =>
    rw [nodeTest_star ts pos attr tail ht h]
    simp [NTSyn.test, ntEnd, NTSyn.tokens]
  | qname p n =>
    rw [nodeTest_qname ts pos attr p n tail hwf.2 ht h]
    simp [NTSyn.test, ntEnd, NTSyn.tokens]
  | qstar p =>
    rw [nodeTest_qstar ts pos attr p tail ht h]
    simp [NTSyn.test, ntEnd, NTSyn.tokens]

/-! ## One step -/

theorem drop_add' {ts : List Str} {pos : Nat} {L : List Str} (h : ts.drop pos = L) (k : Nat) :
    ts.drop (pos + k) = L.drop k := by
  rw [← h, List.drop_drop]

def NTSyn.lastTok : NTSyn → Str
  | .name n => n
  | .star => ['*']
  | .qname _ n => n
  | .qstar _ => ['*']

def NTSyn.firstTok : NTSyn → Str
  | .name n => n
  | .star => ['*']
  | .qname p _ => p
  | .qstar p => p

/-- the tokens from the position where the name test ends -/
theorem drop_ntEnd (ts : List Str) (pos : Nat) (nt : NTSyn) (tail : List Str)
    (h : ts.drop pos = nt.tokens ++ tail) :
    ts.drop (ntEnd pos nt tail) = if tail = [] then [nt.lastTok] else tail := by
  unfold ntEnd
  by_cases ht : tail = []
  · subst ht
    simp only [if_true, List.append_nil] at h ⊢
    rw [drop_add' h]
    cases nt <;> simp [NTSyn.tokens, NTSyn.lastTok]
  · simp only [ht, if_false]
    rw [drop_add' h]
    simp

theorem lastTok_ok (nt : NTSyn) (hwf : nt.wf) : nt.lastTok ≠ ['['] ∧ nt.lastTok ≠ ['|'] := by
  cases nt with
  | name n => exact ⟨hwf.2.2.2.2.1, hwf.2.2.2.2.2.1⟩
  | star => exact ⟨by decide, by decide⟩
  | qname p n => exact ⟨hwf.2.2.2.2.2.1, hwf.2.2.2.2.2.2.1⟩
  | qstar p => exact ⟨by simp [NTSyn.lastTok], by simp [NTSyn.lastTok]⟩

theorem firstTok_ok (nt : NTSyn) (hwf : nt.wf) :
    nt.firstTok ≠ ['@'] ∧ nt.firstTok ≠ ['.'] ∧ nt.firstTok ≠ ['.', '.'] ∧ startsWithSlash nt.firstTok = false := by
  cases nt with
  | name n => exact ⟨hwf.2.2.2.1, hwf.2.1, hwf.2.2.1, hwf.2.2.2.2.2.2⟩
  | star => exact ⟨by decide, by decide, by decide, by decide⟩
  | qname p n => exact ⟨hwf.1.2.2.2.1, hwf.1.2.1, hwf.1.2.2.1, hwf.1.2.2.2.2.2.2⟩
  | qstar p => exact ⟨hwf.2.2.2.1, hwf.2.1, hwf.2.2.1, hwf.2.2.2.2.2.2⟩

/-- no predicates follow: the token where the name test ended is not `[` -/
theorem predLoop_none (ts : List Str) (fuel pos : Nat) (nt : NTSyn) (tail : List Str) (hwf : nt.wf) (ht : Tail tail)
    (h : ts.drop pos = nt.tokens ++ tail) :
    predLoop ts (fuel + 1) (ntEnd pos nt tail) [] = .ok ([], ntEnd pos nt tail) := by
  have hd := drop_ntEnd ts pos nt tail h
  rcases ht with rfl | ⟨sep, y, r, rfl, hsep⟩
  · simp only [if_true] at hd
    simp [predLoop, cur_drop hd, (lastTok_ok nt hwf).1, bind, Except.bind, pure, Except.pure]
  · simp only [List.cons_ne_nil, if_false] at hd
    obtain ⟨_, _, _, _, s5, _⟩ := sep_facts hsep
    simp [predLoop, cur_drop hd, s5, bind, Except.bind, pure, Except.pure]

/-- the token after the first token of a name test is not `::` -/
theorem peek_first (ts : List Str) (pos : Nat) (nt : NTSyn) (tail : List Str) (ht : Tail tail)
    (h : ts.drop pos = nt.tokens ++ tail) : ∃ v, peek ts pos = .ok v ∧ v ≠ some [':', ':'] := by
  cases nt with
  | name n =>
    rcases ht with rfl | ⟨sep, y, r, rfl, hsep⟩
    · exact ⟨none, peek_drop_one (by simpa [NTSyn.tokens] using h), by simp⟩
    · obtain ⟨_, _, _, s4, _, _⟩ := sep_facts hsep
      exact ⟨some sep, peek_drop_two (by simpa [NTSyn.tokens] using h), by simpa using s4⟩
  | star =>
    rcases ht with rfl | ⟨sep, y, r, rfl, hsep⟩
    · exact ⟨none, peek_drop_one (by simpa [NTSyn.tokens] using h), by simp⟩
    · obtain ⟨_, _, _, s4, _, _⟩ := sep_facts hsep
      exact ⟨some sep, peek_drop_two (by simpa [NTSyn.tokens] using h), by simpa using s4⟩
  | qname p n => exact ⟨some [':'], peek_drop_two (by simpa [NTSyn.tokens] using h), by decide⟩
  | qstar p => exact ⟨some [':'], peek_drop_two (by simpa [NTSyn.tokens] using h), by decide⟩

theorem cur_first (ts : List Str) (pos : Nat) (nt : NTSyn) (tail : List Str)
    (h : ts.drop pos = nt.tokens ++ tail) : cur ts pos = .ok nt.firstTok := by
  cases nt <;> exact cur_drop (by simpa [NTSyn.tokens, NTSyn.firstTok] using h)

theorem next_of_cur {ts : List Str} {pos : Nat} {t : Str} (h : cur ts (pos + 1) = .ok t) :
    next ts pos = .ok (t, pos + 1) := by
  simp only [cur] at h
  simp only [next]
  cases hg : ts[pos + 1]? with
  | none => simp [hg] at h
  | some u => simp [hg] at h; simp [h]

/-- where a step ends -/
def stepEnd (pos : Nat) (s : StepSyn) (tail : List Str) : Nat :=
  match s with
  | .dot => if tail = [] then pos else pos + 1
  | .step ax nt => ntEnd (pos + ax.tokens.length) nt tail

/-- `_location_step` on a step without predicates -/
theorem locationStep_syn (ts : List Str) (fuel pos : Nat) (s : StepSyn) (tail : List Str)
    (hwf : s.wf) (ht : Tail tail) (h : ts.drop pos = s.tokens ++ tail) :
    locationStep ts (fuel + 1) pos =
      .ok ((s.parsedAxis, s.ast.test, []), stepEnd pos s tail) := by
  cases s with
  | dot =>
    simp only [StepSyn.tokens, List.cons_append, List.nil_append] at h
    rcases ht with rfl | ⟨sep, y, r, rfl, hsep⟩
    · simp [locationStep, cur_drop h, nodeTest, peek_drop_one h, atEnd_drop_one h, predLoop, StepSyn.ast, stepEnd, StepSyn.parsedAxis,
        bind, Except.bind, pure, Except.pure]
    · obtain ⟨s1, s2, s3, _, s5, _⟩ := sep_facts hsep
      have hd1 := drop_succ h
      simp [locationStep, cur_drop h, nodeTest, peek_drop_two h, atEnd_drop_two h, next_drop h, predLoop,
        cur_drop hd1, StepSyn.ast, stepEnd, StepSyn.parsedAxis, s1, s2, s3, s5, bind, Except.bind, pure, Except.pure]
  | step ax nt =>
    cases ax with
    | explicit a =>
      simp only [StepSyn.tokens, AxSyn.tokens, List.cons_append, List.nil_append] at h
      obtain ⟨h1, h2, h3, _⟩ := axisName_plain a
      have hd1 := drop_succ h
      have hd2 := drop_succ hd1
      have hnt := nodeTest_syn ts (pos + 1 + 1) (a == .attribute) nt tail hwf ht hd2
      have hpl := predLoop_none ts fuel (pos + 1 + 1) nt tail hwf ht hd2
      have hnx1 := next_of_cur (cur_first ts (pos + 1 + 1) nt tail hd2)
      simp only [locationStep, cur_drop h, h1, h2, h3, peek_drop_two h, axisForName_axisName, next_drop h,
        hnx1, bind, Except.bind, pure, Except.pure, if_false, if_true, beq_iff_eq]
      have hb : (some a == some Axis.attribute) = (a == Axis.attribute) := by
        cases a <;> rfl
      simp only [hb, hnt, hpl]
      simp [StepSyn.ast, StepSyn.parsedAxis, AxSyn.axis, AxSyn.parsed, stepEnd, AxSyn.tokens, Nat.add_assoc]
    | short =>
      simp only [StepSyn.tokens, AxSyn.tokens, List.nil_append] at h
      obtain ⟨f1, f2, f3, _⟩ := firstTok_ok nt hwf
      obtain ⟨v, hv, hvne⟩ := peek_first ts pos nt tail ht h
      have hnt := nodeTest_syn ts pos false nt tail hwf ht h
      have hpl := predLoop_none ts fuel pos nt tail hwf ht h
      have hv' : (v == some [':', ':']) = false := by simpa using hvne
      simp only [locationStep, cur_first ts pos nt tail h, f1, f2, f3, hv, hv', bind, Except.bind, pure, Except.pure,
        if_false, beq_iff_eq, Bool.false_eq_true]
      have hb : ((none : Option Axis) == some Axis.attribute) = false := rfl
      simp only [hb, hnt, hpl]
      have hca : (Axis.child == Axis.attribute) = false := by decide
      simp [StepSyn.ast, StepSyn.parsedAxis, AxSyn.axis, AxSyn.parsed, stepEnd, AxSyn.tokens, hca]
    | attr =>
      simp only [StepSyn.tokens, AxSyn.tokens, List.cons_append, List.nil_append] at h
      have hd1 := drop_succ h
      have hnx := next_of_cur (cur_first ts (pos + 1) nt tail hd1)
      have hnt := nodeTest_syn ts (pos + 1) true nt tail hwf ht hd1
      have hpl := predLoop_none ts fuel (pos + 1) nt tail hwf ht hd1
      simp only [locationStep, cur_drop h, hnx, bind, Except.bind, pure, Except.pure, if_true, beq_self_eq_true]
      have hb : (some Axis.attribute == some Axis.attribute) = true := rfl
      simp only [hb, hnt, hpl]
      simp [StepSyn.ast, StepSyn.parsedAxis, AxSyn.axis, AxSyn.parsed, stepEnd, AxSyn.tokens]

/-! ## The loop over the steps -/

def StepSyn.firstTok : StepSyn → Str
  | .dot => ['.']
  | .step (.explicit a) _ => axisName a
  | .step .short nt => nt.firstTok
  | .step .attr _ => ['@']

def StepSyn.lastTok : StepSyn → Str
  | .dot => ['.']
  | .step _ nt => nt.lastTok

theorem StepSyn.tokens_cons (s : StepSyn) : ∃ r, s.tokens = s.firstTok :: r := by
  cases s with
  | dot => exact ⟨[], rfl⟩
  | step ax nt =>
    cases ax with
    | explicit a => exact ⟨[':', ':'] :: nt.tokens, rfl⟩
    | short => cases nt <;> exact ⟨_, rfl⟩
    | attr => exact ⟨nt.tokens, rfl⟩

theorem StepSyn.firstTok_noslash (s : StepSyn) (hwf : s.wf) : startsWithSlash s.firstTok = false := by
  cases s with
  | dot => decide
  | step ax nt =>
    cases ax with
    | explicit a => exact (axisName_plain a).2.2.2
    | short => exact (firstTok_ok nt hwf).2.2.2
    | attr => rfl

theorem StepSyn.lastTok_ok (s : StepSyn) (hwf : s.wf) : s.lastTok ≠ ['|'] := by
  cases s with
  | dot => decide
  | step ax nt => exact (Genshi.Path.lastTok_ok nt hwf).2

/-- separators and further steps -/
def restTokens : List (Bool × StepSyn) → List Str
  | [] => []
  | (d, s) :: r => (if d then ['/', '/'] else ['/']) :: (s.tokens ++ restTokens r)

def dosNodeStep : Step := ⟨.descendantOrSelf, .node, []⟩

def restAst : List (Bool × StepSyn) → List Step
  | [] => []
  | (d, s) :: r => (if d then [dosNodeStep] else []) ++ s.ast :: restAst r

theorem restTokens_tail (r : List (Bool × StepSyn)) : Tail (restTokens r) := by
  cases r with
  | nil => exact Or.inl rfl
  | cons x r' =>
    obtain ⟨d, s⟩ := x
    obtain ⟨t, ht⟩ := s.tokens_cons
    refine Or.inr ⟨(if d then ['/', '/'] else ['/']), s.firstTok, t ++ restTokens r', ?_, ?_⟩
    · simp [restTokens, ht]
    · cases d <;> simp

theorem drop_stepEnd (ts : List Str) (pos : Nat) (s : StepSyn) (tail : List Str)
    (h : ts.drop pos = s.tokens ++ tail) :
    ts.drop (stepEnd pos s tail) = if tail = [] then [s.lastTok] else tail := by
  cases s with
  | dot =>
    simp only [StepSyn.tokens, List.cons_append, List.nil_append] at h
    by_cases ht : tail = []
    · subst ht; simpa [stepEnd, StepSyn.lastTok] using h
    · simp only [stepEnd, ht, if_false]
      exact drop_succ h
  | step ax nt =>
    have h' : ts.drop (pos + ax.tokens.length) = nt.tokens ++ tail := by
      rw [drop_add' h]; simp [StepSyn.tokens, List.append_assoc]
    simpa [stepEnd, StepSyn.lastTok] using drop_ntEnd ts (pos + ax.tokens.length) nt tail h'

theorem parsed_getD (s : StepSyn) :
    (⟨s.parsedAxis.getD .child, s.ast.test, []⟩ : Step) = s.ast := by
  cases s with
  | dot => rfl
  | step ax nt => cases ax <;> rfl

theorem stepEnd_last (ts : List Str) (pos : Nat) (s : StepSyn) (h : ts.drop pos = s.tokens ++ []) :
    stepEnd pos s [] = ts.length - 1 ∧ atEnd ts (stepEnd pos s []) = true ∧
    cur ts (stepEnd pos s []) = .ok s.lastTok := by
  have hd := drop_stepEnd ts pos s [] h
  simp only [if_true] at hd
  have hlen : (ts.drop (stepEnd pos s [])).length = 1 := by rw [hd]; rfl
  simp only [List.length_drop] at hlen
  refine ⟨by omega, atEnd_drop_one hd, cur_drop hd⟩

/-- the loop entered at a separator -/
theorem locLoop_rest (ts : List Str) : ∀ (r : List (Bool × StepSyn)) (d : Bool) (s : StepSyn) (fuel pos : Nat)
    (acc : List Step), acc ≠ [] → s.wf → (∀ x ∈ r, x.2.wf) → r.length + 2 ≤ fuel →
    ts.drop pos = restTokens ((d, s) :: r) →
    locLoop ts fuel pos acc = .ok (acc ++ restAst ((d, s) :: r), ts.length - 1) := by
  intro r
  induction r with
  | nil =>
    intro d s fuel pos acc hacc hwf _ hfuel h
    obtain ⟨f, rfl⟩ : ∃ f, fuel = f + 1 + 1 := ⟨fuel - 2, by simp at hfuel; omega⟩
    have hne : acc.isEmpty = false := by cases acc <;> simp_all
    obtain ⟨t, htk⟩ := s.tokens_cons
    simp only [restTokens, List.append_nil] at h
    have h' : ts.drop pos = (if d then ['/', '/'] else ['/']) :: s.firstTok :: t := by rw [h, htk]
    have hd1 : ts.drop (pos + 1) = s.tokens ++ [] := by simpa using drop_succ h
    have hsl : startsWithSlash (if d then ['/', '/'] else ['/']) = true := by cases d <;> rfl
    have hstep := locationStep_syn ts f (pos + 1) s [] hwf (Or.inl rfl) hd1
    obtain ⟨e1, e2, e3⟩ := stepEnd_last ts (pos + 1) s hd1
    rw [e1] at e2 e3
    rw [locLoop]
    simp only [cur_drop h', hsl, hne, next_drop h', bind, Except.bind, pure, Except.pure, if_true,
      Bool.false_eq_true, if_false, hstep, e2, e3, Bool.true_or, e1]
    cases d <;> simp [restAst, parsed_getD, dosNodeStep]
  | cons x r ih =>
    intro d s fuel pos acc hacc hwf hr hfuel h
    obtain ⟨d', s'⟩ := x
    obtain ⟨f, rfl⟩ : ∃ f, fuel = f + 1 + 1 := ⟨fuel - 2, by simp at hfuel; omega⟩
    have hne : acc.isEmpty = false := by cases acc <;> simp_all
    obtain ⟨t, htk⟩ := s.tokens_cons
    simp only [restTokens] at h
    have h' : ts.drop pos = (if d then ['/', '/'] else ['/']) :: s.firstTok ::
        (t ++ restTokens ((d', s') :: r)) := by rw [h, htk]; simp [restTokens]
    have hd1 : ts.drop (pos + 1) = s.tokens ++ restTokens ((d', s') :: r) := by
      simpa [restTokens] using drop_succ h
    have hsl : startsWithSlash (if d then ['/', '/'] else ['/']) = true := by cases d <;> rfl
    have htail := restTokens_tail ((d', s') :: r)
    have hstep := locationStep_syn ts f (pos + 1) s _ hwf htail hd1
    have hde := drop_stepEnd ts (pos + 1) s _ hd1
    have hnn : restTokens ((d', s') :: r) ≠ [] := by simp [restTokens]
    simp only [hnn, if_false] at hde
    obtain ⟨t', htk'⟩ := s'.tokens_cons
    have hde' : ts.drop (stepEnd (pos + 1) s (restTokens ((d', s') :: r)))
        = (if d' then ['/', '/'] else ['/']) :: s'.firstTok :: (t' ++ restTokens r) := by
      rw [hde]; simp [restTokens, htk']
    have hsl' : startsWithSlash (if d' then ['/', '/'] else ['/']) = true := by cases d' <;> rfl
    have hrec := ih d' s' (f + 1) (stepEnd (pos + 1) s (restTokens ((d', s') :: r)))
      ((if d then acc ++ [dosNodeStep] else acc) ++ [s.ast]) (by simp)
      (hr (d', s') List.mem_cons_self) (fun x hx => hr x (List.mem_cons_of_mem _ hx))
      (by simp at hfuel ⊢; omega) hde
    rw [locLoop]
    simp only [cur_drop h', hsl, hne, next_drop h', bind, Except.bind, pure, Except.pure, if_true,
      Bool.false_eq_true, if_false, hstep, cur_drop hde', atEnd_drop_two hde', hsl', Bool.not_true, Bool.false_or,
      parsed_getD]
    have hdd : ((if d then ['/', '/'] else ['/']) == ['/', '/']) = d := by cases d <;> rfl
    simp only [hdd]
    have hacc' : (if d = true then acc ++ [dosNodeStep] else acc) = acc ++ (if d then [dosNodeStep] else []) := by
      cases d <;> simp
    have hds : (⟨Axis.descendantOrSelf, NodeTest.node, []⟩ : Step) = dosNodeStep := rfl
    simp only [hds]
    rw [hrec, hacc']
    simp [restAst, List.append_assoc]

/-! ## Whole paths -/

def pathTokens (s0 : StepSyn) (rest : List (Bool × StepSyn)) : List Str := s0.tokens ++ restTokens rest

def pathAst (s0 : StepSyn) (rest : List (Bool × StepSyn)) : LocPath := s0.ast :: restAst rest

def lastStep (s0 : StepSyn) : List (Bool × StepSyn) → StepSyn
  | [] => s0
  | (_, s) :: r => lastStep s r

theorem StepSyn.tokens_getLast (s : StepSyn) : s.tokens.getLast? = some s.lastTok := by
  cases s with
  | dot => rfl
  | step ax nt => cases ax <;> cases nt <;> simp [StepSyn.tokens, AxSyn.tokens, NTSyn.tokens, StepSyn.lastTok, NTSyn.lastTok]

theorem pathTokens_getLast (s0 : StepSyn) (rest : List (Bool × StepSyn)) :
    (pathTokens s0 rest).getLast? = some (lastStep s0 rest).lastTok := by
  induction rest generalizing s0 with
  | nil => simp [pathTokens, restTokens, lastStep, StepSyn.tokens_getLast]
  | cons x r ih =>
    obtain ⟨d, s⟩ := x
    have := ih s
    simp only [pathTokens] at this
    obtain ⟨t, ht⟩ := s.tokens_cons
    have hne : s.tokens ++ restTokens r ≠ [] := by simp [ht]
    simp only [pathTokens, restTokens, lastStep]
    rw [List.getLast?_append, List.getLast?_cons_of_ne_nil hne, this]
    simp

theorem lastStep_wf (s0 : StepSyn) (rest : List (Bool × StepSyn)) (h0 : s0.wf) (hr : ∀ x ∈ rest, x.2.wf) :
    (lastStep s0 rest).wf := by
  induction rest generalizing s0 with
  | nil => exact h0
  | cons x r ih =>
    obtain ⟨d, s⟩ := x
    exact ih s (hr (d, s) List.mem_cons_self) (fun y hy => hr y (List.mem_cons_of_mem _ hy))

theorem restTokens_length (r : List (Bool × StepSyn)) : 2 * r.length ≤ (restTokens r).length := by
  induction r with
  | nil => simp [restTokens]
  | cons x r ih =>
    obtain ⟨d, s⟩ := x
    obtain ⟨t, ht⟩ := s.tokens_cons
    simp [restTokens, ht] at ih ⊢
    omega

/-- **parser_accepts_subset**, location paths without predicates in abbreviated or
    unabbreviated syntax -/
theorem parse_steps (s0 : StepSyn) (rest : List (Bool × StepSyn)) (h0 : s0.wf) (hr : ∀ x ∈ rest, x.2.wf) :
    parseTokens (pathTokens s0 rest) = .ok [pathAst s0 rest] := by
  have hlast := pathTokens_getLast s0 rest
  have hlwf := lastStep_wf s0 rest h0 hr
  obtain ⟨t0, ht0⟩ := s0.tokens_cons
  have hlen : 2 * rest.length + 1 ≤ (pathTokens s0 rest).length := by
    have := restTokens_length rest
    simp [pathTokens, ht0]; omega
  have hcur : cur (pathTokens s0 rest) ((pathTokens s0 rest).length - 1) = .ok (lastStep s0 rest).lastTok := by
    rw [List.getLast?_eq_getElem?] at hlast
    simp [cur, hlast]
  have hend : atEnd (pathTokens s0 rest) ((pathTokens s0 rest).length - 1) = true := by
    simp [atEnd]; omega
  obtain ⟨f, hf⟩ : ∃ f, 16 * ((pathTokens s0 rest).length + 2) = f + 1 + 1 :=
    ⟨16 * ((pathTokens s0 rest).length + 2) - 2, by omega⟩
  have hd0 : (pathTokens s0 rest).drop 0 = s0.tokens ++ restTokens rest := rfl
  have hd0' : (pathTokens s0 rest).drop 0 = s0.firstTok :: (t0 ++ restTokens rest) := by
    simp [pathTokens, ht0]
  have hstep := locationStep_syn (pathTokens s0 rest) f 0 s0 _ h0 (restTokens_tail rest) hd0
  have hns := s0.firstTok_noslash h0
  have hloop : locLoop (pathTokens s0 rest) (f + 1 + 1) 0 []
      = .ok (pathAst s0 rest, (pathTokens s0 rest).length - 1) := by
    rw [locLoop]
    simp only [cur_drop hd0', hns, Bool.false_eq_true, if_false, pure, Except.pure, bind, Except.bind, hstep,
      List.nil_append, parsed_getD]
    cases rest with
    | nil =>
      obtain ⟨e1, e2, e3⟩ := stepEnd_last (pathTokens s0 []) 0 s0 hd0
      simp only [restTokens] at e1 e2 e3 ⊢
      rw [e1] at e2 e3
      simp [e1, e2, e3, pathAst, restAst]
    | cons x r =>
      obtain ⟨d, s⟩ := x
      have hde := drop_stepEnd (pathTokens s0 ((d, s) :: r)) 0 s0 _ hd0
      have hnn : restTokens ((d, s) :: r) ≠ [] := by simp [restTokens]
      simp only [hnn, if_false] at hde
      obtain ⟨t', htk'⟩ := s.tokens_cons
      have hde' : (pathTokens s0 ((d, s) :: r)).drop (stepEnd 0 s0 (restTokens ((d, s) :: r)))
          = (if d then ['/', '/'] else ['/']) :: s.firstTok :: (t' ++ restTokens r) := by
        rw [hde]; simp [restTokens, htk']
      have hsl : startsWithSlash (if d then ['/', '/'] else ['/']) = true := by cases d <;> rfl
      have hrec := locLoop_rest (pathTokens s0 ((d, s) :: r)) r d s (f + 1)
        (stepEnd 0 s0 (restTokens ((d, s) :: r))) [s0.ast] (by simp)
        (hr (d, s) List.mem_cons_self) (fun y hy => hr y (List.mem_cons_of_mem _ hy))
        (by simp at hlen; omega) hde
      simp only [cur_drop hde', atEnd_drop_two hde', hsl, Bool.not_true, Bool.false_or, Bool.false_eq_true,
        if_false, hrec]
      simp [pathAst]
  unfold parseTokens
  simp only [hf, hloop, bind, Except.bind, unionLoop, hcur, pure, Except.pure, hend]
  simp [(lastStep s0 rest).lastTok_ok hlwf, hend]

end Genshi.Path

/-
  C04: the implementation model simulates the documentation semantics
  (definitions and auxiliary lemmas; the simulation itself is `sim_ok`).
-/
import Genshi.Lemmas.TmplRules
namespace Genshi.Tmpl

/-! ### ranks: the documented order as numbers -/

def Dir.rank : Dir → Nat
  | .def_ _ _ => 0 | .when _ => 2 | .otherwise => 3 | .for_ _ _ => 4 | .if_ _ => 5
  | .choose _ => 6 | .with_ _ => 7 | .replace _ => 8 | .content _ => 9 | .attrs _ => 10
  | .strip _ => 11

theorem docIdx_eq_rank (d : Dir) : d.docIdx = d.rank := by cases d <;> rfl

/-- the generated table agrees with the documentation (re-checked whenever the table changes) -/
theorem implOrder_eq : implOrder = docOrder := by decide

theorem implIdx_eq_rank (d : Dir) : d.implIdx = d.rank := by
  unfold Dir.implIdx; rw [implOrder_eq]; exact docIdx_eq_rank d

theorem implIdx_eq_docIdx : Dir.implIdx = Dir.docIdx := by
  funext d; rw [implIdx_eq_rank, docIdx_eq_rank]

def StrictSorted (ds : List Dir) : Prop := (ds.map Dir.rank).Pairwise (· < ·)

theorem StrictSorted.tail {d : Dir} {ds : List Dir} (h : StrictSorted (d :: ds)) : StrictSorted ds := by
  unfold StrictSorted at *; simp only [List.map_cons, List.pairwise_cons] at h; exact h.2

theorem StrictSorted.head_lt {d : Dir} {ds : List Dir} (h : StrictSorted (d :: ds)) :
    ∀ x ∈ ds, d.rank < x.rank := by
  unfold StrictSorted at h; simp only [List.map_cons, List.pairwise_cons, List.mem_map] at h
  intro x hx; exact h.1 _ ⟨x, hx, rfl⟩

/-- directives that need an element to act on -/
def Dir.elemOnly : Dir → Bool
  | .content _ | .attrs _ | .strip _ => true
  | _ => false

/-! ### well-formed templates (what the parsers accept and an XML attribute list can hold) -/

mutual
  def wfNode : TNode → Bool
    | .text _ => true
    | .expr _ => true
    | .elem _ _ dirs kids => decide ((dirs.map Dir.rank).Nodup) && wfNodes kids
    | .delem d kids => !d.elemOnly && wfNodes kids
  def wfNodes : List TNode → Bool
    | [] => true
    | n :: ns => wfNode n && wfNodes ns
end

def targetBody : Target → List CEv
  | .elem tag attrs kids => .start tag attrs :: (compileNodes kids ++ [.end_ tag])
  | .frag kids => compileNodes kids

def Target.kids : Target → List TNode
  | .elem _ _ kids => kids
  | .frag kids => kids

def TargetOK (ds : List Dir) : Target → Prop
  | .elem _ _ _ => True
  | .frag _ => ∀ d ∈ ds, d.elemOnly = false

theorem TargetOK.tail {d : Dir} {ds : List Dir} {t : Target} (h : TargetOK (d :: ds) t) : TargetOK ds t := by
  cases t with
  | elem => trivial
  | frag kids => intro x hx; exact h x (List.mem_cons_of_mem _ hx)

structure DirsWF (ds : List Dir) (t : Target) : Prop where
  sorted : StrictSorted ds
  tok : TargetOK ds t
  wf : wfNodes t.kids = true

theorem DirsWF.tail {d ds t} (h : DirsWF (d :: ds) t) : DirsWF ds t :=
  ⟨h.sorted.tail, h.tok.tail, h.wf⟩

/-! ### attach -/

theorem attach_keep (d : Dir) (ds : List Dir) (body : List CEv)
    (h : d.rank ≠ 8 ∧ d.rank ≠ 9) :
    attach (d :: ds) body = (d :: (attach ds body).1, (attach ds body).2) := by
  cases d <;> simp_all [attach, Dir.rank]

theorem attach_no_rewrite (ds : List Dir) (body : List CEv)
    (h : ∀ d ∈ ds, d.rank ≠ 8 ∧ d.rank ≠ 9) : attach ds body = (ds, body) := by
  induction ds with
  | nil => rfl
  | cons d ds ih =>
    rw [attach_keep d ds body (h d (List.mem_cons_self ..)), ih (fun x hx => h x (List.mem_cons_of_mem _ hx))]

/-! ### state correspondence -/

def MacroSim (dm : DMacro) (m : Macro) : Prop :=
  dm.params = m.params ∧ DirsWF dm.dirs dm.target ∧
  m.dirs = (attach dm.dirs (targetBody dm.target)).1 ∧
  m.body = (attach dm.dirs (targetBody dm.target)).2

structure SimG (d : DSt) (s : St) : Prop where
  glob : d.glob = s.data
  ch : d.ch = s.choice.head?
  mlen : d.macros.length = s.macros.length
  macros : ∀ (i : Nat) (dm : DMacro) (m : Macro), d.macros[i]? = some dm → s.macros[i]? = some m → MacroSim dm m

theorem lookFrames_flatten (fs : List Frame) (x : Name) :
    lookFrames fs x = Env.look? fs.flatten x := by
  induction fs with
  | nil => rfl
  | cons f fs ih =>
    simp only [lookFrames, List.flatten_cons]
    induction f with
    | nil => simpa [Env.look?] using ih
    | cons p f ihf =>
      obtain ⟨k, v⟩ := p
      simp only [Env.look?, List.cons_append]
      by_cases hk : k = x
      · simp [hk]
      · simpa [hk] using ihf

theorem look_sim {loc : Env} {d : DSt} {s : St} (hl : loc = s.scopes.flatten) (hg : d.glob = s.data) :
    dlook loc d = s.look := by
  funext x
  unfold dlook St.look
  rw [lookFrames_flatten, ← hl, hg]
  cases Env.look? loc x <;> rfl

def taskOf : DTask → ITask
  | .nodes ns => .flat (compileNodes ns)
  | .node nd => .flat (compileNode nd)
  | .dirs ds t => .apply (attach ds (targetBody t)).1 (attach ds (targetBody t)).2
  | .loop v items ds t => .loop v items (attach ds (targetBody t)).1 (attach ds (targetBody t)).2
  | .xexpr x => .ev (.xexpr x)
  | .binds bs ds t => .binds bs (attach ds (targetBody t)).1 (attach ds (targetBody t)).2

def TaskWF : DTask → Prop
  | .nodes ns => wfNodes ns = true
  | .node nd => wfNode nd = true
  | .dirs ds t => DirsWF ds t
  | .loop _ _ ds t => DirsWF ds t
  | .xexpr _ => True
  | .binds _ ds t => DirsWF ds t

/-! ### sorting -/

theorem mem_insertBy {α : Type} (key : α → Nat) (x : α) (ys : List α) (z : α) :
    z ∈ insertBy key x ys ↔ z = x ∨ z ∈ ys := by
  induction ys with
  | nil => simp [insertBy]
  | cons y ys ih =>
    simp only [insertBy]
    split
    · simp only [List.mem_cons, ih]; grind
    · simp

theorem mem_sortBy {α : Type} (key : α → Nat) (xs : List α) (z : α) : z ∈ sortBy key xs ↔ z ∈ xs := by
  induction xs with
  | nil => simp [sortBy]
  | cons x xs ih => simp only [sortBy, mem_insertBy, ih, List.mem_cons]

theorem insertBy_strict {α : Type} (key : α → Nat) (x : α) (ys : List α)
    (hs : (ys.map key).Pairwise (· < ·)) (hx : ∀ y ∈ ys, key y ≠ key x) :
    ((insertBy key x ys).map key).Pairwise (· < ·) := by
  induction ys with
  | nil => simp [insertBy]
  | cons y ys ih =>
    rw [List.map_cons, List.pairwise_cons] at hs
    simp only [insertBy]
    split
    · rename_i hlt
      rw [List.map_cons, List.pairwise_cons]
      refine ⟨?_, ih hs.2 (fun z hz => hx z (List.mem_cons_of_mem _ hz))⟩
      intro k hk
      obtain ⟨z, hz, rfl⟩ := List.mem_map.1 hk
      rcases (mem_insertBy key x ys z).1 hz with rfl | hz
      · exact hlt
      · exact hs.1 _ (List.mem_map.2 ⟨z, hz, rfl⟩)
    · rename_i hge
      have hne := hx y (List.mem_cons_self ..)
      have hlt : key x < key y := by omega
      rw [List.map_cons, List.pairwise_cons, List.map_cons, List.pairwise_cons]
      refine ⟨?_, hs.1, hs.2⟩
      intro k hk
      rcases List.mem_cons.1 hk with rfl | hk
      · exact hlt
      · exact Nat.lt_trans hlt (hs.1 _ hk)

theorem sortBy_strict {α : Type} (key : α → Nat) (xs : List α) (h : (xs.map key).Nodup) :
    ((sortBy key xs).map key).Pairwise (· < ·) := by
  induction xs with
  | nil => simp [sortBy]
  | cons x xs ih =>
    simp only [List.map_cons, List.nodup_cons, List.mem_map, not_exists, not_and] at h
    simp only [sortBy]
    refine insertBy_strict key x _ (ih h.2) ?_
    intro y hy
    exact h.1 y ((mem_sortBy key xs y).1 hy)

theorem sortBy_docIdx_strict (dirs : List Dir) (h : (dirs.map Dir.rank).Nodup) :
    StrictSorted (sortBy Dir.docIdx dirs) := by
  have : Dir.docIdx = Dir.rank := funext docIdx_eq_rank
  rw [this]
  exact sortBy_strict Dir.rank dirs h

/-! ### small facts used by the simulation -/

theorem IOk.scopes {t : ITask} {st st' : St} {o : List Event} (h : IOk t st o st') :
    ScopesOK t st st' := by
  obtain ⟨m, h⟩ := h
  exact run_scopes m t st o st' h

theorem SimG.of_same {d : DSt} {st st' : St} (h : SimG d st) (h1 : st'.data = st.data)
    (h2 : st'.choice = st.choice) (h3 : st'.macros = st.macros) : SimG d st' :=
  ⟨by rw [h1]; exact h.glob, by rw [h2]; exact h.ch, by rw [h3]; exact h.mlen,
   by rw [h3]; exact h.macros⟩

theorem getMacro_sim {d : DSt} {st : St} (h : SimG d st) {v : Val} {dm : DMacro}
    (hd : getDMacro d v = .ok dm) : ∃ m, getMacro st v = .ok m ∧ MacroSim dm m := by
  cases v with
  | «macro» i =>
    simp only [getDMacro] at hd
    cases hdi : d.macros[i]? with
    | none => simp [hdi] at hd
    | some dm' =>
      simp only [hdi, Except.ok.injEq] at hd
      subst hd
      have hlt : i < st.macros.length := by
        rw [← h.mlen]; exact (List.getElem?_eq_some_iff.1 hdi).1
      refine ⟨st.macros[i], ?_, h.macros i dm' st.macros[i] hdi (List.getElem?_eq_getElem hlt)⟩
      simp [getMacro, List.getElem?_eq_getElem hlt]
  | atom a => simp [getDMacro] at hd
  | list xs => simp [getDMacro] at hd
  | dict kv => simp [getDMacro] at hd
  | undef => simp [getDMacro] at hd

theorem whenMatches_ok_test {look : Name → Val} {c : Choice} {e : Option Expr} {m : Bool}
    (h : whenMatches look c e = .ok m) : (!c.hasTest && e.isNone) = false := by
  unfold whenMatches at h
  cases hc : c.hasTest <;> cases e <;> simp_all

theorem SimG.define {d : DSt} {st : St} (h : SimG d st) (name : Name) (params : List Param)
    (ds : List Dir) (t : Target) (hw : DirsWF ds t) :
    SimG (d.define name ⟨params, ds, t⟩)
      (st.define name ⟨params, (attach ds (targetBody t)).1, (attach ds (targetBody t)).2⟩) := by
  refine ⟨?_, h.ch, ?_, ?_⟩
  · simp only [DSt.define, St.define, h.glob, h.mlen]
  · simp [DSt.define, St.define, h.mlen]
  · intro i dm m h1 h2
    simp only [DSt.define, St.define] at h1 h2
    by_cases hi : i < d.macros.length
    · rw [List.getElem?_append_left hi] at h1
      rw [List.getElem?_append_left (by rw [← h.mlen]; exact hi)] at h2
      exact h.macros i dm m h1 h2
    · have hi' : d.macros.length ≤ i := Nat.le_of_not_lt hi
      rw [List.getElem?_append_right hi'] at h1
      rw [List.getElem?_append_right (by rw [← h.mlen]; exact hi')] at h2
      rw [h.mlen] at h1
      cases hk : i - st.macros.length with
      | zero =>
        simp only [hk, List.getElem?_cons_zero, Option.some.injEq] at h1 h2
        subst h1 h2
        exact ⟨rfl, hw, rfl, rfl⟩
      | succ k => simp [hk] at h1

end Genshi.Tmpl

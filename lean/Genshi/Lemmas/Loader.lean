/-
  C15 — lemmas about the loader model (`Genshi/Model/Loader.lean`).
-/
import Genshi.Model.Loader
import Genshi.Lemmas.LruAbs
namespace Genshi.Loader
open Genshi.Lru

/-! ### shapes of the results -/

/-- the three ways `instantiate` ends -/
theorem instantiate_cases (cfg : Cfg) (s : LState) (r : Req) (key : Key) (isabs : Bool)
    (loc : Loc) (f : File) (u : Utd) :
    let t : Tmpl := ⟨s.nextObj, loc, f.content, r.cls, r.enc, isabs⟩
    let s1 : LState := { s with nextObj := s.nextObj + 1, parsed := s.nextObj :: s.parsed }
    let s2 : LState := if cfg.hasCallback then { s1 with cbLog := s.nextObj :: s1.cbLog } else s1
    (f.bad = true ∧ instantiate cfg s r key isabs loc f u = (s, .err .syntaxError)) ∨
    (f.bad = false ∧ cfg.hasCallback = true ∧ r.cbRaise = true ∧
      instantiate cfg s r key isabs loc f u = (s2, .err .callback)) ∨
    (f.bad = false ∧ (cfg.hasCallback && r.cbRaise) = false ∧
      instantiate cfg s r key isabs loc f u =
        ({ s2 with cache := (astep s2.cache (.set key t)).1, utd := utdSet s2.utd key u }, .ok t)) := by
  intro t s1 s2
  unfold instantiate
  by_cases hb : f.bad = true
  · left; simp [hb]
  · have hb' : f.bad = false := by simpa using hb
    by_cases hc : (cfg.hasCallback && r.cbRaise) = true
    · right; left
      simp only [Bool.and_eq_true] at hc
      refine ⟨hb', hc.1, hc.2, ?_⟩
      simp [hb', hc.1, hc.2, s2, s1]
    · right; right
      have hc' : (cfg.hasCallback && r.cbRaise) = false := by simpa using hc
      refine ⟨hb', hc', ?_⟩
      simp only [hb', Bool.false_eq_true, ↓reduceIte, hc']
      rfl

/-- `search` either finds nothing, is stopped by a raising load function, or instantiates
    the first file a load function delivers -/
theorem search_cases (cfg : Cfg) (fs : FS) (s : LState) (r : Req) (key : Key) (isabs : Bool)
    (entries : List Entry) :
    search cfg fs s r key isabs entries = (s, .err .notFound) ∨
    search cfg fs s r key isabs entries = (s, .err .loadFunc) ∨
    ∃ e ∈ entries, ∃ loc f u, probe fs r.fault e key = .found loc f u ∧
      search cfg fs s r key isabs entries = instantiate cfg s r key isabs loc f u := by
  induction entries with
  | nil => left; rfl
  | cons e rest ih =>
    unfold search
    cases hp : probe fs r.fault e key with
    | skip =>
      simp only
      rcases ih with h | h | ⟨e', he', loc, f, u, hp', h⟩
      · left; exact h
      · right; left; exact h
      · right; right; exact ⟨e', List.mem_cons_of_mem _ he', loc, f, u, hp', h⟩
    | raise => right; left; rfl
    | found loc f u => right; right; exact ⟨e, by simp, loc, f, u, hp, rfl⟩

/-- a load function that delivers a file delivers the one at its location -/
theorem probe_found {fs : FS} {fault : Fault} {e : Entry} {key : Key} {loc : Loc} {f : File} {u : Utd}
    (h : probe fs fault e key = .found loc f u) :
    locate e key = some loc ∧ fs loc = some f ∧ (u = .never ∨ u = .mtime loc f.mtime) := by
  unfold probe at h
  cases e with
  | dir d b =>
    simp only at h
    cases hl : locate (.dir d b) key with
    | none => simp [hl] at h
    | some l =>
      simp only [hl] at h
      cases hf : fs l with
      | none => simp [hf] at h
      | some f' =>
        simp only [hf, Probe.found.injEq] at h
        obtain ⟨rfl, rfl, rfl⟩ := h
        exact ⟨rfl, hf, Or.inr rfl⟩
  | fn d c =>
    simp only at h
    cases fault with
    | io => simp at h
    | other => simp at h
    | none =>
      simp only at h
      cases hl : locate (.fn d c) key with
      | none => simp [hl] at h
      | some l =>
        simp only [hl] at h
        cases hf : fs l with
        | none => simp [hf] at h
        | some f' =>
          simp only [hf, Probe.found.injEq] at h
          obtain ⟨rfl, rfl, rfl⟩ := h
          refine ⟨rfl, hf, ?_⟩
          cases c <;> simp

/-- the state after the cache lookup: a hit is a use -/
def touched (s : LState) (key : Key) : LState :=
  match alookup key s.cache.items with
  | some _ => { s with cache := (astep s.cache (.get key)).1 }
  | none => s

/-- how `loadBody` ends -/
theorem loadBody_cases (cfg : Cfg) (fs : FS) (s : LState) (r : Req) (key : Key) :
    (∃ t, alookup key s.cache.items = some t ∧
        (cfg.autoReload = false ∨ stillCurrent fs s key = true) ∧
        loadBody cfg fs s r key = (touched s key, .ok t)) ∨
    ((alookup key s.cache.items = none ∨ (cfg.autoReload = true ∧ stillCurrent fs s key = false)) ∧
      ((searchPath cfg r key = none ∧ loadBody cfg fs s r key = (touched s key, .err .noSearchPath)) ∨
       ∃ entries isabs, searchPath cfg r key = some (entries, isabs) ∧
         loadBody cfg fs s r key = search cfg fs (touched s key) r key isabs entries)) := by
  have hsc : ∀ c, stillCurrent fs { s with cache := c } key = stillCurrent fs s key := fun _ => rfl
  unfold loadBody touched
  cases hl : alookup key s.cache.items with
  | none =>
    right
    refine ⟨Or.inl rfl, ?_⟩
    cases hsp : searchPath cfg r key with
    | none => left; simp
    | some p => right; exact ⟨p.1, p.2, rfl, by simp⟩
  | some t =>
    by_cases har : cfg.autoReload = true
    · by_cases hcur : stillCurrent fs s key = true
      · left; refine ⟨t, rfl, Or.inr hcur, ?_⟩
        simp [har, hsc, hcur]
      · have hcur' : stillCurrent fs s key = false := by simpa using hcur
        right
        refine ⟨Or.inr ⟨har, hcur'⟩, ?_⟩
        cases hsp : searchPath cfg r key with
        | none => left; simp [har, hsc, hcur']
        | some p => right; exact ⟨p.1, p.2, rfl, by simp [har, hsc, hcur']⟩
    · have har' : cfg.autoReload = false := by simpa using har
      left; refine ⟨t, rfl, Or.inl har', ?_⟩
      simp [har']

end Genshi.Loader

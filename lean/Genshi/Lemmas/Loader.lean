/-
  C15 — lemmas about the loader model (`Genshi/Model/Loader.lean`).
-/
import Genshi.Model.Loader
import Genshi.Lemmas.LruAbs
namespace Genshi.Loader
open Genshi.Lru

/-! ### shapes of the results -/

/-- the three ways `instantiate` ends -/
theorem instantiate_cases (cfg : Cfg) (s : LState) (r : Req) (key : Key) (isabs : Bool)
    (loc : Loc) (f : File) (u : Utd) :
    let t : Tmpl := ⟨s.nextObj, loc, f.content, r.cls, r.enc, isabs⟩
    let s1 : LState := { s with nextObj := s.nextObj + 1, parsed := s.nextObj :: s.parsed }
    let s2 : LState := if cfg.hasCallback then { s1 with cbLog := s.nextObj :: s1.cbLog } else s1
    (f.bad = true ∧ instantiate cfg s r key isabs loc f u = (s, .err .syntaxError)) ∨
    (f.bad = false ∧ cfg.hasCallback = true ∧ r.cbRaise = true ∧
      instantiate cfg s r key isabs loc f u = (s2, .err .callback)) ∨
    (f.bad = false ∧ (cfg.hasCallback && r.cbRaise) = false ∧
      instantiate cfg s r key isabs loc f u =
        ({ s2 with cache := (astep s2.cache (.set key t)).1, utd := utdSet s2.utd key u }, .ok t)) := by
  intro t s1 s2
  unfold instantiate
  by_cases hb : f.bad = true
  · left; simp [hb]
  · have hb' : f.bad = false := by simpa using hb
    by_cases hc : (cfg.hasCallback && r.cbRaise) = true
    · right; left
      simp only [Bool.and_eq_true] at hc
      refine ⟨hb', hc.1, hc.2, ?_⟩
      simp [hb', hc.1, hc.2, s2, s1]
    · right; right
      have hc' : (cfg.hasCallback && r.cbRaise) = false := by simpa using hc
      refine ⟨hb', hc', ?_⟩
      simp only [hb', Bool.false_eq_true, ↓reduceIte, hc']
      rfl

/-- `search` either finds nothing, is stopped by a raising load function, or instantiates
    the first file a load function delivers -/
theorem search_cases (cfg : Cfg) (fs : FS) (s : LState) (r : Req) (key : Key) (isabs : Bool)
    (entries : List Entry) :
    search cfg fs s r key isabs entries = (s, .err .notFound) ∨
    search cfg fs s r key isabs entries = (s, .err .loadFunc) ∨
    ∃ e ∈ entries, ∃ loc f u, probe fs r.fault e key = .found loc f u ∧
      search cfg fs s r key isabs entries = instantiate cfg s r key isabs loc f u := by
  induction entries with
  | nil => left; rfl
  | cons e rest ih =>
    unfold search
    cases hp : probe fs r.fault e key with
    | skip =>
      simp only
      rcases ih with h | h | ⟨e', he', loc, f, u, hp', h⟩
      · left; exact h
      · right; left; exact h
      · right; right; exact ⟨e', List.mem_cons_of_mem _ he', loc, f, u, hp', h⟩
    | raise => right; left; rfl
    | found loc f u => right; right; exact ⟨e, by simp, loc, f, u, hp, rfl⟩

/-- a load function that delivers a file delivers the one at its location -/
theorem probe_found {fs : FS} {fault : Fault} {e : Entry} {key : Key} {loc : Loc} {f : File} {u : Utd}
    (h : probe fs fault e key = .found loc f u) :
    locate e key = some loc ∧ fs loc = some f ∧ (u = .never ∨ u = .mtime loc f.mtime) := by
  unfold probe at h
  cases e with
  | dir d b =>
    simp only at h
    cases hl : locate (.dir d b) key with
    | none => simp [hl] at h
    | some l =>
      simp only [hl] at h
      cases hf : fs l with
      | none => simp [hf] at h
      | some f' =>
        simp only [hf, Probe.found.injEq] at h
        obtain ⟨rfl, rfl, rfl⟩ := h
        exact ⟨rfl, hf, Or.inr rfl⟩
  | fn d c =>
    simp only at h
    cases fault with
    | io => simp at h
    | other => simp at h
    | none =>
      simp only at h
      cases hl : locate (.fn d c) key with
      | none => simp [hl] at h
      | some l =>
        simp only [hl] at h
        cases hf : fs l with
        | none => simp [hf] at h
        | some f' =>
          simp only [hf, Probe.found.injEq] at h
          obtain ⟨rfl, rfl, rfl⟩ := h
          refine ⟨rfl, hf, ?_⟩
          cases c <;> simp

/-- the state after the cache lookup: a hit is a use -/
def touched (s : LState) (key : Key) : LState :=
  match alookup key s.cache.items with
  | some _ => { s with cache := (astep s.cache (.get key)).1 }
  | none => s

/-- how `loadBody` ends -/
theorem loadBody_cases (cfg : Cfg) (fs : FS) (s : LState) (r : Req) (key : Key) :
    (∃ t, alookup key s.cache.items = some t ∧
        (cfg.autoReload = false ∨ stillCurrent fs s key = true) ∧
        loadBody cfg fs s r key = (touched s key, .ok t)) ∨
    ((alookup key s.cache.items = none ∨ (cfg.autoReload = true ∧ stillCurrent fs s key = false)) ∧
      ((searchPath cfg r key = none ∧ loadBody cfg fs s r key = (touched s key, .err .noSearchPath)) ∨
       ∃ entries isabs, searchPath cfg r key = some (entries, isabs) ∧
         loadBody cfg fs s r key = search cfg fs (touched s key) r key isabs entries)) := by
  have hsc : ∀ c, stillCurrent fs { s with cache := c } key = stillCurrent fs s key := fun _ => rfl
  unfold loadBody touched
  cases hl : alookup key s.cache.items with
  | none =>
    right
    refine ⟨Or.inl rfl, ?_⟩
    cases hsp : searchPath cfg r key with
    | none => left; simp
    | some p => right; exact ⟨p.1, p.2, rfl, by simp⟩
  | some t =>
    by_cases har : cfg.autoReload = true
    · by_cases hcur : stillCurrent fs s key = true
      · left; refine ⟨t, rfl, Or.inr hcur, ?_⟩
        simp [har, hsc, hcur]
      · have hcur' : stillCurrent fs s key = false := by simpa using hcur
        right
        refine ⟨Or.inr ⟨har, hcur'⟩, ?_⟩
        cases hsp : searchPath cfg r key with
        | none => left; simp [har, hsc, hcur']
        | some p => right; exact ⟨p.1, p.2, rfl, by simp [har, hsc, hcur']⟩
    · have har' : cfg.autoReload = false := by simpa using har
      left; refine ⟨t, rfl, Or.inl har', ?_⟩
      simp [har']


/-! ### what a load leaves alone -/

/-- everything but the cache -/
theorem touched_fields (s : LState) (key : Key) :
    (touched s key).utd = s.utd ∧ (touched s key).nextObj = s.nextObj ∧
    (touched s key).cbLog = s.cbLog ∧ (touched s key).parsed = s.parsed ∧
    (touched s key).lock = s.lock := by
  unfold touched; split <;> simp

/-- summary of one `loadBody`: the possible effects, by outcome -/
structure Effect (cfg : Cfg) (s s' : LState) (key : Key) (res : Res) : Prop where
  lock : s'.lock = s.lock
  /-- nothing parsed: counters and logs unchanged; or exactly one template parsed, the
      callback (if configured) called with it once -/
  counters :
    (s'.nextObj = s.nextObj ∧ s'.parsed = s.parsed ∧ s'.cbLog = s.cbLog) ∨
    (s'.nextObj = s.nextObj + 1 ∧ s'.parsed = s.nextObj :: s.parsed ∧
      s'.cbLog = if cfg.hasCallback then s.nextObj :: s.cbLog else s.cbLog)
  /-- a failed load: cache (apart from the use mark of the lookup) and `_uptodate` unchanged -/
  failed : ∀ e, res = .err e → s'.cache = (touched s key).cache ∧ s'.utd = s.utd
  /-- a served or stored template: either served from the cache, nothing parsed, nothing
      stored; or parsed now and stored under the key -/
  ok : ∀ t, res = .ok t →
    (alookup key s.cache.items = some t ∧ s'.cache = (touched s key).cache ∧ s'.utd = s.utd ∧
      s'.nextObj = s.nextObj) ∨
    (t.obj = s.nextObj ∧ s'.nextObj = s.nextObj + 1 ∧
      s'.cache = (astep (touched s key).cache (.set key t)).1 ∧ ∃ u, s'.utd = utdSet s.utd key u)

theorem instantiate_effect (cfg : Cfg) (s0 s : LState) (r : Req) (key : Key) (isabs : Bool)
    (loc : Loc) (f : File) (u : Utd) (hs : s = touched s0 key) :
    Effect cfg s0 (instantiate cfg s r key isabs loc f u).1 key
      (instantiate cfg s r key isabs loc f u).2 := by
  obtain ⟨hu, hn, hc, hp, hl⟩ := touched_fields s0 key
  rw [← hs] at hu hn hc hp hl
  rcases instantiate_cases cfg s r key isabs loc f u with ⟨_, h⟩ | ⟨_, hcb, _, h⟩ | ⟨_, _, h⟩
  · rw [h]
    exact ⟨hl, Or.inl ⟨hn, hp, hc⟩, fun _ _ => ⟨by rw [hs], hu⟩, fun t ht => by simp at ht⟩
  · rw [h]
    refine ⟨by simp [hcb, hl], Or.inr ⟨by simp [hcb, hn], by simp [hcb, hn, hp], by simp [hcb, hn, hc]⟩,
      fun _ _ => ⟨by simp [hcb, hs], by simp [hcb, hu]⟩, fun t ht => by simp at ht⟩
  · rw [h]
    refine ⟨?_, Or.inr ⟨?_, ?_, ?_⟩, fun e he => by simp at he, ?_⟩
    · cases cfg.hasCallback <;> simp [hl]
    · cases cfg.hasCallback <;> simp [hn]
    · cases cfg.hasCallback <;> simp [hn, hp]
    · cases cfg.hasCallback <;> simp [hn, hc]
    · intro t ht
      simp only [Res.ok.injEq] at ht
      right
      subst ht
      refine ⟨hn, ?_, ?_, u, ?_⟩
      · cases cfg.hasCallback <;> simp [hn]
      · cases cfg.hasCallback <;> simp [hs]
      · cases cfg.hasCallback <;> simp [hu]

theorem search_effect (cfg : Cfg) (fs : FS) (s0 s : LState) (r : Req) (key : Key) (isabs : Bool)
    (entries : List Entry) (hs : s = touched s0 key) :
    Effect cfg s0 (search cfg fs s r key isabs entries).1 key (search cfg fs s r key isabs entries).2 := by
  obtain ⟨hu, hn, hc, hp, hl⟩ := touched_fields s0 key
  rw [← hs] at hu hn hc hp hl
  rcases search_cases cfg fs s r key isabs entries with h | h | ⟨_, _, loc, f, u, _, h⟩
  · rw [h]
    exact ⟨hl, Or.inl ⟨hn, hp, hc⟩, fun _ _ => ⟨by rw [hs], hu⟩, fun t ht => by simp at ht⟩
  · rw [h]
    exact ⟨hl, Or.inl ⟨hn, hp, hc⟩, fun _ _ => ⟨by rw [hs], hu⟩, fun t ht => by simp at ht⟩
  · rw [h]; exact instantiate_effect cfg s0 s r key isabs loc f u hs

theorem loadBody_effect (cfg : Cfg) (fs : FS) (s : LState) (r : Req) (key : Key) :
    Effect cfg s (loadBody cfg fs s r key).1 key (loadBody cfg fs s r key).2 := by
  obtain ⟨hu, hn, hc, hp, hl⟩ := touched_fields s key
  rcases loadBody_cases cfg fs s r key with ⟨t, hlook, _, h⟩ | ⟨_, ⟨_, h⟩ | ⟨entries, isabs, _, h⟩⟩
  · rw [h]
    refine ⟨hl, Or.inl ⟨hn, hp, hc⟩, fun e he => by simp at he, ?_⟩
    intro t' ht'
    simp only [Res.ok.injEq] at ht'
    subst ht'
    exact Or.inl ⟨hlook, rfl, hu, hn⟩
  · rw [h]
    exact ⟨hl, Or.inl ⟨hn, hp, hc⟩, fun _ _ => ⟨rfl, hu⟩, fun t ht => by simp at ht⟩
  · rw [h]; exact search_effect cfg fs s (touched s key) r key isabs entries rfl

/-- the same for `load`, which brackets the body with acquire / release -/
theorem load_effect {cfg : Cfg} {fs : FS} {s s' : LState} {r : Req} {res : Res}
    (h : load cfg fs s r = some (s', res)) :
    ∃ key, resolve cfg.path.isEmpty r = some key ∧ Effect cfg s s' key res := by
  unfold load at h
  cases hk : resolve cfg.path.isEmpty r with
  | none => simp [hk] at h
  | some key =>
    simp only [hk, Option.some.injEq, Prod.mk.injEq] at h
    obtain ⟨h1, h2⟩ := h
    have he := loadBody_effect cfg fs { s with lock := s.lock + 1 } r key
    rw [h2] at he
    refine ⟨key, rfl, ?_⟩
    obtain ⟨el, ec, ef, eo⟩ := he
    have ht : touched { s with lock := s.lock + 1 } key = { touched s key with lock := s.lock + 1 } := by
      cases hh : alookup key s.cache.items <;> simp [touched, hh]
    subst h1
    refine ⟨?_, ?_, ?_, ?_⟩
    · simp [el]
    · simpa using ec
    · intro e he; have := ef e he; rw [ht] at this; simpa using this
    · intro t htt; have := eo t htt; rw [ht] at this; simpa using this


/-! ### served from the cache -/

theorem loadBody_served {cfg : Cfg} {fs : FS} {s : LState} {r : Req} {key : Key} {t : Tmpl}
    (hl : alookup key s.cache.items = some t)
    (hc : cfg.autoReload = false ∨ stillCurrent fs s key = true) :
    loadBody cfg fs s r key = (touched s key, .ok t) := by
  rcases loadBody_cases cfg fs s r key with ⟨t', hl', _, h⟩ | ⟨hno, _⟩
  · rw [hl] at hl'; cases hl'; exact h
  · rcases hno with hno | ⟨har, hsc⟩
    · rw [hl] at hno; cases hno
    · rcases hc with hc | hc
      · rw [har] at hc; cases hc
      · rw [hsc] at hc; cases hc

theorem load_served {cfg : Cfg} {fs : FS} {s : LState} {r : Req} {key : Key} {t : Tmpl}
    (hk : resolve cfg.path.isEmpty r = some key)
    (hl : alookup key s.cache.items = some t)
    (hc : cfg.autoReload = false ∨ stillCurrent fs s key = true) :
    load cfg fs s r = some (touched s key, .ok t) := by
  have hl' : alookup key ({ s with lock := s.lock + 1 } : LState).cache.items = some t := hl
  have hc' : cfg.autoReload = false ∨ stillCurrent fs { s with lock := s.lock + 1 } key = true := hc
  have ht : touched { s with lock := s.lock + 1 } key = { touched s key with lock := s.lock + 1 } := by
    cases hh : alookup key s.cache.items <;> simp [touched, hh]
  unfold load
  simp only [hk, loadBody_served hl' hc', ht]
  have := (touched_fields s key).2.2.2.2
  congr 2
  cases hh : alookup key s.cache.items <;> simp [touched, hh]

/-! ### found first on the search path -/

theorem probe_nofault (fs : FS) (e : Entry) (key : Key) :
    (∃ loc f u, locate e key = some loc ∧ fs loc = some f ∧ probe fs .none e key = .found loc f u) ∨
    ((locate e key = none ∨ ∃ loc, locate e key = some loc ∧ fs loc = none) ∧
      probe fs .none e key = .skip) := by
  unfold probe
  cases e with
  | dir d b =>
    simp only
    cases hl : locate (.dir d b) key with
    | none => right; exact ⟨Or.inl rfl, rfl⟩
    | some l =>
      cases hf : fs l with
      | none => right; exact ⟨Or.inr ⟨l, rfl, hf⟩, by simp [hf]⟩
      | some f => left; exact ⟨l, f, .mtime l f.mtime, rfl, hf, by simp [hf]⟩
  | fn d c =>
    simp only
    cases hl : locate (.fn d c) key with
    | none => right; exact ⟨Or.inl rfl, rfl⟩
    | some l =>
      cases hf : fs l with
      | none => right; exact ⟨Or.inr ⟨l, rfl, hf⟩, by simp [hf]⟩
      | some f => left; exact ⟨l, f, if c then .mtime l f.mtime else .never, rfl, hf, by simp [hf]⟩

/-- without load-function faults the search loop instantiates exactly the file that the
    specification `firstOnPath` designates -/
theorem search_first (cfg : Cfg) (fs : FS) (s : LState) (r : Req) (key : Key) (isabs : Bool)
    (hf : r.fault = .none) (entries : List Entry) :
    match firstOnPath fs key entries with
    | none => search cfg fs s r key isabs entries = (s, .err .notFound)
    | some (loc, f) => ∃ u, search cfg fs s r key isabs entries = instantiate cfg s r key isabs loc f u := by
  induction entries with
  | nil => simp [firstOnPath, search]
  | cons e rest ih =>
    unfold firstOnPath search
    rw [hf]
    rcases probe_nofault fs e key with ⟨loc, f, u, hl, hfs, hp⟩ | ⟨hno, hp⟩
    · simp only [hl, hfs, hp]; exact ⟨u, rfl⟩
    · rw [hp]
      rcases hno with hl | ⟨loc, hl, hfs⟩
      · simp only [hl]; exact ih
      · simp only [hl, hfs]; exact ih

/-- a load that parses returns the template of the file found first on the search path,
    with its current content -/
theorem load_parses_first {cfg : Cfg} {fs : FS} {s s' : LState} {r : Req} {t : Tmpl}
    (h : load cfg fs s r = some (s', .ok t)) (hparsed : s'.nextObj = s.nextObj + 1)
    (hf : r.fault = .none) :
    ∃ key entries isabs f, resolve cfg.path.isEmpty r = some key ∧
      searchPath cfg r key = some (entries, isabs) ∧
      firstOnPath fs key entries = some (t.loc, f) ∧ f.bad = false ∧
      t = ⟨s.nextObj, t.loc, f.content, r.cls, r.enc, isabs⟩ := by
  unfold load at h
  cases hk : resolve cfg.path.isEmpty r with
  | none => simp [hk] at h
  | some key =>
    simp only [hk, Option.some.injEq, Prod.mk.injEq] at h
    obtain ⟨h1, h2⟩ := h
    let s0 : LState := { s with lock := s.lock + 1 }
    have hn0 : (touched s0 key).nextObj = s.nextObj := (touched_fields s0 key).2.1
    rcases loadBody_cases cfg fs s0 r key with ⟨t', _, _, hb⟩ | ⟨_, ⟨_, hb⟩ | ⟨entries, isabs, hsp, hb⟩⟩
    · rw [hb] at h1
      subst h1
      simp only at hparsed
      rw [hn0] at hparsed
      omega
    · rw [hb] at h2; simp at h2
    · have hsf := search_first cfg fs (touched s0 key) r key isabs hf entries
      cases hfp : firstOnPath fs key entries with
      | none =>
        rw [hfp] at hsf
        rw [hb, hsf] at h2; simp at h2
      | some p =>
        obtain ⟨loc, f⟩ := p
        rw [hfp] at hsf
        obtain ⟨u, hsf⟩ := hsf
        rw [hb, hsf] at h2
        rcases instantiate_cases cfg (touched s0 key) r key isabs loc f u with ⟨_, hi⟩ | ⟨_, _, _, hi⟩ | ⟨hbad, _, hi⟩
        · rw [hi] at h2; simp at h2
        · rw [hi] at h2; simp at h2
        · rw [hi] at h2
          simp only [Res.ok.injEq] at h2
          subst h2
          rw [hn0]
          exact ⟨key, entries, isabs, f, rfl, hsp, hfp, hbad, rfl⟩


/-- the search loop against the specification with faults: whatever the load functions do
    during this call, the loop ends the way `firstOnPathF` says -/
theorem search_firstF (cfg : Cfg) (fs : FS) (s : LState) (r : Req) (key : Key) (isabs : Bool)
    (entries : List Entry) :
    match firstOnPathF fs r.fault key entries with
    | .nothing => search cfg fs s r key isabs entries = (s, .err .notFound)
    | .raised => search cfg fs s r key isabs entries = (s, .err .loadFunc)
    | .file loc f => ∃ u, search cfg fs s r key isabs entries = instantiate cfg s r key isabs loc f u := by
  induction entries with
  | nil => simp [firstOnPathF, search]
  | cons e rest ih =>
    unfold firstOnPathF search
    cases e with
    | dir d b =>
      have hpr : probe fs r.fault (.dir d b) key = probe fs .none (.dir d b) key := by
        unfold probe; rfl
      rw [hpr]
      simp only
      rcases probe_nofault fs (.dir d b) key with ⟨loc, f, u, hl, hfs, hp⟩ | ⟨hno, hp⟩
      · simp only [hl, hfs, hp]; exact ⟨u, rfl⟩
      · rw [hp]
        rcases hno with hl | ⟨loc, hl, hfs⟩
        · simp only [hl]; exact ih
        · simp only [hl, hfs]; exact ih
    | fn d c =>
      cases hfault : r.fault with
      | io =>
        have hp : probe fs .io (.fn d c) key = .skip := rfl
        simp only [hp]
        rw [hfault] at ih; exact ih
      | other =>
        have hp : probe fs .other (.fn d c) key = .raise := rfl
        simp only [hp]
      | none =>
        simp only
        rw [hfault] at ih
        rcases probe_nofault fs (.fn d c) key with ⟨loc, f, u, hl, hfs, hp⟩ | ⟨hno, hp⟩
        · simp only [hl, hfs, hp]; exact ⟨u, rfl⟩
        · rw [hp]
          rcases hno with hl | ⟨loc, hl, hfs⟩
          · simp only [hl]; exact ih
          · simp only [hl, hfs]; exact ih

/-- a load that is not answered from the cache ends as the walk over the search path says,
    load-function faults included -/
theorem load_by_firstF {cfg : Cfg} {fs : FS} {s s' : LState} {r : Req} {res : Res} {key : Key}
    (hk : resolve cfg.path.isEmpty r = some key)
    (hno : alookup key s.cache.items = none ∨ (cfg.autoReload = true ∧ stillCurrent fs s key = false))
    (h : load cfg fs s r = some (s', res)) :
    (searchPath cfg r key = none ∧ res = .err .noSearchPath) ∨
    ∃ entries isabs, searchPath cfg r key = some (entries, isabs) ∧
      match firstOnPathF fs r.fault key entries with
      | .nothing => res = .err .notFound
      | .raised => res = .err .loadFunc
      | .file loc f =>
        (f.bad = true ∧ res = .err .syntaxError) ∨
        (f.bad = false ∧ cfg.hasCallback = true ∧ r.cbRaise = true ∧ res = .err .callback) ∨
        (f.bad = false ∧ res = .ok ⟨s.nextObj, loc, f.content, r.cls, r.enc, isabs⟩) := by
  unfold load at h
  simp only [hk, Option.some.injEq, Prod.mk.injEq] at h
  obtain ⟨_, h2⟩ := h
  let s0 : LState := { s with lock := s.lock + 1 }
  have hn0 : (touched s0 key).nextObj = s.nextObj := (touched_fields s0 key).2.1
  rcases loadBody_cases cfg fs s0 r key with ⟨t', hl, hc, _⟩ | ⟨_, ⟨hsp, hb⟩ | ⟨entries, isabs, hsp, hb⟩⟩
  · exfalso
    rcases hno with hno | ⟨har, hcur⟩
    · have : alookup key s0.cache.items = none := hno
      rw [this] at hl; cases hl
    · rcases hc with hc | hc
      · rw [har] at hc; cases hc
      · have : stillCurrent fs s0 key = false := hcur
        rw [this] at hc; cases hc
  · left; rw [hb] at h2; exact ⟨hsp, h2.symm⟩
  · right
    refine ⟨entries, isabs, hsp, ?_⟩
    have hsf := search_firstF cfg fs (touched s0 key) r key isabs entries
    rw [hb] at h2
    cases hfp : firstOnPathF fs r.fault key entries with
    | nothing => rw [hfp] at hsf; simp only at hsf ⊢; rw [hsf] at h2; exact h2.symm
    | raised => rw [hfp] at hsf; simp only at hsf ⊢; rw [hsf] at h2; exact h2.symm
    | file loc f =>
      rw [hfp] at hsf
      simp only at hsf ⊢
      obtain ⟨u, hsf⟩ := hsf
      rw [hsf] at h2
      rcases instantiate_cases cfg (touched s0 key) r key isabs loc f u with ⟨hbad, hi⟩ | ⟨hbad, hcb, hr, hi⟩ | ⟨hbad, _, hi⟩
      · rw [hi] at h2; exact Or.inl ⟨hbad, h2.symm⟩
      · rw [hi] at h2; exact Or.inr (Or.inl ⟨hbad, hcb, hr, h2.symm⟩)
      · rw [hi] at h2
        refine Or.inr (Or.inr ⟨hbad, ?_⟩)
        rw [← h2, hn0]

/-! ### a successful load, in detail -/

theorem loadBody_ok {cfg : Cfg} {fs : FS} {s s' : LState} {r : Req} {key : Key} {t : Tmpl}
    (h : loadBody cfg fs s r key = (s', .ok t)) :
    (alookup key s.cache.items = some t ∧ (cfg.autoReload = false ∨ stillCurrent fs s key = true) ∧
      s' = touched s key) ∨
    (∃ loc f u, fs loc = some f ∧ f.bad = false ∧ (u = .never ∨ u = .mtime loc f.mtime) ∧
      t.obj = s.nextObj ∧ t.loc = loc ∧ t.content = f.content ∧
      s'.cache = (astep (touched s key).cache (.set key t)).1 ∧ s'.utd = utdSet s.utd key u ∧
      s'.nextObj = s.nextObj + 1) := by
  obtain ⟨hu, hn, _, _, _⟩ := touched_fields s key
  rcases loadBody_cases cfg fs s r key with ⟨t', hl, hc, hb⟩ | ⟨_, ⟨_, hb⟩ | ⟨entries, isabs, _, hb⟩⟩
  · rw [hb] at h
    simp only [Prod.mk.injEq, Res.ok.injEq] at h
    obtain ⟨rfl, rfl⟩ := h
    exact Or.inl ⟨hl, hc, rfl⟩
  · rw [hb] at h; simp at h
  · rw [hb] at h
    rcases search_cases cfg fs (touched s key) r key isabs entries with hs | hs | ⟨e, _, loc, f, u, hp, hs⟩
    · rw [hs] at h; simp at h
    · rw [hs] at h; simp at h
    · rw [hs] at h
      obtain ⟨_, hfs, hu'⟩ := probe_found hp
      rcases instantiate_cases cfg (touched s key) r key isabs loc f u with ⟨_, hi⟩ | ⟨_, _, _, hi⟩ | ⟨hbad, _, hi⟩
      · rw [hi] at h; simp at h
      · rw [hi] at h; simp at h
      · rw [hi] at h
        simp only [Prod.mk.injEq, Res.ok.injEq] at h
        obtain ⟨rfl, rfl⟩ := h
        right
        refine ⟨loc, f, u, hfs, hbad, hu', hn, rfl, rfl, ?_, ?_, ?_⟩
        · cases cfg.hasCallback <;> rfl
        · cases cfg.hasCallback <;> simp [hu]
        · cases cfg.hasCallback <;> simp [hn]

theorem load_ok {cfg : Cfg} {fs : FS} {s s' : LState} {r : Req} {t : Tmpl}
    (h : load cfg fs s r = some (s', .ok t)) :
    ∃ key, resolve cfg.path.isEmpty r = some key ∧
    ((alookup key s.cache.items = some t ∧ (cfg.autoReload = false ∨ stillCurrent fs s key = true) ∧
      s' = touched s key) ∨
    (∃ loc f u, fs loc = some f ∧ f.bad = false ∧ (u = .never ∨ u = .mtime loc f.mtime) ∧
      t.obj = s.nextObj ∧ t.loc = loc ∧ t.content = f.content ∧
      s'.cache = (astep (touched s key).cache (.set key t)).1 ∧ s'.utd = utdSet s.utd key u ∧
      s'.nextObj = s.nextObj + 1)) := by
  unfold load at h
  cases hk : resolve cfg.path.isEmpty r with
  | none => simp [hk] at h
  | some key =>
    simp only [hk, Option.some.injEq, Prod.mk.injEq] at h
    obtain ⟨h1, h2⟩ := h
    refine ⟨key, rfl, ?_⟩
    have ht : touched { s with lock := s.lock + 1 } key = { touched s key with lock := s.lock + 1 } := by
      cases hh : alookup key s.cache.items <;> simp [touched, hh]
    have hb : loadBody cfg fs { s with lock := s.lock + 1 } r key =
        ((loadBody cfg fs { s with lock := s.lock + 1 } r key).1, .ok t) := by rw [← h2]
    rcases loadBody_ok hb with ⟨hl, hc, hs⟩ | ⟨loc, f, u, h3, h4, h5, h6, h7, h8, h9, h10, h11⟩
    · left
      refine ⟨hl, hc, ?_⟩
      rw [← h1, hs, ht]
      have := (touched_fields s key).2.2.2.2
      cases hh : alookup key s.cache.items <;> simp [touched, hh]
    · right
      refine ⟨loc, f, u, h3, h4, h5, h6, h7, h8, ?_, ?_, ?_⟩
      · rw [← h1]; simp only; rw [h9, ht]
      · rw [← h1]; exact h10
      · rw [← h1]; exact h11

/-! ### membership in the cache after a lookup / a store -/

theorem alookup_mem {K V : Type} [DecidableEq K] {l : List (K × V)} {k : K} {v : V}
    (h : alookup k l = some v) : (k, v) ∈ l := by
  induction l with
  | nil => simp [alookup] at h
  | cons p r ih =>
    obtain ⟨k', v'⟩ := p
    by_cases hk : k' = k
    · subst hk; simp [alookup] at h; subst h; simp
    · simp only [alookup, hk, ↓reduceIte] at h
      exact List.mem_cons_of_mem _ (ih h)

theorem mem_aerase {K V : Type} [DecidableEq K] {l : List (K × V)} {k : K} {p : K × V}
    (h : p ∈ aerase k l) : p ∈ l ∧ p.1 ≠ k := by
  simpa [aerase, List.mem_filter] using h

theorem mem_touched {s : LState} {key : Key} {p : Key × Tmpl} (h : p ∈ (touched s key).cache.items) :
    p ∈ s.cache.items := by
  unfold touched at h
  cases hl : alookup key s.cache.items with
  | none => simpa [hl] using h
  | some v =>
    simp only [hl, astep] at h
    rcases List.mem_cons.mp h with rfl | h
    · exact alookup_mem hl
    · exact (mem_aerase h).1

theorem mem_aset {K V : Type} [DecidableEq K] {a : ALru K V} {k : K} {v : V} {p : K × V}
    (h : p ∈ (astep a (.set k v)).1.items) : p = (k, v) ∨ (p ∈ a.items ∧ p.1 ≠ k) := by
  simp only [astep] at h
  rcases List.mem_cons.mp (List.mem_of_mem_take h) with rfl | h
  · exact Or.inl rfl
  · exact Or.inr (mem_aerase h)

theorem touched_awf {s : LState} (key : Key) (h : AWf s.cache) :
    AWf (touched s key).cache ∧ (touched s key).cache.cap = s.cache.cap := by
  unfold touched
  cases hl : alookup key s.cache.items with
  | none => exact ⟨h, rfl⟩
  | some v => exact astep_awf h (.get key)


/-! ### the invariant of histories -/

/-- every modification gets a new mtime (logical clock); every cached template whose
    up-to-date check is an mtime comparison was parsed from the content its file had at that
    mtime; the cache is a bounded LRU map of distinct keys; object identities are fresh; the
    lock is free between calls -/
structure Inv (w : World) : Prop where
  mtimes : ∀ loc f, w.fs loc = some f → f.mtime < w.clock
  coherent : ∀ k t, (k, t) ∈ w.ls.cache.items → ∀ loc m, w.ls.utd k = some (.mtime loc m) →
      loc = t.loc ∧ m < w.clock ∧ ∀ f, w.fs loc = some f → f.mtime = m → f.content = t.content
  awf : AWf w.ls.cache
  objs : ∀ k t, (k, t) ∈ w.ls.cache.items → t.obj < w.ls.nextObj
  parsedOld : ∀ o ∈ w.ls.parsed, o < w.ls.nextObj
  lock : w.ls.lock = 0

theorem inv_init (cap : Nat) : Inv (World.init cap) :=
  ⟨by simp [World.init], by simp [World.init, LState.init, aempty], aempty_awf cap,
   by simp [World.init, LState.init, aempty], by simp [World.init, LState.init], rfl⟩

theorem effect_parsedOld {cfg : Cfg} {s s' : LState} {key : Key} {res : Res}
    (he : Effect cfg s s' key res) (h : ∀ o ∈ s.parsed, o < s.nextObj) :
    (∀ o ∈ s'.parsed, o < s'.nextObj) ∧ s.nextObj ≤ s'.nextObj := by
  rcases he.counters with ⟨h1, h2, _⟩ | ⟨h1, h2, _⟩
  · rw [h1, h2]; exact ⟨h, Nat.le_refl _⟩
  · rw [h1, h2]
    refine ⟨?_, Nat.le_succ _⟩
    intro o ho
    rcases List.mem_cons.mp ho with rfl | ho
    · exact Nat.lt_succ_self _
    · exact Nat.lt_succ_of_lt (h o ho)

theorem inv_load {cfg : Cfg} {w : World} {r : Req} {ls' : LState} {res : Res}
    (hi : Inv w) (h : load cfg w.fs w.ls r = some (ls', res)) : Inv { w with ls := ls' } := by
  obtain ⟨key, hk, he⟩ := load_effect h
  obtain ⟨hpo, hmono⟩ := effect_parsedOld he hi.parsedOld
  have hlock : ls'.lock = 0 := by rw [he.lock, hi.lock]
  -- the cache is the looked-up one, or the looked-up one with the new template stored
  have hcases : (ls'.cache = (touched w.ls key).cache ∧ ls'.utd = w.ls.utd) ∨
      (∃ t loc f u, res = .ok t ∧ w.fs loc = some f ∧ (u = .never ∨ u = .mtime loc f.mtime) ∧
        t.obj = w.ls.nextObj ∧ t.loc = loc ∧ t.content = f.content ∧
        ls'.cache = (astep (touched w.ls key).cache (.set key t)).1 ∧ ls'.utd = utdSet w.ls.utd key u ∧
        ls'.nextObj = w.ls.nextObj + 1) := by
    cases res with
    | err e => exact Or.inl (he.failed e rfl)
    | ok t =>
      obtain ⟨key', hk', hok⟩ := load_ok h
      rw [hk] at hk'; cases hk'
      rcases hok with ⟨_, _, hs⟩ | ⟨loc, f, u, h3, _, h5, h6, h7, h8, h9, h10, h11⟩
      · left; rw [hs]; exact ⟨rfl, (touched_fields w.ls key).1⟩
      · right; exact ⟨t, loc, f, u, rfl, h3, h5, h6, h7, h8, h9, h10, h11⟩
  rcases hcases with ⟨hc, hu⟩ | ⟨t, loc, f, u, _, hfs, hu', hobj, hloc, hcont, hc, hu, hn⟩
  · refine ⟨hi.mtimes, ?_, ?_, ?_, hpo, hlock⟩
    · intro k t hm loc m hutd
      simp only at hm hutd
      rw [hc] at hm; rw [hu] at hutd
      exact hi.coherent k t (mem_touched hm) loc m hutd
    · show AWf ls'.cache
      rw [hc]; exact (touched_awf key hi.awf).1
    · intro k t hm
      simp only at hm
      rw [hc] at hm
      exact Nat.lt_of_lt_of_le (hi.objs k t (mem_touched hm)) hmono
  · refine ⟨hi.mtimes, ?_, ?_, ?_, hpo, hlock⟩
    · intro k t' hm loc' m hutd
      simp only at hm hutd
      rw [hc] at hm; rw [hu] at hutd
      rcases mem_aset hm with heq | ⟨hm', hne⟩
      · simp only [Prod.mk.injEq] at heq
        obtain ⟨rfl, rfl⟩ := heq
        simp only [utdSet, ↓reduceIte, Option.some.injEq] at hutd
        rcases hu' with rfl | rfl
        · cases hutd
        · simp only [Utd.mtime.injEq] at hutd
          obtain ⟨rfl, rfl⟩ := hutd
          refine ⟨hloc.symm, hi.mtimes loc f hfs, ?_⟩
          intro f' hf' _
          rw [hfs] at hf'; cases hf'; exact hcont.symm
      · have hne' : k ≠ key := hne
        simp only [utdSet, hne', ↓reduceIte] at hutd
        exact hi.coherent k t' (mem_touched hm') loc' m hutd
    · show AWf ls'.cache
      rw [hc]; exact (astep_awf (touched_awf key hi.awf).1 _).1
    · intro k t' hm
      simp only at hm
      rw [hc] at hm
      rw [hn]
      rcases mem_aset hm with heq | ⟨hm', _⟩
      · simp only [Prod.mk.injEq] at heq
        obtain ⟨_, rfl⟩ := heq
        rw [hobj]; exact Nat.lt_succ_self _
      · exact Nat.lt_succ_of_lt (hi.objs k t' (mem_touched hm'))

theorem inv_hstep {cfg : Cfg} {w : World} (hi : Inv w) (op : HOp) : Inv (hstep cfg w op).1 := by
  cases op with
  | write loc c b =>
    refine ⟨?_, ?_, hi.awf, hi.objs, hi.parsedOld, hi.lock⟩
    · intro l f hf
      simp only [hstep, fsSet] at hf ⊢
      split at hf
      · cases hf; exact Nat.lt_succ_self _
      · exact Nat.lt_succ_of_lt (hi.mtimes l f hf)
    · intro k t hm l m hutd
      obtain ⟨h1, h2, h3⟩ := hi.coherent k t hm l m hutd
      refine ⟨h1, Nat.lt_succ_of_lt h2, ?_⟩
      intro f hf hfm
      simp only [hstep, fsSet] at hf
      split at hf
      · cases hf; simp only at hfm; omega
      · exact h3 f hf hfm
  | touch loc =>
    simp only [hstep]
    cases hfl : w.fs loc with
    | none => exact hi
    | some f0 =>
      refine ⟨?_, ?_, hi.awf, hi.objs, hi.parsedOld, hi.lock⟩
      · intro l f hf
        simp only [fsSet] at hf ⊢
        split at hf
        · cases hf; exact Nat.lt_succ_self _
        · exact Nat.lt_succ_of_lt (hi.mtimes l f hf)
      · intro k t hm l m hutd
        obtain ⟨h1, h2, h3⟩ := hi.coherent k t hm l m hutd
        refine ⟨h1, Nat.lt_succ_of_lt h2, ?_⟩
        intro f hf hfm
        simp only [fsSet] at hf
        split at hf
        · cases hf; simp only at hfm; omega
        · exact h3 f hf hfm
  | delete loc =>
    refine ⟨?_, ?_, hi.awf, hi.objs, hi.parsedOld, hi.lock⟩
    · intro l f hf
      simp only [hstep, fsSet] at hf ⊢
      split at hf
      · cases hf
      · exact hi.mtimes l f hf
    · intro k t hm l m hutd
      obtain ⟨h1, h2, h3⟩ := hi.coherent k t hm l m hutd
      refine ⟨h1, h2, ?_⟩
      intro f hf hfm
      simp only [hstep, fsSet] at hf
      split at hf
      · cases hf
      · exact h3 f hf hfm
  | load r =>
    simp only [hstep]
    cases hl : load cfg w.fs w.ls r with
    | none => exact hi
    | some p => exact inv_load hi hl

theorem inv_hrun {cfg : Cfg} {w : World} (hi : Inv w) (ops : List HOp) : Inv (hrun cfg w ops).1 := by
  induction ops generalizing w with
  | nil => exact hi
  | cons op ops ih => simp only [hrun]; exact ih (inv_hstep hi op)

/-- with automatic reloading, a returned template has the current content of the file it
    came from -/
theorem load_current {cfg : Cfg} {w : World} {r : Req} {ls' : LState} {t : Tmpl}
    (hi : Inv w) (har : cfg.autoReload = true) (h : load cfg w.fs w.ls r = some (ls', .ok t)) :
    ∃ f, w.fs t.loc = some f ∧ f.content = t.content := by
  obtain ⟨key, _, hok⟩ := load_ok h
  rcases hok with ⟨hl, hc, _⟩ | ⟨loc, f, u, h3, h4, _, _, h7, h8, _⟩
  · rcases hc with hc | hc
    · rw [har] at hc; cases hc
    · unfold stillCurrent at hc
      cases hu : w.ls.utd key with
      | none => simp [hu] at hc
      | some u =>
        cases u with
        | never => simp [hu] at hc
        | mtime loc m =>
          simp only [hu] at hc
          cases hf : w.fs loc with
          | none => simp [hf] at hc
          | some f =>
            simp only [hf, beq_iff_eq] at hc
            obtain ⟨h1, _, h3⟩ := hi.coherent key t (alookup_mem hl) loc m hu
            exact ⟨f, by rw [← h1]; exact hf, h3 f hf hc⟩
  · exact ⟨f, by rw [h7]; exact h3, h8.symm⟩


theorem firstOnPath_some {fs : FS} {key : Key} {entries : List Entry} {loc : Loc} {f : File}
    (h : firstOnPath fs key entries = some (loc, f)) : fs loc = some f := by
  induction entries with
  | nil => simp [firstOnPath] at h
  | cons e rest ih =>
    unfold firstOnPath at h
    cases hl : locate e key with
    | none => simp only [hl] at h; exact ih h
    | some l =>
      simp only [hl] at h
      cases hf : fs l with
      | none => simp only [hf] at h; exact ih h
      | some f' =>
        simp only [hf, Option.some.injEq, Prod.mk.injEq] at h
        obtain ⟨rfl, rfl⟩ := h
        exact hf

/-- the hypothesis that excludes finding C15-shadow: whenever this request would be served from
    the cache, the cached template's file is the one found first on the search path now -/
def NoShadow (cfg : Cfg) (w : World) (r : Req) : Prop :=
  ∀ key t0, resolve cfg.path.isEmpty r = some key → alookup key w.ls.cache.items = some t0 →
    stillCurrent w.fs w.ls key = true →
    ∃ entries isabs f, searchPath cfg r key = some (entries, isabs) ∧
      firstOnPath w.fs key entries = some (t0.loc, f)

/-- under `NoShadow` the full statement holds: the returned template has the current content of
    the file found first on the search path -/
theorem load_current_first {cfg : Cfg} {w : World} {r : Req} {ls' : LState} {t : Tmpl}
    (hi : Inv w) (har : cfg.autoReload = true) (hf : r.fault = .none) (hns : NoShadow cfg w r)
    (h : load cfg w.fs w.ls r = some (ls', .ok t)) :
    ∃ key entries isabs f, resolve cfg.path.isEmpty r = some key ∧
      searchPath cfg r key = some (entries, isabs) ∧
      firstOnPath w.fs key entries = some (t.loc, f) ∧ f.content = t.content := by
  obtain ⟨key, hk, hok⟩ := load_ok h
  rcases hok with ⟨hl, hc, _⟩ | ⟨_, _, _, _, _, _, _, _, _, _, _, h11⟩
  · have hcur : stillCurrent w.fs w.ls key = true := by
      rcases hc with hc | hc
      · rw [har] at hc; cases hc
      · exact hc
    obtain ⟨entries, isabs, f, hsp, hfp⟩ := hns key t hk hl hcur
    obtain ⟨f', hf', hcont⟩ := load_current hi har h
    have := firstOnPath_some hfp
    rw [hf'] at this
    have e : f' = f := Option.some.inj this
    subst e
    exact ⟨key, entries, isabs, f', hk, hsp, hfp, hcont⟩
  · obtain ⟨key', entries, isabs, f, hk', hsp, hfp, _, ht⟩ := load_parses_first h h11 hf
    refine ⟨key', entries, isabs, f, hk', hsp, hfp, ?_⟩
    rw [ht]

/-! ### more invariants over histories -/

theorem astep_cap {K V : Type} [DecidableEq K] (a : ALru K V) (op : Op K V) : (astep a op).1.cap = a.cap := by
  cases op <;> simp only [astep]
  split <;> rfl

theorem touched_cap (s : LState) (key : Key) : (touched s key).cache.cap = s.cache.cap := by
  unfold touched
  cases alookup key s.cache.items with
  | none => rfl
  | some v => exact astep_cap _ _

theorem load_cap {cfg : Cfg} {fs : FS} {s s' : LState} {r : Req} {res : Res}
    (h : load cfg fs s r = some (s', res)) : s'.cache.cap = s.cache.cap := by
  obtain ⟨key, _, he⟩ := load_effect h
  cases res with
  | err e => rw [(he.failed e rfl).1, touched_cap]
  | ok t =>
    rcases he.ok t rfl with ⟨_, hc, _⟩ | ⟨_, _, hc, _⟩
    · rw [hc, touched_cap]
    · rw [hc, astep_cap, touched_cap]

theorem hstep_cap (cfg : Cfg) (w : World) (op : HOp) : (hstep cfg w op).1.ls.cache.cap = w.ls.cache.cap := by
  cases op with
  | write _ _ _ => rfl
  | touch loc => simp only [hstep]; split <;> rfl
  | delete _ => rfl
  | load r =>
    simp only [hstep]
    cases hl : load cfg w.fs w.ls r with
    | none => rfl
    | some p => exact load_cap hl

theorem hrun_cap (cfg : Cfg) (w : World) (ops : List HOp) : (hrun cfg w ops).1.ls.cache.cap = w.ls.cache.cap := by
  induction ops generalizing w with
  | nil => rfl
  | cons op ops ih => simp only [hrun]; rw [ih, hstep_cap]

/-- callbacks and parses go together -/
structure CbInv (cfg : Cfg) (s : LState) : Prop where
  same : cfg.hasCallback = true → s.cbLog = s.parsed
  nodup : s.parsed.Nodup
  old : ∀ o ∈ s.parsed, o < s.nextObj

theorem cbInv_load {cfg : Cfg} {fs : FS} {s s' : LState} {r : Req} {res : Res}
    (hi : CbInv cfg s) (h : load cfg fs s r = some (s', res)) : CbInv cfg s' := by
  obtain ⟨key, _, he⟩ := load_effect h
  rcases he.counters with ⟨h1, h2, h3⟩ | ⟨h1, h2, h3⟩
  · exact ⟨fun hc => by rw [h2, h3]; exact hi.same hc, by rw [h2]; exact hi.nodup, by rw [h1, h2]; exact hi.old⟩
  · refine ⟨fun hc => by rw [h2, h3, hc, hi.same hc]; rfl, ?_, ?_⟩
    · rw [h2]
      exact List.nodup_cons.mpr ⟨fun hm => Nat.lt_irrefl _ (hi.old _ hm), hi.nodup⟩
    · rw [h1, h2]
      intro o ho
      rcases List.mem_cons.mp ho with rfl | ho
      · exact Nat.lt_succ_self _
      · exact Nat.lt_succ_of_lt (hi.old o ho)

theorem cbInv_hrun {cfg : Cfg} {w : World} (hi : CbInv cfg w.ls) (ops : List HOp) :
    CbInv cfg (hrun cfg w ops).1.ls := by
  induction ops generalizing w with
  | nil => exact hi
  | cons op ops ih =>
    simp only [hrun]
    apply ih
    cases op with
    | write _ _ _ => exact hi
    | touch loc => simp only [hstep]; split <;> exact hi
    | delete _ => exact hi
    | load r =>
      simp only [hstep]
      cases hl : load cfg w.fs w.ls r with
      | none => exact hi
      | some p => exact cbInv_load hi hl

theorem alookup_aerase_ne {K V : Type} [DecidableEq K] {l : List (K × V)} {k k' : K} (h : k' ≠ k) :
    alookup k' (aerase k l) = alookup k' l := by
  induction l with
  | nil => rfl
  | cons p r ih =>
    obtain ⟨k0, v0⟩ := p
    by_cases h0 : k0 = k
    · subst h0
      have : aerase k0 ((k0, v0) :: r) = aerase k0 r := by simp [aerase]
      rw [this, ih]
      have : k0 ≠ k' := fun e => h e.symm
      simp [alookup, this]
    · have : aerase k ((k0, v0) :: r) = (k0, v0) :: aerase k r := by simp [aerase, h0]
      rw [this]
      simp only [alookup, ih]

/-- the lookup marks a use; the mapping stays the same -/
theorem alookup_touched (s : LState) (key k : Key) :
    alookup k (touched s key).cache.items = alookup k s.cache.items := by
  unfold touched
  cases hl : alookup key s.cache.items with
  | none => rfl
  | some v =>
    simp only [astep, hl]
    by_cases hk : key = k
    · subst hk; simp [alookup, hl]
    · simp only [alookup, hk, ↓reduceIte]
      exact alookup_aerase_ne (fun e => hk e.symm)

end Genshi.Loader
